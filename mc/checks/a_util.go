package checks

// Helpers shared by the checks of batch "a" (C01..C04).

import (
	"bytes"
	"compress/zlib"
	"crypto/sha1"
	"crypto/sha256"
	"encoding/binary"
	"encoding/hex"
	"encoding/json"
	"fmt"
	"os"
	"path/filepath"
	"runtime/debug"
	"strings"
	"sync"

	"github.com/go-git/go-billy/v6/osfs"
	"github.com/go-git/go-git/v6/plumbing"
	"github.com/go-git/go-git/v6/plumbing/cache"
	"github.com/go-git/go-git/v6/storage/filesystem"

	"verifmc/fw"
)

// aOpenStorage opens go-git's filesystem storage on an existing .git directory.
func aOpenStorage(dotgit string, o filesystem.Options) *filesystem.Storage {
	return filesystem.NewStorageWithOptions(osfs.New(dotgit), cache.NewObjectLRUDefault(), o)
}

// aDotGit returns the .git directory of a repository created by c.InitRepo.
func aDotGit(dir string, bare bool) string {
	if bare {
		return dir
	}
	return filepath.Join(dir, ".git")
}

func aMustWrite(path string, data []byte) {
	if err := os.WriteFile(path, data, 0o644); err != nil {
		fw.Abort("write %s: %v", path, err)
	}
}

// aGuard runs f and converts a panic inside go-git code into an error string
// (a panic in the code under test is a property violation, not an engine error).
func aGuard(f func()) (panicked string) {
	defer func() {
		if r := recover(); r != nil {
			// fw.Abort panics with an unexported type; recognise it by its
			// formatted type name so that engine errors keep propagating.
			if strings.Contains(fmt.Sprintf("%T", r), "engineAbort") {
				panic(r)
			}
			st := string(debug.Stack())
			if len(st) > 1500 {
				st = st[:1500]
			}
			panicked = fmt.Sprintf("panic: %v\n%s", r, st)
		}
	}()
	f()
	return ""
}

// aHashObjectPaths returns git's object id for every file in paths, typed t,
// using one `git hash-object --literally --stdin-paths` process; with write the
// objects are also stored (loose) in g's repository.
func aHashObjectPaths(g *fw.Git, t string, paths []string, write bool) []string {
	args := []string{"hash-object", "-t", t, "--literally", "--stdin-paths"}
	if write {
		args = append(args, "-w")
	}
	r := g.MustRunIn([]byte(strings.Join(paths, "\n")+"\n"), args...)
	ids := strings.Split(strings.TrimRight(string(r.Out), "\n"), "\n")
	if len(ids) != len(paths) {
		fw.Abort("hash-object: %d ids for %d paths", len(ids), len(paths))
	}
	return ids
}

// aHashObjectData stores each data blob as an object of type t (one git
// process for all) and returns the ids.
func aHashObjectData(c *fw.Ctx, g *fw.Git, t string, datas [][]byte, write bool) []string {
	dir := c.TempDir("hobj")
	paths := make([]string, len(datas))
	for i, d := range datas {
		paths[i] = filepath.Join(dir, fmt.Sprintf("%07d", i))
		aMustWrite(paths[i], d)
	}
	ids := aHashObjectPaths(g, t, paths, write)
	os.RemoveAll(dir)
	return ids
}

func aTypeOf(s string) plumbing.ObjectType {
	switch s {
	case "blob":
		return plumbing.BlobObject
	case "tree":
		return plumbing.TreeObject
	case "commit":
		return plumbing.CommitObject
	case "tag":
		return plumbing.TagObject
	}
	fw.Abort("bad type %q", s)
	return 0
}

func aShort(b []byte) string {
	if len(b) > 64 {
		return fmt.Sprintf("%s…(%d bytes)", fw.Q(string(b[:48])), len(b))
	}
	return fw.Q(string(b))
}

func aEq(a, b []byte) bool { return bytes.Equal(a, b) }

// ---- storing many raw objects in a git repository through one process

// aObj is one raw object to store.
type aObj struct {
	Type string
	Data []byte
}

// aRawID computes the object id with the Go standard library (sha1/sha256);
// aStoreObjects verifies every id against git afterwards.
func aRawID(format, typ string, data []byte) string {
	hdr := fmt.Sprintf("%s %d\x00", typ, len(data))
	if format == "sha256" {
		h := sha256.New()
		h.Write([]byte(hdr))
		h.Write(data)
		return hex.EncodeToString(h.Sum(nil))
	}
	h := sha1.New()
	h.Write([]byte(hdr))
	h.Write(data)
	return hex.EncodeToString(h.Sum(nil))
}

// aStoreObjects writes objs as one version-2 pack (undeltified) and feeds it
// to `git index-pack --stdin` in g's repository. Returns the ids (harness
// computed); git must afterwards know every id with the right type and size,
// otherwise the machinery is broken (engine error).
func aStoreObjects(g *fw.Git, format string, objs []aObj) []string {
	ids := make([]string, len(objs))
	if len(objs) == 0 {
		return ids
	}
	// de-duplicate (index-pack tolerates duplicates but there is no point)
	seen := map[string]bool{}
	var uniq []int
	for i, o := range objs {
		ids[i] = aRawID(format, o.Type, o.Data)
		if !seen[ids[i]] {
			seen[ids[i]] = true
			uniq = append(uniq, i)
		}
	}
	var pack bytes.Buffer
	pack.WriteString("PACK")
	binary.Write(&pack, binary.BigEndian, uint32(2))
	binary.Write(&pack, binary.BigEndian, uint32(len(uniq)))
	tcode := map[string]byte{"commit": 1, "tree": 2, "blob": 3, "tag": 4}
	zw, _ := zlib.NewWriterLevel(&pack, zlib.BestSpeed)
	for _, i := range uniq {
		o := objs[i]
		tc, ok := tcode[o.Type]
		if !ok {
			fw.Abort("aStoreObjects: type %q", o.Type)
		}
		sz := uint64(len(o.Data))
		b := tc<<4 | byte(sz&0x0f)
		sz >>= 4
		for sz > 0 {
			pack.WriteByte(b | 0x80)
			b = byte(sz & 0x7f)
			sz >>= 7
		}
		pack.WriteByte(b)
		zw.Reset(&pack)
		zw.Write(o.Data)
		zw.Close()
	}
	if format == "sha256" {
		s := sha256.Sum256(pack.Bytes())
		pack.Write(s[:])
	} else {
		s := sha1.Sum(pack.Bytes())
		pack.Write(s[:])
	}
	g.MustRunIn(pack.Bytes(), "index-pack", "--stdin")
	// verify
	var q []string
	for _, i := range uniq {
		q = append(q, ids[i])
	}
	r := g.MustRunIn([]byte(strings.Join(q, "\n")+"\n"), "cat-file", "--batch-check")
	lines := strings.Split(strings.TrimRight(string(r.Out), "\n"), "\n")
	if len(lines) != len(uniq) {
		fw.Abort("aStoreObjects: %d answers for %d ids", len(lines), len(uniq))
	}
	for k, i := range uniq {
		want := fmt.Sprintf("%s %s %d", ids[i], objs[i].Type, len(objs[i].Data))
		if lines[k] != want {
			fw.Abort("aStoreObjects: git says %q, expected %q", lines[k], want)
		}
	}
	return ids
}

// aFail is c.Fail plus an optional dump of (key, what) lines to the file named
// by VERIF_A_KEYS (development aid: the framework lists only the first 25
// violations).
var aKeysMu sync.Mutex

func aFail(c *fw.Ctx, key, what string, replay any) {
	if p := os.Getenv("VERIF_A_KEYS"); p != "" {
		aKeysMu.Lock()
		if f, err := os.OpenFile(p, os.O_APPEND|os.O_CREATE|os.O_WRONLY, 0o644); err == nil {
			b, _ := json.Marshal(map[string]string{"key": key, "what": what})
			f.Write(append(b, '\n'))
			f.Close()
		}
		aKeysMu.Unlock()
	}
	c.Fail(key, what, replay)
}

package checks

// Helpers shared by the checks of batch "a" (C01..C04).

import (
	"bytes"
	"fmt"
	"os"
	"path/filepath"
	"runtime/debug"
	"strings"

	"github.com/go-git/go-billy/v6/osfs"
	"github.com/go-git/go-git/v6/plumbing"
	"github.com/go-git/go-git/v6/plumbing/cache"
	"github.com/go-git/go-git/v6/storage/filesystem"

	"verifmc/fw"
)

// aOpenStorage opens go-git's filesystem storage on an existing .git directory.
func aOpenStorage(dotgit string, o filesystem.Options) *filesystem.Storage {
	return filesystem.NewStorageWithOptions(osfs.New(dotgit), cache.NewObjectLRUDefault(), o)
}

// aDotGit returns the .git directory of a repository created by c.InitRepo.
func aDotGit(dir string, bare bool) string {
	if bare {
		return dir
	}
	return filepath.Join(dir, ".git")
}

func aMustWrite(path string, data []byte) {
	if err := os.WriteFile(path, data, 0o644); err != nil {
		fw.Abort("write %s: %v", path, err)
	}
}

// aGuard runs f and converts a panic inside go-git code into an error string
// (a panic in the code under test is a property violation, not an engine error).
func aGuard(f func()) (panicked string) {
	defer func() {
		if r := recover(); r != nil {
			// fw.Abort panics with an unexported type; recognise it by its
			// formatted type name so that engine errors keep propagating.
			if strings.Contains(fmt.Sprintf("%T", r), "engineAbort") {
				panic(r)
			}
			st := string(debug.Stack())
			if len(st) > 1500 {
				st = st[:1500]
			}
			panicked = fmt.Sprintf("panic: %v\n%s", r, st)
		}
	}()
	f()
	return ""
}

// aHashObjectPaths returns git's object id for every file in paths, typed t,
// using one `git hash-object --literally --stdin-paths` process; with write the
// objects are also stored (loose) in g's repository.
func aHashObjectPaths(g *fw.Git, t string, paths []string, write bool) []string {
	args := []string{"hash-object", "-t", t, "--literally", "--stdin-paths"}
	if write {
		args = append(args, "-w")
	}
	r := g.MustRunIn([]byte(strings.Join(paths, "\n")+"\n"), args...)
	ids := strings.Split(strings.TrimRight(string(r.Out), "\n"), "\n")
	if len(ids) != len(paths) {
		fw.Abort("hash-object: %d ids for %d paths", len(ids), len(paths))
	}
	return ids
}

// aHashObjectData stores each data blob as an object of type t (one git
// process for all) and returns the ids.
func aHashObjectData(c *fw.Ctx, g *fw.Git, t string, datas [][]byte, write bool) []string {
	dir := c.TempDir("hobj")
	paths := make([]string, len(datas))
	for i, d := range datas {
		paths[i] = filepath.Join(dir, fmt.Sprintf("%07d", i))
		aMustWrite(paths[i], d)
	}
	ids := aHashObjectPaths(g, t, paths, write)
	os.RemoveAll(dir)
	return ids
}

func aTypeOf(s string) plumbing.ObjectType {
	switch s {
	case "blob":
		return plumbing.BlobObject
	case "tree":
		return plumbing.TreeObject
	case "commit":
		return plumbing.CommitObject
	case "tag":
		return plumbing.TagObject
	}
	fw.Abort("bad type %q", s)
	return 0
}

func aShort(b []byte) string {
	if len(b) > 64 {
		return fmt.Sprintf("%s…(%d bytes)", fw.Q(string(b[:48])), len(b))
	}
	return fw.Q(string(b))
}

func aEq(a, b []byte) bool { return bytes.Equal(a, b) }

package checks

// Shared helpers of batch "b" (C06..C09): an independent pack/idx reader and
// writer (no go-git code), an independent object hasher, and the harness that
// drives go-git's pack parser in its different modes.

import (
	"bytes"
	"compress/zlib"
	"crypto/sha1"
	"crypto/sha256"
	"encoding/binary"
	"encoding/hex"
	"fmt"
	"hash"
	"hash/adler32"
	"hash/crc32"
	"io"
	"os"
	"path/filepath"
	"sort"
	"strings"
	"sync"

	"github.com/go-git/go-billy/v6"
	"github.com/go-git/go-billy/v6/memfs"
	"github.com/go-git/go-billy/v6/osfs"
	"github.com/go-git/go-git/v6/plumbing"
	"github.com/go-git/go-git/v6/plumbing/cache"
	formatcfg "github.com/go-git/go-git/v6/plumbing/format/config"
	"github.com/go-git/go-git/v6/plumbing/format/packfile"
	"github.com/go-git/go-git/v6/plumbing/storer"
	"github.com/go-git/go-git/v6/storage/filesystem"
	"github.com/go-git/go-git/v6/storage/memory"

	"verifmc/fw"
)

// ---------------------------------------------------------------------------
// independent primitives

const (
	bTCommit = 1
	bTTree   = 2
	bTBlob   = 3
	bTTag    = 4
	bTOfs    = 6
	bTRef    = 7
)

var bTypeName = map[int]string{1: "commit", 2: "tree", 3: "blob", 4: "tag", 6: "ofs-delta", 7: "ref-delta"}

func bTypeCode(name string) int {
	switch name {
	case "commit":
		return 1
	case "tree":
		return 2
	case "blob":
		return 3
	case "tag":
		return 4
	}
	return 0
}

// bEntryHdr encodes the type+size header of a pack entry.
func bEntryHdr(typ int, size uint64) []byte {
	b := byte(typ<<4) | byte(size&15)
	size >>= 4
	var out []byte
	for size != 0 {
		out = append(out, b|0x80)
		b = byte(size & 0x7f)
		size >>= 7
	}
	return append(out, b)
}

// bOfsEnc encodes the negative offset of an OFS_DELTA entry.
func bOfsEnc(n uint64) []byte {
	out := []byte{byte(n & 0x7f)}
	n >>= 7
	for n != 0 {
		n--
		out = append([]byte{0x80 | byte(n&0x7f)}, out...)
		n >>= 7
	}
	return out
}

// bVarint is the little-endian base-128 size used in delta headers.
func bVarint(n uint64) []byte {
	var out []byte
	for {
		b := byte(n & 0x7f)
		n >>= 7
		if n == 0 {
			return append(out, b)
		}
		out = append(out, b|0x80)
	}
}

// bCopyOp encodes a delta copy instruction (zero bytes are omitted, as git does).
func bCopyOp(off, size uint64) []byte {
	cmd := byte(0x80)
	var ps []byte
	for k := uint(0); k < 4; k++ {
		if b := byte(off >> (8 * k)); b != 0 {
			cmd |= 1 << k
			ps = append(ps, b)
		}
	}
	if size != 0x10000 {
		for k := uint(0); k < 3; k++ {
			if b := byte(size >> (8 * k)); b != 0 {
				cmd |= 0x10 << k
				ps = append(ps, b)
			}
		}
	}
	return append([]byte{cmd}, ps...)
}

// bStored wraps data in a zlib stream made of stored (uncompressed) blocks.
func bStored(data []byte) []byte {
	out := make([]byte, 0, len(data)+16)
	out = append(out, 0x78, 0x01)
	rest := data
	for {
		n := len(rest)
		final := byte(1)
		if n > 65535 {
			n = 65535
			final = 0
		}
		out = append(out, final, byte(n), byte(n>>8), ^byte(n), ^byte(n>>8))
		out = append(out, rest[:n]...)
		rest = rest[n:]
		if final == 1 {
			break
		}
	}
	var a [4]byte
	binary.BigEndian.PutUint32(a[:], adler32.Checksum(data))
	return append(out, a[:]...)
}

var bZPool = sync.Pool{New: func() any { w, _ := zlib.NewWriterLevel(io.Discard, zlib.BestSpeed); return w }}

// bDeflate is a real deflate stream (level 1).
func bDeflate(data []byte) []byte {
	var buf bytes.Buffer
	w := bZPool.Get().(*zlib.Writer)
	w.Reset(&buf)
	w.Write(data)
	w.Close()
	bZPool.Put(w)
	return buf.Bytes()
}

func bInflate(z []byte) ([]byte, int, error) {
	br := bytes.NewReader(z)
	r, err := zlib.NewReader(br)
	if err != nil {
		return nil, 0, err
	}
	out, err := io.ReadAll(r)
	return out, len(z) - br.Len(), err
}

func bNewHash(sha256fmt bool) hash.Hash {
	if sha256fmt {
		return sha256.New()
	}
	return sha1.New()
}

// bOID is git's object name computed with the standard library only.
func bOID(sha256fmt bool, typ string, data []byte) []byte {
	h := bNewHash(sha256fmt)
	fmt.Fprintf(h, "%s %d\x00", typ, len(data))
	h.Write(data)
	return h.Sum(nil)
}

func bOIDHex(sha256fmt bool, typ string, data []byte) string {
	return hex.EncodeToString(bOID(sha256fmt, typ, data))
}

func bFmtName(sha256fmt bool) string {
	if sha256fmt {
		return "sha256"
	}
	return "sha1"
}

func bObjFormat(sha256fmt bool) formatcfg.ObjectFormat {
	if sha256fmt {
		return formatcfg.SHA256
	}
	return formatcfg.SHA1
}

// bPack assembles a version-2 pack byte by byte.
type bPack struct {
	buf    bytes.Buffer
	n      uint32
	sha256 bool
	Offs   []int64
}

func bNewPack(sha256fmt bool) *bPack {
	p := &bPack{sha256: sha256fmt}
	p.buf.Write([]byte{'P', 'A', 'C', 'K', 0, 0, 0, 2, 0, 0, 0, 0})
	return p
}

// Raw appends an entry: header(typ,size) + extra (ofs bytes or base id) + z.
func (p *bPack) Raw(typ int, size uint64, extra, z []byte) int64 {
	off := int64(p.buf.Len())
	p.buf.Write(bEntryHdr(typ, size))
	p.buf.Write(extra)
	p.buf.Write(z)
	p.n++
	p.Offs = append(p.Offs, off)
	return off
}

// Obj appends a whole object.
func (p *bPack) Obj(typ int, data []byte, stored bool) int64 {
	if stored {
		return p.Raw(typ, uint64(len(data)), nil, bStored(data))
	}
	return p.Raw(typ, uint64(len(data)), nil, bDeflate(data))
}

// Ofs appends an OFS_DELTA entry against the entry at baseOff.
func (p *bPack) Ofs(baseOff int64, delta []byte, stored bool) int64 {
	off := int64(p.buf.Len())
	z := bStored(delta)
	if !stored {
		z = bDeflate(delta)
	}
	return p.Raw(bTOfs, uint64(len(delta)), bOfsEnc(uint64(off-baseOff)), z)
}

// Ref appends a REF_DELTA entry against the object named base.
func (p *bPack) Ref(base []byte, delta []byte, stored bool) int64 {
	z := bStored(delta)
	if !stored {
		z = bDeflate(delta)
	}
	return p.Raw(bTRef, uint64(len(delta)), base, z)
}

// Len is the current length (offset of the next entry).
func (p *bPack) Len() int64 { return int64(p.buf.Len()) }

// Bytes finalises a copy: object count and trailer.
func (p *bPack) Bytes() []byte {
	out := append([]byte{}, p.buf.Bytes()...)
	binary.BigEndian.PutUint32(out[8:], p.n)
	return bSealPack(out, p.sha256)
}

// bSealPack appends the trailer checksum to body.
func bSealPack(body []byte, sha256fmt bool) []byte {
	h := bNewHash(sha256fmt)
	h.Write(body)
	return h.Sum(body)
}

// bReseal recomputes the trailer of a complete pack in place (copy returned).
func bReseal(pack []byte, sha256fmt bool) []byte {
	hs := 20
	if sha256fmt {
		hs = 32
	}
	if len(pack) < hs {
		return append([]byte{}, pack...)
	}
	return bSealPack(append([]byte{}, pack[:len(pack)-hs]...), sha256fmt)
}

// ---------------------------------------------------------------------------
// independent pack reader (used to cut packs written by git into entries)

type bEntry struct {
	Off, End   int64 // [Off,End) raw bytes of the entry
	Type       int
	Size       uint64 // declared inflated size
	HdrLen     int    // bytes of type/size header
	BaseOff    int64  // OFS: absolute offset of base
	BaseID     []byte // REF
	ZOff       int64  // offset of the zlib stream
	Data       []byte // inflated bytes (delta stream for deltas)
	OID        string // resolved name (hex) when resolvable
	RType      string // resolved type
	RData      []byte // resolved content
	Depth      int
	Unresolved bool
}

// bReadPack parses a well-formed pack (as written by git). ext supplies
// external bases of a thin pack (hex id -> type,data).
func bReadPack(pack []byte, sha256fmt bool, ext map[string]bObj) (es []*bEntry, err error) {
	defer func() {
		if r := recover(); r != nil { // ran off the end of a malformed pack
			es, err = nil, fmt.Errorf("malformed pack: %v", r)
		}
	}()
	return bReadPackX(pack, sha256fmt, ext)
}

func bReadPackX(pack []byte, sha256fmt bool, ext map[string]bObj) ([]*bEntry, error) {
	hs := 20
	if sha256fmt {
		hs = 32
	}
	if len(pack) < 12+hs || string(pack[:4]) != "PACK" {
		return nil, fmt.Errorf("not a pack")
	}
	n := int(binary.BigEndian.Uint32(pack[8:]))
	pos := int64(12)
	var es []*bEntry
	byOff := map[int64]*bEntry{}
	for i := 0; i < n; i++ {
		e := &bEntry{Off: pos}
		c := pack[pos]
		pos++
		e.Type = int(c>>4) & 7
		e.Size = uint64(c & 15)
		shift := uint(4)
		for c&0x80 != 0 {
			c = pack[pos]
			pos++
			e.Size |= uint64(c&0x7f) << shift
			shift += 7
		}
		e.HdrLen = int(pos - e.Off)
		switch e.Type {
		case bTOfs:
			c = pack[pos]
			pos++
			v := uint64(c & 0x7f)
			for c&0x80 != 0 {
				v++
				c = pack[pos]
				pos++
				v = v<<7 | uint64(c&0x7f)
			}
			e.BaseOff = e.Off - int64(v)
		case bTRef:
			e.BaseID = append([]byte{}, pack[pos:pos+int64(hs)]...)
			pos += int64(hs)
		}
		e.ZOff = pos
		data, used, err := bInflate(pack[pos : len(pack)-hs])
		if err != nil {
			return nil, fmt.Errorf("entry %d at %d: %v", i, e.Off, err)
		}
		e.Data = data
		pos += int64(used)
		e.End = pos
		es = append(es, e)
		byOff[e.Off] = e
	}
	if pos != int64(len(pack)-hs) {
		return nil, fmt.Errorf("trailing bytes: %d != %d", pos, len(pack)-hs)
	}
	// resolve
	byID := map[string]*bEntry{}
	for _, e := range es {
		if e.Type <= 4 {
			e.RType, e.RData = bTypeName[e.Type], e.Data
			e.OID = bOIDHex(sha256fmt, e.RType, e.RData)
			byID[e.OID] = e
		}
	}
	for progress := true; progress; {
		progress = false
		for _, e := range es {
			if e.OID != "" || e.Type <= 4 {
				continue
			}
			var bt string
			var bd []byte
			depth := 0
			if e.Type == bTOfs {
				b := byOff[e.BaseOff]
				if b == nil || b.OID == "" {
					continue
				}
				bt, bd, depth = b.RType, b.RData, b.Depth
			} else {
				id := hex.EncodeToString(e.BaseID)
				if b := byID[id]; b != nil {
					bt, bd, depth = b.RType, b.RData, b.Depth
				} else if x, ok := ext[id]; ok {
					bt, bd = x.Type, x.Data
				} else {
					continue
				}
			}
			out, reason := bGitPatchDelta(bd, e.Data)
			if reason != "" {
				return nil, fmt.Errorf("delta at %d does not apply: %s", e.Off, reason)
			}
			e.RType, e.RData, e.Depth = bt, out, depth+1
			e.OID = bOIDHex(sha256fmt, bt, out)
			if _, dup := byID[e.OID]; !dup {
				byID[e.OID] = e
			}
			progress = true
		}
	}
	for _, e := range es {
		if e.OID == "" {
			e.Unresolved = true
		}
	}
	return es, nil
}

// ---------------------------------------------------------------------------
// independent idx v2 reader/writer

type bIdxEnt struct {
	OID []byte
	CRC uint32
	Off uint64
}

// bWriteIdx writes a version-2 index (entries are sorted here; duplicates kept).
func bWriteIdx(ents []bIdxEnt, packSum []byte, sha256fmt bool) []byte {
	es := append([]bIdxEnt{}, ents...)
	sort.SliceStable(es, func(i, j int) bool { return bytes.Compare(es[i].OID, es[j].OID) < 0 })
	var b bytes.Buffer
	b.Write([]byte{0xff, 't', 'O', 'c', 0, 0, 0, 2})
	var fan [256]uint32
	for _, e := range es {
		fan[e.OID[0]]++
	}
	var cum uint32
	for i := 0; i < 256; i++ {
		cum += fan[i]
		binary.Write(&b, binary.BigEndian, cum)
	}
	for _, e := range es {
		b.Write(e.OID)
	}
	for _, e := range es {
		binary.Write(&b, binary.BigEndian, e.CRC)
	}
	var big []uint64
	for _, e := range es {
		if e.Off > 0x7fffffff {
			binary.Write(&b, binary.BigEndian, uint32(0x80000000|len(big)))
			big = append(big, e.Off)
		} else {
			binary.Write(&b, binary.BigEndian, uint32(e.Off))
		}
	}
	for _, o := range big {
		binary.Write(&b, binary.BigEndian, o)
	}
	b.Write(packSum)
	h := bNewHash(sha256fmt)
	h.Write(b.Bytes())
	return h.Sum(b.Bytes())
}

// bReadIdx decodes a version-2 index.
func bReadIdx(idx []byte, sha256fmt bool) ([]bIdxEnt, error) {
	hs := 20
	if sha256fmt {
		hs = 32
	}
	if len(idx) < 8+1024+2*hs || !bytes.Equal(idx[:8], []byte{0xff, 't', 'O', 'c', 0, 0, 0, 2}) {
		return nil, fmt.Errorf("not an idx v2")
	}
	n := int(binary.BigEndian.Uint32(idx[8+255*4:]))
	p := 8 + 1024
	need := p + n*(hs+8) + 2*hs
	if len(idx) < need {
		return nil, fmt.Errorf("short idx")
	}
	out := make([]bIdxEnt, n)
	for i := 0; i < n; i++ {
		out[i].OID = idx[p+i*hs : p+(i+1)*hs]
	}
	p += n * hs
	for i := 0; i < n; i++ {
		out[i].CRC = binary.BigEndian.Uint32(idx[p+4*i:])
	}
	p += 4 * n
	p64 := p + 4*n
	for i := 0; i < n; i++ {
		v := binary.BigEndian.Uint32(idx[p+4*i:])
		if v&0x80000000 != 0 {
			k := int(v & 0x7fffffff)
			if p64+8*k+8 > len(idx)-2*hs {
				return nil, fmt.Errorf("bad 64-bit offset index")
			}
			out[i].Off = binary.BigEndian.Uint64(idx[p64+8*k:])
		} else {
			out[i].Off = uint64(v)
		}
	}
	return out, nil
}

// ---------------------------------------------------------------------------
// git's patch_delta(), transcribed (patch-delta.c, delta.h of git 2.39).
// reason == "" means accepted. minSize is DELTA_SIZE_MIN (4) for git's real
// behaviour; the relaxed variant (minSize 0) is used only to classify findings.

type bDeltaRes struct {
	Out      []byte
	Reason   string
	HdrTrunc bool // a size varint was cut short by the end of the delta
	Target   uint64
}

func bGitPatchDelta(src, delta []byte) ([]byte, string) {
	r := bGitPatchDeltaX(src, delta, 4)
	return r.Out, r.Reason
}

func bGitPatchDeltaX(src, delta []byte, minSize int) (res bDeltaRes) {
	if len(delta) < minSize {
		res.Reason = "delta-shorter-than-4-bytes"
		return
	}
	pos, top := 0, len(delta)
	overflow := false
	hdr := func() uint64 {
		// get_delta_hdr_size: do { cmd = *data++; size |= st_left_shift(cmd&0x7f, i); i += 7 } while (cmd & 0x80 && data < top)
		var size uint64
		i := uint(0)
		for {
			var cmd byte
			if pos < top {
				cmd = delta[pos]
			} // else: the NUL that xmallocz() puts after the buffer
			pos++
			v := uint64(cmd & 0x7f)
			if i >= 64 {
				if v != 0 {
					overflow = true
				}
			} else {
				if v > (^uint64(0))>>i {
					overflow = true
				}
				size |= v << i
			}
			i += 7
			if cmd&0x80 == 0 {
				break
			}
			if pos >= top {
				res.HdrTrunc = true
				break
			}
		}
		return size
	}
	size := hdr()
	if overflow {
		res.Reason = "size-varint-overflow"
		return
	}
	if size != uint64(len(src)) {
		res.Reason = "source-size-mismatch"
		return
	}
	size = hdr()
	if overflow {
		res.Reason = "size-varint-overflow"
		return
	}
	res.Target = size
	var out []byte
	for pos < top {
		cmd := delta[pos]
		pos++
		if cmd&0x80 != 0 {
			var cpOff, cpSize uint64
			for k := uint(0); k < 7; k++ {
				if cmd&(1<<k) != 0 {
					if pos >= top {
						res.Reason = "copy-parameter-truncated"
						return
					}
					v := uint64(delta[pos])
					pos++
					if k < 4 {
						cpOff |= v << (8 * k)
					} else {
						cpSize |= v << (8 * (k - 4))
					}
				}
			}
			if cpSize == 0 {
				cpSize = 0x10000
			}
			if cpOff+cpSize > uint64(len(src)) {
				res.Reason = "copy-outside-source"
				return
			}
			if cpSize > size {
				res.Reason = "copy-exceeds-target-size"
				return
			}
			out = append(out, src[cpOff:cpOff+cpSize]...)
			size -= cpSize
		} else if cmd != 0 {
			if uint64(cmd) > size {
				res.Reason = "insert-exceeds-target-size"
				return
			}
			if int(cmd) > top-pos {
				res.Reason = "insert-truncated"
				return
			}
			out = append(out, delta[pos:pos+int(cmd)]...)
			pos += int(cmd)
			size -= uint64(cmd)
		} else {
			res.Reason = "opcode-0"
			return
		}
	}
	if pos != top {
		res.Reason = "size-header-overruns-delta"
		return
	}
	if size != 0 {
		res.Reason = "target-size-not-reached"
		return
	}
	if out == nil {
		out = []byte{}
	}
	res.Out = out
	return
}

// ---------------------------------------------------------------------------
// driving go-git's parser

type bObj struct {
	Type string
	Data []byte
}

const (
	bModeNone     = iota // no storage, seekable reader
	bModeStream          // no storage, non-seekable reader
	bModeMem             // memory storage
	bModeFS              // filesystem storage (low-memory mode)
	bModeFSHigh          // filesystem storage, HighMemoryMode
	bModeStreamMem       // memory storage, non-seekable reader
)

var bModeNames = []string{"nostorage", "nostorage-stream", "memory", "filesystem-lowmem", "filesystem-highmem", "memory-stream"}

type bSeen struct {
	Hash string
	Pos  int64
	CRC  uint32
	Type string
	Size int64
}

type bObserver struct {
	count   uint32
	seen    []bSeen
	lastT   plumbing.ObjectType
	lastSz  int64
	lastPos int64
	footer  string
}

func (o *bObserver) OnHeader(count uint32) error { o.count = count; return nil }
func (o *bObserver) OnInflatedObjectHeader(t plumbing.ObjectType, sz, pos int64) error {
	o.lastT, o.lastSz, o.lastPos = t, sz, pos
	return nil
}
func (o *bObserver) OnInflatedObjectContent(h plumbing.Hash, pos int64, crc uint32, _ []byte) error {
	s := bSeen{Hash: h.String(), Pos: pos, CRC: crc}
	if o.lastPos == pos {
		s.Type, s.Size = o.lastT.String(), o.lastSz
	}
	o.seen = append(o.seen, s)
	return nil
}
func (o *bObserver) OnFooter(h plumbing.Hash) error { o.footer = h.String(); return nil }

type bParseOut struct {
	Err      error
	Panic    string
	Checksum string
	Seen     []bSeen
	Stored   map[string]bObj // objects found in the storage afterwards (nil without storage)
	StoreErr string
	Extra    []packfile.Observer
}

type bOnlyReader struct{ r io.Reader }

func (o bOnlyReader) Read(p []byte) (int, error) { return o.r.Read(p) }

// bParse runs Parser.Parse on pack in the given mode. pre lists objects put in
// the storage beforehand (thin-pack bases). dir is a scratch dir for fs modes
// ("" = an in-memory billy filesystem).
func bParse(pack []byte, mode int, sha256fmt bool, dir string, pre []bObj, extraObs ...packfile.Observer) (out bParseOut) {
	of := bObjFormat(sha256fmt)
	var st storer.EncodedObjectStorer
	var fsst *filesystem.Storage
	var memst *memory.Storage
	switch mode {
	case bModeMem, bModeStreamMem:
		memst = memory.NewStorage(memory.WithObjectFormat(of))
		st = memst
	case bModeFS, bModeFSHigh:
		var bfs billy.Filesystem
		if dir == "" {
			bfs = memfs.New()
		} else {
			os.RemoveAll(dir)
			os.MkdirAll(dir, 0o755)
			bfs = osfs.New(dir)
		}
		fsst = filesystem.NewStorageWithOptions(bfs, cache.NewObjectLRU(cache.MiByte),
			filesystem.Options{ObjectFormat: of, HighMemoryMode: mode == bModeFSHigh})
		if err := fsst.Init(); err != nil {
			fw.Abort("filesystem storage init: %v", err)
		}
		st = fsst
	}
	for _, o := range pre {
		if st == nil {
			break
		}
		eo := st.NewEncodedObject()
		t, _ := plumbing.ParseObjectType(o.Type)
		eo.SetType(t)
		eo.SetSize(int64(len(o.Data)))
		w, _ := eo.Writer()
		w.Write(o.Data)
		w.Close()
		if _, err := st.SetEncodedObject(eo); err != nil {
			fw.Abort("pre-store object: %v", err)
		}
	}
	obs := &bObserver{}
	var rd io.Reader = bytes.NewReader(pack)
	if mode == bModeStream || mode == bModeStreamMem {
		rd = bOnlyReader{rd}
	}
	func() {
		defer func() {
			if r := recover(); r != nil {
				out.Panic = fmt.Sprint(r)
			}
		}()
		opts := []packfile.ParserOption{packfile.WithObjectFormat(of),
			packfile.WithScannerObservers(append([]packfile.Observer{obs}, extraObs...)...)}
		if st != nil {
			opts = append(opts, packfile.WithStorage(st))
		}
		p := packfile.NewParser(rd, opts...)
		h, err := p.Parse()
		out.Err = err
		if err == nil {
			out.Checksum = h.String()
		}
	}()
	out.Seen = obs.seen
	if st != nil && out.Panic == "" {
		out.Stored = map[string]bObj{}
		func() {
			defer func() {
				if r := recover(); r != nil {
					out.StoreErr = "panic: " + fmt.Sprint(r)
				}
			}()
			it, err := st.IterEncodedObjects(plumbing.AnyObject)
			if err != nil {
				out.StoreErr = err.Error()
				return
			}
			err = it.ForEach(func(o plumbing.EncodedObject) error {
				r, err := o.Reader()
				if err != nil {
					return err
				}
				data, err := io.ReadAll(r)
				r.Close()
				if err != nil {
					return fmt.Errorf("read %s: %w", o.Hash(), err)
				}
				out.Stored[o.Hash().String()] = bObj{o.Type().String(), data}
				return nil
			})
			if err != nil {
				out.StoreErr = err.Error()
			}
		}()
	}
	if fsst != nil {
		fsst.Close()
	}
	return
}

func bSetWithStorage(mode int) bool { return mode != bModeNone && mode != bModeStream }

// ---------------------------------------------------------------------------
// small utilities

func bWriteFile(path string, data []byte) {
	os.MkdirAll(filepath.Dir(path), 0o755)
	if err := os.WriteFile(path, data, 0o644); err != nil {
		fw.Abort("write %s: %v", path, err)
	}
}

func bReadFile(path string) []byte {
	b, err := os.ReadFile(path)
	if err != nil {
		fw.Abort("read %s: %v", path, err)
	}
	return b
}

func bCRC(b []byte) uint32 { return crc32.ChecksumIEEE(b) }

func bFirstLine(b []byte) string {
	s := strings.TrimSpace(string(b))
	if i := strings.IndexByte(s, '\n'); i >= 0 {
		s = s[:i]
	}
	if len(s) > 200 {
		s = s[:200]
	}
	return s
}

func bSortedKeys[V any](m map[string]V) []string {
	var ks []string
	for k := range m {
		ks = append(ks, k)
	}
	sort.Strings(ks)
	return ks
}

// bPattern is the deterministic source of length n used for delta sources.
func bPattern(n int) []byte {
	out := make([]byte, n)
	for i := range out {
		out[i] = byte(33 + (i+i/36+i/1296)%90)
	}
	return out
}

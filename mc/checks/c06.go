package checks

import (
	"bytes"
	"crypto/sha1"
	"encoding/hex"
	"fmt"
	"io"
	"os"
	"path/filepath"
	"regexp"
	"runtime/debug"
	"runtime/pprof"
	"sort"
	"strconv"
	"strings"
	"sync"

	"github.com/go-git/go-git/v6/plumbing"
	"github.com/go-git/go-git/v6/plumbing/format/packfile"

	"verifmc/fw"
)

// C06: delta encoding round-trips; every delta applier agrees with git's
// patch_delta(). The reference is bGitPatchDelta (b_util.go), a transcription
// of patch-delta.c that is replayed against real git on every run.

func init() {
	fw.Register(&fw.Check{ID: "C06", Level: "model_checking", Run: runC06, QuickBudget: 100, ThoroughBudget: 1300})
}

var c06Sigma = []byte{0x00, 0x01, 0x02, 0x03, 0x05, 0x7f, 0x80, 0x81, 0x90, 0x91, 0xb0, 0xff}

const c06SrcCap = 70000

func c06StreamAt(idx int) []byte {
	k := len(c06Sigma)
	l, p := 0, 1
	for idx >= p {
		idx -= p
		p *= k
		l++
	}
	out := make([]byte, l)
	for i := l - 1; i >= 0; i-- {
		out[i] = c06Sigma[idx%k]
		idx /= k
	}
	return out
}

// c06DeclaredSrc decodes the first size varint the way git does.
func c06DeclaredSrc(delta []byte) (uint64, bool) {
	if len(delta) == 0 {
		return 0, false
	}
	var size uint64
	for i, b := range delta {
		if i >= 9 {
			return 0, false
		}
		size |= uint64(b&0x7f) << (7 * uint(i))
		if b&0x80 == 0 {
			break
		}
	}
	return size, true
}

// c06Source picks the source a stream is applied to: the pattern source of
// exactly the declared length (so that the size check passes and the body of
// the delta is exercised) when that length is within the cap.
func c06Source(delta []byte) ([]byte, bool) {
	n, ok := c06DeclaredSrc(delta)
	if !ok || n > c06SrcCap {
		return c06Pattern(4), false
	}
	return c06Pattern(int(n)), true
}

var c06PatCache sync.Map

// c06Pattern is bPattern with sharing (the slices are read-only).
func c06Pattern(n int) []byte {
	if v, ok := c06PatCache.Load(n); ok {
		return v.([]byte)
	}
	b := bPattern(n)
	c06PatCache.Store(n, b)
	return b
}

// ---- appliers --------------------------------------------------------------

const (
	c06PatchDelta = iota
	c06ApplyDelta
	c06Reader
	c06ParserNone
	c06ParserMem
	c06ParserStream
	c06ParserFS
	c06ReaderChunked // ReaderFromDelta fed by a reader that returns at most 7 bytes per Read (as a zlib reader may)
	c06NAppliers
)

var c06ApplierName = []string{"PatchDelta", "ApplyDelta", "ReaderFromDelta", "Parser(no storage)", "Parser(memory storage)", "Parser(no storage, stream)", "Parser(filesystem storage)", "ReaderFromDelta(short reads)"}

// implementation the applier ends in: the key of a finding names it.
var c06Impl = []string{"patchDelta[PatchDelta]", "patchDelta[ApplyDelta]", "ReaderFromDelta", "patchDeltaWriter", "patchDeltaWriter", "patchDeltaWriter", "patchDeltaWriter", "ReaderFromDelta"}

// c06ShortReader returns at most 7 bytes per Read.
type c06ShortReader struct{ r io.Reader }

func (s c06ShortReader) Read(p []byte) (int, error) {
	if len(p) > 7 {
		p = p[:7]
	}
	return s.r.Read(p)
}

type c06Got struct {
	ok    bool
	data  []byte // nil when only the name is known
	oid   string // name reported (parser appliers)
	err   string
	panic string
	extra string // inconsistency noticed while collecting the result
}

// c06Variant selects the object format and the type of the base object for the
// parser appliers (the zero value is a SHA-1 blob).
type c06Variant struct {
	sha256 bool
	typ    int // bTCommit.. ; 0 = blob
}

func (v c06Variant) code() int {
	if v.typ == 0 {
		return bTBlob
	}
	return v.typ
}
func (v c06Variant) name() string { return bTypeName[v.code()] }
func (v c06Variant) String() string {
	return bFmtName(v.sha256) + "/" + v.name()
}

func c06Run(applier int, src, delta []byte, fsdir string) (g c06Got) {
	return c06RunV(applier, src, delta, fsdir, c06Variant{})
}

func c06RunV(applier int, src, delta []byte, fsdir string, v c06Variant) (g c06Got) {
	defer func() {
		if r := recover(); r != nil {
			g = c06Got{panic: fmt.Sprint(r)}
		}
	}()
	switch applier {
	case c06PatchDelta:
		out, err := packfile.PatchDelta(src, delta)
		if err != nil {
			return c06Got{err: err.Error()}
		}
		return c06Got{ok: true, data: append([]byte{}, out...)}
	case c06ApplyDelta:
		base := &plumbing.MemoryObject{}
		base.SetType(plumbing.BlobObject)
		base.Write(src)
		tgt := &plumbing.MemoryObject{}
		tgt.SetType(plumbing.BlobObject)
		err := packfile.ApplyDelta(tgt, base, bytes.NewBuffer(append([]byte{}, delta...)))
		if err != nil {
			return c06Got{err: err.Error()}
		}
		r, _ := tgt.Reader()
		out, _ := io.ReadAll(r)
		g = c06Got{ok: true, data: out}
		if tgt.Size() != int64(len(out)) {
			g.extra = fmt.Sprintf("target size %d but %d bytes", tgt.Size(), len(out))
		}
		return g
	case c06Reader, c06ReaderChunked:
		base := &plumbing.MemoryObject{}
		base.SetType(plumbing.BlobObject)
		base.Write(src)
		var dr io.Reader = bytes.NewReader(delta)
		if applier == c06ReaderChunked {
			dr = c06ShortReader{dr}
		}
		rc, err := packfile.ReaderFromDelta(base, dr)
		if err != nil {
			return c06Got{err: err.Error()}
		}
		out, err := io.ReadAll(rc)
		rc.Close()
		if err != nil {
			return c06Got{err: err.Error()}
		}
		return c06Got{ok: true, data: out}
	}
	// parser appliers: a two-entry pack {blob src, delta}
	p := bNewPack(v.sha256)
	boff := p.Obj(v.code(), src, true)
	var doff int64
	mode := bModeNone
	switch applier {
	case c06ParserNone:
		doff = p.Ofs(boff, delta, true)
	case c06ParserStream:
		mode = bModeStream
		doff = p.Ofs(boff, delta, true)
	case c06ParserMem:
		mode = bModeMem
		doff = p.Ref(bOID(v.sha256, v.name(), src), delta, true)
	case c06ParserFS:
		mode = bModeFS
		doff = p.Ofs(boff, delta, false)
	}
	res := bParse(p.Bytes(), mode, v.sha256, fsdir, nil)
	if res.Panic != "" {
		return c06Got{panic: res.Panic}
	}
	if res.Err != nil {
		return c06Got{err: res.Err.Error()}
	}
	g = c06Got{ok: true}
	for _, s := range res.Seen {
		if s.Pos == doff {
			g.oid = s.Hash
		}
	}
	if g.oid == "" {
		g.extra = "parser succeeded without reporting the delta object"
		return g
	}
	if res.Stored != nil {
		if res.StoreErr != "" {
			g.extra = "storage unreadable after Parse: " + res.StoreErr
			return g
		}
		o, ok := res.Stored[g.oid]
		if !ok {
			g.extra = "object reported by the parser is not in the storage"
			return g
		}
		g.data = o.Data
		if o.Type != v.name() {
			g.extra = "resolved type " + o.Type
		}
		want := 2
		if g.oid == bOIDHex(v.sha256, v.name(), src) {
			want = 1
		}
		if len(res.Stored) != want {
			g.extra = fmt.Sprintf("storage holds %d objects, want %d", len(res.Stored), want)
		}
	}
	return g
}

// c06Judge compares one applier result with the model; returns "" or the
// finding key + description. The key names the implementation and the rule of
// patch_delta that is not honoured, so one defect gives one key.
func c06Judge(applier int, src, delta []byte, g c06Got) (key, what string) {
	return c06JudgeV(applier, src, delta, g, c06Variant{})
}

func c06JudgeV(applier int, src, delta []byte, g c06Got, v c06Variant) (key, what string) {
	impl := c06Impl[applier]
	if g.panic != "" {
		return impl + " panics", "panic: " + g.panic
	}
	strict := bGitPatchDeltaX(src, delta, 4)
	m := bGitPatchDeltaX(src, delta, 0) // the same without DELTA_SIZE_MIN: used to name the rule
	if strict.Reason != "" {
		if !g.ok {
			return "", ""
		}
		reason := m.Reason
		if reason == "" {
			reason = strict.Reason // only the minimum length is violated
		}
		got := "unknown bytes"
		if g.data != nil {
			got = fmt.Sprintf("%d bytes %s", len(g.data), fw.Q(string(c06Clip(g.data))))
			if m.Reason == "" && !bytes.Equal(m.Out, g.data) {
				reason += "+wrong-output"
			}
			if m.Reason != "" && uint64(len(g.data)) < m.Target {
				got += fmt.Sprintf(", PARTIAL: the delta declares %d bytes", m.Target)
			}
		} else if g.oid != "" {
			got = "object " + g.oid
			if m.Reason == "" && g.oid != bOIDHex(v.sha256, v.name(), m.Out) {
				reason += "+wrong-output"
			}
		}
		return impl + " accepts, git rejects: " + reason,
			fmt.Sprintf("%s returned success (%s) for a delta git's patch_delta rejects (%s)", c06ApplierName[applier], got, strict.Reason)
	}
	// git accepts
	if !g.ok {
		feature := "well-formed delta"
		switch {
		case len(src) == 0 && applier == c06PatchDelta:
			feature = "empty source"
		case m.HdrTrunc:
			feature = "size varint cut short by the end of the delta"
		case len(src) == 0:
			feature = "empty source"
		}
		return impl + " rejects, git accepts: " + feature,
			fmt.Sprintf("%s failed (%s) on a delta git applies (result %d bytes)", c06ApplierName[applier], g.err, len(m.Out))
	}
	if g.extra != "" {
		return impl + " inconsistent result", g.extra
	}
	if g.data != nil && !bytes.Equal(g.data, m.Out) {
		return impl + " wrong output", fmt.Sprintf("%s produced %s, git produces %s", c06ApplierName[applier], fw.Q(string(c06Clip(g.data))), fw.Q(string(c06Clip(m.Out))))
	}
	if g.oid != "" && g.oid != bOIDHex(v.sha256, v.name(), m.Out) {
		return impl + " wrong output", fmt.Sprintf("%s names the result %s, git's result hashes to %s", c06ApplierName[applier], g.oid, bOIDHex(v.sha256, v.name(), m.Out))
	}
	return "", ""
}

func c06Clip(b []byte) []byte {
	if len(b) > 24 {
		return b[:24]
	}
	return b
}

// c06Shape summarises the operations of an accepted delta (observation class).
func c06Shape(delta []byte) string {
	pos := 0
	for k := 0; k < 2; k++ {
		for pos < len(delta) && delta[pos]&0x80 != 0 {
			pos++
		}
		pos++
	}
	var sb strings.Builder
	for pos < len(delta) && sb.Len() < 12 {
		c := delta[pos]
		pos++
		if c&0x80 != 0 {
			sb.WriteString(fmt.Sprintf("C%02x", c&0x7f))
			for k := uint(0); k < 7; k++ {
				if c&(1<<k) != 0 {
					pos++
				}
			}
		} else {
			sb.WriteString("I")
			pos += int(c)
		}
	}
	return sb.String()
}

// c06Check runs the given appliers on one (src, delta) and records verdicts.
func c06Check(c *fw.Ctx, src, delta []byte, appliers []int, fsdir string, origin string) {
	c06CheckV(c, src, delta, appliers, fsdir, origin, c06Variant{})
}

func c06CheckV(c *fw.Ctx, src, delta []byte, appliers []int, fsdir string, origin string, v c06Variant) {
	for _, a := range appliers {
		g := c06RunV(a, src, delta, fsdir, v)
		c.Eval()
		c.Transitions(1)
		if key, what := c06JudgeV(a, src, delta, g, v); key != "" {
			dh := delta
			if len(dh) > 256 {
				dh = dh[:256]
			}
			c.Fail(key, what, map[string]any{"applier": c06ApplierName[a], "source_len": len(src), "source": "bPattern(len)", "delta_len": len(delta), "delta_hex": hex.EncodeToString(dh), "origin": origin, "variant": v.String(), "go_git_ok": g.ok, "go_git_err": g.err})
		}
	}
}

// ---- conformance of the model against real git ------------------------------

type c06Case struct {
	src, delta []byte
	sk         string // identifies src (map key; sources can be large)
}

func c06SrcKey(src []byte) string { return fmt.Sprintf("%d:%x", len(src), sha1.Sum(src)) }

var c06PatKeys sync.Map

// c06PatKey is c06SrcKey(c06Pattern(n)), cached.
func c06PatKey(n int) string {
	if v, ok := c06PatKeys.Load(n); ok {
		return v.(string)
	}
	k := c06SrcKey(c06Pattern(n))
	c06PatKeys.Store(n, k)
	return k
}

var c06CannotUnpack = regexp.MustCompile(`cannot unpack ([0-9a-f]+) from .* at offset ([0-9]+)`)
var c06Corrupt = regexp.MustCompile(`packed ([0-9a-f]+) from .* is corrupt`)

// c06GitBatch replays cases through real git in one `git fsck` process: every
// delta is an entry (once OFS_DELTA, once REF_DELTA) of one pack whose index we
// write ourselves: an entry the model accepts is indexed under the name of the
// model's output, a rejected one under a fresh fake name. git must then report
// "cannot unpack" exactly for the rejected entries and nothing for the others
// (a wrong output would be "packed ... is corrupt").
func c06GitBatch(c *fw.Ctx, cases []c06Case, tag string) int {
	if len(cases) == 0 {
		return 0
	}
	p := bNewPack(false)
	baseOff := map[string]int64{}
	var ents []bIdxEnt
	type dEnt struct {
		ci     int
		off    int64
		accept bool
		oid    string
	}
	var dents []dEnt
	addIdx := func(off int64, oid []byte) { ents = append(ents, bIdxEnt{OID: oid, Off: uint64(off)}) }
	// A REF_DELTA entry must not be indexed under the name of a base: git would
	// find the delta itself when it looks its base up (a cycle of our making).
	isBase := map[string]bool{}
	for _, cs := range cases {
		isBase[string(bOID(false, "blob", cs.src))] = true
	}
	for ci, cs := range cases {
		k := cs.sk
		if _, ok := baseOff[k]; !ok {
			off := p.Obj(bTBlob, cs.src, len(cs.src) < 512)
			baseOff[k] = off
			addIdx(off, bOID(false, "blob", cs.src))
		}
		out, reason := bGitPatchDelta(cs.src, cs.delta)
		for kind := 0; kind < 2; kind++ {
			var oid []byte
			if reason == "" {
				oid = bOID(false, "blob", out)
			} else {
				s := sha1.Sum([]byte(fmt.Sprintf("fake-%s-%d-%d", tag, ci, kind)))
				oid = s[:]
			}
			if kind == 1 && isBase[string(oid)] {
				continue
			}
			var off int64
			if kind == 0 {
				off = p.Ofs(baseOff[k], cs.delta, true)
			} else {
				off = p.Ref(bOID(false, "blob", cs.src), cs.delta, true)
			}
			addIdx(off, oid)
			dents = append(dents, dEnt{ci, off, reason == "", hex.EncodeToString(oid)})
		}
	}
	pack := p.Bytes()
	// CRCs
	offs := append([]int64{}, p.Offs...)
	sort.Slice(offs, func(i, j int) bool { return offs[i] < offs[j] })
	end := map[int64]int64{}
	for i, o := range offs {
		if i+1 < len(offs) {
			end[o] = offs[i+1]
		} else {
			end[o] = int64(len(pack) - 20)
		}
	}
	for i := range ents {
		o := int64(ents[i].Off)
		ents[i].CRC = bCRC(pack[o:end[o]])
	}
	sum := pack[len(pack)-20:]
	g, dir := c.InitRepo("c06fsck-"+tag, "sha1", true)
	name := "pack-" + hex.EncodeToString(sum)
	bWriteFile(filepath.Join(dir, "objects/pack", name+".pack"), pack)
	bWriteFile(filepath.Join(dir, "objects/pack", name+".idx"), bWriteIdx(ents, sum, false))
	r := g.Run("fsck", "--no-progress", "--no-dangling", "--full")
	bad := map[int64]bool{}
	corrupt := map[string]bool{}
	for _, line := range strings.Split(string(r.Err), "\n") {
		if m := c06CannotUnpack.FindStringSubmatch(line); m != nil {
			o, _ := strconv.ParseInt(m[2], 10, 64)
			bad[o] = true
		} else if m := c06Corrupt.FindStringSubmatch(line); m != nil {
			corrupt[m[1]] = true
		} else if strings.Contains(line, "checksum mismatch") || strings.Contains(line, "index CRC mismatch") || strings.Contains(line, "wrong index") || strings.HasPrefix(line, "fatal:") {
			fw.Abort("C06 conformance set-up (%s): git fsck: %s", tag, line)
		}
	}
	for _, d := range dents {
		cs := cases[d.ci]
		desc := fmt.Sprintf("source %d bytes, delta %x", len(cs.src), cs.delta)
		if d.accept && bad[d.off] {
			fw.Abort("patch-delta model disagrees with real git (fsck batch %s): model accepts, git cannot unpack: %s", tag, desc)
		}
		if !d.accept && !bad[d.off] {
			fw.Abort("patch-delta model disagrees with real git (fsck batch %s): model rejects, git unpacks: %s (corrupt-reported=%v)", tag, desc, corrupt[d.oid])
		}
		if d.accept && corrupt[d.oid] {
			fw.Abort("patch-delta model disagrees with real git (fsck batch %s): different output bytes: %s", tag, desc)
		}
		c.TracesValidated(1)
	}
	if len(bad) == 0 && !r.OK() && len(corrupt) == 0 && bytes.Contains(r.Err, []byte("error")) {
		fw.Abort("C06 conformance (%s): unexpected git fsck failure: %s", tag, bFirstLine(r.Err))
	}
	os.RemoveAll(dir)
	return len(dents)
}

// c06GitAccepted sends every case the model accepts through the real
// `git index-pack` (one pack) and `git unpack-objects` + `cat-file`: the names
// git computes and the bytes it stores must be the model's output.
func c06GitAccepted(c *fw.Ctx, all []c06Case, tag string, unpack bool) {
	// index-pack refuses a pack in which a REF_DELTA's base name occurs twice
	// ("duplicate base"): deltas whose result is byte-identical to some source
	// go to a second pack that holds OFS_DELTA entries only.
	isBase := map[string]bool{}
	for _, cs := range all {
		isBase[bOIDHex(false, "blob", cs.src)] = true
	}
	var cases, coll []c06Case
	for _, cs := range all {
		out, reason := bGitPatchDelta(cs.src, cs.delta)
		if reason != "" {
			continue
		}
		if isBase[bOIDHex(false, "blob", out)] {
			coll = append(coll, cs)
		} else {
			cases = append(cases, cs)
		}
	}
	c06GitAcceptedPack(c, cases, tag, true, unpack)
	c06GitAcceptedPack(c, coll, tag+"-ofsonly", false, unpack)
}

func c06GitAcceptedPack(c *fw.Ctx, cases []c06Case, tag string, withRef bool, unpack bool) {
	p := bNewPack(false)
	baseOff := map[string]int64{}
	want := map[int64]string{}
	wantData := map[string][]byte{}
	n := 0
	for _, cs := range cases {
		out, reason := bGitPatchDelta(cs.src, cs.delta)
		if reason != "" {
			continue
		}
		k := cs.sk
		if _, ok := baseOff[k]; !ok {
			baseOff[k] = p.Obj(bTBlob, cs.src, false)
			id := bOIDHex(false, "blob", cs.src)
			want[baseOff[k]] = id
			wantData[id] = cs.src
		}
		id := bOIDHex(false, "blob", out)
		wantData[id] = out
		want[p.Ofs(baseOff[k], cs.delta, n%2 == 0)] = id
		if withRef {
			want[p.Ref(bOID(false, "blob", cs.src), cs.delta, n%2 == 1)] = id
		}
		n++
	}
	if n == 0 {
		return
	}
	g, dir := c.InitRepo("c06acc-"+tag, "sha1", true)
	pf := filepath.Join(dir, "t.pack")
	bWriteFile(pf, p.Bytes())
	r := g.Run("index-pack", "-o", filepath.Join(dir, "t.idx"), pf)
	if !r.OK() {
		fw.Abort("patch-delta model disagrees with real git (index-pack batch %s of %d accepted deltas): git index-pack fails: %s", tag, n, bFirstLine(r.Err))
	}
	ents, err := bReadIdx(bReadFile(filepath.Join(dir, "t.idx")), false)
	c.Must(err, "read git idx")
	if len(ents) != len(want) {
		fw.Abort("index-pack batch %s: %d idx entries, want %d", tag, len(ents), len(want))
	}
	for _, e := range ents {
		if want[int64(e.Off)] != hex.EncodeToString(e.OID) {
			fw.Abort("patch-delta model disagrees with real git (index-pack batch %s): entry at %d is %x, model says %s", tag, e.Off, e.OID, want[int64(e.Off)])
		}
		c.TracesValidated(1)
	}
	if !unpack { // index-pack has hashed the bytes it produced: equal names = equal bytes
		os.RemoveAll(dir)
		return
	}
	g.MustRunIn(p.Bytes(), "unpack-objects", "-q")
	ids := bSortedKeys(wantData)
	for _, o := range g.CatFileBatch(ids) {
		if o.Missing || o.Type != "blob" || !bytes.Equal(o.Data, wantData[o.ID]) {
			fw.Abort("patch-delta model disagrees with real git (unpack-objects batch %s): object %s missing=%v", tag, o.ID, o.Missing)
		}
		c.TracesValidated(1)
	}
	os.RemoveAll(dir)
}

// c06GitSingle: one real git process per case (index-pack for the OFS form,
// unpack-objects for the REF form); the verdict must be the model's.
func c06GitSingle(c *fw.Ctx, cases []c06Case) {
	nw := 8
	type wk struct {
		g   *fw.Git
		dir string
	}
	var mu sync.Mutex
	var free []wk
	c.ParDo(len(cases)*2, nw, func(i int) {
		cs := cases[i/2]
		mu.Lock()
		var w wk
		if len(free) > 0 {
			w = free[len(free)-1]
			free = free[:len(free)-1]
		} else {
			mu.Unlock()
			g, dir := c.InitRepo("c06one", "sha1", true)
			w = wk{g, dir}
			mu.Lock()
		}
		mu.Unlock()
		defer func() { mu.Lock(); free = append(free, w); mu.Unlock() }()
		_, reason := bGitPatchDelta(cs.src, cs.delta)
		p := bNewPack(false)
		boff := p.Obj(bTBlob, cs.src, false)
		var r fw.Res
		front := "index-pack"
		if i%2 == 0 {
			p.Ofs(boff, cs.delta, false)
			pf := filepath.Join(w.dir, "one.pack")
			bWriteFile(pf, p.Bytes())
			r = w.g.Run("index-pack", "-o", filepath.Join(w.dir, "one.idx"), pf)
		} else {
			front = "unpack-objects"
			p.Ref(bOID(false, "blob", cs.src), cs.delta, false)
			r = w.g.RunIn(p.Bytes(), "unpack-objects", "-q")
		}
		if r.OK() != (reason == "") {
			fw.Abort("patch-delta model disagrees with real git %s: source %d bytes, delta %x: git ok=%v (%s), model reason=%q", front, len(cs.src), cs.delta, r.OK(), bFirstLine(r.Err), reason)
		}
		if !r.OK() && !bytes.Contains(r.Err, []byte("failed to apply delta")) {
			fw.Abort("real git %s failed for another reason than the delta: %s", front, bFirstLine(r.Err))
		}
		c.TracesValidated(1)
	})
}

// ---- valid deltas to mutate --------------------------------------------------

func c06Seeds() []c06Case {
	var out []c06Case
	add := func(src, delta []byte) { out = append(out, c06Case{src, delta, c06SrcKey(src)}) }
	cat := func(parts ...[]byte) []byte { return bytes.Join(parts, nil) }
	s300 := bPattern(300)
	s70k := bPattern(66000)
	// hand-written
	add(s300, cat(bVarint(300), bVarint(10), []byte{0x90, 10}))                               // copy off 0 size 10
	add(s300, cat(bVarint(300), bVarint(300), []byte{0xb0, 0x2c, 0x01}))                      // copy whole, 2 size bytes
	add(s300, cat(bVarint(300), bVarint(7), []byte{0x91, 0x05, 0x04, 0x03, 'x', 'y', 'z'}))   // copy + insert
	add(s300, cat(bVarint(300), bVarint(5), []byte{0x02, 'h', 'i', 0x93, 0x29, 0x01, 0x03}))  // insert + copy with 2 offset bytes (off 0x129)
	add(s300, cat(bVarint(300), bVarint(3), []byte{0xff, 1, 0, 0, 0, 3, 0, 0}))               // all 7 parameter bytes
	add(s70k, cat(bVarint(66000), bVarint(0x10000), []byte{0x80}))                            // size 0 => 0x10000
	add(s70k, cat(bVarint(66000), bVarint(0x10000), []byte{0xc0, 0x01}))                      // size byte 3 = 1 => 0x10000
	add(s70k, cat(bVarint(66000), bVarint(0x10001), []byte{0x01, 'q', 0x80}))                 // insert + 64k copy
	add(s70k, cat(bVarint(66000), bVarint(720), []byte{0xb3, 0x00, 0xff, 0xd0, 0x02}))        // copy off 0xff00 size 0x2d0 (to the very end)
	add(bPattern(1), cat(bVarint(1), bVarint(2), []byte{0x90, 1, 0x90, 1}))                   // two copies
	add(s300, cat(bVarint(300), bVarint(30), []byte{0x91, 100, 10, 0x90, 10, 0x91, 20, 10}))  // copy, copy backwards, copy forwards
	add(s300, cat(bVarint(300), bVarint(30), []byte{0x91, 100, 10, 0x90, 10, 0x91, 150, 10})) // copy, copy backwards, copy far forwards
	add([]byte{}, cat(bVarint(0), bVarint(3), []byte{0x03, 'a', 'b', 'c'}))                   // empty source
	add(bPattern(5), cat(bVarint(5), bVarint(127), append([]byte{0x7f}, bPattern(127)...)))   // longest insert
	// non-canonical size varints: 9 bytes (the longest that cannot overflow 64 bits)
	pad := func(n uint64, l int) []byte {
		v := bVarint(n)
		for len(v) < l {
			v[len(v)-1] |= 0x80
			v = append(v, 0)
		}
		return v
	}
	add(s300, cat(pad(300, 9), bVarint(10), []byte{0x90, 10}))
	add(s300, cat(bVarint(300), pad(10, 9), []byte{0x90, 10}))
	add(s300, cat(pad(300, 5), pad(10, 8), []byte{0x90, 10}))
	// produced by go-git's own encoder
	blocks := func(spec string) []byte {
		var b []byte
		for _, ch := range spec {
			b = append(b, bytes.Repeat([]byte{byte(ch)}, 16)...)
		}
		return b
	}
	pairs := [][2][]byte{
		{blocks("abcab"), blocks("bcaab")},
		{blocks("abc"), append(blocks("ab"), []byte("tail")...)},
		{bPattern(200), append(append([]byte("head"), bPattern(200)[20:180]...), 'z')},
		{bPattern(65537), bPattern(65537)[1:]},
		{bPattern(66000), append(bPattern(66000)[:65536], 'e')},
		{blocks("aaaa"), blocks("aaaaaaaa")},
		{bPattern(300), bPattern(300)},
		{[]byte("short"), []byte("other")},
	}
	for _, pr := range pairs {
		add(pr[0], packfile.DiffDelta(pr[0], pr[1]))
	}
	return out
}

func c06Mutants(seeds []c06Case) []c06Case {
	var out []c06Case
	seen := map[string]bool{}
	sk := ""
	add := func(src, d []byte) {
		k := sk + ":" + string(d)
		if seen[k] {
			return
		}
		seen[k] = true
		out = append(out, c06Case{src, append([]byte{}, d...), sk})
	}
	for _, s := range seeds {
		sk = s.sk
		add(s.src, s.delta)
		for l := 0; l < len(s.delta); l++ {
			add(s.src, s.delta[:l])
		}
		lim := len(s.delta)
		if lim > 24 { // substitutions in the header and the first operations, and in the last 8 bytes
			lim = 24
		}
		pos := map[int]bool{}
		for i := 0; i < lim; i++ {
			pos[i] = true
		}
		for i := len(s.delta) - 8; i < len(s.delta); i++ {
			if i >= 0 {
				pos[i] = true
			}
		}
		for i := range s.delta {
			if !pos[i] {
				continue
			}
			for _, v := range c06Sigma {
				if s.delta[i] == v {
					continue
				}
				d := append([]byte{}, s.delta...)
				d[i] = v
				add(s.src, d)
			}
		}
		add(s.src, append(append([]byte{}, s.delta...), 0x00))
		add(s.src, append(append([]byte{}, s.delta...), 0x01, 'x'))
		add(s.src, append(append([]byte{}, s.delta...), 0x90, 0x01))
	}
	return out
}

// ---- the check ---------------------------------------------------------------

func runC06(c *fw.Ctx) {
	defer debug.SetGCPercent(debug.SetGCPercent(600)) // allocation-heavy, small live heap
	if pf := os.Getenv("C06_PROF"); pf != "" {
		f, _ := os.Create(pf)
		pprof.StartCPUProfile(f)
		defer pprof.StopCPUProfile()
	}
	// C06_PHASES (development aid; empty = everything): comma list of
	// conf,mut,large,variants,diffdelta,enum
	on := func(ph string) bool {
		v := os.Getenv("C06_PHASES")
		return v == "" || strings.Contains(","+v+",", ","+ph+",")
	}
	maxLen := c.Pick(5, 6) // PatchDelta, ApplyDelta, ReaderFromDelta, Parser without storage
	midLen := c.Pick(4, 5) // Parser with memory storage / on a non-seekable stream
	confLen := 4
	fsLen := c.Pick(3, 4) // Parser with filesystem storage (low-memory mode, in-memory billy fs)
	c.Bound("delta_alphabet_hex", hex.EncodeToString(c06Sigma))
	c.Bound("delta_stream_max_len", maxLen)
	c.Bound("delta_stream_max_len_parser_memory_and_stream", midLen)
	c.Bound("git_conformance_stream_max_len", confLen)
	c.Bound("filesystem_storage_stream_max_len", fsLen)
	c.Bound("source_length_cap", c06SrcCap)
	c.Bound("mismatch_source_lengths", []int{0, 1, 3, 4, 300})
	c.Bound("diffdelta_ab_max_len", c.Pick(4, 6))
	c.Bound("diffdelta_block_strings", "<=4 blocks of 16 bytes from 3 kinds (quick), <=5 (thorough)")
	c.SetRule("(b) every delta byte stream up to delta_stream_max_len over a 12-byte alphabet, applied to the pattern source whose length is the one the stream declares (so the body is reached), to a source one byte longer (streams up to the shorter parser bound, all appliers) and, for the buffer appliers, to 5 fixed mismatching sources; plus every truncation / one-byte substitution / junk suffix of 20 valid deltas (incl. 64 KiB copies); each run through PatchDelta, ApplyDelta, ReaderFromDelta and Parser.Parse (seekable, stream, memory storage; filesystem storage up to the shorter bound) and compared with a transcription of git's patch_delta; (a) DiffDelta on all pairs over {a,b} up to diffdelta_ab_max_len bytes (insert-only deltas), block strings and 64 KiB straddles, applied back by every applier and by real git. A case is non-trivial when the declared source size matches; distinct = (model verdict or operation shape of the accepted delta). The transcription is replayed against real git (fsck over a pack with a hand-written index: one process for all streams up to the conformance length; index-pack/unpack-objects/cat-file on all accepted ones; one index-pack or unpack-objects process per stream up to length 2 and per hand-written seed).")
	c.Assume("git 2.39.5 is the reference; delta buffers handed to patch_delta are NUL-terminated (xmallocz), as in index-pack, unpack-objects and packfile.c")
	c.Assume("index-pack is run without --strict in the conformance step because --strict rejects a pack whose delta result equals its base ('appears twice'), which is not a property of the delta")
	c.Assume("streams whose size varint overflows 64 bits are not replayed on real git either: it dies (size_t overflow) instead of failing the one object")
	c.Assume("size varints longer than 9 bytes are outside the enumerated space (except as one-byte mutations of the 9-byte seeds); deltas declaring a target above 64 MiB are not replayed on real git (it dies allocating the buffer, machine dependent) but are still judged by the transcription")

	total := fw.CountStrings(len(c06Sigma), maxLen)
	confTotal := fw.CountStrings(len(c06Sigma), confLen)
	seeds := c06Seeds()
	mutants := c06Mutants(seeds)
	large := c06LargeCases(c)
	c.Bound("seed_deltas", len(seeds))
	c.Bound("seed_mutations", len(mutants))

	// ---- 1. conformance of the model against real git
	for _, s := range seeds { // sanity: seeds are valid for the model
		if _, reason := bGitPatchDelta(s.src, s.delta); reason != "" {
			if len(s.delta) >= 4 {
				fw.Abort("seed delta %x is not valid for the model: %s", s.delta, reason)
			}
		}
	}
	var conf []c06Case
	for i := 0; i < confTotal; i++ {
		d := c06StreamAt(i)
		src, _ := c06Source(d)
		conf = append(conf, c06Case{src, d, c06PatKey(len(src))})
		if len(d) <= 3 {
			conf = append(conf, c06Case{c06Pattern(len(src) + 1), d, c06PatKey(len(src) + 1)})
		}
	}
	var single []c06Case
	for i := 0; i < fw.CountStrings(len(c06Sigma), 2); i++ {
		d := c06StreamAt(i)
		src, _ := c06Source(d)
		single = append(single, c06Case{src, d, c06PatKey(len(src))})
	}
	for _, extra := range []string{"01808080", "80808080", "81008080", "0105056162", "0101900100", "010000", "01010161", "00010161", "01019001", "0102900190", "01029002", "0101910101", "0100", "8100"} {
		d, _ := hex.DecodeString(extra)
		src, _ := c06Source(d)
		single = append(single, c06Case{src, d, c06PatKey(len(src))})
	}
	single = append(single, seeds...)
	var wg sync.WaitGroup
	var confErr any
	runPart := func(f func()) {
		wg.Add(1)
		go func() {
			defer wg.Done()
			defer func() {
				if r := recover(); r != nil && confErr == nil {
					confErr = r
				}
			}()
			f()
		}()
	}
	half := len(conf) / 2
	t0 := c.Elapsed().Seconds()
	if !on("conf") {
		conf, single, large2 := conf[:0], single[:0], large[:0]
		_, _, _ = conf, single, large2
		runPart = func(f func()) {}
	}
	runPart(func() { c06GitBatch(c, conf[:half], "enumA") })
	runPart(func() { c06GitBatch(c, conf[half:], "enumB") })
	// real git allocates the declared target size before it looks at the
	// operations (xmallocz): a huge declared size makes it die of memory
	// exhaustion, which depends on the machine. Those streams are judged by the
	// model only.
	var gitMut []c06Case
	for _, m := range mutants {
		// ... and it dies (st_left_shift, "size_t overflow") instead of failing the
		// one object when a size varint overflows 64 bits: judged by the model only.
		if r := bGitPatchDeltaX(m.src, m.delta, 4); r.Target <= 1<<26 && r.Reason != "size-varint-overflow" {
			gitMut = append(gitMut, m)
		}
	}
	c.Bound("seed_mutations_replayed_on_git", len(gitMut))
	runPart(func() { c06GitBatch(c, gitMut, "mut") })
	runPart(func() { c06GitAccepted(c, append(append([]c06Case{}, conf...), gitMut...), "all", true) })
	runPart(func() { c06GitBatch(c, large, "large") })
	runPart(func() { c06GitAccepted(c, large, "large", false) })
	runPart(func() { c06GitSingle(c, single) })
	// the git replays (mostly waiting for processes) run while the appliers are
	// enumerated; a disagreement aborts the whole check at the end.
	phases := map[string]float64{}
	confDone := func() {
		wg.Wait()
		phases["git_conformance_finished_at"] = c.Elapsed().Seconds()
		if confErr != nil {
			panic(confErr)
		}
	}
	t0 = c.Elapsed().Seconds()

	var states int64
	fast := []int{c06PatchDelta, c06ApplyDelta, c06Reader, c06ParserNone}
	mid := []int{c06ParserMem, c06ParserStream}
	// ---- 3. mutations of valid deltas (model replayed on exactly these above)
	all := append(append(append([]int{}, fast...), mid...), c06ParserFS, c06ReaderChunked)
	nmut := len(mutants)
	if !on("mut") {
		nmut = 0
	}
	c.ParDo(nmut, 0, func(i int) {
		m := mutants[i]
		c06Check(c, m.src, m.delta, all, "", "seed-mutation")
		r := bGitPatchDeltaX(m.src, m.delta, 4)
		if r.Reason == "" {
			c.Class("ok:" + c06Shape(m.delta))
		} else {
			c.Class("rej:" + r.Reason)
		}
	})
	states += int64(len(mutants))

	phases["seed_mutations"] = c.Elapsed().Seconds() - t0
	t0 = c.Elapsed().Seconds()
	// ---- 3b. streams beyond the buffer sizes of the appliers (c06_large.go)
	nlarge := len(large)
	if !on("large") {
		nlarge = 0
	}
	c.ParDo(nlarge, 0, func(i int) {
		m := large[i]
		c06Check(c, m.src, m.delta, all, "", "large")
		r := bGitPatchDeltaX(m.src, m.delta, 4)
		if r.Reason == "" {
			c.Class(fmt.Sprintf("large:ok:%s:%d", c06Shape(m.delta), len(m.delta)/1024))
		} else {
			c.Class("large:rej:" + r.Reason)
		}
	})
	states += int64(len(large))
	phases["large"] = c.Elapsed().Seconds() - t0
	t0 = c.Elapsed().Seconds()
	// ---- 3c. the parser appliers in SHA-256 packs / with other base types
	variants := c06Variants()
	c.Bound("parser_variants", fmt.Sprint(variants))
	nvar := len(mutants) * len(variants)
	if !on("variants") {
		nvar = 0
	}
	c.ParDo(nvar, 0, func(i int) {
		m, v := mutants[i/len(variants)], variants[i%len(variants)]
		ap := []int{c06ParserNone, c06ParserMem}
		if i%len(variants) == 0 {
			ap = append(ap, c06ParserFS, c06ParserStream)
		}
		c06CheckV(c, m.src, m.delta, ap, "", "seed-mutation-variant", v)
	})
	phases["variants"] = c.Elapsed().Seconds() - t0
	t0 = c.Elapsed().Seconds()
	// ---- 4. DiffDelta round trip
	if on("diffdelta") {
		states += int64(c06DiffDelta(c, all))
	}
	phases["diffdelta"] = c.Elapsed().Seconds() - t0
	t0 = c.Elapsed().Seconds()
	// ---- 2. appliers against the model: the enumerated streams
	buffers := []int{c06PatchDelta, c06ApplyDelta, c06Reader}
	mism := []int{0, 1, 3, 4, 300}
	const chunk = 128
	nchunks := (total + chunk - 1) / chunk
	if !on("enum") {
		nchunks = 0
	}
	var smu sync.Mutex
	c.ParDo(nchunks, 0, func(ci int) {
		lo, hi := ci*chunk, (ci+1)*chunk
		if hi > total {
			hi = total
		}
		var lastLen = -1
		var src []byte
		n := 0
		for i := lo; i < hi; i++ {
			d := c06StreamAt(i)
			decl, ok := c06DeclaredSrc(d)
			if ok && decl <= c06SrcCap {
				if int(decl) != lastLen {
					src, lastLen = c06Pattern(int(decl)), int(decl)
				}
				c06Check(c, src, d, fast, "", "enumerated")
				n++
				if len(d) <= midLen {
					c06Check(c, src, d, mid, "", "enumerated")
					// a source one byte longer than declared (the size check itself)
					c06Check(c, c06Pattern(int(decl)+1), d, append(append([]int{}, fast...), mid...), "", "enumerated-longer-source")
					n++
				}
				if len(d) <= fsLen {
					c06Check(c, src, d, []int{c06ParserFS}, "", "enumerated")
					c06Check(c, c06Pattern(int(decl)+1), d, []int{c06ParserFS}, "", "enumerated-longer-source")
				}
				m := bGitPatchDeltaX(src, d, 4)
				if m.Reason == "" {
					c.Class("ok:" + c06Shape(d))
				} else {
					c.Class("rej:" + m.Reason)
				}
				if i%50021 == 7 {
					c.Sample(map[string]any{"delta_hex": hex.EncodeToString(d), "source_len": len(src), "git": m.Reason})
				}
			}
			for _, ml := range mism {
				if ok && uint64(ml) == decl {
					continue
				}
				c06Check(c, c06Pattern(ml), d, buffers, "", "enumerated-mismatch")
				n++
			}
		}
		smu.Lock()
		states += int64(n)
		smu.Unlock()
	})

	phases["enumerated_streams"] = c.Elapsed().Seconds() - t0
	c.States(int(states))
	confDone()
	c.Extra("phase_seconds", phases)
}

// c06DiffDelta: for every (src,tgt) of the stated space the delta go-git
// computes must reproduce tgt under every go-git applier, under the model, and
// under real git (batched).
func c06DiffDelta(c *fw.Ctx, all []int) int {
	type pair struct{ src, tgt []byte }
	var pairs []pair
	ab := fw.Strings([]string{"a", "b"}, c.Pick(4, 6))
	for _, s := range ab {
		for _, t := range ab {
			pairs = append(pairs, pair{[]byte(s), []byte(t)})
		}
	}
	nAB := len(pairs)
	kinds := [][]byte{bytes.Repeat([]byte{'x'}, 16), []byte("0123456789abcdef"), []byte("fedcba9876543210")}
	var bs [][]byte
	for _, seq := range fw.Seqs(3, c.Pick(4, 5)) {
		var b []byte
		for _, k := range seq {
			b = append(b, kinds[k]...)
		}
		bs = append(bs, b)
	}
	for _, s := range bs {
		for _, t := range bs {
			pairs = append(pairs, pair{s, t})
		}
	}
	// unaligned variants: one byte inserted in front / in the middle
	for _, s := range bs {
		if len(s) >= 32 {
			pairs = append(pairs, pair{s, append([]byte{'!'}, s...)})
			pairs = append(pairs, pair{s, append(append(append([]byte{}, s[:17]...), '!'), s[17:]...)})
			pairs = append(pairs, pair{s, s[3:]})
		}
	}
	nBlocks := len(pairs) - nAB
	sizes := []int{65535, 65536, 65537, 131072, 131073}
	if c.Thorough() {
		sizes = append(sizes, 16777215, 16777216, 16777217)
	}
	for _, n := range sizes {
		s := bPattern(n)
		pairs = append(pairs,
			pair{s, s},
			pair{s, s[1:]},
			pair{s, append([]byte{'!'}, s...)},
			pair{s, append(append([]byte{}, s...), "tail"...)},
			pair{s, append(append(append([]byte{}, s[:n/2]...), "mid"...), s[n/2:]...)},
			pair{s[:n-20], s})
	}
	nLarge := len(pairs) - nAB - nBlocks
	for _, e := range c06ExtraPairs(c) {
		pairs = append(pairs, pair{e.src, e.tgt})
	}
	c.Bound("diffdelta_pairs", map[string]int{"ab": nAB, "blocks": nBlocks, "large": nLarge, "extra": len(pairs) - nAB - nBlocks - nLarge})

	type gitCase struct {
		src, delta, tgt []byte
		sk              string
	}
	var gmu sync.Mutex
	var gcs []gitCase
	c.ParDo(len(pairs), 0, func(i int) {
		pr := pairs[i]
		var delta []byte
		var pan string
		func() {
			defer func() {
				if r := recover(); r != nil {
					pan = fmt.Sprint(r)
				}
			}()
			delta = packfile.DiffDelta(pr.src, pr.tgt)
		}()
		c.Eval()
		c.Transitions(1)
		rep := map[string]any{"src_len": len(pr.src), "tgt_len": len(pr.tgt), "src": string(c06Clip(pr.src)), "tgt": string(c06Clip(pr.tgt)), "pair_index": i}
		if pan != "" {
			c.Fail("DiffDelta panics", "DiffDelta panic: "+pan, rep)
			return
		}
		rep["delta_hex"] = hex.EncodeToString(c06Clip(delta))
		c.Class(fmt.Sprintf("dd:%s:%v", c06Shape(delta), len(delta) < 4))
		// model (git): only meaningful when git would look at it at all
		m := bGitPatchDeltaX(pr.src, delta, 0)
		if m.Reason != "" || !bytes.Equal(m.Out, pr.tgt) {
			c.Fail("DiffDelta output does not reproduce the target under git's patch_delta", fmt.Sprintf("DiffDelta(%d bytes,%d bytes): model says %q", len(pr.src), len(pr.tgt), m.Reason), rep)
			return
		}
		big := len(pr.src) > 1<<20
		// the object-level entry point of the same encoder
		if !big {
			gd, gerr := c06GetDelta(pr.src, pr.tgt)
			c.Eval()
			c.Transitions(1)
			if gerr != "" {
				c.Fail("GetDelta fails", "GetDelta: "+gerr, rep)
			} else if gm := bGitPatchDeltaX(pr.src, gd, 0); gm.Reason != "" || !bytes.Equal(gm.Out, pr.tgt) {
				c.Fail("GetDelta output does not reproduce the target under git's patch_delta", fmt.Sprintf("GetDelta(%d bytes,%d bytes): model says %q", len(pr.src), len(pr.tgt), gm.Reason), rep)
			}
		}
		for _, a := range all {
			if big && (a == c06ParserFS || a == c06ParserMem || a == c06ParserStream) {
				continue
			}
			g := c06Run(a, pr.src, delta, "")
			c.Eval()
			c.Transitions(1)
			okk := g.ok && g.extra == "" && (g.data == nil || bytes.Equal(g.data, pr.tgt)) && (g.oid == "" || g.oid == bOIDHex(false, "blob", pr.tgt))
			if okk {
				continue
			}
			feature := "round trip fails"
			switch {
			case g.panic != "":
				feature = "panic"
			case !g.ok && len(pr.src) == 0:
				feature = "empty source rejected"
			case !g.ok:
				feature = "computed delta rejected"
			}
			c.Fail("DiffDelta round trip via "+c06Impl[a]+": "+feature,
				fmt.Sprintf("applying DiffDelta(src,tgt) to src with %s does not give tgt back (ok=%v err=%q %s)", c06ApplierName[a], g.ok, g.err+g.panic, g.extra), rep)
		}
		if len(delta) >= 4 && len(pr.src) <= 1<<20 {
			gmu.Lock()
			gcs = append(gcs, gitCase{pr.src, delta, pr.tgt, c06SrcKey(pr.src)})
			gmu.Unlock()
		}
	})
	// real git on every computed delta (one index-pack process)
	if len(gcs) > 0 && !c.Expired() {
		sort.Slice(gcs, func(i, j int) bool {
			if c := bytes.Compare(gcs[i].src, gcs[j].src); c != 0 {
				return c < 0
			}
			return bytes.Compare(gcs[i].tgt, gcs[j].tgt) < 0
		})
		p := bNewPack(false)
		baseOff := map[string]int64{}
		want := map[int64][]byte{}
		for _, gc := range gcs {
			k := gc.sk
			if _, ok := baseOff[k]; !ok {
				baseOff[k] = p.Obj(bTBlob, gc.src, false)
			}
			want[p.Ofs(baseOff[k], gc.delta, false)] = gc.tgt
		}
		g, dir := c.InitRepo("c06dd", "sha1", true)
		pf := filepath.Join(dir, "dd.pack")
		bWriteFile(pf, p.Bytes())
		r := g.Run("index-pack", "-o", filepath.Join(dir, "dd.idx"), pf)
		if !r.OK() {
			c.Fail("git index-pack rejects a delta computed by DiffDelta", "git index-pack on the pack of all DiffDelta outputs: "+bFirstLine(r.Err), map[string]any{"pairs": len(gcs)})
		} else {
			ents, err := bReadIdx(bReadFile(filepath.Join(dir, "dd.idx")), false)
			c.Must(err, "read idx")
			for _, e := range ents {
				if tgt, ok := want[int64(e.Off)]; ok {
					c.Eval()
					if hex.EncodeToString(e.OID) != bOIDHex(false, "blob", tgt) {
						c.Fail("git resolves a DiffDelta output to something else than the target", fmt.Sprintf("target %d bytes", len(tgt)), map[string]any{"tgt": string(c06Clip(tgt))})
					}
				}
			}
		}
		os.RemoveAll(dir)
	}
	return len(pairs)
}

// c06GetDelta runs packfile.GetDelta on two memory objects and returns the
// delta bytes.
func c06GetDelta(src, tgt []byte) (delta []byte, errs string) {
	defer func() {
		if r := recover(); r != nil {
			errs = "panic: " + fmt.Sprint(r)
		}
	}()
	mk := func(b []byte) plumbing.EncodedObject {
		o := &plumbing.MemoryObject{}
		o.SetType(plumbing.BlobObject)
		o.Write(b)
		return o
	}
	d, err := packfile.GetDelta(mk(src), mk(tgt))
	if err != nil {
		return nil, err.Error()
	}
	r, err := d.Reader()
	if err != nil {
		return nil, err.Error()
	}
	defer r.Close()
	delta, err = io.ReadAll(r)
	if err != nil {
		return nil, err.Error()
	}
	if d.Size() != int64(len(delta)) {
		return nil, fmt.Sprintf("delta object says size %d, holds %d bytes", d.Size(), len(delta))
	}
	return delta, ""
}

package checks

import (
	"bytes"
	"fmt"
	"os"
	"sort"
	"strings"
	"sync/atomic"
	"time"

	"github.com/go-git/go-git/v6/plumbing"
	"github.com/go-git/go-git/v6/plumbing/cache"
	"github.com/go-git/go-git/v6/plumbing/format/reflog"
	"github.com/go-git/go-git/v6/storage/filesystem"
	"github.com/go-git/go-git/v6/x/verif/vsched"

	"verifmc/fw"
	"verifmc/mcfs"
)

// c52Concurrent: a reflog is shared by every process that moves the
// reference, and an entry reaches the O_APPEND file as ONE write; the listing
// git gives afterwards must hold every appended entry intact whatever the
// interleaving. Two and three appenders (separate storage instances = separate
// processes) on one reflog, entries with and without a message, every mcfs
// operation a scheduling point, all interleavings up to the preemption bound;
// the final file must equal one of the serial orders byte for byte (the
// single-writer bytes are what parts A/B compare with git), and must decode
// into exactly the appended entries.
func c52Concurrent(c *fw.Ctx) {
	if os.Getenv("VERIF_MODE") != "sched" {
		c.Assume("concurrent reflog appenders skipped: binary not built in sched mode")
		return
	}
	h := func(b byte) plumbing.Hash { return plumbing.NewHash(strings.Repeat(fmt.Sprintf("%02x", b), 20)) }
	when := func(s int64, zone int) time.Time { return time.Unix(s, 0).In(time.FixedZone("", zone)) }
	ents := []*reflog.Entry{
		{OldHash: h(0), NewHash: h(1), Committer: reflog.Signature{Name: "A U Thor", Email: "a@example.com", When: when(1700000000, 3600)}, Message: "commit (initial): one"},
		{OldHash: h(1), NewHash: h(2), Committer: reflog.Signature{Name: "B", Email: "b@example.org", When: when(1700000001, -34200)}, Message: ""},
		{OldHash: h(2), NewHash: h(3), Committer: reflog.Signature{Name: "C C", Email: "c@example.net", When: when(1700000002, 0)}, Message: "reset: moving to HEAD~1"},
	}
	ref := plumbing.ReferenceName("refs/heads/main")
	single := make([][]byte, len(ents))
	for i, e := range ents {
		var b bytes.Buffer
		if err := reflog.Encode(&b, e); err != nil {
			fw.Abort("reflog.Encode: %v", err)
		}
		single[i] = b.Bytes()
	}
	type harness struct{ who []int }
	hs := []harness{{[]int{0, 1}}, {[]int{1, 0}}, {[]int{0, 2}}, {[]int{1, 2}}, {[]int{0, 1, 2}}}
	maxPre := c.Pick(2, 3)
	c.Bound("concurrent_reflog_appenders", "2 and 3 storage instances, one AppendReflog each, entries with and without a message")
	c.Bound("concurrent_reflog_preemption_bound", maxPre)
	var execs atomic.Int64
	for _, hn := range hs {
		hn := hn
		var serial []string
		var perm func(rest []int, acc []byte)
		perm = func(rest []int, acc []byte) {
			if len(rest) == 0 {
				serial = append(serial, string(acc))
				return
			}
			for i := range rest {
				nr := append(append([]int{}, rest[:i]...), rest[i+1:]...)
				perm(nr, append(append([]byte{}, acc...), single[rest[i]]...))
			}
		}
		perm(hn.who, nil)
		hname := fmt.Sprintf("appenders=%v", hn.who)
		outcomes := map[string]bool{}
		body := func(x *vsched.Exec) func(*vsched.Exec) string {
			w := mcfs.NewWorld()
			w.MkdirSetup("/wt/.git")
			w.SetHook(schedHook)
			var bad atomic.Value
			for ti, ei := range hn.who {
				ti, ei := ti, ei
				st := filesystem.NewStorage(w.View("/wt/.git", fmt.Sprintf("proc%d", ti)), cache.NewObjectLRUDefault())
				x.Go(fmt.Sprintf("p%d", ti), func() any {
					if err := st.AppendReflog(ref, ents[ei]); err != nil {
						bad.Store(fmt.Sprintf("AppendReflog failed: %v", err))
					}
					return nil
				})
			}
			return func(x *vsched.Exec) string {
				w.SetHook(nil)
				if v := bad.Load(); v != nil {
					return v.(string)
				}
				for _, t := range x.Threads() {
					if t.Panic != "" {
						return "panic: " + strings.SplitN(t.Panic, "\n", 2)[0]
					}
				}
				if x.Deadlock {
					return "deadlock"
				}
				data, _ := w.ReadFile("/wt/.git/logs/refs/heads/main")
				for i, s := range serial {
					if string(data) == s {
						outcomes[fmt.Sprintf("serial order %d", i)] = true
						return ""
					}
				}
				got, err := reflog.Decode(bytes.NewReader(data))
				return fmt.Sprintf("the reflog file is no serial order of the appended records (decodes to %d entries, err %v): %q", len(got), err, string(data))
			}
		}
		st := vsched.Explore(vsched.Config{MaxPreemptions: maxPre}, body, func(f vsched.Failure) bool {
			c.Fail("concurrent reflog appenders: an appended entry does not reach the file in one piece", hname+": "+f.What, map[string]any{"harness": hname, "choices": f.Choices})
			return false
		}, func(msg string) { c.EngineError("%s: %s", hname, msg) })
		execs.Add(int64(st.Executions))
		c.Evals(st.Executions)
		if !st.Complete {
			c.Incomplete("deadline inside " + hname)
		}
		var os []string
		for o := range outcomes {
			os = append(os, o)
		}
		sort.Strings(os)
		c.Class("conc|" + hname + "|" + strings.Join(os, ","))
	}
	c.Extra("concurrent_reflog_schedules", execs.Load())
}

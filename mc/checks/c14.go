package checks

import (
	"fmt"
	"sort"
	"strings"
	"time"

	"github.com/go-git/go-git/v6/plumbing"
	"github.com/go-git/go-git/v6/plumbing/cache"
	"github.com/go-git/go-git/v6/plumbing/format/reflog"
	"github.com/go-git/go-git/v6/storage/filesystem"

	"verifmc/fw"
	"verifmc/mcfs"
)

func init() {
	fw.Register(&fw.Check{ID: "C14", Level: "exploration", Run: runC14, QuickBudget: 300, ThoroughBudget: 1200})
}

type c14Layout struct {
	name  string
	setup func(w *mcfs.World)
}

func runC14(c *fw.Ctx) {
	comps := []string{"refs", "heads", "a", "..", ".", "", "config", "index", "objects", "HEAD", "ORIG_HEAD", "..\\x", "a\\..", ".. ", "..‌", "‌..", "\ufeff.\ufeff.", ".‌.", "A~1", "a::$DATA", "C:", "\x01", "logs", "packed-refs", "..."}
	maxComp := c.Pick(2, 3)
	c.Bound("components", comps)
	c.Bound("max_components", maxComp)
	c.SetRule("names = every sequence of <= max_components components (quick adds all 3-component names starting with refs) joined by '/' and by '\\\\', also with a leading '/'; plus tier 2: the component .. and 75 disguises of it (each of the 16 HFS+-ignorable code points before / between / after / around the dots, NTFS trailing dot-and-space runs and ':stream' suffixes) in 14 contexts (top level, 1..5 levels below refs/, climbs that reach config, index, logs, objects, the worktree and /outside) and 20 letter-case variants of refs/logs/config/index/HEAD/objects in 9 contexts; x 10 storage operations (Reference, SetReference with a hash and with a symbolic value, CheckAndSetReference, RemoveReference, IterReferences, PackRefs, Reflog, AppendReflog, DeleteReflog) run in sequence on a fresh mcfs repository x 3 layouts (plain; .git/refs a symlink to ../../outside/refs; .git/logs a symlink); oracle = the mcfs journal of EVERY call (reads included, paths after symlink resolution): each touched path lies in the resolved refs/ or logs/ hierarchy, packed-refs (+ its temp file), an ALL-CAPS pseudo-ref slot of .git, or in the set a benign name (refs/heads/ok) touches on the same layout; sentinel files (config, index, an object, /outside/x, a worktree file) are byte-identical afterwards; and every name with a component that folds to '.' or '..' on HFS+/NTFS (ignorable code points, trailing dots/spaces) is refused by every name-taking operation; distinct = (operation, accepted/refused, layout, touched-path set) classes")
	c.Assume("mcfs resolves symlinks without confinement (classic OS semantics) and is case-sensitive; replayed against osfs each run")
	n, err := mcfs.Conformance(c.Scratch(), 2)
	c.Must(err, "mcfs/osfs conformance")
	c.Extra("mcfs_osfs_conformance_sequences", n)

	var names []string
	seqs := fw.Seqs(len(comps), maxComp)
	if !c.Thorough() {
		for i := range comps {
			for j := range comps {
				seqs = append(seqs, []int{0, i, j})
			}
		}
	}
	seen := map[string]bool{}
	add := func(s string) {
		if !seen[s] {
			seen[s] = true
			names = append(names, s)
		}
	}
	for _, s := range seqs {
		if len(s) == 0 {
			continue
		}
		var parts []string
		for _, k := range s {
			parts = append(parts, comps[k])
		}
		add(strings.Join(parts, "/"))
		add(strings.Join(parts, "\\"))
		add("/" + strings.Join(parts, "/"))
		if len(parts) >= 2 {
			add(parts[0] + "/" + strings.Join(parts[1:], "\\"))
		}
	}
	// Tier 2: components that are too many for the full product, each placed in fixed contexts (shallow, deep, at
	// the top level, and as a climb long enough to reach config / the worktree / the directory outside).
	hfsIgn := []rune{0x200c, 0x200d, 0x200e, 0x200f, 0x202a, 0x202b, 0x202c, 0x202d, 0x202e, 0x206a, 0x206b, 0x206c, 0x206d, 0x206e, 0x206f, 0xfeff}
	disguises := []string{"..", "..  ", ".. .", "....", ".. . ", "..:", "..:x", "..:$DATA", ".. :x", "..::$DATA", "...:x", ".. .:x"}
	for _, u := range hfsIgn {
		x := string(u)
		disguises = append(disguises, x+"..", "."+x+".", ".."+x, x+"."+x+"."+x)
	}
	for _, d := range disguises {
		up := strings.Repeat(d+"/", 6)
		for _, n := range []string{"refs/heads/" + d, "refs/heads/" + d + "/x", "refs/" + d + "/x", "refs/" + d + "/" + d + "/config", d + "/x", d,
			"refs/heads/a/b/" + d, "refs/heads/a/b/c/d/" + d + "/x", "refs/heads/a/b/" + d + "/" + d + "/" + d + "/" + d + "/config",
			"refs/heads/a/b/" + d + "/" + d + "/" + d + "/" + d + "/index", "refs/heads/" + up + "outside/x", "refs/heads/" + up + "wt/file",
			"refs/heads/a/" + d + "/" + d + "/" + d + "/logs/HEAD", "refs/heads/a/" + d + "/" + d + "/" + d + "/objects/11/sentinel"} {
			add(n)
		}
	}
	caseVar := []string{"Refs", "REFS", "rEFS", "Logs", "LOGS", "CONFIG", "Config", "INDEX", "Index", "Head", "head", "hEAD", "OBJECTS", "Objects", "PACKED_REFS", "Packed-Refs", "FETCH_HEAD", "fetch_head", "ORIG_head", "Heads"}
	for _, v := range caseVar {
		for _, n := range []string{v, v + "/heads/x", v + "/x", v + "/HEAD", "refs/" + v, "refs/" + v + "/x", "refs/heads/" + v, v + "/../config", "refs/../" + v} {
			add(n)
		}
	}
	c.Bound("tier2_disguise_components", len(disguises))
	c.Bound("tier2_case_variants", caseVar)
	c.Bound("names", len(names))

	h1 := plumbing.NewHash("1111111111111111111111111111111111111111")
	h2 := plumbing.NewHash("2222222222222222222222222222222222222222")
	base := mcfs.NewWorld()
	base.JournalReads = true
	base.WriteFile("/wt/.git/HEAD", []byte("ref: refs/heads/main\n"), false)
	base.WriteFile("/wt/.git/config", []byte("[core]\n\trepositoryformatversion = 0\n\tbare = false\n"), false)
	base.WriteFile("/wt/.git/index", []byte("SENTINEL-INDEX"), false)
	base.WriteFile("/wt/.git/objects/11/sentinel", []byte("SENTINEL-OBJECT"), false)
	base.WriteFile("/wt/.git/refs/heads/main", []byte(h1.String()+"\n"), false)
	base.WriteFile("/wt/.git/packed-refs", []byte("# pack-refs with: peeled fully-peeled sorted \n"+h1.String()+" refs/heads/p\n"), false)
	base.WriteFile("/wt/.git/logs/HEAD", []byte(""), false)
	base.WriteFile("/wt/file", []byte("SENTINEL-WT"), false)
	base.WriteFile("/outside/x", []byte("SENTINEL-OUTSIDE"), false)
	base.WriteFile("/outside/refs/heads/o", []byte(h1.String()+"\n"), false)
	base.MkdirSetup("/outside/logs")
	layouts := []c14Layout{
		{"plain", func(w *mcfs.World) {}},
		{"refs->outside", func(w *mcfs.World) {
			w.RemoveSetup("/wt/.git/refs")
			w.SymlinkSetup("../../outside/refs", "/wt/.git/refs")
		}},
		{"logs->outside", func(w *mcfs.World) {
			w.RemoveSetup("/wt/.git/logs")
			w.SymlinkSetup("../../outside/logs", "/wt/.git/logs")
		}},
	}
	sentinels := []string{"/wt/.git/config", "/wt/.git/index", "/wt/.git/objects/11/sentinel", "/wt/file", "/outside/x"}
	entry := &reflog.Entry{OldHash: h1, NewHash: h2, Committer: reflog.Signature{Name: "n", Email: "e", When: time.Unix(1700000000, 0).UTC()}, Message: "m"}
	type opf struct {
		name string
		f    func(st *filesystem.Storage, n plumbing.ReferenceName) error
	}
	ops := []opf{
		{"Reference", func(st *filesystem.Storage, n plumbing.ReferenceName) error { _, err := st.Reference(n); return err }},
		{"SetReference", func(st *filesystem.Storage, n plumbing.ReferenceName) error {
			return st.SetReference(plumbing.NewHashReference(n, h1))
		}},
		{"CheckAndSetReference", func(st *filesystem.Storage, n plumbing.ReferenceName) error {
			return st.CheckAndSetReference(plumbing.NewHashReference(n, h2), plumbing.NewHashReference(n, h1))
		}},
		{"SetSymbolicReference", func(st *filesystem.Storage, n plumbing.ReferenceName) error {
			return st.SetReference(plumbing.NewSymbolicReference(n, "refs/heads/main"))
		}},
		{"AppendReflog", func(st *filesystem.Storage, n plumbing.ReferenceName) error { return st.AppendReflog(n, entry) }},
		{"Reflog", func(st *filesystem.Storage, n plumbing.ReferenceName) error { _, err := st.Reflog(n); return err }},
		{"IterReferences", func(st *filesystem.Storage, n plumbing.ReferenceName) error {
			it, err := st.IterReferences()
			if err != nil {
				return err
			}
			return it.ForEach(func(*plumbing.Reference) error { return nil })
		}},
		{"PackRefs", func(st *filesystem.Storage, n plumbing.ReferenceName) error { return st.PackRefs() }},
		{"DeleteReflog", func(st *filesystem.Storage, n plumbing.ReferenceName) error { return st.DeleteReflog(n) }},
		{"RemoveReference", func(st *filesystem.Storage, n plumbing.ReferenceName) error { return st.RemoveReference(n) }},
	}
	var opn []string
	for _, o := range ops {
		opn = append(opn, o.name)
	}
	c.Bound("operations", opn)

	for _, lay := range layouts {
		w0 := base.Clone()
		lay.setup(w0)
		allowedRoots := []string{}
		for _, p := range []string{"/wt/.git/refs", "/wt/.git/logs"} {
			allowedRoots = append(allowedRoots, w0.Resolve(p))
		}
		allowed := func(p string) bool {
			for _, r := range allowedRoots {
				if p == r || strings.HasPrefix(p, r+"/") {
					return true
				}
			}
			if p == "/wt/.git" || p == "/wt/.git/packed-refs" || strings.HasPrefix(p, "/wt/.git/.tmp") || strings.HasPrefix(p, "/wt/.git/packed-refs.") {
				return true
			}
			if rest, ok := strings.CutPrefix(p, "/wt/.git/"); ok && rest != "" && !strings.Contains(rest, "/") {
				caps := true
				for i := 0; i < len(rest); i++ {
					if (rest[i] < 'A' || rest[i] > 'Z') && rest[i] != '_' {
						caps = false
					}
				}
				if caps {
					return true
				}
			}
			return false
		}
		// run returns per-op results and touched outside paths
		type touch struct{ op, kind, path string }
		run := func(name string) (res []string, touched []touch, sentinelChanged []string) {
			w := w0.Clone()
			st := filesystem.NewStorage(w.View("/wt/.git", "git"), cache.NewObjectLRUDefault())
			for _, o := range ops {
				w.ResetJournal()
				err := func() (err error) {
					defer func() {
						if r := recover(); r != nil {
							err = fmt.Errorf("panic: %v", r)
						}
					}()
					return o.f(st, plumbing.ReferenceName(name))
				}()
				if err != nil && strings.HasPrefix(err.Error(), "panic:") {
					res = append(res, o.name+"=panic")
					touched = append(touched, touch{o.name, "panic", err.Error()})
				} else if err != nil {
					res = append(res, o.name+"=refused")
				} else {
					res = append(res, o.name+"=ok")
				}
				for _, j := range w.Journal() {
					for _, p := range []string{j.Path, j.Path2} {
						if p == "" || strings.HasPrefix(p, "ino:") || (j.Kind == "symlink" && p == j.Path2) {
							continue
						}
						if !strings.HasPrefix(p, "/") {
							continue
						}
						if !allowed(p) {
							k := "reads"
							if j.Mutating {
								k = "modifies"
							}
							touched = append(touched, touch{o.name, k, p})
						}
					}
				}
			}
			for _, s := range sentinels {
				a, _ := w0.ReadFile(s)
				b, ok := w.ReadFile(s)
				if !ok || string(a) != string(b) {
					sentinelChanged = append(sentinelChanged, s)
				}
			}
			return
		}
		// second clause of the statement: names that could resolve elsewhere are refused. A component that a
		// case-/normalisation-folding filesystem (HFS+ ignorable code points, NTFS trailing dots and spaces)
		// maps to "." or ".." could resolve elsewhere although mcfs itself keeps it literal.
		mustRefuse := func(name string) bool {
			for _, comp := range strings.FieldsFunc(name, func(r rune) bool { return r == '/' || r == '\\' }) {
				// HFS+ drops the ignorable code points and nothing else
				var sb strings.Builder
				for _, r := range comp {
					switch {
					case r == 0x200c || r == 0x200d || r == 0x200e || r == 0x200f || (r >= 0x202a && r <= 0x202e) || (r >= 0x206a && r <= 0x206f) || r == 0xfeff:
					default:
						sb.WriteRune(r)
					}
				}
				if sb.String() == ".." || sb.String() == "." {
					return true
				}
				// NTFS drops trailing dots and spaces, and ":stream" addresses a data stream OF the file before it
				nt := comp
				if k := strings.IndexByte(nt, ':'); k > 0 {
					nt = nt[:k]
				}
				if strings.TrimRight(nt, " .") == "" && strings.Contains(nt, ".") {
					return true
				}
			}
			return false
		}
		_, baseTouched, _ := run("refs/heads/ok")
		baseline := map[string]bool{}
		for _, t := range baseTouched {
			baseline[t.op+"|"+t.path] = true
			baseline["*|"+t.path] = true
		}
		c.ParDo(len(names), 0, func(i int) {
			name := names[i]
			res, touched, changed := run(name)
			c.Evals(len(ops))
			if mustRefuse(name) {
				for _, r := range res {
					op := strings.SplitN(r, "=", 2)[0]
					if strings.HasSuffix(r, "=ok") && op != "IterReferences" && op != "PackRefs" {
						c.Fail(op+" accepts a name with a component that folds to . or ..",
							fmt.Sprintf("%s(%s) on layout %s succeeds although a component of the name is '.' or '..' once HFS+-ignorable code points / NTFS trailing dots and spaces are dropped", op, fw.Q(name), lay.name),
							map[string]any{"name": name, "layout": lay.name, "op": op})
					}
				}
			}
			var esc []string
			for _, t := range touched {
				if t.kind == "panic" {
					c.Fail(t.op+" panics", fmt.Sprintf("%s(%q) on layout %s: %s", t.op, name, lay.name, t.path), map[string]any{"name": name, "layout": lay.name})
					continue
				}
				if baseline["*|"+t.path] {
					continue
				}
				esc = append(esc, t.op+" "+t.kind+" "+t.path)
				c.Fail(fmt.Sprintf("%s %s %s [layout %s]", t.op, t.kind, t.path, lay.name),
					fmt.Sprintf("%s(%s) on layout %s %s %s, which is outside refs/, logs/, packed-refs and the pseudo-ref slots", t.op, fw.Q(name), lay.name, t.kind, t.path),
					map[string]any{"name": name, "layout": lay.name, "op": t.op, "path": t.path})
			}
			for _, s := range changed {
				c.Fail("sentinel changed: "+s+" [layout "+lay.name+"]", fmt.Sprintf("after the operations on name %s (layout %s) the sentinel %s changed", fw.Q(name), lay.name, s), map[string]any{"name": name, "layout": lay.name})
			}
			sort.Strings(esc)
			c.Class(lay.name + "|" + strings.Join(res, ",") + "|" + strings.Join(esc, ","))
			if i%977 == 0 {
				c.Sample(map[string]any{"name": name, "layout": lay.name, "results": res})
			}
		})
	}
}

package checks

// C11, by-offset read paths: packfile.Packfile (Get / GetByOffset /
// GetSizeByOffset / GetAll / GetByType) and mmap.PackScanner (Get /
// GetByOffset / FindHash / FindOffset) on the packs of the C11 repositories,
// offsets from `git verify-pack -v`, contents from `git cat-file`.

import (
	"errors"
	"fmt"
	"os"
	"path/filepath"
	"strings"

	"github.com/go-git/go-billy/v6"
	"github.com/go-git/go-billy/v6/osfs"
	"github.com/go-git/go-git/v6/plumbing"
	"github.com/go-git/go-git/v6/plumbing/cache"
	"github.com/go-git/go-git/v6/plumbing/format/idxfile"
	"github.com/go-git/go-git/v6/plumbing/format/packfile"
	ghash "github.com/go-git/go-git/v6/plumbing/hash"
	"github.com/go-git/go-git/v6/storage/filesystem/mmap"

	"verifmc/fw"
)

const (
	c11pGet = iota
	c11pGetByOffset
	c11pSizeByOffset
	c11pFindHash
	c11pFindOffset
	c11pAll
	c11pByType
)

var c11pName = []string{"Get", "GetByOffset", "GetSizeByOffset", "FindHash", "FindOffset", "GetAll", "GetByType(blob)"}

type c11pOp struct {
	Kind int
	Role string // role name inside the pack (for keys)
	Hex  string
	Off  int64
	Has  bool // the pack holds this id / an object starts at this offset
}

func (o c11pOp) String() string { return c11pName[o.Kind] + "(" + o.Role + ")" }

type c11pCfg struct {
	WithFs, Lazy bool
	Cache        int // 0 | 2
}

func (k c11pCfg) String() string {
	return fmt.Sprintf("fs=%v,lazyidx=%v,cache=%d", k.WithFs, k.Lazy, k.Cache)
}

type c11pReader interface {
	do(r *c11Repo, p *c11Pack, op c11pOp) (bad, detail, class string)
	close()
}

type c11pfReader struct {
	pf *packfile.Packfile
	ix idxfile.Index
}

func c11OpenPackfile(r *c11Repo, p *c11Pack, k c11pCfg) (c11pReader, error) {
	fs := osfs.New(p.Side)
	f, err := fs.Open("p.pack")
	if err != nil {
		fw.Abort("open side pack: %v", err)
	}
	var ix idxfile.Index
	if k.Lazy {
		ph, _ := plumbing.FromHex(p.Hash)
		ix, err = idxfile.NewLazyIndex(
			func() (idxfile.ReadAtCloser, error) { return fs.Open("p.idx") },
			func() (idxfile.ReadAtCloser, error) { return fs.Open("p.rev") }, ph)
		if err != nil {
			f.Close()
			return nil, err
		}
	} else {
		raw, err := os.ReadFile(filepath.Join(p.Side, "p.idx"))
		if err != nil {
			fw.Abort("read side idx: %v", err)
		}
		mi := idxfile.NewMemoryIndex(r.hs)
		err = idxfile.NewDecoder(ccNewMemInput(raw), ghash.New(c10CryptoHash(r.hs))).Decode(mi)
		if err != nil {
			f.Close()
			return nil, err
		}
		ix = mi
	}
	opts := []packfile.PackfileOption{packfile.WithIdx(ix), packfile.WithObjectIDSize(r.hs)}
	if k.WithFs {
		opts = append(opts, packfile.WithFs(fs))
	}
	if k.Cache == 0 {
		opts = append(opts, packfile.WithCache(cache.NewObjectLRU(0)))
	} else {
		opts = append(opts, packfile.WithCache(cache.NewObjectLRUDefault()))
	}
	return &c11pfReader{pf: packfile.NewPackfile(f, opts...), ix: ix}, nil
}

func (x *c11pfReader) close() {
	ccGuard(func() { x.pf.Close() })
	ccGuard(func() { x.ix.Close() })
}

func c11pErr(err error, has bool, nf ...error) (string, string, string) {
	for _, e := range nf {
		if errors.Is(err, e) {
			if has {
				return "missing", err.Error(), ""
			}
			return "", "", "notfound"
		}
	}
	if has {
		return "error", err.Error(), ""
	}
	// an offset that is not an object start / an id outside the pack: any error is a refusal
	return "", "", "refused"
}

func (x *c11pfReader) do(r *c11Repo, p *c11Pack, op c11pOp) (bad, detail, class string) {
	if pn, what := ccGuard(func() { bad, detail, class = x.do1(r, p, op) }); pn {
		return "panic", what, ""
	}
	return
}

func (x *c11pfReader) do1(r *c11Repo, p *c11Pack, op c11pOp) (string, string, string) {
	nf := plumbing.ErrObjectNotFound
	switch op.Kind {
	case c11pGet, c11pGetByOffset:
		var o plumbing.EncodedObject
		var err error
		if op.Kind == c11pGet {
			h, _ := plumbing.FromHex(op.Hex)
			o, err = x.pf.Get(h)
		} else {
			o, err = x.pf.GetByOffset(op.Off)
		}
		if err != nil {
			return c11pErr(err, op.Has, nf)
		}
		if !op.Has {
			return "phantom", fmt.Sprintf("%T %s", o, o.Hash()), ""
		}
		return c11CheckObj(o, op.Hex, r.model[op.Hex]), fmt.Sprintf("%T", o), fmt.Sprintf("%T", o)
	case c11pSizeByOffset:
		n, err := x.pf.GetSizeByOffset(op.Off)
		if err != nil {
			return c11pErr(err, op.Has, nf)
		}
		if !op.Has {
			return "phantom", fmt.Sprintf("size %d", n), ""
		}
		if n != int64(len(r.model[op.Hex].Data)) {
			return "wrong-size", fmt.Sprintf("%d, git says %d", n, len(r.model[op.Hex].Data)), ""
		}
		return "", "", "size"
	case c11pAll, c11pByType:
		t := plumbing.AnyObject
		if op.Kind == c11pByType {
			t = plumbing.BlobObject
		}
		it, err := x.pf.GetByType(t)
		if err != nil {
			return "error", err.Error(), ""
		}
		seen := map[string]bool{}
		err = it.ForEach(func(o plumbing.EncodedObject) error {
			hx := o.Hash().String()
			if _, ok := p.ByHex[hx]; !ok {
				return fmt.Errorf("phantom %s", hx)
			}
			if t != plumbing.AnyObject && o.Type() != t {
				return fmt.Errorf("wrong-type %s", hx)
			}
			if d := c11CheckObj(o, hx, r.model[hx]); d != "" {
				return fmt.Errorf("%s %s (%T)", d, hx, o)
			}
			seen[hx] = true
			return nil
		})
		it.Close()
		if err != nil {
			k := strings.Fields(err.Error())[0]
			switch k {
			case "phantom", "wrong-type", "wrong-hash", "wrong-size", "wrong-bytes", "read-error", "nil-object":
				return k, err.Error(), ""
			}
			return "error", err.Error(), ""
		}
		for _, e := range p.Entries {
			if (t == plumbing.AnyObject || r.model[e.Hex].Type == "blob") && !seen[e.Hex] {
				return "missing", "iteration never yields " + e.Hex, ""
			}
		}
		return "", "", fmt.Sprintf("iter/%d", len(seen))
	}
	panic("op not supported by Packfile driver")
}

type c11psReader struct{ s *mmap.PackScanner }

func c11OpenScanner(r *c11Repo, p *c11Pack) (c11pReader, error) {
	fs := osfs.New(p.Side)
	var fl [3]billy.File
	for i, n := range []string{"p.pack", "p.idx", "p.rev"} {
		f, err := fs.Open(n)
		if err != nil {
			fw.Abort("open side %s: %v", n, err)
		}
		fl[i] = f
	}
	s, err := mmap.NewPackScanner(r.hs, fl[0], fl[1], fl[2])
	if err != nil {
		for _, f := range fl {
			f.Close()
		}
		return nil, err
	}
	return &c11psReader{s}, nil
}

func (x *c11psReader) close() { ccGuard(func() { x.s.Close() }) }

func (x *c11psReader) do(r *c11Repo, p *c11Pack, op c11pOp) (bad, detail, class string) {
	if pn, what := ccGuard(func() { bad, detail, class = x.do1(r, p, op) }); pn {
		return "panic", what, ""
	}
	return
}

func (x *c11psReader) do1(r *c11Repo, p *c11Pack, op c11pOp) (string, string, string) {
	nf := []error{mmap.ErrObjectNotFound, plumbing.ErrObjectNotFound, mmap.ErrOffsetNotFound}
	switch op.Kind {
	case c11pGet, c11pGetByOffset:
		var o plumbing.EncodedObject
		var err error
		if op.Kind == c11pGet {
			h, _ := plumbing.FromHex(op.Hex)
			o, err = x.s.Get(h)
		} else {
			o, err = x.s.GetByOffset(uint64(op.Off))
		}
		if err != nil {
			return c11pErr(err, op.Has, nf...)
		}
		if !op.Has {
			return "phantom", fmt.Sprintf("%T %s", o, o.Hash()), ""
		}
		return c11CheckObj(o, op.Hex, r.model[op.Hex]), fmt.Sprintf("%T", o), fmt.Sprintf("%T/%d", o, p.ByHex[op.Hex].OnDisk)
	case c11pFindHash:
		h, err := x.s.FindHash(uint64(op.Off))
		if err != nil {
			return c11pErr(err, op.Has, nf...)
		}
		if !op.Has {
			return "phantom", h.String(), ""
		}
		if h.String() != op.Hex {
			return "wrong-hash", h.String(), ""
		}
		return "", "", "hash"
	case c11pFindOffset:
		h, _ := plumbing.FromHex(op.Hex)
		o, err := x.s.FindOffset(h)
		if err != nil {
			return c11pErr(err, op.Has, nf...)
		}
		if !op.Has {
			return "phantom", fmt.Sprint(o), ""
		}
		if int64(o) != op.Off {
			return "wrong-offset", fmt.Sprintf("%d, git says %d", o, op.Off), ""
		}
		return "", "", "offset"
	}
	panic("op not supported by PackScanner driver")
}

// c11PackRoles picks the role objects of one pack.
func c11PackRoles(r *c11Repo, p *c11Pack) map[string]*c11PackEntry {
	out := map[string]*c11PackEntry{}
	out["first"] = &p.Entries[0]
	out["last"] = &p.Entries[len(p.Entries)-1]
	for i := range p.Entries {
		e := &p.Entries[i]
		switch {
		case e.OnDisk < 5 && r.model[e.Hex].Type == "blob" && out["base"] == nil:
			out["base"] = e
		case e.OnDisk < 5 && r.model[e.Hex].Type == "tree" && out["tree"] == nil:
			out["tree"] = e
		case e.OnDisk >= 6 && e.Depth == 1 && out["delta1"] == nil:
			out["delta1"] = e
		}
		if e.OnDisk >= 6 && (out["deepest"] == nil || e.Depth > out["deepest"].Depth) {
			out["deepest"] = e
		}
	}
	return out
}

func c11PackDrivers(c *fw.Ctx, r *c11Repo) {
	type job struct {
		p      *c11Pack
		driver string
		k      c11pCfg
		first  []c11pOp // prefix run before the last position
		last   []c11pOp
	}
	var jobs []job
	for _, p := range r.packs {
		roles := c11PackRoles(r, p)
		// absent id: a local object that is not in this pack, else the global absent id
		absent := r.roles["absent"]
		for h := range r.model {
			if _, in := p.ByHex[h]; !in {
				absent = h
				break
			}
		}
		var names []string
		for n := range roles {
			names = append(names, n)
		}
		// deterministic order
		for i := range names {
			for j := i + 1; j < len(names); j++ {
				if names[j] < names[i] {
					names[i], names[j] = names[j], names[i]
				}
			}
		}
		var pfAlpha, psAlpha []c11pOp
		for _, n := range names {
			e := roles[n]
			for _, k := range []int{c11pGet, c11pGetByOffset, c11pSizeByOffset} {
				pfAlpha = append(pfAlpha, c11pOp{k, n, e.Hex, e.Off, true})
			}
			for _, k := range []int{c11pGet, c11pGetByOffset, c11pFindHash, c11pFindOffset} {
				psAlpha = append(psAlpha, c11pOp{k, n, e.Hex, e.Off, true})
			}
		}
		mid := roles["last"].Off + 1 // inside the last entry: not an object start
		pfAlpha = append(pfAlpha, c11pOp{c11pGet, "absent", absent, 0, false}, c11pOp{c11pGetByOffset, "not-a-start", "", mid, false},
			c11pOp{Kind: c11pAll, Role: "all"}, c11pOp{Kind: c11pByType, Role: "blob"})
		psAlpha = append(psAlpha, c11pOp{c11pGet, "absent", absent, 0, false}, c11pOp{c11pGetByOffset, "not-a-start", "", mid, false},
			c11pOp{c11pFindHash, "not-a-start", "", mid, false}, c11pOp{c11pFindOffset, "absent", absent, 0, false})
		// every object of the pack, by id and by offset
		var every []c11pOp
		var everyPS []c11pOp
		for i := range p.Entries {
			e := &p.Entries[i]
			every = append(every, c11pOp{c11pGet, "obj", e.Hex, e.Off, true}, c11pOp{c11pGetByOffset, "obj", e.Hex, e.Off, true})
			everyPS = append(everyPS, c11pOp{c11pGet, "obj", e.Hex, e.Off, true}, c11pOp{c11pGetByOffset, "obj", e.Hex, e.Off, true},
				c11pOp{c11pFindHash, "obj", e.Hex, e.Off, true}, c11pOp{c11pFindOffset, "obj", e.Hex, e.Off, true})
		}
		for _, wf := range []bool{false, true} {
			for _, lz := range []bool{false, true} {
				for _, ca := range []int{0, 2} {
					k := c11pCfg{wf, lz, ca}
					for _, op := range every { // length 1, fresh Packfile each
						jobs = append(jobs, job{p, "packfile", k, nil, []c11pOp{op}})
					}
					for _, f := range pfAlpha { // length 2, fresh Packfile per pair
						for _, l := range pfAlpha {
							jobs = append(jobs, job{p, "packfile", k, []c11pOp{f}, []c11pOp{l}})
						}
					}
				}
			}
		}
		// scanner: one instance per first op, last position iterated on it (an mmap per instance)
		jobs = append(jobs, job{p, "packscanner", c11pCfg{}, nil, everyPS})
		for _, f := range psAlpha {
			jobs = append(jobs, job{p, "packscanner", c11pCfg{}, []c11pOp{f}, psAlpha})
		}
	}
	c.States(len(r.packs) * 9)
	c.ParDo(len(jobs), 0, func(i int) {
		j := jobs[i]
		var rd c11pReader
		var err error
		if pn, what := ccGuard(func() {
			if j.driver == "packfile" {
				rd, err = c11OpenPackfile(r, j.p, j.k)
			} else {
				rd, err = c11OpenScanner(r, j.p)
			}
		}); pn {
			err = errors.New("PANIC " + what)
		}
		where := "main"
		if j.p.Alt {
			where = "alternate"
		}
		fail := func(seq []c11pOp, bad, detail string) {
			var ss []string
			for _, o := range seq {
				ss = append(ss, o.String())
			}
			cfg := ""
			if j.driver == "packfile" {
				cfg = "/[" + j.k.String() + "]"
			}
			// objects addressed as "obj" carry their on-disk kind in the key
			kind := ""
			if l := seq[len(seq)-1]; l.Role == "obj" && l.Has {
				kind = fmt.Sprintf("/ondisk-type-%d", j.p.ByHex[l.Hex].OnDisk)
			}
			c.Fail(fmt.Sprintf("%s/%s/%s%s%s", j.driver, strings.Join(ss, ">"), bad, kind, cfg),
				fmt.Sprintf("%s on %s pack %s of the %s repository: %v: %s (%s)", j.driver, where, j.p.Hash[:12], r.of, ss, bad, detail),
				map[string]any{"driver": j.driver, "pack": j.p.Hash, "object_format": r.of, "config": j.k.String(), "sequence": fmt.Sprint(seq), "discrepancy": bad, "detail": detail})
		}
		if err != nil {
			c.Fail(fmt.Sprintf("%s/open/error", j.driver), fmt.Sprintf("%s cannot open %s pack %s (%s): %v", j.driver, where, j.p.Hash[:12], r.of, err), map[string]any{"pack": j.p.Hash, "error": err.Error()})
			return
		}
		defer rd.close()
		var seq []c11pOp
		for _, op := range j.first {
			seq = append(seq, op)
			bad, detail, cl := rd.do(r, j.p, op)
			c.Transitions(1)
			if bad != "" {
				fail(seq, bad, detail)
				return
			}
			c.Class(j.driver + "/" + op.String() + "/" + cl)
		}
		for _, op := range j.last {
			bad, detail, cl := rd.do(r, j.p, op)
			c.Transitions(1)
			c.Eval()
			if bad != "" {
				fail(append(append([]c11pOp(nil), seq...), op), bad, detail)
				if j.driver == "packfile" {
					return
				}
				continue
			}
			c.Class(j.driver + "/" + op.String() + "/" + cl)
		}
	})
}

package checks

// C34, further parts: every pkt-line writer entry point against a reference
// encoding, error lines of any text, payloads next to the "ERR " prefix,
// sources that interleave empty reads, and the whole small space again with
// packet tracing switched on.

import (
	"bytes"
	"errors"
	"fmt"
	"io"
	"log"
	"os"
	"strings"

	"github.com/go-git/go-git/v6/plumbing/format/pktline"
	"github.com/go-git/go-git/v6/plumbing/protocol/packp/sideband"
	"github.com/go-git/go-git/v6/utils/trace"

	"verifmc/fw"
)

// c34Model is the reference encoding of one data packet.
func c34Model(payload string) []byte {
	return []byte(fmt.Sprintf("%04x%s", len(payload)+pktline.LenSize, payload))
}

type c34Writer struct {
	name string
	ok   func(p string) bool
	w    func(b *bytes.Buffer, p string) (int, error)
}

var c34WriterTable = []c34Writer{
	{"Write", nil, func(b *bytes.Buffer, p string) (int, error) { return pktline.Write(b, []byte(p)) }},
	{"WriteString", nil, func(b *bytes.Buffer, p string) (int, error) { return pktline.WriteString(b, p) }},
	{"Writeln", func(p string) bool { return strings.HasSuffix(p, "\n") }, func(b *bytes.Buffer, p string) (int, error) { return pktline.Writeln(b, p[:len(p)-1]) }},
	{"Writef(literal)", nil, func(b *bytes.Buffer, p string) (int, error) { return pktline.Writef(b, p) }},
	{"Writef(%s)", nil, func(b *bytes.Buffer, p string) (int, error) { return pktline.Writef(b, "%s", p) }},
	{"Writef(%s%s)", nil, func(b *bytes.Buffer, p string) (int, error) {
		return pktline.Writef(b, "%s%s", p[:len(p)/2], []byte(p[len(p)/2:]))
	}},
}

// c34Writers: every writer entry point x every payload over an alphabet that
// holds the formatting metacharacter: the bytes written must be the reference
// encoding, the returned count the number of bytes written, and the packet
// must read back.
func c34Writers(c *fw.Ctx, env *c34Env, allCons []int) {
	wsig := []string{"a", "%", "s", "\n", "d"}
	payloads := fw.Strings(wsig, 3)
	payloads = append(payloads, "100%\n", "%!s(MISSING)", "%%", "%v%v%v%v", "want %s\n", string(c34Fill(1000, 0))+"%d", strings.Repeat("%s", 500))
	c.Bound("writer_entry_points", "Write, WriteString, Writeln, Writef without arguments, Writef(%s), Writef(%s%s)")
	c.Bound("writer_payloads", fmt.Sprintf("%d: all strings of length <= 3 over %q and 7 longer payloads holding %%", len(payloads), wsig))
	c.ParDo(len(payloads), 0, func(i int) {
		p := payloads[i]
		model := c34Model(p)
		for wi, w := range c34WriterTable {
			if w.ok != nil && !w.ok(p) {
				continue
			}
			var b bytes.Buffer
			n, err := w.w(&b, p)
			c.Eval()
			bad := ""
			switch {
			case err != nil:
				bad = "error: " + err.Error()
			case !bytes.Equal(b.Bytes(), model):
				bad = fmt.Sprintf("writes %s instead of %s", dShort(b.Bytes()), dShort(model))
			case n != len(model):
				bad = fmt.Sprintf("returns count %d for %d bytes written", n, len(model))
			}
			env.cls.add(c, fmt.Sprintf("writers|%s|len%d|pct=%v|%v", w.name, min(len(p), 4), strings.Contains(p, "%"), bad == ""))
			if bad != "" {
				w, bad := w, bad
				env.fails.add("pktline/writer/"+w.name+"/"+strings.Fields(bad)[0], [3]int{c34PartRank["writers"] * 10000000, i, wi}, func() (string, string, any) {
					return fmt.Sprintf("pktline writers: %s of payload %s %s", w.name, fw.Q(dShortS(p)), bad), "a pkt-line writer does not produce the packet for its payload",
						map[string]any{"writer": w.name, "payload": fw.Q(dShortS(p)), "written": dShort(b.Bytes())}
				})
				continue
			}
			if wi == 0 {
				seq := []c34Pkt{{'D', []byte(p)}, {'D', []byte("ab")}, {'F', nil}}
				stream := append(append([]byte{}, model...), "0006ab0000"...)
				ends := []int{len(model), len(model) + 6, len(model) + 10}
				var want []c34Ev
				for _, q := range seq {
					want = append(want, c34Expect(q))
				}
				env.run("writers", i, c34SeqString(seq), c34Shape(seq), stream, c34Starts(ends), want,
					[]dChunking{{}, {max: 1}, {max: 3, eofData: true}}, allCons, -1)
			}
		}
	})
}

func dShortS(s string) string {
	if len(s) > 48 {
		return fmt.Sprintf("%s...[%d]", s[:32], len(s))
	}
	return s
}

// c34ErrLines: error packets of any text through both error writers and every
// reader (incl. ErrorLine.Decode), and data payloads that are one edit away
// from the "ERR " prefix (which must stay data).
func c34ErrLines(c *fw.Ctx, env *c34Env, allCons []int) {
	maxText := pktline.MaxPayloadSize - len("ERR ") - 1
	long := func(n int) string {
		b := c34Fill(n, 5)
		for i := range b {
			if b[i] == '\n' || b[i] < ' ' {
				b[i] = 'e'
			}
		}
		return string(b)
	}
	texts := []string{"", "x", "a b", "a\nb", "ERR x", "%s %d%%", "0000", "0008ERR x", "remote: fatal\tx", long(1000), long(maxText - 1), long(maxText)}
	near := []string{"ERR", "ERRx", "ER", "E", "err x", "Err x", " ERR x", "ERR\n", "ERR\tx", "xERR x", "ERRR x", "ERR\x00x"}
	c.Bound("error_line_texts", fmt.Sprintf("%d texts without leading/trailing white space: empty, with inner space/LF/TAB, starting with ERR, holding %%, of 1000, %d and %d (the maximum) bytes; %d bytes must be refused", len(texts), maxText-1, maxText, maxText+1))
	c.Bound("near_error_prefix_payloads", near)
	if _, err := pktline.WriteError(io.Discard, errors.New(long(maxText+1))); !errors.Is(err, pktline.ErrPayloadTooLong) {
		c.Fail("pktline WriteError accepts an error text one byte above the maximum", "WriteError does not refuse an oversized error line", nil)
	}
	type ec struct {
		isErr bool
		s     string
	}
	var cases []ec
	for _, t := range texts {
		cases = append(cases, ec{true, t})
	}
	for _, p := range near {
		cases = append(cases, ec{false, p})
	}
	c.ParDo(len(cases), 0, func(i int) {
		ca := cases[i]
		var first []byte
		var seq []c34Pkt
		if ca.isErr {
			first = c34Model("ERR " + ca.s + "\n")
			seq = []c34Pkt{{'E', []byte(ca.s)}, {'D', []byte("ab")}, {'F', nil}}
			var b1, b2 bytes.Buffer
			n1, e1 := pktline.WriteError(&b1, errors.New(ca.s))
			e2 := (&pktline.ErrorLine{Text: ca.s}).Encode(&b2)
			c.Evals(2)
			bad := ""
			switch {
			case e1 != nil || e2 != nil:
				bad = fmt.Sprintf("error: WriteError %v, ErrorLine.Encode %v", e1, e2)
			case !bytes.Equal(b1.Bytes(), first):
				bad = "WriteError writes " + dShort(b1.Bytes())
			case !bytes.Equal(b2.Bytes(), first):
				bad = "ErrorLine.Encode writes " + dShort(b2.Bytes())
			case n1 != len(first):
				bad = fmt.Sprintf("WriteError returns count %d for %d bytes", n1, len(first))
			}
			if bad != "" {
				env.fails.add("pktline/errwriter/"+strings.Fields(bad)[0], [3]int{c34PartRank["errline"] * 10000000, i, 0}, func() (string, string, any) {
					return fmt.Sprintf("pktline error writers: text %s: %s (reference %s)", fw.Q(dShortS(ca.s)), bad, dShort(first)), "an error line is not written as ERR <text> LF", nil
				})
				return
			}
		} else {
			first = c34Model(ca.s)
			seq = []c34Pkt{{'D', []byte(ca.s)}, {'D', []byte("ab")}, {'F', nil}}
		}
		stream := append(append([]byte{}, first...), "0006ab0000"...)
		ends := []int{len(first), len(first) + 6, len(first) + 10}
		var want []c34Ev
		for _, q := range seq {
			want = append(want, c34Expect(q))
		}
		var ks []dChunking
		if len(stream) <= 64 {
			ks = dChunkingsSmall(len(stream), false, []int{1, 2, 3, 7}, true)
		} else {
			ks = []dChunking{{}, {max: 1}, {max: 7, eofData: true}, {max: 4096}}
			for _, p := range dNear(len(stream), 2, 4, 8, ends[0], ends[0]+4) {
				ks = append(ks, dChunking{cuts: []int{p}})
			}
		}
		env.run("errline", i, c34SeqString(seq), c34Shape(seq)+fmt.Sprint(ca.isErr), stream, c34Starts(ends), want, ks, allCons, -1)
		// ErrorLine.Decode: yields the text of an error line, refuses anything else,
		// consumes exactly one packet either way
		for ki, k := range ks {
			r := newChunkReader(stream, k)
			var el pktline.ErrorLine
			err := el.Decode(r)
			var el2 pktline.ErrorLine
			err2 := el2.Decode(r)
			l3, _, err3 := pktline.ReadLine(r)
			c.Eval()
			bad := ""
			switch {
			case ca.isErr && (err != nil || el.Text != ca.s):
				bad = fmt.Sprintf("first packet: text %s error %v", fw.Q(dShortS(el.Text)), err)
			case !ca.isErr && !errors.Is(err, pktline.ErrInvalidErrorLine):
				bad = fmt.Sprintf("data packet: error %v instead of ErrInvalidErrorLine", err)
			case !errors.Is(err2, pktline.ErrInvalidErrorLine):
				bad = fmt.Sprintf("second packet (data ab): error %v instead of ErrInvalidErrorLine", err2)
			case l3 != pktline.Flush || err3 != nil:
				bad = fmt.Sprintf("third packet: length %d error %v instead of a flush", l3, err3)
			}
			env.cls.add(c, fmt.Sprintf("errline|ErrorLine.Decode|%v|%s|%v", ca.isErr, c34ChunkClass(k, c34Starts(ends)), bad == ""))
			if bad != "" {
				k, bad := k, bad
				env.fails.add("pktline/ErrorLine.Decode/"+strings.Fields(bad)[0], [3]int{c34PartRank["errline"]*10000000 + i, ki, 0}, func() (string, string, any) {
					return fmt.Sprintf("pktline errline/ErrorLine.Decode: [%s] %s: %s", c34SeqString(seq), k, bad), "ErrorLine.Decode does not return the error line / does not stay in sync", nil
				})
			}
		}
	})
}

// c34ZeroReads: sources that return (0, nil) before every chunk.
func c34ZeroReads(c *fw.Ctx, env *c34Env, alpha []c34Pkt, allCons []int) {
	seqs := fw.Seqs(len(alpha), 2)
	c.Bound("zero_length_reads", "every sequence of length <= 2: every chunk of (whole, every single split, maxima 1, 3) is preceded by one Read returning (0, nil); also one 1000-byte and one maximal packet")
	run := func(i int, seq []c34Pkt) {
		stream, ends, err := c34Encode(seq)
		c.Must(err, "encode")
		var want []c34Ev
		for _, p := range seq {
			want = append(want, c34Expect(p))
		}
		ks := []dChunking{{zero: true}, {max: 1, zero: true}, {max: 3, zero: true, eofData: true}}
		if len(stream) <= 64 {
			for p := 1; p < len(stream); p++ {
				ks = append(ks, dChunking{cuts: []int{p}, zero: true})
			}
		} else {
			ks = append(ks, dChunking{max: 4096, zero: true}, dChunking{cuts: []int{2}, zero: true}, dChunking{cuts: []int{ends[0] - 1}, zero: true})
		}
		env.run("zeroreads", i, c34SeqString(seq), c34Shape(seq), stream, c34Starts(ends), want, ks, allCons, -1)
	}
	c.ParDo(len(seqs)+2, 0, func(i int) {
		switch {
		case i < len(seqs):
			var seq []c34Pkt
			for _, a := range seqs[i] {
				seq = append(seq, alpha[a])
			}
			run(i, seq)
		case i == len(seqs):
			run(i, []c34Pkt{{'D', c34Fill(1000, 1)}, {'D', []byte("ab")}, {'F', nil}})
		default:
			run(i, []c34Pkt{{'D', c34Fill(pktline.MaxPayloadSize, 1)}, {'D', []byte("ab")}, {'F', nil}})
		}
	})
}

// c34Traced repeats a small space with packet tracing switched on (the
// GIT_TRACE_PACKET mode): tracing must not change what is written or read.
// The trace target is process-wide, so this part runs on its own.
func c34Traced(c *fw.Ctx, env *c34Env, alpha []c34Pkt, allCons []int) {
	old := trace.GetTarget()
	trace.SetLogger(log.New(io.Discard, "", 0))
	trace.SetTarget(old | trace.Packet)
	defer func() {
		trace.SetTarget(old)
		trace.SetLogger(log.New(os.Stderr, "", log.Ltime|log.Lmicroseconds|log.Lshortfile))
	}()
	c.Bound("traced", "with trace.Packet enabled: every sequence of length <= 2 (whole, single splits, maxima 1, 3), payloads of 394..397 and 1000 bytes starting with and without the pack-data channel byte, and the small sideband scripts")
	seqs := fw.Seqs(len(alpha), 2)
	type tc struct{ seq []c34Pkt }
	var cases []tc
	for _, s := range seqs {
		var seq []c34Pkt
		for _, a := range s {
			seq = append(seq, alpha[a])
		}
		cases = append(cases, tc{seq})
	}
	for _, n := range []int{1, 2, 394, 395, 396, 397, 1000} {
		for _, b0 := range []byte{1, 2, 'a'} {
			d := c34Fill(n, 2)
			d[0] = b0
			cases = append(cases, tc{[]c34Pkt{{'D', d}, {'D', []byte("ab")}, {'F', nil}}})
		}
	}
	c.ParDo(len(cases), 0, func(i int) {
		seq := cases[i].seq
		stream, ends, err := c34Encode(seq)
		c.Must(err, "encode")
		// the reference encoding, computed without go-git
		var model []byte
		for _, p := range seq {
			switch p.kind {
			case 'D':
				model = append(model, c34Model(string(p.data))...)
			case 'E':
				model = append(model, c34Model("ERR "+string(p.data)+"\n")...)
			case 'F':
				model = append(model, "0000"...)
			case 'L':
				model = append(model, "0001"...)
			case 'R':
				model = append(model, "0002"...)
			}
		}
		if !bytes.Equal(stream, model) {
			env.fails.add("pktline/traced/write", [3]int{c34PartRank["trace"] * 10000000, i, 0}, func() (string, string, any) {
				return fmt.Sprintf("pktline traced: [%s] is written as %s with packet tracing on", c34SeqString(seq), dShort(stream)), "packet tracing changes the bytes written", nil
			})
			return
		}
		var want []c34Ev
		for _, p := range seq {
			want = append(want, c34Expect(p))
		}
		ks := []dChunking{{}, {max: 1}, {max: 3, eofData: true}}
		if len(stream) <= 64 {
			for p := 1; p < len(stream); p++ {
				ks = append(ks, dChunking{cuts: []int{p}})
			}
		} else {
			ks = append(ks, dChunking{cuts: []int{2}}, dChunking{cuts: []int{ends[0] - 1}}, dChunking{max: 399}, dChunking{max: 400})
		}
		env.run("trace", i, c34SeqString(seq), c34Shape(seq), stream, c34Starts(ends), want, ks, allCons, -1)
	})
	// sideband with tracing on: small scripts, a few chunkings and read sizes
	P, G := sideband.PackData, sideband.ProgressMessage
	ops := []c34SbWrite{{ch: P, n: 1}, {ch: P, n: 3}, {ch: G, n: 2}, {ch: P, n: 996}}
	scripts := fw.Seqs(len(ops), 2)
	c.ParDo(len(scripts), 0, func(i int) {
		if len(scripts[i]) == 0 {
			return
		}
		for _, t := range []sideband.Type{sideband.Sideband, sideband.Sideband64k} {
			var buf bytes.Buffer
			m := sideband.NewMuxer(t, &buf)
			var wantPack, wantProg []byte
			var script []c34SbWrite
			for _, a := range scripts[i] {
				w := ops[a]
				script = append(script, w)
				if w.ch == P {
					d := c34SbFill(P, w.n, len(wantPack))
					wantPack = append(wantPack, d...)
					_, err := m.Write(d)
					c.Must(err, "mux")
				} else {
					d := c34SbFill(G, w.n, len(wantProg))
					wantProg = append(wantProg, d...)
					_, err := m.WriteChannel(G, d)
					c.Must(err, "mux")
				}
			}
			c.Must(pktline.WriteFlush(&buf), "flush")
			stream := append([]byte{}, buf.Bytes()...)
			scratch := make([]byte, 4096)
			for ki, k := range []dChunking{{}, {max: 1}, {max: 5}, {cuts: []int{4}}, {cuts: []int{5}, eofData: true}} {
				for pi, plan := range []c34ReadPlan{{1 << 18}, {1}, {2, 1000}} {
					gotPack, gotProg, rerr, _ := c34Demux(t, newChunkReader(stream, k), plan, true, len(stream)+16, scratch, true)
					c.Eval()
					okk := rerr == io.EOF && bytes.Equal(gotPack, wantPack) && bytes.Equal(gotProg, wantProg)
					env.cls.add(c, fmt.Sprintf("trace|sideband|%d|%v", len(script), okk))
					if !okk {
						k, plan := k, plan
						env.fails.add("sideband/traced", [3]int{i, ki, pi}, func() (string, string, any) {
							return fmt.Sprintf("sideband traced: %s; stream %s; reads %v: pack %s progress %s end %v", c34SbScriptString(t, script, true), k, []int(plan), dShort(gotPack), dShort(gotProg), rerr),
								"with packet tracing on, sideband demultiplexing does not reproduce the multiplexed bytes", nil
						})
					}
				}
			}
		}
	})
}

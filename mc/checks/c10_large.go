package checks

import (
	"crypto/sha1"
	"crypto/sha256"
	"encoding/binary"
	"fmt"
	"path/filepath"
	"sort"

	"github.com/go-git/go-git/v6/plumbing"
	"github.com/go-git/go-git/v6/plumbing/format/idxfile"

	"verifmc/fw"
)

// c10Large covers what the 12-hash universe cannot: indexes larger than the
// readers' internal scan buffers (LazyIndex scans the 32-bit offset table in
// 32 KiB chunks = 8192 entries), with 64-bit offsets on both sides of every
// chunk boundary. Sizes and the positions of the big offsets are enumerated,
// every entry is then looked up through each implementation and compared with
// the plain map.
func c10Large(c *fw.Ctx) {
	sizes := []int{8191, 8192, 8193, 9000}
	if c.Thorough() {
		sizes = append(sizes, 16384, 16385, 20000)
	}
	// where the 64-bit offsets sit in hash-sorted order
	layouts := []string{"none", "first-only", "last-only", "every-32nd", "after-8192-only", "before-8192-only", "beyond-4GiB"}
	c.Bound("large_index_sizes", sizes)
	c.Bound("large_index_64bit_layouts", layouts)
	scratch := c.TempDir("c10large")
	type sz struct{ n, hs int }
	var cases []sz
	for _, n := range sizes {
		cases = append(cases, sz{n, 20})
	}
	cases = append(cases, sz{8193, 32}) // 32-byte ids: every table of the file starts elsewhere
	if c.Thorough() {
		cases = append(cases, sz{16385, 32})
	}
	c.Bound("large_index_sha256_sizes", []int{8193})
	c.Bound("large_index_queries", "every 7th row and the chunk-boundary rows by id, crc and offset; absent ids next to present ones; absent offsets; prefixes of 1, 2, 3, hs-1, hs, hs+1 bytes of eight rows; whole listings in id and offset order twice; MemoryIndex, LazyIndex with/without pool, mmap scanner")
	for ci, cs := range cases {
		n, hs := cs.n, cs.hs
		hashes := make([]string, n)
		for i := range hashes {
			var b [8]byte
			binary.BigEndian.PutUint64(b[:], uint64(i))
			if hs == 32 {
				s := sha256.Sum256(b[:])
				hashes[i] = string(s[:])
			} else {
				s := sha1.Sum(b[:])
				hashes[i] = string(s[:])
			}
		}
		sort.Strings(hashes)
		for li, lay := range layouts {
			ents := make([]c10Entry, n)
			model := map[string]c10Entry{}
			for i, h := range hashes {
				off := uint64(12 + i*40)
				big := false
				switch lay {
				case "first-only":
					big = i == 0
				case "last-only":
					big = i == n-1
				case "every-32nd":
					big = i%32 == 7
				case "after-8192-only":
					big = i >= 8192 && i%16 == 0
				case "before-8192-only":
					big = i < 8192 && i%16 == 0
				}
				if lay == "beyond-4GiB" && i%16 == 0 {
					// above 2^32, and ordered differently by their low 32 bits than by their value
					off = (uint64(i%5)+1)<<32 | uint64(n-i)*64
				}
				if big {
					off = 1<<31 + uint64(i)*64
				}
				ents[i] = c10Entry{H: h, Off: off, CRC: uint32(i*2654435761) ^ 0x5a5a5a5a}
				model[h] = ents[i]
			}
			idx, rev, packSum, err := c10Encode(hs, ents)
			if err != nil {
				c.Fail("large index: go-git cannot encode", fmt.Sprintf("n=%d layout=%s: %v", n, lay, err), map[string]any{"n": n, "layout": lay})
				continue
			}
			f := &c10Files{hs: hs, idx: idx, rev: rev, packSum: packSum}
			c10LargeFiles(f, n, filepath.Join(scratch, fmt.Sprintf("%d-%d", ci, li)))
			lm := c10NewModel(hs, ents)
			for _, impl := range []struct {
				name string
				open func(f *c10Files) (c10Reader, error)
			}{{"memory", c10OpenMemory}, {"lazy", c10OpenLazy(false)}, {"lazy+pool1", c10OpenLazy(true)}, {"mmap", c10OpenMmap}} {
				c.Eval()
				c.Class(fmt.Sprintf("large|%d|%d|%s|%s", hs, n, lay, impl.name))
				r, err := impl.open(f)
				if err != nil {
					c.Fail(fmt.Sprintf("large index: %s refuses a valid index written by go-git (64-bit offsets: %s)", impl.name, lay),
						fmt.Sprintf("%s cannot open the idx go-git wrote for %d entries, 64-bit offsets %s: %v", impl.name, n, lay, err), map[string]any{"n": n, "layout": lay, "impl": impl.name})
					continue
				}
				bad := c10LargeMore(impl.name, r, lm, n)
				ir, ok := r.(*c10IdxReader)
				if !ok {
					r.close()
					if bad != "" {
						c.Fail(fmt.Sprintf("large index: %s answers differently from the map (64-bit offsets: %s)", impl.name, lay),
							fmt.Sprintf("%s on %d entries (%d-byte ids), 64-bit offsets %s: %s", impl.name, n, hs, lay, bad), map[string]any{"n": n, "hs": hs, "layout": lay, "impl": impl.name})
					}
					continue
				}
				for i, h := range hashes {
					if bad != "" {
						break
					}
					if i%7 != 0 && i != n-1 && i != 8191 && i != 8192 && i != 8193 { // every 7th entry plus the boundary rows
						continue
					}
					want := model[h]
					off, err := ir.ix.FindOffset(c10Hash(h))
					if err != nil || uint64(off) != want.Off {
						bad = fmt.Sprintf("FindOffset(row %d) = %d, %v; map says %d", i, off, err, want.Off)
						break
					}
					crc, err := ir.ix.FindCRC32(c10Hash(h))
					if err != nil || crc != want.CRC {
						bad = fmt.Sprintf("FindCRC32(row %d) = %08x, %v; map says %08x", i, crc, err, want.CRC)
						break
					}
					hh, err := ir.ix.FindHash(int64(want.Off))
					if err != nil || string(hh.Bytes()) != h {
						bad = fmt.Sprintf("FindHash(offset of row %d) = %s, %v", i, hh, err)
						break
					}
				}
				if cnt, err := ir.ix.Count(); bad == "" && (err != nil || int(cnt) != n) {
					bad = fmt.Sprintf("Count() = %d, %v; map has %d", cnt, err, n)
				}
				r.close()
				if bad != "" {
					c.Fail(fmt.Sprintf("large index: %s answers differently from the map (64-bit offsets: %s)", impl.name, lay),
						fmt.Sprintf("%s on %d entries, 64-bit offsets %s: %s", impl.name, n, lay, bad), map[string]any{"n": n, "layout": lay, "impl": impl.name})
				}
			}
		}
	}
	c.Sample(map[string]any{"large_index_entries": 9000, "layout": "after-8192-only", "implementations": []string{"memory", "lazy", "lazy+pool1"}})
	_ = idxfile.VersionSupported
	_ = plumbing.ZeroHash
}

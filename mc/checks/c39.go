package checks

import (
	"bytes"
	"context"
	"fmt"
	"io"
	"os"
	"sort"
	"strings"
	"sync/atomic"
	"time"

	"github.com/go-git/go-git/v6/plumbing"
	"github.com/go-git/go-git/v6/plumbing/cache"
	"github.com/go-git/go-git/v6/plumbing/format/packfile"
	"github.com/go-git/go-git/v6/plumbing/object"
	"github.com/go-git/go-git/v6/plumbing/protocol/packp"
	"github.com/go-git/go-git/v6/plumbing/protocol/capability"
	"github.com/go-git/go-git/v6/plumbing/transport"
	"github.com/go-git/go-git/v6/storage"
	"github.com/go-git/go-git/v6/storage/filesystem"
	"github.com/go-git/go-git/v6/storage/memory"
	"github.com/go-git/go-git/v6/x/verif/vsched"

	"verifmc/fw"
	"verifmc/mcfs"
)

func init() {
	fw.Register(&fw.Check{ID: "C39", Level: "model_checking", Run: runC39, QuickBudget: 100, ThoroughBudget: 1200})
}

type c39Uni struct {
	h    map[string]plumbing.Hash // h1 h2 (on the server), h3 (only in the pack), hM (nowhere)
	name map[plumbing.Hash]string
	pack []byte // pack holding h3 (commit+tree+blob)
	objs []plumbing.EncodedObject // server objects for h1,h2
	h3objs []plumbing.EncodedObject
}

func c39Universe() *c39Uni {
	u := &c39Uni{h: map[string]plumbing.Hash{}, name: map[plumbing.Hash]string{}}
	ms := memory.NewStorage()
	mkCommit := func(st storage.Storer, content string, parents ...plumbing.Hash) plumbing.Hash {
		bh, err := st.SetEncodedObject(blobOf(st, content))
		if err != nil {
			panic(err)
		}
		tr := &object.Tree{Entries: []object.TreeEntry{{Name: "f", Mode: 0o100644, Hash: bh}}}
		to := st.NewEncodedObject()
		if err := tr.Encode(to); err != nil {
			panic(err)
		}
		th, _ := st.SetEncodedObject(to)
		cm := &object.Commit{Author: *fixedSig, Committer: *fixedSig, Message: content, TreeHash: th, ParentHashes: parents}
		co := st.NewEncodedObject()
		if err := cm.Encode(co); err != nil {
			panic(err)
		}
		ch, _ := st.SetEncodedObject(co)
		return ch
	}
	u.h["h1"] = mkCommit(ms, "one\n")
	u.h["h2"] = mkCommit(ms, "two\n", u.h["h1"])
	it, _ := ms.IterEncodedObjects(plumbing.AnyObject)
	it.ForEach(func(o plumbing.EncodedObject) error { u.objs = append(u.objs, o); return nil })
	ps := memory.NewStorage()
	for _, o := range u.objs {
		ps.SetEncodedObject(o)
	}
	u.h["h3"] = mkCommit(ps, "three\n", u.h["h2"])
	var only []plumbing.Hash
	it, _ = ps.IterEncodedObjects(plumbing.AnyObject)
	it.ForEach(func(o plumbing.EncodedObject) error {
		if ms.HasEncodedObject(o.Hash()) != nil {
			only = append(only, o.Hash())
		}
		return nil
	})
	sort.Slice(only, func(i, j int) bool { return only[i].String() < only[j].String() })
	for _, h := range only {
		o, _ := ps.EncodedObject(plumbing.AnyObject, h)
		u.h3objs = append(u.h3objs, o)
	}
	var buf bytes.Buffer
	if _, err := packfile.NewEncoder(&buf, ps, false).Encode(only, 10); err != nil {
		panic(err)
	}
	u.pack = buf.Bytes()
	u.h["hM"] = plumbing.NewHash("dddddddddddddddddddddddddddddddddddddddd")
	u.h["zero"] = plumbing.ZeroHash
	for k, v := range u.h {
		u.name[v] = k
	}
	return u
}

type c39Cmd struct{ ref, old, new string }

func (c c39Cmd) String() string { return fmt.Sprintf("%s:%s->%s", c.ref, c.old, c.new) }

type c39State struct {
	refs map[string]string // a,b -> h1/h2/h3 (absent = missing key)
	h3   bool              // objects of h3 present on the server
}

func (s c39State) key() string {
	return fmt.Sprintf("a=%s b=%s h3=%v", s.refs["a"], s.refs["b"], s.h3)
}

func (s c39State) clone() c39State {
	n := c39State{refs: map[string]string{}, h3: s.h3}
	for k, v := range s.refs {
		n.refs[k] = v
	}
	return n
}

// model applies a request and returns the per-ref outcome (true = applied).
func (s *c39State) apply(cmds []c39Cmd) map[string]bool {
	out := map[string]bool{}
	packDelivered := false
	for _, c := range cmds {
		if c.new != "zero" {
			packDelivered = true
		}
	}
	if packDelivered {
		s.h3 = true
	}
	for _, c := range cmds {
		cur, ok := s.refs[c.ref]
		if !ok {
			cur = "zero"
		}
		exists := c.new == "zero" || c.new == "h1" || c.new == "h2" || (c.new == "h3" && s.h3)
		if cur == c.old && exists {
			if c.new == "zero" {
				delete(s.refs, c.ref)
			} else {
				s.refs[c.ref] = c.new
			}
			out[c.ref] = true
		} else {
			out[c.ref] = false
		}
	}
	return out
}

func c39Request(u *c39Uni, cmds []c39Cmd) []byte {
	req := &packp.UpdateRequests{}
	req.Capabilities.Set(capability.ReportStatus)
	needPack := false
	for _, c := range cmds {
		req.Commands = append(req.Commands, &packp.Command{Name: plumbing.ReferenceName("refs/heads/" + c.ref), Old: u.h[c.old], New: u.h[c.new]})
		if c.new != "zero" {
			needPack = true
		}
	}
	var buf bytes.Buffer
	if err := req.Encode(&buf); err != nil {
		fw.Abort("encode update request: %v", err)
	}
	if needPack {
		buf.Write(u.pack)
	}
	return buf.Bytes()
}

// c39BadPack serves a request whose pack is truncated and checks the invariants.
func c39BadPack(st storage.Storer, u *c39Uni, s0 c39State, req []c39Cmd, reqBytes []byte, hooks transport.ReceivePackHooks) (probs []string) {
	report, _, err := func() (m map[string]string, up string, err error) {
		defer func() {
			if r := recover(); r != nil {
				err = fmt.Errorf("panic: %v", r)
			}
		}()
		return c39ServeHooks(st, reqBytes, hooks)
	}()
	if err != nil {
		return []string{"truncated pack: " + normErr(err)}
	}
	got := c39Refs(st, u)
	for _, cm := range req {
		before, ok := s0.refs[cm.ref]
		if !ok {
			before = "zero"
		}
		after, ok := got[cm.ref]
		if !ok {
			after = "zero"
		}
		applied := after != before
		switch {
		case applied && after != cm.new:
			probs = append(probs, "truncated pack: the ref took a value no command asked for")
		case applied && before != cm.old:
			probs = append(probs, "truncated pack: a command with a stale old value was applied")
		case applied && report[cm.ref] != "ok":
			probs = append(probs, "truncated pack: a command was applied but not reported ok")
		case !applied && report[cm.ref] == "ok" && cm.new != before:
			probs = append(probs, "truncated pack: a command reported ok was not applied")
		}
	}
	for _, v := range got {
		// the commit and everything it needs must be there, not just the commit object
		h := u.h[v]
		if st.HasEncodedObject(h) != nil {
			probs = append(probs, "truncated pack: ref points to an object missing from the repository")
			continue
		}
		if cmt, err := object.GetCommit(st, h); err != nil {
			probs = append(probs, "truncated pack: ref points to an unreadable commit")
		} else if tr, err := cmt.Tree(); err != nil {
			probs = append(probs, "truncated pack: ref points to a commit whose tree is missing")
		} else {
			for _, e := range tr.Entries {
				if st.HasEncodedObject(e.Hash) != nil {
					probs = append(probs, "truncated pack: ref points to a commit whose blob is missing")
				}
			}
		}
	}
	sort.Strings(probs)
	return dedup(probs)
}

type nopWC struct{ io.Writer }

func (nopWC) Close() error { return nil }

// c39Serve runs the real ReceivePack and decodes the report.
func c39Serve(st storage.Storer, reqBytes []byte) (map[string]string, string, error) {
	return c39ServeHooks(st, reqBytes, transport.ReceivePackHooks{})
}

func c39ServeHooks(st storage.Storer, reqBytes []byte, hooks transport.ReceivePackHooks) (map[string]string, string, error) {
	var out bytes.Buffer
	err := transport.ReceivePack(context.Background(), st, io.NopCloser(bytes.NewReader(reqBytes)), nopWC{&out}, &transport.ReceivePackRequest{StatelessRPC: true, Hooks: hooks})
	rs := &packp.ReportStatus{}
	if derr := rs.Decode(bytes.NewReader(out.Bytes())); derr != nil {
		return nil, "", fmt.Errorf("cannot decode report-status (%v); ReceivePack returned %v", derr, err)
	}
	m := map[string]string{}
	for _, cs := range rs.CommandStatuses {
		n := strings.TrimPrefix(cs.ReferenceName.String(), "refs/heads/")
		if _, dup := m[n]; dup {
			m[n] += "+dup"
		}
		if cs.Status == "ok" {
			m[n] = "ok"
		} else {
			m[n] = "ng"
		}
	}
	return m, rs.UnpackStatus, nil
}

func c39Preload(st storage.Storer, u *c39Uni, s c39State) {
	for _, o := range u.objs {
		if _, err := st.SetEncodedObject(o); err != nil {
			fw.Abort("preload: %v", err)
		}
	}
	for r, v := range s.refs {
		if err := st.SetReference(plumbing.NewHashReference(plumbing.ReferenceName("refs/heads/"+r), u.h[v])); err != nil {
			fw.Abort("preload: %v", err)
		}
	}
}

func c39Refs(st storage.Storer, u *c39Uni) map[string]string {
	m := map[string]string{}
	for _, r := range []string{"a", "b"} {
		ref, err := st.Reference(plumbing.ReferenceName("refs/heads/" + r))
		if err == nil {
			if n, ok := u.name[ref.Hash()]; ok {
				m[r] = n
			} else {
				m[r] = ref.Hash().String()
			}
		}
	}
	return m
}

func runC39(c *fw.Ctx) {
	u := c39Universe()
	c.SetRule("server states = refs {a,b} x {absent,h1,h2,h3} (+ whether h3's objects are stored); requests = every set of 1-2 commands on distinct refs with old in {zero,h1,h2,hM (an object the server lacks)} and new in {zero,h1 (stored), h3 (delivered in the pack), hM (nowhere)}; explicit-state BFS over all server states reachable within 2 requests, each transition executed by the real transport.ReceivePack (stateless, report-status) on a memory and on a filesystem(mcfs) server preloaded to the model state; oracle = CAS model: a command is applied iff its old value equals the current one and its new object exists; no ref may point to a missing object; the report-status line of each ref is ok iff it was applied; each transition also on a server whose refs are packed-only, with a refusing pre-receive hook (nothing applied, all ng) and with a truncated pack (invariants: applied => old matched, new stored with its tree and blob, reported ok); the post-receive hook must be told exactly the applied commands; plus (sched) every pair of conflicting single-command pushes over {update, create, delete} on one ref (loose, packed-only or absent) of one filesystem server under every interleaving of filesystem calls: reported outcomes and final value must be those of one of the two serial orders. distinct = (state, request, outcome) classes")
	c.Assume("duplicate ref names within one request are excluded (the report format is keyed by name); atomic and push-options not driven")
	olds := []string{"zero", "h1", "h2", "hM"} // hM: an old value naming an object the server does not have (such a command is always stale)
	news := []string{"zero", "h1", "h3", "hM"}
	var single []c39Cmd
	for _, r := range []string{"a", "b"} {
		for _, o := range olds {
			for _, n := range news {
				if o == "zero" && n == "zero" {
					continue
				}
				single = append(single, c39Cmd{r, o, n})
			}
		}
	}
	var reqs [][]c39Cmd
	for _, x := range single {
		reqs = append(reqs, []c39Cmd{x})
	}
	for _, x := range single {
		for _, y := range single {
			if x.ref == "a" && y.ref == "b" {
				reqs = append(reqs, []c39Cmd{x, y}, []c39Cmd{y, x})
			}
		}
	}
	c.Bound("requests_per_state", len(reqs))
	c.Bound("request_depth", 2)
	// backend variants: "+packed" = the server's refs live only in packed-refs (as after gc);
	// "+reject" = a pre-receive hook refuses the push (nothing may be applied, every line ng);
	// "+badpack" = the pack arrives truncated (unpack fails: nothing may be applied, no line ok)
	backends := []string{"memory", "filesystem", "filesystem+packed", "memory+reject", "filesystem+reject", "memory+badpack", "filesystem+packed+badpack"}
	c.Bound("server_variants", len(backends))
	init := c39State{refs: map[string]string{"a": "h1"}}
	seen := map[string]c39State{init.key(): init}
	frontier := []c39State{init}
	totalTrans := 0
	for depth := 1; depth <= 2 && len(frontier) > 0; depth++ {
		type job struct {
			s   c39State
			req []c39Cmd
		}
		var jobs []job
		for _, s := range frontier {
			for _, r := range reqs {
				jobs = append(jobs, job{s, r})
			}
		}
		next := make([]c39State, len(jobs))
		c.ParDo(len(jobs), 0, func(i int) {
			j := jobs[i]
			model := j.s.clone()
			expect := model.apply(j.req)
			next[i] = model
			var rs []string
			for _, cm := range j.req {
				rs = append(rs, cm.String())
			}
			desc := fmt.Sprintf("state{%s} request[%s]", j.s.key(), strings.Join(rs, " "))
			for _, be := range backends {
				var st storage.Storer
				if strings.HasPrefix(be, "memory") {
					st = memory.NewStorage()
				} else {
					st = filesystem.NewStorage(mcfs.NewWorld().View("/g", "g"), cache.NewObjectLRUDefault())
				}
				reject, badpack := strings.Contains(be, "+reject"), strings.Contains(be, "+badpack")
				c39Preload(st, u, j.s)
				if j.s.h3 {
					pw, _ := st.(interface{ PackfileWriter() (io.WriteCloser, error) })
					if pw != nil {
						w, err := pw.PackfileWriter()
						if err == nil {
							w.Write(u.pack)
							err = w.Close()
						}
						if err != nil {
							fw.Abort("preload pack: %v", err)
						}
					} else {
						packfile.UpdateObjectStorage(st, bytes.NewReader(u.pack))
					}
				}
				if strings.Contains(be, "+packed") {
					if err := st.(interface{ PackRefs() error }).PackRefs(); err != nil {
						fw.Abort("preload pack-refs: %v", err)
					}
				}
				// what must happen on this variant
				expect, model := expect, model
				var hooks0 transport.ReceivePackHooks
				reqBytes := c39Request(u, j.req)
				if badpack {
					needPack := false
					for _, cm := range j.req {
						needPack = needPack || cm.new != "zero"
					}
					if !needPack {
						continue
					}
					reqBytes = reqBytes[:len(reqBytes)-len(u.pack)/2]
				}
				if badpack {
					// Unpacking fails. git refuses every command then; the statement only asks for
					// consistency, so the oracle here is the invariant form: a command may be applied only
					// if its old value matched and its new object is stored, an applied command must be
					// reported ok, an unapplied one must not be.
					badProbs := c39BadPack(st, u, j.s, j.req, reqBytes, hooks0)
					c.Eval()
					for _, p := range badProbs {
						c.Fail(be+" | "+p, desc+" on "+be+": "+p, map[string]any{"state": j.s.key(), "request": rs, "backend": be})
					}
					c.Class(fmt.Sprintf("%s|%s|badpack|%d", j.s.key(), strings.Join(rs, " "), len(badProbs)))
					continue
				}
				if reject {
					model = j.s.clone()
					expect = map[string]bool{}
					for _, cm := range j.req {
						expect[cm.ref] = false
					}
				}
				var hooks transport.ReceivePackHooks
				if reject {
					hooks.PreReceive = func(context.Context, *transport.PreReceiveInfo) error { return fmt.Errorf("policy says no") }
				}
				var postApplied []string
				hooks.PostReceive = func(_ context.Context, info *transport.PostReceiveInfo) error {
					for _, cm := range info.Commands {
						postApplied = append(postApplied, strings.TrimPrefix(cm.Name.String(), "refs/heads/"))
					}
					return nil
				}
				report, unpack, err := func() (m map[string]string, up string, err error) {
					defer func() {
						if r := recover(); r != nil {
							err = fmt.Errorf("panic: %v", r)
						}
					}()
					return c39ServeHooks(st, reqBytes, hooks)
				}()
				c.Eval()
				if err != nil {
					c.Fail(be+" | "+normErr(err), desc+": "+err.Error(), map[string]any{"state": j.s.key(), "request": rs, "backend": be})
					continue
				}
				got := c39Refs(st, u)
				var probs []string
				for _, cm := range j.req {
					applied := expect[cm.ref]
					curBefore, ok := j.s.refs[cm.ref]
					if !ok {
						curBefore = "zero"
					}
					why := "old matches"
					if reject {
						why = "refused by the pre-receive hook"
					} else if curBefore != cm.old {
						why = "old value is stale"
					} else if !applied {
						why = "new object is missing"
					}
					kind := "update"
					if cm.new == "zero" {
						kind = "delete"
					} else if cm.old == "zero" {
						kind = "create"
					}
					wantVal, wantPresent := model.refs[cm.ref]
					gotVal, gotPresent := got[cm.ref]
					if wantPresent != gotPresent || wantVal != gotVal {
						probs = append(probs, fmt.Sprintf("%s (%s): ref applied=%v expected applied=%v", kind, why, !applied, applied))
					}
					wantRep := "ng"
					if applied {
						wantRep = "ok"
					}
					if report[cm.ref] != wantRep && (wantPresent == gotPresent && wantVal == gotVal) {
						probs = append(probs, fmt.Sprintf("%s (%s): report says %q but the update was applied=%v", kind, why, report[cm.ref], applied))
					}
				}
				// the post-receive hook is told exactly the applied commands
				{
					var want []string
					for _, cm := range j.req {
						if expect[cm.ref] {
							want = append(want, cm.ref)
						}
					}
					sort.Strings(want)
					sort.Strings(postApplied)
					if strings.Join(want, ",") != strings.Join(postApplied, ",") && len(probs) == 0 {
						probs = append(probs, fmt.Sprintf("post-receive hook was told %d applied command(s), %d were applied", len(postApplied), len(want)))
					}
				}
				// no ref may point to a missing object
				for r, v := range got {
					if st.HasEncodedObject(u.h[v]) != nil {
						probs = append(probs, "ref points to an object missing from the repository")
						_ = r
					}
				}
				_ = unpack
				sort.Strings(probs)
				probs = dedup(probs)
				c.Class(fmt.Sprintf("%s|%s|%v|%v", j.s.key(), strings.Join(rs, " "), report, got))
				for _, p := range probs {
					c.Fail(be+" | "+p, desc+" on "+be+": "+p+fmt.Sprintf(" (refs after: %v, report: %v, model: %v)", got, report, model.refs), map[string]any{"state": j.s.key(), "request": rs, "backend": be, "report": report, "refs_after": got, "model_after": model.refs})
				}
			}
		})
		totalTrans += len(jobs)
		var nf []c39State
		for _, s := range next {
			if s.refs == nil {
				continue
			}
			if _, ok := seen[s.key()]; !ok {
				seen[s.key()] = s
				nf = append(nf, s)
			}
		}
		frontier = nf
	}
	c.States(len(seen))
	c.Transitions(totalTrans * len(backends))
	c.Assume("a refused or failed push is observed through the refs, the report and the post-receive hook; the unpack line itself is not compared")
	c.Sample(map[string]any{"state": init.key(), "request": []string{"a:h1->h3", "b:zero->hM"}, "expected": "a applied, b refused"})
	// concurrent part: every pair of single-command pushes {update, create, delete} that conflict on ref a
	u2, u3 := c39Push{"h1", "h2"}, c39Push{"h1", "h3"}
	cr2, cr3 := c39Push{"zero", "h2"}, c39Push{"zero", "h3"}
	del := c39Push{"h1", "zero"}
	type scen struct {
		init   string
		pa, pb c39Push
	}
	var scens []scen
	for _, in := range []string{"loose ref", "packed-only ref"} {
		scens = append(scens, scen{in, u2, u3}, scen{in, u2, del}, scen{in, del, u3}, scen{in, del, del}, scen{in, u2, cr3})
	}
	scens = append(scens, scen{"absent", cr2, cr3}, scen{"absent", cr2, u3}, scen{"absent", cr2, cr2})
	c.Bound("concurrent_scenarios", len(scens))
	budget := time.Duration(c.Pick(60, 900)) * time.Second
	c.ParDo(len(scens), 0, func(i int) {
		sc := scens[i]
		c39Concurrent(c, u, sc.init, sc.pa, sc.pb, budget)
	})
	c.TracesValidated(0)
}

// c39Push is one single-command push of the concurrent part.
type c39Push struct{ old, new string }

func (p c39Push) String() string { return "a:" + p.old + "->" + p.new }

// c39Serial applies p to cur under the CAS rule (every new value used here is stored on the server).
func c39Serial(cur string, p c39Push) (string, bool) {
	if cur != p.old {
		return cur, false
	}
	return p.new, true
}

// c39Concurrent: two single-command pushes on the same ref of one filesystem
// server (two server processes = two storage instances over one mcfs tree),
// under every interleaving of filesystem calls. The pair of reported outcomes
// and the final value must be those of one of the two serial orders.
func c39Concurrent(c *fw.Ctx, u *c39Uni, init string, pa, pb c39Push, budget time.Duration) {
	maxPre := c.Pick(1, 2)
	c.Bound("concurrent_max_preemptions", maxPre)
	base := mcfs.NewWorld()
	cur0 := "zero"
	{
		st := filesystem.NewStorage(base.View("/g", "g"), cache.NewObjectLRUDefault())
		s0 := c39State{refs: map[string]string{}}
		if init != "absent" {
			s0.refs["a"] = "h1"
			cur0 = "h1"
		}
		c39Preload(st, u, s0)
		// h3's objects are already on the server (loose: with a single pack per push the order of
		// filesystem calls does not depend on Go's map iteration): the pushes only race on the ref
		for _, o := range u.h3objs {
			if _, err := st.SetEncodedObject(o); err != nil {
				fw.Abort("preload: %v", err)
			}
		}
		if init == "packed-only ref" {
			// the contended reference exists only in packed-refs (as after gc): the check-and-set
			// has to create the loose file, a different code path from rewriting an existing one
			if err := st.PackRefs(); err != nil {
				fw.Abort("preload pack-refs: %v", err)
			}
		}
	}
	// the serial outcomes
	type outcome struct {
		okA, okB bool
		final    string
	}
	var serial []outcome
	{
		v, okA := c39Serial(cur0, pa)
		v, okB := c39Serial(v, pb)
		serial = append(serial, outcome{okA, okB, v})
		v, okB = c39Serial(cur0, pb)
		v, okA = c39Serial(v, pa)
		serial = append(serial, outcome{okA, okB, v})
	}
	reqA := c39Request(u, []c39Cmd{{"a", pa.old, pa.new}})
	reqB := c39Request(u, []c39Cmd{{"a", pb.old, pb.new}})
	scen := fmt.Sprintf("%s) [%s | %s]", init, pa, pb)
	var execs atomic.Int64
	outcomes := map[string]bool{}
	body := func(x *vsched.Exec) func(*vsched.Exec) string {
		w := base.Clone()
		w.SetHook(schedHook)
		res := make([]map[string]string, 2)
		errs := make([]error, 2)
		adopted := make(chan struct{}, 2)
		for i, rq := range [][]byte{reqA, reqB} {
			i, rq := i, rq
			// in-memory idx: no lazily opened descriptors whose (real-time) grace timers could
			// fire between the free-running unpack phase and the controlled phase
			st := filesystem.NewStorageWithOptions(w.View("/g", fmt.Sprintf("srv%d", i)), cache.NewObjectLRUDefault(), filesystem.Options{UseInMemoryIdx: true})
			// The unpack phase (pack writer with goroutines of its own) runs free; from the
			// pre-receive hook on - reference updates and the report - the goroutine is a controlled thread.
			go func() {
				var t *vsched.Thread
				defer func() {
					if t != nil {
						x.Release(t)
					}
				}()
				hooks := transport.ReceivePackHooks{PreReceive: func(context.Context, *transport.PreReceiveInfo) error {
					t = x.Adopt(fmt.Sprintf("push%d", i), adopted)
					return nil
				}}
				res[i], _, errs[i] = c39ServeHooks(st, rq, hooks)
			}()
		}
		<-adopted
		<-adopted
		x.SortThreads()
		return func(x *vsched.Exec) string {
			execs.Add(1)
			for _, t := range x.Threads() {
				if t.Panic != "" {
					return "panic: " + strings.SplitN(t.Panic, "\n", 2)[0]
				}
			}
			if x.Deadlock {
				return "deadlock"
			}
			w.SetHook(nil)
			final, ok := c39Refs(filesystem.NewStorage(w.View("/g", "final"), cache.NewObjectLRUDefault()), u)["a"]
			if !ok {
				final = "zero"
			}
			sig := fmt.Sprintf("A=%v B=%v final=%v", res[0]["a"], res[1]["a"], final)
			outcomes[sig] = true
			if (errs[0] != nil && res[0] == nil) || (errs[1] != nil && res[1] == nil) {
				return fmt.Sprintf("ReceivePack failed: %v / %v", errs[0], errs[1])
			}
			got := outcome{res[0]["a"] == "ok", res[1]["a"] == "ok", final}
			for _, s := range serial {
				if s == got {
					return ""
				}
			}
			bothPossible := false
			for _, s := range serial {
				bothPossible = bothPossible || (s.okA && s.okB)
			}
			switch {
			case got.okA && got.okB && !bothPossible:
				return "both conflicting commands (no serial order applies both) were reported as applied: " + sig
			case !got.okA && !got.okB && final != cur0:
				return "no command reported as applied but the ref changed: " + sig
			case (got.okA != got.okB) && ((got.okA && final != pa.new) || (got.okB && final != pb.new)):
				return "the command reported as applied is not the final value: " + sig
			}
			return "reported outcomes and final value match no serial order: " + sig
		}
	}
	if os.Getenv("VERIF_DEBUG") != "" {
		x1, _ := vsched.RunOnce(vsched.Config{LogOn: true}, nil, body)
		x2, _ := vsched.RunOnce(vsched.Config{LogOn: true}, nil, body)
		l1, l2 := x1.Log(), x2.Log()
		for i := 0; i < len(l1) || i < len(l2); i++ {
			a, b := "", ""
			if i < len(l1) {
				a = l1[i]
			}
			if i < len(l2) {
				b = l2[i]
			}
			mark := " "
			if a != b {
				mark = "!"
			}
			fmt.Printf("%s %-70s | %s\n", mark, a, b)
		}
	}
	deadline := time.Now().Add(budget)
	st := vsched.Explore(vsched.Config{MaxPreemptions: maxPre, Deadline: deadline}, body, func(f vsched.Failure) bool {
		k := f.What
		if i := strings.Index(k, ": A="); i > 0 {
			k = k[:i]
		}
		c.Fail("concurrent pushes ("+scen+" | "+k, "two concurrent pushes on one filesystem server ("+scen+": "+f.What, map[string]any{"choices": f.Choices, "log": f.Log})
		return true // collect every anomaly kind of the scenario (a listed kind must not hide another)
	}, func(msg string) { c.EngineError("concurrent pushes (%s: %s", scen, msg) })
	c.Evals(st.Executions)
	c.Extra("concurrent_schedules("+scen, st.Executions)
	c.Extra("concurrent_outcomes("+scen, len(outcomes))
	if !st.Complete {
		c.Incomplete("deadline inside the concurrent-push exploration (" + scen)
	}
	for o := range outcomes {
		c.Class(fmt.Sprintf("concurrent|%s|%s", scen, o))
	}
}

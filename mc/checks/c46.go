package checks

// C46: blame attributes lines the way git blame does.
//
// Space: for each commit-graph shape (linear chains (3 commits of <= 3 lines; thorough also 4 commits of <= 2 lines); a merge
// B -> X, B -> Y, M(X,Y) with X older than Y and with Y older than X) every
// assignment of a file version to each commit, a version being a sequence of
// <= K lines over 3 distinct line texts (edit, move, duplicate, delete,
// unchanged steps all occur), RESTRICTED to histories in which every
// (parent, child) pair has exactly ONE longest-common-subsequence alignment:
// only then is "which of two equal lines is the same line" not a choice of the
// diff heuristic, and the blame answer is forced by the history.
//
// All cases of a shape live in the same commits, one file per case
// (c/<n>/<m>), so one fast-import builds everything.
//
// Oracle: a 15-line reference model of git blame (identical-blob parent takes
// everything; otherwise parents in order take the lines the unique alignment
// maps to them; the rest belongs to the commit). The model is replayed against
// real `git blame --porcelain` on EVERY case: the cases are concatenated, 100
// per file, separated by blocks of constant unique lines longer than any case
// (so the optimal alignment of the concatenation is the concatenation of the
// per-case alignments), one git process per 100 cases; a sample of cases is
// also blamed by git individually. go-git's Blame runs on each case's own
// file and must agree with git line by line; the attributed commit's version
// of the file must contain the line.

import (
	"fmt"
	"regexp"
	"sort"
	"strings"
	"sync"

	git "github.com/go-git/go-git/v6"
	"github.com/go-git/go-git/v6/plumbing"

	"verifmc/fw"
)

func init() {
	fw.Register(&fw.Check{ID: "C46", Level: "exploration", Run: runC46, QuickBudget: 200, ThoroughBudget: 900})
}

type c46Shape struct {
	name     string
	parents  [][]int
	rank     []int // commit time rank
	maxL     int   // max lines per version
	baseMaxL int   // max lines of the root commit's version (-1 = maxL)
	syms     int   // number of distinct line texts used by this shape (0 = all)
	ids      []string
}

var c46Texts = []string{"alpha", "beta", "gamma"}

func c46Versions(maxLines int) [][]int { return fw.Seqs(len(c46Texts), maxLines) }

func c46Content(v []int) string {
	var b strings.Builder
	for _, x := range v {
		b.WriteString(c46Texts[x] + "\n")
	}
	return b.String()
}

// c46Align returns the unique maximum alignment child line -> parent line, or
// ok=false when several maximum alignments exist.
func c46Align(p, c []int) (m map[int]int, ok bool) {
	n, k := len(p), len(c)
	L := make([][]int, n+2)
	N := make([][]int, n+2)
	for i := range L {
		L[i] = make([]int, k+2)
		N[i] = make([]int, k+2)
	}
	for i := n; i >= 0; i-- {
		for j := k; j >= 0; j-- {
			if i == n || j == k {
				L[i][j] = 0
				continue
			}
			L[i][j] = L[i+1][j]
			if L[i][j+1] > L[i][j] {
				L[i][j] = L[i][j+1]
			}
			if p[i] == c[j] && 1+L[i+1][j+1] > L[i][j] {
				L[i][j] = 1 + L[i+1][j+1]
			}
		}
	}
	// N[i][j]: number of maximum alignments of p[i:], c[j:], counted by first pair
	for i := n; i >= 0; i-- {
		for j := k; j >= 0; j-- {
			if L[i][j] == 0 {
				N[i][j] = 1
				continue
			}
			cnt := 0
			for a := i; a < n; a++ {
				for b := j; b < k; b++ {
					if p[a] == c[b] && 1+L[a+1][b+1] == L[i][j] {
						cnt += N[a+1][b+1]
					}
				}
			}
			N[i][j] = cnt
		}
	}
	if N[0][0] != 1 {
		return nil, false
	}
	m = map[int]int{}
	i, j := 0, 0
	for L[i][j] > 0 {
	find:
		for a := i; a < n; a++ {
			for b := j; b < k; b++ {
				if p[a] == c[b] && 1+L[a+1][b+1] == L[i][j] {
					m[b] = a
					i, j = a+1, b+1
					break find
				}
			}
		}
	}
	return m, true
}

func c46Eq(a, b []int) bool {
	if len(a) != len(b) {
		return false
	}
	for i := range a {
		if a[i] != b[i] {
			return false
		}
	}
	return true
}

// c46Model: the commit (index in the shape) each line of commit c's version is
// blamed on.
func c46Model(sh *c46Shape, vers [][]int, c int, line int) int {
	ps := sh.parents[c]
	for _, p := range ps {
		if c46Eq(vers[p], vers[c]) {
			return c46Model(sh, vers, p, line)
		}
	}
	for _, p := range ps {
		m, _ := c46Align(vers[p], vers[c])
		if pl, ok := m[line]; ok {
			return c46Model(sh, vers, p, pl)
		}
	}
	return c
}

type c46Case struct {
	shape int
	vers  []int // version index per commit
	path  string
	group int // concatenation group within the shape
	pos   int // position within the group
}

const c46Sep = 6 // separator lines between cases in a concatenated file (> max lines of a case)

var c46HdrRe = regexp.MustCompile(`^([0-9a-f]{40}) [0-9]+ ([0-9]+)( [0-9]+)?$`)

// c46GitBlame returns the commit id of every final line.
func c46GitBlame(g *fw.Git, rev, path string, minimal bool) []string {
	args := []string{"blame", "--porcelain"}
	if minimal {
		args = append(args, "--minimal")
	}
	args = append(args, rev, "--", path)
	out := string(g.MustRun(args...).Out)
	var res []string
	for _, l := range strings.Split(out, "\n") {
		if strings.HasPrefix(l, "\t") {
			continue
		}
		if m := c46HdrRe.FindStringSubmatch(l); m != nil {
			var ln int
			fmt.Sscanf(m[2], "%d", &ln)
			for len(res) < ln {
				res = append(res, "")
			}
			res[ln-1] = m[1]
		}
	}
	for i, r := range res {
		if r == "" {
			fw.Abort("git blame %s %s: no commit for line %d", rev, path, i+1)
		}
	}
	return res
}

func runC46(c *fw.Ctx) {
	mergeL := c.Pick(2, 3)
	mergeBase := 1 // max lines of the merge base's version
	c.Bound("merge_base_max_lines", mergeBase)
	group := 100
	c.Bound("chain_shapes", c.Pick(1, 2))
	c.Bound("merge_max_lines", mergeL)
	c.Bound("line_texts", len(c46Texts))
	c.Bound("cases_per_concatenated_file", group)
	c.SetRule("all version assignments to the commits of each shape whose parent/child pairs all have a unique LCS alignment; go-git Blame of the tip vs reference model, the model being replayed against real git blame --porcelain on every case (concatenated 100 per file with constant separator blocks) and on a sample individually; non-trivial = at least one commit changes the file; distinct = (shape, per-line attribution vector, edit kinds) classes")
	c.Assume("git 2.39.5 blame is the reference (--minimal on the concatenated files only, so that git's diff of a 700-line file is the minimal one; the individually blamed sample uses the default); histories in which some parent/child pair has several longest-common-subsequence alignments are excluded: there git's answer depends on its diff heuristic; all versions end with a newline; commit times are distinct (two shapes have a parent younger than its child); no renames")

	mkChain := func(n, maxL int) *c46Shape {
		sh := &c46Shape{name: fmt.Sprintf("chain of %d (<= %d lines)", n, maxL), maxL: maxL, baseMaxL: -1}
		for i := 0; i < n; i++ {
			if i == 0 {
				sh.parents = append(sh.parents, []int{})
			} else {
				sh.parents = append(sh.parents, []int{i - 1})
			}
			sh.rank = append(sh.rank, i)
		}
		return sh
	}
	shapes := []*c46Shape{mkChain(3, 3)}
	if c.Thorough() {
		shapes = append(shapes, mkChain(4, 2))
	}
	shapes = append(shapes,
		&c46Shape{name: "merge M(X,Y), X older", parents: [][]int{{}, {0}, {0}, {1, 2}}, rank: []int{0, 1, 2, 3}, maxL: mergeL, baseMaxL: mergeBase},
		&c46Shape{name: "merge M(X,Y), Y older", parents: [][]int{{}, {0}, {0}, {1, 2}}, rank: []int{0, 2, 1, 3}, maxL: mergeL, baseMaxL: mergeBase},
	)

	// Shapes on the far side of blame.go's queue shortcuts: a commit ABOVE the
	// merge (the "remove the parent completely" loop needs a child that is
	// itself identical to its child), an octopus (three items merged for one
	// commit), a merge whose second parent descends from the first (the same
	// commit reached at two depths), and skewed commit times (a parent YOUNGER
	// than its child is popped before the other path reaches it, so the items of
	// one commit are NOT merged and it is processed twice).
	small := 1 // lines per version in the 5-commit shapes
	c.Bound("five_commit_shapes_max_lines", small)
	shapes = append(shapes,
		&c46Shape{name: "tip T over merge M(X,Y), X older", parents: [][]int{{}, {0}, {0}, {1, 2}, {3}}, rank: []int{0, 1, 2, 3, 4}, maxL: small, baseMaxL: -1},
		&c46Shape{name: "tip T over merge M(X,Y), Y older", parents: [][]int{{}, {0}, {0}, {1, 2}, {3}}, rank: []int{0, 2, 1, 3, 4}, maxL: small, baseMaxL: -1},
		&c46Shape{name: "octopus M(X,Y,Z)", parents: [][]int{{}, {0}, {0}, {0}, {1, 2, 3}}, rank: []int{0, 3, 1, 2, 4}, maxL: small, baseMaxL: -1},
		&c46Shape{name: "merge M(X,Y) with Y a child of X", parents: [][]int{{}, {0}, {1}, {1, 2}}, rank: []int{0, 1, 2, 3}, maxL: mergeL, baseMaxL: mergeBase},
		&c46Shape{name: "merge M(X,Y), skewed times: B younger than X", parents: [][]int{{}, {0}, {0}, {1, 2}}, rank: []int{1, 0, 2, 3}, maxL: mergeL, baseMaxL: mergeBase},
		&c46Shape{name: "merge M(X,Y), skewed times: M older than everything", parents: [][]int{{}, {0}, {0}, {1, 2}}, rank: []int{1, 2, 3, 0}, maxL: mergeL, baseMaxL: mergeBase},
	)

	// criss-cross: X is reached twice during one walk, as the only parent of C1 and as the second parent of the
	// merge C2 = M(Y, X); the tip T = M(C2, C1) merges both. Two line texts, versions of up to two lines, empty
	// root, every relative age of X/Y and of C1/C2.
	crissParents := [][]int{{}, {0}, {0}, {1}, {2, 1}, {4, 3}}
	for _, rk := range [][]int{{0, 1, 2, 3, 4, 5}, {0, 2, 1, 3, 4, 5}, {0, 1, 2, 4, 3, 5}, {0, 2, 1, 4, 3, 5}} {
		shapes = append(shapes, &c46Shape{name: fmt.Sprintf("criss-cross T=M(C2,C1), C2=M(Y,X), C1 child of X, time ranks %v", rk), parents: crissParents, rank: rk, maxL: 2, baseMaxL: 0, syms: 2})
	}
	// enumerate cases
	var cases []*c46Case
	versOf := map[int][][]int{}
	uniq := map[int][][]bool{}
	for si, sh := range shapes {
		vs := c46Versions(sh.maxL)
		if sh.syms > 0 {
			vs = fw.Seqs(sh.syms, sh.maxL)
		}
		versOf[si] = vs
		u := make([][]bool, len(vs))
		for a := range vs {
			u[a] = make([]bool, len(vs))
			for b := range vs {
				_, u[a][b] = c46Align(vs[a], vs[b])
			}
		}
		uniq[si] = u
		n := len(sh.parents)
		cur := make([]int, n)
		cnt := 0
		// Cases are concatenated only with cases that have the same pattern of
		// "version identical to this parent" over all edges: git passes the
		// whole blame to a parent with an identical BLOB, and the concatenated
		// blobs are identical exactly when every member's are.
		patCount := map[string]int{}
		patBase := map[string]int{}
		nextGroup := 0
		var rec func(i int)
		rec = func(i int) {
			if i == n {
				if len(vs[cur[n-1]]) == 0 {
					return // nothing to blame
				}
				pat := ""
				for ci, ps := range sh.parents {
					for _, p := range ps {
						if cur[p] == cur[ci] {
							pat += "="
						} else {
							pat += "#"
						}
					}
				}
				k := patCount[pat]
				if k%group == 0 {
					patBase[pat] = nextGroup
					nextGroup++
				}
				patCount[pat]++
				cs := &c46Case{shape: si, vers: append([]int{}, cur...)}
				cs.group, cs.pos = patBase[pat], k%group
				cs.path = fmt.Sprintf("c/s%d/%d/%d", si, cs.group, cs.pos)
				cnt++
				cases = append(cases, cs)
				return
			}
			for v := range vs {
				ok := true
				if i == 0 && sh.baseMaxL >= 0 && len(vs[v]) > sh.baseMaxL {
					continue
				}
				for _, p := range sh.parents[i] {
					if !u[cur[p]][v] {
						ok = false
					}
				}
				if ok {
					cur[i] = v
					rec(i + 1)
				}
			}
		}
		rec(0)
		c.Bound("cases in "+sh.name, cnt)
	}
	c.Bound("cases", len(cases))

	// build: one fast-import, commits of every shape carry all its case files
	// plus the concatenated files
	g, _ := c.InitRepo("c46", "sha1", true)
	var fi strings.Builder
	byShapeGroup := map[[2]int][]*c46Case{}
	for _, cs := range cases {
		k := [2]int{cs.shape, cs.group}
		byShapeGroup[k] = append(byShapeGroup[k], cs)
	}
	blobMark := map[string]int{}
	mark := 0
	blob := func(d string) int {
		if m, ok := blobMark[d]; ok {
			return m
		}
		mark++
		blobMark[d] = mark
		fmt.Fprintf(&fi, "blob\nmark :%d\ndata %d\n%s\n", mark, len(d), d)
		return mark
	}
	concat := func(si, grp, commit int) string {
		var b strings.Builder
		for _, cs := range byShapeGroup[[2]int{si, grp}] {
			for s := 0; s < c46Sep; s++ {
				fmt.Fprintf(&b, "separator %d.%d\n", cs.pos, s)
			}
			b.WriteString(c46Content(versOf[si][cs.vers[commit]]))
		}
		return b.String()
	}
	commitMark := map[[2]int]int{}
	for si, sh := range shapes {
		ngroups := 0
		for k := range byShapeGroup {
			if k[0] == si && k[1]+1 > ngroups {
				ngroups = k[1] + 1
			}
		}
		for ci := range sh.parents {
			// blobs first (fast-import wants them before the commit that uses marks)
			type ent struct {
				path string
				m    int
			}
			var ents []ent
			for _, cs := range cases {
				if cs.shape == si {
					ents = append(ents, ent{cs.path, blob(c46Content(versOf[si][cs.vers[ci]]))})
				}
			}
			for grp := 0; grp < ngroups; grp++ {
				ents = append(ents, ent{fmt.Sprintf("cat/s%d/%d", si, grp), blob(concat(si, grp, ci))})
			}
			mark++
			commitMark[[2]int{si, ci}] = mark
			t := 1700000000 + int64(si)*1000 + int64(sh.rank[ci])*10
			fmt.Fprintf(&fi, "commit refs/verif/s%dc%d\nmark :%d\nauthor A U Thor <author@example.com> %d +0000\ncommitter C O Mitter <committer@example.com> %d +0000\ndata 0\n", si, ci, mark, t, t)
			for j, p := range sh.parents[ci] {
				if j == 0 {
					fmt.Fprintf(&fi, "from :%d\n", commitMark[[2]int{si, p}])
				} else {
					fmt.Fprintf(&fi, "merge :%d\n", commitMark[[2]int{si, p}])
				}
			}
			fi.WriteString("deleteall\n")
			for _, e := range ents {
				fmt.Fprintf(&fi, "M 100644 :%d %s\n", e.m, e.path)
			}
			fi.WriteString("\n")
		}
	}
	fi.WriteString("done\n")
	g.MustRunIn([]byte(fi.String()), "fast-import", "--quiet", "--done", "--date-format=raw")
	var q strings.Builder
	for si, sh := range shapes {
		for ci := range sh.parents {
			fmt.Fprintf(&q, "refs/verif/s%dc%d\n", si, ci)
		}
	}
	ids := strings.Fields(g.MustRunIn([]byte(q.String()), "cat-file", "--batch-check=%(objectname)").S())
	k := 0
	idToCommit := map[string][2]int{}
	for si, sh := range shapes {
		sh.ids = ids[k : k+len(sh.parents)]
		for ci, id := range sh.ids {
			idToCommit[id] = [2]int{si, ci}
		}
		k += len(sh.parents)
	}
	objs := fMemObjects(g)
	pool := &fStoragePool{objs: objs}

	// git's answers: one blame per concatenated file
	type gk = [2]int
	var groups []gk
	for k := range byShapeGroup {
		groups = append(groups, k)
	}
	sort.Slice(groups, func(i, j int) bool {
		if groups[i][0] != groups[j][0] {
			return groups[i][0] < groups[j][0]
		}
		return groups[i][1] < groups[j][1]
	})
	gitAns := make(map[*c46Case][]int, len(cases)) // commit index per line
	var gmu sync.Mutex
	c.ParDo(len(groups), 0, func(gi int) {
		si, grp := groups[gi][0], groups[gi][1]
		sh := shapes[si]
		tip := len(sh.parents) - 1
		res := c46GitBlame(g, sh.ids[tip], fmt.Sprintf("cat/s%d/%d", si, grp), true)
		ln := 0
		for _, cs := range byShapeGroup[groups[gi]] {
			for s := 0; s < c46Sep; s++ {
				if ln >= len(res) || res[ln] != sh.ids[0] {
					fw.Abort("separator line not blamed on the root commit in cat/s%d/%d line %d", si, grp, ln+1)
				}
				ln++
			}
			v := versOf[si][cs.vers[tip]]
			ans := make([]int, len(v))
			vers := make([][]int, len(cs.vers))
			for i, x := range cs.vers {
				vers[i] = versOf[si][x]
			}
			for l := range v {
				sc, ok := idToCommit[res[ln]]
				if !ok || sc[0] != si {
					fw.Abort("git blames an unknown commit %s", res[ln])
				}
				ans[l] = sc[1]
				if m := c46Model(sh, vers, tip, l); m != sc[1] {
					fw.Abort("blame model disagrees with git blame on shape %q versions %v line %d: model commit %d, git commit %d", sh.name, c46Show(vers), l+1, m, sc[1])
				}
				ln++
			}
			c.TracesValidated(1)
			gmu.Lock()
			gitAns[cs] = ans
			gmu.Unlock()
		}
		if ln != len(res) {
			fw.Abort("concatenated file cat/s%d/%d has %d lines, expected %d", si, grp, len(res), ln)
		}
	})
	if c.Expired() {
		return
	}
	// sample: git blames individual case files with its default diff
	var sample []*c46Case
	for i := 0; i < len(cases); i += len(cases)/24 + 1 {
		sample = append(sample, cases[len(cases)-1-i])
	}
	c.ParDo(len(sample), 0, func(i int) {
		cs := sample[i]
		sh := shapes[cs.shape]
		res := c46GitBlame(g, sh.ids[len(sh.parents)-1], cs.path, false)
		want := gitAns[cs]
		if len(res) != len(want) {
			fw.Abort("individual blame of %s: %d lines, expected %d", cs.path, len(res), len(want))
		}
		for l := range res {
			if idToCommit[res[l]][1] != want[l] {
				fw.Abort("git blame of the case file %s differs from its region in the concatenated file at line %d", cs.path, l+1)
			}
		}
		c.TracesValidated(1)
	})

	// go-git
	caseIdx := map[string]*c46Case{}
	for _, cs := range cases {
		caseIdx[fmt.Sprint(cs.shape, cs.vers)] = cs
	}
	blameOf := func(repo *git.Repository, cs *c46Case) (ans []int, bad string) {
		sh := shapes[cs.shape]
		pan := fRecover(func() {
			co, err := repo.CommitObject(plumbing.NewHash(sh.ids[len(sh.parents)-1]))
			if err != nil {
				bad = "CommitObject: " + err.Error()
				return
			}
			br, err := git.Blame(co, cs.path)
			if err != nil {
				bad = "Blame: " + err.Error()
				return
			}
			for _, l := range br.Lines {
				sc, ok := idToCommit[l.Hash.String()]
				if !ok || sc[0] != cs.shape {
					bad = "line blamed on a commit outside the history: " + l.Hash.String()
					return
				}
				ans = append(ans, sc[1])
			}
		})
		if pan != "" {
			bad = "panic: " + pan
		}
		return
	}
	// verdict: "" fine; else kind + description
	verdict := func(repo *git.Repository, cs *c46Case, want []int) (kind, what string, got []int) {
		sh := shapes[cs.shape]
		vs := versOf[cs.shape]
		got, bad := blameOf(repo, cs)
		if bad != "" {
			return "error", bad, nil
		}
		tipV := vs[cs.vers[len(cs.vers)-1]]
		if len(got) != len(tipV) {
			return "lines", fmt.Sprintf("blame has %d lines, the file has %d", len(got), len(tipV)), got
		}
		for l := range got {
			has := false
			for _, x := range vs[cs.vers[got[l]]] {
				if x == tipV[l] {
					has = true
				}
			}
			if !has {
				return "absent", fmt.Sprintf("line %d blamed on commit %d whose version of the file does not contain it", l+1, got[l]), got
			}
		}
		for l := range got {
			if got[l] != want[l] {
				return "differs", fmt.Sprintf("line %d: go-git blames %s, git blames %s", l+1, c46Name(sh, got[l]), c46Name(sh, want[l])), got
			}
		}
		return "", "", got
	}
	type fail struct {
		key, what string
		size      int
		cs        *c46Case
		replay    map[string]any
	}
	var fmu sync.Mutex
	fails := map[string]*fail{}
	failN := map[string]int{}
	c.ParDo(len(cases), 0, func(i int) {
		cs := cases[i]
		want := gitAns[cs]
		if want == nil {
			return
		}
		st := pool.get()
		defer pool.put(st)
		st.SetReference(plumbing.NewSymbolicReference(plumbing.HEAD, "refs/heads/unborn"))
		repo, err := git.Open(st, nil)
		if err != nil {
			fw.Abort("git.Open: %v", err)
		}
		c.Eval()
		sh := shapes[cs.shape]
		vs := versOf[cs.shape]
		kind, what, got := verdict(repo, cs, want)
		if kind == "" {
			changed := false
			for ci := 1; ci < len(cs.vers); ci++ {
				if cs.vers[ci] != cs.vers[ci-1] {
					changed = true
				}
			}
			if changed {
				c.Class(fmt.Sprintf("%s %v %s", sh.name, got, c46Edits(sh, vs, cs)))
			}
			if i%(len(cases)/5+1) == 3 {
				c.Sample(map[string]any{"shape": sh.name, "versions": c46ShowCase(vs, cs), "blame": got})
			}
			return
		}
		// minimise inside the space with the (git-validated) model as oracle;
		// the one known policy difference is a class of its own and the
		// minimiser never walks from another failure into it
		policy := kind == "differs" && c46IsParentOrderPolicy(sh, vs, cs, got)
		same := func(cand *c46Case) bool {
			k2, _, g2 := verdict(repo, cand, gitAns[cand])
			if k2 != kind {
				return false
			}
			return (k2 == "differs" && c46IsParentOrderPolicy(sh, vs, cand, g2)) == policy
		}
		cur := cs
		for changed := true; changed; {
			changed = false
			for ci := range cur.vers {
				for v := 0; v < cur.vers[ci]; v++ { // earlier index = shorter / simpler version
					nv := append([]int{}, cur.vers...)
					nv[ci] = v
					cand, ok := caseIdx[fmt.Sprint(cur.shape, nv)]
					if ok && same(cand) {
						cur, changed = cand, true
						break
					}
				}
			}
			// rename the line texts in order of first appearance
			ren := map[int]int{}
			nv := make([]int, len(cur.vers))
			for ci, vi := range cur.vers {
				w := make([]int, len(vs[vi]))
				for k, x := range vs[vi] {
					if _, ok := ren[x]; !ok {
						ren[x] = len(ren)
					}
					w[k] = ren[x]
				}
				for idx, cand := range vs {
					if c46Eq(cand, w) {
						nv[ci] = idx
					}
				}
			}
			if cand, ok := caseIdx[fmt.Sprint(cur.shape, nv)]; ok && cand != cur && same(cand) {
				cur, changed = cand, true
			}
		}
		_, mwhat, mgot := verdict(repo, cur, gitAns[cur])
		key := kind + ": " + sh.name + ": " + c46ShowCase(vs, cur)
		if policy {
			key = "differs: merge identical to a later parent: lines the earlier parent also has are blamed through the earlier parent (git passes the whole blame to the identical parent)"
		}
		size := 0
		for _, v := range cur.vers {
			size += len(vs[v])
		}
		fmu.Lock()
		failN[key]++
		if f, ok := fails[key]; !ok || size < f.size || (size == f.size && cur.path < f.cs.path) {
			fails[key] = &fail{key, mwhat + " (" + sh.name + ", versions " + c46ShowCase(vs, cur) + "; minimised from " + c46ShowCase(vs, cs) + ": " + what + ")", size, cur,
				map[string]any{"shape": sh.name, "parents": sh.parents, "time_rank": sh.rank, "versions": c46ShowCase(vs, cur), "go_git": mgot, "git": gitAns[cur], "from_versions": c46ShowCase(vs, cs), "path": cur.path, "tip": sh.ids[len(sh.ids)-1]}}
		}
		fmu.Unlock()
	})
	var keys []string
	for k := range fails {
		keys = append(keys, k)
	}
	sort.Strings(keys)
	for _, k := range keys {
		f := fails[k]
		for i := 0; i < failN[k]; i++ {
			c.Fail(f.key, f.what, f.replay)
		}
	}
}

// c46AltModel is the blame policy WITHOUT git's identical-blob rule: parents
// take, in order, the lines the alignment maps to them.
func c46AltModel(sh *c46Shape, vers [][]int, c int, line int) int {
	for _, p := range sh.parents[c] {
		m, _ := c46Align(vers[p], vers[c])
		if pl, ok := m[line]; ok {
			return c46AltModel(sh, vers, p, pl)
		}
	}
	return c
}

// c46IsParentOrderPolicy: the failing case has a merge whose version equals a
// non-first parent's, and go-git's answer is exactly what the policy without
// the identical-blob rule gives. Names ONE known difference; anything else
// keeps its own key.
func c46IsParentOrderPolicy(sh *c46Shape, vs [][]int, cs *c46Case, got []int) bool {
	vers := make([][]int, len(cs.vers))
	for i, x := range cs.vers {
		vers[i] = vs[x]
	}
	applies := false
	for ci, ps := range sh.parents {
		for j, p := range ps {
			if j > 0 && c46Eq(vers[p], vers[ci]) && !c46Eq(vers[ps[0]], vers[ci]) {
				applies = true
			}
		}
	}
	if !applies {
		return false
	}
	tip := len(sh.parents) - 1
	for l := range got {
		if got[l] != c46AltModel(sh, vers, tip, l) {
			return false
		}
	}
	return true
}

func c46Name(sh *c46Shape, ci int) string {
	if len(sh.parents) == 4 && len(sh.parents[3]) == 2 {
		return []string{"B", "X", "Y", "M"}[ci]
	}
	if len(sh.parents) == 5 && len(sh.parents[3]) == 2 {
		return []string{"B", "X", "Y", "M", "T"}[ci]
	}
	if len(sh.parents) == 5 && len(sh.parents[4]) == 3 {
		return []string{"B", "X", "Y", "Z", "M"}[ci]
	}
	return fmt.Sprintf("commit %d", ci+1)
}

func c46Show(vers [][]int) []string {
	var out []string
	for _, v := range vers {
		var p []string
		for _, x := range v {
			p = append(p, c46Texts[x][:1])
		}
		out = append(out, "["+strings.Join(p, " ")+"]")
	}
	return out
}

func c46ShowCase(vs [][]int, cs *c46Case) string {
	vers := make([][]int, len(cs.vers))
	for i, x := range cs.vers {
		vers[i] = vs[x]
	}
	return strings.Join(c46Show(vers), " ")
}

// c46Edits summarises which kinds of edit the history contains (observation class).
func c46Edits(sh *c46Shape, vs [][]int, cs *c46Case) string {
	kinds := map[string]bool{}
	for ci, ps := range sh.parents {
		for _, p := range ps {
			a, b := vs[cs.vers[p]], vs[cs.vers[ci]]
			m, _ := c46Align(a, b)
			switch {
			case c46Eq(a, b):
				kinds["same"] = true
			case len(m) == len(a) && len(b) > len(a):
				kinds["insert"] = true
			case len(m) == len(b) && len(a) > len(b):
				kinds["delete"] = true
			default:
				kinds["replace/move"] = true
			}
			dup := map[int]int{}
			for _, x := range b {
				dup[x]++
				if dup[x] > 1 {
					kinds["duplicate"] = true
				}
			}
		}
	}
	var out []string
	for k := range kinds {
		out = append(out, k)
	}
	sort.Strings(out)
	return strings.Join(out, ",")
}

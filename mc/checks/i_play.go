package checks

// Hidden `vcheck __play ...` mode: a plain, explorer-free replay of one go-git
// operation (used to reproduce findings by hand).
//
//	vcheck __play fetch <client git dir> <refspec> <following|all|none> <depth> <prune 0|1> <proto 0|1|2> <file|exec> [trace]
//	vcheck __play push <local git dir> <force 0|1> <prune 0|1> <lease: -|all|ref[:hash]> <file|exec> <refspec>...

import (
	"fmt"
	"os"
	"strconv"
	"strings"

	git "github.com/go-git/go-git/v6"
	"github.com/go-git/go-git/v6/config"
	"github.com/go-git/go-git/v6/plumbing"
	"github.com/go-git/go-git/v6/plumbing/client"
	"github.com/go-git/go-git/v6/utils/trace"
)

func init() {
	if len(os.Args) >= 3 && os.Args[1] == "__play" {
		os.Exit(iPlayMain(os.Args[2:]))
	}
}

func iPlayMain(a []string) int {
	home := os.Getenv("HOME")
	switch a[0] {
	case "fetch":
		dir, spec, tags := a[1], a[2], a[3]
		depth, _ := strconv.Atoi(a[4])
		prune := a[5] == "1"
		proto, _ := strconv.Atoi(a[6])
		if len(a) > 8 && a[8] == "trace" {
			trace.SetTarget(trace.Packet)
		}
		f, _ := os.OpenFile(dir+"/config", os.O_APPEND|os.O_WRONLY, 0o644)
		fmt.Fprintf(f, "[protocol]\n\tversion = %d\n", proto)
		f.Close()
		repo, err := git.PlainOpen(dir)
		if err != nil {
			fmt.Println("open:", err)
			return 1
		}
		tm := map[string]plumbing.TagMode{"following": plumbing.TagFollowing, "all": plumbing.AllTags, "none": plumbing.NoTags}[tags]
		o := &git.FetchOptions{RemoteName: "origin", RefSpecs: []config.RefSpec{config.RefSpec(spec)}, Depth: depth, Tags: tm, Prune: prune}
		if a[7] == "exec" {
			o.ClientOptions = []client.Option{client.WithTransport("file", &iExecTransport{home: home})}
		}
		err = repo.Fetch(o)
		fmt.Println("fetch:", err)
		sh, _ := repo.Storer.Shallow()
		fmt.Println("shallow:", sh)
		return 0
	case "push":
		// vcheck __play push <local git dir> <force 0|1> <prune 0|1> <lease: -|all|ref[:hash]> <file|exec> <refspec>...
		repo, err := git.PlainOpen(a[1])
		if err != nil {
			fmt.Println("open:", err)
			return 1
		}
		po := &git.PushOptions{RemoteName: "origin", Force: a[2] == "1", Prune: a[3] == "1"}
		switch l := a[4]; {
		case l == "-":
		case l == "all":
			po.ForceWithLease = &git.ForceWithLease{}
		default:
			ref, h, _ := strings.Cut(l, ":")
			po.ForceWithLease = &git.ForceWithLease{RefName: plumbing.ReferenceName(ref)}
			if h != "" {
				po.ForceWithLease.Hash = plumbing.NewHash(h)
			}
		}
		if a[5] == "exec" {
			po.ClientOptions = []client.Option{client.WithTransport("file", &iExecTransport{home: home})}
		}
		for _, sp := range a[6:] {
			po.RefSpecs = append(po.RefSpecs, config.RefSpec(sp))
		}
		fmt.Println("push:", repo.Push(po))
		return 0
	}
	return 2
}

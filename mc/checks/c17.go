package checks

import (
	"fmt"
	"strings"

	"github.com/go-git/go-git/v6/plumbing"
	"github.com/go-git/go-git/v6/plumbing/cache"
	"github.com/go-git/go-git/v6/storage"
	"github.com/go-git/go-git/v6/storage/filesystem"
	"github.com/go-git/go-git/v6/storage/memory"

	"verifmc/fw"
	"verifmc/histx"
	"verifmc/mcfs"
)

func init() {
	fw.Register(&fw.Check{ID: "C17", Level: "model_checking", Run: runC17, QuickBudget: 600, ThoroughBudget: 1400})
}

type c17Backend struct {
	name   string
	format string
	depth  int
	// mk returns the instance under test and, for persistent backends, a
	// function opening a fresh default-option instance over the same state
	mk func() (storage.Storer, func() storage.Storer)
}

type c17Sys struct {
	u      *absUni
	st     storage.Storer
	reopen func() storage.Storer
	model  *absRepo
	ops    []repoOp
	hasRL  bool
}

const c17ModuleRef = "refs/heads/x"

// c17Module observes the module storage "m": the reference the menu writes there.
func c17Module(u *absUni, st storage.Storer) string {
	m, err := st.Module("m")
	if err != nil {
		return "module m " + absErrKind(err)
	}
	r, err := m.Reference(c17ModuleRef)
	if err != nil {
		return "module m x=" + absErrKind(err)
	}
	return "module m x=" + u.hashName(r.Hash())
}

func c17ExpectModule(m *absRepo) string {
	if m.modRef == "" {
		return "module m x=ref-not-found"
	}
	return "module m x=" + m.modRef
}

func (s *c17Sys) Apply(k int) (string, string) { return s.ops[k].do(s.st, s.model) }
func (s *c17Sys) Observe() (string, string) {
	e := expectRepo(s.model, "state", s.hasRL) + "\n" + c17ExpectModule(s.model)
	g := observeRepo(s.u, s.st, "state") + "\n" + c17Module(s.u, s.st)
	if s.reopen != nil && e == g {
		// what the instance reports must also be what it persisted
		r := s.reopen()
		e += "\n" + expectRepo(s.model, "state seen by a fresh instance", s.hasRL) + "\n" + c17ExpectModule(s.model)
		g += "\n" + observeRepo(s.u, r, "state seen by a fresh instance") + "\n" + c17Module(s.u, r)
		if c, ok := r.(interface{ Close() error }); ok {
			c.Close()
		}
	}
	return e, g
}
func (s *c17Sys) Key() string { return expectRepo(s.model, "", true) + c17ExpectModule(s.model) }
func (s *c17Sys) Close() {
	if c, ok := s.st.(interface{ Close() error }); ok {
		c.Close()
	}
}

// c17Ops is the shared menu plus the calls only C17 compares.
func c17Ops(u *absUni) []repoOp {
	return append(repoOps(u, "state"),
		repoOp{"PackRefs", func(st storage.Storer, m *absRepo) (string, string) {
			if err := st.PackRefs(); err != nil {
				return "ok", "error(" + normErr(err) + ")"
			}
			return "ok", "ok"
		}},
		repoOp{"Module(m).SetRef(x,h1)", func(st storage.Storer, m *absRepo) (string, string) {
			ms, err := st.Module("m")
			if err != nil {
				return "ok", "error(" + normErr(err) + ")"
			}
			err = ms.SetReference(plumbing.NewHashReference(c17ModuleRef, u.h["h1"]))
			m.modRef = "h1"
			if err != nil {
				return "ok", "error(" + normErr(err) + ")"
			}
			return "ok", "ok"
		}})
}

func runC17(c *fw.Ctx) {
	depth := absDevDepth(c, c.Pick(3, 4))
	c.Bound("depth", depth)
	var names []string
	for _, o := range c17Ops(absUniverse("sha1")) {
		names = append(names, o.name)
	}
	c.Bound("ops", names)
	type fsopt struct {
		excl, mem bool
		lot       int64
		cache0    bool
		format    string
		depth     int
	}
	fsBackend := func(o fsopt) c17Backend {
		u := absUniverse(o.format)
		return c17Backend{fmt.Sprintf("filesystem(Excl=%v,MemIdx=%v,LOT=%d,cache0=%v,%s)", o.excl, o.mem, o.lot, o.cache0, o.format), o.format, o.depth,
			func() (storage.Storer, func() storage.Storer) {
				w := mcfs.NewWorld()
				var oc cache.Object = cache.NewObjectLRUDefault()
				if o.cache0 {
					oc = cache.NewObjectLRU(0)
				}
				st := filesystem.NewStorageWithOptions(w.View("/g", "g"), oc, filesystem.Options{ExclusiveAccess: o.excl, UseInMemoryIdx: o.mem, LargeObjectThreshold: o.lot, ObjectFormat: u.of})
				return st, func() storage.Storer {
					return filesystem.NewStorageWithOptions(w.View("/g", "g2"), cache.NewObjectLRUDefault(), filesystem.Options{ObjectFormat: u.of})
				}
			}}
	}
	memBackend := func(format string, d int) c17Backend {
		u := absUniverse(format)
		return c17Backend{"memory(" + format + ")", format, d, func() (storage.Storer, func() storage.Storer) {
			return memory.NewStorage(memory.WithObjectFormat(u.of)), nil
		}}
	}
	var backends []c17Backend
	if !c.Thorough() {
		// LOT=1 makes every non-empty object "large", LOT=20 splits the universe
		backends = []c17Backend{
			memBackend("sha1", depth),
			fsBackend(fsopt{false, false, 0, false, "sha1", depth}),
			fsBackend(fsopt{true, true, 1, true, "sha1", depth}),
			fsBackend(fsopt{true, false, 20, false, "sha1", depth}),
			fsBackend(fsopt{false, true, 1, false, "sha256", depth - 1}),
			memBackend("sha256", depth-1),
		}
	} else {
		// depth 4 on three backends, every option combination x format at depth 3
		backends = []c17Backend{
			memBackend("sha1", depth),
			fsBackend(fsopt{false, false, 0, false, "sha1", depth}),
			fsBackend(fsopt{true, true, 20, true, "sha256", depth}),
			memBackend("sha256", depth-1),
		}
		for _, f := range []string{"sha1", "sha256"} {
			for _, e := range []bool{false, true} {
				for _, m := range []bool{false, true} {
					for _, l := range []int64{0, 1, 20} {
						for _, c0 := range []bool{false, true} {
							backends = append(backends, fsBackend(fsopt{e, m, l, c0, f, depth - 1}))
						}
					}
				}
			}
		}
	}
	var bn []string
	for _, b := range backends {
		bn = append(bn, fmt.Sprintf("%s depth=%d", b.name, b.depth))
	}
	c.Bound("backends", bn)
	c.SetRule("all histories up to the backend's depth over the shared menu {ReadAll (a full mid-history read compared with the model, so that later writes meet warm caches and lists), SetRef/SetSymRef (retarget, detach HEAD, hash->symbolic, nested name), CheckAndSet (current/stale/absent/old=nil/symbolic old), RemoveRef, SetObject (new, already loose, already packed, commit), WritePack via packfile.UpdateObjectStorage (blobs+tag), SetIndex (entry/empty), SetShallow (value/empty), SetConfig, AppendReflog (two names), DeleteReflog} plus PackRefs and Module(m).SetRef on every backend (memory; filesystem on mcfs under option combinations; sha1 and sha256), each preloaded through the same calls with hash/symbolic refs, loose objects (one empty), a pack (blob+tree), an index, a shallow list, a config and a reflog; after every history every point read, listing, object has/size/untyped/typed/wrong-typed/repeated read with type, size and content, listing per object type with multiplicity, abbreviated-id expansion (HashesWithPrefix or the scan Repository.ResolveRevision falls back to) for empty/1-byte/3-byte/full prefixes, index entries, shallow, config, reflogs and the module reference must equal the abstract repository model including the error kinds for missing data (ErrReferenceNotFound / ErrObjectNotFound), both through the instance that ran the history and (filesystem) through a freshly opened default-option instance over the same files; since every backend is compared with the same model, all backends agree with each other; every history replayed on fresh instances; distinct = distinct model states x backends")
	c.Assume("D/F-conflicting reference names excluded (C15 decides those); error kind of a failed CheckAndSet left open; CheckAndSet with a symbolic old value against a symbolic reference with another target left open; iteration order compared as a multiset; CountLooseRefs not compared (memory has no loose/packed distinction); IndexCache option left at its default (C20)")
	total := histx.Result{}
	for _, b := range backends {
		b := b
		u := absUniverse(b.format)
		ops := c17Ops(u)
		sp := histx.Spec{Name: "C17/" + b.name, OpNames: names, Depth: b.depth, NoDedup: true,
			New: func() histx.Sys {
				st, reopen := b.mk()
				m := preloadRepo(u, st)
				_, hasRL := st.(reflogStorer)
				if !hasRL {
					m.reflog = map[string][]string{}
				}
				return &c17Sys{u: u, st: st, reopen: reopen, model: m, ops: ops, hasRL: hasRL}
			},
			Classify: func(hist []string, where, e, g string) string {
				kind := b.name
				if i := strings.IndexByte(kind, '('); i > 0 {
					kind = kind[:i]
				}
				if where == "result of "+absReadAllOp {
					return kind + " | " + absDiff(e, g)
				}
				if strings.HasPrefix(where, "result of") {
					opk := where[len("result of "):]
					if i := strings.IndexByte(opk, '('); i > 0 {
						opk = opk[:i]
					}
					return fmt.Sprintf("%s | %s returns %s, contract says %s", kind, opk, g, e)
				}
				return kind + " | " + absDiff(e, g)
			},
		}
		res := histx.Run(c, sp)
		total.States += res.States
		total.Transitions += res.Transitions
		if !res.Complete {
			c.Incomplete(fmt.Sprintf("%s: depth %d only", b.name, res.MaxDepth))
		}
		c.Sample(map[string]any{"backend": b.name, "histories": res.Histories})
	}
	c.States(total.States)
	c.Transitions(total.Transitions)
	c.TracesValidated(0)
}

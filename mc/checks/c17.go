package checks

import (
	"fmt"
	"strings"

	"github.com/go-git/go-git/v6/plumbing"
	"github.com/go-git/go-git/v6/plumbing/cache"
	"github.com/go-git/go-git/v6/plumbing/format/reflog"
	"github.com/go-git/go-git/v6/storage"
	"github.com/go-git/go-git/v6/storage/filesystem"
	"github.com/go-git/go-git/v6/storage/memory"

	"verifmc/fw"
	"verifmc/histx"
	"verifmc/mcfs"
)

func init() {
	fw.Register(&fw.Check{ID: "C17", Level: "model_checking", Run: runC17, QuickBudget: 90, ThoroughBudget: 1200})
}

type c17Backend struct {
	name string
	mk   func() storage.Storer
}

type c17Sys struct {
	st    storage.Storer
	model *absRepo
	ops   []repoOp
	hasRL bool
}

func (s *c17Sys) Apply(k int) (string, string) { return s.ops[k].do(s.st, s.model) }
func (s *c17Sys) Observe() (string, string) {
	return expectRepo(s.model, "state", s.hasRL), observeRepo(s.st, "state")
}
func (s *c17Sys) Key() string { return expectRepo(s.model, "", true) }
func (s *c17Sys) Close() {
	if c, ok := s.st.(interface{ Close() error }); ok {
		c.Close()
	}
}

func runC17(c *fw.Ctx) {
	depth := c.Pick(3, 4)
	c.Bound("depth", depth)
	ops := append(repoOps(), repoOp{"PackRefs", func(st storage.Storer, m *absRepo) (string, string) {
		p, ok := st.(interface{ PackRefs() error })
		if !ok {
			return "ok", "ok"
		}
		if err := p.PackRefs(); err != nil {
			return "ok", "error(" + normErr(err) + ")"
		}
		return "ok", "ok"
	}})
	var names []string
	for _, o := range ops {
		names = append(names, o.name)
	}
	c.Bound("ops", names)
	var backends []c17Backend
	backends = append(backends, c17Backend{"memory", func() storage.Storer { return memory.NewStorage() }})
	type fsopt struct {
		excl, mem bool
		lot       int64
		cache0    bool
	}
	var opts []fsopt
	for _, e := range []bool{false, true} {
		for _, m := range []bool{false, true} {
			for _, l := range []int64{0, 1} {
				for _, c0 := range []bool{false, true} {
					opts = append(opts, fsopt{e, m, l, c0})
				}
			}
		}
	}
	if !c.Thorough() {
		opts = []fsopt{{false, false, 0, false}, {true, true, 1, true}, {true, false, 0, false}, {false, true, 1, false}}
	}
	for _, o := range opts {
		o := o
		backends = append(backends, c17Backend{fmt.Sprintf("filesystem(Excl=%v,MemIdx=%v,LOT=%d,cache0=%v)", o.excl, o.mem, o.lot, o.cache0), func() storage.Storer {
			w := mcfs.NewWorld()
			var oc cache.Object = cache.NewObjectLRUDefault()
			if o.cache0 {
				oc = cache.NewObjectLRU(0)
			}
			return filesystem.NewStorageWithOptions(w.View("/g", "g"), oc, filesystem.Options{ExclusiveAccess: o.excl, UseInMemoryIdx: o.mem, LargeObjectThreshold: o.lot})
		}})
	}
	var bn []string
	for _, b := range backends {
		bn = append(bn, b.name)
	}
	c.Bound("backends", bn)
	c.SetRule("all histories up to depth over {SetRef, CheckAndSet (cur/stale/absent), RemoveRef, SetObject, SetIndex, SetShallow, SetConfig, AppendReflog, DeleteReflog, PackRefs} on every backend (memory; filesystem on mcfs under option combinations), each preloaded with the same content; after every history every point read, listing, typed/untyped object read, index, shallow, config and reflog must equal the abstract repository model including the error kinds for missing data (ErrReferenceNotFound / ErrObjectNotFound); since every backend is compared with the same model, all backends agree with each other; every history replayed on fresh instances; distinct = distinct model states x backends")
	c.Assume("sha1 object format only; D/F-conflicting reference names excluded (C15 decides those); error kind of a failed CheckAndSet left open; iteration order compared as a set")
	total := histx.Result{}
	for _, b := range backends {
		b := b
		sp := histx.Spec{Name: "C17/" + b.name, OpNames: names, Depth: depth, NoDedup: true,
			New: func() histx.Sys {
				st := b.mk()
				m := preloadRepo(st)
				_, hasRL := st.(interface {
					Reflog(plumbing.ReferenceName) ([]*reflog.Entry, error)
				})
				if !hasRL {
					m.reflog = map[string][]string{}
				}
				return &c17Sys{st: st, model: m, ops: ops, hasRL: hasRL}
			},
			Classify: func(hist []string, where, e, g string) string {
				kind := b.name
				if i := strings.IndexByte(kind, '('); i > 0 {
					kind = kind[:i]
				}
				if strings.HasPrefix(where, "result of") {
					opk := where[len("result of "):]
					if i := strings.IndexByte(opk, '('); i > 0 {
						opk = opk[:i]
					}
					return fmt.Sprintf("%s | %s returns %s, contract says %s", kind, opk, g, e)
				}
				return kind + " | " + diffLines(e, g)
			},
		}
		res := histx.Run(c, sp)
		total.States += res.States
		total.Transitions += res.Transitions
		if !res.Complete {
			c.Incomplete(fmt.Sprintf("%s: depth %d only", b.name, res.MaxDepth))
		}
		c.Sample(map[string]any{"backend": b.name, "histories": res.Histories})
	}
	c.States(total.States)
	c.Transitions(total.Transitions)
	c.TracesValidated(0)
}

package checks

// C34: pkt-line and sideband framing round-trip under any chunking of the
// byte stream; malformed lengths are rejected without losing synchronisation.

import (
	"bufio"
	"bytes"
	"errors"
	"fmt"
	"io"
	"os"
	"strings"
	"sync"

	"github.com/go-git/go-git/v6/plumbing/format/pktline"
	"github.com/go-git/go-git/v6/plumbing/protocol/packp/sideband"

	"verifmc/fw"
)

func init() {
	fw.Register(&fw.Check{ID: "C34", Level: "exploration", Run: runC34, QuickBudget: 150, ThoroughBudget: 1400})
}

// c34Pkt is one packet of the written sequence: kind D(ata) F(lush) L(delim)
// R(esponse-end) E(RR line, data = message text).
type c34Pkt struct {
	kind byte
	data []byte
}

// c34Ev is one observation made by a reader: kind as above plus X (length
// rejected as invalid), U (io.ErrUnexpectedEOF: buffer too small, packet
// skipped), $ (clean end of stream), ! (anything else).
type c34Ev struct {
	kind byte
	s    string
}

func (e c34Ev) String() string {
	if len(e.s) > 40 {
		return fmt.Sprintf("%c(%s...[%d])", e.kind, fw.Q(e.s[:24]), len(e.s))
	}
	return fmt.Sprintf("%c(%s)", e.kind, fw.Q(e.s))
}

func c34Expect(p c34Pkt) c34Ev {
	switch p.kind {
	case 'D':
		return c34Ev{'D', string(p.data)}
	case 'E':
		return c34Ev{'E', "ERR " + string(p.data) + "\n\x00" + string(p.data)}
	}
	return c34Ev{p.kind, ""}
}

// c34Encode writes the sequence with go-git's writers; returns the stream and
// the offset of the end of every packet.
func c34Encode(seq []c34Pkt) ([]byte, []int, error) {
	var b bytes.Buffer
	var ends []int
	for _, p := range seq {
		var err error
		switch p.kind {
		case 'D':
			switch {
			case len(p.data) > 1 && p.data[len(p.data)-1] == '\n' && len(p.data)%2 == 0:
				_, err = pktline.Writeln(&b, string(p.data[:len(p.data)-1]))
			case len(p.data)%3 == 1:
				_, err = pktline.WriteString(&b, string(p.data))
			default:
				_, err = pktline.Write(&b, p.data)
			}
		case 'F':
			err = pktline.WriteFlush(&b)
		case 'L':
			err = pktline.WriteDelim(&b)
		case 'R':
			err = pktline.WriteResponseEnd(&b)
		case 'E':
			if len(p.data)%2 == 0 {
				_, err = pktline.WriteError(&b, errors.New(string(p.data)))
			} else {
				err = (&pktline.ErrorLine{Text: string(p.data)}).Encode(&b)
			}
		}
		if err != nil {
			return nil, nil, err
		}
		ends = append(ends, b.Len())
	}
	return b.Bytes(), ends, nil
}

// c34Str converts a payload to a string without copying when it equals the
// expected string (the 64 KiB copies dominate the run time otherwise).
func c34Str(payload []byte, hint string) string {
	if string(payload) == hint {
		return hint
	}
	return string(payload)
}

func c34Hint(want []c34Ev, i int) string {
	if i < len(want) && want[i].kind == 'D' {
		return want[i].s
	}
	return ""
}

func c34Classify(l int, payload []byte, err error, hint string) c34Ev {
	var el *pktline.ErrorLine
	switch {
	case err == nil:
		switch {
		case l == pktline.Flush:
			return c34Ev{'F', ""}
		case l == pktline.Delim:
			return c34Ev{'L', ""}
		case l == pktline.ResponseEnd:
			return c34Ev{'R', ""}
		case l >= pktline.LenSize && l == len(payload)+pktline.LenSize:
			return c34Ev{'D', c34Str(payload, hint)}
		}
		return c34Ev{'!', fmt.Sprintf("length %d with %d payload bytes and no error", l, len(payload))}
	case errors.As(err, &el):
		if l != len(payload)+pktline.LenSize {
			return c34Ev{'!', fmt.Sprintf("ERR line: length %d with %d payload bytes", l, len(payload))}
		}
		return c34Ev{'E', string(payload) + "\x00" + el.Text}
	case err == io.EOF:
		return c34Ev{'$', ""}
	case errors.Is(err, pktline.ErrInvalidPktLen):
		if l != pktline.Err {
			return c34Ev{'!', fmt.Sprintf("invalid pkt-len reported with length %d", l)}
		}
		return c34Ev{'X', ""}
	case err == io.ErrUnexpectedEOF:
		return c34Ev{'U', ""}
	}
	return c34Ev{'!', "error: " + err.Error()}
}

var c34BufPool = sync.Pool{New: func() any { b := make([]byte, pktline.MaxSize); return &b }}
var c34BigPool = sync.Pool{New: func() any { b := make([]byte, 1<<18); return &b }}

type dSwapReader struct{ r io.Reader }

func (s *dSwapReader) Read(p []byte) (int, error) { return s.r.Read(p) }

type c34PooledScanner struct {
	s  *pktline.Scanner
	sw *dSwapReader
}

var c34ScannerPool = sync.Pool{New: func() any {
	sw := &dSwapReader{}
	return &c34PooledScanner{pktline.NewScanner(sw), sw}
}}

type c34PooledDemux struct {
	d  *sideband.Demuxer
	sw *dSwapReader
}

var c34DemuxPools = map[sideband.Type]*sync.Pool{
	sideband.Sideband: {New: func() any {
		sw := &dSwapReader{}
		return &c34PooledDemux{sideband.NewDemuxer(sideband.Sideband, sw), sw}
	}},
	sideband.Sideband64k: {New: func() any {
		sw := &dSwapReader{}
		return &c34PooledDemux{sideband.NewDemuxer(sideband.Sideband64k, sw), sw}
	}},
}

var c34BufioPools = map[int]*sync.Pool{
	c34Peek16:    {New: func() any { return bufio.NewReaderSize(nil, 16) }},
	c34Peek4096:  {New: func() any { return bufio.NewReaderSize(nil, 4096) }},
	c34Peek65536: {New: func() any { return bufio.NewReaderSize(nil, 65536) }},
}

const (
	c34Read = iota
	c34ReadLine
	c34Scanner
	c34Peek16
	c34Peek4096
	c34Peek65536
	c34NConsumers
)

var c34ConsumerName = []string{"Read", "ReadLine", "Scanner", "PeekLine/16", "PeekLine/4096", "PeekLine/65536"}
var c34PeekSize = map[int]int{c34Peek16: 16, c34Peek4096: 4096, c34Peek65536: 65536}

// c34Consume reads events until end of stream or maxEv events. firstBuf >= 0
// makes the Read consumer use a buffer of that size for the first call only.
func c34Consume(consumer int, r io.Reader, want []c34Ev, maxEv, firstBuf int) []c34Ev {
	var out []c34Ev
	switch consumer {
	case c34Read:
		bp := c34BufPool.Get().(*[]byte)
		defer c34BufPool.Put(bp)
		buf := *bp
		for len(out) < maxEv {
			b := buf
			if firstBuf >= 0 && len(out) == 0 {
				b = buf[:firstBuf]
			}
			l, err := pktline.Read(r, b)
			var pl []byte
			if l >= pktline.LenSize && l <= len(b) {
				pl = b[pktline.LenSize:l]
			}
			e := c34Classify(l, pl, err, c34Hint(want, len(out)))
			out = append(out, e)
			if e.kind == '$' {
				break
			}
		}
	case c34ReadLine:
		// ReadLine returns "a newly allocated buffer": every returned payload is
		// kept and must still hold its packet after all later reads
		var kept [][]byte
		for len(out) < maxEv {
			l, p, err := pktline.ReadLine(r)
			e := c34Classify(l, p, err, c34Hint(want, len(out)))
			out = append(out, e)
			kept = append(kept, p)
			if e.kind == '$' {
				break
			}
		}
		for i, p := range kept {
			switch out[i].kind {
			case 'D':
				if string(p) != out[i].s {
					out[i] = c34Ev{'!', "payload returned by ReadLine was overwritten by a later read"}
				}
			case 'E':
				if !strings.HasPrefix(out[i].s, string(p)+"\x00") {
					out[i] = c34Ev{'!', "ERR payload returned by ReadLine was overwritten by a later read"}
				}
			}
		}
	case c34Scanner:
		// A Scanner owns a 64 KiB buffer; allocating one per execution makes the
		// allocator the bottleneck, so scanners are reused over a swappable
		// reader (Scan overwrites all of the Scanner's state on every call).
		ps := c34ScannerPool.Get().(*c34PooledScanner)
		defer c34ScannerPool.Put(ps)
		ps.sw.r = r
		s := ps.s
		for len(out) < maxEv {
			var e c34Ev
			if s.Scan() {
				e = c34Classify(s.Len(), s.Bytes(), nil, c34Hint(want, len(out)))
				if e.kind == 'D' && len(e.s) <= 64 && s.Text() != e.s {
					e = c34Ev{'!', "Text() differs from Bytes()"}
				}
				if (e.kind == 'F' || e.kind == 'L' || e.kind == 'R') && (s.Bytes() != nil || s.Text() != "") {
					e = c34Ev{'!', "Bytes() is not nil for a special packet"}
				}
			} else if err := s.Err(); err == nil {
				e = c34Ev{'$', ""}
			} else {
				e = c34Classify(s.Len(), s.Bytes(), err, "")
			}
			out = append(out, e)
			if e.kind == '$' {
				break
			}
		}
	default:
		pool := c34BufioPools[consumer]
		br := pool.Get().(*bufio.Reader)
		defer pool.Put(br)
		br.Reset(r)
		for len(out) < maxEv {
			l1, p1, err1 := pktline.PeekLine(br)
			e1 := c34Classify(l1, p1, err1, c34Hint(want, len(out)))
			l2, p2, err2 := pktline.ReadLine(br)
			e2 := c34Classify(l2, p2, err2, c34Hint(want, len(out)))
			if e1 != e2 {
				e2 = c34Ev{'!', "PeekLine saw " + e1.String() + " but the following ReadLine saw " + e2.String()}
			}
			out = append(out, e2)
			if e2.kind == '$' {
				break
			}
		}
	}
	return out
}

func c34SeqString(seq []c34Pkt) string {
	var sb strings.Builder
	for i, p := range seq {
		if i > 0 {
			sb.WriteByte(' ')
		}
		switch p.kind {
		case 'D', 'E':
			sb.WriteByte(p.kind)
			sb.WriteByte('(')
			sb.WriteString(dShort(p.data))
			sb.WriteByte(')')
		default:
			sb.WriteByte(p.kind)
		}
	}
	return sb.String()
}

func c34Shape(seq []c34Pkt) string {
	var sb strings.Builder
	for _, p := range seq {
		sb.WriteByte(p.kind)
		if p.kind == 'D' {
			switch n := len(p.data); {
			case n == 0:
				sb.WriteByte('0')
			case n <= 4:
				sb.WriteByte('s')
			case n < 60000:
				sb.WriteByte('m')
			default:
				sb.WriteByte('X')
			}
		}
	}
	return sb.String()
}

// c34Loc classifies a split offset: h = inside a 4-byte length header,
// b = on a packet boundary, p = inside a payload.
func c34Loc(off int, starts []int) byte {
	for i := len(starts) - 1; i >= 0; i-- {
		if off >= starts[i] {
			d := off - starts[i]
			switch {
			case d == 0:
				return 'b'
			case d < 4:
				return 'h'
			}
			return 'p'
		}
	}
	return 'p'
}

func c34ChunkClass(k dChunking, starts []int) string {
	var sb strings.Builder
	for _, c := range k.cuts {
		sb.WriteByte(c34Loc(c, starts))
	}
	if k.max > 0 {
		fmt.Fprintf(&sb, "m%d", k.max)
	}
	if k.eofData {
		sb.WriteByte('e')
	}
	if sb.Len() == 0 {
		return "whole"
	}
	return sb.String()
}

func c34Diff(want, got []c34Ev) (int, string) {
	for j := 0; j < len(want) || j < len(got); j++ {
		switch {
		case j >= len(got):
			return j, "missing " + want[j].String()
		case j >= len(want):
			return j, "extra " + got[j].String()
		case want[j] != got[j]:
			kind := "payload"
			if want[j].kind != got[j].kind {
				kind = fmt.Sprintf("%c->%c", want[j].kind, got[j].kind)
			}
			return j, kind + ": want " + want[j].String() + " got " + got[j].String()
		}
	}
	return -1, ""
}

func c34DiffKind(d string) string {
	if i := strings.IndexByte(d, ':'); i >= 0 {
		return d[:i]
	}
	return strings.Fields(d)[0]
}

var c34PartRank = map[string]int{"seq": 0, "content": 1, "malformed": 2, "smallbuf": 3, "length": 4, "bigsplit": 5, "writers": 6, "errline": 7, "trace": 8, "zeroreads": 9}

type c34Env struct {
	c     *fw.Ctx
	fails *dMinFails
	cls   *dClassSet
}

// run executes one written stream under every chunking with every applicable
// consumer and compares the observed events with want (+ clean end).
func (e *c34Env) run(part string, rank0 int, descr string, shape string, stream []byte, starts []int, want []c34Ev, chunkings []dChunking, consumers []int, firstBuf int) {
	wantAll := append(append([]c34Ev{}, want...), c34Ev{'$', ""})
	maxPkt := 0
	for i, s := range starts {
		end := len(stream)
		if i+1 < len(starts) {
			end = starts[i+1]
		}
		if end-s > maxPkt {
			maxPkt = end - s
		}
	}
	n := 0
	for ki, k := range chunkings {
		mask := 0
		for _, cons := range consumers {
			if sz, ok := c34PeekSize[cons]; ok && maxPkt > sz {
				continue
			}
			got := c34Consume(cons, newChunkReader(stream, k), wantAll, len(wantAll)+2, firstBuf)
			n++
			mask |= 1 << cons
			if j, d := c34Diff(wantAll, got); j >= 0 {
				k := k
				// one group per reader family and kind of divergence: a single
				// defect gives one or two keys, each the smallest failing case
				group := "pktline/" + strings.SplitN(c34ConsumerName[cons], "/", 2)[0] + "/" + c34DiffKind(d)
				e.fails.add(group, [3]int{c34PartRank[part]*10000000 + rank0, ki, cons}, func() (string, string, any) {
					key := fmt.Sprintf("pktline %s/%s: [%s] %s: event #%d %s", part, c34ConsumerName[cons], descr, k, j, d)
					return key, "pkt-line sequence written by go-git is not read back identically", map[string]any{
						"part": part, "consumer": c34ConsumerName[cons], "sequence": descr, "stream": dShort(stream),
						"chunking": k.String(), "first_buffer": firstBuf, "want": fmt.Sprint(wantAll), "got": fmt.Sprint(got)}
				})
			}
		}
		e.cls.add(e.c, fmt.Sprintf("%s|%s|%s|readers=%x", part, shape, c34ChunkClass(k, starts), mask))
	}
	e.c.Evals(n)
}

func c34Fill(n, salt int) []byte {
	b := make([]byte, n)
	for i := range b {
		b[i] = "abcdefghijklmnopqrstuvw\n\x00\x01\x02\x03"[(i+salt)%28]
	}
	return b
}

func c34Starts(ends []int) []int {
	s := []int{0}
	if len(ends) > 0 {
		s = append(s, ends[:len(ends)-1]...)
	}
	return s
}

func runC34(c *fw.Ctx) {
	defer dProf()()
	env := &c34Env{c: c, fails: &dMinFails{}, cls: &dClassSet{}}
	partStats := map[string]any{}
	lastT, lastN := c.Elapsed(), c.NEvals()
	mark := func(name string) {
		partStats[name] = map[string]any{"wall_s": float64(int((c.Elapsed()-lastT).Seconds()*10)) / 10, "evaluations": c.NEvals() - lastN}
		lastT, lastN = c.Elapsed(), c.NEvals()
		c.Extra("parts", partStats)
	}
	only := os.Getenv("VERIF_C34_PARTS") // development aid: run the named parts only
	if only != "" {
		c.Incomplete("VERIF_C34_PARTS set: only parts " + only + " run")
	}
	on := func(part string) bool {
		if only == "" {
			return true
		}
		for _, p := range strings.Split(only, ",") {
			if p == part {
				return true
			}
		}
		return false
	}
	allCons := []int{c34Read, c34ReadLine, c34Scanner, c34Peek16, c34Peek4096, c34Peek65536}
	smallSizes := []int{1, 2, 3, 4, 5, 6, 7, 8}
	bigSizes := []int{4095, 4096, 65519, 65520, 65521}
	c.SetRule("packet sequences are written with go-git's pktline writers / sideband.Muxer and read back through an io.Reader that delivers the stream in an enumerated chunking (whole; every single split point; every pair of split points; per-read maxima 1..8, 4095, 4096, 65519..65521; last chunk with or without io.EOF) by Read, ReadLine, Scanner, PeekLine+ReadLine (bufio 16/4096/65536) and sideband.Demuxer with enumerated caller read sizes; an evaluation is one (stream, chunking, reader) execution; a class is (part, reader, sequence shape, where the split points fall: header/boundary/payload) and is non-trivial because every execution must reproduce the full written sequence")
	c.Assume("a rejected length header consumes exactly its 4 bytes (git itself aborts the connection there); lengths accepted are git's: 4 hex digits of either case, 0/1/2 special, 3 and >65520 invalid")
	c.Bound("max_chunk_sizes", append(append([]int{}, smallSizes...), bigSizes...))

	// ---- part seq: all sequences of length <= L over a small packet alphabet
	alpha := []c34Pkt{
		{'D', []byte("")}, {'D', []byte("a")}, {'D', []byte("a\n")}, {'D', []byte("\x01a\x02")},
		{'F', nil}, {'L', nil}, {'R', nil}, {'E', []byte("x")},
	}
	seqLen := c.Pick(3, 4)
	c.Bound("seq_max_len", seqLen)
	c.Bound("seq_alphabet", c34SeqString(alpha))
	seqs := fw.Seqs(len(alpha), seqLen)
	if !on("seq") {
		seqs = nil
	}
	c.ParDo(len(seqs), 0, func(i int) {
		var seq []c34Pkt
		for _, a := range seqs[i] {
			seq = append(seq, alpha[a])
		}
		stream, ends, err := c34Encode(seq)
		c.Must(err, "encode")
		var want []c34Ev
		for _, p := range seq {
			want = append(want, c34Expect(p))
		}
		if i%97 == 5 {
			c.Sample(map[string]any{"part": "seq", "sequence": c34SeqString(seq), "stream": fw.Q(string(stream))})
		}
		env.run("seq", i, c34SeqString(seq), c34Shape(seq), stream, c34Starts(ends), want,
			dChunkingsSmall(len(stream), true, smallSizes, true), allCons, -1)
	})

	mark("seq")
	// ---- part content: every payload over {a, LF, 1, 2, 3} up to length 4
	sigma := []string{"a", "\n", "\x01", "\x02", "\x03"}
	contLen := 4
	c.Bound("content_alphabet", sigma)
	c.Bound("content_max_len", contLen)
	nCont := fw.CountStrings(len(sigma), contLen)
	if !on("content") {
		nCont = 0
	}
	c.ParDo(nCont, 0, func(i int) {
		p := fw.StringAt(sigma, i)
		for v, seq := range [][]c34Pkt{
			{{'D', []byte(p)}, {'D', []byte("a")}, {'F', nil}},
			{{'E', []byte("e")}, {'D', []byte(p)}, {'L', nil}},
		} {
			stream, ends, err := c34Encode(seq)
			c.Must(err, "encode")
			var want []c34Ev
			for _, q := range seq {
				want = append(want, c34Expect(q))
			}
			env.run("content", i*2+v, c34SeqString(seq), c34Shape(seq), stream, c34Starts(ends), want,
				dChunkingsSmall(len(stream), true, smallSizes, true), allCons, -1)
		}
	})

	mark("content")
	// ---- part malformed: bad length headers followed by well-formed packets
	hdrs := map[string]bool{}
	var hdrList []string
	addH := func(h string) {
		if !hdrs[h] {
			hdrs[h] = true
			hdrList = append(hdrList, h)
		}
	}
	hsig := []string{"0", "1", "3", "4", "f", "g", "F"}
	for _, h := range fw.Strings(hsig, 4) {
		if len(h) == 4 {
			addH(h)
		}
	}
	for v := 1; v <= 3; v++ {
		addH(fmt.Sprintf("%04x", v))
	}
	for v := 65519; v <= 65535; v++ {
		addH(fmt.Sprintf("%04x", v))
		addH(fmt.Sprintf("%04X", v))
	}
	for pos := 0; pos < 4; pos++ {
		for _, b := range []byte{' ', '-', '+', 'x', 'G', 'g', '\n', 0, 0xff, '/', ':', '@', '`'} {
			h := []byte("0008")
			h[pos] = b
			addH(string(h))
		}
	}
	c.Bound("malformed_headers", fmt.Sprintf("%d: all 4-symbol strings over %v, lengths 1-3, 65519..65535 in both cases, every single non-hex substitution of 0008 by 13 boundary bytes", len(hdrList), hsig))
	suffix := []c34Pkt{{'D', []byte("ab")}, {'F', nil}, {'D', []byte("c\n")}}
	sufStream, _, err := c34Encode(suffix)
	c.Must(err, "encode")
	if !on("malformed") {
		hdrList = nil
	}
	c.ParDo(len(hdrList), 0, func(i int) {
		h := hdrList[i]
		v, hexOK := 0, true
		for j := 0; j < 4; j++ {
			ch := h[j]
			switch {
			case ch >= '0' && ch <= '9':
				v = v*16 + int(ch-'0')
			case ch >= 'a' && ch <= 'f':
				v = v*16 + int(ch-'a') + 10
			case ch >= 'A' && ch <= 'F':
				v = v*16 + int(ch-'A') + 10
			default:
				hexOK = false
			}
		}
		var first c34Ev
		var fill []byte
		shape := "rej"
		switch {
		case !hexOK || v == 3 || v > pktline.MaxSize:
			first = c34Ev{'X', ""}
		case v == 0:
			first, shape = c34Ev{'F', ""}, "ok"
		case v == 1:
			first, shape = c34Ev{'L', ""}, "ok"
		case v == 2:
			first, shape = c34Ev{'R', ""}, "ok"
		default:
			fill = c34Fill(v-4, 1)
			first, shape = c34Ev{'D', string(fill)}, "ok"
		}
		stream := append(append([]byte(h), fill...), sufStream...)
		want := []c34Ev{first}
		for _, q := range suffix {
			want = append(want, c34Expect(q))
		}
		b0 := 4 + len(fill)
		starts := []int{0, b0, b0 + 6, b0 + 10}
		var ks []dChunking
		if len(stream) <= 64 {
			ks = dChunkingsSmall(len(stream), true, smallSizes, true)
		} else {
			ks = []dChunking{{}}
			for _, p := range dNear(len(stream), 5, 0, 4, b0, b0+4, b0+6, b0+10) {
				ks = append(ks, dChunking{cuts: []int{p}})
			}
			for _, s := range append([]int{7}, bigSizes...) {
				ks = append(ks, dChunking{max: s})
			}
		}
		if i%401 == 7 {
			c.Sample(map[string]any{"part": "malformed", "header": fw.Q(h), "expected_first_event": first.String()})
		}
		env.run("malformed", i, "header "+fw.Q(h)+" then "+c34SeqString(suffix), shape+c34Shape(suffix), stream, starts, want, ks, allCons, -1)
	})

	mark("malformed")
	// ---- part smallbuf: the caller's buffer for the first Read is too small / exactly
	// fits / is below the 4 header bytes; the stream must stay in sync
	sbLens := []int{1, 2, 3, 10, 100, 1000, 8188, 8189, 8193, 65516}
	c.Bound("smallbuf_payload_lengths", sbLens)
	c.Bound("smallbuf_first_buffer_sizes", "0..3 (refused, nothing consumed), 4, 5, 6, packet-1 (packet skipped), packet, packet+1 (fits); first packet data of the listed lengths, empty data, flush, delim, response-end")
	type sbCase struct {
		first c34Pkt
		buf   int
	}
	var sbCases []sbCase
	for _, L := range sbLens {
		seen := map[int]bool{}
		for _, b := range []int{0, 1, 2, 3, 4, 5, 6, L + 3, L + 4, L + 5} {
			if !seen[b] && b <= pktline.MaxSize {
				seen[b] = true
				sbCases = append(sbCases, sbCase{c34Pkt{'D', c34Fill(L, 9)}, b})
			}
		}
	}
	for _, first := range []c34Pkt{{'D', []byte{}}, {'F', nil}, {'L', nil}, {'R', nil}} {
		for _, b := range []int{0, 3, 4, 5} {
			sbCases = append(sbCases, sbCase{first, b})
		}
	}
	if !on("smallbuf") {
		sbCases = nil
	}
	c.ParDo(len(sbCases), 0, func(i int) {
		sc := sbCases[i]
		seq := []c34Pkt{sc.first, {'D', []byte("ab")}, {'F', nil}}
		stream, ends, err := c34Encode(seq)
		c.Must(err, "encode")
		var want []c34Ev
		shape := ""
		switch {
		case sc.buf < pktline.LenSize:
			// refused before anything is read: the packet is still there
			want, shape = []c34Ev{{'X', ""}, c34Expect(seq[0])}, "X"
		case sc.first.kind == 'D' && len(sc.first.data)+pktline.LenSize > sc.buf:
			want, shape = []c34Ev{{'U', ""}}, "U"
		default:
			want, shape = []c34Ev{c34Expect(seq[0])}, "fit"
		}
		want = append(want, c34Expect(seq[1]), c34Expect(seq[2]))
		var ks []dChunking
		if len(stream) <= 1100 {
			ks = dChunkingsSmall(len(stream), len(stream) <= 40, smallSizes, true)
		} else {
			ks = []dChunking{{}}
			for _, p := range dNear(len(stream), 5, 0, 4, 8192, 8196, ends[0], ends[0]+4, ends[1]) {
				ks = append(ks, dChunking{cuts: []int{p}})
			}
			for _, s := range append([]int{1, 7, 8191, 8192, 8193}, bigSizes...) {
				ks = append(ks, dChunking{max: s}, dChunking{max: s, eofData: true})
			}
		}
		env.run("smallbuf", i, fmt.Sprintf("first Read with a %d-byte buffer; %s", sc.buf, c34SeqString(seq)), shape+c34Shape(seq), stream, c34Starts(ends), want, ks, []int{c34Read}, sc.buf)
	})
	mark("smallbuf")
	env.fails.flush(c)
	if on("writers") {
		c34Writers(c, env, allCons)
		mark("writers")
	}
	if on("errline") {
		c34ErrLines(c, env, allCons)
		mark("errline")
	}
	if on("zeroreads") {
		c34ZeroReads(c, env, alpha, allCons)
		mark("zeroreads")
	}
	if on("trace") {
		c34Traced(c, env, alpha, allCons)
		mark("trace")
	}
	env.fails.flush(c)
	if on("sideband-cheap") {
		c34Sideband(c, env, mark, true)
	}
	env.fails.flush(c)
	// ---- part length: every payload length 0..65516 (position-dependent fill)
	maxLen := pktline.MaxPayloadSize
	c.Bound("payload_lengths", fmt.Sprintf("0..%d (all)", maxLen))
	oneByteUpTo := c.Pick(1500, maxLen)
	c.Bound("length_part_one_byte_reads_up_to_len", oneByteUpTo)
	fullUpTo := 4200
	c.Bound("length_part", "whole, single splits within 3 bytes of every header/boundary, maxima 4095..65521 for payload lengths <= 4200 and >= 65452 (all lengths in thorough); other lengths: whole, 3 splits at header/boundary, maximum 4096")
	if _, err := pktline.Write(io.Discard, make([]byte, maxLen+1)); !errors.Is(err, pktline.ErrPayloadTooLong) {
		c.Fail("pktline Write accepts a payload of 65517 bytes", "Write does not refuse an oversized payload", nil)
	}
	nLen := maxLen + 1
	if !on("length") {
		nLen = 0
	}
	c.ParDo(nLen, 0, func(L int) {
		seq := []c34Pkt{{'D', c34Fill(L, L)}, {'D', []byte("ab")}, {'F', nil}}
		stream, ends, err := c34Encode(seq)
		c.Must(err, "encode")
		var want []c34Ev
		for _, q := range seq {
			want = append(want, c34Expect(q))
		}
		ks := []dChunking{{}}
		full := c.Thorough() || L <= fullUpTo || L >= maxLen-64
		if full {
			for _, p := range dNear(len(stream), 3, 0, 4, ends[0], ends[0]+4, ends[1]) {
				ks = append(ks, dChunking{cuts: []int{p}})
			}
			for _, s := range bigSizes {
				ks = append(ks, dChunking{max: s})
			}
			ks = append(ks, dChunking{max: 4096, eofData: true})
		} else {
			for _, p := range []int{2, ends[0] - 1, ends[0] + 2} {
				ks = append(ks, dChunking{cuts: []int{p}})
			}
			ks = append(ks, dChunking{max: 4096})
		}
		if L <= oneByteUpTo || L >= maxLen-16 {
			ks = append(ks, dChunking{max: 1}, dChunking{max: 7})
		}
		if full {
			env.run("length", L, c34SeqString(seq), c34Shape(seq), stream, c34Starts(ends), want, ks,
				[]int{c34Read, c34ReadLine, c34Scanner, c34Peek65536}, -1)
		} else {
			env.run("length", L, c34SeqString(seq), c34Shape(seq), stream, c34Starts(ends), want, ks, []int{c34Read, c34Scanner}, -1)
			env.run("length", L, c34SeqString(seq), c34Shape(seq), stream, c34Starts(ends), want, ks[:2], []int{c34ReadLine, c34Peek65536}, -1)
		}
	})

	mark("length")
	// ---- part bigsplit: every single split point of streams with a large packet
	bigLens := []int{995, 4092, 65516}
	if c.Thorough() {
		bigLens = append(bigLens, 996, 4091, 8188, 32768, 65514, 65515)
	}
	c.Bound("every_split_point_for_payload_lengths", bigLens)
	if !on("bigsplit") {
		bigLens = nil
	}
	for bi, L := range bigLens {
		seq := []c34Pkt{{'D', c34Fill(L, 3)}, {'D', []byte("ab")}, {'F', nil}}
		stream, ends, err := c34Encode(seq)
		c.Must(err, "encode")
		var want []c34Ev
		for _, q := range seq {
			want = append(want, c34Expect(q))
		}
		const step = 64
		c.ParDo((len(stream)+step-1)/step, 0, func(blk int) {
			var ks []dChunking
			for p := blk*step + 1; p <= (blk+1)*step && p < len(stream); p++ {
				ks = append(ks, dChunking{cuts: []int{p}})
			}
			cons := []int{c34Read, c34ReadLine, c34Scanner, c34Peek65536}
			if L > 60000 && !c.Thorough() {
				cons = []int{c34Read, c34Scanner, c34Peek65536} // the PeekLine reader also runs ReadLine
			}
			env.run("bigsplit", bi*100000+blk, c34SeqString(seq), c34Shape(seq), stream, c34Starts(ends), want, ks, cons, -1)
		})
	}

	mark("bigsplit")
	env.fails.flush(c)

	if on("sideband-big") {
		c34Sideband(c, env, mark, false)
	}
	env.fails.flush(c)
}

// ---------------------------------------------------------------- sideband

// c34SbWrite is one step of a sideband script: n bytes for channel ch, handed
// to go-git's Muxer or (raw) framed by hand as ONE packet the way another
// implementation may packetise it (n = 0: git's keep-alive packet).
type c34SbWrite struct {
	ch  sideband.Channel
	n   int
	raw bool
}

func c34SbFill(ch sideband.Channel, n, off int) []byte {
	pat := "\x01\x02\x03P\n\x00xyz0004"
	if ch == sideband.ProgressMessage {
		pat = "\x02\x01r\r\x03%0000q"
	}
	if ch == sideband.ErrorMessage {
		pat = "fatal: %s\x01 0000\nq"
	}
	b := make([]byte, n)
	for i := range b {
		b[i] = pat[(i+off)%len(pat)]
	}
	return b
}

// c34ReadPlan is the sequence of buffer sizes the caller passes to
// Demuxer.Read; the last size repeats.
type c34ReadPlan []int

func c34SbScriptString(t sideband.Type, script []c34SbWrite, flush bool) string {
	var sb strings.Builder
	if t == sideband.Sideband {
		sb.WriteString("side-band:")
	} else {
		sb.WriteString("side-band-64k:")
	}
	for _, w := range script {
		if w.raw {
			fmt.Fprintf(&sb, " rawpkt-ch%d[%d]", w.ch, w.n)
		} else {
			fmt.Fprintf(&sb, " ch%d[%d]", w.ch, w.n)
		}
	}
	if flush {
		sb.WriteString(" flush")
	} else {
		sb.WriteString(" eof")
	}
	return sb.String()
}

// c34Sideband runs the sideband jobs; cheap selects the small/fast job
// families (run before the expensive pkt-line parts) or the large ones.
func c34Sideband(c *fw.Ctx, env *c34Env, mark func(string), cheap bool) {
	type sbJob struct {
		part   string
		t      sideband.Type
		script []c34SbWrite
		flush  bool
		// chunkings: "all2e" every single split and pair + maxima 1..8, each with/without eofData;
		// "all1e" the same without pairs; "all1" every single split + maxima; "near" neighbourhood
		// (radius 3) of every packet boundary/header/channel byte + maxima
		chunks   string
		plans    []c34ReadPlan
		cutPlans bool // additionally every (k1) and (k1,k2) prefix of read sizes up to the pack length
	}
	plansOf := func(sizes ...int) []c34ReadPlan {
		var out []c34ReadPlan
		for _, s := range sizes {
			out = append(out, c34ReadPlan{s})
		}
		return out
	}
	alt17 := c34ReadPlan{1, 7, 1, 7, 1, 7, 1, 7, 1 << 18}
	tinyPlans := plansOf(1, 2, 3, 4, 5, 7, 8, 1<<18)
	mediumPlans := append(plansOf(7, 995, 996, 1000, 4096, 1<<18), alt17)
	fullPlans := append(plansOf(1, 2, 3, 4, 5, 6, 7, 8, 994, 995, 996, 1000, 4096, 65515, 65516, 65519, 65520, 65521, 1<<18), alt17, c34ReadPlan{3, 1000, 3, 1000, 3, 1 << 18})
	bigPlans := plansOf(1000, 4096, 65515, 65516, 65519, 65520, 65521, 1<<18)
	lite1000 := append(plansOf(1<<18, 7, 996), alt17)
	lite64 := plansOf(1<<18, 65515)
	if c.Thorough() {
		lite64 = append(plansOf(1<<18, 4096, 65515), c34ReadPlan{7, 65520})
	}
	var jobs []sbJob
	var keep func(sc []c34SbWrite) bool // optional filter on the enumerated scripts
	mk := func(part string, t sideband.Type, ops []c34SbWrite, minLen, maxLen int, flushes []bool, chunks string, plans []c34ReadPlan, cutPlans bool) {
		for _, s := range fw.Seqs(len(ops), maxLen) {
			if len(s) < minLen {
				continue
			}
			var script []c34SbWrite
			for _, a := range s {
				script = append(script, ops[a])
			}
			if keep != nil && !keep(script) {
				continue
			}
			isCheap := strings.HasPrefix(part, "sb-small") || part == "sb-1000" || part == "sb-1000x3" || part == "sb-foreign" || strings.HasPrefix(part, "sb-error")
			for _, fl := range flushes {
				if isCheap == cheap {
					jobs = append(jobs, sbJob{part, t, script, fl, chunks, plans, cutPlans})
				}
			}
		}
	}
	P, G, E := sideband.PackData, sideband.ProgressMessage, sideband.ErrorMessage
	both := []bool{true, false}
	hasRaw := func(sc []c34SbWrite) bool {
		for _, w := range sc {
			if w.raw {
				return true
			}
		}
		return false
	}
	hasErr := func(sc []c34SbWrite) bool {
		for _, w := range sc {
			if w.ch == E {
				return true
			}
		}
		return false
	}
	smallOps := []c34SbWrite{{ch: P, n: 1}, {ch: P, n: 2}, {ch: P, n: 3}, {ch: G, n: 1}, {ch: G, n: 2}}
	// packets framed by another implementation: empty pack-data packets (git's
	// keep-alive "0005\x01"), empty progress packets, packets below the maximum
	foreignOps := []c34SbWrite{{ch: P, n: 0, raw: true}, {ch: G, n: 0, raw: true}, {ch: P, n: 2, raw: true}, {ch: P, n: 1}, {ch: G, n: 1}}
	// the error channel: everything multiplexed before it is delivered, then a
	// non-EOF error that carries the message
	errOps := []c34SbWrite{{ch: P, n: 1}, {ch: P, n: 2}, {ch: G, n: 1}, {ch: E, n: 1}, {ch: E, n: 3}}
	for _, t := range []sideband.Type{sideband.Sideband, sideband.Sideband64k} {
		mk("sb-small", t, smallOps, 1, 2, both, "all2e", tinyPlans, true)
		mk("sb-small3", t, smallOps, 3, 3, both, "all1e", tinyPlans, true)
		keep = hasRaw
		mk("sb-foreign", t, foreignOps, 1, 2, both, "all2e", tinyPlans, true)
		mk("sb-foreign", t, foreignOps, 3, 3, []bool{true}, "all1e", tinyPlans, true)
		keep = hasErr
		mk("sb-error", t, errOps, 1, 2, both, "all2e", tinyPlans, true)
		mk("sb-error", t, errOps, 3, 3, []bool{true}, "all1e", tinyPlans, true)
		keep = nil
	}
	keep = hasErr
	mk("sb-error-1000", sideband.Sideband, []c34SbWrite{{ch: P, n: 996}, {ch: G, n: 996}, {ch: E, n: 1}, {ch: E, n: 995}, {ch: E, n: 996}}, 1, 2, []bool{true}, "near", mediumPlans, false)
	keep = nil
	ops1000 := []c34SbWrite{{ch: P, n: 1}, {ch: P, n: 2}, {ch: P, n: 995}, {ch: P, n: 996}, {ch: G, n: 1}, {ch: G, n: 2}, {ch: G, n: 995}, {ch: G, n: 996}}
	mk("sb-1000-allsplits", sideband.Sideband, ops1000, 1, 2, both, "all1", lite1000, false)
	mk("sb-1000", sideband.Sideband, ops1000, 1, 2, both, "near", fullPlans, false)
	mk("sb-1000x3", sideband.Sideband, []c34SbWrite{{ch: P, n: 1}, {ch: P, n: 996}, {ch: P, n: 1991}, {ch: G, n: 1}, {ch: G, n: 996}}, 3, 3, both, "near", mediumPlans, false)
	mk("sb-64k", sideband.Sideband64k, []c34SbWrite{{ch: P, n: 1}, {ch: P, n: 65515}, {ch: P, n: 65516}, {ch: G, n: 1}, {ch: G, n: 65515}, {ch: G, n: 65516}}, 1, 2, both, "near", bigPlans, false)
	if c.Thorough() {
		mk("sb-64k-allsplits", sideband.Sideband64k, []c34SbWrite{{ch: P, n: 65515}, {ch: P, n: 65516}}, 1, 1, both, "all1", lite64, false)
		mk("sb-64k-allsplits2", sideband.Sideband64k, []c34SbWrite{{ch: P, n: 1}, {ch: P, n: 65516}, {ch: G, n: 3}, {ch: G, n: 65516}}, 2, 2, []bool{true}, "all1", lite64, false)
	} else {
		mk("sb-64k-allsplits", sideband.Sideband64k, []c34SbWrite{{ch: P, n: 65516}}, 1, 1, []bool{true}, "all1", lite64, false)
	}
	c.Bound(fmt.Sprintf("sideband_jobs_cheap_%v", cheap), len(jobs))
	c.Bound("sideband_read_sizes", "small packets: 1..8, 994..996, 1000, 4096, 65515, 65516, 65519..65521, 256KiB, alternating 1/7 and 3/1000, and for the smallest scripts every (k1), (k1,k2) prefix of read sizes up to the pack length; 64k packets: 1000, 4096, 65515, 65516, 65519..65521, 256KiB (read sizes below 1000 are not combined with 64k packets: Demuxer.doRead re-clones the pending remainder on every Read, i.e. quadratic cost)")
	maxima := []int{1, 2, 3, 4, 5, 6, 7, 8, 999, 1000, 1001, 4095, 4096, 65519, 65520, 65521}

	for ji := range jobs {
		if c.Expired() {
			c.Incomplete("internal deadline reached in sideband jobs")
			break
		}
		j := jobs[ji]
		if ji > 0 && jobs[ji-1].part != j.part {
			mark(jobs[ji-1].part)
		}
		var buf bytes.Buffer
		m := sideband.NewMuxer(j.t, &buf)
		var wantPack, wantProg, wantErr []byte
		var werr error
		errSeen := false
		nErr := 0
		for _, w := range j.script {
			var data []byte
			wn := -1
			switch w.ch {
			case P:
				data = c34SbFill(P, w.n, len(wantPack))
				if !errSeen {
					wantPack = append(wantPack, data...)
				}
			case G:
				data = c34SbFill(G, w.n, len(wantProg))
				if !errSeen {
					wantProg = append(wantProg, data...)
				}
			default:
				data = c34SbFill(E, w.n, nErr)
				nErr += w.n
				if !errSeen {
					// the message of the first error packet (a long message is split by the Muxer)
					wantErr = data
					if mx := map[sideband.Type]int{sideband.Sideband: sideband.MaxPackedSize, sideband.Sideband64k: sideband.MaxPackedSize64k}[j.t] - 5; len(wantErr) > mx {
						wantErr = wantErr[:mx]
					}
				}
				errSeen = true
			}
			switch {
			case w.raw:
				fmt.Fprintf(&buf, "%04x%c", len(data)+5, byte(w.ch))
				buf.Write(data)
			case w.ch == P:
				wn, werr = m.Write(data)
			default:
				wn, werr = m.WriteChannel(w.ch, data)
			}
			if werr == nil && !w.raw && wn != len(data) {
				werr = fmt.Errorf("returns count %d for %d bytes", wn, len(data))
			}
			if werr != nil {
				break
			}
		}
		if werr != nil {
			werr := werr
			env.fails.add("sideband/muxer/write-error", [3]int{ji, 0, 0}, func() (string, string, any) {
				return fmt.Sprintf("sideband muxer: %s: write fails: %v", c34SbScriptString(j.t, j.script, j.flush), werr),
					"Muxer cannot write well-formed channel data", nil
			})
			continue
		}
		if j.flush {
			c.Must(pktline.WriteFlush(&buf), "flush")
		}
		stream := append([]byte{}, buf.Bytes()...)
		// packet starts (parsed from the stream we just wrote: 4 hex digits each)
		var starts []int
		maxPkt := sideband.MaxPackedSize64k
		if j.t == sideband.Sideband {
			maxPkt = sideband.MaxPackedSize
		}
		for off := 0; off < len(stream); {
			starts = append(starts, off)
			var l int
			fmt.Sscanf(string(stream[off:off+4]), "%04x", &l)
			if l > maxPkt {
				env.fails.add("sideband/muxer/oversize", [3]int{ji, 0, 0}, func() (string, string, any) {
					return fmt.Sprintf("sideband muxer: %s emits a %d-byte packet", c34SbScriptString(j.t, j.script, j.flush), l),
						"Muxer wrote a packet larger than the side-band maximum", nil
				})
			}
			if l < 4 {
				l = 4
			}
			off += l
		}
		var ks []dChunking
		switch j.chunks {
		case "all2e":
			ks = dChunkingsSmall(len(stream), true, maxima[:8], true)
		case "all1e":
			ks = dChunkingsSmall(len(stream), false, maxima[:8], true)
		case "all1":
			ks = dChunkingsSmall(len(stream), false, maxima, false)
		default:
			ks = []dChunking{{}}
			var bs []int
			for _, s := range starts {
				bs = append(bs, s, s+4, s+5)
			}
			for _, p := range dNear(len(stream), 3, bs...) {
				ks = append(ks, dChunking{cuts: []int{p}})
			}
			for _, s := range maxima {
				if len(stream) > 10000 && s > 1 && s < 999 && s != 7 {
					continue // 64k packets: per-read maxima 1, 7, 999.. only
				}
				ks = append(ks, dChunking{max: s})
			}
			ks = append(ks, dChunking{max: 7, eofData: true}, dChunking{max: 4096, eofData: true})
		}
		plans := j.plans
		if j.cutPlans {
			plans = append([]c34ReadPlan{}, plans...)
			T := len(wantPack)
			for k1 := 1; k1 <= T; k1++ {
				plans = append(plans, c34ReadPlan{k1, 1 << 18})
				for k2 := 1; k1+k2 <= T; k2++ {
					plans = append(plans, c34ReadPlan{k1, k2, 1 << 18})
				}
			}
		}
		descr := c34SbScriptString(j.t, j.script, j.flush)
		if ji%211 == 3 {
			c.Sample(map[string]any{"part": j.part, "script": descr, "stream": dShort(stream), "chunkings": len(ks), "read_plans": len(plans)})
		}
		shape := ""
		for _, w := range j.script {
			shape += fmt.Sprintf("%d", w.ch)
			if w.n > 990 {
				shape += "L"
			}
			if w.raw {
				shape += fmt.Sprintf("r%d", min(w.n, 1))
			}
		}
		const blk = 16
		c.ParDo((len(ks)+blk-1)/blk, 0, func(b int) {
			n := 0
			bp := c34BigPool.Get().(*[]byte)
			defer c34BigPool.Put(bp)
			for ki := b * blk; ki < (b+1)*blk && ki < len(ks); ki++ {
				k := ks[ki]
				cc := c34ChunkClass(k, starts)
				for pi, plan := range plans {
					for _, withProg := range []bool{true, false} {
						if !withProg && pi%4 != 0 {
							continue
						}
						n++
						gotPack, gotProg, rerr, reuse := c34Demux(j.t, newChunkReader(stream, k), plan, withProg, len(wantPack)+len(wantProg)+len(stream)+16, *bp, ki == 0)
						env.cls.add(c, j.part+"|"+shape+"|"+cc+fmt.Sprintf("|plan%d|%v", plan[0], withProg))
						bad := ""
						switch {
						case errSeen && (rerr == nil || rerr == io.EOF || !strings.Contains(rerr.Error(), string(wantErr))):
							bad = fmt.Sprintf("ends with %v instead of an error carrying the error-channel message %s", rerr, dShort(wantErr))
						case !errSeen && rerr != io.EOF:
							bad = fmt.Sprintf("ends with %v instead of io.EOF", rerr)
						case !bytes.Equal(gotPack, wantPack):
							bad = fmt.Sprintf("pack bytes differ (got %d bytes %s, want %d bytes %s)", len(gotPack), dShort(gotPack), len(wantPack), dShort(wantPack))
						case withProg && !bytes.Equal(gotProg, wantProg):
							bad = fmt.Sprintf("progress bytes differ (got %d bytes %s, want %d bytes %s)", len(gotProg), dShort(gotProg), len(wantProg), dShort(wantProg))
						}
						if bad == "" {
							// after the expected end (io.EOF, or the error that follows every
							// pack byte written before it) nothing can be pending
							reuse()
						} else {
							kind := strings.Fields(bad)[0]
							env.fails.add("sideband/demux/"+kind, [3]int{ji, ki, pi}, func() (string, string, any) {
								return fmt.Sprintf("sideband %s: %s; stream %s; reads %v progress=%v: %s", j.part, descr, k, []int(plan), withProg, bad),
									"sideband demultiplexing does not reproduce the multiplexed bytes", map[string]any{
										"script": descr, "stream": dShort(stream), "chunking": k.String(), "read_sizes": []int(plan), "progress_writer": withProg}
							})
						}
					}
				}
			}
			c.Evals(n)
		})
	}
	mark(jobs[len(jobs)-1].part)
}

// c34Demux runs one demultiplexing. Demuxers (64 KiB scanner inside) are
// reused over a swappable reader, but only after a run that ended cleanly with
// io.EOF (no pending bytes can be left then); fresh selects a new Demuxer.
func c34Demux(t sideband.Type, r io.Reader, plan c34ReadPlan, withProg bool, limit int, scratch []byte, fresh bool) (pack, prog []byte, err error, reuse func()) {
	iters := 0
	reuse = func() {}
	var d *sideband.Demuxer
	if fresh {
		d = sideband.NewDemuxer(t, r)
	} else {
		pd := c34DemuxPools[t].Get().(*c34PooledDemux)
		pd.sw.r = r
		d = pd.d
		reuse = func() { c34DemuxPools[t].Put(pd) }
	}
	var pb bytes.Buffer
	d.Progress = nil
	if withProg {
		d.Progress = &pb
	}
	var big []byte
	for {
		k := plan[len(plan)-1]
		if iters < len(plan) {
			k = plan[iters]
		}
		var b []byte
		if k <= len(scratch) {
			b = scratch[:k]
		} else {
			if big == nil {
				big = make([]byte, k)
			}
			b = big[:k]
		}
		iters++
		n, e := d.Read(b)
		pack = append(pack, b[:n]...)
		if e != nil {
			return pack, pb.Bytes(), e, reuse
		}
		if iters > limit || len(pack) > limit {
			return pack, pb.Bytes(), errors.New("no end of stream within the step budget"), reuse
		}
	}
}

package checks

import (
	"bytes"
	"errors"
	"fmt"
	"io"
	"os"
	"runtime"
	"sort"
	"strings"
	"sync/atomic"
	"time"

	git "github.com/go-git/go-git/v6"
	"github.com/go-git/go-git/v6/plumbing"
	"github.com/go-git/go-git/v6/plumbing/cache"
	"github.com/go-git/go-git/v6/plumbing/format/packfile"
	"github.com/go-git/go-git/v6/storage/filesystem"
	"github.com/go-git/go-git/v6/storage/memory"
	"github.com/go-git/go-git/v6/x/fdpool"
	"github.com/go-git/go-git/v6/x/verif/vsched"

	"verifmc/fw"
	"verifmc/mcfs"
)

func init() {
	fw.Register(&fw.Check{ID: "C23", Level: "model_checking", Run: runC23, QuickBudget: 100, ThoroughBudget: 1200})
}

type c23Op struct {
	kind string // get has prefix ref index
	obj  string // packed loose new absent
}

func (o c23Op) String() string {
	if o.obj != "" {
		return o.kind + "(" + o.obj + ")"
	}
	return o.kind
}

type c23Event struct {
	op        c23Op
	call, ret int64
	res       string
}

func runC23(c *fw.Ctx) { c23Run(c, "") }

// c23Run runs the concurrent-read harnesses; with only != "" just the harnesses whose writer is `only`
// (C18 reuses the same-instance pack-writer harnesses: visibility after a successful write under interleaving).
func c23Run(c *fw.Ctx, only string) {
	maxPre := c.Pick(1, 2)
	c.Bound("max_preemptions", maxPre)
	if only == "" {
		c.SetRule("one filesystem.Storage instance (git-built repository: one pack + loose objects, on mcfs) shared by 2-3 reader threads of 1-2 operations from {EncodedObject(packed|loose|absent) with full content read, HasEncodedObject, HashesWithPrefix, Reference, Index}, x pool {default, cap 1} x {lazy, in-memory idx}; optionally a writer thread {SetEncodedObject(new loose) or RepackObjects on a SECOND instance of the same repository; a pack write (PackfileWriter) on the SAME instance, racing with the instance's first index load}; every interleaving at shimmed sync/atomic/singleflight/errgroup operations and filesystem calls within the preemption bound; oracle per execution: every read returns exactly the bytes git stored, or ErrObjectNotFound only for an object that was absent at some instant of the read's call/return interval (a not-found after the write that stored it had returned is a violation); no other error; no deadlock; distinct = (harness, configuration, outcome signature)")
		c.Assume("cooperative scheduler: data races on plain memory are not observable here (a separate free-running -race pass would be needed and is not part of the verdict); processes are modelled as storage instances sharing mcfs")
	}
	n, err := mcfs.Conformance(c.Scratch(), 2)
	c.Must(err, "mcfs/osfs conformance")
	c.TracesValidated(n)

	// repository: commits packed, one loose blob
	g, dir := c.InitRepo("c23", "", false)
	ids := g.BuildHistory([]fw.CommitSpec{
		{Time: 1700000000, Files: map[string]fw.FileSpec{"a": {Data: strings.Repeat("line a\n", 40)}}},
		{Parents: []int{0}, Time: 1700000100, Files: map[string]fw.FileSpec{"a": {Data: strings.Repeat("line a\n", 40) + "more\n"}}},
	}, false)
	g.MustRun("update-ref", "refs/heads/main", ids[1])
	g.MustRun("reset", "-q", "--hard")
	g.C("pack.writeReverseIndex=true").MustRun("repack", "-a", "-d", "-q") // with a .rev file: pack, idx and rev are three members of the descriptor pool
	looseID := g.MustRunIn([]byte("loose content\n"), "hash-object", "-w", "--stdin").S()
	store := map[string]fw.ObjInfo{}
	for _, o := range g.CatFileAll() {
		store[o.ID] = o
	}
	packedID := g.MustRun("rev-parse", ids[1]+":a").S()
	newContent := []byte("written concurrently\n")
	newID := g.MustRunIn(newContent, "hash-object", "--stdin").S()
	store[newID] = fw.ObjInfo{ID: newID, Type: "blob", Size: len(newContent), Data: newContent}
	absentID := "00000000000000000000000000000000000000bb"
	var newPack []byte
	{
		ms := memory.NewStorage()
		o := ms.NewEncodedObject()
		o.SetType(plumbing.BlobObject)
		wr, _ := o.Writer()
		wr.Write(newContent)
		wr.Close()
		h, _ := ms.SetEncodedObject(o)
		var buf bytes.Buffer
		if _, err := packfile.NewEncoder(&buf, ms, false).Encode([]plumbing.Hash{h}, 10); err != nil {
			fw.Abort("encode pack: %v", err)
		}
		newPack = buf.Bytes()
	}
	oldID := g.MustRun("rev-parse", ids[0]+":a").S() // the other version of the file: one of the two is stored as a delta
	idOf := map[string]string{"packed": packedID, "old": oldID, "loose": looseID, "new": newID, "absent": absentID, "commit": ids[1]}
	base := mcfs.NewWorld()
	c.Must(base.Import(dir+"/.git", "/wt/.git"), "import")
	base.RemoveSetup("/wt/.git/hooks")

	type harness struct {
		readers [][]c23Op
		writer  string // "", "loose", "repack", "pack(same instance)", "pack(second instance)"
		c18     bool   // also part of C18's interleaved variant (visibility of the written object)
	}
	get := func(o string) c23Op { return c23Op{"get", o} }
	hs := []harness{
		{readers: [][]c23Op{{get("packed")}, {get("packed")}}},
		{readers: [][]c23Op{{get("packed")}, {get("loose")}}},
		{readers: [][]c23Op{{get("commit"), get("packed")}, {{"has", "packed"}, {"prefix", "packed"}}}},
		{readers: [][]c23Op{{get("packed")}, {{"ref", ""}, {"index", ""}}}},
		{readers: [][]c23Op{{get("packed")}, {get("commit")}, {{"has", "loose"}}}},
		{readers: [][]c23Op{{get("absent")}, {get("packed")}}},
		{readers: [][]c23Op{{get("new")}, {{"has", "new"}}}, writer: "loose"},
		{readers: [][]c23Op{{get("packed")}, {get("loose")}}, writer: "loose"},
		{readers: [][]c23Op{{{"has", "packed"}}}, writer: "pack(same instance)", c18: true},
		{readers: [][]c23Op{{{"has", "new"}}, {get("loose")}}, writer: "pack(same instance)", c18: true},
		// a reader in the middle of a packed read while the instance opens a pack writer (which drops
		// the instance's cached pack handles), re-indexes, or soft-closes its descriptors
		{readers: [][]c23Op{{get("packed")}}, writer: "pack(same instance)"},
		{readers: [][]c23Op{{get("packed")}, {{"reindex", ""}}}},
		{readers: [][]c23Op{{get("packed")}, {{"closeidle", ""}}}},
		{readers: [][]c23Op{{get("old")}, {{"size", "packed"}}}},
		{readers: [][]c23Op{{{"size", "old"}, {"has", "new"}}}, writer: "pack(same instance)", c18: true},
		{readers: [][]c23Op{{get("packed")}, {{"has", "new"}}}, writer: "pack(second instance)"},
		{readers: [][]c23Op{{get("packed")}}, writer: "repack"},
		{readers: [][]c23Op{{get("loose"), get("packed")}}, writer: "repack"},
	}
	type config struct {
		name string
		opts func() filesystem.Options
	}
	cfgs := []config{
		{"default(lazy idx, default pool)", func() filesystem.Options { return filesystem.Options{} }},
		{"in-memory idx", func() filesystem.Options { return filesystem.Options{UseInMemoryIdx: true} }},
		{"pool cap 1", func() filesystem.Options { return filesystem.Options{Pool: fdpool.New(1)} }},
	}
	type job struct {
		h   harness
		cfg config
	}
	if only != "" {
		cfgs = cfgs[:2] // reused by another property's check: two configurations suffice there
	}
	var jobs []job
	for _, h := range hs {
		if only != "" && (h.writer != only || !h.c18) {
			continue
		}
		for _, cf := range cfgs {
			jobs = append(jobs, job{h, cf})
		}
	}
	if f := os.Getenv("VERIF_C23_FILTER"); f != "" { // development aid: only the harnesses whose writer/readers contain f
		var keep []job
		for _, j := range jobs {
			if strings.Contains(fmt.Sprint(j.h.readers)+" writer="+j.h.writer, f) {
				keep = append(keep, j)
			}
		}
		jobs = keep
	}
	c.Bound("harnesses_x_configs", len(jobs))
	budget := time.Duration(c.Pick(80, 1100)) * time.Second
	if only != "" {
		budget = time.Duration(c.Pick(45, 300)) * time.Second
	}
	deadline := time.Now().Add(budget)
	// every harness gets a fair share of the budget (1.5x over-subscribed: most finish early), so that a
	// slow machine cuts the tails of all explorations rather than dropping the harnesses that start last
	slice := budget * time.Duration(runtime.NumCPU()) * 3 / 2 / time.Duration(len(jobs)+1)
	if slice < 10*time.Second {
		slice = 10 * time.Second
	}
	var totalExec, totalPoints atomic.Int64
	c.ParDo(len(jobs), 0, func(ji int) {
		j := jobs[ji]
		var names []string
		for _, p := range j.h.readers {
			var s []string
			for _, o := range p {
				s = append(s, o.String())
			}
			names = append(names, strings.Join(s, ";"))
		}
		hname := fmt.Sprintf("readers=[%s] writer=%s cfg=%s", strings.Join(names, " | "), j.h.writer, j.cfg.name)
		outcomes := map[string]bool{}
		body := func(x *vsched.Exec) func(*vsched.Exec) string {
			w := base.Clone()
			w.SetHook(schedHook)
			var clock atomic.Int64
			st := filesystem.NewStorageWithOptions(w.View("/wt/.git", "reader"), cache.NewObjectLRUDefault(), j.cfg.opts())
			events := make([][]c23Event, len(j.h.readers))
			var writeReturned atomic.Int64 // clock value when the writer's operation returned (0 = not yet)
			var writeCalled atomic.Int64
			var writerErr error
			for ti, prog := range j.h.readers {
				ti, prog := ti, prog
				x.Go(fmt.Sprintf("r%d", ti), func() any {
					for _, op := range prog {
						ev := c23Event{op: op, call: clock.Add(1)}
						ev.res = c23Do(st, op, idOf, store)
						ev.ret = clock.Add(1)
						events[ti] = append(events[ti], ev)
					}
					return nil
				})
			}
			if j.h.writer != "" {
				st2 := filesystem.NewStorageWithOptions(w.View("/wt/.git", "writer"), cache.NewObjectLRUDefault(), filesystem.Options{})
				if j.h.writer == "pack(same instance)" {
					st2 = st // the writer shares the readers' instance: its first index load may race with the pack's publication
				}
				x.Go("writer", func() any {
					writeCalled.Store(clock.Add(1))
					switch j.h.writer {
					case "loose":
						o := st2.NewEncodedObject()
						o.SetType(plumbing.BlobObject)
						wr, _ := o.Writer()
						wr.Write(newContent)
						wr.Close()
						_, writerErr = st2.SetEncodedObject(o)
					case "pack(same instance)":
						// one atomic step: the pack writer talks to a goroutine of its own through atomics,
						// so the number of scheduling points inside it depends on real timing
						vsched.Yield("pack write on the shared instance")
						vsched.Atomic(func() {
							pw, err := st2.PackfileWriter()
							if err == nil {
								_, err = pw.Write(newPack)
								if cerr := pw.Close(); err == nil {
									err = cerr
								}
							}
							writerErr = err
						})
					case "pack(second instance)":
						vsched.Yield("pack write by another instance")
						vsched.Atomic(func() {
							pw, err := st2.PackfileWriter()
							if err == nil {
								_, err = pw.Write(newPack)
								if cerr := pw.Close(); err == nil {
									err = cerr
								}
							}
							writerErr = err
						})
					case "repack":
						// one atomic step: the order of filesystem calls inside RepackObjects depends on
						// Go map iteration (objects are packed in map order), which the explorer cannot own
						vsched.Yield("repack by another instance")
						vsched.Atomic(func() {
							r, err := git.Open(st2, nil)
							if err != nil {
								writerErr = err
							} else {
								writerErr = r.RepackObjects(&git.RepackConfig{})
							}
						})
					}
					writeReturned.Store(clock.Add(1))
					return nil
				})
			}
			return func(x *vsched.Exec) string {
				for _, t := range x.Threads() {
					if t.Panic != "" {
						return "panic: " + strings.SplitN(t.Panic, "\n", 2)[0]
					}
				}
				if x.Deadlock {
					return "deadlock"
				}
				if writerErr != nil {
					return "writer failed: " + normErr(writerErr)
				}
				if j.h.writer == "pack(same instance)" || j.h.writer == "loose" {
					w.SetHook(nil)
					inst := st
					if r := c23Do(inst, c23Op{"has", "new"}, idOf, store); j.h.writer == "pack(same instance)" && r != "ok" {
						return "after the pack write returned, has(new) on the same instance answers " + r
					}
					if r := c23Do(inst, c23Op{"get", "packed"}, idOf, store); r != "ok" {
						return "after all operations returned, get(packed) on the readers' instance answers " + r
					}
				}
				var sig []string
				verdict := ""
				for ti, evs := range events {
					for _, e := range evs {
						sig = append(sig, fmt.Sprintf("r%d:%s=%s", ti, e.op, e.res))
						if verdict != "" {
							continue
						}
						switch {
						case e.res == "ok":
						case e.res == "not-found":
							switch e.op.obj {
							case "absent":
							case "new":
								// acceptable unless the write had returned before this read was called
								if wr := writeReturned.Load(); (j.h.writer == "loose" || j.h.writer == "pack(same instance)") && wr != 0 && wr < e.call {
									// (a pack added by ANOTHER instance is not looked for again once this instance has
									// loaded its pack list: the listed no-rescan limitation, D11; that harness checks
									// that reads of the objects that were there before stay correct)
									verdict = fmt.Sprintf("%s reports not-found although the write that stored the object had already returned", e.op)
								}
							default:
								verdict = fmt.Sprintf("%s reports not-found for an object that is present throughout", e.op)
							}
						default:
							if strings.Contains(e.res, "file already closed") || (j.h.writer == "pack(same instance)" && strings.Contains(e.res, "failed to reset and read header")) {
								// one defect, many places where the closed descriptor is noticed
								verdict = "a read of an object that is present throughout fails: file already closed"
							} else {
								verdict = fmt.Sprintf("%s fails: %s", e.op, e.res)
							}
						}
					}
				}
				sort.Strings(sig)
				outcomes[strings.Join(sig, " ")] = true
				return verdict
			}
		}
		jd := time.Now().Add(slice)
		if jd.After(deadline) {
			jd = deadline
		}
		st := vsched.Explore(vsched.Config{MaxPreemptions: maxPre, Deadline: jd, Horizon: 50000}, body, func(f vsched.Failure) bool {
			k := f.What
			k = reHashPath.ReplaceAllString(k, "<h>")
			wr := "no writer"
			if j.h.writer != "" {
				wr = "concurrent " + j.h.writer + " writer on a second instance"
			}
			c.Fail(fmt.Sprintf("%s | %s", wr, k), hname+": "+f.What, map[string]any{"harness": hname, "choices": f.Choices, "log": f.Log})
			return true
		}, func(msg string) { c.EngineError("%s: %s", hname, msg) })
		totalExec.Add(int64(st.Executions))
		totalPoints.Add(int64(st.Points))
		if !st.Complete {
			c.Incomplete("deadline inside " + hname)
		}
		c.Evals(st.Executions)
		for o := range outcomes {
			c.Class(hname + "|" + o)
		}
		c.Sample(map[string]any{"harness": hname, "schedules": st.Executions, "max_points": st.MaxPoints, "distinct_outcomes": len(outcomes)})
	})
	c.States(int(totalExec.Load()))
	c.Transitions(int(totalPoints.Load()))
	c.Extra("schedules", totalExec.Load())
}

func c23Do(st *filesystem.Storage, op c23Op, idOf map[string]string, store map[string]fw.ObjInfo) string {
	errs := func(err error) string {
		if errors.Is(err, plumbing.ErrObjectNotFound) {
			return "not-found"
		}
		return "error(" + normErr(err) + ")"
	}
	switch op.kind {
	case "get":
		id := idOf[op.obj]
		o, err := st.EncodedObject(plumbing.AnyObject, plumbing.NewHash(id))
		if err != nil {
			return errs(err)
		}
		r, err := o.Reader()
		if err != nil {
			return errs(err)
		}
		b, err := io.ReadAll(r)
		r.Close()
		if err != nil {
			return errs(err)
		}
		want := store[id]
		if o.Type().String() != want.Type || !bytes.Equal(b, want.Data) {
			return fmt.Sprintf("error(wrong content: %d bytes of type %s, stored %d bytes of type %s)", len(b), o.Type(), len(want.Data), want.Type)
		}
		return "ok"
	case "has":
		if err := st.HasEncodedObject(plumbing.NewHash(idOf[op.obj])); err != nil {
			return errs(err)
		}
		return "ok"
	case "size":
		id := idOf[op.obj]
		n, err := st.EncodedObjectSize(plumbing.NewHash(id))
		if err != nil {
			return errs(err)
		}
		if int(n) != store[id].Size {
			return fmt.Sprintf("error(wrong size %d, stored %d)", n, store[id].Size)
		}
		return "ok"
	case "reindex":
		if err := st.Reindex(); err != nil {
			return errs(err)
		}
		return "ok"
	case "closeidle":
		if err := st.CloseIdleDescriptors(); err != nil {
			return errs(err)
		}
		return "ok"
	case "prefix":
		h := plumbing.NewHash(idOf[op.obj])
		hs, err := st.HashesWithPrefix(h.Bytes()[:2])
		if err != nil {
			return errs(err)
		}
		for _, x := range hs {
			if x == h {
				return "ok"
			}
		}
		return "not-found"
	case "ref":
		r, err := st.Reference("refs/heads/main")
		if err != nil {
			return errs(err)
		}
		if r.Hash().String() != idOf["commit"] {
			return "error(wrong reference value)"
		}
		return "ok"
	case "index":
		idx, err := st.Index()
		if err != nil {
			return errs(err)
		}
		if len(idx.Entries) != 1 || idx.Entries[0].Name != "a" {
			return "error(wrong index content)"
		}
		return "ok"
	}
	return "error(bad op)"
}

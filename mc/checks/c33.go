package checks

// C33 — linked worktrees created by go-git (x/plumbing/worktree) are isolated
// and recognised by git.
//
// Space: every operation sequence up to depth d over main + two linked
// worktrees w1, w2: Add(wi), AddDetached(wi), Remove(wi), Open(wi) and, in each
// of main/w1/w2, Commit, Checkout (detached at c0) and hard Reset (to c0). Each
// sequence is replayed from scratch on real directories (the package writes
// absolute gitdir paths and git has to read the result).
//
// Oracle: a per-worktree reference model (HEAD, files; shared branch refs).
// After every step (in-process, by reading the directories): (1) isolation —
// the (HEAD file, index bytes, working files) triple of every worktree other
// than the operated one is byte-identical; (2) the model's HEAD / files / branch
// refs / administrative-directory existence equal the real ones. At the end of
// a sequence `git worktree list --porcelain` must list exactly the model's
// worktrees with their HEAD and branch, and `git status --porcelain -b` must
// work and be clean in every usable worktree (evaluated once per distinct
// (model state, administrative files, last writer per worktree) class). The
// model itself is replayed against real git (`git worktree add`, commit,
// checkout --detach, reset --hard, worktree remove) at a smaller depth.
//
// Shared-reference operations (added by the hole analysis, notes/C33-holes.md):
// PackRefs and DeleteTag of the shared tag t0 run in main and in a linked
// worktree (references are shared: what one worktree packs or deletes must be
// packed / gone for git and for every other worktree, and nothing else may
// disappear), Add at an explicit commit (WithCommit). The sequences are run
// under several configurations of the directory layout and of the entry point:
// scratch root with white space in its path, bare main repository, linked
// worktrees opened through git.PlainOpen(<worktree directory>) (which parses the
// `.git` file and `commondir` itself) instead of xworktree.Open.

import (
	"crypto/sha256"
	"fmt"
	"os"
	"path/filepath"
	"sort"
	"strings"
	"sync"
	"time"

	"github.com/go-git/go-billy/v6/osfs"
	git "github.com/go-git/go-git/v6"
	"github.com/go-git/go-git/v6/plumbing"
	"github.com/go-git/go-git/v6/plumbing/cache"
	"github.com/go-git/go-git/v6/plumbing/object"
	"github.com/go-git/go-git/v6/storage/filesystem"
	xworktree "github.com/go-git/go-git/v6/x/plumbing/worktree"

	"verifmc/fw"
)

func init() {
	fw.Register(&fw.Check{ID: "C33", Level: "model_checking", Run: runC33, QuickBudget: 150, ThoroughBudget: 1400})
}

type i33Op struct {
	Kind string // add | addd | remove | open | commit | checkout | reset
	W    string // main | w1 | w2
}

func (o i33Op) String() string { return o.Kind + "@" + o.W }

var i33Alphabet = func() []i33Op {
	var a []i33Op
	for _, w := range []string{"w1", "w2"} {
		a = append(a, i33Op{"add", w}, i33Op{"addd", w}, i33Op{"remove", w}, i33Op{"open", w})
	}
	for _, w := range []string{"main", "w1", "w2"} {
		a = append(a, i33Op{"commit", w}, i33Op{"checkout", w}, i33Op{"reset", w})
	}
	return a
}()

// i33AlphabetFull = the base alphabet + operations on the shared references
// (run in main and in ONE linked worktree: w1 and w2 differ by name only) and
// Add at an explicit commit.
var i33AlphabetFull = func() []i33Op {
	a := append([]i33Op{}, i33Alphabet...)
	a = append(a, i33Op{"addc", "w1"})
	for _, w := range []string{"main", "w1"} {
		a = append(a, i33Op{"packrefs", w}, i33Op{"rmtag", w})
	}
	return a
}()

// i33Cfg is one configuration of the directory layout / entry point.
type i33Cfg struct {
	Name  string
	Space bool // the scratch root (so the main repository and every worktree) has white space in its path
	Bare  bool // the main repository is bare
	Plain bool // linked worktrees are opened with git.PlainOpen(<dir>) instead of xworktree.Open
}

// Directory names of the "space" configurations: white space (single, double,
// tab) and other legal but unusual bytes (#, quotes, non-ASCII, a leading dash)
// inside the path of the main repository and of every worktree. Written to and
// parsed back from `<worktree>/.git` ("gitdir: <path>") and
// `.git/worktrees/<name>/gitdir`.
const (
	i33OddDir1 = "my projects"
	i33OddDir2 = "-r 1  #'\"\té x"
)

// i33Lay locates the directories of one replay.
type i33Lay struct {
	root string
	bare bool
}

func (l i33Lay) mainDir() string { return filepath.Join(l.root, "main") }
func (l i33Lay) mainGit() string {
	if l.bare {
		return l.mainDir()
	}
	return filepath.Join(l.mainDir(), ".git")
}
func (l i33Lay) dir(w string) string { return filepath.Join(l.root, w) }
func (l i33Lay) gitDir(w string) string {
	if w == "main" {
		return l.mainGit()
	}
	return filepath.Join(l.mainGit(), "worktrees", w)
}

// ---------------------------------------------------------------------------
// model

type i33WT struct {
	Exists bool // administrative directory present (main: always)
	Ever   bool // the directory exists on disk
	Broken bool // own state not modelled any more (failed / unmodelled operation)
	Head   string
	Files  map[string]string
	LastOp string
}

type i33Model struct {
	WT    map[string]*i33WT
	Refs  map[string]string // refs/heads/* and refs/tags/*
	Trees map[string]map[string]string
	C0    string
	Bare  bool
	// Pinned: branches that existed when an Add of their name failed. Whatever
	// else such a half-made worktree leaves behind, the branch that was there
	// before must still be there with its value.
	Pinned map[string]bool
}

func (m *i33Model) pin(ref string) {
	if m.Pinned == nil {
		m.Pinned = map[string]bool{}
	}
	m.Pinned[ref] = true
}

func (m *i33Model) headCommit(w string) string {
	h := m.WT[w].Head
	if strings.HasPrefix(h, "ref: ") {
		return m.Refs[strings.TrimPrefix(h, "ref: ")]
	}
	return h
}

func (m *i33Model) usable(w string) bool {
	t := m.WT[w]
	return t.Exists && !t.Broken
}

func i33CopyFiles(f map[string]string) map[string]string {
	o := map[string]string{}
	for k, v := range f {
		o[k] = v
	}
	return o
}

func (m *i33Model) key() string {
	var b strings.Builder
	for _, w := range []string{"main", "w1", "w2"} {
		t := m.WT[w]
		fmt.Fprintf(&b, "%s:%v/%v/%v/%s/%s{", w, t.Exists, t.Ever, t.Broken, t.Head, t.LastOp)
		for _, k := range iSortedKeys(t.Files) {
			fmt.Fprintf(&b, "%s=%q,", k, t.Files[k])
		}
		b.WriteString("} ")
	}
	for _, k := range iSortedKeys(m.Refs) {
		fmt.Fprintf(&b, "%s=%s ", k, m.Refs[k])
	}
	return b.String()
}

// expectation of one step
type i33Expect struct {
	Enabled bool   // false: the sequence is not well-formed (operation in a worktree that never existed)
	MustErr bool   // the operation has to be refused
	MustOK  bool   // the operation has to succeed
	Target  string // worktree whose triple may change
}

// pre computes the expectation before the step.
func (m *i33Model) pre(op i33Op) i33Expect {
	t := m.WT[op.W]
	e := i33Expect{Enabled: true, Target: op.W}
	if m.Bare && op.W == "main" && (op.Kind == "commit" || op.Kind == "checkout" || op.Kind == "reset") {
		return i33Expect{} // a bare main repository has no worktree to operate in
	}
	switch op.Kind {
	case "add", "addd", "addc":
		switch {
		case t.Exists:
			e.MustErr = true
		case t.Ever:
			// re-adding over a directory left behind by Remove: outcome not modelled
		case op.Kind != "addd" && m.Refs["refs/heads/"+op.W] != "":
			e.MustErr = true // branch of that name exists
		default:
			e.MustOK = true
		}
	case "remove":
		switch {
		case t.Broken:
			// a half-created / unmodelled worktree may or may not have an administrative directory
		case !t.Exists:
			e.MustErr = true
		default:
			e.MustOK = true
		}
	case "open":
		if !t.Ever {
			e.Enabled = false
		} else if m.usable(op.W) {
			e.MustOK = true
		}
	case "rmtag":
		if !t.Ever {
			e.Enabled = false
		} else if m.usable(op.W) {
			if m.Refs["refs/tags/t0"] == "" {
				e.MustErr = true
			} else {
				e.MustOK = true
			}
		}
	default:
		if !t.Ever {
			e.Enabled = false
		} else if m.usable(op.W) {
			e.MustOK = true
		}
	}
	return e
}

// post applies the step to the model. ok = the real operation succeeded;
// newCommit = commit id returned by a successful commit.
func (m *i33Model) post(op i33Op, e i33Expect, ok bool, newCommit, content string) {
	t := m.WT[op.W]
	switch op.Kind {
	case "add", "addd", "addc":
		if e.MustErr {
			if t.Exists {
				return // refused, nothing may change
			}
			// refused because the branch exists: go-git has created parts of the
			// worktree before failing; its own state is not modelled
			t.Broken, t.Ever = true, true
			t.LastOp = "add-failed"
			if op.Kind != "addd" && m.Refs["refs/heads/"+op.W] != "" {
				m.pin("refs/heads/" + op.W)
			}
			return
		}
		if !e.MustOK || !ok {
			t.Broken, t.Ever = true, true
			t.LastOp = "add-unmodelled"
			if !ok && op.Kind != "addd" && m.Refs["refs/heads/"+op.W] != "" {
				m.pin("refs/heads/" + op.W)
			}
			return
		}
		base := m.headCommit("main")
		if op.Kind == "addc" {
			base = m.C0
		}
		t.Exists, t.Ever, t.Broken = true, true, false
		if op.Kind != "addd" {
			m.Refs["refs/heads/"+op.W] = base
			t.Head = "ref: refs/heads/" + op.W
		} else {
			t.Head = base
		}
		t.Files = i33CopyFiles(m.Trees[base])
		t.LastOp = "add"
	case "remove":
		if e.MustOK && ok {
			t.Exists = false
			t.Head = ""
			t.LastOp = "remove"
		} else if e.MustOK {
			t.Broken = true
		} else if t.Broken {
			t.LastOp = "remove-unmodelled"
		}
	case "open":
	case "packrefs", "rmtag":
		// shared references only: no worktree's own state is touched (LastOp
		// stays: neither writes an index). A refused rmtag changes nothing.
		if e.MustErr {
			return
		}
		if !e.MustOK {
			t.Broken = true
			t.LastOp = op.Kind + "-unmodelled"
			return
		}
		if !ok {
			t.Broken = true
			t.LastOp = op.Kind + "-failed"
			return
		}
		if op.Kind == "rmtag" {
			delete(m.Refs, "refs/tags/t0")
		}
	case "commit", "checkout", "reset":
		if !e.MustOK {
			t.Broken = true // operation in a removed / broken worktree: own state unmodelled
			t.LastOp = op.Kind + "-unmodelled"
			return
		}
		if !ok {
			t.Broken = true
			t.LastOp = op.Kind + "-failed"
			return
		}
		t.LastOp = op.Kind
		switch op.Kind {
		case "commit":
			files := i33CopyFiles(t.Files)
			files["g"] = content
			m.Trees[newCommit] = files
			t.Files = i33CopyFiles(files)
			if strings.HasPrefix(t.Head, "ref: ") {
				m.Refs[strings.TrimPrefix(t.Head, "ref: ")] = newCommit
			} else {
				t.Head = newCommit
			}
		case "checkout":
			t.Head = m.C0
			t.Files = i33CopyFiles(m.Trees[m.C0])
		case "reset":
			if strings.HasPrefix(t.Head, "ref: ") {
				m.Refs[strings.TrimPrefix(t.Head, "ref: ")] = m.C0
			} else {
				t.Head = m.C0
			}
			t.Files = i33CopyFiles(m.Trees[m.C0])
		}
	}
}

// ---------------------------------------------------------------------------
// real side

type i33Snap struct {
	Admin bool
	Head  string
	Index string
	Files map[string]string
	Dir   bool
}

func i33Snapshot(lay i33Lay, w string) i33Snap {
	s := i33Snap{Files: map[string]string{}}
	gd := lay.gitDir(w)
	if fi, err := os.Stat(gd); err == nil && fi.IsDir() {
		s.Admin = true
	}
	if b, err := os.ReadFile(filepath.Join(gd, "HEAD")); err == nil {
		s.Head = strings.TrimSpace(string(b))
	}
	if b, err := os.ReadFile(filepath.Join(gd, "index")); err == nil {
		h := sha256.Sum256(b)
		s.Index = fmt.Sprintf("%x", h[:8])
	}
	dir := lay.dir(w)
	if lay.bare && w == "main" {
		return s // the directory is the repository itself: no working files
	}
	if fi, err := os.Stat(dir); err == nil && fi.IsDir() {
		s.Dir = true
		filepath.Walk(dir, func(p string, fi os.FileInfo, err error) error {
			if err != nil {
				return nil
			}
			rel, _ := filepath.Rel(dir, p)
			if rel == ".git" {
				if fi.IsDir() {
					return filepath.SkipDir
				}
				return nil
			}
			if !fi.IsDir() {
				b, _ := os.ReadFile(p)
				s.Files[rel] = string(b)
			}
			return nil
		})
	}
	return s
}

func i33SnapDiff(a, b i33Snap) string {
	var d []string
	if a.Head != b.Head {
		d = append(d, fmt.Sprintf("HEAD %q -> %q", a.Head, b.Head))
	}
	if a.Index != b.Index {
		d = append(d, "index changed")
	}
	names := map[string]bool{}
	for k := range a.Files {
		names[k] = true
	}
	for k := range b.Files {
		names[k] = true
	}
	for _, k := range iSortedKeys(names) {
		if a.Files[k] != b.Files[k] {
			d = append(d, "file "+k+" changed")
		}
	}
	return strings.Join(d, ", ")
}

var i33When = time.Unix(1700000000, 0).UTC()

type i33Result struct {
	err     error
	commit  string
	parents string // for commit: the parents recorded in the new commit, space separated
	head    string // for open: resolved HEAD
}

// i33Apply executes one operation with go-git on the directories under root.
func i33Apply(lay i33Lay, cfg i33Cfg, op i33Op, c0 string, content string) (res i33Result) {
	defer func() {
		if p := recover(); p != nil {
			res.err = fmt.Errorf("PANIC: %v", p)
		}
	}()
	root := lay.root
	mainGit := lay.mainGit()
	openMgr := func() (*xworktree.Worktree, *filesystem.Storage, error) {
		st := filesystem.NewStorage(osfs.New(mainGit, osfs.WithBoundOS()), cache.NewObjectLRUDefault())
		m, err := xworktree.New(st)
		return m, st, err
	}
	switch op.Kind {
	case "add", "addd", "addc":
		m, st, err := openMgr()
		if err != nil {
			return i33Result{err: err}
		}
		defer st.Close()
		var opts []xworktree.Option
		if op.Kind == "addd" {
			opts = append(opts, xworktree.WithDetachedHead())
		}
		if op.Kind == "addc" {
			opts = append(opts, xworktree.WithCommit(plumbing.NewHash(c0)))
		}
		return i33Result{err: m.Add(osfs.New(filepath.Join(root, op.W), osfs.WithBoundOS()), op.W, opts...)}
	case "remove":
		m, st, err := openMgr()
		if err != nil {
			return i33Result{err: err}
		}
		defer st.Close()
		return i33Result{err: m.Remove(op.W)}
	}
	var repo *git.Repository
	if op.W == "main" || cfg.Plain {
		// main, or the second entry point for a linked worktree: PlainOpen reads
		// the `.git` file and `commondir` of the worktree directory itself
		r, err := git.PlainOpen(lay.dir(op.W))
		if err != nil {
			return i33Result{err: err}
		}
		repo = r
	} else {
		m, st, err := openMgr()
		if err != nil {
			return i33Result{err: err}
		}
		defer st.Close()
		r, err := m.Open(osfs.New(filepath.Join(root, op.W), osfs.WithBoundOS()))
		if err != nil {
			return i33Result{err: err}
		}
		repo = r
	}
	defer repo.Close()
	if op.Kind == "open" {
		h, err := repo.Head()
		if err != nil {
			return i33Result{err: err}
		}
		return i33Result{head: h.Hash().String()}
	}
	switch op.Kind {
	case "packrefs":
		return i33Result{err: repo.Storer.PackRefs()}
	case "rmtag":
		return i33Result{err: repo.DeleteTag("t0")}
	}
	wt, err := repo.Worktree()
	if err != nil {
		return i33Result{err: err}
	}
	switch op.Kind {
	case "commit":
		if err := os.WriteFile(filepath.Join(root, op.W, "g"), []byte(content), 0o644); err != nil {
			return i33Result{err: err}
		}
		if _, err := wt.Add("g"); err != nil {
			return i33Result{err: err}
		}
		sig := &object.Signature{Name: "V", Email: "v@example.com", When: i33When}
		h, err := wt.Commit("step\n", &git.CommitOptions{Author: sig, Committer: sig})
		if err != nil {
			return i33Result{err: err}
		}
		res := i33Result{commit: h.String()}
		if co, err := repo.CommitObject(h); err == nil {
			var ps []string
			for _, p := range co.ParentHashes {
				ps = append(ps, p.String())
			}
			res.parents = strings.Join(ps, " ")
		} else {
			res.parents = "unreadable: " + err.Error()
		}
		return res
	case "checkout":
		return i33Result{err: wt.Checkout(&git.CheckoutOptions{Hash: plumbing.NewHash(c0)})}
	case "reset":
		return i33Result{err: wt.Reset(&git.ResetOptions{Mode: git.HardReset, Commit: plumbing.NewHash(c0)})}
	}
	return i33Result{err: fmt.Errorf("unknown op")}
}

// i33ApplyGit executes the same operation with real git (conformance of the model).
func i33ApplyGit(home string, lay i33Lay, op i33Op, c0, content string) (res i33Result) {
	g := func(dir string, args ...string) iRes { return iGit(home, dir, i36GitConf, args...) }
	mainDir := lay.mainDir()
	wdir := lay.dir(op.W)
	errOf := func(r iRes) error {
		if r.Code != 0 {
			return fmt.Errorf("exit %d: %s", r.Code, strings.TrimSpace(r.Err))
		}
		return nil
	}
	switch op.Kind {
	case "add":
		return i33Result{err: errOf(g(mainDir, "worktree", "add", "-q", wdir))}
	case "addd":
		return i33Result{err: errOf(g(mainDir, "worktree", "add", "-q", "--detach", wdir))}
	case "addc":
		return i33Result{err: errOf(g(mainDir, "worktree", "add", "-q", "-b", op.W, wdir, c0))}
	case "packrefs":
		return i33Result{err: errOf(g(wdir, "pack-refs", "--all"))}
	case "rmtag":
		return i33Result{err: errOf(g(wdir, "tag", "-d", "t0"))}
	case "remove":
		// go-git's Remove deletes the administrative directory only: same with git
		// is `rm -rf .git/worktrees/<name>`; use the porcelain when it applies
		if _, err := os.Stat(lay.gitDir(op.W)); err != nil {
			return i33Result{err: fmt.Errorf("not a worktree")}
		}
		return i33Result{err: os.RemoveAll(lay.gitDir(op.W))}
	case "open":
		r := g(wdir, "rev-parse", "HEAD")
		return i33Result{err: errOf(r), head: strings.TrimSpace(r.Out)}
	case "commit":
		if err := os.WriteFile(filepath.Join(wdir, "g"), []byte(content), 0o644); err != nil {
			return i33Result{err: err}
		}
		if r := g(wdir, "add", "g"); r.Code != 0 {
			return i33Result{err: errOf(r)}
		}
		if r := g(wdir, "commit", "-q", "-m", "step"); r.Code != 0 {
			return i33Result{err: errOf(r)}
		}
		r := g(wdir, "rev-parse", "HEAD")
		pr := g(wdir, "log", "-1", "--format=%P", "HEAD")
		return i33Result{err: errOf(r), commit: strings.TrimSpace(r.Out), parents: strings.TrimSpace(pr.Out)}
	case "checkout":
		return i33Result{err: errOf(g(wdir, "checkout", "-q", "--detach", c0))}
	case "reset":
		return i33Result{err: errOf(g(wdir, "reset", "-q", "--hard", c0))}
	}
	return i33Result{err: fmt.Errorf("unknown op")}
}

type i33Run struct {
	c     *fw.Ctx
	home  string
	tmpl  string // template with a non-bare main repository
	tmplB string // template with a bare main repository
	c0    string
	c1    string
	mu    sync.Mutex
	fails []i36Fail
	seen  map[string]bool // git-oracle classes already evaluated
	mkeys map[string]bool
	info  map[string]int
	cut   bool
}

func (r *i33Run) fail(order int, key, what string, rep map[string]any) {
	r.mu.Lock()
	r.fails = append(r.fails, i36Fail{order, key, what, rep})
	r.mu.Unlock()
}

func (r *i33Run) newModel(bare bool) *i33Model {
	m := &i33Model{WT: map[string]*i33WT{}, Refs: map[string]string{"refs/heads/main": r.c1, "refs/heads/other": r.c0, "refs/tags/t0": r.c0}, Trees: map[string]map[string]string{}, C0: r.c0, Bare: bare}
	m.Trees[r.c0] = map[string]string{"f0": "0\n"}
	m.Trees[r.c1] = map[string]string{"f0": "0\n", "f1": "1\n"}
	m.WT["main"] = &i33WT{Exists: true, Ever: true, Head: "ref: refs/heads/main", Files: i33CopyFiles(m.Trees[r.c1]), LastOp: "init"}
	if bare {
		m.WT["main"].Files = map[string]string{}
	}
	m.WT["w1"] = &i33WT{Files: map[string]string{}}
	m.WT["w2"] = &i33WT{Files: map[string]string{}}
	return m
}

func i33SeqString(seq []i33Op) string {
	var s []string
	for _, o := range seq {
		s = append(s, o.String())
	}
	return strings.Join(s, " ")
}

// compare the model with the real directories; returns "" when equal.
func (r *i33Run) compare(lay i33Lay, m *i33Model) string {
	var bad []string
	for _, w := range []string{"main", "w1", "w2"} {
		t := m.WT[w]
		s := i33Snapshot(lay, w)
		if t.Broken {
			continue
		}
		if s.Admin != t.Exists {
			bad = append(bad, fmt.Sprintf("%s: administrative directory present=%v, model %v", w, s.Admin, t.Exists))
			continue
		}
		if !t.Exists {
			continue
		}
		if s.Head != t.Head {
			bad = append(bad, fmt.Sprintf("%s: HEAD %q, model %q", w, s.Head, t.Head))
		}
		names := map[string]bool{}
		for k := range s.Files {
			names[k] = true
		}
		for k := range t.Files {
			names[k] = true
		}
		for _, k := range iSortedKeys(names) {
			if s.Files[k] != t.Files[k] {
				bad = append(bad, fmt.Sprintf("%s: file %s is %q, model %q", w, k, s.Files[k], t.Files[k]))
			}
		}
	}
	st, err := iReadState("", lay.mainGit())
	if err != nil {
		bad = append(bad, "shared refs unreadable: "+err.Error())
	} else {
		names := map[string]bool{}
		for k := range st.Refs {
			if strings.HasPrefix(k, "refs/heads/") || strings.HasPrefix(k, "refs/tags/") {
				names[k] = true
			}
		}
		for k := range m.Refs {
			names[k] = true
		}
		anyBroken := false
		for _, t := range m.WT {
			if t.Broken {
				anyBroken = true
			}
		}
		for _, k := range iSortedKeys(names) {
			if st.Refs[k] != m.Refs[k] && (!anyBroken || m.Pinned[k]) {
				bad = append(bad, fmt.Sprintf("shared ref %s is %s, model %s", k, i36Short(st.Refs[k]), i36Short(m.Refs[k])))
			}
		}
	}
	// the shared reference store is the common directory's: a packed-refs file
	// inside a linked worktree's administrative directory is read by nobody
	for _, w := range []string{"w1", "w2"} {
		if _, err := os.Lstat(filepath.Join(lay.gitDir(w), "packed-refs")); err == nil {
			bad = append(bad, fmt.Sprintf("packed-refs written into the administrative directory of %s", w))
		}
	}
	return strings.Join(bad, "; ")
}

// gitOracle: `git worktree list --porcelain` and `git status` agree with the model.
func (r *i33Run) gitOracle(lay i33Lay, m *i33Model) string {
	var bad []string
	root := lay.root
	res := iGit(r.home, lay.mainDir(), i36GitConf, "worktree", "list", "--porcelain")
	if res.Code != 0 {
		return "git worktree list failed: " + strings.TrimSpace(res.Err)
	}
	type ent struct{ head, branch string }
	listed := map[string]ent{}
	var cur string
	for _, l := range strings.Split(res.Out, "\n") {
		f := strings.SplitN(l, " ", 2)
		switch f[0] {
		case "worktree":
			cur = filepath.Base(f[1])
			listed[cur] = ent{}
		case "HEAD":
			e := listed[cur]
			e.head = f[1]
			listed[cur] = e
		case "branch":
			e := listed[cur]
			e.branch = "ref: " + f[1]
			listed[cur] = e
		case "detached", "bare":
			e := listed[cur]
			e.branch = f[0]
			listed[cur] = e
		}
	}
	for _, w := range []string{"main", "w1", "w2"} {
		t := m.WT[w]
		if t.Broken {
			continue
		}
		e, ok := listed[w]
		if ok != t.Exists {
			bad = append(bad, fmt.Sprintf("git worktree list: %s listed=%v, model %v", w, ok, t.Exists))
			continue
		}
		if !t.Exists {
			continue
		}
		if lay.bare && w == "main" {
			if e.branch != "bare" {
				bad = append(bad, fmt.Sprintf("git worktree list: the bare main repository is listed as %q %s", e.branch, i36Short(e.head)))
			}
			continue
		}
		wantBranch := "detached"
		if strings.HasPrefix(t.Head, "ref: ") {
			wantBranch = t.Head
		}
		if e.head != m.headCommit(w) || e.branch != wantBranch {
			bad = append(bad, fmt.Sprintf("git worktree list: %s HEAD %s %s, model %s %s", w, i36Short(e.head), e.branch, i36Short(m.headCommit(w)), wantBranch))
		}
		s := iGit(r.home, filepath.Join(root, w), i36GitConf, "status", "--porcelain=v1", "-b")
		if s.Code != 0 {
			bad = append(bad, fmt.Sprintf("git status in %s fails: %s", w, i36FirstLine(strings.TrimSpace(s.Err))))
			continue
		}
		lines := strings.Split(strings.TrimRight(s.Out, "\n"), "\n")
		wantHdr := "## HEAD (no branch)"
		if strings.HasPrefix(t.Head, "ref: refs/heads/") {
			wantHdr = "## " + strings.TrimPrefix(t.Head, "ref: refs/heads/")
		}
		if lines[0] != wantHdr {
			bad = append(bad, fmt.Sprintf("git status in %s: %q, model %q", w, lines[0], wantHdr))
		}
		if len(lines) > 1 {
			bad = append(bad, fmt.Sprintf("git status in %s not clean: %s", w, strings.Join(lines[1:], " | ")))
		}
	}
	return strings.Join(bad, "; ")
}

// adminKey hashes the administrative files of the linked worktrees with the
// scratch root replaced, so equal layouts at different roots compare equal.
func i33AdminKey(lay i33Lay) string {
	h := sha256.New()
	root := lay.root
	base := filepath.Join(lay.mainGit(), "worktrees")
	filepath.Walk(base, func(p string, fi os.FileInfo, err error) error {
		if err != nil || fi.IsDir() {
			return nil
		}
		rel, _ := filepath.Rel(base, p)
		if filepath.Base(p) == "index" {
			return nil
		}
		b, _ := os.ReadFile(p)
		fmt.Fprintf(h, "%s\x00%s\x00", rel, strings.ReplaceAll(string(b), root, "<root>"))
		return nil
	})
	for _, w := range []string{"w1", "w2"} {
		b, _ := os.ReadFile(filepath.Join(root, w, ".git"))
		fmt.Fprintf(h, "%s/.git\x00%s\x00", w, strings.ReplaceAll(string(b), root, "<root>"))
	}
	// which shared references are loose / packed (git reads both stores)
	filepath.Walk(filepath.Join(lay.mainGit(), "refs"), func(p string, fi os.FileInfo, err error) error {
		if err == nil && !fi.IsDir() {
			rel, _ := filepath.Rel(lay.mainGit(), p)
			fmt.Fprintf(h, "loose %s\x00", rel)
		}
		return nil
	})
	if b, err := os.ReadFile(filepath.Join(lay.mainGit(), "packed-refs")); err == nil {
		for _, l := range strings.Split(string(b), "\n") {
			if f := strings.Fields(l); len(f) == 2 && l[0] != '#' {
				fmt.Fprintf(h, "packed %s\x00", f[1])
			}
		}
	}
	return fmt.Sprintf("%x", h.Sum(nil)[:8])
}

func runC33(c *fw.Ctx) {
	depth := c.Pick(3, 4)
	confDepth := c.Pick(2, 2)
	c.Bound("depth", depth)
	c.Bound("conformance_depth", confDepth)
	names := func(al []i33Op) []string {
		var o []string
		for _, x := range al {
			o = append(o, x.String())
		}
		return o
	}
	c.Bound("alphabet", names(i33Alphabet))
	c.Bound("alphabet_full", names(i33AlphabetFull))

	// passes: (configuration, alphabet, depth). The plain configuration carries
	// the deep enumeration; every other side of a layout / entry-point variant
	// gets the whole full alphabet at one level less.
	type pass struct {
		cfg   i33Cfg
		alpha []i33Op
		depth int
		conf  int // depth of the conformance replay with real git (0: none)
	}
	plain := i33Cfg{Name: "plain"}
	others := []i33Cfg{
		{Name: "space", Space: true},
		{Name: "space+plainopen", Space: true, Plain: true},
		{Name: "space+bare", Space: true, Bare: true},
		{Name: "bare+plainopen", Bare: true, Plain: true},
	}
	var passes []pass
	for _, k := range others {
		cd := 0
		if k.Name == "space+bare" {
			cd = confDepth // real git in a bare main repository below a path with white space
		}
		passes = append(passes, pass{k, i33AlphabetFull, depth - 1, cd})
	}
	passes = append(passes, pass{plain, i33AlphabetFull, 3, confDepth})
	if c.Thorough() {
		passes = append(passes, pass{plain, i33Alphabet, depth, 0})
	}
	var pdesc []string
	for _, p := range passes {
		pdesc = append(pdesc, fmt.Sprintf("%s: %d operations, depth %d, git conformance depth %d", p.cfg.Name, len(p.alpha), p.depth, p.conf))
	}
	c.Bound("passes", pdesc)
	c.Bound("path_of_space_configurations", "<scratch>/"+i33OddDir1+"/"+i33OddDir2+"/{main,w1,w2}")
	c.SetRule("every sequence over the alphabet up to the pass's depth (sequences that operate in a worktree directory that never existed, or in the worktree of a bare main repository, are not well-formed and skipped), in each configuration (plain; scratch path with white space; bare main repository; linked worktrees opened through git.PlainOpen instead of xworktree.Open); replayed from scratch on real directories; after every step isolation of the untouched worktrees (HEAD file, index bytes, files), equality with the per-worktree model incl. the shared refs/heads and refs/tags (loose or packed) read from the common directory, parents of new commits; at the end git worktree list / git status per distinct (configuration, model state, administrative files, loose/packed layout, last writer) class; non-trivial = a step changed a worktree or the shared references; a class is the configuration + canonical model state reached")
	c.Assume("git 2.39.5 worktree list/status are the reference; go-git's Remove deletes only the administrative directory (documented), so the directory stays; re-adding over such a directory and operating in a removed worktree are executed but their own outcome is not modelled (isolation of the other worktrees is still required); w1 and w2 differ by name only, so the shared-reference operations are enumerated in main and w1")

	r := &i33Run{c: c, home: filepath.Join(c.Scratch(), "home"), seen: map[string]bool{}, mkeys: map[string]bool{}, info: map[string]int{}}
	os.MkdirAll(r.home, 0o755)
	// template: main with c0 <- c1, branch other and tag t0 at c0
	troot := c.TempDir("c33tmpl")
	g := fw.NewGit("", r.home).C(i36GitConf...)
	mainDir := filepath.Join(troot, "main")
	g.MustRun("init", "-q", "-b", "main", mainDir)
	gm := g.In(mainDir)
	c.Must(os.WriteFile(filepath.Join(mainDir, "f0"), []byte("0\n"), 0o644), "write f0")
	gm.MustRun("add", "f0")
	gm.MustRun("commit", "-q", "-m", "c0")
	r.c0 = gm.MustRun("rev-parse", "HEAD").S()
	gm.MustRun("branch", "other")
	gm.MustRun("tag", "t0")
	c.Must(os.WriteFile(filepath.Join(mainDir, "f1"), []byte("1\n"), 0o644), "write f1")
	gm.MustRun("add", "f1")
	gm.MustRun("commit", "-q", "-m", "c1")
	r.c1 = gm.MustRun("rev-parse", "HEAD").S()
	gm.MustRun("config", "user.name", "V")
	gm.MustRun("config", "user.email", "v@example.com")
	r.tmpl = troot
	// bare twin: same objects, the references loose as in the non-bare template
	broot := c.TempDir("c33tmplb")
	bdir := filepath.Join(broot, "main")
	g.MustRun("init", "-q", "--bare", "-b", "main", bdir)
	gb := g.In(bdir)
	gb.MustRun("fetch", "-q", mainDir, "refs/heads/*:refs/heads/*", "refs/tags/*:refs/tags/*")
	gb.MustRun("config", "user.name", "V")
	gb.MustRun("config", "user.email", "v@example.com")
	r.tmplB = broot

	only := os.Getenv("C33_ONLY")
	onlyCfg := os.Getenv("C33_CFG")

	run := func(ps pass, seqIdx []int, si int, withGit bool) {
		cfg := ps.cfg
		var seq []i33Op
		for _, x := range seqIdx {
			seq = append(seq, ps.alpha[x])
		}
		if only != "" && !strings.HasPrefix(i33SeqString(seq), only) {
			return
		}
		// well-formedness on the model alone (cheap): skip without touching the disk
		{
			m := r.newModel(cfg.Bare)
			for i, op := range seq {
				e := m.pre(op)
				if !e.Enabled {
					return
				}
				// advance a shadow of the model assuming expected outcomes
				m.post(op, e, e.MustOK, fmt.Sprintf("shadow%d", i), "")
			}
		}
		top := c.TempDir("c33")
		defer os.RemoveAll(top)
		lay := i33Lay{root: filepath.Join(top, "r"), bare: cfg.Bare}
		if cfg.Space {
			lay.root = filepath.Join(top, i33OddDir1, i33OddDir2)
		}
		tmpl := r.tmpl
		if cfg.Bare {
			tmpl = r.tmplB
		}
		c.Must(os.MkdirAll(lay.root, 0o755), "make root")
		c.Must(iCopyDir(tmpl, lay.root), "copy template")
		m := r.newModel(cfg.Bare)
		for i, op := range seq {
			e := m.pre(op)
			if !e.Enabled {
				return
			}
			before := map[string]i33Snap{}
			for _, w := range []string{"main", "w1", "w2"} {
				before[w] = i33Snapshot(lay, w)
			}
			prevHead := ""
			if op.Kind == "commit" && m.usable(op.W) {
				prevHead = m.headCommit(op.W)
			}
			// class label of the step for finding keys: the shared-reference
			// operations are told apart by where they run and by the store the tag is in
			opLabel := op.Kind
			if op.Kind == "packrefs" || op.Kind == "rmtag" {
				site := "a linked worktree"
				if op.W == "main" {
					site = "main"
				}
				opLabel += " in " + site
				if op.Kind == "rmtag" {
					if _, err := os.Lstat(filepath.Join(lay.mainGit(), "refs", "tags", "t0")); err == nil {
						opLabel += " of a loose tag"
					} else {
						opLabel += " of a packed tag"
					}
				}
			}
			content := fmt.Sprintf("%s step %d\n", op.W, i)
			var res i33Result
			if withGit {
				res = i33ApplyGit(r.home, lay, op, r.c0, content)
			} else {
				res = i33Apply(lay, cfg, op, r.c0, content)
				c.Transitions(1)
				c.Eval()
			}
			ok := res.err == nil
			prefix := cfg.Name + ": " + i33SeqString(seq[:i+1])
			rep := map[string]any{"configuration": cfg, "sequence": i33SeqString(seq[:i+1]), "step": op.String(), "error": fmt.Sprint(res.err)}
			if res.err != nil && strings.HasPrefix(res.err.Error(), "PANIC") {
				r.fail(si, "panic "+op.Kind, res.err.Error()+" :: "+prefix, rep)
				return
			}
			// isolation
			for _, w := range []string{"main", "w1", "w2"} {
				if w == e.Target {
					continue
				}
				if d := i33SnapDiff(before[w], i33Snapshot(lay, w)); d != "" {
					if withGit {
						fw.Abort("real git violates isolation?! %s: %s changed: %s", prefix, w, d)
					}
					tk := "usable"
					if !m.usable(e.Target) && op.Kind != "add" && op.Kind != "addd" && op.Kind != "addc" {
						tk = "removed-or-broken"
					}
					r.fail(si, fmt.Sprintf("isolation: %s in a %s worktree changes %s", op.Kind, tk, map[bool]string{true: "main", false: "another linked worktree"}[w == "main"]), fmt.Sprintf("%s changed by %s: %s :: %s", w, op, d, prefix), rep)
					return
				}
			}
			// packing / deleting shared references touches no worktree's own state at all
			if op.Kind == "packrefs" || op.Kind == "rmtag" {
				if d := i33SnapDiff(before[e.Target], i33Snapshot(lay, e.Target)); d != "" {
					if withGit {
						fw.Abort("real git: %s changes the worktree it runs in: %s (%s)", op, d, prefix)
					}
					r.fail(si, "isolation: "+op.Kind+" changes the HEAD/index/files of its own worktree", fmt.Sprintf("%s changed by %s: %s :: %s", e.Target, op, d, prefix), rep)
					return
				}
			}
			if e.MustErr && ok {
				if withGit {
					fw.Abort("model expects %s to be refused, real git accepts it: %s", op, prefix)
				}
				r.fail(si, "accepted: "+op.Kind+" that must be refused", fmt.Sprintf("%s succeeded although %s :: %s", op, "the worktree / its branch already exists, the worktree does not exist or the tag is gone", prefix), rep)
				return
			}
			if e.MustOK && !ok {
				if withGit {
					fw.Abort("model expects %s to succeed, real git: %v (%s)", op, res.err, prefix)
				}
				if op.Kind == "open" {
					// references and objects remain shared: HEAD of a usable worktree
					// has to stay resolvable whatever the others did to the shared store
					r.fail(si, "open: HEAD of a usable worktree cannot be resolved", fmt.Sprintf("%s: %s :: %s", op, i36ErrClass(res.err.Error()), prefix), rep)
					return
				}
				r.mu.Lock()
				r.info["failed "+op.Kind+": "+i36ErrClass(res.err.Error())]++
				r.mu.Unlock()
			}
			if op.Kind == "open" && e.MustOK && ok && res.head != m.headCommit(op.W) {
				if withGit {
					fw.Abort("model HEAD of %s is %s, real git %s (%s)", op.W, m.headCommit(op.W), res.head, prefix)
				}
				r.fail(si, "open: wrong HEAD", fmt.Sprintf("Open(%s).Head() = %s, model %s :: %s", op.W, i36Short(res.head), i36Short(m.headCommit(op.W)), prefix), rep)
				return
			}
			if op.Kind == "commit" && e.MustOK && ok && res.parents != prevHead {
				if withGit {
					fw.Abort("model parent of the commit made by %s is %s, real git %q (%s)", op, prevHead, res.parents, prefix)
				}
				r.fail(si, "commit: wrong parents", fmt.Sprintf("%s recorded the parents %q, the worktree's HEAD was %s :: %s", op, res.parents, i36Short(prevHead), prefix), rep)
				return
			}
			m.post(op, e, ok, res.commit, content)
			if withGit && (op.Kind == "add" || op.Kind == "addc") && e.MustErr {
				// real git creates the branch before it notices that the path exists
				// (go-git refuses first); follow git here, the refusal itself is what is compared
				if st, err := iReadState("", lay.mainGit()); err == nil {
					if v, ok := st.Refs["refs/heads/"+op.W]; ok {
						m.Refs["refs/heads/"+op.W] = v
					}
				}
			}
			if d := r.compare(lay, m); d != "" {
				if withGit {
					fw.Abort("model disagrees with real git after %s: %s", prefix, d)
				}
				r.fail(si, "model: "+opLabel+" "+i33DiffClass(d), d+" :: "+prefix, rep)
				return
			}
		}
		r.mu.Lock()
		mk := cfg.Name + " " + m.key()
		newState := !r.mkeys[mk]
		r.mkeys[mk] = true
		ok := mk + "|" + i33AdminKey(lay)
		doGit := !r.seen[ok]
		r.seen[ok] = true
		r.mu.Unlock()
		if withGit {
			// the oracle's reading of `git worktree list` / `git status` is validated as well
			if d := r.gitOracle(lay, m); d != "" {
				fw.Abort("git oracle disagrees with the model on a history made by real git (%s: %s): %s", cfg.Name, i33SeqString(seq), d)
			}
			c.TracesValidated(1)
			return
		}
		if newState {
			c.States(1)
			c.Class(mk)
		}
		if doGit {
			if d := r.gitOracle(lay, m); d != "" {
				r.fail(si, "git: "+i33DiffClass(d), d+" :: "+cfg.Name+": "+i33SeqString(seq), map[string]any{"configuration": cfg, "sequence": i33SeqString(seq)})
			}
			r.mu.Lock()
			r.info["git oracle evaluations"]++
			r.mu.Unlock()
		}
		if si%499 == 0 {
			c.Sample(map[string]any{"configuration": cfg.Name, "sequence": i33SeqString(seq), "model": mk})
		}
	}

	total := 0
	for pi, ps := range passes {
		if onlyCfg != "" && !strings.Contains(","+onlyCfg+",", ","+ps.cfg.Name+",") {
			continue
		}
		ps := ps
		// 1. conformance of the model against real git at a smaller depth
		if ps.conf > 0 {
			cseqs := fw.Seqs(len(ps.alpha), ps.conf)
			c.ParDo(len(cseqs), 0, func(i int) { run(ps, cseqs[i], i, true) })
			r.mu.Lock()
			r.seen, r.mkeys = map[string]bool{}, map[string]bool{}
			r.mu.Unlock()
		}
		// 2. go-git
		seqs := fw.Seqs(len(ps.alpha), ps.depth)
		total += len(seqs)
		c.ParDo(len(seqs), 0, func(i int) {
			if c.Expired() {
				r.mu.Lock()
				first := !r.cut
				r.cut = true
				r.mu.Unlock()
				if first {
					c.Incomplete("internal deadline reached; remaining sequences skipped")
				}
				return
			}
			run(ps, seqs[i], pi*1000000+i, false)
		})
	}
	c.Bound("sequences", total)
	sort.SliceStable(r.fails, func(i, j int) bool { return r.fails[i].order < r.fails[j].order })
	for _, f := range r.fails {
		c.Fail(f.key, f.what, f.rep)
	}
	c.Extra("info", r.info)
}

// i33DiffClass reduces a difference description to a stable class.
func i33DiffClass(d string) string {
	first := d
	if i := strings.Index(d, ";"); i >= 0 {
		first = d[:i]
	}
	first = i36ErrClass(first)
	for _, w := range []string{"w1", "w2"} {
		first = strings.ReplaceAll(first, w, "wN")
	}
	// drop quoted payloads
	var b strings.Builder
	inq := false
	for i := 0; i < len(first); i++ {
		if first[i] == '"' {
			inq = !inq
			continue
		}
		if !inq {
			b.WriteByte(first[i])
		}
	}
	return strings.Join(strings.Fields(b.String()), " ")
}

package checks

// C33 — linked worktrees created by go-git (x/plumbing/worktree) are isolated
// and recognised by git.
//
// Space: every operation sequence up to depth d over main + two linked
// worktrees w1, w2: Add(wi), AddDetached(wi), Remove(wi), Open(wi) and, in each
// of main/w1/w2, Commit, Checkout (detached at c0) and hard Reset (to c0). Each
// sequence is replayed from scratch on real directories (the package writes
// absolute gitdir paths and git has to read the result).
//
// Oracle: a per-worktree reference model (HEAD, files; shared branch refs).
// After every step (in-process, by reading the directories): (1) isolation —
// the (HEAD file, index bytes, working files) triple of every worktree other
// than the operated one is byte-identical; (2) the model's HEAD / files / branch
// refs / administrative-directory existence equal the real ones. At the end of
// a sequence `git worktree list --porcelain` must list exactly the model's
// worktrees with their HEAD and branch, and `git status --porcelain -b` must
// work and be clean in every usable worktree (evaluated once per distinct
// (model state, administrative files, last writer per worktree) class). The
// model itself is replayed against real git (`git worktree add`, commit,
// checkout --detach, reset --hard, worktree remove) at a smaller depth.

import (
	"crypto/sha256"
	"fmt"
	"os"
	"path/filepath"
	"sort"
	"strings"
	"sync"
	"time"

	"github.com/go-git/go-billy/v6/osfs"
	git "github.com/go-git/go-git/v6"
	"github.com/go-git/go-git/v6/plumbing"
	"github.com/go-git/go-git/v6/plumbing/cache"
	"github.com/go-git/go-git/v6/plumbing/object"
	"github.com/go-git/go-git/v6/storage/filesystem"
	xworktree "github.com/go-git/go-git/v6/x/plumbing/worktree"

	"verifmc/fw"
)

func init() {
	fw.Register(&fw.Check{ID: "C33", Level: "model_checking", Run: runC33, QuickBudget: 100, ThoroughBudget: 1400})
}

type i33Op struct {
	Kind string // add | addd | remove | open | commit | checkout | reset
	W    string // main | w1 | w2
}

func (o i33Op) String() string { return o.Kind + "@" + o.W }

var i33Alphabet = func() []i33Op {
	var a []i33Op
	for _, w := range []string{"w1", "w2"} {
		a = append(a, i33Op{"add", w}, i33Op{"addd", w}, i33Op{"remove", w}, i33Op{"open", w})
	}
	for _, w := range []string{"main", "w1", "w2"} {
		a = append(a, i33Op{"commit", w}, i33Op{"checkout", w}, i33Op{"reset", w})
	}
	return a
}()

// ---------------------------------------------------------------------------
// model

type i33WT struct {
	Exists bool // administrative directory present (main: always)
	Ever   bool // the directory exists on disk
	Broken bool // own state not modelled any more (failed / unmodelled operation)
	Head   string
	Files  map[string]string
	LastOp string
}

type i33Model struct {
	WT    map[string]*i33WT
	Refs  map[string]string // refs/heads/*
	Trees map[string]map[string]string
	C0    string
}

func (m *i33Model) headCommit(w string) string {
	h := m.WT[w].Head
	if strings.HasPrefix(h, "ref: ") {
		return m.Refs[strings.TrimPrefix(h, "ref: ")]
	}
	return h
}

func (m *i33Model) usable(w string) bool {
	t := m.WT[w]
	return t.Exists && !t.Broken
}

func i33CopyFiles(f map[string]string) map[string]string {
	o := map[string]string{}
	for k, v := range f {
		o[k] = v
	}
	return o
}

func (m *i33Model) key() string {
	var b strings.Builder
	for _, w := range []string{"main", "w1", "w2"} {
		t := m.WT[w]
		fmt.Fprintf(&b, "%s:%v/%v/%v/%s/%s{", w, t.Exists, t.Ever, t.Broken, t.Head, t.LastOp)
		for _, k := range iSortedKeys(t.Files) {
			fmt.Fprintf(&b, "%s=%q,", k, t.Files[k])
		}
		b.WriteString("} ")
	}
	for _, k := range iSortedKeys(m.Refs) {
		fmt.Fprintf(&b, "%s=%s ", k, m.Refs[k])
	}
	return b.String()
}

// expectation of one step
type i33Expect struct {
	Enabled bool   // false: the sequence is not well-formed (operation in a worktree that never existed)
	MustErr bool   // the operation has to be refused
	MustOK  bool   // the operation has to succeed
	Target  string // worktree whose triple may change
}

// pre computes the expectation before the step.
func (m *i33Model) pre(op i33Op) i33Expect {
	t := m.WT[op.W]
	e := i33Expect{Enabled: true, Target: op.W}
	switch op.Kind {
	case "add", "addd":
		switch {
		case t.Exists:
			e.MustErr = true
		case t.Ever:
			// re-adding over a directory left behind by Remove: outcome not modelled
		case op.Kind == "add" && m.Refs["refs/heads/"+op.W] != "":
			e.MustErr = true // branch of that name exists
		default:
			e.MustOK = true
		}
	case "remove":
		switch {
		case t.Broken:
			// a half-created / unmodelled worktree may or may not have an administrative directory
		case !t.Exists:
			e.MustErr = true
		default:
			e.MustOK = true
		}
	case "open":
		if !t.Ever {
			e.Enabled = false
		} else if m.usable(op.W) {
			e.MustOK = true
		}
	default:
		if !t.Ever {
			e.Enabled = false
		} else if m.usable(op.W) {
			e.MustOK = true
		}
	}
	return e
}

// post applies the step to the model. ok = the real operation succeeded;
// newCommit = commit id returned by a successful commit.
func (m *i33Model) post(op i33Op, e i33Expect, ok bool, newCommit, content string) {
	t := m.WT[op.W]
	switch op.Kind {
	case "add", "addd":
		if e.MustErr {
			if t.Exists {
				return // refused, nothing may change
			}
			// refused because the branch exists: go-git has created parts of the
			// worktree before failing; its own state is not modelled
			t.Broken, t.Ever = true, true
			t.LastOp = "add-failed"
			return
		}
		if !e.MustOK || !ok {
			t.Broken, t.Ever = true, true
			t.LastOp = "add-unmodelled"
			return
		}
		base := m.headCommit("main")
		t.Exists, t.Ever, t.Broken = true, true, false
		if op.Kind == "add" {
			m.Refs["refs/heads/"+op.W] = base
			t.Head = "ref: refs/heads/" + op.W
		} else {
			t.Head = base
		}
		t.Files = i33CopyFiles(m.Trees[base])
		t.LastOp = "add"
	case "remove":
		if e.MustOK && ok {
			t.Exists = false
			t.Head = ""
			t.LastOp = "remove"
		} else if e.MustOK {
			t.Broken = true
		} else if t.Broken {
			t.LastOp = "remove-unmodelled"
		}
	case "open":
	case "commit", "checkout", "reset":
		if !e.MustOK {
			t.Broken = true // operation in a removed / broken worktree: own state unmodelled
			t.LastOp = op.Kind + "-unmodelled"
			return
		}
		if !ok {
			t.Broken = true
			t.LastOp = op.Kind + "-failed"
			return
		}
		t.LastOp = op.Kind
		switch op.Kind {
		case "commit":
			files := i33CopyFiles(t.Files)
			files["g"] = content
			m.Trees[newCommit] = files
			t.Files = i33CopyFiles(files)
			if strings.HasPrefix(t.Head, "ref: ") {
				m.Refs[strings.TrimPrefix(t.Head, "ref: ")] = newCommit
			} else {
				t.Head = newCommit
			}
		case "checkout":
			t.Head = m.C0
			t.Files = i33CopyFiles(m.Trees[m.C0])
		case "reset":
			if strings.HasPrefix(t.Head, "ref: ") {
				m.Refs[strings.TrimPrefix(t.Head, "ref: ")] = m.C0
			} else {
				t.Head = m.C0
			}
			t.Files = i33CopyFiles(m.Trees[m.C0])
		}
	}
}

// ---------------------------------------------------------------------------
// real side

type i33Snap struct {
	Admin bool
	Head  string
	Index string
	Files map[string]string
	Dir   bool
}

func i33GitDir(root, w string) string {
	if w == "main" {
		return filepath.Join(root, "main", ".git")
	}
	return filepath.Join(root, "main", ".git", "worktrees", w)
}

func i33Snapshot(root, w string) i33Snap {
	s := i33Snap{Files: map[string]string{}}
	gd := i33GitDir(root, w)
	if fi, err := os.Stat(gd); err == nil && fi.IsDir() {
		s.Admin = true
	}
	if b, err := os.ReadFile(filepath.Join(gd, "HEAD")); err == nil {
		s.Head = strings.TrimSpace(string(b))
	}
	if b, err := os.ReadFile(filepath.Join(gd, "index")); err == nil {
		h := sha256.Sum256(b)
		s.Index = fmt.Sprintf("%x", h[:8])
	}
	dir := filepath.Join(root, w)
	if fi, err := os.Stat(dir); err == nil && fi.IsDir() {
		s.Dir = true
		filepath.Walk(dir, func(p string, fi os.FileInfo, err error) error {
			if err != nil {
				return nil
			}
			rel, _ := filepath.Rel(dir, p)
			if rel == ".git" {
				if fi.IsDir() {
					return filepath.SkipDir
				}
				return nil
			}
			if !fi.IsDir() {
				b, _ := os.ReadFile(p)
				s.Files[rel] = string(b)
			}
			return nil
		})
	}
	return s
}

func i33SnapDiff(a, b i33Snap) string {
	var d []string
	if a.Head != b.Head {
		d = append(d, fmt.Sprintf("HEAD %q -> %q", a.Head, b.Head))
	}
	if a.Index != b.Index {
		d = append(d, "index changed")
	}
	names := map[string]bool{}
	for k := range a.Files {
		names[k] = true
	}
	for k := range b.Files {
		names[k] = true
	}
	for _, k := range iSortedKeys(names) {
		if a.Files[k] != b.Files[k] {
			d = append(d, "file "+k+" changed")
		}
	}
	return strings.Join(d, ", ")
}

var i33When = time.Unix(1700000000, 0).UTC()

type i33Result struct {
	err    error
	commit string
	head   string // for open: resolved HEAD
}

// i33Apply executes one operation with go-git on the directories under root.
func i33Apply(root string, op i33Op, c0 string, content string) (res i33Result) {
	defer func() {
		if p := recover(); p != nil {
			res.err = fmt.Errorf("PANIC: %v", p)
		}
	}()
	mainGit := filepath.Join(root, "main", ".git")
	openMgr := func() (*xworktree.Worktree, *filesystem.Storage, error) {
		st := filesystem.NewStorage(osfs.New(mainGit, osfs.WithBoundOS()), cache.NewObjectLRUDefault())
		m, err := xworktree.New(st)
		return m, st, err
	}
	switch op.Kind {
	case "add", "addd":
		m, st, err := openMgr()
		if err != nil {
			return i33Result{err: err}
		}
		defer st.Close()
		var opts []xworktree.Option
		if op.Kind == "addd" {
			opts = append(opts, xworktree.WithDetachedHead())
		}
		return i33Result{err: m.Add(osfs.New(filepath.Join(root, op.W), osfs.WithBoundOS()), op.W, opts...)}
	case "remove":
		m, st, err := openMgr()
		if err != nil {
			return i33Result{err: err}
		}
		defer st.Close()
		return i33Result{err: m.Remove(op.W)}
	}
	var repo *git.Repository
	if op.W == "main" {
		r, err := git.PlainOpen(filepath.Join(root, "main"))
		if err != nil {
			return i33Result{err: err}
		}
		repo = r
	} else {
		m, st, err := openMgr()
		if err != nil {
			return i33Result{err: err}
		}
		defer st.Close()
		r, err := m.Open(osfs.New(filepath.Join(root, op.W), osfs.WithBoundOS()))
		if err != nil {
			return i33Result{err: err}
		}
		repo = r
	}
	defer repo.Close()
	if op.Kind == "open" {
		h, err := repo.Head()
		if err != nil {
			return i33Result{err: err}
		}
		return i33Result{head: h.Hash().String()}
	}
	wt, err := repo.Worktree()
	if err != nil {
		return i33Result{err: err}
	}
	switch op.Kind {
	case "commit":
		if err := os.WriteFile(filepath.Join(root, op.W, "g"), []byte(content), 0o644); err != nil {
			return i33Result{err: err}
		}
		if _, err := wt.Add("g"); err != nil {
			return i33Result{err: err}
		}
		sig := &object.Signature{Name: "V", Email: "v@example.com", When: i33When}
		h, err := wt.Commit("step\n", &git.CommitOptions{Author: sig, Committer: sig})
		if err != nil {
			return i33Result{err: err}
		}
		return i33Result{commit: h.String()}
	case "checkout":
		return i33Result{err: wt.Checkout(&git.CheckoutOptions{Hash: plumbing.NewHash(c0)})}
	case "reset":
		return i33Result{err: wt.Reset(&git.ResetOptions{Mode: git.HardReset, Commit: plumbing.NewHash(c0)})}
	}
	return i33Result{err: fmt.Errorf("unknown op")}
}

// i33ApplyGit executes the same operation with real git (conformance of the model).
func i33ApplyGit(home, root string, op i33Op, c0, content string) (res i33Result) {
	g := func(dir string, args ...string) iRes { return iGit(home, dir, i36GitConf, args...) }
	mainDir := filepath.Join(root, "main")
	wdir := filepath.Join(root, op.W)
	errOf := func(r iRes) error {
		if r.Code != 0 {
			return fmt.Errorf("exit %d: %s", r.Code, strings.TrimSpace(r.Err))
		}
		return nil
	}
	switch op.Kind {
	case "add":
		return i33Result{err: errOf(g(mainDir, "worktree", "add", "-q", wdir))}
	case "addd":
		return i33Result{err: errOf(g(mainDir, "worktree", "add", "-q", "--detach", wdir))}
	case "remove":
		// go-git's Remove deletes the administrative directory only: same with git
		// is `rm -rf .git/worktrees/<name>`; use the porcelain when it applies
		if _, err := os.Stat(i33GitDir(root, op.W)); err != nil {
			return i33Result{err: fmt.Errorf("not a worktree")}
		}
		return i33Result{err: os.RemoveAll(i33GitDir(root, op.W))}
	case "open":
		r := g(wdir, "rev-parse", "HEAD")
		return i33Result{err: errOf(r), head: strings.TrimSpace(r.Out)}
	case "commit":
		if err := os.WriteFile(filepath.Join(wdir, "g"), []byte(content), 0o644); err != nil {
			return i33Result{err: err}
		}
		if r := g(wdir, "add", "g"); r.Code != 0 {
			return i33Result{err: errOf(r)}
		}
		if r := g(wdir, "commit", "-q", "-m", "step"); r.Code != 0 {
			return i33Result{err: errOf(r)}
		}
		r := g(wdir, "rev-parse", "HEAD")
		return i33Result{err: errOf(r), commit: strings.TrimSpace(r.Out)}
	case "checkout":
		return i33Result{err: errOf(g(wdir, "checkout", "-q", "--detach", c0))}
	case "reset":
		return i33Result{err: errOf(g(wdir, "reset", "-q", "--hard", c0))}
	}
	return i33Result{err: fmt.Errorf("unknown op")}
}

type i33Run struct {
	c     *fw.Ctx
	home  string
	tmpl  string
	c0    string
	c1    string
	mu    sync.Mutex
	fails []i36Fail
	seen  map[string]bool // git-oracle classes already evaluated
	mkeys map[string]bool
	info  map[string]int
	cut   bool
}

func (r *i33Run) fail(order int, key, what string, rep map[string]any) {
	r.mu.Lock()
	r.fails = append(r.fails, i36Fail{order, key, what, rep})
	r.mu.Unlock()
}

func (r *i33Run) newModel() *i33Model {
	m := &i33Model{WT: map[string]*i33WT{}, Refs: map[string]string{"refs/heads/main": r.c1}, Trees: map[string]map[string]string{}, C0: r.c0}
	m.Trees[r.c0] = map[string]string{"f0": "0\n"}
	m.Trees[r.c1] = map[string]string{"f0": "0\n", "f1": "1\n"}
	m.WT["main"] = &i33WT{Exists: true, Ever: true, Head: "ref: refs/heads/main", Files: i33CopyFiles(m.Trees[r.c1]), LastOp: "init"}
	m.WT["w1"] = &i33WT{Files: map[string]string{}}
	m.WT["w2"] = &i33WT{Files: map[string]string{}}
	return m
}

func i33SeqString(seq []i33Op) string {
	var s []string
	for _, o := range seq {
		s = append(s, o.String())
	}
	return strings.Join(s, " ")
}

// compare the model with the real directories; returns "" when equal.
func (r *i33Run) compare(root string, m *i33Model) string {
	var bad []string
	for _, w := range []string{"main", "w1", "w2"} {
		t := m.WT[w]
		s := i33Snapshot(root, w)
		if t.Broken {
			continue
		}
		if s.Admin != t.Exists {
			bad = append(bad, fmt.Sprintf("%s: administrative directory present=%v, model %v", w, s.Admin, t.Exists))
			continue
		}
		if !t.Exists {
			continue
		}
		if s.Head != t.Head {
			bad = append(bad, fmt.Sprintf("%s: HEAD %q, model %q", w, s.Head, t.Head))
		}
		names := map[string]bool{}
		for k := range s.Files {
			names[k] = true
		}
		for k := range t.Files {
			names[k] = true
		}
		for _, k := range iSortedKeys(names) {
			if s.Files[k] != t.Files[k] {
				bad = append(bad, fmt.Sprintf("%s: file %s is %q, model %q", w, k, s.Files[k], t.Files[k]))
			}
		}
	}
	st, err := iReadState("", filepath.Join(root, "main", ".git"))
	if err != nil {
		bad = append(bad, "shared refs unreadable: "+err.Error())
	} else {
		names := map[string]bool{}
		for k := range st.Refs {
			if strings.HasPrefix(k, "refs/heads/") {
				names[k] = true
			}
		}
		for k := range m.Refs {
			names[k] = true
		}
		anyBroken := false
		for _, t := range m.WT {
			if t.Broken {
				anyBroken = true
			}
		}
		for _, k := range iSortedKeys(names) {
			if st.Refs[k] != m.Refs[k] && !anyBroken {
				bad = append(bad, fmt.Sprintf("shared ref %s is %s, model %s", k, i36Short(st.Refs[k]), i36Short(m.Refs[k])))
			}
		}
	}
	return strings.Join(bad, "; ")
}

// gitOracle: `git worktree list --porcelain` and `git status` agree with the model.
func (r *i33Run) gitOracle(root string, m *i33Model) string {
	var bad []string
	res := iGit(r.home, filepath.Join(root, "main"), i36GitConf, "worktree", "list", "--porcelain")
	if res.Code != 0 {
		return "git worktree list failed: " + strings.TrimSpace(res.Err)
	}
	type ent struct{ head, branch string }
	listed := map[string]ent{}
	var cur string
	for _, l := range strings.Split(res.Out, "\n") {
		f := strings.SplitN(l, " ", 2)
		switch f[0] {
		case "worktree":
			cur = filepath.Base(f[1])
			listed[cur] = ent{}
		case "HEAD":
			e := listed[cur]
			e.head = f[1]
			listed[cur] = e
		case "branch":
			e := listed[cur]
			e.branch = "ref: " + f[1]
			listed[cur] = e
		case "detached":
			e := listed[cur]
			e.branch = "detached"
			listed[cur] = e
		}
	}
	for _, w := range []string{"main", "w1", "w2"} {
		t := m.WT[w]
		if t.Broken {
			continue
		}
		e, ok := listed[w]
		if ok != t.Exists {
			bad = append(bad, fmt.Sprintf("git worktree list: %s listed=%v, model %v", w, ok, t.Exists))
			continue
		}
		if !t.Exists {
			continue
		}
		wantBranch := "detached"
		if strings.HasPrefix(t.Head, "ref: ") {
			wantBranch = t.Head
		}
		if e.head != m.headCommit(w) || e.branch != wantBranch {
			bad = append(bad, fmt.Sprintf("git worktree list: %s HEAD %s %s, model %s %s", w, i36Short(e.head), e.branch, i36Short(m.headCommit(w)), wantBranch))
		}
		s := iGit(r.home, filepath.Join(root, w), i36GitConf, "status", "--porcelain=v1", "-b")
		if s.Code != 0 {
			bad = append(bad, fmt.Sprintf("git status in %s fails: %s", w, i36FirstLine(strings.TrimSpace(s.Err))))
			continue
		}
		lines := strings.Split(strings.TrimRight(s.Out, "\n"), "\n")
		wantHdr := "## HEAD (no branch)"
		if strings.HasPrefix(t.Head, "ref: refs/heads/") {
			wantHdr = "## " + strings.TrimPrefix(t.Head, "ref: refs/heads/")
		}
		if lines[0] != wantHdr {
			bad = append(bad, fmt.Sprintf("git status in %s: %q, model %q", w, lines[0], wantHdr))
		}
		if len(lines) > 1 {
			bad = append(bad, fmt.Sprintf("git status in %s not clean: %s", w, strings.Join(lines[1:], " | ")))
		}
	}
	return strings.Join(bad, "; ")
}

// adminKey hashes the administrative files of the linked worktrees with the
// scratch root replaced, so equal layouts at different roots compare equal.
func i33AdminKey(root string) string {
	h := sha256.New()
	base := filepath.Join(root, "main", ".git", "worktrees")
	filepath.Walk(base, func(p string, fi os.FileInfo, err error) error {
		if err != nil || fi.IsDir() {
			return nil
		}
		rel, _ := filepath.Rel(base, p)
		if filepath.Base(p) == "index" {
			return nil
		}
		b, _ := os.ReadFile(p)
		fmt.Fprintf(h, "%s\x00%s\x00", rel, strings.ReplaceAll(string(b), root, "<root>"))
		return nil
	})
	for _, w := range []string{"w1", "w2"} {
		b, _ := os.ReadFile(filepath.Join(root, w, ".git"))
		fmt.Fprintf(h, "%s/.git\x00%s\x00", w, strings.ReplaceAll(string(b), root, "<root>"))
	}
	return fmt.Sprintf("%x", h.Sum(nil)[:8])
}

func runC33(c *fw.Ctx) {
	depth := c.Pick(3, 4)
	confDepth := c.Pick(2, 2)
	c.Bound("depth", depth)
	c.Bound("conformance_depth", confDepth)
	var alpha []string
	for _, o := range i33Alphabet {
		alpha = append(alpha, o.String())
	}
	c.Bound("alphabet", alpha)
	c.SetRule("every sequence over the 17-operation alphabet up to depth (sequences that operate in a worktree directory that never existed are not well-formed and skipped); replayed from scratch on real directories; after every step isolation of the untouched worktrees (HEAD file, index bytes, files) and equality with the per-worktree model; at the end git worktree list / git status per distinct (model state, administrative files, last writer) class; non-trivial = a step changed a worktree; a class is the canonical model state reached")
	c.Assume("git 2.39.5 worktree list/status are the reference; go-git's Remove deletes only the administrative directory (documented), so the directory stays; re-adding over such a directory and operating in a removed worktree are executed but their own outcome is not modelled (isolation of the other worktrees is still required)")

	r := &i33Run{c: c, home: filepath.Join(c.Scratch(), "home"), seen: map[string]bool{}, mkeys: map[string]bool{}, info: map[string]int{}}
	os.MkdirAll(r.home, 0o755)
	// template: main with c0 <- c1
	troot := c.TempDir("c33tmpl")
	g := fw.NewGit("", r.home).C(i36GitConf...)
	mainDir := filepath.Join(troot, "main")
	g.MustRun("init", "-q", "-b", "main", mainDir)
	gm := g.In(mainDir)
	c.Must(os.WriteFile(filepath.Join(mainDir, "f0"), []byte("0\n"), 0o644), "write f0")
	gm.MustRun("add", "f0")
	gm.MustRun("commit", "-q", "-m", "c0")
	r.c0 = gm.MustRun("rev-parse", "HEAD").S()
	c.Must(os.WriteFile(filepath.Join(mainDir, "f1"), []byte("1\n"), 0o644), "write f1")
	gm.MustRun("add", "f1")
	gm.MustRun("commit", "-q", "-m", "c1")
	r.c1 = gm.MustRun("rev-parse", "HEAD").S()
	gm.MustRun("config", "user.name", "V")
	gm.MustRun("config", "user.email", "v@example.com")
	r.tmpl = troot

	seqs := fw.Seqs(len(i33Alphabet), depth)
	c.Bound("sequences", len(seqs))
	only := os.Getenv("C33_ONLY")

	run := func(si int, withGit bool) {
		var seq []i33Op
		for _, x := range seqs[si] {
			seq = append(seq, i33Alphabet[x])
		}
		if only != "" && !strings.HasPrefix(i33SeqString(seq), only) {
			return
		}
		// well-formedness on the model alone (cheap): skip without touching the disk
		{
			m := r.newModel()
			for i, op := range seq {
				e := m.pre(op)
				if !e.Enabled {
					return
				}
				// advance a shadow of the model assuming expected outcomes
				m.post(op, e, e.MustOK, fmt.Sprintf("shadow%d", i), "")
			}
		}
		root := c.TempDir("c33")
		defer os.RemoveAll(root)
		c.Must(iCopyDir(r.tmpl, root), "copy template")
		m := r.newModel()
		for i, op := range seq {
			e := m.pre(op)
			if !e.Enabled {
				return
			}
			before := map[string]i33Snap{}
			for _, w := range []string{"main", "w1", "w2"} {
				before[w] = i33Snapshot(root, w)
			}
			content := fmt.Sprintf("%s step %d\n", op.W, i)
			var res i33Result
			if withGit {
				res = i33ApplyGit(r.home, root, op, r.c0, content)
			} else {
				res = i33Apply(root, op, r.c0, content)
				c.Transitions(1)
				c.Eval()
			}
			ok := res.err == nil
			prefix := i33SeqString(seq[:i+1])
			rep := map[string]any{"sequence": prefix, "step": op.String(), "error": fmt.Sprint(res.err)}
			if res.err != nil && strings.HasPrefix(res.err.Error(), "PANIC") {
				r.fail(si, "panic "+op.Kind, res.err.Error()+" :: "+prefix, rep)
				return
			}
			// isolation
			for _, w := range []string{"main", "w1", "w2"} {
				if w == e.Target {
					continue
				}
				if d := i33SnapDiff(before[w], i33Snapshot(root, w)); d != "" {
					if withGit {
						fw.Abort("real git violates isolation?! %s: %s changed: %s", prefix, w, d)
					}
					tk := "usable"
					if !m.usable(e.Target) && op.Kind != "add" && op.Kind != "addd" {
						tk = "removed-or-broken"
					}
					r.fail(si, fmt.Sprintf("isolation: %s in a %s worktree changes %s", op.Kind, tk, map[bool]string{true: "main", false: "another linked worktree"}[w == "main"]), fmt.Sprintf("%s changed by %s: %s :: %s", w, op, d, prefix), rep)
					return
				}
			}
			if e.MustErr && ok {
				if withGit {
					fw.Abort("model expects %s to be refused, real git accepts it: %s", op, prefix)
				}
				r.fail(si, "accepted: "+op.Kind+" that must be refused", fmt.Sprintf("%s succeeded although %s :: %s", op, "the worktree / its branch already exists or the worktree does not exist", prefix), rep)
				return
			}
			if e.MustOK && !ok {
				if withGit {
					fw.Abort("model expects %s to succeed, real git: %v (%s)", op, res.err, prefix)
				}
				r.mu.Lock()
				r.info["failed "+op.Kind+": "+i36ErrClass(res.err.Error())]++
				r.mu.Unlock()
			}
			if op.Kind == "open" && e.MustOK && ok && res.head != m.headCommit(op.W) {
				if withGit {
					fw.Abort("model HEAD of %s is %s, real git %s (%s)", op.W, m.headCommit(op.W), res.head, prefix)
				}
				r.fail(si, "open: wrong HEAD", fmt.Sprintf("Open(%s).Head() = %s, model %s :: %s", op.W, i36Short(res.head), i36Short(m.headCommit(op.W)), prefix), rep)
				return
			}
			m.post(op, e, ok, res.commit, content)
			if withGit && op.Kind == "add" && e.MustErr {
				// real git creates the branch before it notices that the path exists
				// (go-git refuses first); follow git here, the refusal itself is what is compared
				if st, err := iReadState("", filepath.Join(root, "main", ".git")); err == nil {
					if v, ok := st.Refs["refs/heads/"+op.W]; ok {
						m.Refs["refs/heads/"+op.W] = v
					}
				}
			}
			if d := r.compare(root, m); d != "" {
				if withGit {
					fw.Abort("model disagrees with real git after %s: %s", prefix, d)
				}
				r.fail(si, "model: "+op.Kind+" "+i33DiffClass(d), d+" :: "+prefix, rep)
				return
			}
		}
		r.mu.Lock()
		mk := m.key()
		newState := !r.mkeys[mk]
		r.mkeys[mk] = true
		ok := mk + "|" + i33AdminKey(root)
		doGit := !r.seen[ok]
		r.seen[ok] = true
		r.mu.Unlock()
		if withGit {
			// the oracle's reading of `git worktree list` / `git status` is validated as well
			if d := r.gitOracle(root, m); d != "" {
				fw.Abort("git oracle disagrees with the model on a history made by real git (%s): %s", i33SeqString(seq), d)
			}
			c.TracesValidated(1)
			return
		}
		if newState {
			c.States(1)
			c.Class(mk)
		}
		if doGit {
			if d := r.gitOracle(root, m); d != "" {
				r.fail(si, "git: "+i33DiffClass(d), d+" :: "+i33SeqString(seq), map[string]any{"sequence": i33SeqString(seq)})
			}
			r.mu.Lock()
			r.info["git oracle evaluations"]++
			r.mu.Unlock()
		}
		if si%499 == 0 {
			c.Sample(map[string]any{"sequence": i33SeqString(seq), "model": mk})
		}
	}

	// 1. conformance of the model against real git at a smaller depth
	nconf := fw.CountStrings(len(i33Alphabet), confDepth)
	c.ParDo(nconf, 0, func(i int) { run(i, true) })
	// 2. go-git
	r.mu.Lock()
	r.seen, r.mkeys = map[string]bool{}, map[string]bool{}
	r.mu.Unlock()
	c.ParDo(len(seqs), 0, func(i int) {
		if c.Expired() {
			r.mu.Lock()
			first := !r.cut
			r.cut = true
			r.mu.Unlock()
			if first {
				c.Incomplete("internal deadline reached; remaining sequences skipped")
			}
			return
		}
		run(i, false)
	})
	sort.SliceStable(r.fails, func(i, j int) bool { return r.fails[i].order < r.fails[j].order })
	for _, f := range r.fails {
		c.Fail(f.key, f.what, f.rep)
	}
	c.Extra("info", r.info)
}

// i33DiffClass reduces a difference description to a stable class.
func i33DiffClass(d string) string {
	first := d
	if i := strings.Index(d, ";"); i >= 0 {
		first = d[:i]
	}
	first = i36ErrClass(first)
	for _, w := range []string{"w1", "w2"} {
		first = strings.ReplaceAll(first, w, "wN")
	}
	// drop quoted payloads
	var b strings.Builder
	inq := false
	for i := 0; i < len(first); i++ {
		if first[i] == '"' {
			inq = !inq
			continue
		}
		if !inq {
			b.WriteByte(first[i])
		}
	}
	return strings.Join(strings.Fields(b.String()), " ")
}

package checks

import (
	"context"
	"errors"
	"fmt"
	"io"
	"sort"
	"strings"
	"syscall"

	git "github.com/go-git/go-git/v6"
	"github.com/go-git/go-git/v6/plumbing"
	"github.com/go-git/go-git/v6/plumbing/client"

	"verifmc/fw"
	"verifmc/mcfs"
)

func init() {
	fw.Register(&fw.Check{ID: "C29", Level: "model_checking", Run: runC29, QuickBudget: 100, ThoroughBudget: 1200})
}

type c29Scenario struct {
	name string
	kind string // operation kind for the key
	prep func(w *mcfs.World)
	run  func(r *git.Repository, w *mcfs.World) error
	// fkind is the operation kind used in the key of an injected-fault finding (default: kind): the scenarios that
	// only vary the state or the options of one operation share the operation's fault classes
	fkind string
	// thoroughFaults: the per-call fault enumeration of this scenario runs in the thorough tier only (the scenario
	// varies the state or options of an operation whose fault sites the quick tier already enumerates)
	thoroughFaults bool
}

type c29FailingSigner struct{}

func (c29FailingSigner) Sign(ctx context.Context, message io.Reader) ([]byte, error) {
	return nil, errors.New("signing key unavailable")
}

// c29RawObject stores an object without any validation (so that trees may reference objects that are absent).
func c29RawObject(w *mcfs.World, t plumbing.ObjectType, data []byte) plumbing.Hash {
	_, st, err := openRepo(w, "/wt/.git", "/wt")
	if err != nil {
		fw.Abort("open: %v", err)
	}
	o := &plumbing.MemoryObject{}
	o.SetType(t)
	o.Write(data)
	h, err := st.SetEncodedObject(o)
	if err != nil {
		fw.Abort("raw object: %v", err)
	}
	return h
}

// c29Commit writes a commit (parent: parent) whose root tree has the given raw entries (mode, name, id).
func c29Commit(w *mcfs.World, parent plumbing.Hash, entries [][3]string) plumbing.Hash {
	var tb []byte
	for _, e := range entries {
		tb = append(tb, []byte(e[0]+" "+e[1]+"\x00")...)
		tb = append(tb, plumbing.NewHash(e[2]).Bytes()...)
	}
	tree := c29RawObject(w, plumbing.TreeObject, tb)
	return c29RawObject(w, plumbing.CommitObject, []byte(fmt.Sprintf("tree %s\nparent %s\nauthor V <v@example.com> 1700000300 +0000\ncommitter V <v@example.com> 1700000300 +0000\n\nincomplete\n", tree, parent)))
}


// c29Snapshot renders HEAD, all references, the decoded index and the tracked worktree files.
func c29Snapshot(w *mcfs.World) map[string]string {
	out := map[string]string{}
	refs, err := refsOf(w, "/wt/.git")
	if err != nil {
		out["refs"] = "unreadable: " + normErr(err)
	} else {
		var ls []string
		for k, v := range refs {
			if k == "HEAD" {
				out["HEAD"] = v
				continue
			}
			if strings.HasPrefix(k, "refs/heads/") { // "every branch": remote-tracking refs legitimately move when a pull fetches and then refuses to merge
				ls = append(ls, k+"="+v)
			}
		}
		sort.Strings(ls)
		out["branches"] = strings.Join(ls, "\n")
	}
	idx, err := decodeDiskIndex(w)
	tracked := map[string]bool{}
	if err != nil {
		out["index"] = "unreadable: " + normErr(err)
	} else {
		var ls []string
		for _, e := range idx.Entries {
			ls = append(ls, fmt.Sprintf("%s %s %o %d skip=%v", e.Name, e.Hash, e.Mode, e.Stage, e.SkipWorktree))
			tracked[e.Name] = true
		}
		sort.Strings(ls)
		out["index"] = strings.Join(ls, "\n")
	}
	return out
}

func c29Worktree(w *mcfs.World, tracked []string) string {
	var ls []string
	for _, n := range tracked {
		b, ok := w.ReadFile("/wt/" + n)
		if !ok {
			ls = append(ls, n+" <absent>")
		} else {
			ls = append(ls, fmt.Sprintf("%s %q", n, b))
		}
	}
	return strings.Join(ls, "\n")
}

func runC29(c *fw.Ctx) {
	base, info := twoRepoWorld(c)
	c1, c2, c3 := plumbing.NewHash(info.c1), plumbing.NewHash(info.c2), plumbing.NewHash(info.c3)
	_ = c3
	wtOf := func(r *git.Repository) *git.Worktree {
		w, err := r.Worktree()
		if err != nil {
			fw.Abort("worktree: %v", err)
		}
		return w
	}
	dirtyA := func(w *mcfs.World) {
		w.AdvanceClock(3)
		w.WriteFile("/wt/a", []byte("local uncommitted edit\n"), false)
	}
	stagedZ := func(w *mcfs.World) {
		w.AdvanceClock(3)
		w.WriteFile("/wt/z", []byte("staged new file\n"), false)
		r, _, _ := openRepo(w, "/wt/.git", "/wt")
		if _, err := wtOf(r).Add("z"); err != nil {
			fw.Abort("prep add: %v", err)
		}
	}
	diverge := func(w *mcfs.World) { // local main gets a commit the server does not have: pull/merge are non-ff
		stagedZ(w)
		r, _, _ := openRepo(w, "/wt/.git", "/wt")
		if _, err := wtOf(r).Commit("local\n", &git.CommitOptions{Author: fixedSig}); err != nil {
			fw.Abort("prep commit: %v", err)
		}
	}
	scenarios := []c29Scenario{
		{"Checkout(branch b) with an unstaged edit", "Checkout", dirtyA, func(r *git.Repository, w *mcfs.World) error {
			return wtOf(r).Checkout(&git.CheckoutOptions{Branch: "refs/heads/b"})
		}, "", false},
		{"Checkout(-b new) with an unstaged edit", "Checkout(create)", dirtyA, func(r *git.Repository, w *mcfs.World) error {
			return wtOf(r).Checkout(&git.CheckoutOptions{Branch: "refs/heads/new", Create: true, Hash: c1})
		}, "", false},
		{"Checkout(-b b) where b exists", "Checkout(create)", nil, func(r *git.Repository, w *mcfs.World) error {
			return wtOf(r).Checkout(&git.CheckoutOptions{Branch: "refs/heads/b", Create: true})
		}, "", false},
		{"Checkout(hash c1) with an unstaged edit", "Checkout", dirtyA, func(r *git.Repository, w *mcfs.World) error {
			return wtOf(r).Checkout(&git.CheckoutOptions{Hash: c1})
		}, "", false},
		{"Checkout(missing branch)", "Checkout", nil, func(r *git.Repository, w *mcfs.World) error {
			return wtOf(r).Checkout(&git.CheckoutOptions{Branch: "refs/heads/nope"})
		}, "", false},
		{"Checkout(hash of a missing object)", "Checkout", nil, func(r *git.Repository, w *mcfs.World) error {
			return wtOf(r).Checkout(&git.CheckoutOptions{Hash: plumbing.NewHash("cccccccccccccccccccccccccccccccccccccccc")})
		}, "", false},
		{"Checkout(invalid options: hash and create without branch)", "Checkout", nil, func(r *git.Repository, w *mcfs.World) error {
			return wtOf(r).Checkout(&git.CheckoutOptions{Hash: c1, Branch: "refs/heads/b", Force: true, Keep: true})
		}, "", false},
		{"Checkout(branch b) clean", "Checkout", nil, func(r *git.Repository, w *mcfs.World) error {
			return wtOf(r).Checkout(&git.CheckoutOptions{Branch: "refs/heads/b"})
		}, "", false},
		{"Reset(merge, c1) with an unstaged edit", "Reset(merge)", dirtyA, func(r *git.Repository, w *mcfs.World) error {
			return wtOf(r).Reset(&git.ResetOptions{Mode: git.MergeReset, Commit: c1})
		}, "", false},
		{"Reset(keep, c1) with a conflicting edit", "Reset(keep)", dirtyA, func(r *git.Repository, w *mcfs.World) error {
			return wtOf(r).Reset(&git.ResetOptions{Mode: git.KeepReset, Commit: c1})
		}, "", false},
		{"Reset(hard, missing object)", "Reset(hard)", nil, func(r *git.Repository, w *mcfs.World) error {
			return wtOf(r).Reset(&git.ResetOptions{Mode: git.HardReset, Commit: plumbing.NewHash("cccccccccccccccccccccccccccccccccccccccc")})
		}, "", false},
		{"Reset(hard, c1) clean", "Reset(hard)", nil, func(r *git.Repository, w *mcfs.World) error {
			return wtOf(r).Reset(&git.ResetOptions{Mode: git.HardReset, Commit: c1})
		}, "", false},
		{"Commit with nothing staged", "Commit", nil, func(r *git.Repository, w *mcfs.World) error {
			_, err := wtOf(r).Commit("m\n", &git.CommitOptions{Author: fixedSig})
			return err
		}, "", false},
		{"Commit of a staged file", "Commit", stagedZ, func(r *git.Repository, w *mcfs.World) error {
			_, err := wtOf(r).Commit("m\n", &git.CommitOptions{Author: fixedSig})
			return err
		}, "", false},
		{"Add(missing path)", "Add", nil, func(r *git.Repository, w *mcfs.World) error {
			_, err := wtOf(r).Add("does-not-exist")
			return err
		}, "", false},
		{"Add(edited a)", "Add", dirtyA, func(r *git.Repository, w *mcfs.World) error { _, err := wtOf(r).Add("a"); return err }, "", false},
		{"Restore(staged, missing path)", "Restore", nil, func(r *git.Repository, w *mcfs.World) error {
			return wtOf(r).Restore(&git.RestoreOptions{Staged: true, Files: []string{"does-not-exist"}})
		}, "", false},
		{"Restore(worktree only)", "Restore", dirtyA, func(r *git.Repository, w *mcfs.World) error {
			return wtOf(r).Restore(&git.RestoreOptions{Worktree: true, Files: []string{"a"}})
		}, "", false},
		{"Restore(staged+worktree, a) after staging an edit", "Restore", func(w *mcfs.World) {
			dirtyA(w)
			r, _, _ := openRepo(w, "/wt/.git", "/wt")
			wtOf(r).Add("a")
		}, func(r *git.Repository, w *mcfs.World) error {
			return wtOf(r).Restore(&git.RestoreOptions{Staged: true, Worktree: true, Files: []string{"a"}})
		}, "", false},
		{"Merge(non fast-forward)", "Merge", diverge, func(r *git.Repository, w *mcfs.World) error {
			return r.Merge(*plumbing.NewHashReference("refs/heads/b", c1), git.MergeOptions{Strategy: git.FastForwardMerge})
		}, "", false},
		{"Pull(non fast-forward)", "Pull", diverge, func(r *git.Repository, w *mcfs.World) error {
			return wtOf(r).Pull(&git.PullOptions{RemoteName: "origin", ClientOptions: []client.Option{mcLoader(w)}})
		}, "", false},
		{"Pull(fast-forward) with an unstaged edit", "Pull", dirtyA, func(r *git.Repository, w *mcfs.World) error {
			return wtOf(r).Pull(&git.PullOptions{RemoteName: "origin", ClientOptions: []client.Option{mcLoader(w)}})
		}, "", false},
		{"Pull(fast-forward, already fetched) with an unstaged edit", "Pull", func(w *mcfs.World) {
			dirtyA(w)
			r, _, _ := openRepo(w, "/wt/.git", "/wt")
			if err := r.Fetch(&git.FetchOptions{RemoteName: "origin", ClientOptions: []client.Option{mcLoader(w)}}); err != nil {
				fw.Abort("prep fetch: %v", err)
			}
		}, func(r *git.Repository, w *mcfs.World) error {
			return wtOf(r).Pull(&git.PullOptions{RemoteName: "origin", ClientOptions: []client.Option{mcLoader(w)}})
		}, "", false},
		{"Pull(non fast-forward, already fetched)", "Pull", func(w *mcfs.World) {
			diverge(w)
			r, _, _ := openRepo(w, "/wt/.git", "/wt")
			if err := r.Fetch(&git.FetchOptions{RemoteName: "origin", ClientOptions: []client.Option{mcLoader(w)}}); err != nil {
				fw.Abort("prep fetch: %v", err)
			}
		}, func(r *git.Repository, w *mcfs.World) error {
			return wtOf(r).Pull(&git.PullOptions{RemoteName: "origin", ClientOptions: []client.Option{mcLoader(w)}})
		}, "", false},
		{"Pull(fast-forward) clean", "Pull", nil, func(r *git.Repository, w *mcfs.World) error {
			return wtOf(r).Pull(&git.PullOptions{RemoteName: "origin", ClientOptions: []client.Option{mcLoader(w)}})
		}, "", false},
	}
	missing := plumbing.NewHash("cccccccccccccccccccccccccccccccccccccccc")
	pull := func(r *git.Repository, w *mcfs.World) error {
		return wtOf(r).Pull(&git.PullOptions{RemoteName: "origin", ClientOptions: []client.Option{mcLoader(w)}})
	}
	add := func(name, kind, fkind string, prep func(w *mcfs.World), run func(r *git.Repository, w *mcfs.World) error) {
		scenarios = append(scenarios, c29Scenario{name, kind, prep, run, fkind, true})
	}
	// --- every way the worktree can be "not clean", against the operations that refuse on it
	dirty := []struct {
		name string
		f    func(w *mcfs.World)
	}{
		{"a same-size edit of a", func(w *mcfs.World) { w.AdvanceClock(3); w.WriteFile("/wt/a", []byte("aX\n"), false) }},
		{"an edit of d/b (subdirectory)", func(w *mcfs.World) { w.AdvanceClock(3); w.WriteFile("/wt/d/b", []byte("local edit in a subdirectory\n"), false) }},
		{"tracked a deleted", func(w *mcfs.World) { w.AdvanceClock(3); w.RemoveSetup("/wt/a") }},
		{"a made executable", func(w *mcfs.World) { w.AdvanceClock(3); w.WriteFile("/wt/a", []byte("a2\n"), true) }},
		{"a replaced by a symlink", func(w *mcfs.World) { w.AdvanceClock(3); w.RemoveSetup("/wt/a"); w.SymlinkSetup("x", "/wt/a") }},
		{"an edit of x (not touched by the target)", func(w *mcfs.World) { w.AdvanceClock(3); w.WriteFile("/wt/x", []byte("local edit\n"), true) }},
	}
	for _, d := range dirty {
		d := d
		add("Checkout(branch b) with "+d.name, "Checkout", "", d.f, func(r *git.Repository, w *mcfs.World) error {
			return wtOf(r).Checkout(&git.CheckoutOptions{Branch: "refs/heads/b"})
		})
		add("Pull(fast-forward) with "+d.name, "Pull", "", d.f, pull)
		add("Reset(merge, c1) with "+d.name, "Reset(merge)", "", d.f, func(r *git.Repository, w *mcfs.World) error {
			return wtOf(r).Reset(&git.ResetOptions{Mode: git.MergeReset, Commit: c1})
		})
	}
	// --- the other shapes of a checkout target, with an unstaged edit
	add("Checkout(-b new at HEAD) with an unstaged edit", "Checkout(create)", "", dirtyA, func(r *git.Repository, w *mcfs.World) error {
		return wtOf(r).Checkout(&git.CheckoutOptions{Branch: "refs/heads/new", Create: true})
	})
	add("Checkout(tag v1 by name) with an unstaged edit", "Checkout", "", dirtyA, func(r *git.Repository, w *mcfs.World) error {
		return wtOf(r).Checkout(&git.CheckoutOptions{Branch: "refs/tags/v1"})
	})
	add("Checkout(remote-tracking branch) with an unstaged edit", "Checkout", "", dirtyA, func(r *git.Repository, w *mcfs.World) error {
		return wtOf(r).Checkout(&git.CheckoutOptions{Branch: "refs/remotes/origin/b"})
	})
	add("Checkout(hash of the annotated tag) with an unstaged edit", "Checkout", "", dirtyA, func(r *git.Repository, w *mcfs.World) error {
		return wtOf(r).Checkout(&git.CheckoutOptions{Hash: plumbing.NewHash(info.tag)})
	})
	add("Checkout(branch b, sparse directories) with an unstaged edit", "Checkout", "", dirtyA, func(r *git.Repository, w *mcfs.World) error {
		return wtOf(r).Checkout(&git.CheckoutOptions{Branch: "refs/heads/b", SparseCheckoutDirectories: []string{"d"}})
	})
	// --- a target that turns out to be unusable only after the first steps
	add("Checkout(-b new, hash of a missing object)", "Checkout(create, unusable target)", "Checkout(create)", nil, func(r *git.Repository, w *mcfs.World) error {
		return wtOf(r).Checkout(&git.CheckoutOptions{Branch: "refs/heads/new", Create: true, Hash: missing})
	})
	add("Checkout(-b new, hash of a tree)", "Checkout(create, unusable target)", "Checkout(create)", nil, func(r *git.Repository, w *mcfs.World) error {
		co, err := r.CommitObject(c1)
		if err != nil {
			fw.Abort("c1: %v", err)
		}
		return wtOf(r).Checkout(&git.CheckoutOptions{Branch: "refs/heads/new", Create: true, Hash: co.TreeHash})
	})
	add("Checkout(-b with an invalid branch name)", "Checkout(create)", "", nil, func(r *git.Repository, w *mcfs.World) error {
		return wtOf(r).Checkout(&git.CheckoutOptions{Branch: "refs/heads/bad..name", Create: true})
	})
	add("Checkout(branch b, sparse directory that does not exist)", "Checkout(sparse, missing directory)", "Checkout", nil, func(r *git.Repository, w *mcfs.World) error {
		return wtOf(r).Checkout(&git.CheckoutOptions{Branch: "refs/heads/b", SparseCheckoutDirectories: []string{"no-such-dir"}})
	})
	// the same refusal when the target is the very commit HEAD is on (nothing to switch, only HEAD/branch would move)
	add("Checkout(-b new at HEAD, sparse directory that does not exist)", "Checkout(sparse, missing directory)", "", nil, func(r *git.Repository, w *mcfs.World) error {
		return wtOf(r).Checkout(&git.CheckoutOptions{Branch: "refs/heads/new-at-head", Create: true, SparseCheckoutDirectories: []string{"no-such-dir"}})
	})
	add("Checkout(detach at HEAD's own commit, sparse directory that does not exist)", "Checkout(sparse, missing directory)", "", nil, func(r *git.Repository, w *mcfs.World) error {
		h, err := r.Head()
		if err != nil {
			fw.Abort("head: %v", err)
		}
		return wtOf(r).Checkout(&git.CheckoutOptions{Hash: h.Hash(), SparseCheckoutDirectories: []string{"no-such-dir"}})
	})
	add("Reset(hard, c1, sparse directory that does not exist)", "Reset(hard)", "", nil, func(r *git.Repository, w *mcfs.World) error {
		return wtOf(r).Reset(&git.ResetOptions{Mode: git.HardReset, Commit: c1, SparseDirs: []string{"no-such-dir"}})
	})
	add("Reset(soft, missing object)", "Reset(soft)", "", nil, func(r *git.Repository, w *mcfs.World) error {
		return wtOf(r).Reset(&git.ResetOptions{Mode: git.SoftReset, Commit: missing})
	})
	add("Reset(mixed, hash of a tree)", "Reset(mixed)", "", nil, func(r *git.Repository, w *mcfs.World) error {
		co, err := r.CommitObject(c1)
		if err != nil {
			fw.Abort("c1: %v", err)
		}
		return wtOf(r).Reset(&git.ResetOptions{Mode: git.MixedReset, Commit: co.TreeHash})
	})
	// --- commits whose objects are incomplete (partial clone, damaged store): the commit itself is there
	aBlob, bTree := "", ""
	{
		r, _, _ := openRepo(base, "/wt/.git", "/wt")
		co, err := r.CommitObject(c2)
		if err != nil {
			fw.Abort("c2: %v", err)
		}
		t, err := co.Tree()
		if err != nil {
			fw.Abort("c2 tree: %v", err)
		}
		for _, e := range t.Entries {
			if e.Name == "a" {
				aBlob = e.Hash.String()
			}
			if e.Name == "d" {
				bTree = e.Hash.String()
			}
		}
	}
	incomplete := []struct {
		name    string
		entries [][3]string
	}{
		{"a blob is missing", [][3]string{{"100644", "a", aBlob}, {"40000", "d", bTree}, {"100644", "m", "dddddddddddddddddddddddddddddddddddddddd"}}},
		{"a subtree is missing", [][3]string{{"100644", "a", aBlob}, {"40000", "d", "dddddddddddddddddddddddddddddddddddddddd"}}},
		{"a path is not allowed in a worktree", [][3]string{{"100644", ".git", aBlob}, {"100644", "a", aBlob}, {"40000", "d", bTree}}},
	}
	for _, ic := range incomplete {
		ic := ic
		badOf := func(r *git.Repository) plumbing.Hash {
			ref, err := r.Reference("refs/heads/bad", true)
			if err != nil {
				fw.Abort("refs/heads/bad: %v", err)
			}
			return ref.Hash()
		}
		prep := func(w *mcfs.World) {
			bad := c29Commit(w, c2, ic.entries)
			r, _, _ := openRepo(w, "/wt/.git", "/wt")
			if err := r.Storer.SetReference(plumbing.NewHashReference("refs/heads/bad", bad)); err != nil {
				fw.Abort("prep ref: %v", err)
			}
		}
		add("Reset(hard) to a commit of which "+ic.name, "Reset(hard, incomplete commit)", "Reset(hard)", prep, func(r *git.Repository, w *mcfs.World) error {
			return wtOf(r).Reset(&git.ResetOptions{Mode: git.HardReset, Commit: badOf(r)})
		})
		add("Reset(mixed) to a commit of which "+ic.name, "Reset(mixed, incomplete commit)", "Reset(mixed)", prep, func(r *git.Repository, w *mcfs.World) error {
			return wtOf(r).Reset(&git.ResetOptions{Mode: git.MixedReset, Commit: badOf(r)})
		})
		add("Checkout(branch) of a commit of which "+ic.name, "Checkout(incomplete commit)", "Checkout", prep, func(r *git.Repository, w *mcfs.World) error {
			return wtOf(r).Checkout(&git.CheckoutOptions{Branch: "refs/heads/bad"})
		})
		add("Merge(fast-forward) to a commit of which "+ic.name, "Merge", "", prep, func(r *git.Repository, w *mcfs.World) error {
			return r.Merge(*plumbing.NewHashReference("refs/heads/bad", badOf(r)), git.MergeOptions{Strategy: git.FastForwardMerge})
		})
	}
	// --- detached HEAD (HEAD holds a hash): the same refusals take the other branch of setHEADCommit
	detach := func(w *mcfs.World) {
		r, _, _ := openRepo(w, "/wt/.git", "/wt")
		if err := wtOf(r).Checkout(&git.CheckoutOptions{Hash: c2}); err != nil {
			fw.Abort("prep detach: %v", err)
		}
		dirtyA(w)
	}
	add("Checkout(branch b) with an unstaged edit, HEAD detached", "Checkout", "", detach, func(r *git.Repository, w *mcfs.World) error {
		return wtOf(r).Checkout(&git.CheckoutOptions{Branch: "refs/heads/b"})
	})
	add("Checkout(-b new, c1) with an unstaged edit, HEAD detached", "Checkout(create)", "", detach, func(r *git.Repository, w *mcfs.World) error {
		return wtOf(r).Checkout(&git.CheckoutOptions{Branch: "refs/heads/new", Create: true, Hash: c1})
	})
	add("Reset(merge, c1) with an unstaged edit, HEAD detached", "Reset(merge)", "", detach, func(r *git.Repository, w *mcfs.World) error {
		return wtOf(r).Reset(&git.ResetOptions{Mode: git.MergeReset, Commit: c1})
	})
	add("Reset(keep, c1) with a conflicting edit, HEAD detached", "Reset(keep)", "", detach, func(r *git.Repository, w *mcfs.World) error {
		return wtOf(r).Reset(&git.ResetOptions{Mode: git.KeepReset, Commit: c1})
	})
	add("Pull with an unstaged edit, HEAD detached", "Pull", "", detach, pull)
	// --- pull: the other refusals
	add("Pull(reference that the remote does not have)", "Pull", "", nil, func(r *git.Repository, w *mcfs.World) error {
		return wtOf(r).Pull(&git.PullOptions{RemoteName: "origin", ReferenceName: "refs/heads/nope", ClientOptions: []client.Option{mcLoader(w)}})
	})
	add("Pull(remote that is not configured)", "Pull", "", dirtyA, func(r *git.Repository, w *mcfs.World) error {
		return wtOf(r).Pull(&git.PullOptions{RemoteName: "nope", ClientOptions: []client.Option{mcLoader(w)}})
	})
	add("Pull(fast-forward, forced) with an unstaged edit", "Pull", "", dirtyA, func(r *git.Repository, w *mcfs.World) error {
		return wtOf(r).Pull(&git.PullOptions{RemoteName: "origin", Force: true, ClientOptions: []client.Option{mcLoader(w)}})
	})
	add("Pull(fast-forward, branch b checked out) with an unstaged edit", "Pull", "", func(w *mcfs.World) {
		r, _, _ := openRepo(w, "/wt/.git", "/wt")
		if err := wtOf(r).Checkout(&git.CheckoutOptions{Branch: "refs/heads/b"}); err != nil {
			fw.Abort("prep checkout b: %v", err)
		}
		w.AdvanceClock(3)
		w.WriteFile("/wt/a", []byte("local uncommitted edit\n"), false)
	}, func(r *git.Repository, w *mcfs.World) error {
		return wtOf(r).Pull(&git.PullOptions{RemoteName: "origin", ReferenceName: "refs/heads/main", ClientOptions: []client.Option{mcLoader(w)}})
	})
	// --- commit / add / restore: the other refusals
	add("Commit(all) of an edit when signing fails", "Commit(all, signing fails)", "Commit", dirtyA, func(r *git.Repository, w *mcfs.World) error {
		_, err := wtOf(r).Commit("m\n", &git.CommitOptions{Author: fixedSig, All: true, Signer: c29FailingSigner{}})
		return err
	})
	add("Commit of a staged file when signing fails", "Commit", "", stagedZ, func(r *git.Repository, w *mcfs.World) error {
		_, err := wtOf(r).Commit("m\n", &git.CommitOptions{Author: fixedSig, Signer: c29FailingSigner{}})
		return err
	})
	add("Commit(all) with nothing changed", "Commit", "", nil, func(r *git.Repository, w *mcfs.World) error {
		_, err := wtOf(r).Commit("m\n", &git.CommitOptions{Author: fixedSig, All: true})
		return err
	})
	add("Commit(all and amend)", "Commit", "", dirtyA, func(r *git.Repository, w *mcfs.World) error {
		_, err := wtOf(r).Commit("m\n", &git.CommitOptions{Author: fixedSig, All: true, Amend: true})
		return err
	})
	add("Commit(all) of an edit onto a parent that does not exist", "Commit(all, missing parent)", "Commit", dirtyA, func(r *git.Repository, w *mcfs.World) error {
		_, err := wtOf(r).Commit("m\n", &git.CommitOptions{Author: fixedSig, All: true, Parents: []plumbing.Hash{missing}})
		return err
	})
	add("AddGlob(no match)", "Add", "", dirtyA, func(r *git.Repository, w *mcfs.World) error { return wtOf(r).AddGlob("nothing-*") })
	add("Add(options: all and a path)", "Add", "", dirtyA, func(r *git.Repository, w *mcfs.World) error {
		return wtOf(r).AddWithOptions(&git.AddOptions{All: true, Path: "a"})
	})
	add("Restore(no paths)", "Restore", "", dirtyA, func(r *git.Repository, w *mcfs.World) error {
		return wtOf(r).Restore(&git.RestoreOptions{Staged: true, Worktree: true})
	})
	_ = c2
	var names []string
	for _, s := range scenarios {
		names = append(names, s.name)
	}
	c.Bound("scenarios", names)
	c.SetRule(fmt.Sprint(len(scenarios))+" porcelain scenarios (checkout / checkout -b / reset merge|keep|hard|mixed|soft / commit / add / restore / merge / pull, each engineered to be refused: six kinds of unclean worktree, every shape of checkout target, HEAD symbolic or detached, unusable targets (missing object, tree instead of commit, missing sparse directory), commits whose blob / subtree is missing or whose tree holds a forbidden path, failing signer, invalid options; plus successful counterparts) on a git-written repository over mcfs; each is run (a) as is and (b) once per filesystem call of the operation with that call failing (EIO; every mutating call and every open/stat of a worktree file): whenever the call returns an error, HEAD, every reference, the decoded index and the content of every tracked worktree file are compared with the state before the call; distinct = (scenario, fault site, outcome) classes")
	c.Assume("one injected fault per run (thorough: also every pair of faults for operations with <= 60 fault sites); objects written before a failure are not part of the statement (only HEAD, branches, index, tracked files)")
	type job struct {
		si    int
		fault int // -1 none
	}
	var jobs []job
	counts := make([]int, len(scenarios))
	prepped := make([]*mcfs.World, len(scenarios))
	// preparation and the dry run that counts the fault sites are independent per scenario: done in parallel
	c.ParDo(len(scenarios), 0, func(si int) {
		s := scenarios[si]
		w := base.Clone()
		if s.prep != nil {
			s.prep(w)
		}
		prepped[si] = w
		d := w.Clone()
		n := 0
		d.SetHook(func(op *mcfs.Op) error {
			if c20FaultSite(op) {
				n++
			}
			return nil
		})
		r, _, err := openRepo(d, "/wt/.git", "/wt")
		if err != nil {
			fw.Abort("open: %v", err)
		}
		func() {
			defer func() { recover() }()
			s.run(r, d)
		}()
		counts[si] = n
	})
	for si, s := range scenarios {
		if prepped[si] == nil {
			continue // deadline reached during preparation
		}
		n := counts[si]
		jobs = append(jobs, job{si, -1})
		if s.thoroughFaults && !c.Thorough() {
			continue
		}
		for f := 0; f < n; f++ {
			jobs = append(jobs, job{si, f})
		}
		if c.Thorough() && n <= 60 {
			// bounded deviations: two injected faults (the second one hits a later call, e.g. inside an error path)
			for f1 := 0; f1 < n; f1++ {
				for f2 := f1 + 1; f2 < n+4; f2++ {
					jobs = append(jobs, job{si, 1000000 + f1*1000 + f2})
				}
			}
		}
	}
	c.States(len(scenarios))
	c.ParDo(len(jobs), 0, func(i int) {
		j := jobs[i]
		s := scenarios[j.si]
		w := prepped[j.si].Clone()
		before := c29Snapshot(w)
		idx, _ := decodeDiskIndex(w)
		var tracked []string
		for _, e := range idx.Entries {
			tracked = append(tracked, e.Name)
		}
		sort.Strings(tracked)
		beforeWT := c29Worktree(w, tracked)
		site := "no fault"
		if j.fault >= 0 {
			n := 0
			f1, f2 := j.fault, -1
			if j.fault >= 1000000 {
				f1, f2 = (j.fault-1000000)/1000, (j.fault-1000000)%1000
			}
			w.SetHook(func(op *mcfs.Op) error {
				if c20FaultSite(op) {
					if n == f1 || n == f2 {
						n++
						if site == "no fault" {
							site = "EIO at " + op.Kind + " of " + fileClass(op.Path)
						} else {
							site += " and at " + op.Kind + " of " + fileClass(op.Path)
						}
						return syscall.EIO
					}
					n++
				}
				return nil
			})
		}
		r, _, err := openRepo(w, "/wt/.git", "/wt")
		if err != nil {
			return // the injected fault hit opening the repository
		}
		operr := func() (err error) {
			defer func() {
				if r := recover(); r != nil {
					err = fmt.Errorf("panic: %v", r)
				}
			}()
			return s.run(r, w)
		}()
		w.SetHook(nil)
		c.Eval()
		c.Transitions(1)
		res := "ok"
		if operr != nil {
			res = "error"
		}
		c.Class(fmt.Sprintf("%s|%s|%s", s.name, site, res))
		if operr == nil {
			return
		}
		if strings.HasPrefix(operr.Error(), "panic:") {
			c.Fail(s.kind+" panics", fmt.Sprintf("%s (%s): %v", s.name, site, operr), map[string]any{"scenario": s.name, "fault": site})
			return
		}
		after := c29Snapshot(w)
		var changed []string
		for _, k := range []string{"HEAD", "branches", "index"} {
			if before[k] != after[k] {
				changed = append(changed, k)
			}
		}
		if afterWT := c29Worktree(w, tracked); afterWT != beforeWT {
			changed = append(changed, "tracked worktree files")
		}
		if len(changed) == 0 {
			return
		}
		how, kind := "refused", s.kind
		if j.fault >= 0 {
			how = "failed on an injected I/O error"
			if s.fkind != "" {
				kind = s.fkind
			}
		}
		c.Fail(fmt.Sprintf("%s %s but changed: %s", kind, how, strings.Join(changed, ", ")),
			fmt.Sprintf("scenario %q (%s) returned %q, yet %s differ from the state before the call", s.name, site, operr, strings.Join(changed, ", ")),
			map[string]any{"scenario": s.name, "fault": site, "error": operr.Error(), "changed": changed, "before": before, "after": after})
		if i%29 == 0 {
			c.Sample(map[string]any{"scenario": s.name, "fault": site, "returned": res})
		}
	})
	c.Sample(map[string]any{"scenario": scenarios[0].name, "fault_sites": counts[0]})
	c.TracesValidated(0)
}

package checks

import (
	"fmt"
	"sort"
	"strings"
	"syscall"

	git "github.com/go-git/go-git/v6"
	"github.com/go-git/go-git/v6/plumbing"
	"github.com/go-git/go-git/v6/plumbing/client"

	"verifmc/fw"
	"verifmc/mcfs"
)

func init() {
	fw.Register(&fw.Check{ID: "C29", Level: "model_checking", Run: runC29, QuickBudget: 100, ThoroughBudget: 1200})
}

type c29Scenario struct {
	name  string
	kind  string // operation kind for the key
	prep  func(w *mcfs.World)
	run   func(r *git.Repository, w *mcfs.World) error
}

// c29Snapshot renders HEAD, all references, the decoded index and the tracked worktree files.
func c29Snapshot(w *mcfs.World) map[string]string {
	out := map[string]string{}
	refs, err := refsOf(w, "/wt/.git")
	if err != nil {
		out["refs"] = "unreadable: " + normErr(err)
	} else {
		var ls []string
		for k, v := range refs {
			if k == "HEAD" {
				out["HEAD"] = v
				continue
			}
			if strings.HasPrefix(k, "refs/heads/") { // "every branch": remote-tracking refs legitimately move when a pull fetches and then refuses to merge
				ls = append(ls, k+"="+v)
			}
		}
		sort.Strings(ls)
		out["branches"] = strings.Join(ls, "\n")
	}
	idx, err := decodeDiskIndex(w)
	tracked := map[string]bool{}
	if err != nil {
		out["index"] = "unreadable: " + normErr(err)
	} else {
		var ls []string
		for _, e := range idx.Entries {
			ls = append(ls, fmt.Sprintf("%s %s %o %d skip=%v", e.Name, e.Hash, e.Mode, e.Stage, e.SkipWorktree))
			tracked[e.Name] = true
		}
		sort.Strings(ls)
		out["index"] = strings.Join(ls, "\n")
	}
	return out
}

func c29Worktree(w *mcfs.World, tracked []string) string {
	var ls []string
	for _, n := range tracked {
		b, ok := w.ReadFile("/wt/" + n)
		if !ok {
			ls = append(ls, n+" <absent>")
		} else {
			ls = append(ls, fmt.Sprintf("%s %q", n, b))
		}
	}
	return strings.Join(ls, "\n")
}

func runC29(c *fw.Ctx) {
	base, info := twoRepoWorld(c)
	c1, c2, c3 := plumbing.NewHash(info.c1), plumbing.NewHash(info.c2), plumbing.NewHash(info.c3)
	_ = c3
	wtOf := func(r *git.Repository) *git.Worktree {
		w, err := r.Worktree()
		if err != nil {
			fw.Abort("worktree: %v", err)
		}
		return w
	}
	dirtyA := func(w *mcfs.World) {
		w.AdvanceClock(3)
		w.WriteFile("/wt/a", []byte("local uncommitted edit\n"), false)
	}
	stagedZ := func(w *mcfs.World) {
		w.AdvanceClock(3)
		w.WriteFile("/wt/z", []byte("staged new file\n"), false)
		r, _, _ := openRepo(w, "/wt/.git", "/wt")
		if _, err := wtOf(r).Add("z"); err != nil {
			fw.Abort("prep add: %v", err)
		}
	}
	diverge := func(w *mcfs.World) { // local main gets a commit the server does not have: pull/merge are non-ff
		stagedZ(w)
		r, _, _ := openRepo(w, "/wt/.git", "/wt")
		if _, err := wtOf(r).Commit("local\n", &git.CommitOptions{Author: fixedSig}); err != nil {
			fw.Abort("prep commit: %v", err)
		}
	}
	scenarios := []c29Scenario{
		{"Checkout(branch b) with an unstaged edit", "Checkout", dirtyA, func(r *git.Repository, w *mcfs.World) error {
			return wtOf(r).Checkout(&git.CheckoutOptions{Branch: "refs/heads/b"})
		}},
		{"Checkout(-b new) with an unstaged edit", "Checkout(create)", dirtyA, func(r *git.Repository, w *mcfs.World) error {
			return wtOf(r).Checkout(&git.CheckoutOptions{Branch: "refs/heads/new", Create: true, Hash: c1})
		}},
		{"Checkout(-b b) where b exists", "Checkout(create)", nil, func(r *git.Repository, w *mcfs.World) error {
			return wtOf(r).Checkout(&git.CheckoutOptions{Branch: "refs/heads/b", Create: true})
		}},
		{"Checkout(hash c1) with an unstaged edit", "Checkout", dirtyA, func(r *git.Repository, w *mcfs.World) error {
			return wtOf(r).Checkout(&git.CheckoutOptions{Hash: c1})
		}},
		{"Checkout(missing branch)", "Checkout", nil, func(r *git.Repository, w *mcfs.World) error {
			return wtOf(r).Checkout(&git.CheckoutOptions{Branch: "refs/heads/nope"})
		}},
		{"Checkout(hash of a missing object)", "Checkout", nil, func(r *git.Repository, w *mcfs.World) error {
			return wtOf(r).Checkout(&git.CheckoutOptions{Hash: plumbing.NewHash("cccccccccccccccccccccccccccccccccccccccc")})
		}},
		{"Checkout(invalid options: hash and create without branch)", "Checkout", nil, func(r *git.Repository, w *mcfs.World) error {
			return wtOf(r).Checkout(&git.CheckoutOptions{Hash: c1, Branch: "refs/heads/b", Force: true, Keep: true})
		}},
		{"Checkout(branch b) clean", "Checkout", nil, func(r *git.Repository, w *mcfs.World) error {
			return wtOf(r).Checkout(&git.CheckoutOptions{Branch: "refs/heads/b"})
		}},
		{"Reset(merge, c1) with an unstaged edit", "Reset(merge)", dirtyA, func(r *git.Repository, w *mcfs.World) error {
			return wtOf(r).Reset(&git.ResetOptions{Mode: git.MergeReset, Commit: c1})
		}},
		{"Reset(keep, c1) with a conflicting edit", "Reset(keep)", dirtyA, func(r *git.Repository, w *mcfs.World) error {
			return wtOf(r).Reset(&git.ResetOptions{Mode: git.KeepReset, Commit: c1})
		}},
		{"Reset(hard, missing object)", "Reset(hard)", nil, func(r *git.Repository, w *mcfs.World) error {
			return wtOf(r).Reset(&git.ResetOptions{Mode: git.HardReset, Commit: plumbing.NewHash("cccccccccccccccccccccccccccccccccccccccc")})
		}},
		{"Reset(hard, c1) clean", "Reset(hard)", nil, func(r *git.Repository, w *mcfs.World) error {
			return wtOf(r).Reset(&git.ResetOptions{Mode: git.HardReset, Commit: c1})
		}},
		{"Commit with nothing staged", "Commit", nil, func(r *git.Repository, w *mcfs.World) error {
			_, err := wtOf(r).Commit("m\n", &git.CommitOptions{Author: fixedSig})
			return err
		}},
		{"Commit of a staged file", "Commit", stagedZ, func(r *git.Repository, w *mcfs.World) error {
			_, err := wtOf(r).Commit("m\n", &git.CommitOptions{Author: fixedSig})
			return err
		}},
		{"Add(missing path)", "Add", nil, func(r *git.Repository, w *mcfs.World) error {
			_, err := wtOf(r).Add("does-not-exist")
			return err
		}},
		{"Add(edited a)", "Add", dirtyA, func(r *git.Repository, w *mcfs.World) error { _, err := wtOf(r).Add("a"); return err }},
		{"Restore(staged, missing path)", "Restore", nil, func(r *git.Repository, w *mcfs.World) error {
			return wtOf(r).Restore(&git.RestoreOptions{Staged: true, Files: []string{"does-not-exist"}})
		}},
		{"Restore(worktree only)", "Restore", dirtyA, func(r *git.Repository, w *mcfs.World) error {
			return wtOf(r).Restore(&git.RestoreOptions{Worktree: true, Files: []string{"a"}})
		}},
		{"Restore(staged+worktree, a) after staging an edit", "Restore", func(w *mcfs.World) {
			dirtyA(w)
			r, _, _ := openRepo(w, "/wt/.git", "/wt")
			wtOf(r).Add("a")
		}, func(r *git.Repository, w *mcfs.World) error {
			return wtOf(r).Restore(&git.RestoreOptions{Staged: true, Worktree: true, Files: []string{"a"}})
		}},
		{"Merge(non fast-forward)", "Merge", diverge, func(r *git.Repository, w *mcfs.World) error {
			return r.Merge(*plumbing.NewHashReference("refs/heads/b", c1), git.MergeOptions{Strategy: git.FastForwardMerge})
		}},
		{"Pull(non fast-forward)", "Pull", diverge, func(r *git.Repository, w *mcfs.World) error {
			return wtOf(r).Pull(&git.PullOptions{RemoteName: "origin", ClientOptions: []client.Option{mcLoader(w)}})
		}},
		{"Pull(fast-forward) with an unstaged edit", "Pull", dirtyA, func(r *git.Repository, w *mcfs.World) error {
			return wtOf(r).Pull(&git.PullOptions{RemoteName: "origin", ClientOptions: []client.Option{mcLoader(w)}})
		}},
		{"Pull(fast-forward, already fetched) with an unstaged edit", "Pull", func(w *mcfs.World) {
			dirtyA(w)
			r, _, _ := openRepo(w, "/wt/.git", "/wt")
			if err := r.Fetch(&git.FetchOptions{RemoteName: "origin", ClientOptions: []client.Option{mcLoader(w)}}); err != nil {
				fw.Abort("prep fetch: %v", err)
			}
		}, func(r *git.Repository, w *mcfs.World) error {
			return wtOf(r).Pull(&git.PullOptions{RemoteName: "origin", ClientOptions: []client.Option{mcLoader(w)}})
		}},
		{"Pull(non fast-forward, already fetched)", "Pull", func(w *mcfs.World) {
			diverge(w)
			r, _, _ := openRepo(w, "/wt/.git", "/wt")
			if err := r.Fetch(&git.FetchOptions{RemoteName: "origin", ClientOptions: []client.Option{mcLoader(w)}}); err != nil {
				fw.Abort("prep fetch: %v", err)
			}
		}, func(r *git.Repository, w *mcfs.World) error {
			return wtOf(r).Pull(&git.PullOptions{RemoteName: "origin", ClientOptions: []client.Option{mcLoader(w)}})
		}},
		{"Pull(fast-forward) clean", "Pull", nil, func(r *git.Repository, w *mcfs.World) error {
			return wtOf(r).Pull(&git.PullOptions{RemoteName: "origin", ClientOptions: []client.Option{mcLoader(w)}})
		}},
	}
	_ = c2
	var names []string
	for _, s := range scenarios {
		names = append(names, s.name)
	}
	c.Bound("scenarios", names)
	c.SetRule("25 porcelain scenarios (checkout / checkout -b / reset merge|keep|hard / commit / add / restore / merge / pull, each engineered to be refused, plus successful counterparts) on a git-written repository over mcfs; each is run (a) as is and (b) once per filesystem call of the operation with that call failing (EIO; every mutating call and every open/stat of a worktree file): whenever the call returns an error, HEAD, every reference, the decoded index and the content of every tracked worktree file are compared with the state before the call; distinct = (scenario, fault site, outcome) classes")
	c.Assume("one injected fault per run (thorough: also every pair of faults for operations with <= 60 fault sites); objects written before a failure are not part of the statement (only HEAD, branches, index, tracked files)")
	type job struct {
		si    int
		fault int // -1 none
	}
	var jobs []job
	counts := make([]int, len(scenarios))
	prepped := make([]*mcfs.World, len(scenarios))
	for si, s := range scenarios {
		w := base.Clone()
		if s.prep != nil {
			s.prep(w)
		}
		prepped[si] = w
		// dry run to count fault sites
		d := w.Clone()
		n := 0
		d.SetHook(func(op *mcfs.Op) error {
			if c20FaultSite(op) {
				n++
			}
			return nil
		})
		r, _, err := openRepo(d, "/wt/.git", "/wt")
		if err != nil {
			fw.Abort("open: %v", err)
		}
		func() {
			defer func() { recover() }()
			s.run(r, d)
		}()
		counts[si] = n
		jobs = append(jobs, job{si, -1})
		for f := 0; f < n; f++ {
			jobs = append(jobs, job{si, f})
		}
		if c.Thorough() && n <= 60 {
			// bounded deviations: two injected faults (the second one hits a later call, e.g. inside an error path)
			for f1 := 0; f1 < n; f1++ {
				for f2 := f1 + 1; f2 < n+4; f2++ {
					jobs = append(jobs, job{si, 1000000 + f1*1000 + f2})
				}
			}
		}
	}
	c.States(len(scenarios))
	c.ParDo(len(jobs), 0, func(i int) {
		j := jobs[i]
		s := scenarios[j.si]
		w := prepped[j.si].Clone()
		before := c29Snapshot(w)
		idx, _ := decodeDiskIndex(w)
		var tracked []string
		for _, e := range idx.Entries {
			tracked = append(tracked, e.Name)
		}
		sort.Strings(tracked)
		beforeWT := c29Worktree(w, tracked)
		site := "no fault"
		if j.fault >= 0 {
			n := 0
			f1, f2 := j.fault, -1
			if j.fault >= 1000000 {
				f1, f2 = (j.fault-1000000)/1000, (j.fault-1000000)%1000
			}
			w.SetHook(func(op *mcfs.Op) error {
				if c20FaultSite(op) {
					if n == f1 || n == f2 {
						n++
						if site == "no fault" {
							site = "EIO at " + op.Kind + " of " + fileClass(op.Path)
						} else {
							site += " and at " + op.Kind + " of " + fileClass(op.Path)
						}
						return syscall.EIO
					}
					n++
				}
				return nil
			})
		}
		r, _, err := openRepo(w, "/wt/.git", "/wt")
		if err != nil {
			return // the injected fault hit opening the repository
		}
		operr := func() (err error) {
			defer func() {
				if r := recover(); r != nil {
					err = fmt.Errorf("panic: %v", r)
				}
			}()
			return s.run(r, w)
		}()
		w.SetHook(nil)
		c.Eval()
		c.Transitions(1)
		res := "ok"
		if operr != nil {
			res = "error"
		}
		c.Class(fmt.Sprintf("%s|%s|%s", s.name, site, res))
		if operr == nil {
			return
		}
		if strings.HasPrefix(operr.Error(), "panic:") {
			c.Fail(s.kind+" panics", fmt.Sprintf("%s (%s): %v", s.name, site, operr), map[string]any{"scenario": s.name, "fault": site})
			return
		}
		after := c29Snapshot(w)
		var changed []string
		for _, k := range []string{"HEAD", "branches", "index"} {
			if before[k] != after[k] {
				changed = append(changed, k)
			}
		}
		if afterWT := c29Worktree(w, tracked); afterWT != beforeWT {
			changed = append(changed, "tracked worktree files")
		}
		if len(changed) == 0 {
			return
		}
		how := "refused"
		if j.fault >= 0 {
			how = "failed on an injected I/O error"
		}
		c.Fail(fmt.Sprintf("%s %s but changed: %s", s.kind, how, strings.Join(changed, ", ")),
			fmt.Sprintf("scenario %q (%s) returned %q, yet %s differ from the state before the call", s.name, site, operr, strings.Join(changed, ", ")),
			map[string]any{"scenario": s.name, "fault": site, "error": operr.Error(), "changed": changed, "before": before, "after": after})
		if i%29 == 0 {
			c.Sample(map[string]any{"scenario": s.name, "fault": site, "returned": res})
		}
	})
	c.Sample(map[string]any{"scenario": scenarios[0].name, "fault_sites": counts[0]})
	c.TracesValidated(0)
}

package checks

import (
	"bytes"
	"crypto/sha256"
	"encoding/binary"
	"encoding/hex"
	"fmt"
	"path/filepath"
	"sort"

	"github.com/go-git/go-git/v6/plumbing"
	"github.com/go-git/go-git/v6/plumbing/format/idxfile"

	"verifmc/fw"
)

// C08, second driver: the .idx / .rev writers on entry tables no pack of the
// first driver produces (its packs hold a few dozen objects below 2 MiB):
// offsets on both sides of 2^31 and 2^32 (the 64-bit offset table), several
// names per fan-out bucket and empty buckets, first bytes 00 and ff, 0 and 1
// entries, more entries than the writer pre-allocates (thorough). The writer is
// fed the way the parser feeds it (OnHeader / OnInflatedObjectContent /
// OnFooter) in three different orders; expected bytes come from the independent
// idx writer and a .rev writer transcribed from gitformat-pack. The 64-bit
// layout of the independent writer/reader is replayed on real git with
// `index-pack --index-version=2,<limit>` (git's own test hook).

func c08RevExpected(ents []bIdxEnt, packSum []byte, sha256fmt bool) []byte {
	es := append([]bIdxEnt{}, ents...)
	sort.SliceStable(es, func(i, j int) bool { return bytes.Compare(es[i].OID, es[j].OID) < 0 })
	pos := make([]int, len(es))
	for i := range pos {
		pos[i] = i
	}
	sort.SliceStable(pos, func(i, j int) bool { return es[pos[i]].Off < es[pos[j]].Off })
	var b bytes.Buffer
	b.WriteString("RIDX")
	hid := uint32(1)
	if sha256fmt {
		hid = 2
	}
	binary.Write(&b, binary.BigEndian, uint32(1))
	binary.Write(&b, binary.BigEndian, hid)
	for _, p := range pos {
		binary.Write(&b, binary.BigEndian, uint32(p))
	}
	b.Write(packSum)
	h := bNewHash(sha256fmt)
	h.Write(b.Bytes())
	return h.Sum(b.Bytes())
}

type c08Scenario struct {
	name string
	ents []bIdxEnt
}

func c08SynthScenarios(c *fw.Ctx, sha256fmt bool) []c08Scenario {
	hs := 20
	if sha256fmt {
		hs = 32
	}
	oid := func(first int, i int) []byte {
		s := sha256.Sum256([]byte(fmt.Sprintf("c08-synth-%d-%d", first, i)))
		o := append([]byte{}, s[:hs]...)
		if first >= 0 {
			o[0] = byte(first)
		}
		return o
	}
	crc := func(i int) uint32 { return uint32(i)*2654435761 + 7 }
	mk := func(n int, first func(i int) int, off func(i int) uint64) []bIdxEnt {
		var es []bIdxEnt
		for i := 0; i < n; i++ {
			es = append(es, bIdxEnt{oid(first(i), i), crc(i), off(i)})
		}
		return es
	}
	any := func(int) int { return -1 }
	small := func(i int) uint64 { return 12 + uint64(i)*97 }
	edge := []uint64{12, 1<<31 - 2, 1<<31 - 1, 1 << 31, 1<<31 + 1, 1<<32 - 1, 1 << 32, 1<<32 + 1, 1 << 40, 1<<63 - 1}
	sc := []c08Scenario{
		{"no entries", nil},
		{"one entry, first byte 00", mk(1, func(int) int { return 0 }, small)},
		{"one entry, first byte ff", mk(1, func(int) int { return 0xff }, small)},
		{"one entry at 2^31", mk(1, any, func(int) uint64 { return 1 << 31 })},
		{"300 entries", mk(300, any, small)},
		{"70 entries in buckets 00 and ff only", mk(70, func(i int) int { return (i % 2) * 0xff }, small)},
		{"70 entries in one bucket (7f)", mk(70, func(int) int { return 0x7f }, small)},
		{"offsets around 2^31 and 2^32", mk(len(edge), any, func(i int) uint64 { return edge[i] })},
		{"offsets around 2^31 and 2^32, one bucket", mk(len(edge), func(int) int { return 0x80 }, func(i int) uint64 { return edge[len(edge)-1-i] })},
		{"300 entries, every third beyond 2^31, every ninth beyond 2^32", mk(300, any, func(i int) uint64 {
			switch {
			case i%9 == 0:
				return 1<<32 + uint64(i)*1000
			case i%3 == 0:
				return 1<<31 + uint64(i)*1000
			}
			return small(i)
		})},
		{"40 entries all beyond 2^32", mk(40, any, func(i int) uint64 { return 1<<33 + uint64(40-i)*4096 })},
	}
	if c.Thorough() {
		sc = append(sc, c08Scenario{"70000 entries", mk(70000, any, small)},
			c08Scenario{"70000 entries, every 1000th beyond 2^32", mk(70000, any, func(i int) uint64 {
				if i%1000 == 0 {
					return 1<<32 + uint64(i)
				}
				return small(i)
			})})
	}
	return sc
}

func c08Synth(c *fw.Ctx) {
	c.Bound("synthetic_idx_tables", "0/1/70/300 entries (thorough: 70000), buckets 00/ff/one bucket, offsets 12, 2^31-2..2^31+1, 2^32-1..2^32+1, 2^40, 2^63-1, mixed; fed in offset order, reverse offset order and name order; sha1 and sha256")
	for _, sha256fmt := range []bool{false, true} {
		hs := 20
		if sha256fmt {
			hs = 32
		}
		sum := bytes.Repeat([]byte{0xab}, hs)
		for _, s := range c08SynthScenarios(c, sha256fmt) {
			// independent writer/reader agree with each other (the reader's view of
			// the 64-bit table is replayed on git below)
			want := bWriteIdx(s.ents, sum, sha256fmt)
			back, err := bReadIdx(want, sha256fmt)
			if err != nil || len(back) != len(s.ents) {
				fw.Abort("C08 synthetic: independent idx reader cannot read the independent writer's output (%s): %v", s.name, err)
			}
			byOID := map[string]bIdxEnt{}
			for _, e := range s.ents {
				byOID[string(e.OID)] = e
			}
			for _, e := range back {
				if w := byOID[string(e.OID)]; w.Off != e.Off || w.CRC != e.CRC {
					fw.Abort("C08 synthetic: independent idx writer/reader disagree (%s)", s.name)
				}
			}
			wantRev := c08RevExpected(s.ents, sum, sha256fmt)
			for order := 0; order < 3; order++ {
				es := append([]bIdxEnt{}, s.ents...)
				switch order {
				case 0:
					sort.SliceStable(es, func(i, j int) bool { return es[i].Off < es[j].Off })
				case 1:
					sort.SliceStable(es, func(i, j int) bool { return es[i].Off > es[j].Off })
				case 2:
					sort.SliceStable(es, func(i, j int) bool { return bytes.Compare(es[i].OID, es[j].OID) < 0 })
				}
				var idx, rev []byte
				var gerr error
				pan := ""
				func() {
					defer func() {
						if r := recover(); r != nil {
							pan = fmt.Sprint(r)
						}
					}()
					w := new(idxfile.Writer)
					w.OnHeader(uint32(len(es)))
					for _, e := range es {
						h, _ := plumbing.FromBytes(e.OID)
						w.OnInflatedObjectHeader(plumbing.BlobObject, 1, int64(e.Off))
						w.OnInflatedObjectContent(h, int64(e.Off), e.CRC, nil)
					}
					ps, _ := plumbing.FromBytes(sum)
					if gerr = w.OnFooter(ps); gerr != nil {
						return
					}
					idx, rev, gerr = c08GoIdx(w, sha256fmt)
				}()
				c.Eval()
				big := 0
				for _, e := range s.ents {
					if e.Off > 0x7fffffff {
						big++
					}
				}
				c.Class(fmt.Sprintf("synthetic n=%d big=%v", minInt(len(s.ents), 2), big > 0))
				rep := map[string]any{"scenario": s.name, "format": bFmtName(sha256fmt), "feed_order": []string{"offset", "reverse offset", "name"}[order], "entries": len(s.ents), "replay": "idxfile.Writer: OnHeader, OnInflatedObjectContent(name, offset, crc) per entry, OnFooter; idxfile.Encode / revfile.Encode of Writer.Index()"}
				cls := "offsets below 2^31"
				if big > 0 {
					cls = "64-bit offset table"
				}
				switch {
				case pan != "":
					c.Fail("synthetic entry table ("+cls+"): idx/rev writer panics", pan, rep)
				case gerr != nil:
					c.Fail("synthetic entry table ("+cls+"): idx/rev writer fails", gerr.Error(), rep)
				case !bytes.Equal(idx, want):
					rep["first_difference_at"] = c08FirstDiff(idx, want)
					c.Fail("synthetic entry table ("+cls+"): .idx differs from the format git writes", c08DiffIdx(idx, want, sha256fmt), rep)
				case !bytes.Equal(rev, wantRev):
					rep["first_difference_at"] = c08FirstDiff(rev, wantRev)
					c.Fail("synthetic entry table ("+cls+"): .rev differs from the format git writes", fmt.Sprintf("bytes differ at %d", c08FirstDiff(rev, wantRev)), rep)
				}
			}
		}
	}
	c08SynthConformance(c)
}

// c08SynthConformance: git writes 64-bit offset entries for a small pack when
// told to (--index-version=2,<limit>: offsets above the limit go to the 64-bit
// table); the independent reader must decode exactly the true offsets from it,
// and the .rev git writes must be what c08RevExpected gives.
func c08SynthConformance(c *fw.Ctx) {
	for _, sha256fmt := range []bool{false, true} {
		p := bNewPack(sha256fmt)
		type ent struct {
			off int64
			oid []byte
		}
		var es []ent
		for i := 0; i < 40; i++ {
			data := []byte(fmt.Sprintf("synthetic conformance blob %d %s", i, hex.EncodeToString(bPattern(i*3))))
			es = append(es, ent{p.Obj(bTBlob, data, i%2 == 0), bOID(sha256fmt, "blob", data)})
		}
		pack := p.Bytes()
		hs := 20
		if sha256fmt {
			hs = 32
		}
		g, dir := c.InitRepo("c08synth-"+bFmtName(sha256fmt), bFmtName(sha256fmt), true)
		pf := filepath.Join(dir, "s.pack")
		bWriteFile(pf, pack)
		limit := es[20].off
		g.MustRun("index-pack", fmt.Sprintf("--index-version=2,%d", limit), "--rev-index", "-o", filepath.Join(dir, "s.idx"), pf)
		raw := bReadFile(filepath.Join(dir, "s.idx"))
		got, err := bReadIdx(raw, sha256fmt)
		if err != nil || len(got) != len(es) {
			fw.Abort("C08 synthetic conformance: cannot read git's idx with a 64-bit table: %v", err)
		}
		n64 := (len(raw) - (8 + 1024 + len(es)*(hs+8) + 2*hs)) / 8
		if n64 < 10 {
			fw.Abort("C08 synthetic conformance: git wrote %d 64-bit offsets, expected about 19", n64)
		}
		want := map[string]int64{}
		var ie []bIdxEnt
		for _, e := range es {
			want[string(e.oid)] = e.off
		}
		for _, e := range got {
			if want[string(e.OID)] != int64(e.Off) {
				fw.Abort("C08 synthetic conformance: independent idx reader decodes offset %d for %x from git's 64-bit table, true offset %d", e.Off, e.OID, want[string(e.OID)])
			}
			ie = append(ie, bIdxEnt{e.OID, e.CRC, e.Off})
		}
		rev := bReadFile(filepath.Join(dir, "s.rev"))
		if !bytes.Equal(rev, c08RevExpected(ie, pack[len(pack)-hs:], sha256fmt)) {
			fw.Abort("C08 synthetic conformance: the transcribed .rev writer disagrees with git's .rev")
		}
		c.Evals(1)
	}
}

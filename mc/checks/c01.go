package checks

// C01 — object IDs and loose objects identical to git's.
//
// Space: every byte string over {NUL,'a',LF,SP,'0'} up to max_len, header
// look-alikes and pattern-filled strings at buffer-boundary sizes, as each of
// the four object types, in a sha1 and a sha256 repository.
// Forward: written by go-git through SetEncodedObject / RawObjectWriter /
// LazyWriter / Worktree.Add; the returned id must be git's (`hash-object
// --literally`) and git (`cat-file --batch`) must read type, size and bytes
// back from the directory go-git wrote; no object may appear under any other
// name. Reverse: written by `git hash-object -w --literally`; go-git must read
// type, size, bytes and (recomputed) id under each read option set.
//
// Strengthened (see notes/C01-holes.md): repositories initialised by go-git
// itself (PlainInit WithObjectFormat; Init + SetObjectFormat as clone does),
// ExclusiveAccess on the writing side, memory storage, symlink blobs, a second
// write of every object through another entry point (the "already exists"
// short cut of ObjectWriter.save); reverse: objects reachable only through
// objects/info/alternates, objects in a quarantine (tmp_objdir-incoming-*)
// directory, objects git wrote with core.looseCompression=0, typed lookups on a
// cold cache, and IterEncodedObjects.

import (
	"fmt"
	"io"
	"os"
	"path/filepath"
	"strings"
	"sync"

	"github.com/go-git/go-billy/v6/osfs"
	git "github.com/go-git/go-git/v6"
	"github.com/go-git/go-git/v6/plumbing"
	"github.com/go-git/go-git/v6/plumbing/cache"
	formatcfg "github.com/go-git/go-git/v6/plumbing/format/config"
	"github.com/go-git/go-git/v6/storage/filesystem"
	"github.com/go-git/go-git/v6/storage/filesystem/dotgit"
	"github.com/go-git/go-git/v6/storage/memory"

	"verifmc/fw"
)

func init() {
	fw.Register(&fw.Check{ID: "C01", Level: "exploration", Run: runC01, QuickBudget: 90, ThoroughBudget: 900})
}

type c01Content struct {
	data []byte
	feat string // empty | hdr | big | nul | text
	path string // file holding data (input of git hash-object)
	// special: look-alike, path-like or pattern-filled (not from the enumeration
	// of all short strings)
	special bool
}

func c01Pattern(n int) []byte {
	b := make([]byte, n)
	for i := range b {
		b[i] = byte(i*7 + i/251)
	}
	return b
}

func c01Feat(b []byte) string {
	switch {
	case len(b) == 0:
		return "empty"
	case len(b) > 4000:
		return "big"
	}
	for _, p := range []string{"blob ", "tree ", "commit ", "tag "} {
		if strings.HasPrefix(string(b), p) {
			return "hdr"
		}
	}
	if strings.IndexByte(string(b), 0) >= 0 {
		return "nul"
	}
	return "text"
}

var c01Types = []string{"blob", "tree", "commit", "tag"}

func runC01(c *fw.Ctx) {
	c01Concurrent(c)
	sigma := []string{"\x00", "a", "\n", " ", "0"}
	maxLen := c.Pick(3, 4)
	sizes := []int{4095, 4096, 4097, 32767, 32768, 32769, 65535, 65536}
	if c.Thorough() {
		sizes = append(sizes, 65537, 1<<20+1)
	}
	lookalikes := []string{"blob 3\x00abc", "tree 0\x00", "commit 0\x00", "tag 0\x00", "blob 0\x00", "blob 3\x00ab",
		// path-like texts (symlink targets that a path "normalisation" would change)
		"a/../b", "./a", "a//b", "a/", "/a"}
	c.Bound("alphabet", []string{"NUL", "a", "LF", "SP", "0"})
	c.Bound("max_len", maxLen)
	c.Bound("pattern_sizes", sizes)
	c.Bound("header_lookalikes_and_pathlike_texts", len(lookalikes))
	c.Bound("types", c01Types)
	c.Bound("formats", []string{"sha1", "sha256"})
	c.Bound("write_entries", c01FwdEntries)
	c.Bound("rewrite_pass", "entries set, raw: all contents written a second time through another entry point (object already exists); wtadd: contents of length <= 2 + look-alikes and pattern sizes added again under a second file name")
	c.Bound("configuration_entries_contents", "set-excl, goinit, setfmt: contents of length <= 2 + all look-alikes and pattern sizes")
	c.Bound("read_options", []string{"default", "LargeObjectThreshold=1", "ExclusiveAccess"})
	c.Bound("read_sources", []string{"repository objects", "objects/info/alternates", "objects/tmp_objdir-incoming-*", "git core.looseCompression=0"})
	c.SetRule("every content (all strings over the alphabet up to max_len + header look-alikes + path-like texts + one pattern-filled string per size) x 4 types x 2 formats; forward = go-git writes via each entry point (git-initialised repository: SetEncodedObject, RawObjectWriter, LazyWriter, Worktree.Add of files and of symlinks, SetEncodedObject under ExclusiveAccess; go-git-initialised repository: PlainInit WithObjectFormat, Init+SetObjectFormat; memory storage), id compared with `git hash-object --literally`, then `git cat-file --batch` reads type/size/bytes from the directory go-git wrote and the object count must equal the number of distinct expected ids; then everything is written a second time through another entry point and re-verified; reverse = `git hash-object -w --literally` writes, go-git reads EncodedObject/EncodedObjectSize/HasEncodedObject/IterEncodedObjects under each read option and source and the id is recomputed from the bytes read; an evaluation is one (direction, format, entry|option, type, content); a class is (direction, format, entry|option, type, content feature in {empty,hdr,big,nul,text}) and every class is non-trivial (real bytes go through zlib + hashing)")
	c.Assume("git 2.39.5 hash-object --literally / cat-file --batch are the reference for ids and loose-object reading")
	c.Assume("SetEncodedObject is driven with objects from the storer's own NewEncodedObject (as go-git's porcelain does)")

	// ---- contents on disk
	fdir := c.TempDir("c01-files")
	var cs []c01Content
	add := func(b []byte) {
		p := filepath.Join(fdir, fmt.Sprintf("f%05d", len(cs)))
		aMustWrite(p, b)
		cs = append(cs, c01Content{data: b, feat: c01Feat(b), path: p})
	}
	for _, s := range fw.Strings(sigma, maxLen) {
		add([]byte(s))
	}
	for _, s := range lookalikes {
		add([]byte(s))
		cs[len(cs)-1].special = true
	}
	for _, n := range sizes {
		add(c01Pattern(n))
		cs[len(cs)-1].special = true
	}
	c.Bound("contents", len(cs))
	paths := make([]string, len(cs))
	for i := range cs {
		paths[i] = cs[i].path
	}

	// ---- oracle ids and git-written repositories (reverse direction)
	formats := []string{"sha1", "sha256"}
	oracle := map[string]map[string][]string{} // fmt -> type -> ids
	gitRepo := map[string]string{}
	gitRepo0 := map[string]string{} // written with core.looseCompression=0
	gits := map[string]*fw.Git{}
	gits0 := map[string]*fw.Git{}
	for _, f := range formats {
		gits[f], gitRepo[f] = c.InitRepo("c01-git-"+f, f, true)
		gits0[f], gitRepo0[f] = c.InitRepo("c01-git0-"+f, f, true)
		oracle[f] = map[string][]string{}
		for _, t := range c01Types {
			oracle[f][t] = nil
		}
	}
	var omu sync.Mutex
	c.ParDo(len(formats)*len(c01Types), 0, func(i int) {
		f, t := formats[i/len(c01Types)], c01Types[i%len(c01Types)]
		ids := aHashObjectPaths(gits[f], t, paths, true)
		wantLen := 40
		if f == "sha256" {
			wantLen = 64
		}
		if len(ids[0]) != wantLen {
			fw.Abort("oracle id length %d for %s", len(ids[0]), f)
		}
		ids0 := aHashObjectPaths(gits0[f].C("core.looseCompression=0"), t, paths, true)
		for k := range ids {
			if ids[k] != ids0[k] {
				fw.Abort("git gives two ids for one object (%s, %s)", ids[k], ids0[k])
			}
		}
		omu.Lock()
		oracle[f][t] = ids
		omu.Unlock()
	})
	for _, f := range formats {
		for _, t := range c01Types {
			if oracle[f][t] == nil {
				c.Incomplete("deadline before the oracle ids were computed")
				return
			}
		}
	}
	nTail := len(sizes) + len(lookalikes)
	c.Sample(map[string]any{"content": "", "type": "blob", "sha1": oracle["sha1"]["blob"][0], "sha256": oracle["sha256"]["blob"][0]})
	c.Sample(map[string]any{"content": fw.Q(string(cs[len(cs)-nTail].data)), "type": "tree", "sha1": oracle["sha1"]["tree"][len(cs)-nTail]})

	// ---- other places a reader finds git-written loose objects
	altRepo := map[string]string{}
	incRepo := map[string]string{}
	for _, f := range formats {
		_, altRepo[f] = c.InitRepo("c01-alt-"+f, f, true)
		aMustWrite(filepath.Join(altRepo[f], "objects", "info", "alternates"), []byte(filepath.Join(gitRepo[f], "objects")+"\n"))
		_, incRepo[f] = c.InitRepo("c01-inc-"+f, f, true)
		c01CopyLoose(filepath.Join(gitRepo[f], "objects"), filepath.Join(incRepo[f], "objects", "tmp_objdir-incoming-c01x"))
	}

	type job struct {
		kind  string // fwd | rev
		f     string
		entry string // forward: entry point; reverse: read option / source
		dir   string
	}
	var jobs []job
	for _, f := range formats {
		for _, e := range c01FwdEntries {
			jobs = append(jobs, job{"fwd", f, e, ""})
		}
		for _, o := range []string{"default", "large1", "exclusive"} {
			jobs = append(jobs, job{"rev", f, o, gitRepo[f]})
		}
		jobs = append(jobs, job{"rev", f, "alternate", altRepo[f]}, job{"rev", f, "incoming", incRepo[f]}, job{"rev", f, "level0", gitRepo0[f]})
	}
	c.ParDo(len(jobs), 0, func(i int) {
		j := jobs[i]
		switch j.kind {
		case "fwd":
			c01Forward(c, j.f, j.entry, cs, oracle[j.f])
		case "rev":
			c01Reverse(c, j.f, j.entry, j.dir, cs, oracle[j.f])
		}
	})
}

var c01FwdEntries = []string{"set", "raw", "lazy", "wtadd", "wtlink", "set-excl", "goinit", "setfmt", "mem", "mem-raw", "mem-setfmt"}

// the entry point used for the second write of every content
var c01Rewrite = map[string]string{"set": "raw", "raw": "lazy", "wtadd": "wtadd"}

// entries that vary the repository configuration rather than the writer run
// on the contents of length <= 2 plus all look-alikes and pattern sizes
var c01SmallEntries = map[string]bool{"set-excl": true, "goinit": true, "setfmt": true}

// c01CopyLoose copies the xx/ fan-out directories of a loose object store.
func c01CopyLoose(from, to string) {
	ents, err := os.ReadDir(from)
	if err != nil {
		fw.Abort("read %s: %v", from, err)
	}
	for _, e := range ents {
		if !e.IsDir() || len(e.Name()) != 2 {
			continue
		}
		if err := os.MkdirAll(filepath.Join(to, e.Name()), 0o755); err != nil {
			fw.Abort("mkdir: %v", err)
		}
		fs, err := os.ReadDir(filepath.Join(from, e.Name()))
		if err != nil {
			fw.Abort("read: %v", err)
		}
		for _, o := range fs {
			b, err := os.ReadFile(filepath.Join(from, e.Name(), o.Name()))
			if err != nil {
				fw.Abort("read: %v", err)
			}
			if err := os.WriteFile(filepath.Join(to, e.Name(), o.Name()), b, 0o444); err != nil {
				fw.Abort("write: %v", err)
			}
		}
	}
}

func c01FormatOf(f string) formatcfg.ObjectFormat {
	if f == "sha256" {
		return formatcfg.SHA256
	}
	return formatcfg.SHA1
}

// c01LinkTarget: can the content be the target of a symbolic link?
func c01LinkTarget(b []byte) bool {
	return len(b) > 0 && len(b) < 200 && strings.IndexByte(string(b), 0) < 0
}

// c01ObjStore is what the forward direction needs from a go-git storage.
type c01ObjStore interface {
	NewEncodedObject() plumbing.EncodedObject
	SetEncodedObject(plumbing.EncodedObject) (plumbing.Hash, error)
	RawObjectWriter(plumbing.ObjectType, int64) (io.WriteCloser, error)
	EncodedObject(plumbing.ObjectType, plumbing.Hash) (plumbing.EncodedObject, error)
}

func c01Forward(c *fw.Ctx, f, entry string, cs []c01Content, oracle map[string][]string) {
	fail := func(label, kind, t string, k int, got, want string) {
		key := fmt.Sprintf("forward/%s/%s/%s: %s", label, f, t, kind)
		aFail(c, key, fmt.Sprintf("%s writing a %s of %d bytes via %s in a %s repository: got %s, want %s", kind, t, len(cs[k].data), label, f, got, want),
			map[string]any{"format": f, "entry": label, "type": t, "content": aShort(cs[k].data), "size": len(cs[k].data), "got": got, "want": want})
	}
	setupFail := func(what string, err any) {
		aFail(c, fmt.Sprintf("forward/%s/%s: %s", entry, f, what), fmt.Sprintf("%s (%s repository, entry %s): %v", what, f, entry, err), map[string]any{"format": f, "entry": entry})
	}
	var (
		g    *fw.Git
		dir  string
		st   c01ObjStore
		fst  *filesystem.Storage
		wt   *git.Worktree
		onFS = true
	)
	isWT := entry == "wtadd" || entry == "wtlink"
	var perr string
	switch entry {
	case "goinit":
		dir = c.TempDir("c01-" + f + "-" + entry)
		g = c.GitHome().In(dir)
		perr = aGuard(func() {
			r, err := git.PlainInit(dir, true, git.WithObjectFormat(c01FormatOf(f)))
			if err != nil {
				setupFail("PlainInit WithObjectFormat fails", err)
				return
			}
			fst, _ = r.Storer.(*filesystem.Storage)
		})
	case "setfmt":
		dir = c.TempDir("c01-" + f + "-" + entry)
		g = c.GitHome().In(dir)
		perr = aGuard(func() {
			s := filesystem.NewStorageWithOptions(osfs.New(dir), cache.NewObjectLRUDefault(), filesystem.Options{})
			if _, err := git.Init(s); err != nil {
				setupFail("Init fails", err)
				return
			}
			if err := s.SetObjectFormat(c01FormatOf(f)); err != nil {
				setupFail("SetObjectFormat fails on an empty repository", err)
				return
			}
			fst = s
		})
	case "mem", "mem-raw":
		onFS = false
		st = memory.NewStorage(memory.WithObjectFormat(c01FormatOf(f)))
	case "mem-setfmt":
		onFS = false
		m := memory.NewStorage()
		if err := m.SetObjectFormat(c01FormatOf(f)); err != nil {
			setupFail("memory SetObjectFormat fails on an empty storage", err)
			return
		}
		st = m
	default:
		g, dir = c.InitRepo("c01-"+f+"-"+entry, f, !isWT)
		o := filesystem.Options{}
		if entry == "set-excl" {
			o.ExclusiveAccess = true
		}
		fst = aOpenStorage(aDotGit(dir, !isWT), o)
		if isWT {
			repo, err := git.Open(fst, osfs.New(dir))
			c.Must(err, "git.Open on a git-initialised repository")
			wt, err = repo.Worktree()
			c.Must(err, "Worktree()")
		}
	}
	if perr != "" {
		setupFail("panic while creating the repository", perr)
		return
	}
	if onFS {
		if fst == nil {
			return // reported above
		}
		defer fst.Close()
		st = fst
		if r := g.Run("rev-parse", "--git-dir"); !r.OK() {
			setupFail("git cannot open the repository go-git initialised", strings.TrimSpace(string(r.Err)))
			return
		}
		if got := strings.TrimSpace(string(g.Run("rev-parse", "--show-object-format").Out)); got != f {
			setupFail("git sees another object format in the repository go-git initialised", got)
			return
		}
	}

	// write one content through one entry point
	write := func(how, t string, k int, nth int) (got string, err error, p string) {
		ot := aTypeOf(t)
		data := cs[k].data
		p = aGuard(func() {
			switch how {
			case "set", "set-excl", "goinit", "setfmt", "mem", "mem-setfmt":
				o := st.NewEncodedObject()
				o.SetType(ot)
				w, e := o.Writer()
				if e != nil {
					err = e
					return
				}
				if _, e = w.Write(data); e != nil {
					err = e
					return
				}
				w.Close()
				h, e := st.SetEncodedObject(o)
				err = e
				got = h.String()
			case "raw", "mem-raw":
				w, e := st.RawObjectWriter(ot, int64(len(data)))
				if e != nil {
					err = e
					return
				}
				if _, e = w.Write(data); e != nil {
					err = e
					return
				}
				if e = w.Close(); e != nil {
					err = e
					return
				}
				if ow, ok := w.(*dotgit.ObjectWriter); ok {
					got = ow.Hash().String()
				} else {
					// memory storage: the writer does not tell the id; the
					// object must be found under git's id
					got = "(not stored under " + oracle[t][k] + ")"
					if h, ok := plumbing.FromHex(oracle[t][k]); ok {
						if o, e := st.EncodedObject(plumbing.AnyObject, h); e == nil {
							got = o.Hash().String()
						}
					}
				}
			case "lazy":
				w, wh, e := fst.LazyWriter()
				if e != nil {
					err = e
					return
				}
				if e = wh(ot, int64(len(data))); e != nil {
					err = e
					return
				}
				chunk := 1
				if len(data) > 8 {
					chunk = 4099
				}
				for off := 0; off < len(data); off += chunk {
					end := min(off+chunk, len(data))
					if _, e = w.Write(data[off:end]); e != nil {
						err = e
						return
					}
				}
				if e = w.Close(); e != nil {
					err = e
					return
				}
				got = w.(*dotgit.ObjectWriter).Hash().String()
			case "wtadd":
				name := fmt.Sprintf("w%d-%05d", nth, k)
				mode := os.FileMode(0o644)
				if k%2 == 1 {
					mode = 0o755
				}
				if e := os.WriteFile(filepath.Join(dir, name), data, mode); e != nil {
					fw.Abort("write: %v", e)
				}
				h, e := wt.Add(name)
				err = e
				got = h.String()
			case "wtlink":
				name := fmt.Sprintf("l%d-%05d", nth, k)
				if e := os.Symlink(string(data), filepath.Join(dir, name)); e != nil {
					fw.Abort("symlink: %v", e)
				}
				h, e := wt.Add(name)
				err = e
				got = h.String()
			}
		})
		return
	}
	types := c01Types
	if isWT {
		types = []string{"blob"}
	}
	eligible := func(k int) bool {
		if c01SmallEntries[entry] && len(cs[k].data) > 2 && !cs[k].special {
			return false
		}
		return entry != "wtlink" || c01LinkTarget(cs[k].data)
	}
	expected := map[string]bool{}
	pass := func(how, label string, nth int) bool {
		for _, t := range types {
			for k := range cs {
				if !eligible(k) {
					continue
				}
				if how == "wtadd" && nth == 1 && len(cs[k].data) > 2 && !cs[k].special {
					continue // duplicate content under a second name: the small contents
				}
				if c.Expired() {
					c.Incomplete("deadline in forward " + f + "/" + label)
					return false
				}
				want := oracle[t][k]
				expected[want] = true
				got, err, p := write(how, t, k, nth)
				c.Eval()
				c.Class("fwd/" + f + "/" + label + "/" + t + "/" + cs[k].feat)
				switch {
				case p != "":
					fail(label, "panic", t, k, p, want)
				case err != nil:
					fail(label, "write error", t, k, err.Error(), want)
				case got != want:
					fail(label, "object id differs from git's", t, k, got, want)
				}
				if !onFS {
					// memory storage: what was stored must read back under git's id
					h, _ := plumbing.FromHex(want)
					p := aGuard(func() {
						o, e := st.EncodedObject(plumbing.AnyObject, h)
						if e != nil {
							fail(label, "object not found under git's id", t, k, e.Error(), want)
							return
						}
						rd, e := o.Reader()
						if e != nil {
							fail(label, "Reader error", t, k, e.Error(), "reader")
							return
						}
						b, _ := io.ReadAll(rd)
						rd.Close()
						if o.Type() != aTypeOf(t) || !aEq(b, cs[k].data) {
							fail(label, "stored object reads back differently", t, k, o.Type().String()+" "+aShort(b), t+" "+aShort(cs[k].data))
						}
					})
					if p != "" {
						fail(label, "panic", t, k, p, want)
					}
				}
			}
		}
		return true
	}
	// git reads what go-git wrote.
	verify := func(label string) {
		for _, t := range types {
			var ids []string
			var ks []int
			for k := range cs {
				if eligible(k) {
					ids = append(ids, oracle[t][k])
					ks = append(ks, k)
				}
			}
			infos := g.CatFileBatch(ids)
			for i, in := range infos {
				k := ks[i]
				switch {
				case in.Missing:
					fail(label, "git cannot find the loose object go-git wrote", t, k, "missing", oracle[t][k])
				case in.Type != t:
					fail(label, "git reads another type", t, k, in.Type, t)
				case in.Size != len(cs[k].data):
					fail(label, "git reads another size", t, k, fmt.Sprint(in.Size), fmt.Sprint(len(cs[k].data)))
				case !aEq(in.Data, cs[k].data):
					fail(label, "git reads other bytes", t, k, aShort(in.Data), aShort(cs[k].data))
				}
			}
		}
		all := strings.Fields(string(g.MustRun("cat-file", "--batch-all-objects", "--batch-check=%(objectname)", "--unordered").Out))
		for _, id := range all {
			if !expected[id] {
				aFail(c, fmt.Sprintf("forward/%s/%s: stray object", label, f), "go-git stored an object under a name git did not compute for any input: "+id,
					map[string]any{"format": f, "entry": label, "id": id})
			}
		}
		r := g.Run("fsck", "--no-dangling")
		for _, l := range strings.Split(string(r.Err)+string(r.Out), "\n") {
			// content is arbitrary, so fsck complains about malformed trees/commits;
			// only storage-level complaints matter here.
			if strings.Contains(l, "hash mismatch") || strings.Contains(l, "hash-path mismatch") || strings.Contains(l, "corrupt") || strings.Contains(l, "garbage") || strings.Contains(l, "unable to unpack") {
				aFail(c, fmt.Sprintf("forward/%s/%s: fsck storage complaint", label, f), "git fsck: "+l, map[string]any{"format": f, "entry": label, "line": l})
			}
		}
	}
	if !pass(entry, entry, 0) {
		return
	}
	if !onFS {
		return
	}
	verify(entry)
	// second write of every content (the object already exists), through
	// another entry point; everything must still be as git expects
	re, ok := c01Rewrite[entry]
	if !ok {
		return
	}
	label := entry + "+again-" + re
	if !pass(re, label, 1) {
		return
	}
	verify(label)
}

func c01Reverse(c *fw.Ctx, f, opt, gitDir string, cs []c01Content, oracle map[string][]string) {
	o := filesystem.Options{}
	switch opt {
	case "large1":
		o.LargeObjectThreshold = 1
	case "exclusive":
		o.ExclusiveAccess = true
	case "alternate":
		o.AlternatesFS = osfs.New("/") // the alternates file holds an absolute path
	}
	st := aOpenStorage(gitDir, o)
	defer st.Close()
	oh := plumbing.FromObjectFormat(c01FormatOf(f))
	fail := func(kind, t string, k int, got, want string) {
		key := fmt.Sprintf("reverse/%s/%s/%s: %s", opt, f, t, kind)
		aFail(c, key, fmt.Sprintf("%s reading a git-written %s of %d bytes with options %s in a %s repository: got %s, want %s", kind, t, len(cs[k].data), opt, f, got, want),
			map[string]any{"format": f, "read_option": opt, "type": t, "content": aShort(cs[k].data), "size": len(cs[k].data), "id": oracle[t][k], "got": got, "want": want})
	}
	byID := map[string][2]int{} // id -> (type index, k)
	for ti, t := range c01Types {
		for k := range cs {
			byID[oracle[t][k]] = [2]int{ti, k}
		}
	}
	checkObj := func(obj plumbing.EncodedObject, t string, k int, id string) {
		if obj.Type() != aTypeOf(t) {
			fail("wrong type", t, k, obj.Type().String(), t)
		}
		if obj.Size() != int64(len(cs[k].data)) {
			fail("wrong size", t, k, fmt.Sprint(obj.Size()), fmt.Sprint(len(cs[k].data)))
		}
		rd, err := obj.Reader()
		if err != nil {
			fail("Reader error", t, k, err.Error(), "reader")
			return
		}
		b, err := io.ReadAll(rd)
		rd.Close()
		if err != nil {
			fail("read error", t, k, err.Error(), "bytes")
			return
		}
		if !aEq(b, cs[k].data) {
			fail("wrong bytes", t, k, aShort(b), aShort(cs[k].data))
		}
		if obj.Hash().String() != id {
			fail("wrong id on the object read", t, k, obj.Hash().String(), id)
		}
		re, err := oh.Compute(obj.Type(), b)
		if err != nil || re.String() != id {
			fail("id recomputed from what was read differs", t, k, re.String(), id)
		}
	}
	for _, t := range c01Types {
		ot := aTypeOf(t)
		other := plumbing.BlobObject
		if ot == plumbing.BlobObject {
			other = plumbing.TreeObject
		}
		for k := range cs {
			if c.Expired() {
				c.Incomplete("deadline in reverse " + f + "/" + opt)
				return
			}
			id := oracle[t][k]
			h, ok := plumbing.FromHex(id)
			if !ok {
				fw.Abort("bad oracle id %q", id)
			}
			c.Eval()
			c.Class("rev/" + f + "/" + opt + "/" + t + "/" + cs[k].feat)
			typed := func() {
				if _, err := st.EncodedObject(other, h); err == nil {
					fail("EncodedObject(other type) succeeds", t, k, "object", "ErrObjectNotFound")
				}
				obj, err := st.EncodedObject(ot, h)
				if err != nil {
					fail("EncodedObject(exact type) error", t, k, err.Error(), "object")
					return
				}
				checkObj(obj, t, k, id)
			}
			p := aGuard(func() {
				// odd contents: the typed lookups come first (cold cache)
				if k%2 == 1 {
					typed()
				}
				obj, err := st.EncodedObject(plumbing.AnyObject, h)
				if err != nil {
					fail("EncodedObject error", t, k, err.Error(), "object")
					return
				}
				checkObj(obj, t, k, id)
				if k%2 == 0 {
					typed()
				}
				sz, err := st.EncodedObjectSize(h)
				if err != nil || sz != int64(len(cs[k].data)) {
					fail("EncodedObjectSize", t, k, fmt.Sprint(sz, err), fmt.Sprint(len(cs[k].data)))
				}
				if err := st.HasEncodedObject(h); err != nil {
					fail("HasEncodedObject", t, k, err.Error(), "nil")
				}
			})
			if p != "" {
				fail("panic", t, k, p, "no panic")
			}
		}
	}
	if opt == "alternate" || opt == "incoming" {
		return // the iterator lists the repository's own object directory only
	}
	// IterEncodedObjects: every git-written object, once, with its content.
	for ti, it := range append([]string{"any"}, c01Types...) {
		want := map[string]bool{}
		for t2i, t := range c01Types {
			if it == "any" || ti-1 == t2i {
				for k := range cs {
					want[oracle[t][k]] = true
				}
			}
		}
		ot := plumbing.AnyObject
		if it != "any" {
			ot = aTypeOf(it)
		}
		seen := map[string]int{}
		var iterErr error
		p := aGuard(func() {
			iter, err := st.IterEncodedObjects(ot)
			if err != nil {
				iterErr = err
				return
			}
			iterErr = iter.ForEach(func(obj plumbing.EncodedObject) error {
				id := obj.Hash().String()
				seen[id]++
				c.Eval()
				tk, ok := byID[id]
				if !ok || !want[id] {
					aFail(c, fmt.Sprintf("reverse/%s/%s: IterEncodedObjects(%s) yields an object git did not write", opt, f, it), "id "+id+" type "+obj.Type().String(),
						map[string]any{"format": f, "read_option": opt, "iter": it, "id": id})
					return nil
				}
				c.Class("rev/" + f + "/" + opt + "/iter-" + it + "/" + cs[tk[1]].feat)
				checkObj(obj, c01Types[tk[0]], tk[1], id)
				return nil
			})
		})
		if p != "" || iterErr != nil {
			aFail(c, fmt.Sprintf("reverse/%s/%s: IterEncodedObjects(%s) fails", opt, f, it), fmt.Sprintf("%v %s", iterErr, p), map[string]any{"format": f, "read_option": opt, "iter": it})
			continue
		}
		for id := range want {
			if seen[id] != 1 {
				tk := byID[id]
				fail(fmt.Sprintf("IterEncodedObjects(%s) yields the object %d times", it, seen[id]), c01Types[tk[0]], tk[1], fmt.Sprint(seen[id]), "1")
			}
		}
	}
}

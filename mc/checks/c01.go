package checks

// C01 — object IDs and loose objects identical to git's.
//
// Space: every byte string over {NUL,'a',LF,SP,'0'} up to max_len, header
// look-alikes and pattern-filled strings at buffer-boundary sizes, as each of
// the four object types, in a sha1 and a sha256 repository.
// Forward: written by go-git through SetEncodedObject / RawObjectWriter /
// LazyWriter / Worktree.Add; the returned id must be git's (`hash-object
// --literally`) and git (`cat-file --batch`) must read type, size and bytes
// back from the directory go-git wrote; no object may appear under any other
// name. Reverse: written by `git hash-object -w --literally`; go-git must read
// type, size, bytes and (recomputed) id under each read option set.

import (
	"fmt"
	"io"
	"path/filepath"
	"strings"
	"sync"

	"github.com/go-git/go-billy/v6/osfs"
	git "github.com/go-git/go-git/v6"
	"github.com/go-git/go-git/v6/plumbing"
	formatcfg "github.com/go-git/go-git/v6/plumbing/format/config"
	"github.com/go-git/go-git/v6/storage/filesystem"
	"github.com/go-git/go-git/v6/storage/filesystem/dotgit"

	"verifmc/fw"
)

func init() {
	fw.Register(&fw.Check{ID: "C01", Level: "exploration", Run: runC01, QuickBudget: 90, ThoroughBudget: 900})
}

type c01Content struct {
	data []byte
	feat string // empty | hdr | big | nul | text
	path string // file holding data (input of git hash-object)
}

func c01Pattern(n int) []byte {
	b := make([]byte, n)
	for i := range b {
		b[i] = byte(i*7 + i/251)
	}
	return b
}

func c01Feat(b []byte) string {
	switch {
	case len(b) == 0:
		return "empty"
	case len(b) > 4000:
		return "big"
	}
	for _, p := range []string{"blob ", "tree ", "commit ", "tag "} {
		if strings.HasPrefix(string(b), p) {
			return "hdr"
		}
	}
	if strings.IndexByte(string(b), 0) >= 0 {
		return "nul"
	}
	return "text"
}

var c01Types = []string{"blob", "tree", "commit", "tag"}

func runC01(c *fw.Ctx) {
	c01Concurrent(c)
	sigma := []string{"\x00", "a", "\n", " ", "0"}
	maxLen := c.Pick(3, 4)
	sizes := []int{4095, 4096, 4097, 32767, 32768, 32769, 65535, 65536}
	if c.Thorough() {
		sizes = append(sizes, 65537, 1<<20+1)
	}
	lookalikes := []string{"blob 3\x00abc", "tree 0\x00", "commit 0\x00", "tag 0\x00", "blob 0\x00", "blob 3\x00ab"}
	c.Bound("alphabet", []string{"NUL", "a", "LF", "SP", "0"})
	c.Bound("max_len", maxLen)
	c.Bound("pattern_sizes", sizes)
	c.Bound("header_lookalikes", len(lookalikes))
	c.Bound("types", c01Types)
	c.Bound("formats", []string{"sha1", "sha256"})
	c.Bound("write_entries", []string{"SetEncodedObject", "RawObjectWriter", "LazyWriter", "Worktree.Add(blob)"})
	c.Bound("read_options", []string{"default", "LargeObjectThreshold=1", "ExclusiveAccess"})
	c.SetRule("every content (all strings over the alphabet up to max_len + header look-alikes + one pattern-filled string per size) x 4 types x 2 formats; forward = go-git writes via each entry point, id compared with `git hash-object --literally`, then `git cat-file --batch` reads type/size/bytes from the directory go-git wrote and the object count must equal the number of distinct expected ids; reverse = `git hash-object -w --literally` writes, go-git reads EncodedObject/EncodedObjectSize/HasEncodedObject under each read option and the id is recomputed from the bytes read; an evaluation is one (direction, format, entry|option, type, content); a class is (direction, format, entry|option, type, content feature in {empty,hdr,big,nul,text}) and every class is non-trivial (real bytes go through zlib + hashing)")
	c.Assume("git 2.39.5 hash-object --literally / cat-file --batch are the reference for ids and loose-object reading")
	c.Assume("SetEncodedObject is driven with objects from the storer's own NewEncodedObject (as go-git's porcelain does)")

	// ---- contents on disk
	fdir := c.TempDir("c01-files")
	var cs []c01Content
	add := func(b []byte) {
		p := filepath.Join(fdir, fmt.Sprintf("f%05d", len(cs)))
		aMustWrite(p, b)
		cs = append(cs, c01Content{data: b, feat: c01Feat(b), path: p})
	}
	for _, s := range fw.Strings(sigma, maxLen) {
		add([]byte(s))
	}
	for _, s := range lookalikes {
		add([]byte(s))
	}
	for _, n := range sizes {
		add(c01Pattern(n))
	}
	c.Bound("contents", len(cs))
	paths := make([]string, len(cs))
	for i := range cs {
		paths[i] = cs[i].path
	}

	// ---- oracle ids and git-written repositories (reverse direction)
	formats := []string{"sha1", "sha256"}
	oracle := map[string]map[string][]string{} // fmt -> type -> ids
	gitRepo := map[string]string{}
	gits := map[string]*fw.Git{}
	for _, f := range formats {
		gits[f], gitRepo[f] = c.InitRepo("c01-git-"+f, f, true)
		oracle[f] = map[string][]string{}
		for _, t := range c01Types {
			oracle[f][t] = nil
		}
	}
	var omu sync.Mutex
	c.ParDo(len(formats)*len(c01Types), 0, func(i int) {
		f, t := formats[i/len(c01Types)], c01Types[i%len(c01Types)]
		ids := aHashObjectPaths(gits[f], t, paths, true)
		wantLen := 40
		if f == "sha256" {
			wantLen = 64
		}
		if len(ids[0]) != wantLen {
			fw.Abort("oracle id length %d for %s", len(ids[0]), f)
		}
		omu.Lock()
		oracle[f][t] = ids
		omu.Unlock()
	})
	for _, f := range formats {
		for _, t := range c01Types {
			if oracle[f][t] == nil {
				c.Incomplete("deadline before the oracle ids were computed")
				return
			}
		}
	}
	c.Sample(map[string]any{"content": "", "type": "blob", "sha1": oracle["sha1"]["blob"][0], "sha256": oracle["sha256"]["blob"][0]})
	c.Sample(map[string]any{"content": fw.Q(string(cs[len(cs)-len(sizes)-len(lookalikes)].data)), "type": "tree", "sha1": oracle["sha1"]["tree"][len(cs)-len(sizes)-len(lookalikes)]})

	type job struct {
		fwd   bool
		f     string
		entry string // forward: entry point; reverse: read option
	}
	var jobs []job
	for _, f := range formats {
		for _, e := range []string{"set", "raw", "lazy", "wtadd"} {
			jobs = append(jobs, job{true, f, e})
		}
		for _, o := range []string{"default", "large1", "exclusive"} {
			jobs = append(jobs, job{false, f, o})
		}
	}
	c.ParDo(len(jobs), 0, func(i int) {
		j := jobs[i]
		if j.fwd {
			c01Forward(c, j.f, j.entry, cs, oracle[j.f])
		} else {
			c01Reverse(c, j.f, j.entry, gitRepo[j.f], cs, oracle[j.f])
		}
	})
}

func c01FormatOf(f string) formatcfg.ObjectFormat {
	if f == "sha256" {
		return formatcfg.SHA256
	}
	return formatcfg.SHA1
}

func c01Forward(c *fw.Ctx, f, entry string, cs []c01Content, oracle map[string][]string) {
	bare := entry != "wtadd"
	g, dir := c.InitRepo("c01-"+f+"-"+entry, f, bare)
	st := aOpenStorage(aDotGit(dir, bare), filesystem.Options{})
	defer st.Close()
	var wt *git.Worktree
	if entry == "wtadd" {
		repo, err := git.Open(st, osfs.New(dir))
		c.Must(err, "git.Open on a git-initialised repository")
		wt, err = repo.Worktree()
		c.Must(err, "Worktree()")
	}
	fail := func(kind, t string, k int, got, want string) {
		key := fmt.Sprintf("forward/%s/%s/%s: %s", entry, f, t, kind)
		c.Fail(key, fmt.Sprintf("%s writing a %s of %d bytes via %s in a %s repository: got %s, want %s", kind, t, len(cs[k].data), entry, f, got, want),
			map[string]any{"format": f, "entry": entry, "type": t, "content": aShort(cs[k].data), "size": len(cs[k].data), "got": got, "want": want})
	}
	types := c01Types
	if entry == "wtadd" {
		types = []string{"blob"}
	}
	expected := map[string]bool{}
	for _, t := range types {
		ot := aTypeOf(t)
		for k := range cs {
			if c.Expired() {
				c.Incomplete("deadline in forward " + f + "/" + entry)
				return
			}
			data := cs[k].data
			want := oracle[t][k]
			expected[want] = true
			var got string
			var err error
			p := aGuard(func() {
				switch entry {
				case "set":
					o := st.NewEncodedObject()
					o.SetType(ot)
					w, e := o.Writer()
					if e != nil {
						err = e
						return
					}
					if _, e = w.Write(data); e != nil {
						err = e
						return
					}
					w.Close()
					h, e := st.SetEncodedObject(o)
					err = e
					got = h.String()
				case "raw":
					w, e := st.RawObjectWriter(ot, int64(len(data)))
					if e != nil {
						err = e
						return
					}
					if _, e = w.Write(data); e != nil {
						err = e
						return
					}
					if e = w.Close(); e != nil {
						err = e
						return
					}
					got = w.(*dotgit.ObjectWriter).Hash().String()
				case "lazy":
					w, wh, e := st.LazyWriter()
					if e != nil {
						err = e
						return
					}
					if e = wh(ot, int64(len(data))); e != nil {
						err = e
						return
					}
					chunk := 1
					if len(data) > 8 {
						chunk = 4099
					}
					for off := 0; off < len(data); off += chunk {
						end := min(off+chunk, len(data))
						if _, e = w.Write(data[off:end]); e != nil {
							err = e
							return
						}
					}
					if e = w.Close(); e != nil {
						err = e
						return
					}
					got = w.(*dotgit.ObjectWriter).Hash().String()
				case "wtadd":
					name := fmt.Sprintf("w%05d", k)
					aMustWrite(filepath.Join(dir, name), data)
					h, e := wt.Add(name)
					err = e
					got = h.String()
				}
			})
			c.Eval()
			c.Class("fwd/" + f + "/" + entry + "/" + t + "/" + cs[k].feat)
			switch {
			case p != "":
				fail("panic", t, k, p, want)
			case err != nil:
				fail("write error", t, k, err.Error(), want)
			case got != want:
				fail("object id differs from git's", t, k, got, want)
			}
		}
	}
	// git reads what go-git wrote.
	for _, t := range types {
		infos := g.CatFileBatch(oracle[t])
		for k, in := range infos {
			switch {
			case in.Missing:
				fail("git cannot find the loose object go-git wrote", t, k, "missing", oracle[t][k])
			case in.Type != t:
				fail("git reads another type", t, k, in.Type, t)
			case in.Size != len(cs[k].data):
				fail("git reads another size", t, k, fmt.Sprint(in.Size), fmt.Sprint(len(cs[k].data)))
			case !aEq(in.Data, cs[k].data):
				fail("git reads other bytes", t, k, aShort(in.Data), aShort(cs[k].data))
			}
		}
	}
	all := strings.Fields(string(g.MustRun("cat-file", "--batch-all-objects", "--batch-check=%(objectname)", "--unordered").Out))
	for _, id := range all {
		if !expected[id] {
			c.Fail(fmt.Sprintf("forward/%s/%s: stray object", entry, f), "go-git stored an object under a name git did not compute for any input: "+id,
				map[string]any{"format": f, "entry": entry, "id": id})
		}
	}
	r := g.Run("fsck", "--no-dangling")
	for _, l := range strings.Split(string(r.Err)+string(r.Out), "\n") {
		// content is arbitrary, so fsck complains about malformed trees/commits;
		// only storage-level complaints matter here.
		if strings.Contains(l, "hash mismatch") || strings.Contains(l, "hash-path mismatch") || strings.Contains(l, "corrupt") || strings.Contains(l, "garbage") || strings.Contains(l, "unable to unpack") {
			c.Fail(fmt.Sprintf("forward/%s/%s: fsck storage complaint", entry, f), "git fsck: "+l, map[string]any{"format": f, "entry": entry, "line": l})
		}
	}
}

func c01Reverse(c *fw.Ctx, f, opt, gitDir string, cs []c01Content, oracle map[string][]string) {
	o := filesystem.Options{}
	switch opt {
	case "large1":
		o.LargeObjectThreshold = 1
	case "exclusive":
		o.ExclusiveAccess = true
	}
	st := aOpenStorage(gitDir, o)
	defer st.Close()
	oh := plumbing.FromObjectFormat(c01FormatOf(f))
	fail := func(kind, t string, k int, got, want string) {
		key := fmt.Sprintf("reverse/%s/%s/%s: %s", opt, f, t, kind)
		c.Fail(key, fmt.Sprintf("%s reading a git-written %s of %d bytes with options %s in a %s repository: got %s, want %s", kind, t, len(cs[k].data), opt, f, got, want),
			map[string]any{"format": f, "read_option": opt, "type": t, "content": aShort(cs[k].data), "size": len(cs[k].data), "id": oracle[t][k], "got": got, "want": want})
	}
	for _, t := range c01Types {
		ot := aTypeOf(t)
		other := plumbing.BlobObject
		if ot == plumbing.BlobObject {
			other = plumbing.TreeObject
		}
		for k := range cs {
			if c.Expired() {
				c.Incomplete("deadline in reverse " + f + "/" + opt)
				return
			}
			id := oracle[t][k]
			h, ok := plumbing.FromHex(id)
			if !ok {
				fw.Abort("bad oracle id %q", id)
			}
			c.Eval()
			c.Class("rev/" + f + "/" + opt + "/" + t + "/" + cs[k].feat)
			p := aGuard(func() {
				obj, err := st.EncodedObject(plumbing.AnyObject, h)
				if err != nil {
					fail("EncodedObject error", t, k, err.Error(), "object")
					return
				}
				if obj.Type() != ot {
					fail("wrong type", t, k, obj.Type().String(), t)
				}
				if obj.Size() != int64(len(cs[k].data)) {
					fail("wrong size", t, k, fmt.Sprint(obj.Size()), fmt.Sprint(len(cs[k].data)))
				}
				rd, err := obj.Reader()
				if err != nil {
					fail("Reader error", t, k, err.Error(), "reader")
					return
				}
				b, err := io.ReadAll(rd)
				rd.Close()
				if err != nil {
					fail("read error", t, k, err.Error(), "bytes")
					return
				}
				if !aEq(b, cs[k].data) {
					fail("wrong bytes", t, k, aShort(b), aShort(cs[k].data))
				}
				if obj.Hash().String() != id {
					fail("wrong id on the object read", t, k, obj.Hash().String(), id)
				}
				re, err := oh.Compute(obj.Type(), b)
				if err != nil || re.String() != id {
					fail("id recomputed from what was read differs", t, k, re.String(), id)
				}
				if _, err := st.EncodedObject(ot, h); err != nil {
					fail("EncodedObject(exact type) error", t, k, err.Error(), "object")
				}
				if _, err := st.EncodedObject(other, h); err == nil {
					fail("EncodedObject(other type) succeeds", t, k, "object", "ErrObjectNotFound")
				}
				sz, err := st.EncodedObjectSize(h)
				if err != nil || sz != int64(len(cs[k].data)) {
					fail("EncodedObjectSize", t, k, fmt.Sprint(sz, err), fmt.Sprint(len(cs[k].data)))
				}
				if err := st.HasEncodedObject(h); err != nil {
					fail("HasEncodedObject", t, k, err.Error(), "nil")
				}
			})
			if p != "" {
				fail("panic", t, k, p, "no panic")
			}
		}
	}
}

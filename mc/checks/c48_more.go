package checks

import (
	"bytes"
	"fmt"
	"os"
	"path/filepath"
	"sort"
	"strings"
	"sync"
	"unicode/utf8"

	gogitcfg "github.com/go-git/go-git/v6/config"
	format "github.com/go-git/go-git/v6/plumbing/format/config"
	"github.com/go-git/go-git/v6/plumbing/protocol"

	"verifmc/fw"
)

// Further parts of C48 (called from runC48):
//
//	P1s  section structure: repeated / case-variant sections and subsections
//	P2k  interpreted settings: key and section spelled in other cases, assigned
//	     twice (last one wins), section repeated
//	P3t  typed Config fields (booleans, numbers, enumerations) written by Marshal
//	P3r  read - modify - Marshal again (state kept in Raw and in the entities)
//	P3m  .gitmodules (config.Modules) written by Marshal
func c48More(c *fw.Ctx, g *fw.Git) {
	c48P1s(c, g)
	c48P2k(c, g)
	c48P3t(c, g)
	c48P3r(c, g)
	c48P3m(c, g)
}

// c48ListFiles writes the datas to files and lists them with one git process.
func c48ListFiles(c *fw.Ctx, g *fw.Git, datas [][]byte) (got [][]gitCfgEntry, rejected []bool) {
	dir := c.TempDir("c48-more")
	defer os.RemoveAll(dir)
	files := make([]string, len(datas))
	for i, d := range datas {
		files[i] = filepath.Join(dir, fmt.Sprintf("f%d", i))
		c.Must(os.WriteFile(files[i], d, 0o644), "write case")
	}
	m, rej := c48GitList(c, g, dir, files)
	got = make([][]gitCfgEntry, len(datas))
	rejected = make([]bool, len(datas))
	for i, f := range files {
		got[i], rejected[i] = m[f], rej[f]
	}
	return got, rejected
}

func c48Map(es []gitCfgEntry) map[string][]string {
	m := map[string][]string{}
	for _, e := range es {
		m[e.Key] = append(m[e.Key], e.Value)
	}
	return m
}

// ---------------------------------------------------------------- P1s

func c48P1s(c *fw.Ctx, g *fw.Git) {
	prefix := "[s \"X\"]\nk=v\n"
	tokens := []string{"k=w\n", "[s \"X\"]\n", "[s \"x\"]\n", "[s]\n", "[S \"X\"]\n", "[S]\n", "K=u\n", "[s \"\"]\n", "[t \"X\"]\n", "k\n"} // a key on the header line is a known decoder defect (P1) and is left out here
	maxLen := c.Pick(4, 5)
	c.Bound("p1s_prefix", prefix)
	c.Bound("p1s_tokens", tokens)
	c.Bound("p1s_max_tokens", maxLen)
	n := fw.CountStrings(len(tokens), maxLen)
	const chunk = 1024
	res := make([]uint8, n)
	content := func(seq []int) []byte {
		var b bytes.Buffer
		b.WriteString(prefix)
		for _, t := range seq {
			b.WriteString(tokens[t])
		}
		return b.Bytes()
	}
	c.ParDo((n+chunk-1)/chunk, 0, func(ci int) {
		var datas [][]byte
		var idx []int
		for i := ci * chunk; i < (ci+1)*chunk && i < n; i++ {
			datas = append(datas, content(c41SeqAt(len(tokens), i)))
			idx = append(idx, i)
			c.Eval()
		}
		got, rej := c48ListFiles(c, g, datas)
		for j, i := range idx {
			if rej[j] {
				res[i] = c48GitRejects
				continue
			}
			es, err, pv := c48Decode(datas[j])
			switch {
			case pv != nil:
				res[i] = c48GoGitPanics
			case err != nil:
				res[i] = c48GoGitError
			default:
				res[i] = uint8(c48Compare(got[j], es))
			}
			var ks []string
			for k, v := range c48Map(got[j]) {
				ks = append(ks, fmt.Sprintf("%s*%d", k, len(v)))
			}
			sort.Strings(ks)
			c.Class(fmt.Sprintf("P1s|%d|%s", res[i], strings.Join(ks, ",")))
		}
	})
	if c.Expired() {
		return
	}
	memo := map[string]uint8{}
	single := func(seq []int) uint8 {
		if len(seq) <= maxLen {
			return res[c48SeqIndex(len(tokens), seq)]
		}
		k := fmt.Sprint(seq)
		if v, ok := memo[k]; ok {
			return v
		}
		d := content(seq)
		got, rej := c48ListFiles(c, g, [][]byte{d})
		v := uint8(c48GitRejects)
		if !rej[0] {
			es, err, pv := c48Decode(d)
			switch {
			case pv != nil:
				v = c48GoGitPanics
			case err != nil:
				v = c48GoGitError
			default:
				v = uint8(c48Compare(got[0], es))
			}
		}
		memo[k] = v
		return v
	}
	seen := map[string]bool{}
	for i, r := range res {
		if r < c48GoGitError {
			continue
		}
		seq := c41SeqAt(len(tokens), i)
		min := fw.MinSeq(seq, func(x int) []int {
			var lower []int
			for l := 0; l < x; l++ {
				lower = append(lower, l)
			}
			return lower
		}, func(s []int) bool { return single(s) == r })
		data := content(min)
		key := fmt.Sprintf("P1s %s: %s", c48ClassName[int(r)], fw.Q(string(data)))
		if seen[key] {
			continue
		}
		seen[key] = true
		ges, _ := gitCfgModel(data)
		oes, err, pv := c48Decode(data)
		c.Fail(key, fmt.Sprintf("%s (minimised from %s)", key, fw.Q(string(content(seq)))),
			map[string]any{"file": string(content(seq)), "minimal_file": string(data), "git_model_entries": ges, "gogit_entries": oes, "gogit_error": fmt.Sprint(err), "panic": fmt.Sprint(pv)})
	}
}

// ---------------------------------------------------------------- P2k

func c48P2k(c *fw.Ctx, g *fw.Git) {
	type field struct {
		name, section, sub, key string
		get                     func(*gogitcfg.Config) string
	}
	remoteGet := func(f func(*gogitcfg.RemoteConfig) string) func(*gogitcfg.Config) string {
		return func(x *gogitcfg.Config) string {
			if r := x.Remotes["o"]; r != nil {
				return f(r)
			}
			return "no remote"
		}
	}
	fields := []field{
		{"core.bare", "core", "", "bare", func(x *gogitcfg.Config) string { return fmt.Sprint(x.Core.IsBare) }},
		{"core.filemode", "core", "", "filemode", func(x *gogitcfg.Config) string { return fmt.Sprint(x.Core.FileMode) }},
		{"core.protectNTFS", "core", "", "protectNTFS", func(x *gogitcfg.Config) string { return c48OptBool(x.Core.ProtectNTFS) }},
		{"core.protectHFS", "core", "", "protectHFS", func(x *gogitcfg.Config) string { return c48OptBool(x.Core.ProtectHFS) }},
		{"tag.gpgSign", "tag", "", "gpgSign", func(x *gogitcfg.Config) string { return c48OptBool(x.Tag.GpgSign) }},
		{"commit.gpgSign", "commit", "", "gpgSign", func(x *gogitcfg.Config) string { return c48OptBool(x.Commit.GpgSign) }},
		{"index.skipHash", "index", "", "skipHash", func(x *gogitcfg.Config) string { return c48OptBool(x.Index.SkipHash) }},
		{"uploadArchive.allowUnreachable", "uploadArchive", "", "allowUnreachable", func(x *gogitcfg.Config) string { return c48OptBool(x.UploadArchive.AllowUnreachable) }},
		{"pack.readReverseIndex", "pack", "", "readReverseIndex", func(x *gogitcfg.Config) string { return fmt.Sprint(x.Pack.ReadReverseIndex) }},
		{"pack.writeReverseIndex", "pack", "", "writeReverseIndex", func(x *gogitcfg.Config) string { return fmt.Sprint(x.Pack.WriteReverseIndex) }},
		{"pack.window", "pack", "", "window", func(x *gogitcfg.Config) string { return fmt.Sprint(x.Pack.Window) }},
		{"remote.o.mirror", "remote", "o", "mirror", remoteGet(func(r *gogitcfg.RemoteConfig) string { return fmt.Sprint(r.Mirror) })},
		{"remote.o.promisor", "remote", "o", "promisor", remoteGet(func(r *gogitcfg.RemoteConfig) string { return fmt.Sprint(r.Promisor) })},
		{"user.name", "user", "", "name", func(x *gogitcfg.Config) string { return x.User.Name }},
		{"init.defaultBranch", "init", "", "defaultBranch", func(x *gogitcfg.Config) string { return x.Init.DefaultBranch }},
		{"core.hooksPath", "core", "", "hooksPath", func(x *gogitcfg.Config) string { return x.Core.HooksPath }},
		{"branch.o.remote", "branch", "o", "remote", func(x *gogitcfg.Config) string {
			if b := x.Branches["o"]; b != nil {
				return b.Remote
			}
			return "no branch"
		}},
		{"remote.o.partialclonefilter", "remote", "o", "partialclonefilter", remoteGet(func(r *gogitcfg.RemoteConfig) string { return r.PartialCloneFilter })},
	}
	hdr := func(sec, sub string) string {
		if sub == "" {
			return "[" + sec + "]\n"
		}
		return "[" + sec + " \"" + sub + "\"]\n"
	}
	type layout struct {
		name string
		text func(f field, v1, v2 string) string // the file assigns v1 first and v2 last
	}
	extra := func(f field) string {
		if f.section == "remote" {
			return "\turl = https://example.com/r\n"
		}
		return ""
	}
	layouts := []layout{
		{"lower-case key", func(f field, _, v2 string) string {
			return hdr(f.section, f.sub) + extra(f) + "\t" + strings.ToLower(f.key) + " = " + v2 + "\n"
		}},
		{"upper-case key", func(f field, _, v2 string) string {
			return hdr(f.section, f.sub) + extra(f) + "\t" + strings.ToUpper(f.key) + " = " + v2 + "\n"
		}},
		{"upper-case section", func(f field, _, v2 string) string {
			return hdr(strings.ToUpper(f.section), f.sub) + extra(f) + "\t" + f.key + " = " + v2 + "\n"
		}},
		{"assigned twice", func(f field, v1, v2 string) string {
			return hdr(f.section, f.sub) + extra(f) + "\t" + f.key + " = " + v1 + "\n\t" + f.key + " = " + v2 + "\n"
		}},
		{"assigned twice in different case", func(f field, v1, v2 string) string {
			return hdr(f.section, f.sub) + extra(f) + "\t" + strings.ToUpper(f.key) + " = " + v1 + "\n\t" + strings.ToLower(f.key) + " = " + v2 + "\n"
		}},
		{"section repeated", func(f field, v1, v2 string) string {
			return hdr(f.section, f.sub) + extra(f) + "\t" + f.key + " = " + v1 + "\n[other]\n\tx = y\n" + hdr(f.section, f.sub) + "\t" + f.key + " = " + v2 + "\n"
		}},
		{"section repeated in different case", func(f field, v1, v2 string) string {
			return hdr(strings.ToUpper(f.section), f.sub) + extra(f) + "\t" + f.key + " = " + v1 + "\n" + hdr(f.section, f.sub) + "\t" + f.key + " = " + v2 + "\n"
		}},
		{"other subsection in between", func(f field, v1, v2 string) string {
			return hdr(f.section, "zz") + extra(f) + "\t" + f.key + " = " + v1 + "\n" + hdr(f.section, f.sub) + extra(f) + "\t" + f.key + " = " + v2 + "\n"
		}},
	}
	var lnames, fnames []string
	for _, l := range layouts {
		lnames = append(lnames, l.name)
	}
	for _, f := range fields {
		fnames = append(fnames, f.name)
	}
	c.Bound("p2k_layouts", lnames)
	c.Bound("p2k_fields", fnames)
	type cs struct {
		f      field
		l      layout
		v1, v2 string
		data   []byte
	}
	var cases []cs
	for _, f := range fields {
		pairs := [][2]string{{"true", "false"}, {"false", "true"}}
		switch {
		case f.key == "window":
			pairs = [][2]string{{"3", "7"}, {"7", "3"}}
		case !strings.Contains("bare filemode protectNTFS protectHFS gpgSign skipHash allowUnreachable readReverseIndex writeReverseIndex mirror promisor", f.key):
			pairs = [][2]string{{"one", "two"}, {"two", "one"}}
		}
		for _, l := range layouts {
			for _, p := range pairs {
				cases = append(cases, cs{f, l, p[0], p[1], []byte(l.text(f, p[0], p[1]))})
			}
		}
	}
	datas := make([][]byte, len(cases))
	for i := range cases {
		datas[i] = cases[i].data
	}
	got, rej := c48ListFiles(c, g, datas)
	bad := map[string][]string{}
	detail := map[string]map[string]any{}
	for i, k := range cases {
		c.Eval()
		if rej[i] {
			fw.Abort("git refuses a P2k file: %q", k.data)
		}
		gk := strings.ToLower(k.f.section) + "."
		if k.f.sub != "" {
			gk += k.f.sub + "."
		}
		gk += strings.ToLower(k.f.key)
		vals := c48Map(got[i])[gk]
		if len(vals) == 0 {
			fw.Abort("git does not list %s in %q", gk, k.data)
		}
		want := vals[len(vals)-1] // git: the last assignment wins for single-valued settings
		if want != k.v2 {
			fw.Abort("git's last value of %s is %q, expected %q", gk, want, k.v2)
		}
		gotv := ""
		func() {
			defer func() {
				if r := recover(); r != nil {
					gotv = fmt.Sprintf("panic: %v", r)
				}
			}()
			cfg := gogitcfg.NewConfig()
			if err := cfg.Unmarshal(k.data); err != nil {
				gotv = "error: " + err.Error()
				return
			}
			gotv = k.f.get(cfg)
		}()
		c.Class(fmt.Sprintf("P2k|%s|%s|%v", k.f.name, k.l.name, gotv == want))
		if gotv != want {
			key := fmt.Sprintf("P2k %s: %s", k.l.name, k.f.name)
			bad[key] = append(bad[key], fmt.Sprintf("%s->%s", want, gotv))
			detail[key] = map[string]any{"file": string(k.data), "git": want, "go-git": gotv}
		}
	}
	// a layout failing for 4+ fields is one key
	perLayout := map[string][]string{}
	for key := range bad {
		l := strings.SplitN(strings.TrimPrefix(key, "P2k "), ": ", 2)
		perLayout[l[0]] = append(perLayout[l[0]], l[1])
	}
	var keys []string
	for key := range bad {
		keys = append(keys, key)
	}
	sort.Strings(keys)
	done := map[string]bool{}
	for _, key := range keys {
		l := strings.SplitN(strings.TrimPrefix(key, "P2k "), ": ", 2)
		k2 := key
		if len(perLayout[l[0]]) >= 4 {
			k2 = fmt.Sprintf("P2k %s (many settings)", l[0])
		}
		if done[k2] {
			continue
		}
		done[k2] = true
		c.Fail(k2, fmt.Sprintf("go-git interprets a setting differently from git when the file is laid out as: %s (%v)", l[0], bad[key]), detail[key])
	}
}

// ---------------------------------------------------------------- P3t

func c48P3t(c *fw.Ctx, g *fw.Git) {
	type tc struct {
		name     string
		set      func(*gogitcfg.Config)
		gitKey   string
		gitType  string // bool | int | ""
		wantGit  string
		absentOK bool // go-git may leave the variable out because the value is git's default
		get      func(*gogitcfg.Config) string
		want     string
	}
	var cases []tc
	b2s := func(b bool) string { return fmt.Sprint(b) }
	remote := func(x *gogitcfg.Config) *gogitcfg.RemoteConfig {
		if x.Remotes["o"] == nil {
			x.Remotes["o"] = &gogitcfg.RemoteConfig{Name: "o", URLs: []string{"https://example.com/r"}}
		}
		return x.Remotes["o"]
	}
	rget := func(f func(*gogitcfg.RemoteConfig) string) func(*gogitcfg.Config) string {
		return func(x *gogitcfg.Config) string {
			if x.Remotes["o"] == nil {
				return "no remote"
			}
			return f(x.Remotes["o"])
		}
	}
	branch := func(x *gogitcfg.Config) *gogitcfg.Branch {
		if x.Branches["m"] == nil {
			x.Branches["m"] = &gogitcfg.Branch{Name: "m"}
		}
		return x.Branches["m"]
	}
	bget := func(f func(*gogitcfg.Branch) string) func(*gogitcfg.Config) string {
		return func(x *gogitcfg.Config) string {
			if x.Branches["m"] == nil {
				return "no branch"
			}
			return f(x.Branches["m"])
		}
	}
	for _, v := range []bool{true, false} {
		v := v
		cases = append(cases,
			tc{"Core.IsBare=" + b2s(v), func(x *gogitcfg.Config) { x.Core.IsBare = v }, "core.bare", "bool", b2s(v), false, func(x *gogitcfg.Config) string { return b2s(x.Core.IsBare) }, b2s(v)},
			tc{"Core.FileMode=" + b2s(v), func(x *gogitcfg.Config) { x.Core.FileMode = v }, "core.filemode", "bool", b2s(v), false, func(x *gogitcfg.Config) string { return b2s(x.Core.FileMode) }, b2s(v)},
			tc{"Pack.ReadReverseIndex=" + b2s(v), func(x *gogitcfg.Config) { x.Pack.ReadReverseIndex = v }, "pack.readreverseindex", "bool", b2s(v), v, func(x *gogitcfg.Config) string { return b2s(x.Pack.ReadReverseIndex) }, b2s(v)},
			tc{"Pack.WriteReverseIndex=" + b2s(v), func(x *gogitcfg.Config) { x.Pack.WriteReverseIndex = v }, "pack.writereverseindex", "bool", b2s(v), v, func(x *gogitcfg.Config) string { return b2s(x.Pack.WriteReverseIndex) }, b2s(v)},
			tc{"Remote.Mirror=" + b2s(v), func(x *gogitcfg.Config) { remote(x).Mirror = v }, "remote.o.mirror", "bool", b2s(v), !v, rget(func(r *gogitcfg.RemoteConfig) string { return b2s(r.Mirror) }), b2s(v)},
			tc{"Remote.Promisor=" + b2s(v), func(x *gogitcfg.Config) { remote(x).Promisor = v }, "remote.o.promisor", "bool", b2s(v), !v, rget(func(r *gogitcfg.RemoteConfig) string { return b2s(r.Promisor) }), b2s(v)},
			tc{"Extensions.WorktreeConfig=" + b2s(v), func(x *gogitcfg.Config) {
				x.Core.RepositoryFormatVersion = format.Version1
				x.Extensions.WorktreeConfig = v
			}, "extensions.worktreeconfig", "bool", b2s(v), !v, func(x *gogitcfg.Config) string { return b2s(x.Extensions.WorktreeConfig) }, b2s(v)},
		)
	}
	for _, o := range []gogitcfg.OptBool{gogitcfg.OptBoolUnset, gogitcfg.OptBoolTrue, gogitcfg.OptBoolFalse} {
		o := o
		wg, abs := c48OptBool(o), false
		if !o.IsSet() {
			wg, abs = "", true
		}
		cases = append(cases,
			tc{"Core.ProtectNTFS=" + c48OptBool(o), func(x *gogitcfg.Config) { x.Core.ProtectNTFS = o }, "core.protectntfs", "bool", wg, abs, func(x *gogitcfg.Config) string { return c48OptBool(x.Core.ProtectNTFS) }, c48OptBool(o)},
			tc{"Core.ProtectHFS=" + c48OptBool(o), func(x *gogitcfg.Config) { x.Core.ProtectHFS = o }, "core.protecthfs", "bool", wg, abs, func(x *gogitcfg.Config) string { return c48OptBool(x.Core.ProtectHFS) }, c48OptBool(o)},
			tc{"Tag.GpgSign=" + c48OptBool(o), func(x *gogitcfg.Config) { x.Tag.GpgSign = o }, "tag.gpgsign", "bool", wg, abs, func(x *gogitcfg.Config) string { return c48OptBool(x.Tag.GpgSign) }, c48OptBool(o)},
			tc{"Commit.GpgSign=" + c48OptBool(o), func(x *gogitcfg.Config) { x.Commit.GpgSign = o }, "commit.gpgsign", "bool", wg, abs, func(x *gogitcfg.Config) string { return c48OptBool(x.Commit.GpgSign) }, c48OptBool(o)},
			tc{"Index.SkipHash=" + c48OptBool(o), func(x *gogitcfg.Config) { x.Index.SkipHash = o }, "index.skiphash", "bool", wg, abs, func(x *gogitcfg.Config) string { return c48OptBool(x.Index.SkipHash) }, c48OptBool(o)},
			tc{"UploadArchive.AllowUnreachable=" + c48OptBool(o), func(x *gogitcfg.Config) { x.UploadArchive.AllowUnreachable = o }, "uploadarchive.allowunreachable", "bool", wg, abs, func(x *gogitcfg.Config) string { return c48OptBool(x.UploadArchive.AllowUnreachable) }, c48OptBool(o)},
		)
	}
	for _, w := range []uint{0, 1, 9, 10, 11, 250, 65536, 4294967295} {
		w := w
		cases = append(cases, tc{fmt.Sprintf("Pack.Window=%d", w), func(x *gogitcfg.Config) { x.Pack.Window = w }, "pack.window", "", fmt.Sprint(w), w == gogitcfg.DefaultPackWindow,
			func(x *gogitcfg.Config) string { return fmt.Sprint(x.Pack.Window) }, fmt.Sprint(w)})
	}
	for _, v := range []protocol.Version{protocol.V0, protocol.V1, protocol.V2} {
		v := v
		cases = append(cases, tc{"Protocol.Version=" + v.String(), func(x *gogitcfg.Config) { x.Protocol.Version = v }, "protocol.version", "", v.String(), v == gogitcfg.DefaultProtocolVersion,
			func(x *gogitcfg.Config) string { return x.Protocol.Version.String() }, v.String()})
	}
	for _, of := range []format.ObjectFormat{format.SHA1, format.SHA256} {
		of := of
		cases = append(cases, tc{"Extensions.ObjectFormat=" + string(of), func(x *gogitcfg.Config) {
			x.Core.RepositoryFormatVersion = format.Version1
			x.Extensions.ObjectFormat = of
		}, "extensions.objectformat", "", string(of), false, func(x *gogitcfg.Config) string { return string(x.Extensions.ObjectFormat) }, string(of)})
	}
	cases = append(cases,
		tc{"Core.RepositoryFormatVersion=1", func(x *gogitcfg.Config) { x.Core.RepositoryFormatVersion = format.Version1 }, "core.repositoryformatversion", "", "1", false,
			func(x *gogitcfg.Config) string { return string(x.Core.RepositoryFormatVersion) }, "1"},
		tc{"Core.CommentChar=;", func(x *gogitcfg.Config) { x.Core.CommentChar = ";" }, "core.commentchar", "", ";", false,
			func(x *gogitcfg.Config) string { return x.Core.CommentChar }, ";"},
		tc{"Branch.Merge", func(x *gogitcfg.Config) { branch(x).Merge = "refs/heads/m" }, "branch.m.merge", "", "refs/heads/m", false,
			bget(func(b *gogitcfg.Branch) string { return string(b.Merge) }), "refs/heads/m"},
		tc{"Remote.Fetch x2", func(x *gogitcfg.Config) {
			remote(x).Fetch = []gogitcfg.RefSpec{"+refs/heads/*:refs/remotes/o/*", "refs/tags/*:refs/tags/*"}
		}, "remote.o.fetch", "", "+refs/heads/*:refs/remotes/o/*\x1frefs/tags/*:refs/tags/*", false,
			rget(func(r *gogitcfg.RemoteConfig) string {
				var s []string
				for _, f := range r.Fetch {
					s = append(s, f.String())
				}
				return strings.Join(s, "\x1f")
			}), "+refs/heads/*:refs/remotes/o/*\x1frefs/tags/*:refs/tags/*"},
	)
	for _, v := range []string{"true", "input", "false"} {
		v := v
		cases = append(cases, tc{"Core.AutoCRLF=" + v, func(x *gogitcfg.Config) { x.Core.AutoCRLF = v }, "core.autocrlf", "", v, false, func(x *gogitcfg.Config) string { return x.Core.AutoCRLF }, v})
	}
	for _, v := range []string{"true", "interactive", "false"} {
		v := v
		cases = append(cases, tc{"Branch.Rebase=" + v, func(x *gogitcfg.Config) { branch(x).Rebase = v }, "branch.m.rebase", "", v, false, bget(func(b *gogitcfg.Branch) string { return b.Rebase }), v})
	}
	var names []string
	for _, k := range cases {
		names = append(names, k.name)
	}
	c.Bound("p3t_typed_field_values", names)

	datas := make([][]byte, len(cases))
	merr := make([]string, len(cases))
	for i, k := range cases {
		func() {
			defer func() {
				if r := recover(); r != nil {
					merr[i] = fmt.Sprintf("panic: %v", r)
				}
			}()
			cfg := gogitcfg.NewConfig()
			k.set(cfg)
			if err := cfg.Validate(); err != nil {
				merr[i] = "Validate: " + err.Error()
				return
			}
			b, err := cfg.Marshal()
			if err != nil {
				merr[i] = "Marshal: " + err.Error()
				return
			}
			datas[i] = b
		}()
	}
	got, rej := c48ListFiles(c, g, datas)
	dir := c.TempDir("c48-p3t")
	var mu sync.Mutex
	type fl struct{ key, what string }
	var fails []fl
	c.ParDo(len(cases), 0, func(i int) {
		k := cases[i]
		c.Eval()
		add := func(kind, what string) {
			mu.Lock()
			fails = append(fails, fl{fmt.Sprintf("P3t %s: %s", kind, k.name), what})
			mu.Unlock()
		}
		if merr[i] != "" {
			add("Marshal fails", merr[i])
			return
		}
		if rej[i] {
			add("git cannot parse what go-git wrote", fw.Q(string(datas[i])))
			return
		}
		vals := c48Map(got[i])[k.gitKey]
		gitSees := strings.Join(vals, "\x1f")
		if k.gitType != "" && len(vals) > 0 {
			f := filepath.Join(dir, fmt.Sprintf("t%d", i))
			c.Must(os.WriteFile(f, datas[i], 0o644), "write")
			r := g.Run("config", "--file", f, "--type="+k.gitType, "--get", k.gitKey)
			if r.Code != 0 {
				gitSees = "git refuses the value: " + strings.TrimSpace(string(r.Err))
			} else {
				gitSees = r.S()
			}
		}
		okGit := gitSees == k.wantGit || (len(vals) == 0 && k.absentOK)
		back := ""
		func() {
			defer func() {
				if r := recover(); r != nil {
					back = fmt.Sprintf("panic: %v", r)
				}
			}()
			cfg2, err := gogitcfg.ReadConfig(bytes.NewReader(datas[i]))
			if err != nil {
				back = "error: " + err.Error()
				return
			}
			back = k.get(cfg2)
		}()
		c.Class(fmt.Sprintf("P3t|%s|%v|%v|%d", k.name, okGit, back == k.want, len(vals)))
		if !okGit {
			add("git reads back a different value", fmt.Sprintf("wrote %s, git reads %s = %q from %s", k.name, k.gitKey, gitSees, fw.Q(string(datas[i]))))
		}
		if back != k.want {
			add("go-git reads back a different value", fmt.Sprintf("wrote %s, go-git reads %q from %s", k.name, back, fw.Q(string(datas[i]))))
		}
	})
	sort.Slice(fails, func(a, b int) bool { return fails[a].key < fails[b].key })
	for _, f := range fails {
		c.Fail(f.key, f.key+" :: "+f.what, map[string]any{"detail": f.what})
	}
}

// ---------------------------------------------------------------- P3r

const c48BaseFile = `[core]
	bare = false
	filemode = true
	custom = x
[remote "o"]
	url = https://example.com/o
	fetch = +refs/heads/*:refs/remotes/o/*
	custom = y
[remote "p"]
	url = https://example.com/p
	url = https://example.com/p2
	fetch = +refs/heads/*:refs/remotes/p/*
[remote "q"]
	url = x:repo
	fetch = +refs/heads/*:refs/remotes/q/*
[branch "m"]
	remote = o
	merge = refs/heads/m
[branch "n"]
	remote = p
	merge = refs/heads/n
[url "https://x/"]
	insteadOf = x:
[url "https://y/"]
	insteadOf = y:
	insteadOf = yy:
[submodule "s"]
	url = https://example.com/s
[submodule "t"]
	url = https://example.com/t
[other "Sub"]
	k = v
	k = w
[user]
	name = N
`

func c48P3r(c *fw.Ctx, g *fw.Git) {
	type scenario struct {
		name   string
		mod    func(x *gogitcfg.Config)
		expect func(m map[string][]string) // edits git's listing of the base file into the expected listing
	}
	del := func(m map[string][]string, prefix string) {
		for k := range m {
			if strings.HasPrefix(k, prefix) {
				delete(m, k)
			}
		}
	}
	scenarios := []scenario{
		{"unchanged", func(x *gogitcfg.Config) {}, func(m map[string][]string) {}},
		{"marshal twice", func(x *gogitcfg.Config) { _, _ = x.Marshal() }, func(m map[string][]string) {}},
		{"delete remote o", func(x *gogitcfg.Config) { delete(x.Remotes, "o") }, func(m map[string][]string) { del(m, "remote.o.") }},
		{"delete remote p (multi-valued url)", func(x *gogitcfg.Config) { delete(x.Remotes, "p") }, func(m map[string][]string) { del(m, "remote.p.") }},
		{"delete every remote", func(x *gogitcfg.Config) { x.Remotes = map[string]*gogitcfg.RemoteConfig{} }, func(m map[string][]string) { del(m, "remote.") }},
		{"delete branch m", func(x *gogitcfg.Config) { delete(x.Branches, "m") }, func(m map[string][]string) { del(m, "branch.m.") }},
		{"delete first url rule", func(x *gogitcfg.Config) { x.URLs = x.URLs[1:] }, func(m map[string][]string) { del(m, "url.https://x/.") }},
		{"delete submodule s", func(x *gogitcfg.Config) { delete(x.Submodules, "s") }, func(m map[string][]string) { del(m, "submodule.s.") }},
		{"change url of o", func(x *gogitcfg.Config) { x.Remotes["o"].URLs = []string{"https://example.com/new"} },
			func(m map[string][]string) { m["remote.o.url"] = []string{"https://example.com/new"} }},
		{"drop second url of p", func(x *gogitcfg.Config) { x.Remotes["p"].URLs = x.Remotes["p"].URLs[:1] },
			func(m map[string][]string) { m["remote.p.url"] = []string{"https://example.com/p"} }},
		{"swap urls of p", func(x *gogitcfg.Config) {
			u := x.Remotes["p"].URLs
			x.Remotes["p"].URLs = []string{u[1], u[0]}
		}, func(m map[string][]string) { m["remote.p.url"] = []string{"https://example.com/p2", "https://example.com/p"} }},
		{"add url to o", func(x *gogitcfg.Config) { x.Remotes["o"].URLs = append(x.Remotes["o"].URLs, "https://example.com/o2") },
			func(m map[string][]string) { m["remote.o.url"] = []string{"https://example.com/o", "https://example.com/o2"} }},
		{"add remote a", func(x *gogitcfg.Config) {
			x.Remotes["a"] = &gogitcfg.RemoteConfig{Name: "a", URLs: []string{"https://example.com/a"}, Fetch: []gogitcfg.RefSpec{"+refs/heads/*:refs/remotes/a/*"}}
		}, func(m map[string][]string) {
			m["remote.a.url"] = []string{"https://example.com/a"}
			m["remote.a.fetch"] = []string{"+refs/heads/*:refs/remotes/a/*"}
		}},
		{"add remote O (differs from o in case only)", func(x *gogitcfg.Config) {
			x.Remotes["O"] = &gogitcfg.RemoteConfig{Name: "O", URLs: []string{"https://example.com/O"}, Fetch: []gogitcfg.RefSpec{"+refs/heads/*:refs/remotes/O/*"}}
		}, func(m map[string][]string) {
			m["remote.O.url"] = []string{"https://example.com/O"}
			m["remote.O.fetch"] = []string{"+refs/heads/*:refs/remotes/O/*"}
		}},
		{"change branch m remote", func(x *gogitcfg.Config) { x.Branches["m"].Remote = "p" }, func(m map[string][]string) { m["branch.m.remote"] = []string{"p"} }},
		{"clear branch n merge", func(x *gogitcfg.Config) { x.Branches["n"].Merge = "" }, func(m map[string][]string) { delete(m, "branch.n.merge") }},
		{"add branch b", func(x *gogitcfg.Config) {
			x.Branches["b"] = &gogitcfg.Branch{Name: "b", Remote: "o", Merge: "refs/heads/b"}
		}, func(m map[string][]string) {
			m["branch.b.remote"] = []string{"o"}
			m["branch.b.merge"] = []string{"refs/heads/b"}
		}},
		{"change user name", func(x *gogitcfg.Config) { x.User.Name = "M" }, func(m map[string][]string) { m["user.name"] = []string{"M"} }},
		{"set bare", func(x *gogitcfg.Config) { x.Core.IsBare = true }, func(m map[string][]string) { m["core.bare"] = []string{"true"} }},
		{"change insteadOf of second rule", func(x *gogitcfg.Config) { x.URLs[1].InsteadOfs = []string{"z:"} }, func(m map[string][]string) { m["url.https://y/.insteadof"] = []string{"z:"} }},
		{"change submodule t url", func(x *gogitcfg.Config) { x.Submodules["t"].URL = "https://example.com/t2" }, func(m map[string][]string) { m["submodule.t.url"] = []string{"https://example.com/t2"} }},
		{"set promisor on o and clear it again", func(x *gogitcfg.Config) {
			x.Remotes["o"].Promisor = true
			x.Remotes["o"].PartialCloneFilter = "blob:none"
			_, _ = x.Marshal()
			x.Remotes["o"].Promisor = false
			x.Remotes["o"].PartialCloneFilter = ""
		}, func(m map[string][]string) {}},
		{"protocol version 1 then default again", func(x *gogitcfg.Config) {
			x.Protocol.Version = protocol.V1
			_, _ = x.Marshal()
			x.Protocol.Version = gogitcfg.DefaultProtocolVersion
		}, func(m map[string][]string) {}},
	}
	var names []string
	for _, s := range scenarios {
		names = append(names, s.name)
	}
	c.Bound("p3r_base_file", c48BaseFile)
	c.Bound("p3r_scenarios", names)
	datas := [][]byte{[]byte(c48BaseFile)}
	merr := make([]string, len(scenarios))
	for i, s := range scenarios {
		var out []byte
		func() {
			defer func() {
				if r := recover(); r != nil {
					merr[i] = fmt.Sprintf("panic: %v", r)
				}
			}()
			cfg, err := gogitcfg.ReadConfig(strings.NewReader(c48BaseFile))
			if err != nil {
				merr[i] = "ReadConfig of the base file: " + err.Error()
				return
			}
			s.mod(cfg)
			out, err = cfg.Marshal()
			if err != nil {
				merr[i] = "Marshal: " + err.Error()
			}
		}()
		datas = append(datas, out)
	}
	got, rej := c48ListFiles(c, g, datas)
	if rej[0] {
		fw.Abort("git refuses the P3r base file")
	}
	for i, s := range scenarios {
		c.Eval()
		key := "P3r " + s.name
		if merr[i] != "" {
			c.Fail(key+": go-git fails", merr[i], nil)
			continue
		}
		if rej[i+1] {
			c.Fail(key+": git cannot parse what go-git wrote", fw.Q(string(datas[i+1])), nil)
			continue
		}
		want := c48Map(got[0])
		s.expect(want)
		have := c48Map(got[i+1])
		var diffs []string
		for k, v := range want {
			if !eqStrs(v, have[k]) {
				diffs = append(diffs, fmt.Sprintf("%s: expected %q, git reads %q", k, v, have[k]))
			}
		}
		for k, v := range have {
			if _, ok := want[k]; !ok {
				diffs = append(diffs, fmt.Sprintf("%s: not expected, git reads %q", k, v))
			}
		}
		sort.Strings(diffs)
		// go-git reads its own output: the entities must be the ones git lists
		back := ""
		func() {
			defer func() {
				if r := recover(); r != nil {
					back = fmt.Sprintf("panic: %v", r)
				}
			}()
			cfg2, err := gogitcfg.ReadConfig(bytes.NewReader(datas[i+1]))
			if err != nil {
				back = "error: " + err.Error()
				return
			}
			raw := c48Map(c48GoGitEntries(cfg2.Raw))
			for k, v := range have {
				if !eqStrs(v, raw[k]) {
					back += fmt.Sprintf("%s: git %q, go-git %q; ", k, v, raw[k])
				}
			}
			for name := range cfg2.Remotes {
				if _, ok := have["remote."+name+".url"]; !ok {
					back += "go-git has remote " + name + " that git does not list; "
				}
			}
		}()
		c.Class(fmt.Sprintf("P3r|%s|%d|%v", s.name, len(diffs), back == ""))
		if len(diffs) > 0 {
			c.Fail(key+": git reads back different values", strings.Join(diffs, "; "), map[string]any{"written": string(datas[i+1]), "differences": diffs})
		}
		if back != "" {
			c.Fail(key+": go-git reads its own output differently from git", back, map[string]any{"written": string(datas[i+1])})
		}
	}
}

// ---------------------------------------------------------------- P3m

func c48P3m(c *fw.Ctx, g *fw.Git) {
	names := []string{"m", "a b", "a\"b", "a.b", "a]b", "a#b", "ä", "\xe9", "a\u00a0b", "a\u200bb", "a\x01b", "a\x7fb", "a\tb", "dir/sub"}
	values := []string{"v", "a b", " lead", "trail ", "a#b", "a;b", "a\"b", "a\\b", "a\tb", "ä", "\xe9", "a\u00a0b", "\u200b", "a\x01b", "\x7f", "'q'", "../x", "a=b"}
	fields := []string{"path", "url", "branch"}
	c.Bound("p3m_submodule_names", names)
	c.Bound("p3m_values", values)
	c.Bound("p3m_fields", fields)
	type cs struct {
		name, field, val string
		data             []byte
		merr             string
	}
	var cases []*cs
	for _, n := range names {
		for _, f := range fields {
			for _, v := range values {
				k := &cs{name: n, field: f, val: v}
				func() {
					defer func() {
						if r := recover(); r != nil {
							k.merr = fmt.Sprintf("panic: %v", r)
						}
					}()
					sm := &gogitcfg.Submodule{Name: n, Path: "p", URL: "https://example.com/s"}
					switch f {
					case "path":
						sm.Path = v
					case "url":
						sm.URL = v
					case "branch":
						sm.Branch = v
					}
					if sm.Validate() != nil {
						k.merr = "invalid"
						return
					}
					m := gogitcfg.NewModules()
					m.Submodules[n] = sm
					b, err := m.Marshal()
					if err != nil {
						k.merr = "Marshal: " + err.Error()
						return
					}
					k.data = b
				}()
				if k.merr != "invalid" {
					cases = append(cases, k)
				}
			}
		}
	}
	c.Bound("p3m_cases", len(cases))
	datas := make([][]byte, len(cases))
	for i, k := range cases {
		datas[i] = k.data
		if k.merr != "" {
			datas[i] = []byte{}
		}
	}
	got, rej := c48ListFiles(c, g, datas)
	type fl struct{ kind, name, field, val, detail string }
	var fails []fl
	for i, k := range cases {
		c.Eval()
		if k.merr != "" {
			fails = append(fails, fl{"Marshal fails", k.name, k.field, k.val, k.merr})
			continue
		}
		if rej[i] {
			fails = append(fails, fl{"git cannot parse what go-git wrote", k.name, k.field, k.val, fw.Q(string(k.data))})
			continue
		}
		vals := c48Map(got[i])["submodule."+k.name+"."+k.field]
		okGit := len(vals) == 1 && vals[0] == k.val
		back, unreadable := "", ""
		func() {
			defer func() {
				if r := recover(); r != nil {
					back = fmt.Sprintf("panic: %v", r)
				}
			}()
			m := gogitcfg.NewModules()
			if err := m.Unmarshal(k.data); err != nil {
				unreadable = err.Error()
				return
			}
			sm := m.Submodules[k.name]
			if sm == nil {
				back = "submodule missing"
				return
			}
			have := map[string]string{"path": sm.Path, "url": sm.URL, "branch": sm.Branch}[k.field]
			if have != k.val {
				back = fmt.Sprintf("read %q", have)
			}
		}()
		c.Class(fmt.Sprintf("P3m|%s|%v|%v", k.field, okGit, back == ""))
		if !okGit {
			fails = append(fails, fl{"git reads back a different value", k.name, k.field, k.val, fmt.Sprintf("git reads %q from %s", vals, fw.Q(string(k.data)))})
		}
		if back != "" {
			fails = append(fails, fl{"go-git reads back a different value", k.name, k.field, k.val, back + " from " + fw.Q(string(k.data))})
		}
		if unreadable != "" {
			if !utf8.ValidString(k.name) || !utf8.ValidString(k.val) { // the decoder defect of P3, one key
				const key = "P3m go-git cannot read its own output: bytes that are not valid UTF-8 in a submodule name or value"
				c.Fail(key, key+" :: "+unreadable+" :: "+fw.Q(string(k.data)), map[string]any{"name": k.name, "field": k.field, "value": k.val})
			} else {
				fails = append(fails, fl{"go-git cannot read its own output", k.name, k.field, k.val, unreadable + " from " + fw.Q(string(k.data))})
			}
		}
	}
	// keys: by the thing that matters. A failure shared by every value of a name
	// is a name problem; one shared by every name of a value is a value problem.
	perName := map[string]map[string]bool{}
	perVal := map[string]map[string]bool{}
	for _, f := range fails {
		kn, kv := f.kind+"\x00"+f.name, f.kind+"\x00"+f.val
		if perName[kn] == nil {
			perName[kn] = map[string]bool{}
		}
		perName[kn][f.field+"\x00"+f.val] = true
		if perVal[kv] == nil {
			perVal[kv] = map[string]bool{}
		}
		perVal[kv][f.name] = true
	}
	for _, f := range fails {
		var key string
		switch {
		case len(perName[f.kind+"\x00"+f.name]) >= 6:
			key = fmt.Sprintf("P3m %s: submodule name %s", f.kind, fw.Q(f.name))
		case len(perVal[f.kind+"\x00"+f.val]) >= 4:
			key = fmt.Sprintf("P3m %s: value %s", f.kind, fw.Q(f.val))
		default:
			key = fmt.Sprintf("P3m %s: submodule %s %s = %s", f.kind, fw.Q(f.name), f.field, fw.Q(f.val))
		}
		c.Fail(key, key+" :: "+f.detail, map[string]any{"name": f.name, "field": f.field, "value": f.val, "detail": f.detail})
	}
}

package checks

import (
	"bytes"
	"errors"
	"fmt"
	"io"
	"io/fs"
	"os"
	"sort"
	"strings"
	"sync/atomic"

	billy "github.com/go-git/go-billy/v6"
	"github.com/go-git/go-git/v6/plumbing"
	"github.com/go-git/go-git/v6/plumbing/cache"
	"github.com/go-git/go-git/v6/plumbing/storer"
	"github.com/go-git/go-git/v6/storage/filesystem"
	"github.com/go-git/go-git/v6/x/fdpool"
	"github.com/go-git/go-git/v6/x/verif/vsched"

	"verifmc/fw"
	"verifmc/mcfs"
)

// Part B of C24: the descriptor accounting of part A, observed on a real filesystem.Storage.
// The shared files are driven by their real consumers (pack cursors, lazy index lookups, prefix and
// entry iterators, delta resolution, soft close, re-indexing), so a reference that a consumer forgets
// to release on some path (early return, empty bucket, error, abandoned iterator) shows up as a
// descriptor that is never closed, and a descriptor closed under its consumer as a read on a closed file.

// c24FDStats counts the descriptors a storage has open on files under objects/pack.
type c24FDStats struct {
	open        atomic.Int32
	opens       atomic.Int32
	doubleClose atomic.Bool
	useClosed   atomic.Value // first read on a closed descriptor: file name
	byExt       [3]atomic.Int32
}

func c24Ext(name string) int {
	switch {
	case strings.HasSuffix(name, ".pack"):
		return 0
	case strings.HasSuffix(name, ".idx"):
		return 1
	}
	return 2
}

// c24CountFS wraps the model filesystem view: read-only opens below objects/pack are counted.
type c24CountFS struct {
	*mcfs.View
	st *c24FDStats
}

func (f *c24CountFS) Open(name string) (billy.File, error) { return f.OpenFile(name, os.O_RDONLY, 0) }

func (f *c24CountFS) OpenFile(name string, flag int, perm fs.FileMode) (billy.File, error) {
	bf, err := f.View.OpenFile(name, flag, perm)
	if err != nil || flag != os.O_RDONLY || !strings.HasPrefix(name, "objects/pack/") {
		return bf, err
	}
	f.st.open.Add(1)
	f.st.opens.Add(1)
	f.st.byExt[c24Ext(name)].Add(1)
	return &c24CountedFile{File: bf, st: f.st, name: name}, nil
}

type c24CountedFile struct {
	billy.File
	st     *c24FDStats
	name   string
	closed atomic.Bool
}

func (f *c24CountedFile) ReadAt(p []byte, off int64) (int, error) {
	if f.closed.Load() {
		f.st.useClosed.CompareAndSwap(nil, f.name)
		return 0, fs.ErrClosed
	}
	return f.File.ReadAt(p, off)
}

func (f *c24CountedFile) Read(p []byte) (int, error) {
	if f.closed.Load() {
		f.st.useClosed.CompareAndSwap(nil, f.name)
		return 0, fs.ErrClosed
	}
	return f.File.Read(p)
}

func (f *c24CountedFile) Close() error {
	if f.closed.Swap(true) {
		f.st.doubleClose.Store(true)
		return fs.ErrClosed
	}
	f.st.open.Add(-1)
	f.st.byExt[c24Ext(f.name)].Add(-1)
	return f.File.Close()
}

type c24Repo struct {
	world *mcfs.World
	store map[string]fw.ObjInfo
	id    map[string]string // role -> object id
	packs int
}

// c24BuildRepo: two packs (the first holds a delta chain), one loose blob.
func c24BuildRepo(c *fw.Ctx, name string) *c24Repo {
	g, dir := c.InitRepo(name, "", false)
	big := strings.Repeat("a line of the file that is long enough to be worth a delta\n", 60)
	ids := g.BuildHistory([]fw.CommitSpec{
		{Time: 1700000000, Files: map[string]fw.FileSpec{"a": {Data: big}}},
		{Parents: []int{0}, Time: 1700000100, Files: map[string]fw.FileSpec{"a": {Data: big + "one more line\n"}}},
	}, false)
	g.MustRun("update-ref", "refs/heads/main", ids[1])
	g.MustRun("reset", "-q", "--hard")
	// the first pack gets a .rev file (the second does not: its reverse index is generated in memory)
	g.C("pack.writeReverseIndex=true").MustRun("repack", "-a", "-d", "-q", "-f", "--depth=10", "--window=10")
	r := &c24Repo{id: map[string]string{}, store: map[string]fw.ObjInfo{}}
	r.id["commit"] = ids[1]
	r.id["base"] = g.MustRun("rev-parse", ids[1]+":a").S()
	r.id["other"] = g.MustRun("rev-parse", ids[0]+":a").S()
	// which of the two blobs is stored as a delta
	packDir := dir + "/.git/objects/pack"
	ents, _ := os.ReadDir(packDir)
	for _, e := range ents {
		if strings.HasSuffix(e.Name(), ".idx") {
			out := g.MustRun("verify-pack", "-v", packDir+"/"+e.Name()).S()
			for _, l := range strings.Split(out, "\n") {
				f := strings.Fields(l)
				if len(f) == 7 && f[1] == "blob" {
					r.id["delta"] = f[0]
				}
			}
		}
	}
	if r.id["delta"] == "" {
		fw.Abort("C24 set-up: git stored no blob as a delta")
	}
	if r.id["delta"] == r.id["base"] {
		r.id["base"] = r.id["other"]
	}
	// second pack: one more commit, packed on its own
	r.id["second"] = g.MustRunIn([]byte("blob for the second pack\n"), "hash-object", "-w", "--stdin").S()
	g.MustRun("update-index", "--add", "--cacheinfo", "100644,"+r.id["second"]+",b") // staged: repack takes indexed objects
	g.MustRun("repack", "-d", "-q")
	r.id["loose"] = g.MustRunIn([]byte("loose content\n"), "hash-object", "-w", "--stdin").S()
	r.id["absent"] = "00000000000000000000000000000000000000bb"
	for _, o := range g.CatFileAll() {
		r.store[o.ID] = o
	}
	ents, _ = os.ReadDir(packDir)
	for _, e := range ents {
		if strings.HasSuffix(e.Name(), ".pack") {
			r.packs++
		}
	}
	if r.packs != 2 {
		fw.Abort("C24 set-up: %d packs, want 2", r.packs)
	}
	r.world = mcfs.NewWorld()
	c.Must(r.world.Import(dir+"/.git", "/wt/.git"), "import")
	r.world.RemoveSetup("/wt/.git/hooks")
	return r
}

// c24StoreOps is the menu of complete consumer operations (every iterator and reader is closed by the
// caller the way the API asks for). Each returns "" or a description of a wrong answer.
type c24StoreOp struct {
	name string
	run  func(st *filesystem.Storage, r *c24Repo) string
}

func c24ReadAll(o plumbing.EncodedObject, want fw.ObjInfo) string {
	rd, err := o.Reader()
	if err != nil {
		return "reader: " + normErr(err)
	}
	b, err := io.ReadAll(rd)
	rd.Close()
	if err != nil {
		return "read: " + normErr(err)
	}
	if !bytes.Equal(b, want.Data) {
		return "wrong content"
	}
	return ""
}

func c24StoreMenu() []c24StoreOp {
	get := func(role string, t plumbing.ObjectType) c24StoreOp {
		return c24StoreOp{fmt.Sprintf("get(%s,%s)", role, t), func(st *filesystem.Storage, r *c24Repo) string {
			o, err := st.EncodedObject(t, plumbing.NewHash(r.id[role]))
			want, present := r.store[r.id[role]]
			typeOK := t == plumbing.AnyObject || (present && want.Type == t.String())
			if !present || !typeOK {
				if errors.Is(err, plumbing.ErrObjectNotFound) {
					return ""
				}
				return "want not-found, got " + normErr(err)
			}
			if err != nil {
				return normErr(err)
			}
			return c24ReadAll(o, want)
		}}
	}
	var ops []c24StoreOp
	for _, role := range []string{"base", "delta", "second", "loose", "absent"} {
		ops = append(ops, get(role, plumbing.AnyObject))
	}
	ops = append(ops, get("base", plumbing.CommitObject)) // wrong type: refused after the object was located
	ops = append(ops,
		c24StoreOp{"get(commit)", get("commit", plumbing.AnyObject).run},
		c24StoreOp{"partial-read(base)", func(st *filesystem.Storage, r *c24Repo) string {
			o, err := st.EncodedObject(plumbing.AnyObject, plumbing.NewHash(r.id["base"]))
			if err != nil {
				return normErr(err)
			}
			rd, err := o.Reader()
			if err != nil {
				return normErr(err)
			}
			var b [1]byte
			_, err = rd.Read(b[:])
			rd.Close()
			if err != nil {
				return normErr(err)
			}
			return ""
		}},
		c24StoreOp{"has(delta)", func(st *filesystem.Storage, r *c24Repo) string {
			if err := st.HasEncodedObject(plumbing.NewHash(r.id["delta"])); err != nil {
				return normErr(err)
			}
			return ""
		}},
		c24StoreOp{"has(absent)", func(st *filesystem.Storage, r *c24Repo) string {
			if err := st.HasEncodedObject(plumbing.NewHash(r.id["absent"])); !errors.Is(err, plumbing.ErrObjectNotFound) {
				return "want not-found, got " + normErr(err)
			}
			return ""
		}},
		c24StoreOp{"size(delta)", func(st *filesystem.Storage, r *c24Repo) string {
			n, err := st.EncodedObjectSize(plumbing.NewHash(r.id["delta"]))
			if err != nil {
				return normErr(err)
			}
			if int(n) != r.store[r.id["delta"]].Size {
				return "wrong size"
			}
			return ""
		}},
		c24StoreOp{"size(second)", func(st *filesystem.Storage, r *c24Repo) string {
			n, err := st.EncodedObjectSize(plumbing.NewHash(r.id["second"]))
			if err != nil {
				return normErr(err)
			}
			if int(n) != r.store[r.id["second"]].Size {
				return "wrong size"
			}
			return ""
		}},
		c24StoreOp{"deltaobject(delta)", func(st *filesystem.Storage, r *c24Repo) string {
			_, err := st.DeltaObject(plumbing.AnyObject, plumbing.NewHash(r.id["delta"]))
			if err != nil {
				return normErr(err)
			}
			return ""
		}},
	)
	prefix := func(name string, pfx func(r *c24Repo) []byte, mustFind string) c24StoreOp {
		return c24StoreOp{name, func(st *filesystem.Storage, r *c24Repo) string {
			hs, err := st.HashesWithPrefix(pfx(r))
			if err != nil {
				return normErr(err)
			}
			if mustFind != "" {
				for _, h := range hs {
					if h.String() == r.id[mustFind] {
						return ""
					}
				}
				return "object not listed"
			}
			return ""
		}}
	}
	ops = append(ops,
		prefix("prefix(delta[:2])", func(r *c24Repo) []byte { return plumbing.NewHash(r.id["delta"]).Bytes()[:2] }, "delta"),
		prefix("prefix(delta[:1])", func(r *c24Repo) []byte { return plumbing.NewHash(r.id["delta"]).Bytes()[:1] }, "delta"),
		prefix("prefix(empty)", func(r *c24Repo) []byte { return nil }, "delta"),
		// same first byte as a packed object, but beyond every name of that fanout bucket
		prefix("prefix(beyond bucket)", func(r *c24Repo) []byte { return []byte{plumbing.NewHash(r.id["delta"]).Bytes()[0], 0xff, 0xff, 0xff} }, ""),
		// same first byte, before every name of the bucket (a run that ends at once)
		prefix("prefix(before bucket)", func(r *c24Repo) []byte { return []byte{plumbing.NewHash(r.id["delta"]).Bytes()[0], 0x00, 0x00, 0x00} }, ""),
		prefix("prefix(empty bucket)", func(r *c24Repo) []byte { return r.emptyBucket() }, ""),
	)
	iter := func(name string, t plumbing.ObjectType, stopAfter int) c24StoreOp {
		return c24StoreOp{name, func(st *filesystem.Storage, r *c24Repo) string {
			it, err := st.IterEncodedObjects(t)
			if err != nil {
				return normErr(err)
			}
			defer it.Close()
			n := 0
			err = it.ForEach(func(o plumbing.EncodedObject) error {
				n++
				if stopAfter > 0 && n >= stopAfter {
					return storer.ErrStop
				}
				return nil
			})
			if err != nil {
				return normErr(err)
			}
			want := 0
			for _, o := range r.store {
				if t == plumbing.AnyObject || o.Type == t.String() {
					want++
				}
			}
			if stopAfter == 0 && n != want {
				return fmt.Sprintf("iterated %d objects, stored %d", n, want)
			}
			return ""
		}}
	}
	ops = append(ops,
		iter("iter(blob)", plumbing.BlobObject, 0),
		iter("iter(any)", plumbing.AnyObject, 0),
		iter("iter(blob) stopped after 1", plumbing.BlobObject, 1),
		c24StoreOp{"iter(blob) abandoned after Next", func(st *filesystem.Storage, r *c24Repo) string {
			it, err := st.IterEncodedObjects(plumbing.BlobObject)
			if err != nil {
				return normErr(err)
			}
			_, err = it.Next()
			it.Close()
			if err != nil {
				return normErr(err)
			}
			return ""
		}},
		c24StoreOp{"reindex", func(st *filesystem.Storage, r *c24Repo) string {
			if err := st.Reindex(); err != nil {
				return normErr(err)
			}
			return ""
		}},
		c24StoreOp{"close-idle", func(st *filesystem.Storage, r *c24Repo) string {
			if err := st.CloseIdleDescriptors(); err != nil {
				return normErr(err)
			}
			return ""
		}},
	)
	// composite operations: the inner operation runs while an object iterator of
	// the same storage is open (and so holds its descriptors), idle descriptors
	// are then closed, and the iterator is drained. A reference released once too
	// often by the inner operation would be taken from the iterator: its
	// descriptor is closed under it. (Run as sequences of their own only.)
	c24NBase = len(ops)
	for _, inner := range append([]c24StoreOp{}, ops...) {
		inner := inner
		if !(strings.HasPrefix(inner.name, "prefix(") || inner.name == "has(delta)" || inner.name == "size(delta)" || inner.name == "get(commit)" || inner.name == "deltaobject(delta)") {
			continue
		}
		ops = append(ops, c24StoreOp{"iter(any) { " + inner.name + "; close-idle } after every step", func(st *filesystem.Storage, r *c24Repo) string {
			it, err := st.IterEncodedObjects(plumbing.AnyObject)
			if err != nil {
				return normErr(err)
			}
			defer it.Close()
			// the inner operation and close-idle run after EVERY step of the
			// iteration, so they meet the iterator while it holds each pack's
			// descriptors in turn (loose objects hold none)
			for {
				o, err := it.Next()
				if err == io.EOF {
					return ""
				}
				if err != nil {
					return "iterator opened before: " + normErr(err)
				}
				rd, err := o.Reader()
				if err != nil {
					return "iterator opened before: " + normErr(err)
				}
				_, err = io.Copy(io.Discard, rd)
				rd.Close()
				if err != nil {
					return "iterator opened before: " + normErr(err)
				}
				if a := inner.run(st, r); a != "" {
					return a
				}
				if err := st.CloseIdleDescriptors(); err != nil {
					return normErr(err)
				}
			}
		}})
	}
	return ops
}

// c24NBase: menu[:c24NBase] are the plain operations, the rest composites.
var c24NBase int

// emptyBucket: a first byte no stored object starts with.
func (r *c24Repo) emptyBucket() []byte {
	used := map[byte]bool{}
	for id := range r.store {
		used[plumbing.NewHash(id).Bytes()[0]] = true
	}
	for b := 0; b < 256; b++ {
		if !used[byte(b)] {
			return []byte{byte(b), 0x10}
		}
	}
	return []byte{0xff, 0xff}
}

func c24Store(c *fw.Ctx) {
	r := c24BuildRepo(c, "c24store")
	menu := c24StoreMenu()
	var menuNames []string
	for _, o := range menu {
		menuNames = append(menuNames, o.name)
	}
	depth := c.Pick(2, 3)
	c.Bound("storage_ops", menuNames)
	c.Bound("storage_sequence_length", depth)
	type config struct {
		name string
		cap  int // -2: Options.Pool nil
		mem  bool
	}
	cfgs := []config{
		{"pool cap 1", 1, false},
		{"pool cap 2", 2, false},
		{"pool cap 1, in-memory idx", 1, true},
		{"fdpool.New(0) (pooling disabled)", 0, false},
		{"default options", -2, false},
	}
	var cfgNames []string
	for _, cf := range cfgs {
		cfgNames = append(cfgNames, cf.name)
	}
	c.Bound("storage_configs", cfgNames)
	// sequences: all of length <= depth (thorough: the third op only from the first 8 = object reads)
	var seqs [][]int
	for a := range menu {
		seqs = append(seqs, []int{a})
		if a >= c24NBase {
			continue
		}
		for b := range menu[:c24NBase] {
			seqs = append(seqs, []int{a, b})
			if depth >= 3 {
				for d := range menu[:c24NBase] {
					seqs = append(seqs, []int{a, b, d})
				}
			}
		}
	}
	type job struct {
		seq []int
		cfg config
	}
	var jobs []job
	for _, cf := range cfgs {
		for _, s := range seqs {
			jobs = append(jobs, job{s, cf})
		}
	}
	c.Bound("storage_sequences_x_configs", len(jobs))
	seen := map[string]bool{}
	type outcome struct{ key, what, seq string }
	results := make([]*outcome, len(jobs))
	sigs := make([]string, len(jobs))
	leaky := map[string]*atomic.Bool{}
	for _, cf := range cfgs {
		for _, o := range menu {
			leaky[cf.name+"|"+o.name] = &atomic.Bool{}
		}
	}
	runJob := func(ji int) {
		j := jobs[ji]
		var names []string
		for _, k := range j.seq {
			names = append(names, menu[k].name)
		}
		seqName := strings.Join(names, "; ")
		stats := &c24FDStats{}
		var answers []string
		var st *filesystem.Storage
		body := func(x *vsched.Exec) func(*vsched.Exec) string {
			w := r.world.Clone()
			opts := filesystem.Options{UseInMemoryIdx: j.cfg.mem}
			if j.cfg.cap > -2 {
				opts.Pool = fdpool.New(j.cfg.cap)
			}
			st = filesystem.NewStorageWithOptions(&c24CountFS{View: w.View("/wt/.git", "reader"), st: stats}, cache.NewObjectLRUDefault(), opts)
			x.Go("reader", func() any {
				for _, k := range j.seq {
					answers = append(answers, menu[k].run(st, r))
				}
				return nil
			})
			return func(x *vsched.Exec) string { return "" }
		}
		x, _ := vsched.RunOnce(vsched.Config{DrainTimers: true, Horizon: 200000}, nil, body)
		c.Eval()
		if x.Diverged != "" || x.Stalled != "" {
			c.EngineError("C24 storage %s [%s]: %s%s", j.cfg.name, seqName, x.Diverged, x.Stalled)
			return
		}
		fail := func(key, what string) {
			results[ji] = &outcome{key, what, seqName}
		}
		for _, t := range x.Threads() {
			if t.Panic != "" {
				fail("storage: panic", "panic: "+strings.SplitN(t.Panic, "\n", 2)[0])
				return
			}
		}
		if x.Deadlock {
			fail("storage: deadlock", "deadlock")
			return
		}
		for i, a := range answers {
			if a != "" {
				fail("storage: "+menu[j.seq[i]].name+" fails: "+reHashPath.ReplaceAllString(a, "<h>"), menu[j.seq[i]].name+" answers "+a)
				return
			}
		}
		if v := stats.useClosed.Load(); v != nil {
			fail("storage: read on a descriptor that was closed under its reader", "read on closed "+c24ExtName(v.(string)))
			return
		}
		if stats.doubleClose.Load() {
			fail("storage: descriptor closed twice", "descriptor closed twice")
			return
		}
		open := int(stats.open.Load())
		byExt := func() string {
			return fmt.Sprintf("pack=%d idx=%d rev=%d", stats.byExt[0].Load(), stats.byExt[1].Load(), stats.byExt[2].Load())
		}
		// which single operations of the sequence are known to leave a descriptor pinned on their own
		// (filled by the length-1 jobs, which run first): a longer sequence containing one is the same defect
		culprit := ""
		for _, k := range j.seq {
			if len(j.seq) > 1 && leaky[j.cfg.name+"|"+menu[k].name].Load() {
				culprit = menu[k].name
			}
		}
		pinnedKey := func(kind string) string {
			who := culprit
			if who == "" {
				who = seqName
			}
			_ = kind
			return fmt.Sprintf("storage: a descriptor stays pinned after [%s]: no reader is active, yet it can never be closed", who)
		}
		switch {
		case j.cfg.cap == 0 && open > 0:
			fail("storage: fdpool.New(0): idle descriptors never closed", fmt.Sprintf("%d idle descriptors still open at quiescence after all timers fired (%s): Options.Pool = fdpool.New(0) is documented to fall back to the grace-period close", open, byExt()))
			return
		case j.cfg.cap > 0 && open > j.cfg.cap:
			if culprit == "" {
				fail(fmt.Sprintf("storage: more descriptors open at quiescence than the pool capacity after [%s]", seqName), fmt.Sprintf("%d descriptors open at quiescence (%s), pool capacity %d, no reader active", open, byExt(), j.cfg.cap))
			} else {
				fail(pinnedKey(c24LeakKind(stats)), fmt.Sprintf("%d descriptors open at quiescence (%s), pool capacity %d, no reader active", open, byExt(), j.cfg.cap))
			}
			return
		}
		// leak probe: with no reader active a soft close must close every descriptor the storage can
		// still reach; what stays open is pinned by a reference nobody will release. (After a Reindex
		// the replaced indexes are no longer reachable by the soft close; they are governed by the pool
		// or their timers, so the probe is not applied there.)
		hasReindex := false
		for _, k := range j.seq {
			if menu[k].name == "reindex" {
				hasReindex = true
			}
		}
		if !hasReindex {
			var perr error
			x2, _ := vsched.RunOnce(vsched.Config{DrainTimers: true, Horizon: 200000}, nil, func(x *vsched.Exec) func(*vsched.Exec) string {
				x.Go("soft-close", func() any { perr = st.CloseIdleDescriptors(); return nil })
				return func(*vsched.Exec) string { return "" }
			})
			if x2.Diverged != "" || x2.Stalled != "" {
				c.EngineError("C24 storage %s [%s] probe: %s%s", j.cfg.name, seqName, x2.Diverged, x2.Stalled)
				return
			}
			if perr != nil {
				fail("storage: CloseIdleDescriptors fails: "+reHashPath.ReplaceAllString(normErr(perr), "<h>"), "CloseIdleDescriptors: "+perr.Error())
				return
			}
			if n := int(stats.open.Load()); n > 0 {
				if len(j.seq) == 1 {
					leaky[j.cfg.name+"|"+seqName].Store(true)
				}
				fail(pinnedKey(c24LeakKind(stats)), fmt.Sprintf("%d descriptors still open (%s) after the operations returned, every iterator and reader was closed, and CloseIdleDescriptors ran with no reader active", n, byExt()))
				return
			}
		}
		sigs[ji] = fmt.Sprintf("%s|open=%d opens=%d", j.cfg.name, open, stats.opens.Load())
		_ = st.Close()
	}
	// length-1 sequences first (they attribute leaks to single operations), then the rest
	var singles, rest []int
	for ji, j := range jobs {
		if len(j.seq) == 1 {
			singles = append(singles, ji)
		} else {
			rest = append(rest, ji)
		}
	}
	c.ParDo(len(singles), 0, func(i int) { runJob(singles[i]) })
	c.ParDo(len(rest), 0, func(i int) { runJob(rest[i]) })
	// report: one failure per key (smallest sequence first: jobs are ordered by length within a config)
	var keys []string
	first := map[string]*outcome{}
	cfgOf := map[string]string{}
	for ji, o := range results {
		if o == nil {
			continue
		}
		if p, ok := first[o.key]; !ok || len(o.seq) < len(p.seq) {
			if !ok {
				keys = append(keys, o.key)
			}
			first[o.key] = o
			cfgOf[o.key] = jobs[ji].cfg.name
		}
	}
	sort.Strings(keys)
	for _, k := range keys {
		o := first[k]
		c.Fail(k, fmt.Sprintf("storage config %s, sequence [%s]: %s", cfgOf[k], o.seq, o.what), map[string]any{"config": cfgOf[k], "sequence": o.seq})
	}
	for _, s := range sigs {
		if s != "" && !seen[s] {
			seen[s] = true
			c.Class("storage|" + s)
		}
	}
	c.Extra("storage_sequences", len(jobs))
}

func c24ExtName(name string) string {
	return [...]string{".pack", ".idx", ".rev"}[c24Ext(name)]
}

func c24LeakKind(s *c24FDStats) string {
	var k []string
	for i, n := range []string{".pack", ".idx", ".rev"} {
		if s.byExt[i].Load() > 0 {
			k = append(k, n)
		}
	}
	return strings.Join(k, "+")
}

package checks

import (
	"bytes"
	"fmt"
	"os"
	"path/filepath"
	"sort"
	"strconv"
	"strings"
	"sync"

	git "github.com/go-git/go-git/v6"
	"github.com/go-git/go-git/v6/plumbing"

	"verifmc/fw"
)

// C31: with core.autocrlf true/input the bytes written on checkout and the
// blob stored on add equal git's, and checkout followed by re-adding the
// unchanged file stores the same blob.

func init() {
	fw.Register(&fw.Check{ID: "C31", Level: "exploration", Run: runC31, QuickBudget: 150, ThoroughBudget: 1200})
}

var c31Modes = []string{"true", "input", "false"}

type c31Input struct {
	name string // "" for an enumerated literal, else the family name (used as key)
	data string
}

type c31Env struct {
	c    *fw.Ctx
	skel *hSkel
	g    *fw.Git
}

func c31ToLF(s string) string { return strings.ReplaceAll(s, "\r\n", "\n") }
func c31ToCRLF(s string) string {
	var b strings.Builder
	for i := 0; i < len(s); i++ {
		if s[i] == '\n' && (i == 0 || s[i-1] != '\r') {
			b.WriteByte('\r')
		}
		b.WriteByte(s[i])
	}
	return b.String()
}

// c31Class names what happened to in: same / tolf / tocrlf / other.
func c31Class(in, out string) string {
	switch out {
	case in:
		return "same"
	case c31ToLF(in):
		return "tolf"
	case c31ToCRLF(in):
		return "tocrlf"
	}
	return "other"
}

func c31ClassID(in, id string) string {
	switch id {
	case hBlobID([]byte(in)):
		return "same"
	case hBlobID([]byte(c31ToLF(in))):
		return "tolf"
	case hBlobID([]byte(c31ToCRLF(in))):
		return "tocrlf"
	case "":
		return "missing"
	}
	return "other"
}

func c31LsFiles(g *fw.Git) map[string]string {
	m := map[string]string{}
	for _, rec := range bytes.Split(g.MustRun("ls-files", "-s", "-z").Out, []byte{0}) {
		// <mode> <id> <stage>\t<name>
		f := strings.SplitN(string(rec), "\t", 2)
		if len(f) != 2 {
			continue
		}
		w := strings.Fields(f[0])
		if len(w) == 3 {
			m[f[1]] = w[1]
		}
	}
	return m
}

// evalBatch runs all three directions for the inputs under one autocrlf mode
// and returns, per input, the disagreement items (empty = agrees with git).
func (e *c31Env) evalBatch(ins []c31Input, mode int) (items [][]string, gitNoRoundTrip int) {
	items = make([][]string, len(ins))
	names := make([]string, len(ins))
	for i := range ins {
		names[i] = fmt.Sprintf("f%04d", i)
	}
	cf := hConfig{FileMode: true}
	if c31Modes[mode] != "false" {
		cf.AutoCRLF = c31Modes[mode]
	}
	tag := "autocrlf=" + c31Modes[mode]
	stdin := []byte(strings.Join(names, "\n") + "\n")

	// ---- add direction
	rootA := e.c.TempDir("c31a")
	defer os.RemoveAll(rootA)
	e.skel.instantiate(rootA, cf, "ref: refs/heads/main", nil)
	for i, in := range ins {
		hPutBytes(rootA, names[i], "100644", []byte(in.data), hOldTime)
	}
	gA := e.g.In(rootA)
	want := strings.Fields(string(gA.MustRunIn(stdin, "hash-object", "--stdin-paths").Out))
	if len(want) != len(ins) {
		fw.Abort("hash-object returned %d ids for %d files", len(want), len(ins))
	}
	addErr := make([]error, len(ins))
	err := hCall(func() error {
		repo, err := git.PlainOpen(rootA)
		if err != nil {
			return err
		}
		defer repo.Close()
		w, err := repo.Worktree()
		if err != nil {
			return err
		}
		for i := range ins {
			i := i
			addErr[i] = hCall(func() error { return w.AddWithOptions(&git.AddOptions{Path: names[i], SkipStatus: true}) })
		}
		return nil
	})
	if err != nil {
		fw.Abort("C31 add set-up: %v", err)
	}
	got := c31LsFiles(gA)
	for i, in := range ins {
		if addErr[i] != nil {
			items[i] = append(items[i], "f:add "+tag+" git=ok/go=error")
			continue
		}
		if got[names[i]] != want[i] {
			items[i] = append(items[i], fmt.Sprintf("f:add %s git=%s/go=%s", tag, c31ClassID(in.data, want[i]), c31ClassID(in.data, got[names[i]])))
		}
	}

	// ---- checkout direction and round trip
	rootB, rootG := e.c.TempDir("c31b"), e.c.TempDir("c31g")
	defer os.RemoveAll(rootB)
	defer os.RemoveAll(rootG)
	var commit string
	raw := make([]string, len(ins))
	for _, root := range []string{rootB, rootG} {
		e.skel.instantiate(root, cf, "ref: refs/heads/main", nil)
		gd := filepath.Join(root, ".git")
		var ents []hTreeEnt
		for i, in := range ins {
			raw[i] = hWriteLoose(gd, "blob", []byte(in.data))
			ents = append(ents, hTreeEnt{"100644", names[i], raw[i]})
		}
		tree := hWriteLoose(gd, "tree", hTreeData(ents))
		commit = hWriteLoose(gd, "commit", hCommitData(tree, nil, "batch\n"))
		if err := os.WriteFile(filepath.Join(gd, "refs", "heads", "main"), []byte(commit+"\n"), 0o644); err != nil {
			fw.Abort("ref: %v", err)
		}
	}
	gG := e.g.In(rootG)
	gG.MustRun("reset", "-q", "--hard", commit)
	rtErr := make([]error, len(ins))
	coErr := hCall(func() error {
		repo, err := git.PlainOpen(rootB)
		if err != nil {
			return err
		}
		defer repo.Close()
		w, err := repo.Worktree()
		if err != nil {
			return err
		}
		if err := w.Reset(&git.ResetOptions{Commit: plumbing.NewHash(commit), Mode: git.HardReset}); err != nil {
			return err
		}
		for i := range ins {
			i := i
			rtErr[i] = hCall(func() error { return w.AddWithOptions(&git.AddOptions{Path: names[i], SkipStatus: true}) })
		}
		return nil
	})
	if coErr != nil {
		for i := range ins {
			items[i] = append(items[i], "f:checkout "+tag+" git=ok/go=error")
		}
		return items, 0
	}
	// git's own round trip (precondition of the round-trip demand)
	// (files are touched first so that git add really re-reads them)
	for i := range ins {
		hSetMtime(filepath.Join(rootG, names[i]), hOldTime+100)
	}
	gG.MustRun("add", "-A")
	gitIdx := c31LsFiles(gG)
	gitRT := make([]string, len(ins))
	for i := range ins {
		gitRT[i] = gitIdx[names[i]]
	}
	goIdx := c31LsFiles(e.g.In(rootB))
	for i, in := range ins {
		gb, err1 := os.ReadFile(filepath.Join(rootG, names[i]))
		bb, err2 := os.ReadFile(filepath.Join(rootB, names[i]))
		if err1 != nil {
			fw.Abort("git did not check out %s: %v", names[i], err1)
		}
		if err2 != nil {
			items[i] = append(items[i], "f:checkout "+tag+" git=written/go=missing")
			continue
		}
		if !bytes.Equal(gb, bb) {
			items[i] = append(items[i], fmt.Sprintf("f:checkout %s git=%s/go=%s", tag, c31Class(in.data, string(gb)), c31Class(in.data, string(bb))))
			continue // the round trip of differently written bytes is not comparable
		}
		if gitRT[i] != raw[i] {
			gitNoRoundTrip++
			continue
		}
		if rtErr[i] != nil {
			items[i] = append(items[i], "f:roundtrip "+tag+" git=same/go=error")
		} else if goIdx[names[i]] != raw[i] {
			items[i] = append(items[i], fmt.Sprintf("f:roundtrip %s git=same/go=%s", tag, c31ClassID(in.data, goIdx[names[i]])))
		}
	}
	return items, gitNoRoundTrip
}

func c31Shape(s string) string {
	var f []string
	add := func(b bool, n string) {
		if b {
			f = append(f, n)
		}
	}
	lonecr, lonelf, crlf := false, false, false
	for i := 0; i < len(s); i++ {
		switch s[i] {
		case '\r':
			if i+1 < len(s) && s[i+1] == '\n' {
				crlf = true
			} else {
				lonecr = true
			}
		case '\n':
			if i == 0 || s[i-1] != '\r' {
				lonelf = true
			}
		}
	}
	add(crlf, "crlf")
	add(lonelf, "lf")
	add(lonecr, "cr")
	add(strings.Contains(s, "\x00"), "nul")
	add(strings.ContainsAny(s, "\x01\x7f"), "ctl")
	add(strings.Contains(s, "\x1a"), "sub")
	add(strings.HasSuffix(s, "\x1a"), "subend")
	return strings.Join(f, "+")
}

func runC31(c *fw.Ctx) {
	g, dir := c.InitRepo("c31tmpl", "sha1", false)
	e := &c31Env{c: c, skel: hReadSkel(filepath.Join(dir, ".git")), g: g}

	if q := os.Getenv("VERIF_C31_INPUT"); q != "" { // triage aid: one Go-quoted input, all modes
		in, err := strconv.Unquote(q)
		if err != nil {
			fw.Abort("VERIF_C31_INPUT: %v", err)
		}
		for m := range c31Modes {
			its, n := e.evalBatch([]c31Input{{"", in}}, m)
			fmt.Printf("autocrlf=%s input=%q disagreements=%v git-no-roundtrip=%d\n", c31Modes[m], in, its[0], n)
		}
		return
	}
	sigma := []string{"a", "\r", "\n", "\x00", "\x01", "\x7f", "\x1a"}
	maxLen := c.Pick(4, 6)
	var ins []c31Input
	// threshold family: printable>>7 >= nonprintable
	for _, pk := range [][2]int{{127, 1}, {128, 1}, {129, 1}, {255, 2}, {256, 2}, {257, 2}, {383, 3}, {384, 3}} {
		for _, pos := range []string{"first", "middle", "last"} {
			for _, eol := range []string{"\n", "\r\n"} {
				p, k := strings.Repeat("a", pk[0]), strings.Repeat("\x01", pk[1])
				var body string
				switch pos {
				case "first":
					body = k + p
				case "middle":
					body = p[:pk[0]/2] + k + p[pk[0]/2:]
				default:
					body = p + k
				}
				ins = append(ins, c31Input{fmt.Sprintf("threshold(%d printable,%d control %s)+%q", pk[0], pk[1], pos, eol), body + eol + eol})
			}
		}
	}
	// first NUL around byte 8000, and line endings straddling the 32 KiB copy buffer
	for _, off := range []int{7999, 8000, 8001} {
		for _, eol := range []string{"\n", "\r\n"} {
			ins = append(ins, c31Input{fmt.Sprintf("nul-at-%d+%q", off, eol), "x" + eol + strings.Repeat("a", off-1-len(eol)) + "\x00" + "y" + eol})
		}
	}
	for _, off := range []int{32766, 32767, 32768, 65535, 65536} {
		for _, eol := range []string{"\n", "\r\n"} {
			ins = append(ins, c31Input{fmt.Sprintf("eol-at-%d+%q", off, eol), strings.Repeat("a", off) + eol + "b" + eol + strings.Repeat("c", 40000) + eol})
		}
	}
	// CRLF at every third byte in three phases: whatever the chunk size of the
	// copy loop (file reads, inflate window minus object header, ...), one phase
	// has a CR LF pair split across two writes
	for shift := 0; shift < 3; shift++ {
		ins = append(ins, c31Input{fmt.Sprintf("crlf-every-3-bytes phase %d", shift), strings.Repeat("x", shift) + strings.Repeat("a\r\n", 30000)})
	}
	nFam := len(ins) // the families come first so that a run cut short still covers them
	for _, s := range fw.Strings(sigma, maxLen) {
		ins = append(ins, c31Input{"", s})
	}
	nEnum := len(ins) - nFam
	const batch = 256
	nb := (len(ins) + batch - 1) / batch
	c.Bound("alphabet", []string{"a", "CR", "LF", "NUL", "0x01", "0x7f", "0x1a"})
	c.Bound("max_len", maxLen)
	c.Bound("enumerated_strings", nEnum)
	c.Bound("family_strings", nFam)
	c.Bound("autocrlf", c31Modes)
	c.Bound("batch_size", batch)
	c.SetRule("all strings up to max_len over {a,CR,LF,NUL,0x01,0x7f,0x1a} + binary-threshold, NUL-near-8000 and buffer-boundary families x autocrlf {true,input,false}; per string three observations against real git in real repositories: blob stored by Worktree.AddWithOptions vs `git hash-object --stdin-paths` (same config), bytes written by Reset(Hard) vs `git reset --hard`, and blob stored when the checked-out file is re-added vs the original blob (demanded only where git itself round-trips); non-trivial = the string contains CR or LF; distinct counts (mode, line-ending/binary shape of the string, git's transformation on add, on checkout)")
	c.Assume("git 2.39.5 conversion with core.safecrlf default and no .gitattributes is the reference; Add is exercised through AddWithOptions{SkipStatus:true} so that the conversion is always executed; the index is read back with git ls-files")

	type failRec struct {
		ord  int
		in   c31Input
		mode int
		item string
	}
	var mu sync.Mutex
	var frs []failRec
	noRT := 0
	var cut sync.Once
	c.ParDo(nb*len(c31Modes), 0, func(j int) {
		if c.Expired() { // few, heavy units: honour the deadline per unit
			cut.Do(func() { c.Incomplete("internal deadline reached before all batch x mode units ran") })
			return
		}
		b, mode := j/len(c31Modes), j%len(c31Modes)
		if b > 0 { // batch 0 (the families) first, the rest spread over the space
			b = 1 + hSpread(b-1, nb-1)
		}
		lo, hi := b*batch, (b+1)*batch
		if hi > len(ins) {
			hi = len(ins)
		}
		part := ins[lo:hi]
		items, n := e.evalBatch(part, mode)
		mu.Lock()
		noRT += n
		mu.Unlock()
		for i, in := range part {
			c.Eval()
			if strings.ContainsAny(in.data, "\r\n") {
				c.Class(fmt.Sprintf("%s|%s|%d", c31Modes[mode], c31Shape(in.data), len(items[i])))
			}
			for _, it := range items[i] {
				mu.Lock()
				frs = append(frs, failRec{(lo+i)*3 + mode, in, mode, it})
				mu.Unlock()
			}
		}
		if b%16 == 0 && len(part) > 3 {
			c.Sample(map[string]any{"input": fw.Q(part[3].data), "autocrlf": c31Modes[mode], "disagreements": items[3]})
		}
	})
	c.Extra("strings_git_itself_does_not_round_trip", noRT)
	if os.Getenv("VERIF_C31_DUMP") != "" { // triage aid
		for _, fr := range frs {
			n := fr.in.name
			if n == "" {
				n = fw.Q(fr.in.data)
			}
			fmt.Printf("FAIL-ITEM %s :: %s\n", n, fr.item)
		}
	}

	// group by (item, shape) and minimise the first string of every group; a
	// failing family string (too long to minimise) joins the enumerated group
	// that shows the very same item, if there is one
	groups := map[string]failRec{}
	counts := map[string]int{}
	enumItem := map[string]string{} // item -> first enumerated group key
	sort.Slice(frs, func(i, j int) bool { return frs[i].ord < frs[j].ord })
	for _, fr := range frs {
		if fr.in.name != "" {
			continue
		}
		k := fr.item + " | " + c31Shape(fr.in.data)
		counts[k]++
		if _, ok := groups[k]; !ok {
			groups[k] = fr
		}
		if _, ok := enumItem[fr.item]; !ok {
			enumItem[fr.item] = k
		}
	}
	for _, fr := range frs {
		if fr.in.name == "" {
			continue
		}
		if k, ok := enumItem[fr.item]; ok {
			counts[k]++
			continue
		}
		k := fr.item + " | " + fr.in.name
		counts[k]++
		if _, ok := groups[k]; !ok {
			groups[k] = fr
		}
	}
	var keys []string
	for k := range groups {
		keys = append(keys, k)
	}
	sort.Strings(keys)
	type res struct {
		key, what string
		replay    map[string]any
		n         int
	}
	results := make([]res, len(keys))
	hParallel(len(keys), 8, func(gi int) {
		fr := groups[keys[gi]]
		has := func(s string) bool {
			its, _ := e.evalBatch([]c31Input{{"", s}}, fr.mode)
			for _, it := range its[0] {
				if it == fr.item {
					return true
				}
			}
			return false
		}
		min := fr.in.data
		label := fw.Q(min)
		if fr.in.name != "" {
			label = fr.in.name
		} else {
			min = fw.MinString(fr.in.data, "a\n\r\x01\x7f\x1a\x00", has)
			label = fw.Q(min)
		}
		key := strings.TrimPrefix(fr.item, "f:") + " on " + label
		results[gi] = res{key, fmt.Sprintf("%s (minimised from %s; %d inputs of shape %s)", key, fw.Q(trunc(fr.in.data, 40)), counts[keys[gi]], c31Shape(fr.in.data)),
			map[string]any{"input": fw.Q(trunc(fr.in.data, 200)), "minimal": label, "autocrlf": c31Modes[fr.mode], "disagreement": fr.item}, counts[keys[gi]]}
	})
	for _, r := range results {
		if r.key == "" {
			continue
		}
		for i := 0; i < r.n; i++ {
			c.Fail(r.key, r.what, r.replay)
		}
	}
}

func trunc(s string, n int) string {
	if len(s) > n {
		return s[:n] + "..."
	}
	return s
}

package checks

// C11 — every stored object reads back identically on every read path.
//
// Repositories are built BY GIT (sha1 and sha256): an alternate repository
// with its own pack (+ .rev) and a loose object; the main repository with pack
// A (ofs-deltas, .rev present), pack B (ref-deltas, no .rev), loose objects
// (commit/tree/blob/tag/large blob) and two objects present both loose and
// packed. The model is the map printed by
// `git cat-file --batch-all-objects --batch` (cross-checked against
// `git verify-pack -v` and `git fsck`). Every read sequence of the stated
// length over the operation alphabet is run on a FRESH Storage for every
// combination of the storage options, and every step is compared with the map.
// The by-offset paths (packfile.Packfile, mmap.PackScanner) are driven on the
// same packs with the offsets `git verify-pack -v` reports (c11_pack.go).

import (
	"bytes"
	"errors"
	"fmt"
	"io"
	"os"
	"path/filepath"
	"sort"
	"strconv"
	"strings"

	"github.com/go-git/go-billy/v6"
	"github.com/go-git/go-billy/v6/osfs"
	"github.com/go-git/go-git/v6/plumbing"
	"github.com/go-git/go-git/v6/plumbing/cache"
	"github.com/go-git/go-git/v6/plumbing/format/packfile"
	"github.com/go-git/go-git/v6/storage/filesystem"
	"github.com/go-git/go-git/v6/x/fdpool"

	"verifmc/fw"
)

func init() {
	fw.Register(&fw.Check{ID: "C11", Level: "model_checking", Run: runC11, QuickBudget: 150, ThoroughBudget: 1500})
}

type c11Obj struct {
	Type string
	Data []byte
}

type c11PackEntry struct {
	Hex    string
	Off    int64
	Depth  int
	Base   string
	OnDisk int // pack entry type: 1-4 plain, 6 ofs-delta, 7 ref-delta
}

type c11Pack struct {
	Hash    string
	Dir     string // directory holding pack-<hash>.{pack,idx[,rev]}
	Alt     bool
	Entries []c11PackEntry // offset order
	ByHex   map[string]*c11PackEntry
	Side    string // directory with p.pack p.idx p.rev (rev written by git) for the by-offset drivers
}

type c11Repo struct {
	of     string
	hs     int
	dotgit string
	model  map[string]c11Obj
	local  map[string]bool // stored in the main repository's own object directory
	loose  map[string]bool // loose in the main repository
	packs  []*c11Pack
	roles  map[string]string
	maxObj int
}

func c11FileBody(version int) string {
	var b strings.Builder
	for i := 0; i < 60; i++ {
		v := 0
		if i%7 == version%7 || i < version {
			v = version
		}
		fmt.Fprintf(&b, "line %02d of the shared file, revision %d, padding padding padding padding\n", i, v)
	}
	return b.String()
}

// c11BigBody returns n bytes of deterministic text that deflates to roughly half its size.
func c11BigBody(n int, seed uint32) []byte {
	const hexd = "0123456789abcdef"
	b := make([]byte, n)
	x := seed*2654435761 + 12345
	for i := range b {
		if i%64 == 63 {
			b[i] = '\n'
			continue
		}
		x = x*1664525 + 1013904223
		b[i] = hexd[x>>28]
	}
	return b
}

func c11Commit(g *fw.Git, dir string, n int) {
	must := func(err error) {
		if err != nil {
			fw.Abort("c11 build: %v", err)
		}
	}
	must(os.MkdirAll(filepath.Join(dir, "g"), 0o755))
	must(os.WriteFile(filepath.Join(dir, "f.txt"), []byte(c11FileBody(n)), 0o644))
	must(os.WriteFile(filepath.Join(dir, "g", "h.txt"), []byte("constant\n"), 0o644))
	must(os.WriteFile(filepath.Join(dir, "e.txt"), nil, 0o644))
	must(os.WriteFile(filepath.Join(dir, fmt.Sprintf("n%d.txt", n)), []byte(fmt.Sprintf("unique file of commit %d\n", n)), 0o644))
	g.MustRun("add", "-A")
	g.MustRun("commit", "-q", "-m", fmt.Sprintf("commit %d", n))
}

func c11ParseVerifyPack(out string, hexLen int) []c11PackEntry {
	var es []c11PackEntry
	for _, l := range strings.Split(out, "\n") {
		f := strings.Fields(l)
		if len(f) < 5 || len(f[0]) != hexLen {
			continue
		}
		off, err := strconv.ParseInt(f[4], 10, 64)
		if err != nil {
			continue
		}
		e := c11PackEntry{Hex: f[0], Off: off}
		if len(f) >= 7 {
			e.Depth, _ = strconv.Atoi(f[5])
			e.Base = f[6]
		}
		es = append(es, e)
	}
	sort.Slice(es, func(i, j int) bool { return es[i].Off < es[j].Off })
	return es
}

func c11LoadPack(g *fw.Git, dir, hash string, hexLen int, alt bool, sideRoot string) *c11Pack {
	p := &c11Pack{Hash: hash, Dir: dir, Alt: alt, ByHex: map[string]*c11PackEntry{}}
	packPath := filepath.Join(dir, "pack-"+hash+".pack")
	vp := g.MustRun("verify-pack", "-v", filepath.Join(dir, "pack-"+hash+".idx"))
	p.Entries = c11ParseVerifyPack(vp.S(), hexLen)
	raw, err := os.ReadFile(packPath)
	if err != nil {
		fw.Abort("read pack: %v", err)
	}
	for i := range p.Entries {
		e := &p.Entries[i]
		e.OnDisk = int(raw[e.Off]>>4) & 7
		p.ByHex[e.Hex] = e
	}
	// side copy with a git-written rev file
	p.Side = filepath.Join(sideRoot, "side-"+hash[:12])
	if err := os.MkdirAll(p.Side, 0o755); err != nil {
		fw.Abort("%v", err)
	}
	if err := os.WriteFile(filepath.Join(p.Side, "p.pack"), raw, 0o644); err != nil {
		fw.Abort("%v", err)
	}
	g.MustRun("index-pack", "--rev-index", "-o", filepath.Join(p.Side, "p.idx"), filepath.Join(p.Side, "p.pack"))
	return p
}

func c11ListPacks(dir string) []string {
	var out []string
	ents, _ := os.ReadDir(dir)
	for _, e := range ents {
		n := e.Name()
		if strings.HasPrefix(n, "pack-") && strings.HasSuffix(n, ".pack") {
			out = append(out, strings.TrimSuffix(strings.TrimPrefix(n, "pack-"), ".pack"))
		}
	}
	sort.Strings(out)
	return out
}

func c11ListLoose(objdir string) map[string]bool {
	out := map[string]bool{}
	ents, _ := os.ReadDir(objdir)
	for _, e := range ents {
		if len(e.Name()) != 2 || !e.IsDir() {
			continue
		}
		sub, _ := os.ReadDir(filepath.Join(objdir, e.Name()))
		for _, s := range sub {
			out[e.Name()+s.Name()] = true
		}
	}
	return out
}

// c11Build creates the alternate + main repositories with git.
func c11Build(c *fw.Ctx, of string) *c11Repo {
	r := &c11Repo{of: of, hs: 20, model: map[string]c11Obj{}, local: map[string]bool{}, roles: map[string]string{}}
	if of == "sha256" {
		r.hs = 32
	}
	hexLen := r.hs * 2
	gAlt, altDir := c.InitRepo("c11alt-"+of, of, false)
	gAlt = gAlt.C("gc.auto=0", "pack.writeReverseIndex=true")
	for n := 1; n <= 3; n++ {
		c11Commit(gAlt, altDir, n)
	}
	gAlt.MustRun("repack", "-a", "-d", "-q", "--window=10", "--depth=10")
	altLoose := gAlt.MustRunIn([]byte("a loose blob living only in the alternate\n"), "hash-object", "-w", "--stdin").S()

	mainDir := c.TempDir("c11main-" + of)
	os.Remove(mainDir)
	c.GitHome().MustRun("clone", "-q", "--shared", altDir, mainDir)
	g := c.GitHome().In(mainDir).C("gc.auto=0")
	// two revisions of a 100 KiB, poorly compressible file: a packed base and a packed delta whose
	// inflated and deflated sizes exceed the 32/64 KiB copy and read buffers
	big1 := c11BigBody(100*1024, 1)
	big2 := append(append(append([]byte(nil), big1[:50*1024]...), c11BigBody(1024, 2)...), big1[51*1024:]...)
	big2 = append(big2, c11BigBody(2048, 3)...)
	for n := 4; n <= 8; n++ {
		if n == 4 || n == 5 {
			if err := os.WriteFile(filepath.Join(mainDir, "big.bin"), map[int][]byte{4: big1, 5: big2}[n], 0o644); err != nil {
				fw.Abort("c11 build: %v", err)
			}
		}
		c11Commit(g, mainDir, n)
	}
	g.C("pack.writeReverseIndex=true").MustRun("repack", "-a", "-d", "-l", "-q", "--window=10", "--depth=10")
	packDir := filepath.Join(mainDir, ".git", "objects", "pack")
	pa := c11ListPacks(packDir)
	if len(pa) != 1 {
		fw.Abort("c11 build: expected one pack after repack, have %v", pa)
	}
	for n := 9; n <= 11; n++ {
		c11Commit(g, mainDir, n)
	}
	names := g.MustRun("rev-list", "--objects", "HEAD~3..HEAD").Out
	// ref-deltas: pack-objects without --delta-base-offset; no rev file
	g.C("pack.writeReverseIndex=false").MustRunIn(names, "pack-objects", "-q", "--window=10", "--depth=10", filepath.Join(packDir, "pack"))
	pb := c11ListPacks(packDir)
	if len(pb) != 2 {
		fw.Abort("c11 build: expected two packs, have %v", pb)
	}
	// keep two objects both loose and packed
	dupBlob := g.MustRun("rev-parse", "HEAD:f.txt").S()
	dupCommit := g.MustRun("rev-parse", "HEAD").S()
	objdir := filepath.Join(mainDir, ".git", "objects")
	saved := map[string][]byte{}
	for _, h := range []string{dupBlob, dupCommit} {
		b, err := os.ReadFile(filepath.Join(objdir, h[:2], h[2:]))
		if err != nil {
			fw.Abort("c11 build: loose copy of %s: %v", h, err)
		}
		saved[h] = b
	}
	g.MustRun("prune-packed", "-q")
	for h, b := range saved {
		os.MkdirAll(filepath.Join(objdir, h[:2]), 0o755)
		if err := os.WriteFile(filepath.Join(objdir, h[:2], h[2:]), b, 0o444); err != nil {
			fw.Abort("%v", err)
		}
	}
	c11Commit(g, mainDir, 12)
	g.MustRun("tag", "-a", "-m", "an annotated tag", "v1")
	big := g.MustRunIn(append([]byte(strings.Repeat("a large loose blob 0123456789\n", 200)), c11BigBody(90*1024, 4)...), "hash-object", "-w", "--stdin").S()
	g.MustRun("fsck", "--strict")
	c.TracesValidated(1)

	r.dotgit = filepath.Join(mainDir, ".git")
	for _, o := range g.CatFileAll() {
		r.model[o.ID] = c11Obj{o.Type, o.Data}
		if len(o.Data) > r.maxObj && len(o.Data) < 16*1024 { // "about one object" for the small cache; the big blobs never fit it
			r.maxObj = len(o.Data)
		}
	}
	side := c.TempDir("c11side-" + of)
	var packA, packB *c11Pack
	for _, h := range pb {
		p := c11LoadPack(g, packDir, h, hexLen, false, side)
		if h == pa[0] {
			packA = p
		} else {
			packB = p
		}
		r.packs = append(r.packs, p)
		for _, e := range p.Entries {
			r.local[e.Hex] = true
		}
	}
	r.loose = c11ListLoose(objdir)
	for h := range r.loose {
		r.local[h] = true
	}
	altPackDir := filepath.Join(altDir, ".git", "objects", "pack")
	ap := c11ListPacks(altPackDir)
	if len(ap) != 1 {
		fw.Abort("c11 build: alternate packs %v", ap)
	}
	packAlt := c11LoadPack(gAlt, altPackDir, ap[0], hexLen, true, side)
	r.packs = append(r.packs, packAlt)
	if _, err := os.Stat(filepath.Join(packDir, "pack-"+packA.Hash+".rev")); err != nil {
		fw.Abort("c11 build: pack A has no .rev: %v", err)
	}
	if _, err := os.Stat(filepath.Join(packDir, "pack-"+packB.Hash+".rev")); err == nil {
		fw.Abort("c11 build: pack B unexpectedly has a .rev")
	}
	// conformance: every packed/loose object is in the cat-file map, and the map holds nothing else
	n := 0
	cover := map[string]bool{}
	for _, p := range r.packs {
		for _, e := range p.Entries {
			if _, ok := r.model[e.Hex]; !ok {
				fw.Abort("verify-pack lists %s, cat-file --batch-all-objects does not", e.Hex)
			}
			cover[e.Hex] = true
			n++
		}
	}
	for h := range r.loose {
		cover[h] = true
	}
	for h := range c11ListLoose(filepath.Join(altDir, ".git", "objects")) {
		cover[h] = true
	}
	for h := range r.model {
		if !cover[h] {
			fw.Abort("cat-file lists %s which is neither loose nor in a pack", h)
		}
	}
	c.TracesValidated(n)

	// roles
	pick := func(p *c11Pack, pred func(e *c11PackEntry) bool, what string) string {
		best := ""
		bestDepth := -1
		for i := range p.Entries {
			e := &p.Entries[i]
			if r.loose[e.Hex] && !p.Alt {
				continue
			}
			if pred(e) && e.Depth > bestDepth {
				best, bestDepth = e.Hex, e.Depth
			}
		}
		if best == "" {
			fw.Abort("c11 build (%s): no object for role %s", of, what)
		}
		return best
	}
	emptyBlob := g.MustRunIn(nil, "hash-object", "-t", "blob", "--stdin").S()
	r.roles["loose"] = g.MustRun("rev-parse", "HEAD:n12.txt").S()
	r.roles["loose-commit"] = g.MustRun("rev-parse", "HEAD").S()
	r.roles["loose-tag"] = g.MustRun("rev-parse", "v1").S()
	r.roles["loose-big"] = big
	r.roles["packA-base"] = pick(packA, func(e *c11PackEntry) bool { return e.OnDisk < 5 && r.model[e.Hex].Type == "blob" }, "packA-base")
	r.roles["packA-commit"] = pick(packA, func(e *c11PackEntry) bool { return e.OnDisk < 5 && r.model[e.Hex].Type == "commit" }, "packA-commit")
	r.roles["packA-delta"] = pick(packA, func(e *c11PackEntry) bool { return e.OnDisk == 6 }, "packA-delta (ofs)")
	r.roles["packB-delta"] = pick(packB, func(e *c11PackEntry) bool { return e.OnDisk == 7 }, "packB-delta (ref)")
	r.roles["packA-big1"] = c11GitID(of, "blob", big1)
	r.roles["packA-big2"] = c11GitID(of, "blob", big2)
	{
		e1, e2 := packA.ByHex[r.roles["packA-big1"]], packA.ByHex[r.roles["packA-big2"]]
		if e1 == nil || e2 == nil || (e1.OnDisk < 5) == (e2.OnDisk < 5) {
			fw.Abort("c11 build (%s): the two big blobs are not one base and one delta of pack A (%v %v)", of, e1, e2)
		}
	}
	r.roles["dup"] = dupBlob
	r.roles["alt-packed"] = pick(packAlt, func(e *c11PackEntry) bool { return e.OnDisk >= 6 }, "alt-packed delta")
	r.roles["alt-loose"] = altLoose
	r.roles["empty"] = emptyBlob
	if _, ok := packB.ByHex[dupBlob]; !ok || !r.loose[dupBlob] {
		fw.Abort("c11 build: dup blob not both loose and packed")
	}
	for role, h := range r.roles {
		if _, ok := r.model[h]; !ok {
			fw.Abort("c11 build: role %s (%s) not in the cat-file map", role, h)
		}
	}
	// an absent id: flip the last nibble until unused
	abs := []byte(r.roles["packA-base"])
	for _, ch := range "0123456789abcdef" {
		abs[len(abs)-1] = byte(ch)
		if _, ok := r.model[string(abs)]; !ok {
			break
		}
	}
	r.roles["absent"] = string(abs)
	return r
}

// ---------------------------------------------------------------- configurations

type c11Cfg struct {
	Excl, InMemIdx, HighMem, Mmap bool
	LOT                           int // LargeObjectThreshold 0 | 1
	Cache                         int // 0 = zero bytes, 1 = about one object, 2 = default
	Pool                          int // 0 = default, 1 = capacity 1
}

func (k c11Cfg) String() string {
	var s []string
	if k.Excl {
		s = append(s, "ExclusiveAccess")
	}
	if k.InMemIdx {
		s = append(s, "UseInMemoryIdx")
	}
	if k.HighMem {
		s = append(s, "HighMemoryMode")
	}
	if k.Mmap {
		s = append(s, "osfs.WithMmap")
	}
	if k.LOT != 0 {
		s = append(s, "LargeObjectThreshold=1")
	}
	if k.Cache != 2 {
		s = append(s, []string{"cache=0B", "cache=1obj"}[k.Cache])
	}
	if k.Pool != 0 {
		s = append(s, "pool=1")
	}
	if len(s) == 0 {
		return "defaults"
	}
	return strings.Join(s, ",")
}

func c11Configs(withHighMem bool) []c11Cfg {
	var out []c11Cfg
	bs := []bool{false, true}
	for _, ex := range bs {
		for _, im := range bs {
			for _, mm := range bs {
				for lot := 0; lot < 2; lot++ {
					for ca := 0; ca < 3; ca++ {
						for po := 0; po < 2; po++ {
							for _, hm := range bs {
								if hm && !withHighMem {
									continue
								}
								out = append(out, c11Cfg{Excl: ex, InMemIdx: im, HighMem: hm, Mmap: mm, LOT: lot, Cache: ca, Pool: po})
							}
						}
					}
				}
			}
		}
	}
	return out
}

func (r *c11Repo) open(k c11Cfg) *filesystem.Storage {
	var opts []osfs.Option
	if k.Mmap {
		opts = append(opts, osfs.WithMmap())
	}
	var fs, root billy.Filesystem = osfs.New(r.dotgit, opts...), osfs.New("/", opts...)
	var oc cache.Object
	switch k.Cache {
	case 0:
		oc = cache.NewObjectLRU(0)
	case 1:
		oc = cache.NewObjectLRU(cache.FileSize(r.maxObj))
	default:
		oc = cache.NewObjectLRUDefault()
	}
	o := filesystem.Options{ExclusiveAccess: k.Excl, UseInMemoryIdx: k.InMemIdx, HighMemoryMode: k.HighMem,
		LargeObjectThreshold: int64(k.LOT), AlternatesFS: root}
	if k.Pool == 1 {
		o.Pool = fdpool.New(1)
	}
	return filesystem.NewStorageWithOptions(fs, oc, o)
}

// ---------------------------------------------------------------- operations

const (
	c11GetAny = iota
	c11GetTyped
	c11GetWrong
	c11Has
	c11Size
	c11Delta
	c11Partial
	c11Iter
	c11Prefix
)

var c11KindName = []string{"Get", "GetTyped", "GetWrongType", "Has", "Size", "DeltaObject", "PartialRead", "Iter", "Prefix"}

type c11Op struct {
	Kind int
	Role string // object role, or type name for Iter, or hex prefix for Prefix
}

func (o c11Op) String() string { return c11KindName[o.Kind] + "(" + o.Role + ")" }

func c11TypeOf(s string) plumbing.ObjectType {
	switch s {
	case "commit":
		return plumbing.CommitObject
	case "tree":
		return plumbing.TreeObject
	case "blob":
		return plumbing.BlobObject
	case "tag":
		return plumbing.TagObject
	}
	return plumbing.AnyObject
}

func c11ReadAll(o plumbing.EncodedObject) ([]byte, error) {
	rd, err := o.Reader()
	if err != nil {
		return nil, err
	}
	b, err := io.ReadAll(rd)
	cerr := rd.Close()
	if err != nil {
		return b, err
	}
	return b, cerr
}

// c11CheckObj compares an object handed out by go-git with the map entry.
func c11CheckObj(o plumbing.EncodedObject, hex string, want c11Obj) string {
	if o == nil {
		return "nil-object"
	}
	if o.Hash().String() != hex {
		return "wrong-hash"
	}
	if o.Type().String() != want.Type {
		return "wrong-type"
	}
	if o.Size() != int64(len(want.Data)) {
		return "wrong-size"
	}
	b, err := c11ReadAll(o)
	if err != nil {
		return "read-error"
	}
	if !bytes.Equal(b, want.Data) {
		return "wrong-bytes"
	}
	return ""
}

func c11IsNotFound(err error) bool { return errors.Is(err, plumbing.ErrObjectNotFound) }

// run executes one op on the storage; returns (discrepancy kind or "", detail, observation class).
func (r *c11Repo) run(st *filesystem.Storage, op c11Op) (bad, detail, class string) {
	if p, what := ccGuard(func() { bad, detail, class = r.run1(st, op) }); p {
		return "panic", what, "panic"
	}
	return
}

func (r *c11Repo) run1(st *filesystem.Storage, op c11Op) (bad, detail, class string) {
	hexID := r.roles[op.Role]
	want, present := r.model[hexID]
	var h plumbing.Hash
	if op.Kind != c11Iter && op.Kind != c11Prefix {
		var ok bool
		h, ok = plumbing.FromHex(hexID)
		if !ok {
			fw.Abort("bad hex %q for role %s", hexID, op.Role)
		}
	}
	getLike := func(t plumbing.ObjectType, expect bool) (string, string, string) {
		o, err := st.EncodedObject(t, h)
		if !expect {
			if err == nil {
				return "phantom", fmt.Sprintf("returned %T for an id/type that must not be found", o), ""
			}
			if !c11IsNotFound(err) {
				return "wrong-error", err.Error(), ""
			}
			return "", "", "notfound"
		}
		if err != nil {
			if c11IsNotFound(err) {
				return "missing", err.Error(), ""
			}
			return "error", err.Error(), ""
		}
		return c11CheckObj(o, hexID, want), fmt.Sprintf("%T", o), fmt.Sprintf("%T", o)
	}
	switch op.Kind {
	case c11GetAny:
		return getLike(plumbing.AnyObject, present)
	case c11GetTyped:
		return getLike(c11TypeOf(want.Type), present)
	case c11GetWrong:
		wt := plumbing.TreeObject
		if want.Type == "tree" {
			wt = plumbing.BlobObject
		}
		return getLike(wt, false)
	case c11Has:
		err := st.HasEncodedObject(h)
		switch {
		case present && err != nil:
			if c11IsNotFound(err) {
				return "missing", err.Error(), ""
			}
			return "error", err.Error(), ""
		case !present && err == nil:
			return "phantom", "HasEncodedObject = nil for an absent id", ""
		case !present && !c11IsNotFound(err):
			return "wrong-error", err.Error(), ""
		}
		return "", "", fmt.Sprint(present)
	case c11Size:
		n, err := st.EncodedObjectSize(h)
		switch {
		case present && err != nil:
			if c11IsNotFound(err) {
				return "missing", err.Error(), ""
			}
			return "error", err.Error(), ""
		case !present && err == nil:
			return "phantom", fmt.Sprintf("size %d for an absent id", n), ""
		case !present && !c11IsNotFound(err):
			return "wrong-error", err.Error(), ""
		case present && n != int64(len(want.Data)):
			return "wrong-size", fmt.Sprintf("%d, git says %d", n, len(want.Data)), ""
		}
		return "", "", fmt.Sprint(present)
	case c11Delta:
		o, err := st.DeltaObject(plumbing.AnyObject, h)
		if !present {
			if err == nil {
				return "phantom", fmt.Sprintf("%T", o), ""
			}
			if !c11IsNotFound(err) {
				return "wrong-error", err.Error(), ""
			}
			return "", "", "notfound"
		}
		if err != nil {
			if c11IsNotFound(err) {
				return "missing", err.Error(), ""
			}
			return "error", err.Error(), ""
		}
		d, isDelta := o.(plumbing.DeltaObject)
		if !isDelta {
			return c11CheckObj(o, hexID, want), fmt.Sprintf("%T", o), fmt.Sprintf("%T", o)
		}
		if d.ActualHash().String() != hexID {
			return "wrong-hash", "ActualHash " + d.ActualHash().String(), ""
		}
		base, ok := r.model[d.BaseHash().String()]
		if !ok {
			return "wrong-base", "BaseHash " + d.BaseHash().String() + " is not an object", ""
		}
		delta, err := c11ReadAll(o)
		if err != nil {
			return "read-error", err.Error(), ""
		}
		res, err := packfile.PatchDelta(base.Data, delta)
		if err != nil {
			return "wrong-bytes", "delta does not apply to its base: " + err.Error(), ""
		}
		if !bytes.Equal(res, want.Data) {
			return "wrong-bytes", "base+delta is not the object", ""
		}
		// last, so that a wrong size never hides a wrong base or wrong delta bytes
		if d.ActualSize() != int64(len(want.Data)) {
			return "wrong-size", fmt.Sprintf("ActualSize %d, git says %d", d.ActualSize(), len(want.Data)), ""
		}
		return "", "", fmt.Sprintf("delta/%s", o.Type())
	case c11Partial:
		o, err := st.EncodedObject(plumbing.AnyObject, h)
		if !present {
			if err == nil {
				return "phantom", fmt.Sprintf("%T", o), ""
			}
			return "", "", "notfound"
		}
		if err != nil {
			return "error", err.Error(), ""
		}
		rd, err := o.Reader()
		if err != nil {
			return "read-error", err.Error(), ""
		}
		n := len(want.Data)
		if n > 3 {
			n = 3
		}
		buf := make([]byte, n)
		_, err = io.ReadFull(rd, buf)
		cerr := rd.Close()
		if err != nil {
			return "read-error", err.Error(), ""
		}
		if !bytes.Equal(buf, want.Data[:n]) {
			return "wrong-bytes", "first bytes differ", ""
		}
		if cerr != nil {
			return "read-error", "close: " + cerr.Error(), ""
		}
		return "", "", fmt.Sprintf("partial/%T", o)
	case c11Iter:
		t := c11TypeOf(op.Role)
		it, err := st.IterEncodedObjects(t)
		if err != nil {
			return "error", err.Error(), ""
		}
		seen := map[string]int{}
		err = it.ForEach(func(o plumbing.EncodedObject) error {
			hx := o.Hash().String()
			w, ok := r.model[hx]
			if !ok {
				return fmt.Errorf("phantom %s", hx)
			}
			if t != plumbing.AnyObject && o.Type() != t {
				return fmt.Errorf("wrong-type %s is %s", hx, o.Type())
			}
			if d := c11CheckObj(o, hx, w); d != "" {
				return fmt.Errorf("%s %s (%T)", d, hx, o)
			}
			seen[hx]++
			return nil
		})
		if err != nil {
			k := strings.Fields(err.Error())[0]
			switch k {
			case "phantom", "wrong-type", "wrong-hash", "wrong-size", "wrong-bytes", "read-error", "nil-object":
				return k, err.Error(), ""
			}
			return "error", err.Error(), ""
		}
		for hx := range r.local {
			if (t == plumbing.AnyObject || r.model[hx].Type == op.Role) && seen[hx] == 0 {
				return "missing", "iteration never yields " + hx, ""
			}
		}
		return "", "", fmt.Sprintf("iter/%d", len(seen))
	case c11Prefix:
		pb := make([]byte, len(op.Role)/2)
		fmt.Sscanf(op.Role, "%x", &pb)
		hs, err := st.HashesWithPrefix(pb)
		if err != nil {
			return "error", err.Error(), ""
		}
		got := map[string]bool{}
		for _, x := range hs {
			hx := x.String()
			if _, ok := r.model[hx]; !ok || !strings.HasPrefix(hx, op.Role) {
				return "phantom", "HashesWithPrefix returns " + hx, ""
			}
			got[hx] = true
		}
		for hx := range r.local {
			if strings.HasPrefix(hx, op.Role) && !got[hx] {
				return "missing", "HashesWithPrefix misses " + hx, ""
			}
		}
		return "", "", fmt.Sprintf("prefix/%d", len(got))
	}
	panic("bad op")
}

// roleClass names the storage location class of a role for violation keys: all
// objects that live only in the alternate are one class.
func (r *c11Repo) roleClass(role string) string {
	h, ok := r.roles[role]
	if !ok {
		return role
	}
	if _, present := r.model[h]; present && !r.local[h] {
		return "alternate-only"
	}
	if role == "packA-delta" || role == "packB-delta" {
		return "packed-delta"
	}
	return role
}

func (r *c11Repo) alphabet(level int) []c11Op {
	roles := []string{"loose", "packA-base", "packA-delta", "packB-delta", "dup", "alt-packed", "absent"}
	kinds := []int{c11GetAny, c11Size, c11Delta, c11Partial}
	if level >= 1 {
		kinds = append(kinds, c11GetWrong, c11Has)
	}
	var ops []c11Op
	for _, ro := range roles {
		for _, k := range kinds {
			ops = append(ops, c11Op{k, ro})
		}
	}
	if level == 0 {
		ops = append(ops, c11Op{c11Has, "alt-packed"}, c11Op{c11Has, "absent"}, c11Op{c11GetWrong, "packA-base"}, c11Op{c11GetWrong, "loose"}, c11Op{c11GetTyped, "packA-delta"})
	} else {
		// thorough: the remaining roles with the three basic reads, typed reads of two roles
		for _, ro := range []string{"empty", "loose-tag", "loose-big", "alt-loose", "packA-commit"} {
			for _, k := range []int{c11GetAny, c11Size, c11Delta} {
				ops = append(ops, c11Op{k, ro})
			}
		}
		ops = append(ops, c11Op{c11GetTyped, "packA-delta"}, c11Op{c11GetTyped, "loose"}, c11Op{c11Has, "alt-loose"})
	}
	ops = append(ops, c11Op{c11Iter, "any"})
	if level >= 1 {
		ops = append(ops, c11Op{c11Iter, "blob"}, c11Op{c11Iter, "commit"}, c11Op{c11Iter, "tree"}, c11Op{c11Iter, "tag"})
	}
	// the empty prefix ("every object") and a one-byte prefix are in every tier: they take their own paths
	ops = append(ops, c11Op{c11Prefix, r.roles["packA-delta"][:2]}, c11Op{c11Prefix, r.roles["loose"][:4]}, c11Op{c11Prefix, ""})
	if level >= 1 {
		ops = append(ops, c11Op{c11Prefix, r.roles["absent"]})
	}
	return ops
}

// runSeq executes a sequence on a fresh Storage; returns the failing step or -1.
func (r *c11Repo) runSeq(k c11Cfg, seq []c11Op, classes func(string)) (step int, bad, detail string, steps int) {
	var st *filesystem.Storage
	if p, what := ccGuard(func() { st = r.open(k) }); p {
		return 0, "panic", "opening the storage: " + what, 0
	}
	defer ccGuard(func() { st.Close() })
	for i, op := range seq {
		b, d, cl := r.run(st, op)
		steps++
		if b != "" {
			return i, b, d, steps
		}
		if classes != nil {
			classes(op.String() + "/" + cl)
		}
	}
	return -1, "", "", steps
}

func (r *c11Repo) report(c *fw.Ctx, k c11Cfg, seq []c11Op, bad, detail string) {
	fails := func(kk c11Cfg, s []c11Op) bool {
		_, b, _, _ := r.runSeq(kk, s, nil)
		return b == bad
	}
	min := fw.MinSeq(seq, nil, func(s []c11Op) bool { return len(s) > 0 && fails(k, s) })
	// which options are needed?
	mk := k
	def := c11Cfg{Cache: 2}
	try := func(f func(*c11Cfg)) {
		t := mk
		f(&t)
		if t != mk && fails(t, min) {
			mk = t
		}
	}
	try(func(t *c11Cfg) { t.Excl = def.Excl })
	try(func(t *c11Cfg) { t.InMemIdx = def.InMemIdx })
	try(func(t *c11Cfg) { t.HighMem = def.HighMem })
	try(func(t *c11Cfg) { t.Mmap = def.Mmap })
	try(func(t *c11Cfg) { t.LOT = def.LOT })
	try(func(t *c11Cfg) { t.Cache = def.Cache })
	try(func(t *c11Cfg) { t.Pool = def.Pool })
	// key: the state-building prefix of the minimal sequence with role classes,
	// the observing (last) operation by kind only when it is not alone.
	var ss []string
	for i, o := range min {
		switch {
		case i == len(min)-1 && len(min) > 1:
			ss = append(ss, "*")
			bad = "later-read-fails"
		case o.Kind == c11Prefix:
			ss = append(ss, "Prefix")
		case o.Kind == c11Delta && bad == "wrong-size":
			// the ActualSize of a delta does not depend on where the pack lives
			ss = append(ss, c11KindName[o.Kind]+"(packed-delta)")
		case o.Kind != c11Iter:
			ss = append(ss, c11KindName[o.Kind]+"("+r.roleClass(o.Role)+")")
		default:
			ss = append(ss, o.String())
		}
	}
	key := fmt.Sprintf("storage/%s/%s/[%s]", strings.Join(ss, ">"), bad, mk)
	c.Fail(key, fmt.Sprintf("%s repository, options [%s]: sequence %v on a fresh Storage: %s (%s)", r.of, mk, min, bad, detail),
		map[string]any{"object_format": r.of, "options": mk.String(), "sequence": fmt.Sprint(min), "roles": r.roles, "discrepancy": bad, "detail": detail,
			"original_options": k.String(), "original_sequence": fmt.Sprint(seq)})
}

func runC11(c *fw.Ctx) {
	defer ccProfile()()
	L := 2
	level := c.Pick(0, 1)
	c.Bound("object_formats", []string{"sha1", "sha256"})
	c.Bound("sequence_length", L)
	c.Bound("deep_sequence_length", 3)
	c.SetRule("repositories built by git (alternate with pack+.rev and a loose object; main with an ofs-delta pack with .rev, a ref-delta pack without .rev, loose commit/tree/blob/tag/large blob, two objects both loose and packed), sha1 and sha256; for every combination of ExclusiveAccess x UseInMemoryIdx x LargeObjectThreshold{0,1} x cache{0 bytes, one object, default} x pool{default, capacity 1} x osfs{plain, WithMmap} (x HighMemoryMode in thorough) every sequence of read operations of the stated length over the alphabet (Get any/typed/wrong-type, Has, Size, DeltaObject, partial read then close, Iter per type, HashesWithPrefix; objects by role: loose, packed base, ofs-delta, ref-delta, loose+packed, alternate packed/loose, empty blob, absent) runs on a fresh Storage, each step compared with `git cat-file --batch-all-objects --batch`; by-offset paths: packfile.Packfile and mmap.PackScanner over every object and every ordered pair of role objects with offsets from `git verify-pack -v`; further passes: every object of the repository (including a 100 KiB packed base, its packed delta and a 96 KiB loose blob) through one Storage in ascending/descending id order per read kind and from inside an iteration callback; every shape of prefix (0, 1, 2, hs-1, hs, hs+1 bytes, 00, ff) alone and after a read; the repository with a second alternate; reads before and after writes of new loose objects (ids sorting before, inside and after the existing loose ids) and re-writes of existing objects on the same Storage; a class is a distinct (operation, role, concrete object type handed out / outcome)")
	c.Assume("git 2.39.5 cat-file/verify-pack/fsck describe the repositories; iteration and prefix search must cover the repository's own objects (objects reachable only through alternates may or may not be listed: IterEncodedObjects does not descend into alternates, HashesWithPrefix does)")
	c.Assume("a reader is always closed by the caller; storages are closed after each sequence")

	var repos []*c11Repo
	for _, of := range []string{"sha1", "sha256"} {
		repos = append(repos, c11Build(c, of))
	}
	cfgs := c11Configs(c.Thorough())
	c.Bound("configurations", len(cfgs))
	c.Sample(map[string]any{"roles_sha1": repos[0].roles, "objects": len(repos[0].model), "local": len(repos[0].local), "loose": len(repos[0].loose)})

	// by-offset drivers first (cheap)
	for _, r := range repos {
		c11PackDrivers(c, r)
	}

	c11DeepChains(c)
	// the smaller passes run before the big product, so that a short time budget cuts the product, not them
	for _, r := range repos {
		pc := c11ProductCfgs(c, r, cfgs)
		c11PrefixForms(c, r, pc)
		c11TwoAlternates(c, r)
		c11WritePass(c, r)
	}
	for _, r := range repos {
		c11EveryObject(c, r, c11ProductCfgs(c, r, cfgs))
	}

	type job struct {
		r     *c11Repo
		k     c11Cfg
		first c11Op
		alpha []c11Op
		L     int
	}
	var jobs []job
	for _, r := range repos {
		alpha := r.alphabet(level)
		c.Extra("alphabet_"+r.of, len(alpha))
		n := 0
		for _, k := range cfgs {
			if !c.Thorough() && r.of == "sha256" && (k.Excl || k.Mmap || k.LOT != 0) {
				continue // quick: sha256 runs the cache x pool x index product only
			}
			if c.Thorough() && k.HighMem && (k.Excl || k.Mmap) {
				continue // HighMemoryMode (a write-side option) is combined with the index/threshold/cache/pool product only
			}
			if c.Thorough() && r.of == "sha256" && (k.Mmap || k.HighMem) {
				continue // thorough: sha256 without the mmap and HighMemoryMode dimensions
			}
			if !c.Thorough() && k.Mmap && k.Excl {
				continue // quick: mmap-backed files are not combined with ExclusiveAccess
			}
			n++
			for _, f := range alpha {
				jobs = append(jobs, job{r, k, f, alpha, L})
			}
		}
		c.States(n)
		c.Extra("configurations_"+r.of, n)
	}
	// deeper: length 3 over the quick alphabet on the option corners
	if c.Thorough() {
		for _, r := range repos {
			alpha := r.alphabet(0)
			for _, k := range []c11Cfg{{Cache: 2}, {Cache: 0, Pool: 1, InMemIdx: true}, {Cache: 1, LOT: 1, Excl: true}, {Cache: 1, Pool: 1, Mmap: true}} {
				for _, f := range alpha {
					jobs = append(jobs, job{r, k, f, alpha, 3})
				}
			}
		}
	}
	c.ParDo(len(jobs), 0, func(i int) {
		j := jobs[i]
		reported := map[string]bool{}
		var trans int
		seq := make([]c11Op, j.L)
		seq[0] = j.first
		idx := make([]int, j.L-1)
		for {
			for p := range idx {
				seq[p+1] = j.alpha[idx[p]]
			}
			step, bad, detail, steps := j.r.runSeq(j.k, seq, c.Class)
			trans += steps
			c.Eval()
			if bad != "" {
				sig := bad + fmt.Sprint(seq[:step+1])
				if !reported[sig] {
					reported[sig] = true
					j.r.report(c, j.k, append([]c11Op(nil), seq[:step+1]...), bad, detail)
				}
			}
			p := len(idx) - 1
			for p >= 0 {
				idx[p]++
				if idx[p] < len(j.alpha) {
					break
				}
				idx[p] = 0
				p--
			}
			if p < 0 {
				break
			}
		}
		c.Transitions(trans)
	})
}

package checks

// C04 — trees decoded like git; only fsck-clean trees written; valid
// duplicate-free entry sets are never refused.
//
// Decode: every raw tree that is a sequence of <= 2 entries over names x modes
// (+ <= 3 entries over a reduced alphabet, + a second hash pattern, + every
// truncation of the one-entry trees) is stored in a git repository (one
// pack), listed by ONE `git ls-tree -r -t -z` over a root tree that has every
// well-formed test tree as a sub-directory, and decoded by go-git. A Go
// transcription of git's decode_tree_entry/canon_mode predicts the listing; it
// is compared with real git on every well-formed tree (conformance) and with
// per-tree `git ls-tree` exits on a bounded set of malformed ones.
//
// Encode: every entry set of size <= 2 over names x modes x {consistent hash,
// null hash} (+ size 3 over a reduced universe) is sorted with go-git's
// TreeEntrySorter and passed to Tree.Encode. Whatever go-git writes goes into
// one repository and `git fsck --strict` must print no "error in tree" line for
// it; a set the fsck-rule model calls valid (distinct names, canonical modes,
// no fsck error) must not be refused and must be written as the git-ordered
// entries. The fsck-rule model + git-order encoder are replayed against real
// `git fsck --strict` / `git ls-tree` on every set of the same space.

import (
	"bytes"
	"encoding/hex"
	"fmt"
	"sort"
	"strings"
	"sync"

	"github.com/go-git/go-git/v6/plumbing"
	"github.com/go-git/go-git/v6/plumbing/filemode"
	"github.com/go-git/go-git/v6/plumbing/object"

	"verifmc/fw"
)

func init() {
	fw.Register(&fw.Check{ID: "C04", Level: "model_checking", Run: runC04, QuickBudget: 90, ThoroughBudget: 900})
}

// ---------------------------------------------------------------- git models

type c04Ent struct {
	Mode uint32 // canonical mode as ls-tree prints it
	Name string
	OID  string // hex
}

// c04GitDecode transcribes tree-walk.c: init_tree_desc / decode_tree_entry /
// update_tree_entry with canon_mode applied (what ls-tree shows).
func c04GitDecode(buf []byte, hs int) ([]c04Ent, bool) {
	var out []c04Ent
	for len(buf) > 0 {
		size := len(buf)
		if size < hs+3 || buf[size-(hs+1)] != 0 {
			return nil, false // too-short tree object
		}
		if buf[0] == ' ' {
			return nil, false // malformed mode
		}
		var mode uint32
		i := 0
		for {
			ch := buf[i] // a NUL exists at size-hs-1, so this stops in range
			i++
			if ch == ' ' {
				break
			}
			if ch < '0' || ch > '7' {
				return nil, false
			}
			mode = mode<<3 + uint32(ch-'0')
		}
		path := buf[i:]
		if path[0] == 0 {
			return nil, false // empty filename
		}
		n := bytes.IndexByte(path, 0)
		end := i + n + 1 + hs
		if end > size {
			return nil, false // corrupt tree file
		}
		out = append(out, c04Ent{Mode: c04Canon(mode), Name: string(path[:n]), OID: hex.EncodeToString(buf[i+n+1 : end])})
		buf = buf[end:]
	}
	return out, true
}

// c04Canon is cache.h canon_mode().
func c04Canon(m uint32) uint32 {
	switch m & 0o170000 {
	case 0o100000:
		if m&0o100 != 0 {
			return 0o100755
		}
		return 0o100644
	case 0o120000:
		return 0o120000
	case 0o040000:
		return 0o040000
	}
	return 0o160000
}

func c04TypeOfMode(m uint32) string {
	switch m & 0o170000 {
	case 0o040000:
		return "tree"
	case 0o160000:
		return "commit"
	}
	return "blob"
}

// c04SetEnt is an entry of an entry set for encoding.
type c04SetEnt struct {
	Name string
	Mode uint32
	Hash []byte
}

// c04GitLess is base_name_compare of two entries with distinct names.
func c04GitLess(a, b c04SetEnt) bool {
	an, bn := a.Name, b.Name
	if a.Mode&0o170000 == 0o040000 {
		an += "/"
	}
	if b.Mode&0o170000 == 0o040000 {
		bn += "/"
	}
	return an < bn
}

// c04GitEncode is the reference encoder: git order, "%o name\0hash".
func c04GitEncode(set []c04SetEnt) []byte {
	s := append([]c04SetEnt{}, set...)
	sort.SliceStable(s, func(i, j int) bool { return c04GitLess(s[i], s[j]) })
	var b bytes.Buffer
	for _, e := range s {
		fmt.Fprintf(&b, "%o %s\x00", e.Mode, e.Name)
		b.Write(e.Hash)
	}
	return b.Bytes()
}

func c04IsNTFSDotGitTail(s string) bool {
	// after ".git"/"git~1": only spaces and dots up to the end, a backslash or a colon
	for i := 0; i < len(s); i++ {
		switch s[i] {
		case ' ', '.':
		case '\\', ':':
			return true
		default:
			return false
		}
	}
	return true
}

// c04IsDotGit covers is_hfs_dotgit/is_ntfs_dotgit for ASCII names (the
// alphabet has no HFS-ignorable code points) including the after-backslash
// scan of fsck_tree.
func c04IsDotGit(name string) bool {
	one := func(s string) bool {
		l := strings.ToLower(s)
		if strings.HasPrefix(l, ".git") && c04IsNTFSDotGitTail(l[4:]) {
			return true
		}
		if strings.HasPrefix(l, "git~1") && c04IsNTFSDotGitTail(l[5:]) {
			return true
		}
		return false
	}
	if one(name) {
		return true
	}
	for i := 0; i < len(name); i++ {
		if name[i] == '\\' && one(name[i+1:]) {
			return true
		}
	}
	return false
}

// c04FsckErrors transcribes the error-level (under --strict) rules of
// fsck_tree for a set with distinct names written in git order.
func c04FsckErrors(set []c04SetEnt) []string {
	m := map[string]bool{}
	names := map[string]bool{}
	for _, e := range set {
		if e.Name == "" {
			return []string{"badTree"}
		}
	}
	for _, e := range set {
		if bytes.Equal(e.Hash, make([]byte, len(e.Hash))) {
			m["nullSha1"] = true
		}
		if strings.Contains(e.Name, "/") {
			m["fullPathname"] = true
		}
		if e.Name == "." {
			m["hasDot"] = true
		}
		if e.Name == ".." {
			m["hasDotdot"] = true
		}
		if c04IsDotGit(e.Name) {
			m["hasDotgit"] = true
		}
		if e.Mode&0o170000 == 0o120000 && strings.EqualFold(e.Name, ".gitmodules") {
			m["gitmodulesSymlink"] = true
		}
		if e.Mode == 0 {
			m["zeroPaddedFilemode"] = true // written as "0"
		}
		if names[e.Name] {
			m["duplicateEntries"] = true
		}
		names[e.Name] = true
	}
	var out []string
	for k := range m {
		out = append(out, k)
	}
	sort.Strings(out)
	return out
}

func c04CanonicalMode(m uint32) bool {
	switch m {
	case 0o100644, 0o100755, 0o120000, 0o040000, 0o160000:
		return true
	}
	return false
}

func c04DistinctNames(set []c04SetEnt) bool {
	n := map[string]bool{}
	for _, e := range set {
		if n[e.Name] {
			return false
		}
		n[e.Name] = true
	}
	return true
}

// c04Valid: a duplicate-free set git itself would write and fsck accepts.
func c04Valid(set []c04SetEnt) bool {
	if !c04DistinctNames(set) {
		return false
	}
	for _, e := range set {
		if !c04CanonicalMode(e.Mode) {
			return false
		}
	}
	return len(c04FsckErrors(set)) == 0
}

// ---------------------------------------------------------------- helpers

func c04Hex(b []byte) string { return hex.EncodeToString(b) }

func c04Unhex(s string) []byte {
	b, err := hex.DecodeString(s)
	if err != nil {
		fw.Abort("unhex %q", s)
	}
	return b
}

// c04LsTreeAll lists every tree of ids (all well-formed) with one git process
// through a root tree; returns per-tree entries.
func c04LsTreeAll(g *fw.Git, format string, ids []string) [][]c04Ent {
	var root bytes.Buffer
	for i, id := range ids {
		fmt.Fprintf(&root, "40000 t%07d\x00", i)
		root.Write(c04Unhex(id))
	}
	rid := aStoreObjects(g, format, []aObj{{"tree", root.Bytes()}})[0]
	r := g.MustRun("ls-tree", "-r", "-t", "-z", rid)
	out := make([][]c04Ent, len(ids))
	for _, rec := range bytes.Split(r.Out, []byte{0}) {
		if len(rec) == 0 {
			continue
		}
		tab := bytes.IndexByte(rec, '\t')
		if tab < 0 {
			fw.Abort("ls-tree record without tab: %q", rec)
		}
		f := strings.Fields(string(rec[:tab]))
		path := string(rec[tab+1:])
		if len(f) != 3 || len(path) < 8 || path[0] != 't' {
			fw.Abort("ls-tree record: %q", rec)
		}
		var idx int
		fmt.Sscanf(path[1:8], "%d", &idx)
		if len(path) == 8 {
			continue // the root's own entry for the test tree
		}
		var mode uint32
		fmt.Sscanf(f[0], "%o", &mode)
		if c04TypeOfMode(mode) != f[1] {
			fw.Abort("ls-tree type %q for mode %o", f[1], mode)
		}
		out[idx] = append(out[idx], c04Ent{Mode: mode, Name: path[9:], OID: f[2]})
	}
	return out
}

func c04EntsEq(a, b []c04Ent) bool {
	if len(a) != len(b) {
		return false
	}
	for i := range a {
		if a[i] != b[i] {
			return false
		}
	}
	return true
}

func c04FmtEnts(e []c04Ent) string {
	var s []string
	for _, x := range e {
		s = append(s, fmt.Sprintf("%06o %s %s", x.Mode, fw.Q(x.Name), x.OID[:8]))
	}
	return "[" + strings.Join(s, ", ") + "]"
}

// c04GoDecode runs the real Tree.Decode on raw bytes.
func c04GoDecode(format string, raw []byte) (ents []c04Ent, err error, panicked string) {
	panicked = aGuard(func() {
		o := plumbing.NewMemoryObject(plumbing.FromObjectFormat(c01FormatOf(format)))
		o.SetType(plumbing.TreeObject)
		o.Write(raw)
		t := &object.Tree{}
		if err = t.Decode(o); err != nil {
			return
		}
		for _, e := range t.Entries {
			ents = append(ents, c04Ent{Mode: uint32(e.Mode), Name: e.Name, OID: e.Hash.String()})
		}
	})
	return
}

// c04GoEncode sorts the set with go-git's own sorter and encodes it.
func c04GoEncode(format string, set []c04SetEnt) (raw []byte, err error, panicked string) {
	panicked = aGuard(func() {
		t := &object.Tree{}
		for _, e := range set {
			h, ok := plumbing.FromBytes(e.Hash)
			if !ok {
				fw.Abort("FromBytes(%d bytes)", len(e.Hash))
			}
			t.Entries = append(t.Entries, object.TreeEntry{Name: e.Name, Mode: filemode.FileMode(e.Mode), Hash: h})
		}
		sort.Sort(object.TreeEntrySorter(t.Entries))
		o := plumbing.NewMemoryObject(plumbing.FromObjectFormat(c01FormatOf(format)))
		if err = t.Encode(o); err != nil {
			return
		}
		rd, _ := o.Reader()
		var b bytes.Buffer
		b.ReadFrom(rd)
		raw = b.Bytes()
		if raw == nil {
			raw = []byte{}
		}
	})
	return
}

// ---------------------------------------------------------------- the check

func runC04(c *fw.Ctx) {
	c.Assume("git 2.39.5 ls-tree / fsck --strict are the reference; 'passes fsck without errors' = no `error in tree <id>` line (warnings such as badFilemode for 100664 are not errors)")
	c.Assume("'valid duplicate-free set' = distinct names, modes in {100644,100755,120000,40000,160000}, no error-level fsck_tree rule hit; nothing is demanded for other sets except that what go-git writes is fsck-clean")
	c.Assume("a tree is 'built from a set' by sorting with object.TreeEntrySorter and calling Tree.Encode; Decode is driven on a MemoryObject holding the raw bytes")
	c.SetRule("decode: all entry sequences (see bounds) as raw trees, go-git Tree.Decode vs one real `git ls-tree -r -t -z`; encode: all entry subsets, go-git Tree.Encode verdict+bytes vs fsck-rule model and real `git fsck --strict`; a class is (part, format, go-git verdict, git verdict, multiset of (mode, name-kind) of the entries) — trivial would be a single class")
	var wg sync.WaitGroup
	for _, f := range []string{"sha1", "sha256"} {
		wg.Add(2)
		go func() { defer wg.Done(); defer c04Recover(c); c04Decode(c, f) }()
		go func() { defer wg.Done(); defer c04Recover(c); c04Encode(c, f) }()
	}
	wg.Wait()
}

// c04Recover turns a panic of a part goroutine (fw.Abort) into an engine error.
func c04Recover(c *fw.Ctx) {
	if r := recover(); r != nil {
		c.EngineError("%v", r)
	}
}

func c04NameKind(n string) string {
	switch {
	case len(n) > 255:
		return "long"
	case n == "":
		return "empty"
	case n == "." || n == "..":
		return "dots"
	case c04IsDotGit(n):
		return "dotgit"
	case strings.Contains(n, "/"):
		return "slash"
	case strings.Contains(n, "\\"):
		return "bslash"
	case strings.ContainsAny(n, "\n\t\x01\x7f"):
		return "ctl"
	case n[0] >= 0x80:
		return "hi"
	case strings.EqualFold(n, ".gitmodules"):
		return "gitmodules"
	}
	return "plain"
}

type c04RawEnt struct {
	Mode string // as written
	Name string
}

func c04Decode(c *fw.Ctx, format string) {
	hs := 20
	if format == "sha256" {
		hs = 32
	}
	g, _ := c.InitRepo("c04-dec-"+format, format, true)
	base := aStoreObjects(g, format, []aObj{{"blob", []byte{}}, {"tree", []byte{}}})
	h1, ht := c04Unhex(base[0]), c04Unhex(base[1])
	h2 := make([]byte, hs) // a hash with NUL, SP, LF and 0xff inside
	for i := range h2 {
		h2[i] = []byte{0x00, 0x20, 0x0a, 0xff, 0x31}[i%5]
	}
	names := []string{"a", "b", "a.", "a-", "a0", "ab", "", ".", "..", ".git", ".GIT", "a/b", "a\nb", "\x80"}
	modes := []string{"100644", "100755", "120000", "40000", "160000", "100664", "0100644", "040000", "644", "0", "100601", "00100644", "", "10064x"}
	rNames := []string{"a", "b", "a.", "ab", ".git", "a/b"}
	rModes := []string{"100644", "40000", "160000", "100664", "0100644"}
	if c.Thorough() {
		rNames = append(rNames, "a0", "a\nb")
		rModes = append(rModes, "100755", "100601")
	}
	if format == "sha256" { // the second format runs the reduced alphabet at depth 2 and the full one at depth 1
		c.Bound("decode_sha256", "all 1-entry trees over the full alphabet; <=2 and 3 entries over the reduced alphabet")
	} else {
		c.Bound("decode_names", names)
		c.Bound("decode_modes", modes)
		c.Bound("decode_max_entries_full_alphabet", 2)
		c.Bound("decode_reduced_names", rNames)
		c.Bound("decode_reduced_modes", rModes)
		c.Bound("decode_max_entries_reduced_alphabet", 3)
	}
	var E, R []c04RawEnt
	for _, n := range names {
		for _, m := range modes {
			E = append(E, c04RawEnt{m, n})
		}
	}
	for _, n := range rNames {
		for _, m := range rModes {
			R = append(R, c04RawEnt{m, n})
		}
	}
	isDir := func(m string) bool {
		var v uint32
		if _, err := fmt.Sscanf(m, "%o", &v); err != nil {
			return false
		}
		return v&0o170000 == 0o040000
	}
	enc := func(seq []c04RawEnt, alt bool) []byte {
		var b bytes.Buffer
		for _, e := range seq {
			b.WriteString(e.Mode + " " + e.Name + "\x00")
			switch {
			case isDir(e.Mode):
				b.Write(ht) // ls-tree -r descends: must be a real (empty) tree
			case alt:
				b.Write(h2)
			default:
				b.Write(h1)
			}
		}
		return b.Bytes()
	}
	type tcase struct {
		raw  []byte
		desc string
		kind string
	}
	var cases []tcase
	seen := map[string]bool{}
	addCase := func(raw []byte, desc, kind string) {
		if seen[string(raw)] {
			return
		}
		seen[string(raw)] = true
		cases = append(cases, tcase{raw, desc, kind})
	}
	descOf := func(seq []c04RawEnt) string {
		var s []string
		for _, e := range seq {
			s = append(s, e.Mode+" "+fw.Q(e.Name))
		}
		return strings.Join(s, " | ")
	}
	kindOf := func(seq []c04RawEnt) string {
		var s []string
		for _, e := range seq {
			s = append(s, e.Mode+":"+c04NameKind(e.Name))
		}
		sort.Strings(s)
		return strings.Join(s, ",")
	}
	addSeqs := func(alpha []c04RawEnt, maxLen int) {
		for _, idx := range fw.Seqs(len(alpha), maxLen) {
			seq := make([]c04RawEnt, len(idx))
			for i, x := range idx {
				seq[i] = alpha[x]
			}
			addCase(enc(seq, false), descOf(seq), kindOf(seq))
		}
	}
	if format == "sha1" {
		addSeqs(E, 2)
	} else {
		addSeqs(E, 1)
		addSeqs(R, 2)
	}
	addSeqs(R, 3)
	for _, e := range E { // second hash pattern + all truncations of the 1-entry trees
		addCase(enc([]c04RawEnt{e}, true), descOf([]c04RawEnt{e})+" (hash with NUL/SP/LF)", "althash:"+kindOf([]c04RawEnt{e}))
		raw := enc([]c04RawEnt{e}, false)
		for cut := 1; cut < len(raw); cut++ {
			addCase(raw[:cut], fmt.Sprintf("%s cut at %d", descOf([]c04RawEnt{e}), cut), "cut:"+kindOf([]c04RawEnt{e}))
		}
		two := enc([]c04RawEnt{e, {"100644", "zz"}}, true)
		for cut := len(raw) + 1; cut < len(two); cut++ {
			addCase(two[:cut], fmt.Sprintf("%s | 100644 \"zz\" cut at %d", descOf([]c04RawEnt{e}), cut), "cut2:"+kindOf([]c04RawEnt{e}))
		}
	}
	// trees and names larger than the decoder's read buffer (bufio, 4 KiB; and
	// 64 KiB): a long name as only / first entry; a first entry of every length
	// 1..35 followed by 130 entries (the 4 KiB boundary falls on every offset
	// inside an entry); 2 500 entries (crosses 64 KiB)
	bigModes := []string{"100644", "100755", "120000", "160000", "40000"}
	many := func(n int) []c04RawEnt {
		out := make([]c04RawEnt, n)
		for i := range out {
			out[i] = c04RawEnt{bigModes[i%len(bigModes)], fmt.Sprintf("e%05d", i)}
		}
		return out
	}
	longNames := []int{4087, 4088, 4089, 4090, 4096, 4097, 8192, 70000}
	for _, n := range longNames {
		long := c04RawEnt{"100644", strings.Repeat("N", n)}
		addCase(enc([]c04RawEnt{long}, false), fmt.Sprintf("100644 <name of %d bytes>", n), "big:longname")
		addCase(enc([]c04RawEnt{long, {"40000", "zz"}}, true), fmt.Sprintf("100644 <name of %d bytes> | 40000 \"zz\"", n), "big:longname+1")
	}
	for pad := 0; pad < 35; pad++ {
		seq := append([]c04RawEnt{{"100644", strings.Repeat("A", 1+pad)}}, many(130)...)
		addCase(enc(seq, pad%2 == 1), fmt.Sprintf("100644 <%d x A> | 130 entries e00000.. with modes cycling %v", 1+pad, bigModes), "big:131-entries")
	}
	addCase(enc(many(2500), false), fmt.Sprintf("2500 entries e00000.. with modes cycling %v", bigModes), "big:2500-entries")
	c.Bound("decode_big_trees_"+format, fmt.Sprintf("names of %v bytes (alone and followed by an entry); 35 trees of 131 entries (first name 1..35 bytes); one tree of 2500 entries", longNames))
	c.States(len(cases))

	// model verdicts; store everything; real listing of every well-formed tree.
	objs := make([]aObj, len(cases))
	for i := range cases {
		objs[i] = aObj{"tree", cases[i].raw}
	}
	ids := aStoreObjects(g, format, objs)
	model := make([][]c04Ent, len(cases))
	wf := make([]bool, len(cases))
	var wfIDs []string
	var wfIdx []int
	for i := range cases {
		model[i], wf[i] = c04GitDecode(cases[i].raw, hs)
		if wf[i] {
			wfIDs = append(wfIDs, ids[i])
			wfIdx = append(wfIdx, i)
		}
	}
	real := c04LsTreeAll(g, format, wfIDs)
	gitList := make([][]c04Ent, len(cases))
	for k, i := range wfIdx {
		gitList[i] = real[k]
		if !c04EntsEq(real[k], model[i]) {
			fw.Abort("tree-decode model disagrees with real git ls-tree on %s (%s): git=%s model=%s", cases[i].desc, ids[i], c04FmtEnts(real[k]), c04FmtEnts(model[i]))
		}
		c.TracesValidated(1)
	}
	c.Extra("decode_"+format, map[string]int{"raw_trees": len(cases), "listed_by_git": len(wfIDs)})
	// malformed per the model: real git must refuse them, one process each,
	// so bounded: every malformed whole tree with <= 1 entry, then an evenly
	// spaced selection of the rest up to malformed_conformance_cap.
	var mal, rest []int
	for i := range cases {
		if wf[i] {
			continue
		}
		if i < len(E)+1 {
			mal = append(mal, i)
		} else {
			rest = append(rest, i)
		}
	}
	capN := c.Pick(250, 2500)
	if format == "sha256" {
		capN /= 4
	}
	c.Bound("malformed_conformance_cap_"+format, capN)
	if step := len(rest)/capN + 1; true {
		for k := 0; k < len(rest); k += step {
			mal = append(mal, rest[k])
		}
	}
	c.ParDo(len(mal), 0, func(k int) {
		i := mal[k]
		r := g.Run("ls-tree", "-z", ids[i])
		if r.OK() {
			fw.Abort("tree-decode model says malformed but git ls-tree lists %s (%s): %q", cases[i].desc, ids[i], r.Out)
		}
		c.TracesValidated(1)
	})

	// the real decoder
	c.ParDo(len(cases), 0, func(i int) {
		tc := cases[i]
		got, err, p := c04GoDecode(format, tc.raw)
		c.Eval()
		c.Transitions(1)
		verdict := "ok"
		if err != nil {
			verdict = "err"
		}
		c.Class(fmt.Sprintf("dec/%s/%s/git=%v/%s", format, verdict, wf[i], tc.kind))
		if i%9000 == 400 {
			c.Sample(map[string]any{"part": "decode", "format": format, "tree": tc.desc, "git_lists": c04FmtEnts(gitList[i]), "git_accepts": wf[i]})
		}
		rep := map[string]any{"part": "decode", "format": format, "tree": tc.desc, "raw_hex": c04Hex(tc.raw), "id": ids[i], "git": c04FmtEnts(gitList[i]), "git_accepts": wf[i]}
		if p != "" {
			c.Fail("decode: panic", "Tree.Decode panics on "+tc.desc+": "+p, rep)
			return
		}
		if !wf[i] {
			return // git refuses the object: the statement demands nothing
		}
		if err != nil {
			rep["go_git_error"] = err.Error()
			c.Fail("decode: go-git refuses a tree git lists: "+c04DecodeClass(tc.raw, hs, format, false), "Tree.Decode fails ("+err.Error()+") on a tree git ls-tree lists: "+tc.desc, rep)
			return
		}
		if !c04EntsEq(got, gitList[i]) {
			rep["go_git"] = c04FmtEnts(got)
			c.Fail("decode: entries differ from git ls-tree: "+c04DecodeClass(tc.raw, hs, format, true), "Tree.Decode yields "+c04FmtEnts(got)+", git ls-tree lists "+c04FmtEnts(gitList[i])+" for "+tc.desc, rep)
		}
	})
}

// c04DecodeClass names a decode disagreement by the minimal failing entry:
// the tree is cut down (entries deleted) while go-git still disagrees with
// the git model in the same way; the key is the written mode and name kind of
// what is left.
func c04DecodeClass(raw []byte, hs int, format string, wantDiff bool) string {
	// split raw into entries using the git model's own walk
	type piece struct{ b []byte }
	var ps []piece
	buf := raw
	for len(buf) > 0 {
		sp := bytes.IndexByte(buf, ' ')
		n := bytes.IndexByte(buf[sp+1:], 0)
		end := sp + 1 + n + 1 + hs
		ps = append(ps, piece{buf[:end]})
		buf = buf[end:]
	}
	fails := func(s []piece) bool {
		var b []byte
		for _, p := range s {
			b = append(b, p.b...)
		}
		m, ok := c04GitDecode(b, hs)
		if !ok {
			return false
		}
		got, err, p := c04GoDecode(format, b)
		if p != "" {
			return false
		}
		if wantDiff {
			return err == nil && !c04EntsEq(got, m)
		}
		return err != nil
	}
	lower := func(p piece) []piece { // same mode, simplest name
		sp := bytes.IndexByte(p.b, ' ')
		n := bytes.IndexByte(p.b[sp+1:], 0)
		if string(p.b[sp+1:sp+1+n]) == "a" {
			return nil
		}
		nb := append(append(append([]byte{}, p.b[:sp+1]...), 'a', 0), p.b[sp+1+n+1:]...)
		return []piece{{nb}}
	}
	min := fw.MinSeq(ps, lower, fails)
	var s []string
	for _, p := range min {
		sp := bytes.IndexByte(p.b, ' ')
		n := bytes.IndexByte(p.b[sp+1:], 0)
		s = append(s, string(p.b[:sp])+" "+c04NameKind(string(p.b[sp+1:sp+1+n])))
	}
	return strings.Join(s, " | ")
}

func c04Encode(c *fw.Ctx, format string) {
	hs := 20
	if format == "sha256" {
		hs = 32
	}
	g, _ := c.InitRepo("c04-enc-"+format, format, true)
	gm, _ := c.InitRepo("c04-encmodel-"+format, format, true)
	base := aStoreObjects(g, format, []aObj{{"blob", []byte{}}, {"tree", []byte{}}})
	aStoreObjects(gm, format, []aObj{{"blob", []byte{}}, {"tree", []byte{}}})
	h1, ht := c04Unhex(base[0]), c04Unhex(base[1])
	hc := make([]byte, hs) // a commit id for gitlinks (not dereferenced by fsck)
	for i := range hc {
		hc[i] = byte(0x11 + i)
	}
	zero := make([]byte, hs)
	names := []string{"a", "b", "a.", "a-", "a0", "ab", "", ".", "..", ".git", ".GIT", "a/b", "a\nb", "\x80", "a\\b", "a\\..", "\\", ".gitmodules", "git~1", ".git.", "a\\.git", "a\tb", "\x7f"}
	modes := []uint32{0o100644, 0o100755, 0o120000, 0o040000, 0o160000, 0o100664, 0o644, 0}
	rNames := []string{"a", "b", "a.", "a-", "a0", "ab", "a\nb", ".git"}
	rModes := []uint32{0o100644, 0o040000, 0o160000}
	if c.Thorough() {
		rNames = append(rNames, "a\\b", "A")
		rModes = append(rModes, 0o100755, 0o120000)
	}
	if format == "sha256" {
		names = []string{"a", "a.", "ab", "", ".git", "a/b", "a\nb", "\\"}
		rNames = []string{"a", "a.", "ab"}
		c.Bound("encode_sha256", "reduced: 8 names x 8 modes, subsets <=2; 3 names x modes, subsets of 3")
	} else {
		c.Bound("encode_names", names)
		c.Bound("encode_modes_octal", []string{"100644", "100755", "120000", "40000", "160000", "100664", "644", "0"})
		c.Bound("encode_max_set_full_universe", 2)
		c.Bound("encode_reduced_names", rNames)
		c.Bound("encode_reduced_modes", len(rModes))
		c.Bound("encode_set_size_reduced_universe", 3)
	}
	hashFor := func(m uint32) []byte {
		switch m & 0o170000 {
		case 0o040000:
			return ht
		case 0o160000:
			return hc
		}
		return h1
	}
	var U, R []c04SetEnt
	for _, n := range names {
		for _, m := range modes {
			U = append(U, c04SetEnt{n, m, hashFor(m)})
		}
		U = append(U, c04SetEnt{n, 0o100644, zero})
	}
	for _, n := range rNames {
		for _, m := range rModes {
			R = append(R, c04SetEnt{n, m, hashFor(m)})
		}
	}
	var sets [][]c04SetEnt
	for _, s := range fw.Subsets(len(U), 2) {
		set := make([]c04SetEnt, len(s))
		for i, x := range s {
			set[i] = U[x]
		}
		sets = append(sets, set)
	}
	for _, s := range fw.Subsets(len(R), 3) {
		if len(s) != 3 {
			continue
		}
		sets = append(sets, []c04SetEnt{R[s[0]], R[s[1]], R[s[2]]})
	}
	// names at go-git's length limit (maxTreeEntryNameLen = 4096): git 2.39.5
	// fsck --strict has no rule about the length of a name
	if format == "sha1" {
		for _, n := range []int{4095, 4096, 4097} {
			long := c04SetEnt{strings.Repeat("N", n), 0o100644, h1}
			sets = append(sets, []c04SetEnt{long}, []c04SetEnt{{"a", 0o100644, h1}, long}, []c04SetEnt{long, {"z", 0o040000, ht}})
		}
		c.Bound("encode_long_names", "names of 4095, 4096, 4097 bytes: alone, with {100644 a}, with {40000 z}")
	}
	c.States(len(sets))
	descOf := func(set []c04SetEnt) string {
		var s []string
		for _, e := range set {
			z := ""
			if bytes.Equal(e.Hash, zero) {
				z = " ->null"
			}
			nm := fw.Q(e.Name)
			if len(e.Name) > 255 {
				nm = fmt.Sprintf("<name of %d bytes>", len(e.Name))
			}
			s = append(s, fmt.Sprintf("%o %s%s", e.Mode, nm, z))
		}
		return "{" + strings.Join(s, ", ") + "}"
	}
	kindOf := func(set []c04SetEnt) string {
		var s []string
		for _, e := range set {
			z := ""
			if bytes.Equal(e.Hash, zero) {
				z = "z"
			}
			s = append(s, fmt.Sprintf("%o:%s%s", e.Mode, c04NameKind(e.Name), z))
		}
		sort.Strings(s)
		return strings.Join(s, ",")
	}

	// ---- conformance of the fsck-rule model and of the git-order encoder.
	modelRaw := make([][]byte, len(sets))
	mobjs := make([]aObj, len(sets))
	for i, s := range sets {
		modelRaw[i] = c04GitEncode(s)
		mobjs[i] = aObj{"tree", modelRaw[i]}
	}
	mids := aStoreObjects(gm, format, mobjs)
	realErr := c04Fsck(gm)
	var wfIDs []string
	var wfIdx []int
	for i, s := range sets {
		want := c04FsckErrors(s)
		got := realErr[mids[i]]
		if c04DistinctNames(s) {
			if len(want) > 0 && want[0] == "fullPathname" {
				// a name with '/' also confuses fsck's order check ("a/" vs "a/b"); not modelled
				var g2 []string
				for _, m := range got {
					if m != "treeNotSorted" {
						g2 = append(g2, m)
					}
				}
				got = g2
			}
			if len(want) == 1 && want[0] == "badTree" && len(got) > 0 {
				// an empty name makes the tree unparsable; which other flags
				// fsck collected before reaching it is not modelled
				got = want
			}
			if strings.Join(want, ",") != strings.Join(got, ",") {
				fw.Abort("fsck-rule model disagrees with real git fsck --strict on %s (tree %s): git=%v model=%v", descOf(s), mids[i], got, want)
			}
		} else if len(got) == 0 {
			fw.Abort("real git fsck --strict accepts a tree with duplicate names %s (tree %s)", descOf(s), mids[i])
		}
		c.TracesValidated(1)
		if c04Valid(s) {
			wfIDs = append(wfIDs, mids[i])
			wfIdx = append(wfIdx, i)
		}
	}
	lists := c04LsTreeAll(gm, format, wfIDs)
	for k, i := range wfIdx {
		// real git lists exactly the set (as a set) from the model encoding
		want := map[c04Ent]bool{}
		for _, e := range sets[i] {
			want[c04Ent{e.Mode, e.Name, c04Hex(e.Hash)}] = true
		}
		if len(lists[k]) != len(want) {
			fw.Abort("model encoding of %s lists as %s", descOf(sets[i]), c04FmtEnts(lists[k]))
		}
		for _, e := range lists[k] {
			if !want[e] {
				fw.Abort("model encoding of %s lists as %s", descOf(sets[i]), c04FmtEnts(lists[k]))
			}
		}
		c.TracesValidated(1)
	}

	// ---- the real encoder
	type res struct {
		raw []byte
		err error
		p   string
	}
	out := make([]res, len(sets))
	c.ParDo(len(sets), 0, func(i int) {
		raw, err, p := c04GoEncode(format, sets[i])
		out[i] = res{raw, err, p}
		c.Eval()
		c.Transitions(1)
	})
	if c.Expired() {
		return
	}
	var wobjs []aObj
	var widx []int
	for i, r := range out {
		if r.p == "" && r.err == nil && r.raw != nil {
			wobjs = append(wobjs, aObj{"tree", r.raw})
			widx = append(widx, i)
		}
	}
	wids := aStoreObjects(g, format, wobjs)
	fsck := c04Fsck(g)
	written := map[int]string{}
	for k, i := range widx {
		written[i] = wids[k]
	}
	lower := func(e c04SetEnt) []c04SetEnt {
		if e.Mode == 0o100644 {
			return nil
		}
		return []c04SetEnt{{e.Name, 0o100644, h1}}
	}
	nValid, nWritten := 0, 0
	defer func() {
		c.Extra("encode_"+format, map[string]int{"sets": len(sets), "valid_sets": nValid, "written_by_go_git": nWritten})
	}()
	for i, s := range sets {
		r := out[i]
		valid := c04Valid(s)
		verdict := "written"
		if r.err != nil {
			verdict = "refused"
		}
		c.Class(fmt.Sprintf("enc/%s/%s/valid=%v/%s", format, verdict, valid, kindOf(s)))
		if valid {
			nValid++
		}
		if r.err == nil && r.p == "" {
			nWritten++
		}
		if (valid && len(s) == 3 && nValid%700 == 1) || i%9000 == 7 {
			c.Sample(map[string]any{"part": "encode", "format": format, "set": descOf(s), "valid": valid, "go_git": verdict, "tree_id": written[i]})
		}
		rep := map[string]any{"part": "encode", "format": format, "set": descOf(s), "valid_per_fsck_rules": valid}
		switch {
		case r.p != "":
			c.Fail("encode: panic", "Tree.Encode panics on "+descOf(s)+": "+r.p, rep)
		case r.err != nil && valid:
			min := fw.MinSeq(s, lower, func(x []c04SetEnt) bool {
				if len(x) == 0 || !c04Valid(x) {
					return false
				}
				_, e, p := c04GoEncode(format, x)
				return p == "" && e != nil
			})
			rep["go_git_error"] = r.err.Error()
			rep["minimal"] = descOf(min)
			c.Fail("encode: refuses a valid set: "+c04KeyOf(min), "Tree.Encode refuses "+descOf(s)+" ("+c04FirstLine(r.err)+"); git fsck --strict accepts the tree `git mktree` builds from it", rep)
		case r.err == nil:
			id := written[i]
			rep["tree_id"] = id
			rep["raw_hex"] = c04Hex(r.raw)
			if errs := fsck[id]; len(errs) > 0 {
				min := fw.MinSeq(s, lower, func(x []c04SetEnt) bool {
					raw, e, p := c04GoEncode(format, x)
					if p != "" || e != nil {
						return false
					}
					// model verdict on the bytes go-git wrote
					return c04RawHasFsckError(raw, x, hs, errs[0])
				})
				rep["fsck"] = errs
				rep["minimal"] = descOf(min)
				c.Fail("encode: writes a tree git fsck rejects ("+errs[0]+"): "+descOf(min), "Tree.Encode wrote tree "+id+" from "+descOf(s)+"; git fsck --strict: "+strings.Join(errs, ","), rep)
			} else if c04DistinctNames(s) && !bytes.Equal(r.raw, modelRaw[i]) {
				rep["want_hex"] = c04Hex(modelRaw[i])
				c.Fail("encode: written tree is not the git-ordered entry set: "+kindOf(s), "Tree.Encode wrote other bytes than mode/name/id of "+descOf(s)+" in git order", rep)
			}
		}
	}
}

// c04KeyOf names a minimal refused set; names with a control character are
// one class (one rule of pathutil.ValidTreePath rejects them all).
func c04KeyOf(set []c04SetEnt) string {
	var s []string
	for _, e := range set {
		n := fw.Q(e.Name)
		if len(e.Name) > 255 {
			n = fmt.Sprintf("<name of %d bytes>", len(e.Name))
		}
		for i := 0; i < len(e.Name); i++ {
			if e.Name[i] < 0x20 || e.Name[i] == 0x7f {
				n = "<name with a control character>"
			}
		}
		s = append(s, fmt.Sprintf("%o %s", e.Mode, n))
	}
	return "{" + strings.Join(s, ", ") + "}"
}

func c04FirstLine(err error) string {
	s := err.Error()
	if i := strings.IndexByte(s, '\n'); i >= 0 {
		s = s[:i]
	}
	return s
}

// c04RawHasFsckError: does the (model) fsck report msg for raw bytes that
// encode set x in the order go-git chose? Used only to minimise a failure.
func c04RawHasFsckError(raw []byte, x []c04SetEnt, hs int, msg string) bool {
	for _, m := range c04FsckErrors(x) {
		if m == msg {
			return true
		}
	}
	if msg == "treeNotSorted" {
		return !bytes.Equal(raw, c04GitEncode(x)) && c04DistinctNames(x)
	}
	return false
}

// c04Fsck runs `git fsck --strict` once and returns the error-level message
// ids per tree id.
func c04Fsck(g *fw.Git) map[string][]string {
	r := g.Run("fsck", "--strict", "--no-dangling", "--no-reflogs")
	if r.Code != 0 && r.Code&^0xf != 0 {
		fw.Abort("git fsck exit %d: %.300s", r.Code, r.Err)
	}
	out := map[string][]string{}
	for _, l := range strings.Split(string(r.Out)+string(r.Err), "\n") {
		if !strings.HasPrefix(l, "error in tree ") {
			continue
		}
		rest := l[len("error in tree "):]
		f := strings.SplitN(rest, ": ", 3)
		if len(f) < 2 {
			fw.Abort("fsck line %q", l)
		}
		id, msg := f[0], f[1]
		if msg == "broken links" || msg == "gitmodulesBlob" {
			// gitmodulesBlob is reported against the object a ".gitmodules"
			// entry points to (here the shared empty tree), not against the tree
			continue
		}
		dup := false
		for _, m := range out[id] {
			dup = dup || m == msg
		}
		if !dup {
			out[id] = append(out[id], msg)
		}
	}
	for id := range out {
		sort.Strings(out[id])
	}
	return out
}

package checks

import (
	"fmt"
	"os"
	"path/filepath"
	"sort"
	"strings"
	"sync/atomic"

	git "github.com/go-git/go-git/v6"
	"github.com/go-git/go-git/v6/plumbing"

	"verifmc/fw"
)

// C25: after a successful forced checkout / hard reset to commit C the tracked
// worktree content, the index and HEAD match C exactly (git status reports no
// tracked change) and untracked files not in C are still there, unchanged.

func init() {
	fw.Register(&fw.Check{ID: "C25", Level: "exploration", Run: runC25, QuickBudget: 150, ThoroughBudget: 1200})
}

// A commit assigns a kind to "a" (- 1 2 x l) and a shape to "d":
// '-' absent, 'F' file d="one\n", 'D' dir with d/g="one\n", 'E' dir with d/g="two\n".
const (
	c25A = "-12xle"
	c25D = "-FDE"
)

var (
	c25Pre   = []string{"clean", "modified", "deleted", "untracked-at-added-path", "untracked-elsewhere", "stale-obstruction", "staged"}
	c25Entry = []string{"Checkout(branch,Force)", "Checkout(hash,Force)", "Checkout(-b,Force)", "Reset(Hard)"}
)

// c25Files lists the tracked files of a commit as path -> kind.
func c25Files(a, d byte) map[string]byte {
	m := map[string]byte{}
	if a != '-' {
		m["a"] = a
	}
	switch d {
	case 'F':
		m["d"] = '1'
	case 'D':
		m["d/g"] = '1'
	case 'E':
		m["d/g"] = '2'
	}
	return m
}

func c25Snap(k byte) string {
	mode, data := hKindSpec(k)
	switch mode {
	case "100755":
		return "X:" + data
	case "120000":
		return "L:" + data
	}
	return "F:" + data
}

// hConflicts reports whether untracked path u cannot coexist with tracked path t.
func hConflicts(u, t string) bool {
	return u == t || strings.HasPrefix(u, t+"/") || strings.HasPrefix(t, u+"/")
}

type c25Env struct {
	c          *fw.Ctx
	t          *hTemplate
	conf       atomic.Int64 // git conformance replays that passed
	leftStaged atomic.Int64
}

// vector layout: curA curD tgtA tgtD pre entry
var c25Dims = []int{len(c25A), len(c25D), len(c25A), len(c25D), len(c25Pre), len(c25Entry)}

func c25Render(v []int) string {
	return fmt.Sprintf("cur={a:%c d:%c} target={a:%c d:%c} worktree=%s op=%s", c25A[v[0]], c25D[v[1]], c25A[v[2]], c25D[v[3]], c25Pre[v[4]], c25Entry[v[5]])
}

func (e *c25Env) commit(a, d byte) string { return e.t.commit[string([]byte{a, d})] }

// setup builds the from-state under root and returns the untracked files
// (path -> snapshot) that exist before the operation.
func (e *c25Env) setup(v []int, root string) (untracked map[string]string) {
	ca, cd, ta, td := c25A[v[0]], c25D[v[1]], c25A[v[2]], c25D[v[3]]
	cur, tgt := c25Files(ca, cd), c25Files(ta, td)
	e.t.skel.instantiate(root, hConfig{FileMode: true}, "ref: refs/heads/main",
		map[string]string{"main": e.commit(ca, cd), "tgt": e.commit(ta, td)})
	var ents []hIdxEntry
	var curPaths []string
	for p := range cur {
		curPaths = append(curPaths, p)
	}
	sort.Strings(curPaths)
	for _, p := range curPaths {
		hPut(root, p, cur[p], hOldTime)
		ents = append(ents, hIdxEntry{Path: p, Mode: hKindMode(cur[p]), OID: hKindOID(cur[p]), StatOf: p})
	}
	if v[4] == 6 { // staged modification of every tracked regular file + a staged new file
		for i, p := range curPaths {
			if cur[p] != 'l' {
				hPut(root, p, '3', hOldTime)
				ents[i] = hIdxEntry{Path: p, Mode: 0o100644, OID: hKindOID('3'), StatOf: p}
			}
		}
		hPut(root, "n", '3', hOldTime)
		ents = append(ents, hIdxEntry{Path: "n", Mode: 0o100644, OID: hKindOID('3'), StatOf: "n"})
	}
	hWriteIndex(root, ents)
	untracked = map[string]string{}
	putU := func(p string, k byte) {
		hPut(root, p, k, hOldTime)
		untracked[p] = c25Snap(k)
	}
	putU("u/v", '3')
	switch v[4] {
	case 1: // modified in the worktree only
		for _, p := range curPaths {
			if cur[p] != 'l' {
				hPut(root, p, '3', hOldTime)
			}
		}
	case 2: // deleted from the worktree only
		for _, p := range curPaths {
			hClearPath(root, p)
			hRemoveEmptyParents(root, p)
		}
	case 3: // untracked file exactly where the target adds one
		for p := range tgt {
			free := true
			for q := range cur {
				if hConflicts(p, q) {
					free = false
				}
			}
			if free {
				putU(p, '3')
			}
		}
	case 4:
		putU("d2/z", '3')
		putU("w", 'x')
		os.MkdirAll(filepath.Join(root, "e"), 0o755)
	case 5: // something of the wrong type sits where the target wants a file / directory
		for p := range tgt {
			free := true
			for q := range cur {
				if hConflicts(p, q) || hConflicts(strings.Split(p, "/")[0], q) {
					free = false
				}
			}
			if !free {
				continue
			}
			if strings.Contains(p, "/") { // target wants directory d: put a file d
				putU(strings.Split(p, "/")[0], '3')
			} else { // target wants file p: put a directory p/
				putU(p+"/k", '3')
			}
		}
	}
	return untracked
}

// judge evaluates the statement on the repository under root after the
// operation: returns the disagreement items.
func (e *c25Env) judge(v []int, root string, untracked map[string]string) []string {
	ta, td := c25A[v[2]], c25D[v[3]]
	tgt := c25Files(ta, td)
	tgtID := e.commit(ta, td)
	var items []string
	// HEAD
	head, _ := os.ReadFile(filepath.Join(root, ".git", "HEAD"))
	hs := strings.TrimSpace(string(head))
	wantSym := map[int]string{0: "refs/heads/tgt", 2: "refs/heads/new", 3: "refs/heads/main"}[v[5]]
	resolved := hs
	if strings.HasPrefix(hs, "ref: ") {
		hs = strings.TrimPrefix(hs, "ref: ")
		b, _ := os.ReadFile(filepath.Join(root, ".git", hs))
		resolved = strings.TrimSpace(string(b))
		if hs != wantSym {
			if wantSym == "" {
				wantSym = "detached"
			}
			items = append(items, fmt.Sprintf("HEAD:sym'%s'/'%s'", wantSym, hs))
		}
	} else if wantSym != "" {
		items = append(items, fmt.Sprintf("HEAD:sym'%s'/'detached'", wantSym))
	}
	if resolved != tgtID {
		items = append(items, "HEAD:commit'target'/'other'")
	}
	// tracked content on disk
	snap := hSnapshotWT(root)
	for p, k := range tgt {
		if snap[p] != c25Snap(k) {
			got := "other"
			if snap[p] == "" {
				got = "absent"
			}
			items = append(items, fmt.Sprintf("%s:tracked-file(%c)'target'/'%s'", p, k, got))
		}
	}
	// paths tracked before (HEAD or index) and not in the target are gone: git
	// status must not only be clean, the worktree must not keep stale tracked files
	cur := c25Files(c25A[v[0]], c25D[v[1]])
	for p := range cur {
		if _, in := tgt[p]; in {
			continue
		}
		nested := false
		for q := range tgt {
			if hConflicts(p, q) {
				nested = true
			}
		}
		for u := range untracked {
			if hConflicts(p, u) {
				nested = true // an untracked entry took the place of the deleted tracked file
			}
		}
		if !nested && snap[p] != "" {
			items = append(items, fmt.Sprintf("%s:formerly-tracked'removed'/'left behind'", p))
		}
	}
	// untracked files that cannot collide with the target survive unchanged
	for u, s := range untracked {
		coll := false
		for p := range tgt {
			if hConflicts(u, p) {
				coll = true
			}
		}
		if coll {
			continue
		}
		if snap[u] != s {
			got := "changed"
			if snap[u] == "" {
				got = "gone"
			}
			items = append(items, fmt.Sprintf("%s:untracked'kept'/'%s'", u, got))
		}
	}
	// git's own view: no tracked change (index == HEAD == worktree for tracked paths)
	st := hParsePorcelainZ(e.t.g.In(root).MustRun("status", "--porcelain=v1", "-z", "--untracked-files=all", "--no-renames").Out)
	for p, xy := range st {
		if xy != "??" {
			items = append(items, fmt.Sprintf("%s:git-status'clean'/'%s'", p, xy))
		}
	}
	// observation only (outside the statement): a file that was staged but is in
	// neither commit is removed by git; go-git leaves it behind as untracked
	if v[4] == 6 && snap["n"] != "" {
		e.leftStaged.Add(1)
	}
	sort.Strings(items)
	return items
}

func (e *c25Env) run(v []int) (sig, class string) {
	root := e.c.TempDir("c25")
	defer os.RemoveAll(root)
	defer hKeep(root, "c25")
	untracked := e.setup(v, root)
	tgtID := e.commit(c25A[v[2]], c25D[v[3]])
	var repo *git.Repository
	err := hCall(func() error {
		var err error
		repo, err = git.PlainOpen(root)
		if err != nil {
			return err
		}
		w, err := repo.Worktree()
		if err != nil {
			return err
		}
		switch v[5] {
		case 0:
			return w.Checkout(&git.CheckoutOptions{Branch: "refs/heads/tgt", Force: true})
		case 1:
			return w.Checkout(&git.CheckoutOptions{Hash: plumbing.NewHash(tgtID), Force: true})
		case 2:
			return w.Checkout(&git.CheckoutOptions{Branch: "refs/heads/new", Create: true, Hash: plumbing.NewHash(tgtID), Force: true})
		}
		return w.Reset(&git.ResetOptions{Commit: plumbing.NewHash(tgtID), Mode: git.HardReset})
	})
	if repo != nil {
		repo.Close()
	}
	if hPanicked(err) {
		return "op:E'ok'/'panic'", "panic"
	}
	if err != nil {
		// The statement is about successful operations; a refusal of a forced
		// operation is recorded (and cross-checked against git below).
		return "", "refused: " + strings.ReplaceAll(err.Error(), root, "<root>")
	}
	items := e.judge(v, root, untracked)
	return strings.Join(items, ";"), fmt.Sprintf("ok %v", v[4:])
}

// conform runs the equivalent git command on the same from-state and demands
// that git's result satisfies the very same judgement (otherwise the check
// asks for more than git delivers and must be fixed).
func (e *c25Env) conform(v []int) {
	root := e.c.TempDir("c25g")
	defer os.RemoveAll(root)
	untracked := e.setup(v, root)
	tgtID := e.commit(c25A[v[2]], c25D[v[3]])
	g := e.t.g.In(root)
	var r fw.Res
	switch v[5] {
	case 0:
		r = g.Run("checkout", "-q", "-f", "tgt")
	case 1:
		r = g.Run("checkout", "-q", "-f", "--detach", tgtID)
	case 2:
		r = g.Run("checkout", "-q", "-f", "-b", "new", tgtID)
	case 3:
		r = g.Run("reset", "-q", "--hard", tgtID)
	}
	if !r.OK() {
		fw.Abort("C25 conformance: git refused %s: %s", c25Render(v), r.Err)
	}
	if items := e.judge(v, root, untracked); len(items) > 0 {
		fw.Abort("C25 conformance: real git does not satisfy the judgement on %s: %v", c25Render(v), items)
	}
	e.conf.Add(1)
}

func runC25(c *fw.Ctx) {
	// template commits: name = [a-kind][d-shape]
	g, dir := c.InitRepo("c25tmpl", "sha1", false)
	t := &hTemplate{g: g, dir: dir, commit: map[string]string{}}
	var specs []fw.CommitSpec
	var names []string
	for _, a := range []byte(c25A) {
		for _, d := range []byte(c25D) {
			files := map[string]fw.FileSpec{}
			for p, k := range c25Files(a, d) {
				mode, data := hKindSpec(k)
				files[p] = fw.FileSpec{Mode: mode, Data: data}
			}
			specs = append(specs, fw.CommitSpec{Time: 1700000000, Files: files, Msg: "c " + string([]byte{a, d}) + "\n"})
			names = append(names, string([]byte{a, d}))
		}
	}
	for i, id := range g.BuildHistory(specs, true) {
		t.commit[names[i]] = id
	}
	g.MustRunIn([]byte("three\n"), "hash-object", "-w", "--stdin")
	g.MustRun("pack-refs", "--all")
	g.MustRun("repack", "-adq")
	t.skel = hReadSkel(filepath.Join(dir, ".git"))
	e := &c25Env{c: c, t: t}

	n := hVecCount(c25Dims)
	confEvery := c.Pick(7, 3)
	// quick: contents "two" for a and the second directory content for d are left
	// to the thorough tier (12 instead of 20 commits)
	inQuick := func(v []int) bool {
		return c.Thorough() || (c25A[v[0]] != '2' && c25A[v[2]] != '2' && c25D[v[1]] != 'E' && c25D[v[3]] != 'E')
	}
	c.Bound("a_kinds", c25A)
	c.Bound("d_shapes", c25D)
	c.Bound("commit_pairs", len(c25A)*len(c25D)*len(c25A)*len(c25D))
	c.Bound("worktree_states", c25Pre)
	c.Bound("entries", c25Entry)
	c.Bound("cases", n)
	c.Bound("git_conformance_every", confEvery)
	c.SetRule("all ordered pairs of 24 commits (quick: 15, without the second content of a and of d/g) over path a (absent/2 contents/empty/exec/symlink) and d (absent/file/dir with 2 contents: file<->dir swaps) x 7 pre-existing worktree states x 4 entry points; after a successful op: HEAD (symbolic target and commit), bytes/exec bit/symlink of every tracked path, survival of every untracked file that cannot collide with the target, and `git status` (no tracked change) are judged; every k-th case the equivalent git command is run on a twin and must satisfy the same judgement; non-trivial = op succeeded; distinct counts (worktree state, entry, whether cur==target)")
	c.Assume("an untracked file is only required to survive when its path neither equals nor nests with a path of the target (git itself deletes obstructing untracked content on forced checkout); case-variant paths and submodule entries are not enumerated here (case-sensitive filesystem; gitlinks are covered by C26/C33)")

	if v := hDevVec(); v != nil {
		sig, class := e.run(v)
		fmt.Printf("case %s\n class %s\n disagreement %s\n", c25Render(v), class, sig)
		e.conform(v)
		return
	}
	var fails hFailures
	refused := map[string]int{}
	rmu := make(chan struct{}, 1)
	c.ParDo(n, 0, func(k int) {
		i := hSpread(k, n)
		v := hVecAt(c25Dims, i)
		if !inQuick(v) {
			return
		}
		sig, class := e.run(v)
		c.Eval()
		if strings.HasPrefix(class, "ok") {
			same := v[0] == v[2] && v[1] == v[3]
			c.Class(fmt.Sprintf("%s same=%v", class, same))
		} else {
			rmu <- struct{}{}
			refused[class]++
			<-rmu
		}
		if i%397 == 0 {
			c.Sample(map[string]any{"case": c25Render(v), "result": class, "disagreement": sig})
		}
		if sig != "" {
			fails.add(i, v, sig)
		}
		if (i/7)%confEvery == 0 {
			e.conform(v)
		}
	})
	c.Extra("refusals", refused)
	c.Extra("git_conformance_replays", e.conf.Load())
	c.Extra("observation_staged_new_file_left_on_disk(go-git and git runs)", e.leftStaged.Load())
	fails.report(c, func(v []int) string { s, _ := e.run(v); return s }, c25Render)
}

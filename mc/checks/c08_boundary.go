package checks

import (
	"encoding/hex"
	"fmt"
	"os"
	"path/filepath"

	"verifmc/fw"
)

// c08Boundary: packs whose LENGTH is placed around the multiples of the
// scanner's read-ahead buffer (4096 bytes) so that the trailer — and with it
// the last entry's final deflate bytes — straddles one buffer refill at every
// possible split point. One deflated (never "stored") blob per pack; for each
// target length k*4096 + r, r in 0..trailer+4, a blob size is searched that
// gives exactly that pack length. Every pack goes through every parser mode and
// must be accepted with the checksum of its trailer and the one object; git
// index-pack must accept each pack too (conformance of the hand-built packs).
func c08Boundary(c *fw.Ctx) {
	ks := []int{1, 2, 8} // 4096, 8192, 32768
	if c.Thorough() {
		ks = []int{1, 2, 3, 4, 8, 16}
	}
	c.Bound("boundary_pack_lengths", "k*4096 + r for k in "+fmt.Sprint(ks)+", r in 0..trailer+4, sha1 and sha256, one deflated blob each")
	text := func(n int) []byte {
		b := make([]byte, n)
		x := uint32(2463534242)
		for i := range b {
			x ^= x << 13
			x ^= x >> 17
			x ^= x << 5
			b[i] = "abcdefghijklmnop \n"[x%18]
		}
		return b
	}
	for _, sha256fmt := range []bool{false, true} {
		trailer := 20
		if sha256fmt {
			trailer = 32
		}
		g, gdir := c.InitRepo("c08bnd"+bFmtName(sha256fmt), bFmtName(sha256fmt), true)
		_ = gdir
		scratch := c.TempDir("c08bnd")
		for _, k := range ks {
			// pack length grows by about half a byte per content byte: sweep sizes
			// and keep the first size found for each wanted length
			want := map[int][]byte{}
			lo := k*4096 - 64
			for L := lo; L < 3*k*4096+4096 && len(want) < trailer+5; L++ {
				p := bNewPack(sha256fmt)
				p.Obj(bTypeCode("blob"), text(L), false)
				raw := p.Bytes()
				r := len(raw) - k*4096
				if r >= 0 && r <= trailer+4 {
					if _, ok := want[r]; !ok {
						want[r] = raw
					}
				}
				if r > trailer+4 {
					break
				}
			}
			for r := 0; r <= trailer+4; r++ {
				raw, ok := want[r]
				if !ok {
					c.Extra(fmt.Sprintf("boundary_length_not_reached_%s_%d_%d", bFmtName(sha256fmt), k, r), true)
					continue
				}
				sum := hex.EncodeToString(raw[len(raw)-trailer:])
				// conformance: git accepts the pack
				pf := filepath.Join(scratch, fmt.Sprintf("p-%d-%d.pack", k, r))
				bWriteFile(pf, raw)
				if r := g.Run("index-pack", "--strict", pf); !r.OK() {
					fw.Abort("boundary pack (len %d) refused by git index-pack: %s", len(raw), r.Err)
				}
				c.TracesValidated(1)
				os.Remove(pf)
				os.Remove(pf[:len(pf)-5] + ".idx")
				for mode := range bModeNames {
					c.Eval()
					out := bParse(raw, mode, sha256fmt, "", nil)
					where := fmt.Sprintf("%s pack of %d bytes (= %d*4096+%d), mode %s", bFmtName(sha256fmt), len(raw), k, r, bModeNames[mode])
					key := fmt.Sprintf("boundary: a valid pack whose trailer straddles a %d-byte read-ahead boundary is not parsed like git does (mode %s)", 4096, bModeNames[mode])
					switch {
					case out.Panic != "":
						c.Fail(key, where+": panic "+out.Panic, map[string]any{"len": len(raw), "k": k, "r": r, "mode": bModeNames[mode]})
					case out.Err != nil:
						c.Fail(key, where+": refused: "+out.Err.Error()+" (git index-pack --strict accepts it)", map[string]any{"len": len(raw), "k": k, "r": r, "mode": bModeNames[mode]})
					case out.Checksum != sum:
						c.Fail(key, where+": checksum "+out.Checksum+", trailer "+sum, map[string]any{"len": len(raw), "k": k, "r": r})
					case len(out.Seen) != 1:
						c.Fail(key, fmt.Sprintf("%s: %d objects seen", where, len(out.Seen)), map[string]any{"len": len(raw), "k": k, "r": r})
					default:
						c.Class(fmt.Sprintf("boundary|%v|%d|%d", sha256fmt, k, r%8))
					}
				}
			}
		}
	}
}

package checks

import (
	"bytes"
	"crypto"
	"encoding/hex"
	"fmt"
	"go/ast"
	"go/parser"
	"go/token"
	"hash"
	"io"
	"os"
	"path/filepath"
	"sort"
	"strings"

	"github.com/go-git/go-git/v6/plumbing"
	"github.com/go-git/go-git/v6/plumbing/cache"
	formatcfg "github.com/go-git/go-git/v6/plumbing/format/config"
	"github.com/go-git/go-git/v6/plumbing/format/commitgraph"
	"github.com/go-git/go-git/v6/plumbing/format/index"
	"github.com/go-git/go-git/v6/plumbing/format/packfile"
	"github.com/go-git/go-git/v6/plumbing/format/revfile"
	githash "github.com/go-git/go-git/v6/plumbing/hash"
	"github.com/go-git/go-git/v6/storage/filesystem"
	"github.com/go-git/go-git/v6/storage/memory"
	"github.com/pjbgf/sha1cd"

	"verifmc/fw"
	"verifmc/mcfs"
)

func init() {
	fw.Register(&fw.Check{ID: "C05", Level: "exploration", Run: runC05, QuickBudget: 90, ThoroughBudget: 600})
}

const attackerDigest = "38762cf7f55934b34d179ae6a4c80cadccbb7f0a" // SHAttered: plain SHA-1 of both PDFs

// spyHash is a collision-detecting SHA-1 whose digest is recognisably not
// plain SHA-1 (last byte flipped): an entry point that bypasses the registry
// produces a different value than the spy expectation.
type spyHash struct{ hash.Hash }

func (s *spyHash) Sum(b []byte) []byte {
	out := s.Hash.Sum(b)
	out[len(out)-1] ^= 0x5a
	return out
}

func spySum(parts ...[]byte) []byte {
	h := &spyHash{sha1cd.New()}
	for _, p := range parts {
		h.Write(p)
	}
	return h.Sum(nil)
}

type c05EP struct {
	name string
	// run returns (got digest, bytes the digest must cover) or an error text
	run func(content []byte) (got []byte, covered [][]byte, err error)
}

func c05EntryPoints(c *fw.Ctx) []c05EP {
	hdr := func(t string, n int) []byte { return []byte(fmt.Sprintf("%s %d\x00", t, n)) }
	mkBlob := func(st interface {
		NewEncodedObject() plumbing.EncodedObject
	}, content []byte) plumbing.EncodedObject {
		o := st.NewEncodedObject()
		o.SetType(plumbing.BlobObject)
		w, _ := o.Writer()
		w.Write(content)
		w.Close()
		return o
	}
	encodePack := func(content []byte) ([]byte, plumbing.Hash, plumbing.Hash, error) {
		ms := memory.NewStorage()
		h, err := ms.SetEncodedObject(mkBlob(ms, content))
		if err != nil {
			return nil, h, h, err
		}
		// a second, similar blob: with a delta window the encoder stores one of the two as a delta of the other, so
		// the ids of delta-resolved objects (parser, pack reader) are exercised too
		h2, err := ms.SetEncodedObject(mkBlob(ms, c05Sibling(content)))
		if err != nil {
			return nil, h, h, err
		}
		var buf bytes.Buffer
		sum, err := packfile.NewEncoder(&buf, ms, false).Encode([]plumbing.Hash{h, h2}, 10)
		return buf.Bytes(), sum, h, err
	}
	return []c05EP{
		{"plumbing.ObjectHasher.Compute", func(v []byte) ([]byte, [][]byte, error) {
			id, err := plumbing.FromObjectFormat(formatcfg.SHA1).Compute(plumbing.BlobObject, v)
			return id.Bytes(), [][]byte{hdr("blob", len(v)), v}, err
		}},
		{"plumbing.NewHasher", func(v []byte) ([]byte, [][]byte, error) {
			h := plumbing.NewHasher(formatcfg.SHA1, plumbing.BlobObject, int64(len(v)))
			h.Write(v)
			return h.Sum().Bytes(), [][]byte{hdr("blob", len(v)), v}, nil
		}},
		{"plumbing/hash.New(SHA1)", func(v []byte) ([]byte, [][]byte, error) {
			h := githash.New(crypto.SHA1)
			h.Write(v)
			return h.Sum(nil), [][]byte{v}, nil
		}},
		{"plumbing/hash.FromObjectFormat(SHA1)", func(v []byte) ([]byte, [][]byte, error) {
			h, err := githash.FromObjectFormat(formatcfg.SHA1)
			if err != nil {
				return nil, nil, err
			}
			h.Write(v)
			return h.Sum(nil), [][]byte{v}, nil
		}},
		{"memory.Storage.SetEncodedObject", func(v []byte) ([]byte, [][]byte, error) {
			ms := memory.NewStorage()
			h, err := ms.SetEncodedObject(mkBlob(ms, v))
			return h.Bytes(), [][]byte{hdr("blob", len(v)), v}, err
		}},
		{"filesystem loose object write + read back", func(v []byte) ([]byte, [][]byte, error) {
			w := mcfs.NewWorld()
			st := filesystem.NewStorage(w.View("/g", "g"), cache.NewObjectLRUDefault())
			h, err := st.SetEncodedObject(mkBlob(st, v))
			if err != nil {
				return nil, nil, err
			}
			hx := h.String()
			if !w.Exists("/g/objects/" + hx[:2] + "/" + hx[2:]) {
				return nil, nil, fmt.Errorf("loose file not at the path named by the returned id %s", hx)
			}
			st2 := filesystem.NewStorage(w.View("/g", "g2"), cache.NewObjectLRUDefault())
			o, err := st2.EncodedObject(plumbing.BlobObject, h)
			if err != nil {
				return nil, nil, fmt.Errorf("read back: %v", err)
			}
			r, _ := o.Reader()
			b, _ := io.ReadAll(r)
			r.Close()
			if !bytes.Equal(b, v) {
				return nil, nil, fmt.Errorf("read back different bytes")
			}
			return o.Hash().Bytes(), [][]byte{hdr("blob", len(v)), v}, nil
		}},
		{"packfile.Encoder trailer", func(v []byte) ([]byte, [][]byte, error) {
			pack, sum, _, err := encodePack(v)
			if err != nil {
				return nil, nil, err
			}
			if !bytes.Equal(pack[len(pack)-20:], sum.Bytes()) {
				return nil, nil, fmt.Errorf("returned checksum differs from the trailer")
			}
			return sum.Bytes(), [][]byte{pack[:len(pack)-20]}, nil
		}},
		{"packfile.Parser checksum verification", func(v []byte) ([]byte, [][]byte, error) {
			pack, _, _, err := encodePack(v)
			if err != nil {
				return nil, nil, err
			}
			// give the parser a pack whose trailer is what the REGISTERED hash says
			fixed := append(append([]byte{}, pack[:len(pack)-20]...), registeredSum(pack[:len(pack)-20])...)
			sum, err := packfile.NewParser(bytes.NewReader(fixed)).Parse()
			if err != nil {
				return nil, nil, fmt.Errorf("parser rejects a pack whose trailer is the registered hash of its contents: %v", err)
			}
			return sum.Bytes(), [][]byte{pack[:len(pack)-20]}, nil
		}},
		{"filesystem PackfileWriter idx trailer", func(v []byte) ([]byte, [][]byte, error) {
			return c05PackWriter(v, encodePack, ".idx")
		}},
		{"filesystem PackfileWriter rev trailer", func(v []byte) ([]byte, [][]byte, error) {
			return c05PackWriter(v, encodePack, ".rev")
		}},
		{"filesystem index file trailer + decode", func(v []byte) ([]byte, [][]byte, error) {
			w := mcfs.NewWorld()
			st := filesystem.NewStorage(w.View("/g", "g"), cache.NewObjectLRUDefault())
			idx := &index.Index{Version: 2}
			e, aerr := idx.Add("f")
			if aerr != nil {
				return nil, nil, aerr
			}
			e.Hash, _ = plumbing.FromObjectFormat(formatcfg.SHA1).Compute(plumbing.BlobObject, v)
			e.Size = uint32(len(v))
			if err := st.SetIndex(idx); err != nil {
				return nil, nil, err
			}
			b, _ := w.ReadFile("/g/index")
			st2 := filesystem.NewStorage(w.View("/g", "g2"), cache.NewObjectLRUDefault())
			if _, err := st2.Index(); err != nil {
				return nil, nil, fmt.Errorf("decode of own index: %v", err)
			}
			return b[len(b)-20:], [][]byte{b[:len(b)-20]}, nil
		}},
		{"plumbing.MemoryObject.Hash", func(v []byte) ([]byte, [][]byte, error) {
			o := &plumbing.MemoryObject{}
			o.SetType(plumbing.BlobObject)
			o.Write(v)
			return o.Hash().Bytes(), [][]byte{hdr("blob", len(v)), v}, nil
		}},
		{"filesystem pack read: ids of plain and delta-resolved objects, object iteration (idx decode)", func(v []byte) ([]byte, [][]byte, error) {
			return c05PackRead(v, encodePack, false)
		}},
		{"filesystem pack read without .rev (rev regenerated from the idx)", func(v []byte) ([]byte, [][]byte, error) {
			return c05PackRead(v, encodePack, true)
		}},
		{"revfile.Decode of the written .rev", func(v []byte) ([]byte, [][]byte, error) {
			pack, sum, _, err := encodePack(v)
			if err != nil {
				return nil, nil, err
			}
			w := mcfs.NewWorld()
			st := filesystem.NewStorage(w.View("/g", "g"), cache.NewObjectLRUDefault())
			pw, err := st.PackfileWriter()
			if err != nil {
				return nil, nil, err
			}
			pw.Write(pack)
			if err := pw.Close(); err != nil {
				return nil, nil, err
			}
			b, ok := w.ReadFile("/g/objects/pack/pack-" + sum.String() + ".rev")
			if !ok {
				return nil, nil, fmt.Errorf("no .rev written")
			}
			// the trailer is the registered hash of the body (checked by the PackfileWriter entry point); the decoder must accept it
			out := make(chan uint32, 16)
			done := make(chan struct{})
			go func() {
				for range out {
				}
				close(done)
			}()
			err = revfile.Decode(bytes.NewReader(b), 2, sum, out)
			<-done
			if err != nil {
				return nil, nil, fmt.Errorf("revfile.Decode rejects a .rev whose trailer is the registered hash of its contents: %v", err)
			}
			// and it must reject the same file with a trailer that is not the registered hash
			bad := append([]byte{}, b...)
			bad[len(bad)-1] ^= 0x5a
			out2 := make(chan uint32, 16)
			done2 := make(chan struct{})
			go func() {
				for range out2 {
				}
				close(done2)
			}()
			err = revfile.Decode(bytes.NewReader(bad), 2, sum, out2)
			<-done2
			if err == nil {
				return nil, nil, fmt.Errorf("revfile.Decode accepts a .rev whose trailer is not the registered hash of its contents")
			}
			return b[len(b)-20:], [][]byte{b[:len(b)-20]}, nil
		}},
		{"commitgraph.Encoder trailer", func(v []byte) ([]byte, [][]byte, error) {
			mi := commitgraph.NewMemoryIndex()
			h, _ := plumbing.FromObjectFormat(formatcfg.SHA1).Compute(plumbing.BlobObject, v)
			mi.Add(h, &commitgraph.CommitData{TreeHash: h})
			var buf bytes.Buffer
			if err := commitgraph.NewEncoder(&buf).Encode(mi); err != nil {
				return nil, nil, err
			}
			b := buf.Bytes()
			return b[len(b)-20:], [][]byte{b[:len(b)-20]}, nil
		}},
	}
}

// c05Sibling is content with a short tail appended (or a fixed string for short content): similar enough to be
// deltified against content.
func c05Sibling(content []byte) []byte {
	return append(append([]byte{}, content...), []byte("\nsibling tail\n")...)
}

// c05PackRead writes a two-object pack (one object a delta) through the PackfileWriter, optionally removes the
// .rev file, and reads everything back through a fresh storage: lookups by id, iteration over all objects, the
// id every returned object reports. The returned digest is the id of the blob holding v.
func c05PackRead(v []byte, encodePack func([]byte) ([]byte, plumbing.Hash, plumbing.Hash, error), dropRev bool) ([]byte, [][]byte, error) {
	pack, sum, oid, err := encodePack(v)
	if err != nil {
		return nil, nil, err
	}
	w := mcfs.NewWorld()
	st := filesystem.NewStorage(w.View("/g", "g"), cache.NewObjectLRUDefault())
	pw, err := st.PackfileWriter()
	if err != nil {
		return nil, nil, err
	}
	if _, err := pw.Write(pack); err != nil {
		return nil, nil, fmt.Errorf("pack write: %v", err)
	}
	if err := pw.Close(); err != nil {
		return nil, nil, fmt.Errorf("pack close: %v", err)
	}
	if dropRev {
		w.RemoveSetup("/g/objects/pack/pack-" + sum.String() + ".rev")
	}
	st2 := filesystem.NewStorage(w.View("/g", "g2"), cache.NewObjectLRUDefault())
	defer st2.Close()
	sib := c05Sibling(v)
	var got []byte
	seen := 0
	it, err := st2.IterEncodedObjects(plumbing.AnyObject)
	if err != nil {
		return nil, nil, fmt.Errorf("iterate: %v", err)
	}
	err = it.ForEach(func(o plumbing.EncodedObject) error {
		r, err := o.Reader()
		if err != nil {
			return err
		}
		b, err := io.ReadAll(r)
		r.Close()
		if err != nil {
			return err
		}
		want := registeredSum(append([]byte(fmt.Sprintf("blob %d\x00", len(b))), b...))
		if !bytes.Equal(o.Hash().Bytes(), want) {
			return fmt.Errorf("iterated object of %d bytes reports id %s, the registered hash of its contents is %x", len(b), o.Hash(), want)
		}
		switch {
		case bytes.Equal(b, v):
			got = o.Hash().Bytes()
			seen++
		case bytes.Equal(b, sib):
			seen++
		}
		return nil
	})
	if err != nil {
		return nil, nil, err
	}
	if seen != 2 {
		return nil, nil, fmt.Errorf("iteration returned %d of the 2 packed objects", seen)
	}
	for _, content := range [][]byte{v, sib} {
		id := registeredSum(append([]byte(fmt.Sprintf("blob %d\x00", len(content))), content...))
		h, _ := plumbing.FromBytes(id)
		o, err := st2.EncodedObject(plumbing.BlobObject, h)
		if err != nil {
			return nil, nil, fmt.Errorf("packed object %x (registered hash of its contents) not found: %v", id, err)
		}
		if o.Hash() != h {
			return nil, nil, fmt.Errorf("packed object looked up as %s reports id %s", h, o.Hash())
		}
	}
	_ = oid
	return got, [][]byte{[]byte(fmt.Sprintf("blob %d\x00", len(v))), v}, nil
}

func registeredSum(b []byte) []byte {
	h := githash.New(crypto.SHA1)
	h.Write(b)
	return h.Sum(nil)
}

func c05PackWriter(v []byte, encodePack func([]byte) ([]byte, plumbing.Hash, plumbing.Hash, error), ext string) ([]byte, [][]byte, error) {
	pack, sum, oid, err := encodePack(v)
	if err != nil {
		return nil, nil, err
	}
	w := mcfs.NewWorld()
	st := filesystem.NewStorage(w.View("/g", "g"), cache.NewObjectLRUDefault())
	pw, err := st.PackfileWriter()
	if err != nil {
		return nil, nil, err
	}
	if _, err := pw.Write(pack); err != nil {
		return nil, nil, fmt.Errorf("pack write: %v", err)
	}
	if err := pw.Close(); err != nil {
		return nil, nil, fmt.Errorf("pack close: %v", err)
	}
	b, ok := w.ReadFile("/g/objects/pack/pack-" + sum.String() + ext)
	if !ok {
		return nil, nil, fmt.Errorf("no pack-%s%s written", sum, ext)
	}
	st2 := filesystem.NewStorage(w.View("/g", "g2"), cache.NewObjectLRUDefault())
	if _, err := st2.EncodedObject(plumbing.AnyObject, oid); err != nil {
		return nil, nil, fmt.Errorf("object not readable from the written pack: %v", err)
	}
	return b[len(b)-20:], [][]byte{b[:len(b)-20]}, nil
}

// types26 renders a receiver expression for the report.
func types26(e ast.Expr) string {
	switch x := e.(type) {
	case *ast.Ident:
		return x.Name
	case *ast.SelectorExpr:
		return types26(x.X) + "." + x.Sel.Name
	case *ast.CallExpr:
		return types26(x.Fun) + "()"
	}
	return fmt.Sprintf("%T", e)
}

// c05StaticScan lists direct constructions of SHA-1/SHA-256 outside plumbing/hash.
func c05StaticScan(repo string) ([]string, int, error) {
	var hits []string
	files := 0
	err := filepath.Walk(repo, func(p string, fi os.FileInfo, err error) error {
		if err != nil {
			return err
		}
		rel, _ := filepath.Rel(repo, p)
		if fi.IsDir() {
			if strings.HasPrefix(fi.Name(), ".") && rel != "." || rel == "_examples" || rel == "tests" {
				return filepath.SkipDir
			}
			return nil
		}
		if !strings.HasSuffix(p, ".go") || strings.HasSuffix(p, "_test.go") || strings.HasPrefix(rel, "plumbing/hash/") ||
			strings.HasSuffix(p, "fuzz_helpers.go") { // builders of fuzz inputs, not a path that names objects or verifies files
			return nil
		}
		fset := token.NewFileSet()
		f, perr := parser.ParseFile(fset, p, nil, 0)
		if perr != nil {
			return nil
		}
		files++
		var fn string
		pkgs := map[string]bool{}
		for _, im := range f.Imports {
			ip := strings.Trim(im.Path.Value, "\"")
			name := ip[strings.LastIndex(ip, "/")+1:]
			if im.Name != nil {
				name = im.Name.Name
			}
			pkgs[name] = true
			// a hash implementation imported by name outside the registry package (a blank import only links it in)
			if (ip == "crypto/sha1" || ip == "crypto/sha256" || ip == "github.com/pjbgf/sha1cd" || strings.HasPrefix(ip, "github.com/pjbgf/sha1cd/")) && name != "_" {
				hits = append(hits, fmt.Sprintf("%s: import %s", rel, ip))
			}
		}
		called := map[ast.Expr]bool{}
		ast.Inspect(f, func(n ast.Node) bool {
			if d, ok := n.(*ast.FuncDecl); ok {
				fn = d.Name.Name
			}
			if sel, ok := n.(*ast.SelectorExpr); ok && sel.Sel.Name == "New" && !called[sel] {
				// crypto.SHA1.New used as a value (stored, passed on, called later)
				if in, ok := sel.X.(*ast.SelectorExpr); ok {
					if pk, ok := in.X.(*ast.Ident); ok && pk.Name == "crypto" && (in.Sel.Name == "SHA1" || in.Sel.Name == "SHA256") {
						hits = append(hits, fmt.Sprintf("%s: %s: crypto.%s.New (method value)", rel, fn, in.Sel.Name))
					}
				}
			}
			call, ok := n.(*ast.CallExpr)
			if !ok {
				return true
			}
			if sel, ok := call.Fun.(*ast.SelectorExpr); ok {
				called[sel] = true
				// <expr>.New() with no argument where <expr> is not a package: the shape of crypto.Hash.New() on a
				// variable / field / call result (no other zero-argument New method exists in the tree)
				if sel.Sel.Name == "New" && len(call.Args) == 0 {
					id, isIdent := sel.X.(*ast.Ident)
					if _, viaCrypto := sel.X.(*ast.SelectorExpr); !(isIdent && pkgs[id.Name]) && !(viaCrypto && strings.Contains(types26(sel.X), "crypto.SHA")) {
						hits = append(hits, fmt.Sprintf("%s: %s: %s.New() on a value (crypto.Hash?)", rel, fn, types26(sel.X)))
					}
				}
			}
			sel, ok := call.Fun.(*ast.SelectorExpr)
			if !ok {
				return true
			}
			if sel.Sel.Name == "New" && len(call.Args) == 0 {
				if in, ok := sel.X.(*ast.SelectorExpr); ok {
					if pk, ok := in.X.(*ast.Ident); ok && pk.Name == "crypto" && (in.Sel.Name == "SHA1" || in.Sel.Name == "SHA256") {
						hits = append(hits, fmt.Sprintf("%s: %s: crypto.%s.New()", rel, fn, in.Sel.Name))
					}
				}
			}
			if pk, ok := sel.X.(*ast.Ident); ok && (pk.Name == "sha1" || pk.Name == "sha256") && (sel.Sel.Name == "New" || strings.HasPrefix(sel.Sel.Name, "Sum")) {
				hits = append(hits, fmt.Sprintf("%s: %s: %s.%s", rel, fn, pk.Name, sel.Sel.Name))
			}
			return true
		})
		return nil
	})
	sort.Strings(hits)
	return hits, files, err
}

func runC05(c *fw.Ctx) {
	c.SetRule("finite product: 16 SHA-1 entry points (object hashers, MemoryObject, loose objects, pack encoder/parser, PackfileWriter idx/rev, pack read-back with a delta-resolved object and object iteration, rev regeneration when .rev is missing, revfile.Decode, index, commit-graph) x {4 published collision files, 3 ordinary strings} x registry state {default, spy registered through hash.RegisterHash}; (1) default registry: the raw hash behind hash.New/FromObjectFormat fed a colliding file under every 2-chunking at each of the first 640 offsets must not return the attacker's digest and must equal sha1cd; (2) spy registry (collision-detecting SHA-1 with a recognisably altered digest): every entry point's digest must be the spy's digest over exactly the bytes it covers, so an entry point bypassing the registry (and hence the documented collision-detecting default) is caught; (3) go/ast scan of non-test sources outside plumbing/hash for direct crypto.SHA1/SHA256.New(), sha1.New/Sum, crypto.SHAx.New used as a value, a zero-argument .New() on anything that is not a package (crypto.Hash held in a variable or field), and named imports of crypto/sha1, crypto/sha256, sha1cd. distinct = (entry point, vector, registry) triples with distinct digests")
	c.Assume("sha1cd v0.6.0 is the collision-detecting reference; vectors are the SHAttered PDFs and the SHA-mbles files from sha1cd's test data (copied to /verif/vectors)")
	type vec struct {
		name string
		data []byte
	}
	var vecs []vec
	for _, n := range []string{"shattered-1.pdf", "shattered-2.pdf", "sha-mbles-1.bin", "sha-mbles-2.bin"} {
		b, err := os.ReadFile(filepath.Join(c.VerifDir, "vectors", n))
		c.Must(err, "vector")
		vecs = append(vecs, vec{n, b})
	}
	vecs = append(vecs, vec{"empty", nil}, vec{"abc", []byte("abc")}, vec{"64k", bytes.Repeat([]byte("0123456789abcdef"), 4096)})
	var vn []string
	for _, v := range vecs {
		vn = append(vn, v.name)
	}
	c.Bound("vectors", vn)

	// (1) default registry, raw hashes, all 2-chunkings of the first 640 bytes
	for _, v := range vecs[:4] {
		ref := sha1cd.New()
		ref.Write(v.data)
		want := ref.Sum(nil)
		for _, mk := range []struct {
			n string
			f func() hash.Hash
		}{{"hash.New(SHA1)", func() hash.Hash { return githash.New(crypto.SHA1) }},
			{"hash.FromObjectFormat(SHA1)", func() hash.Hash { h, _ := githash.FromObjectFormat(formatcfg.SHA1); return h }}} {
			for split := 0; split <= 640 && split <= len(v.data); split++ {
				h := mk.f()
				h.Write(v.data[:split])
				h.Write(v.data[split:])
				got := h.Sum(nil)
				c.Eval()
				if hex.EncodeToString(got) == attackerDigest || (strings.HasPrefix(v.name, "shattered") && !bytes.Equal(got, want)) || !bytes.Equal(got, want) {
					c.Fail("default "+mk.n+" does not detect "+v.name, fmt.Sprintf("%s on %s split at %d returns %x (sha1cd: %x, attacker digest %s)", mk.n, v.name, split, got, want, attackerDigest), map[string]any{"vector": v.name, "split": split})
					break
				}
			}
			c.Class("default|" + mk.n + "|" + v.name + "|" + hex.EncodeToString(want))
		}
	}
	// the two SHAttered PDFs must get different ids everywhere under the default registry
	eps := c05EntryPoints(c)
	var names []string
	for _, e := range eps {
		names = append(names, e.name)
	}
	c.Bound("entry_points", names)
	run := func(state string, expect func(parts ...[]byte) []byte) {
		for _, ep := range eps {
			for _, v := range vecs {
				c.Eval()
				got, covered, err := func() (g []byte, cv [][]byte, err error) {
					defer func() {
						if r := recover(); r != nil {
							err = fmt.Errorf("panic: %v", r)
						}
					}()
					return ep.run(v.data)
				}()
				if err != nil {
					c.Fail(fmt.Sprintf("%s fails under the %s registry", ep.name, state), fmt.Sprintf("%s on %s (%s registry): %v", ep.name, v.name, state, err), map[string]any{"entry_point": ep.name, "vector": v.name, "registry": state})
					continue
				}
				want := expect(covered...)
				c.Class(state + "|" + ep.name + "|" + v.name + "|" + hex.EncodeToString(got))
				if !bytes.Equal(got, want) {
					c.Fail(fmt.Sprintf("%s does not use the registered SHA-1 (%s registry)", ep.name, state),
						fmt.Sprintf("%s on %s: digest %x, the registered hash gives %x over the same bytes", ep.name, v.name, got, want),
						map[string]any{"entry_point": ep.name, "vector": v.name, "registry": state, "got": hex.EncodeToString(got), "want": hex.EncodeToString(want)})
				}
			}
		}
	}
	run("default", func(parts ...[]byte) []byte {
		h := sha1cd.New()
		for _, p := range parts {
			h.Write(p)
		}
		return h.Sum(nil)
	})
	c.Must(githash.RegisterHash(crypto.SHA1, func() hash.Hash { return &spyHash{sha1cd.New()} }), "register spy")
	run("spy", spySum)
	c.Must(githash.RegisterHash(crypto.SHA1, sha1cd.New), "restore default")
	c.Sample(map[string]any{"entry_point": eps[0].name, "vector": "shattered-1.pdf", "registry": "spy", "expected": hex.EncodeToString(spySum([]byte(fmt.Sprintf("blob %d\x00", len(vecs[0].data))), vecs[0].data))})

	// (3) static scan of the working tree
	hits, files, err := c05StaticScan(c.RepoDir)
	c.Must(err, "scan")
	c.Bound("source_files_scanned", files)
	c.Evals(files)
	for _, h := range hits {
		c.Fail("direct hash constructor outside the registry: "+h, "non-test source constructs SHA-1/SHA-256 directly instead of plumbing/hash.New: "+h, map[string]any{"site": h})
	}
}

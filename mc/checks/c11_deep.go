package checks

import (
	"fmt"
	"io"
	"os"
	"path/filepath"
	"sort"
	"strconv"
	"strings"

	"github.com/go-git/go-billy/v6/osfs"
	"github.com/go-git/go-git/v6/plumbing"
	"github.com/go-git/go-git/v6/plumbing/cache"
	"github.com/go-git/go-git/v6/storage/filesystem"

	"verifmc/fw"
)

// c11DeepChains: packs whose delta chains are deeper than any default
// (pack.depth is 50; git reads chains of any depth). 120 versions of one file,
// repacked by git with --depth=4095, then every object is read through a FRESH
// storage deepest-first (so that no base is cached yet), by size and by
// content, under each configuration, and compared with git cat-file.
func c11DeepChains(c *fw.Ctx) {
	for _, of := range []string{"sha1", "sha256"} {
		g, dir := c.InitRepo("c11deep-"+of, of, false)
		g = g.C("gc.auto=0", "core.bigFileThreshold=512m")
		lines := make([]string, 80)
		for i := range lines {
			lines[i] = fmt.Sprintf("line %03d of the file, with enough text on it to make a delta worthwhile", i)
		}
		for i := 0; i < 120; i++ {
			// one small edit per version: each version is closest to its neighbours, so chains get long
			lines[(i*7)%len(lines)] = fmt.Sprintf("line rewritten by version %03d, again with enough text to matter here", i)
			body := strings.Join(lines, "\n") + "\n"
			if err := os.WriteFile(filepath.Join(dir, "grow.txt"), []byte(body), 0o644); err != nil {
				fw.Abort("c11 deep: %v", err)
			}
			g.MustRun("add", "grow.txt")
			g.MustRun("commit", "-q", "-m", fmt.Sprint("v", i))
		}
		g.MustRun("repack", "-a", "-d", "-f", "-q", "--depth=4095", "--window=250")
		packs, _ := filepath.Glob(filepath.Join(dir, ".git", "objects", "pack", "*.pack"))
		if len(packs) != 1 {
			fw.Abort("c11 deep: %d packs", len(packs))
		}
		type ent struct {
			id    string
			depth int
		}
		var ents []ent
		maxDepth := 0
		for _, l := range strings.Split(g.MustRun("verify-pack", "-v", packs[0]).S(), "\n") {
			f := strings.Fields(l)
			if len(f) >= 5 && (len(f[0]) == 40 || len(f[0]) == 64) {
				d := 0
				if len(f) >= 7 {
					d, _ = strconv.Atoi(f[5])
				}
				ents = append(ents, ent{f[0], d})
				if d > maxDepth {
					maxDepth = d
				}
			}
		}
		if maxDepth <= 60 {
			fw.Abort("c11 deep: git built chains of depth %d only", maxDepth)
		}
		c.Bound("deep_chain_max_depth_"+of, maxDepth)
		sort.SliceStable(ents, func(i, j int) bool { return ents[i].depth > ents[j].depth })
		model := map[string]fw.ObjInfo{}
		for _, o := range g.CatFileAll() {
			model[o.ID] = o
		}
		c.TracesValidated(len(model))
		for _, cfg := range []struct {
			name string
			opt  filesystem.Options
			lru  int
		}{{"defaults", filesystem.Options{}, 0}, {"ExclusiveAccess", filesystem.Options{ExclusiveAccess: true}, 0}, {"in-memory idx", filesystem.Options{UseInMemoryIdx: true}, 0}, {"object cache of 1 KiB", filesystem.Options{}, 1024}} {
			for _, first := range []string{"size", "get"} {
				var oc cache.Object = cache.NewObjectLRUDefault()
				if cfg.lru > 0 {
					oc = cache.NewObjectLRU(cache.FileSize(cfg.lru))
				}
				st := filesystem.NewStorageWithOptions(osfs.New(filepath.Join(dir, ".git")), oc, cfg.opt)
				for _, e := range ents {
					c.Eval()
					want := model[e.id]
					h := plumbing.NewHash(e.id)
					bad := ""
					check := func(what string) {
						switch what {
						case "size":
							sz, err := st.EncodedObjectSize(h)
							if err != nil || sz != int64(len(want.Data)) {
								bad = fmt.Sprintf("EncodedObjectSize = %d, %v; git says %d", sz, err, len(want.Data))
							}
						case "get":
							o, err := st.EncodedObject(plumbing.AnyObject, h)
							if err != nil {
								bad = fmt.Sprintf("EncodedObject fails: %v", err)
								return
							}
							r, err := o.Reader()
							if err != nil {
								bad = fmt.Sprintf("Reader fails: %v", err)
								return
							}
							data, err := io.ReadAll(r)
							r.Close()
							if err != nil || string(data) != string(want.Data) || o.Type().String() != want.Type {
								bad = fmt.Sprintf("content differs from git cat-file (%d bytes %s, err %v; git %d bytes %s)", len(data), o.Type(), err, len(want.Data), want.Type)
							}
						}
					}
					check(first)
					if bad == "" {
						check(map[string]string{"size": "get", "get": "size"}[first])
					}
					if bad != "" {
						c.Fail(fmt.Sprintf("deep delta chain: an object git reads is not read (%s first) [%s]", first, cfg.name),
							fmt.Sprintf("%s repository, chain depth %d, object %s read on a fresh storage deepest-first: %s", of, e.depth, e.id, bad), map[string]any{"format": of, "depth": e.depth, "config": cfg.name})
						break
					}
					c.Class(fmt.Sprintf("deep|%s|%s|%s|%d", of, cfg.name, first, e.depth/20))
				}
				st.Close()
			}
		}
	}
}

package checks

import (
	"bytes"
	"fmt"
	"io"
	"os"
	"os/exec"
	"path/filepath"
	"sort"
	"strings"
	"sync/atomic"
	"time"

	git "github.com/go-git/go-git/v6"
	"github.com/go-git/go-git/v6/plumbing"

	"verifmc/fw"
)

func init() {
	fw.Register(&fw.Check{ID: "C22", Level: "model_checking", Run: runC22, QuickBudget: 240, ThoroughBudget: 900})
}

type c22Feature struct {
	name string
	// apply mutates the repository at dir with real git
	apply func(g *fw.Git, dir string, ids []string)
}

func c22Features() []c22Feature {
	write := func(dir, name, content string) {
		p := filepath.Join(dir, name)
		os.MkdirAll(filepath.Dir(p), 0o755)
		if err := os.WriteFile(p, []byte(content), 0o644); err != nil {
			fw.Abort("write: %v", err)
		}
	}
	return []c22Feature{
		{"staged-new-blob(loose)", func(g *fw.Git, dir string, ids []string) {
			write(dir, "staged.txt", "staged only, never committed\n")
			g.MustRun("add", "staged.txt")
		}},
		{"staged-edit-of-tracked", func(g *fw.Git, dir string, ids []string) {
			write(dir, "f0", "tracked file with a staged edit\n")
			g.MustRun("add", "f0")
		}},
		{"staged-executable+symlink(loose)", func(g *fw.Git, dir string, ids []string) {
			write(dir, "run.sh", "#!/bin/sh\necho staged executable\n")
			os.Chmod(filepath.Join(dir, "run.sh"), 0o755)
			os.Symlink("target of a staged symlink", filepath.Join(dir, "lnk"))
			g.MustRun("add", "run.sh", "lnk")
		}},
		{"staged-executable+symlink(packed)", func(g *fw.Git, dir string, ids []string) {
			write(dir, "run2.sh", "#!/bin/sh\necho staged executable, packed\n")
			os.Chmod(filepath.Join(dir, "run2.sh"), 0o755)
			os.Symlink("target of a staged symlink, packed", filepath.Join(dir, "lnk2"))
			g.MustRun("add", "run2.sh", "lnk2")
			g.MustRun("repack", "-a", "-d", "-q")
		}},
		{"staged-blob-packed", func(g *fw.Git, dir string, ids []string) {
			write(dir, "d/staged2.txt", "staged and then packed by git repack\n")
			g.MustRun("add", "d/staged2.txt")
			g.MustRun("repack", "-a", "-d", "-q")
		}},
		{"detached-HEAD-on-unreferenced-commit", func(g *fw.Git, dir string, ids []string) {
			g.MustRun("checkout", "-q", "--detach")
			write(dir, "det", "only reachable from the detached HEAD\n")
			g.MustRun("add", "det")
			g.MustRun("commit", "-q", "-m", "detached")
		}},
		{"annotated-tags(commit,tree,tag-of-tag)", func(g *fw.Git, dir string, ids []string) {
			g.MustRun("tag", "-a", "-m", "tag of a commit", "vc", ids[0])
			// a tree and, through it, a blob that nothing else references
			blob := g.MustRunIn([]byte("blob only reachable from a tagged tree\n"), "hash-object", "-w", "--stdin").S()
			tree := g.MustRunIn([]byte("100644 blob "+blob+"\tonly-in-tagged-tree\n"), "mktree").S()
			g.MustRun("tag", "-a", "-m", "tag of a tree", "vt", tree)
			// a commit only reachable through a tag of a tag
			cm := g.MustRun("commit-tree", "-m", "only reachable through a tag of a tag", tree).S()
			g.MustRun("tag", "-a", "-m", "inner", "vi", cm)
			g.MustRun("tag", "-a", "-m", "tag of a tag", "vo", "vi")
			g.MustRun("update-ref", "-d", "refs/tags/vi")
		}},
		{"annotated-tag-of-blob", func(g *fw.Git, dir string, ids []string) {
			// go-git's object walker refuses blobs it reaches outside a tree's plain
			// entries ("unknown object ... blob"): Prune/RepackObjects return an error and
			// delete nothing in these states (counted as refused_operations)
			blob := g.MustRunIn([]byte("blob only reachable from a tag\n"), "hash-object", "-w", "--stdin").S()
			g.MustRun("tag", "-a", "-m", "tag of a blob", "vb", blob)
		}},
		{"branch-only-in-packed-refs", func(g *fw.Git, dir string, ids []string) {
			blob := g.MustRunIn([]byte("blob of a commit that only a packed ref names\n"), "hash-object", "-w", "--stdin").S()
			tree := g.MustRunIn([]byte("100755 blob "+blob+"\tpk\n"), "mktree").S()
			cm := g.MustRun("commit-tree", "-m", "packed-ref only", tree).S()
			g.MustRun("update-ref", "refs/remotes/origin/pk", cm)
			g.MustRun("pack-refs", "--all", "--prune")
		}},
		{"shallow-root(ancestors pruned by git)", func(g *fw.Git, dir string, ids []string) {
			tip := g.MustRun("rev-parse", "refs/heads/main").S()
			if err := os.WriteFile(filepath.Join(dir, ".git", "shallow"), []byte(tip+"\n"), 0o644); err != nil {
				fw.Abort("shallow: %v", err)
			}
			g.MustRun("reflog", "expire", "--expire=now", "--all")
			g.MustRun("prune", "--expire=now")
		}},
		{"promisor-marked-pack(all objects present)", func(g *fw.Git, dir string, ids []string) {
			g.MustRun("repack", "-a", "-d", "-q")
			packs, _ := filepath.Glob(filepath.Join(dir, ".git", "objects", "pack", "pack-*.pack"))
			if len(packs) == 0 {
				fw.Abort("no pack to mark")
			}
			for _, p := range packs {
				if err := os.WriteFile(strings.TrimSuffix(p, ".pack")+".promisor", nil, 0o644); err != nil {
					fw.Abort("promisor: %v", err)
				}
			}
			// (no promisor remote is configured for git: go-git keys on the marker file alone,
			// and real git then stays a strict oracle that never tries a lazy fetch)
		}},
		{"unmerged-index(stages 1-3 only in the index)", func(g *fw.Git, dir string, ids []string) {
			var in strings.Builder
			for st := 1; st <= 3; st++ {
				h := g.MustRunIn([]byte(fmt.Sprintf("conflict side %d, never committed\n", st)), "hash-object", "-w", "--stdin").S()
				fmt.Fprintf(&in, "100644 %s %d\tconflicted\n", h, st)
			}
			g.MustRunIn([]byte(in.String()), "update-index", "--index-info")
		}},
		{"history-in-two-packs", func(g *fw.Git, dir string, ids []string) {
			// first pack: the tip commit with its tree and blobs (present in every state, also a shallow one)
			objs := g.MustRun("rev-list", "--objects", "--no-walk", "refs/heads/main").Out
			g.MustRunIn(objs, "pack-objects", "-q", filepath.Join(dir, ".git", "objects", "pack", "pack"))
			g.MustRun("prune-packed")
			g.MustRun("repack", "-d", "-q") // the rest of the loose objects: a second pack
		}},
		{"linked-worktree(detached HEAD on own commit + staged blob)", func(g *fw.Git, dir string, ids []string) {
			wt := filepath.Join(dir, ".linked")
			g.MustRun("worktree", "add", "-q", "--detach", wt, "refs/heads/main")
			gw := g.In(wt)
			write(wt, "w", "committed only in the linked worktree\n")
			gw.MustRun("add", "w")
			gw.MustRun("commit", "-q", "-m", "linked worktree commit")
			write(wt, "s", "staged only in the linked worktree\n")
			gw.MustRun("add", "s")
		}},
		{"everything-packed-plus-loose-duplicate", func(g *fw.Git, dir string, ids []string) {
			g.MustRun("repack", "-a", "-d", "-q")
			// a loose duplicate of a packed blob
			g.MustRunIn([]byte("content 0\n"), "hash-object", "-w", "--stdin")
		}},
		{"unreachable-loose-object", func(g *fw.Git, dir string, ids []string) {
			g.MustRunIn([]byte("garbage nobody references\n"), "hash-object", "-w", "--stdin")
		}},
	}
}

type c22Op struct {
	name string
	run  func(r *git.Repository) error
}

func c22Ops() []c22Op {
	prune := func(t time.Time) func(r *git.Repository) error {
		return func(r *git.Repository) error {
			return r.Prune(git.PruneOptions{OnlyObjectsOlderThan: t, Handler: r.DeleteObject})
		}
	}
	repack := func(ref bool) func(r *git.Repository) error {
		return func(r *git.Repository) error { return r.RepackObjects(&git.RepackConfig{UseRefDeltas: ref}) }
	}
	seq := func(fs ...func(r *git.Repository) error) func(r *git.Repository) error {
		return func(r *git.Repository) error {
			for _, f := range fs {
				if err := f(r); err != nil {
					return err
				}
			}
			return nil
		}
	}
	future := time.Now().Add(24 * time.Hour)
	return []c22Op{
		{"Prune()", prune(time.Time{})},
		{"Prune(older than tomorrow)", prune(future)},
		{"RepackObjects(ofs)", repack(false)},
		{"RepackObjects(ref)", repack(true)},
		{"RepackObjects;Prune", seq(repack(false), prune(time.Time{}))},
		{"Prune;RepackObjects", seq(prune(time.Time{}), repack(false))},
		{"RepackObjects;RepackObjects", seq(repack(false), repack(true))},
		{"RepackObjects;RepackObjects(same settings)", seq(repack(false), repack(false))},
		{"RepackObjects(delete packs older than tomorrow);Prune", seq(func(r *git.Repository) error {
			return r.RepackObjects(&git.RepackConfig{OnlyDeletePacksOlderThan: future})
		}, prune(time.Time{}))},
	}
}

func copyDir(src, dst string) {
	if out, err := exec.Command("cp", "-a", src, dst).CombinedOutput(); err != nil {
		fw.Abort("cp: %v %s", err, out)
	}
}

// c22CopyTree copies a small repository directory in-process (a process spawn
// per case is the dominant cost of this check).
func c22CopyTree(src, dst string) {
	err := filepath.Walk(src, func(p string, fi os.FileInfo, err error) error {
		if err != nil {
			return err
		}
		rel, _ := filepath.Rel(src, p)
		q := filepath.Join(dst, rel)
		switch {
		case fi.IsDir():
			return os.MkdirAll(q, 0o755)
		case fi.Mode()&os.ModeSymlink != 0:
			t, err := os.Readlink(p)
			if err != nil {
				return err
			}
			return os.Symlink(t, q)
		default:
			b, err := os.ReadFile(p)
			if err != nil {
				return err
			}
			if err := os.WriteFile(q, b, fi.Mode().Perm()|0o200); err != nil {
				return err
			}
			return os.Chtimes(q, fi.ModTime(), fi.ModTime())
		}
	})
	if err != nil {
		fw.Abort("copy %s: %v", src, err)
	}
}

func runC22(c *fw.Ctx) {
	feats := c22Features()
	ops := c22Ops()
	maxF := c.Pick(2, 3)
	var fn, on []string
	for _, f := range feats {
		fn = append(fn, f.name)
	}
	for _, o := range ops {
		on = append(on, o.name)
	}
	c.Bound("features", fn)
	c.Bound("max_features_combined", maxF)
	c.Bound("operations", on)
	c.SetRule("repository states = git-built histories (quick: branch+merge with a side branch; thorough also two roots and linear) x every subset of <= max_features_combined of 16 features (staged new blob, staged edit, staged executable and symlink (loose / packed), staged blob already packed, detached HEAD on an unreferenced commit, annotated tags of commit/tree/tag-of-tag, annotated tag of a blob, a ref that exists only in packed-refs, a shallow root whose ancestors git pruned, a promisor-marked pack, an unmerged index whose stage 1-3 blobs exist nowhere else, history spread over two packs plus loose objects, a linked worktree with a detached HEAD on its own commit and its own staged blob, everything packed + loose duplicate, unreachable loose object) x 9 GC operation sequences (Prune with/without age limit, RepackObjects ofs/ref, with a pack-age limit, compositions including the same repack twice); model = set of objects git reports reachable from all refs, HEAD (of every worktree) and the index (of every worktree) (rev-list --objects --all --indexed-objects HEAD + ls-files -s) BEFORE the operation, with their bytes; after the operation every such object must be readable with identical type and bytes through the same and a fresh go-git storage and through real git cat-file, and git fsck must find no missing object; an operation that returns an error must have lost nothing (counted in refused_operations); distinct = (history, feature set, operation, object-set digest, refused or not)")
	c.Assume("git 2.39.5 defines reachability; reflog-only reachability is not part of the statement")
	// quick: the branch+merge history (it has the side branch); thorough: also two roots and linear
	dags := []fw.DAG{{Parents: [][]int{{}, {0}, {0}, {1, 2}}}}
	if c.Thorough() {
		dags = append(dags, fw.DAG{Parents: [][]int{{}, {}, {0, 1}}}, fw.DAG{Parents: [][]int{{}, {0}}})
	}
	c.Bound("histories", len(dags))
	type state struct {
		name string
		dir  string
	}
	// build templates: one per (history, feature subset)
	subsets := fw.Subsets(len(feats), maxF)
	type tmpl struct {
		name    string
		dir     string
		objs    map[string]fw.ObjInfo // reachable before
		staged  []string
		wtOnly  map[string]bool // reachable only from a linked worktree's HEAD or index
	}
	var tmpls []*tmpl
	for di := range dags {
		for _, ss := range subsets {
			tmpls = append(tmpls, &tmpl{name: fmt.Sprintf("dag%d+%v", di, featNames(feats, ss))})
		}
	}
	// one git-built base repository per history; every template starts as a copy of it
	type baseRepo struct {
		dir string
		ids []string
	}
	bases := make([]baseRepo, len(dags))
	c.ParDo(len(dags), 0, func(di int) {
		g, dir := c.InitRepo("c22b", "", false)
		ids := g.BuildHistory(fw.HistoryFromDAG(dags[di], nil, 1700000000, 100), false)
		g.MustRun("update-ref", "refs/heads/main", ids[len(ids)-1])
		if len(ids) > 2 {
			g.MustRun("update-ref", "refs/heads/side", ids[1])
		}
		g.MustRun("reset", "-q", "--hard")
		bases[di] = baseRepo{dir, ids}
	})
	if c.Expired() {
		return
	}
	c.ParDo(len(tmpls), 0, func(i int) {
		t := tmpls[i]
		di := i / len(subsets)
		ss := subsets[i%len(subsets)]
		dir := filepath.Join(c.TempDir("c22t"), "r")
		c22CopyTree(bases[di].dir, dir)
		g, ids := c.GitHome().In(dir), bases[di].ids
		for _, k := range ss {
			feats[k].apply(g, dir, ids)
		}
		t.dir = dir
		// reachable set
		r := g.MustRun("rev-list", "--objects", "--all", "HEAD")
		var oids []string
		seen := map[string]bool{}
		for _, l := range strings.Split(r.S(), "\n") {
			f := strings.Fields(l)
			if len(f) > 0 && !seen[f[0]] {
				seen[f[0]] = true
				oids = append(oids, f[0])
			}
		}
		for _, l := range strings.Split(g.MustRun("ls-files", "-s").S(), "\n") {
			f := strings.Fields(l)
			if len(f) >= 2 && !seen[f[1]] {
				seen[f[1]] = true
				oids = append(oids, f[1])
				t.staged = append(t.staged, f[1])
			}
		}
		// what only another worktree's HEAD or index keeps alive (rev-list --all and
		// --indexed-objects cover every worktree; the two passes above do not when the
		// refs are named explicitly)
		t.wtOnly = map[string]bool{}
		if _, err := os.Stat(filepath.Join(dir, ".git", "worktrees")); err == nil {
			own := map[string]bool{}
			for _, l := range strings.Split(g.MustRun("rev-list", "--objects", "--glob=refs/*", "HEAD").S(), "\n") {
				if f := strings.Fields(l); len(f) > 0 {
					own[f[0]] = true
				}
			}
			for _, s := range t.staged {
				own[s] = true
			}
			for _, l := range strings.Split(g.MustRun("rev-list", "--objects", "--all", "--indexed-objects", "HEAD").S(), "\n") {
				f := strings.Fields(l)
				if len(f) == 0 {
					continue
				}
				if !own[f[0]] {
					t.wtOnly[f[0]] = true
				}
				if !seen[f[0]] {
					seen[f[0]] = true
					oids = append(oids, f[0])
				}
			}
		}
		t.objs = map[string]fw.ObjInfo{}
		for _, o := range g.CatFileBatch(oids) {
			if o.Missing {
				fw.Abort("template %s: git cannot read reachable object %s", t.name, o.ID)
			}
			t.objs[o.ID] = o
		}
	})
	c.States(len(tmpls))
	type job struct {
		t  *tmpl
		op c22Op
	}
	var jobs []job
	for _, t := range tmpls {
		for _, o := range ops {
			jobs = append(jobs, job{t, o})
		}
	}
	c.Bound("cases", len(jobs))
	var refused atomic.Int64
	c.ParDo(len(jobs), 0, func(i int) {
		j := jobs[i]
		dir := filepath.Join(c.TempDir("c22c"), "r")
		c22CopyTree(j.t.dir, dir)
		defer os.RemoveAll(filepath.Dir(dir))
		repo, err := git.PlainOpen(dir)
		if err != nil {
			fw.Abort("open: %v", err)
		}
		operr := func() (err error) {
			defer func() {
				if r := recover(); r != nil {
					err = fmt.Errorf("panic: %v", r)
				}
			}()
			return j.op.run(repo)
		}()
		// read-back through the SAME instance first ("after repacking every such object is still readable")
		var sameLost []string
		for id, want := range j.t.objs {
			o, err := repo.Storer.EncodedObject(plumbing.AnyObject, plumbing.NewHash(id))
			ok := err == nil && o.Type().String() == want.Type
			if ok {
				rd, rerr := o.Reader()
				if rerr != nil {
					ok = false
					err = fmt.Errorf("Reader(): %w", rerr)
				} else {
					b, _ := io.ReadAll(rd)
					rd.Close()
					ok = bytes.Equal(b, want.Data)
				}
			}
			if !ok {
				sameLost = append(sameLost, id+fmt.Sprintf("(%v)", err))
			}
		}
		sort.Strings(sameLost)
		if cl, ok := repo.Storer.(io.Closer); ok {
			cl.Close()
		}
		c.Eval()
		c.Transitions(1)
		// fresh go-git + git read-back
		repo2, err := git.PlainOpen(dir)
		if err != nil {
			c.Fail("repository does not open after "+opKind(j.op.name), fmt.Sprintf("%s then %s: PlainOpen: %v", j.t.name, j.op.name, err), map[string]any{"state": j.t.name, "op": j.op.name})
			return
		}
		var lost []string
		kinds := map[string]bool{}
		ids := make([]string, 0, len(j.t.objs))
		for id := range j.t.objs {
			ids = append(ids, id)
		}
		sort.Strings(ids)
		stagedSet := map[string]bool{}
		for _, s := range j.t.staged {
			stagedSet[s] = true
		}
		for _, id := range ids {
			want := j.t.objs[id]
			o, err := repo2.Storer.EncodedObject(plumbing.AnyObject, plumbing.NewHash(id))
			ok := err == nil && o.Type().String() == want.Type
			if ok {
				rd, err := o.Reader()
				if err != nil {
					ok = false
				} else {
					b, _ := io.ReadAll(rd)
					rd.Close()
					ok = bytes.Equal(b, want.Data)
				}
			}
			if !ok {
				lost = append(lost, id)
				if j.t.wtOnly[id] {
					kinds["object reachable only from a linked worktree's HEAD or index"] = true
				} else if stagedSet[id] {
					kinds["object referenced only by the index"] = true
				} else {
					kinds["object reachable from refs/HEAD"] = true
				}
			}
		}
		if cl, ok := repo2.Storer.(io.Closer); ok {
			cl.Close()
		}
		g := c.GitHome().In(dir)
		for _, o := range g.CatFileBatch(ids) {
			want := j.t.objs[o.ID]
			if o.Missing || o.Type != want.Type || !bytes.Equal(o.Data, want.Data) {
				if !contains(lost, o.ID) {
					lost = append(lost, o.ID)
					kinds["object git can no longer read"] = true
				}
			}
		}
		c.Class(fmt.Sprintf("%s|%s|%d|%v", j.t.name, j.op.name, len(ids), operr == nil))
		if len(lost) > 0 {
			var ks []string
			for k := range kinds {
				ks = append(ks, k)
			}
			sort.Strings(ks)
			c.Fail(fmt.Sprintf("%s loses %s", opKind(strings.SplitN(j.op.name, ";", 2)[0])+c22Seq(j.op.name), strings.Join(ks, " + ")),
				fmt.Sprintf("state %s, operation %s (returned %v): %d of %d reachable/staged objects are missing or changed afterwards: %v", j.t.name, j.op.name, operr, len(lost), len(ids), lost),
				map[string]any{"state": j.t.name, "op": j.op.name, "lost": lost})
			return
		}
		if len(sameLost) > 0 {
			c.Fail(fmt.Sprintf("after %s objects are unreadable through the same repository instance (a fresh instance reads them)", opKind(strings.SplitN(j.op.name, ";", 2)[0])),
				fmt.Sprintf("state %s, operation %s (returned %v): %d reachable/staged objects cannot be read through the instance that ran the operation: %v", j.t.name, j.op.name, operr, len(sameLost), sameLost),
				map[string]any{"state": j.t.name, "op": j.op.name, "unreadable": sameLost})
			return
		}
		if operr != nil {
			refused.Add(1)
			return // the operation refused: nothing was lost, which is all the statement demands
		}
		fs := g.Run("fsck", "--no-dangling", "--connectivity-only")
		if !fs.OK() {
			c.Fail("git fsck fails after "+opKind(j.op.name), fmt.Sprintf("state %s after %s: git fsck: %s", j.t.name, j.op.name, strings.TrimSpace(string(fs.Err)+string(fs.Out))), map[string]any{"state": j.t.name, "op": j.op.name})
		}
		if i%53 == 0 {
			c.Sample(map[string]any{"state": j.t.name, "operation": j.op.name, "reachable_or_staged_objects": len(ids)})
		}
	})
	c.TracesValidated(len(tmpls))
	c.Extra("refused_operations", int(refused.Load()))
}

func c22Seq(n string) string {
	if strings.Contains(n, ";") {
		return "(in a sequence)"
	}
	return ""
}

func featNames(fs []c22Feature, ss []int) []string {
	var out []string
	for _, k := range ss {
		out = append(out, fs[k].name)
	}
	return out
}

func contains(s []string, x string) bool {
	for _, y := range s {
		if y == x {
			return true
		}
	}
	return false
}

package checks

import (
	"bytes"
	"fmt"
	"io"
	"os"
	"os/exec"
	"path/filepath"
	"sort"
	"strings"
	"time"

	git "github.com/go-git/go-git/v6"
	"github.com/go-git/go-git/v6/plumbing"

	"verifmc/fw"
)

func init() {
	fw.Register(&fw.Check{ID: "C22", Level: "model_checking", Run: runC22, QuickBudget: 100, ThoroughBudget: 900})
}

type c22Feature struct {
	name string
	// apply mutates the repository at dir with real git
	apply func(g *fw.Git, dir string, ids []string)
}

func c22Features() []c22Feature {
	write := func(dir, name, content string) {
		p := filepath.Join(dir, name)
		os.MkdirAll(filepath.Dir(p), 0o755)
		if err := os.WriteFile(p, []byte(content), 0o644); err != nil {
			fw.Abort("write: %v", err)
		}
	}
	return []c22Feature{
		{"staged-new-blob(loose)", func(g *fw.Git, dir string, ids []string) {
			write(dir, "staged.txt", "staged only, never committed\n")
			g.MustRun("add", "staged.txt")
		}},
		{"staged-edit-of-tracked", func(g *fw.Git, dir string, ids []string) {
			write(dir, "f0", "tracked file with a staged edit\n")
			g.MustRun("add", "f0")
		}},
		{"staged-executable+symlink(loose)", func(g *fw.Git, dir string, ids []string) {
			write(dir, "run.sh", "#!/bin/sh\necho staged executable\n")
			os.Chmod(filepath.Join(dir, "run.sh"), 0o755)
			os.Symlink("target of a staged symlink", filepath.Join(dir, "lnk"))
			g.MustRun("add", "run.sh", "lnk")
		}},
		{"staged-executable+symlink(packed)", func(g *fw.Git, dir string, ids []string) {
			write(dir, "run2.sh", "#!/bin/sh\necho staged executable, packed\n")
			os.Chmod(filepath.Join(dir, "run2.sh"), 0o755)
			os.Symlink("target of a staged symlink, packed", filepath.Join(dir, "lnk2"))
			g.MustRun("add", "run2.sh", "lnk2")
			g.MustRun("repack", "-a", "-d", "-q")
		}},
		{"staged-blob-packed", func(g *fw.Git, dir string, ids []string) {
			write(dir, "d/staged2.txt", "staged and then packed by git repack\n")
			g.MustRun("add", "d/staged2.txt")
			g.MustRun("repack", "-a", "-d", "-q")
		}},
		{"detached-HEAD-on-unreferenced-commit", func(g *fw.Git, dir string, ids []string) {
			g.MustRun("checkout", "-q", "--detach")
			write(dir, "det", "only reachable from the detached HEAD\n")
			g.MustRun("add", "det")
			g.MustRun("commit", "-q", "-m", "detached")
		}},
		{"annotated-tags", func(g *fw.Git, dir string, ids []string) {
			g.MustRun("tag", "-a", "-m", "tag of a commit", "vc", ids[0])
			blob := g.MustRunIn([]byte("blob only reachable from a tag\n"), "hash-object", "-w", "--stdin").S()
			g.MustRun("tag", "-a", "-m", "tag of a blob", "vb", blob)
		}},
		{"everything-packed-plus-loose-duplicate", func(g *fw.Git, dir string, ids []string) {
			g.MustRun("repack", "-a", "-d", "-q")
			// a loose duplicate of a packed blob
			g.MustRunIn([]byte("content 0\n"), "hash-object", "-w", "--stdin")
		}},
		{"unreachable-loose-object", func(g *fw.Git, dir string, ids []string) {
			g.MustRunIn([]byte("garbage nobody references\n"), "hash-object", "-w", "--stdin")
		}},
	}
}

type c22Op struct {
	name string
	run  func(r *git.Repository) error
}

func c22Ops() []c22Op {
	prune := func(t time.Time) func(r *git.Repository) error {
		return func(r *git.Repository) error {
			return r.Prune(git.PruneOptions{OnlyObjectsOlderThan: t, Handler: r.DeleteObject})
		}
	}
	repack := func(ref bool) func(r *git.Repository) error {
		return func(r *git.Repository) error { return r.RepackObjects(&git.RepackConfig{UseRefDeltas: ref}) }
	}
	seq := func(fs ...func(r *git.Repository) error) func(r *git.Repository) error {
		return func(r *git.Repository) error {
			for _, f := range fs {
				if err := f(r); err != nil {
					return err
				}
			}
			return nil
		}
	}
	future := time.Now().Add(24 * time.Hour)
	return []c22Op{
		{"Prune()", prune(time.Time{})},
		{"Prune(older than tomorrow)", prune(future)},
		{"RepackObjects(ofs)", repack(false)},
		{"RepackObjects(ref)", repack(true)},
		{"RepackObjects;Prune", seq(repack(false), prune(time.Time{}))},
		{"Prune;RepackObjects", seq(prune(time.Time{}), repack(false))},
		{"RepackObjects;RepackObjects", seq(repack(false), repack(true))},
	}
}

func copyDir(src, dst string) {
	if out, err := exec.Command("cp", "-a", src, dst).CombinedOutput(); err != nil {
		fw.Abort("cp: %v %s", err, out)
	}
}

func runC22(c *fw.Ctx) {
	feats := c22Features()
	ops := c22Ops()
	maxF := c.Pick(2, 3)
	var fn, on []string
	for _, f := range feats {
		fn = append(fn, f.name)
	}
	for _, o := range ops {
		on = append(on, o.name)
	}
	c.Bound("features", fn)
	c.Bound("max_features_combined", maxF)
	c.Bound("operations", on)
	c.SetRule("repository states = 3 git-built histories (linear, branch+merge, two roots) x every subset of <= max_features_combined of 9 features (staged new blob, staged edit, staged executable and symlink (loose / packed), staged blob already packed, detached HEAD on an unreferenced commit, annotated tags of commit and blob, everything packed + loose duplicate, unreachable loose object) x 7 GC operation sequences (Prune with/without age limit, RepackObjects ofs/ref, compositions); model = set of objects git reports reachable from all refs, HEAD and the index (rev-list --objects --all HEAD + ls-files -s) BEFORE the operation, with their bytes; after the operation every such object must be readable with identical type and bytes through a fresh go-git storage and through real git cat-file, and git fsck must find no missing object; distinct = (history, feature set, operation, object-set digest)")
	c.Assume("git 2.39.5 defines reachability; reflog-only reachability is not part of the statement")
	dags := []fw.DAG{{Parents: [][]int{{}, {0}}}, {Parents: [][]int{{}, {0}, {0}, {1, 2}}}, {Parents: [][]int{{}, {}, {0, 1}}}}
	type state struct {
		name string
		dir  string
	}
	// build templates: one per (history, feature subset)
	subsets := fw.Subsets(len(feats), maxF)
	type tmpl struct {
		name    string
		dir     string
		objs    map[string]fw.ObjInfo // reachable before
		staged  []string
	}
	var tmpls []*tmpl
	for di := range dags {
		for _, ss := range subsets {
			tmpls = append(tmpls, &tmpl{name: fmt.Sprintf("dag%d+%v", di, featNames(feats, ss))})
		}
	}
	c.ParDo(len(tmpls), 0, func(i int) {
		t := tmpls[i]
		di := i / len(subsets)
		ss := subsets[i%len(subsets)]
		g, dir := c.InitRepo("c22t", "", false)
		ids := g.BuildHistory(fw.HistoryFromDAG(dags[di], nil, 1700000000, 100), false)
		g.MustRun("update-ref", "refs/heads/main", ids[len(ids)-1])
		if len(ids) > 2 {
			g.MustRun("update-ref", "refs/heads/side", ids[1])
		}
		g.MustRun("reset", "-q", "--hard")
		for _, k := range ss {
			feats[k].apply(g, dir, ids)
		}
		t.dir = dir
		// reachable set
		r := g.MustRun("rev-list", "--objects", "--all", "HEAD")
		var oids []string
		seen := map[string]bool{}
		for _, l := range strings.Split(r.S(), "\n") {
			f := strings.Fields(l)
			if len(f) > 0 && !seen[f[0]] {
				seen[f[0]] = true
				oids = append(oids, f[0])
			}
		}
		for _, l := range strings.Split(g.MustRun("ls-files", "-s").S(), "\n") {
			f := strings.Fields(l)
			if len(f) >= 2 && !seen[f[1]] {
				seen[f[1]] = true
				oids = append(oids, f[1])
				t.staged = append(t.staged, f[1])
			}
		}
		t.objs = map[string]fw.ObjInfo{}
		for _, o := range g.CatFileBatch(oids) {
			if o.Missing {
				fw.Abort("template %s: git cannot read reachable object %s", t.name, o.ID)
			}
			t.objs[o.ID] = o
		}
	})
	c.States(len(tmpls))
	type job struct {
		t  *tmpl
		op c22Op
	}
	var jobs []job
	for _, t := range tmpls {
		for _, o := range ops {
			jobs = append(jobs, job{t, o})
		}
	}
	c.Bound("cases", len(jobs))
	c.ParDo(len(jobs), 0, func(i int) {
		j := jobs[i]
		dir := filepath.Join(c.TempDir("c22c"), "r")
		copyDir(j.t.dir, dir)
		defer os.RemoveAll(filepath.Dir(dir))
		repo, err := git.PlainOpen(dir)
		if err != nil {
			fw.Abort("open: %v", err)
		}
		operr := func() (err error) {
			defer func() {
				if r := recover(); r != nil {
					err = fmt.Errorf("panic: %v", r)
				}
			}()
			return j.op.run(repo)
		}()
		// read-back through the SAME instance first ("after repacking every such object is still readable")
		var sameLost []string
		for id, want := range j.t.objs {
			o, err := repo.Storer.EncodedObject(plumbing.AnyObject, plumbing.NewHash(id))
			ok := err == nil && o.Type().String() == want.Type
			if ok {
				rd, rerr := o.Reader()
				if rerr != nil {
					ok = false
					err = fmt.Errorf("Reader(): %w", rerr)
				} else {
					b, _ := io.ReadAll(rd)
					rd.Close()
					ok = bytes.Equal(b, want.Data)
				}
			}
			if !ok {
				sameLost = append(sameLost, id+fmt.Sprintf("(%v)", err))
			}
		}
		sort.Strings(sameLost)
		if cl, ok := repo.Storer.(io.Closer); ok {
			cl.Close()
		}
		c.Eval()
		c.Transitions(1)
		// fresh go-git + git read-back
		repo2, err := git.PlainOpen(dir)
		if err != nil {
			c.Fail("repository does not open after "+opKind(j.op.name), fmt.Sprintf("%s then %s: PlainOpen: %v", j.t.name, j.op.name, err), map[string]any{"state": j.t.name, "op": j.op.name})
			return
		}
		var lost []string
		kinds := map[string]bool{}
		ids := make([]string, 0, len(j.t.objs))
		for id := range j.t.objs {
			ids = append(ids, id)
		}
		sort.Strings(ids)
		stagedSet := map[string]bool{}
		for _, s := range j.t.staged {
			stagedSet[s] = true
		}
		for _, id := range ids {
			want := j.t.objs[id]
			o, err := repo2.Storer.EncodedObject(plumbing.AnyObject, plumbing.NewHash(id))
			ok := err == nil && o.Type().String() == want.Type
			if ok {
				rd, err := o.Reader()
				if err != nil {
					ok = false
				} else {
					b, _ := io.ReadAll(rd)
					rd.Close()
					ok = bytes.Equal(b, want.Data)
				}
			}
			if !ok {
				lost = append(lost, id)
				if stagedSet[id] {
					kinds["object referenced only by the index"] = true
				} else {
					kinds["object reachable from refs/HEAD"] = true
				}
			}
		}
		if cl, ok := repo2.Storer.(io.Closer); ok {
			cl.Close()
		}
		g := c.GitHome().In(dir)
		for _, o := range g.CatFileBatch(ids) {
			want := j.t.objs[o.ID]
			if o.Missing || o.Type != want.Type || !bytes.Equal(o.Data, want.Data) {
				if !contains(lost, o.ID) {
					lost = append(lost, o.ID)
					kinds["object git can no longer read"] = true
				}
			}
		}
		c.Class(fmt.Sprintf("%s|%s|%d|%v", j.t.name, j.op.name, len(ids), operr == nil))
		if len(lost) > 0 {
			var ks []string
			for k := range kinds {
				ks = append(ks, k)
			}
			sort.Strings(ks)
			c.Fail(fmt.Sprintf("%s loses %s", opKind(strings.SplitN(j.op.name, ";", 2)[0])+c22Seq(j.op.name), strings.Join(ks, " + ")),
				fmt.Sprintf("state %s, operation %s (returned %v): %d of %d reachable/staged objects are missing or changed afterwards: %v", j.t.name, j.op.name, operr, len(lost), len(ids), lost),
				map[string]any{"state": j.t.name, "op": j.op.name, "lost": lost})
			return
		}
		if len(sameLost) > 0 {
			c.Fail(fmt.Sprintf("after %s objects are unreadable through the same repository instance (a fresh instance reads them)", opKind(strings.SplitN(j.op.name, ";", 2)[0])),
				fmt.Sprintf("state %s, operation %s (returned %v): %d reachable/staged objects cannot be read through the instance that ran the operation: %v", j.t.name, j.op.name, operr, len(sameLost), sameLost),
				map[string]any{"state": j.t.name, "op": j.op.name, "unreadable": sameLost})
			return
		}
		if operr != nil {
			return // the operation refused: nothing was lost, which is all the statement demands
		}
		fs := g.Run("fsck", "--no-dangling", "--connectivity-only")
		if !fs.OK() {
			c.Fail("git fsck fails after "+opKind(j.op.name), fmt.Sprintf("state %s after %s: git fsck: %s", j.t.name, j.op.name, strings.TrimSpace(string(fs.Err)+string(fs.Out))), map[string]any{"state": j.t.name, "op": j.op.name})
		}
		if i%53 == 0 {
			c.Sample(map[string]any{"state": j.t.name, "operation": j.op.name, "reachable_or_staged_objects": len(ids)})
		}
	})
	c.TracesValidated(len(tmpls))
}

func c22Seq(n string) string {
	if strings.Contains(n, ";") {
		return "(in a sequence)"
	}
	return ""
}

func featNames(fs []c22Feature, ss []int) []string {
	var out []string
	for _, k := range ss {
		out = append(out, fs[k].name)
	}
	return out
}

func contains(s []string, x string) bool {
	for _, y := range s {
		if y == x {
			return true
		}
	}
	return false
}

package checks

// Helpers shared by the batch "d" checks (C34, C35, C53).

import (
	"fmt"
	"io"
	"os"
	"runtime/pprof"
	"sort"
	"sync"

	"verifmc/fw"
)

// dChunking is one environment choice for how a byte stream is delivered: a
// Read never crosses an offset listed in cuts and never returns more than max
// bytes (0 = unlimited). With eofData the final chunk is returned together
// with io.EOF (which io.Reader allows). With zero every chunk is preceded by
// one Read that returns (0, nil) (which io.Reader discourages but allows).
type dChunking struct {
	cuts    []int
	max     int
	eofData bool
	zero    bool
}

func (k dChunking) String() string {
	s := "whole"
	switch {
	case len(k.cuts) > 0 && k.max > 0:
		s = fmt.Sprintf("cuts%v+max%d", k.cuts, k.max)
	case len(k.cuts) > 0:
		s = fmt.Sprintf("cuts%v", k.cuts)
	case k.max > 0:
		s = fmt.Sprintf("max%d", k.max)
	}
	if k.eofData {
		s += "+eofdata"
	}
	if k.zero {
		s += "+zeroreads"
	}
	return s
}

// dChunkReader is the io.Reader that realises a dChunking. It also counts the
// Read calls it served (step budget for C53).
type dChunkReader struct {
	data  []byte
	pos   int
	k     dChunking
	ci    int
	reads int
	gave0 bool
}

func newChunkReader(data []byte, k dChunking) *dChunkReader {
	return &dChunkReader{data: data, k: k}
}

func (r *dChunkReader) Read(p []byte) (int, error) {
	r.reads++
	if r.pos >= len(r.data) {
		return 0, io.EOF
	}
	if len(p) == 0 {
		return 0, nil
	}
	if r.k.zero {
		if !r.gave0 {
			r.gave0 = true
			return 0, nil
		}
		r.gave0 = false
	}
	end := len(r.data)
	for r.ci < len(r.k.cuts) && r.k.cuts[r.ci] <= r.pos {
		r.ci++
	}
	if r.ci < len(r.k.cuts) && r.k.cuts[r.ci] < end {
		end = r.k.cuts[r.ci]
	}
	if r.k.max > 0 && end-r.pos > r.k.max {
		end = r.pos + r.k.max
	}
	if end-r.pos > len(p) {
		end = r.pos + len(p)
	}
	n := copy(p, r.data[r.pos:end])
	r.pos = end
	if r.k.eofData && r.pos >= len(r.data) {
		return n, io.EOF
	}
	return n, nil
}

// dChunkingsSmall enumerates, for a stream of n bytes: whole buffer, every
// single split point, every pair of split points (when pairs), and the
// fixed per-read maxima in sizes; each with and without eofData when eofVar.
func dChunkingsSmall(n int, pairs bool, sizes []int, eofVar bool) []dChunking {
	var out []dChunking
	add := func(k dChunking) {
		out = append(out, k)
		if eofVar {
			k.eofData = true
			out = append(out, k)
		}
	}
	add(dChunking{})
	for p := 1; p < n; p++ {
		add(dChunking{cuts: []int{p}})
	}
	if pairs {
		for p := 1; p < n; p++ {
			for q := p + 1; q < n; q++ {
				add(dChunking{cuts: []int{p, q}})
			}
		}
	}
	for _, s := range sizes {
		add(dChunking{max: s})
	}
	return out
}

// dNear returns the sorted distinct offsets in (0,n) within radius of any of
// the given boundaries.
func dNear(n, radius int, bounds ...int) []int {
	set := map[int]bool{}
	for _, b := range bounds {
		for d := -radius; d <= radius; d++ {
			if p := b + d; p > 0 && p < n {
				set[p] = true
			}
		}
	}
	var out []int
	for p := range set {
		out = append(out, p)
	}
	sort.Ints(out)
	return out
}

// dMinFails keeps, per group (= one suspected defect: part/consumer/kind), the
// failing case with the smallest enumeration rank; the groups are reported
// after the enumeration, so the reported key does not depend on goroutine
// scheduling.
type dMinFails struct {
	mu sync.Mutex
	m  map[string]*dMinFail
}

type dMinFail struct {
	rank   [3]int
	key    string
	what   string
	replay any
	count  int
}

func (m *dMinFails) add(group string, rank [3]int, mk func() (key, what string, replay any)) {
	m.mu.Lock()
	defer m.mu.Unlock()
	if m.m == nil {
		m.m = map[string]*dMinFail{}
	}
	f, ok := m.m[group]
	if ok {
		f.count++
		if !dRankLess(rank, f.rank) {
			return
		}
	} else {
		f = &dMinFail{count: 1}
		m.m[group] = f
	}
	f.rank = rank
	f.key, f.what, f.replay = mk()
}

func dRankLess(a, b [3]int) bool {
	for i := range a {
		if a[i] != b[i] {
			return a[i] < b[i]
		}
	}
	return false
}

func (m *dMinFails) flush(c *fw.Ctx) {
	m.mu.Lock()
	defer m.mu.Unlock()
	var gs []string
	for g := range m.m {
		gs = append(gs, g)
	}
	sort.Strings(gs)
	for _, g := range gs {
		f := m.m[g]
		c.Fail(f.key, fmt.Sprintf("%s (%d failing case(s) in group %s; smallest shown)", f.what, f.count, g), f.replay)
	}
	m.m = nil
}

// dClassSet forwards each distinct class once to the evidence counter (cheap
// on the hot path).
type dClassSet struct{ seen sync.Map }

func (s *dClassSet) add(c *fw.Ctx, key string) {
	if _, loaded := s.seen.LoadOrStore(key, struct{}{}); !loaded {
		c.Class(key)
	}
}

// dShort abbreviates long byte strings for keys and replay files.
func dShort(b []byte) string {
	if len(b) <= 48 {
		return fw.Q(string(b))
	}
	return fmt.Sprintf("%s...(%d bytes)...%s", fw.Q(string(b[:16])), len(b), fw.Q(string(b[len(b)-8:])))
}

// dProf starts a CPU profile when VERIF_D_PROF names a file (tuning aid only).
func dProf() func() {
	pf := os.Getenv("VERIF_D_PROF")
	if pf == "" {
		return func() {}
	}
	f, err := os.Create(pf)
	if err != nil {
		return func() {}
	}
	pprof.StartCPUProfile(f)
	return func() { pprof.StopCPUProfile(); f.Close() }
}

package checks

import (
	"fmt"
	"os"
	"sort"
	"strings"

	"verifmc/fw"
)

// i36Exec is the outcome of one fetch execution.
type i36Exec struct {
	ran     bool
	hung    bool
	failMsg string
	st      iRepoState
	stErr   error
	fsck    string
	dir     string
}

func i36IDSet(m map[string]bool) string {
	k := iSortedKeys(m)
	return strings.Join(k, ",")
}

// fetchUnit runs every request of one (server, prior state, refspec) unit.
func (r *i36Run) fetchUnit(ui int, b *i36Base, newSrv *i36Srv, prior i36Prior, specIdx int, depths, protosGo, protosGit []int, withGit bool, servers func(mask int, x bool) *i36Srv) {
	c := r.c
	spec := i36Specs[specIdx]
	tmpl, priorRefs, priorShallow := r.makePrior(b, newSrv, prior, spec.Spec, servers)
	defer os.RemoveAll(tmpl)

	prunable := false
	for name := range priorRefs {
		if src, ok := i36Map(i36Reverse(spec.Spec), name); ok {
			if _, on := newSrv.refs[src]; !on {
				prunable = true
			}
		}
	}
	prunes := []bool{false}
	if prunable {
		prunes = append(prunes, true)
	}
	// objects present in the prior client
	have := map[string]bool{}
	for _, l := range strings.Split(fw.NewGit(tmpl, r.home).MustRun("cat-file", "--batch-check=%(objectname)", "--batch-all-objects").S(), "\n") {
		if l = strings.TrimSpace(l); l != "" {
			have[l] = true
		}
	}
	// Want selection under --depth differs legitimately between the two
	// clients: git asks for the refs whose local counterpart differs (all of
	// them when none differs), go-git for the tips whose object is missing (all
	// of them when the repository is shallow and depth != 1). The boundary the
	// server computes depends on the wants, so the git->git shallow file is the
	// oracle for a go-git client only when both selections coincide.
	sameWants := func(tags string, depth int) bool {
		specs := []string{spec.Spec}
		if tags == "all" {
			specs = append(specs, "refs/tags/*:refs/tags/*")
		}
		all, differ, missing := map[string]bool{}, map[string]bool{}, map[string]bool{}
		for name, id := range newSrv.refs {
			for _, sp := range specs {
				if dst, ok := i36Map(sp, name); ok {
					all[id] = true
					if priorRefs[dst] != id {
						differ[id] = true
					}
					if !have[id] {
						missing[id] = true
					}
				}
			}
		}
		gitW := differ
		if len(gitW) == 0 {
			gitW = all
		}
		goW := missing
		if len(priorShallow) > 0 && depth != 1 {
			goW = all
		}
		return i36IDSet(gitW) == i36IDSet(goW)
	}

	for ti, tname := range i36TagNames {
		for _, depth := range depths {
			for _, prune := range prunes {
				if r.expired() {
					return
				}
				req := i36Req{Op: "fetch", Base: b.name, Prior: prior.String(), Spec: spec.Name, Tags: tname, Depth: depth, Prune: prune}
				ord := ui*1000 + ti*100 + depth*10
				if prune {
					ord++
				}
				// oracle: git -> git
				od := c.TempDir("c36or")
				c.Must(iCopyDir(tmpl, od), "copy client template")
				ores := iGit(r.home, od, i36GitConf, append(i36GitFetchArgs(tname, depth, prune), "origin")...)
				if ores.TimedOut {
					c.Incomplete("watchdog (60 s) expired on the git->git oracle run of " + req.String())
					os.RemoveAll(od)
					continue
				}
				if ores.Code != 0 {
					r.mu.Lock()
					r.oracleRefused++
					r.mu.Unlock()
					os.RemoveAll(od)
					continue
				}
				ost, err := iReadState(r.home, od)
				c.Must(err, "read oracle state")
				if m := i36Model(newSrv.refs, priorRefs, ost.Refs, []string{spec.Spec}, tname, prune, nil); m != "" {
					fw.Abort("ref model disagrees with git->git on %s: %s", req, m)
				}
				if c.Thorough() {
					if f := iFsck(r.home, od); f != "" {
						fw.Abort("git->git result does not pass fsck on %s: %s", req, f)
					}
				}
				c.TracesValidated(1)
				os.RemoveAll(od)

				comparable := depth == 0 || sameWants(tname, depth)
				protoSet := map[int]bool{}
				for _, p := range protosGo {
					protoSet[p] = true
				}
				for _, p := range protosGit {
					protoSet[p] = true
				}
				var protos []int
				for p := range protoSet {
					protos = append(protos, p)
				}
				sort.Ints(protos)
				inList := func(l []int, x int) bool {
					for _, y := range l {
						if y == x {
							return true
						}
					}
					return false
				}

				run := func(pairing string, proto int) *i36Exec {
					e := &i36Exec{ran: true}
					cd := c.TempDir("c36ex")
					e.dir = cd
					c.Must(iCopyDir(tmpl, cd), "copy client template")
					c.Eval()
					switch pairing {
					case i36GG, i36GX:
						err, h := r.goFetch(cd, newSrv.dir, proto, spec.Spec, i36TagModes[ti], depth, prune, pairing == i36GX, pairing == i36GG && i36OverHTTP(b))
						e.hung = h
						if err != nil {
							e.failMsg = err.Error()
						}
					case i36XG:
						conf := append(append([]string{}, i36GitConf...), fmt.Sprintf("protocol.version=%d", proto))
						args := append(i36GitFetchArgs(tname, depth, prune), "--upload-pack="+r.self+" __serve upload-pack", "origin")
						res := iGit(r.home, cd, conf, args...)
						e.hung = res.TimedOut
						if res.Code != 0 {
							e.failMsg = fmt.Sprintf("exit %d: %s", res.Code, strings.TrimSpace(res.Err))
						}
					}
					if e.hung {
						return e // keep the directory: a stuck goroutine may still use it
					}
					if e.failMsg == "" {
						e.st, e.stErr = iReadState(r.home, cd)
						if e.stErr == nil {
							e.fsck = iFsck(r.home, cd)
						}
					}
					os.RemoveAll(cd)
					return e
				}

				for _, proto := range protos {
					var twin *i36Exec // go-git client against the real git server
					for _, pairing := range []string{i36GX, i36GG, i36XG} {
						switch pairing {
						case i36GX:
							// runs as a pairing of its own, or as the server-isolating twin of gogit->gogit
							if !inList(protosGo, proto) || !(withGit || !comparable) {
								continue
							}
						case i36GG:
							if !inList(protosGo, proto) {
								continue
							}
						case i36XG:
							if !withGit || !inList(protosGit, proto) {
								continue
							}
						}
						e := run(pairing, proto)
						if pairing == i36GX {
							twin = e
						}
						cls := fmt.Sprintf("%s v%d fetch prior=%s spec=%s tags=%s depth=%d prune=%v", pairing, proto, prior.Kind, spec.Name, tname, depth, prune)
						if pairing == i36GG && i36OverHTTP(b) {
							cls = "http " + cls
						}
						base := map[string]any{"request": req, "pairing": pairing, "protocol": proto, "replay": fmt.Sprintf("see notes/C36.md (vcheck __play fetch <client> '%s' %s %d %v %d %s)", spec.Spec, tname, depth, prune, proto, map[bool]string{true: "exec", false: "file"}[pairing == i36GX])}
						if e.hung {
							r.mu.Lock()
							r.hung[cls]++
							r.mu.Unlock()
							c.Incomplete("watchdog (60 s) expired: " + cls + " on " + req.String())
							continue
						}
						if strings.HasPrefix(e.failMsg, "PANIC") {
							r.fail(ord, "panic "+pairing, e.failMsg+" :: "+req.String(), base)
							continue
						}
						if e.failMsg != "" {
							r.unsuccessful(fmt.Sprintf("%s v%d prior=%s depth>0=%v :: %s", pairing, proto, prior.Kind, depth > 0, i36ErrClass(e.failMsg)), req.String()+" :: "+e.failMsg)
							continue
						}
						if e.stErr != nil {
							r.fail(ord, "unreadable refs "+pairing, "client refs unreadable after a successful fetch: "+i36ErrClass(e.stErr.Error())+" :: "+req.String(), base)
							continue
						}
						st := e.st
						rep := map[string]any{"request": req, "pairing": pairing, "protocol": proto, "server_refs": newSrv.refs, "prior_refs": priorRefs, "prior_shallow": priorShallow, "client_refs": st.Refs, "client_shallow": st.Shallow, "git_refs": ost.Refs, "git_shallow": ost.Shallow, "replay": base["replay"]}
						goClient := pairing != i36XG
						// class predicate (input only): a go-git client fetching without Depth into a shallow repository
						noShallowLines := goClient && len(priorShallow) > 0 && depth == 0
						kbase := fmt.Sprintf("%s %s prior=%s depth>0=%v", pairing, i36ProtoFam(proto), prior.Kind, depth > 0)
						if e.fsck != "" {
							key := "incomplete " + kbase
							if noShallowLines {
								key = "incomplete: go-git client, shallow repository, depth=0 (no shallow lines sent) " + pairing
							} else if pairing == i36GG && proto != 2 && depth > 0 && len(priorShallow) > 0 {
								// class predicate (input only): go-git v0/v1 server, deepen request from a shallow client
								key = "incomplete: go-git v0/v1 server ignores the client's shallow lines (deepen of a shallow client)"
							} else if pairing == i36GG && proto == 2 && depth > 0 && len(priorShallow) == 0 && len(have) > 0 {
								// class predicate (input only): go-git v2 server, deepen request from a non-shallow client that has haves
								key = "incomplete: go-git v2 server, deepen with client haves (boundary commit diffed against its unsent parent)"
							}
							r.fail(ord, key, "client fails fsck --connectivity-only after a successful fetch: "+i36FirstLine(e.fsck)+" :: "+req.String(), rep)
							continue
						}
						if m := i36Model(newSrv.refs, priorRefs, st.Refs, []string{spec.Spec}, tname, prune, nil); m != "" {
							key := "refs " + kbase + " tags=" + tname
							if noShallowLines {
								key = "refs: go-git client, shallow repository, depth=0 (no shallow lines sent) " + pairing
							}
							r.fail(ord, key, "client refs differ from the refspec-mapped server refs: "+m+" :: "+req.String(), rep)
						}
						// shallow boundary
						var want []string
						wantSrc := ""
						switch {
						case !goClient || comparable:
							want, wantSrc = ost.Shallow, "git->git"
						case pairing == i36GG && twin != nil && !twin.hung && twin.failMsg == "" && twin.stErr == nil && twin.fsck == "":
							want, wantSrc = twin.st.Shallow, "the same go-git client against git upload-pack"
							rep["twin_shallow"] = twin.st.Shallow
						}
						if wantSrc != "" {
							if gs, ws := b.normShallow(st.Shallow), b.normShallow(want); !i36Eq(gs, ws) {
								for _, key := range b.shallowKeys(pairing, proto, gs, ws, newSrv.refs, tname == "all" || spec.Name == "mirror", "") {
									r.fail(ord, key, fmt.Sprintf("shallow file %s, %s produces %s :: %s", b.symList(st.Shallow), wantSrc, b.symList(want), req), rep)
								}
							}
						} else if goClient && depth > 0 {
							r.mu.Lock()
							r.wantsDiffer++
							r.mu.Unlock()
						}
						changed := 0
						for k, v := range st.Refs {
							if priorRefs[k] != v {
								changed++
							}
						}
						for k := range priorRefs {
							if _, ok := st.Refs[k]; !ok {
								changed++
							}
						}
						if changed > 0 || !i36Eq(st.Shallow, priorShallow) {
							c.Class(fmt.Sprintf("%s changed=%d shallow=%d", cls, changed, len(st.Shallow)))
						}
						if ui%53 == 0 && ti == 0 && (depth == 1 || depth == 2) {
							c.Sample(map[string]any{"request": req.String(), "pairing": pairing, "protocol": proto, "refs_changed": changed, "shallow": b.symList(st.Shallow)})
						}
					}
				}
			}
		}
	}
}

package checks

import (
	"bytes"

	"verifmc/fw"
)

// C06, second driver: delta streams and (source, target) pairs on the FAR side
// of the size shortcuts in the appliers and in the delta encoder. The first
// driver (c06.go) enumerates every short stream; nothing in it is longer than
// the 1 KiB / 4 KiB bufio windows of the streaming appliers, copies twice from
// a source bigger than those windows, or makes DiffDelta flush a literal run.
//
//   L1  copies in a 70 000-byte source: every sequence of one or two
//       operations (and every triple over a reduced set) whose offsets and
//       sizes sit on each side of 4096 (bufio), 32768 (pooled copy buffer) and
//       65536 (maximum copy), valid and out of range, in every order
//       (forwards, backwards, overlapping, re-reading).
//   L2  long deltas: streams whose length crosses 1024 (ReaderFromDelta's
//       bufio), 4096 (the parser's bufio), 32768 and 65536 at every alignment,
//       each exact, with trailing junk, cut short, and with a wrong target size.
//   L3  (c06ExtraPairs) DiffDelta inputs: sources shorter than / equal to the
//       16-byte block against longer targets, literal runs around the 127-byte
//       insert limit, hash chains longer than maxChainLength.
//   L4  the parser appliers in SHA-256 packs and with commit/tree/tag bases.

const c06LargeN = 70000

type c06Op struct {
	enc  []byte
	size uint64 // bytes added to the target
	ok   bool   // in range for a source of c06LargeN bytes
}

func c06LargeOps(offs, sizes []uint64) []c06Op {
	var ops []c06Op
	for _, o := range offs {
		for _, s := range sizes {
			ops = append(ops, c06Op{bCopyOp(o, s), s, o+s <= c06LargeN})
		}
	}
	ops = append(ops, c06Op{[]byte{0x03, 'i', 'n', 's'}, 3, true})
	return ops
}

// c06ParamOps: one copy operation per parameter byte (4 offset bytes, 3 size
// bytes) and value {01, ff}: every row of the decoders' shift tables, most of
// them out of range for the source.
func c06ParamOps() []c06Op {
	var ops []c06Op
	for k := uint(0); k < 7; k++ {
		for _, v := range []uint64{0x01, 0xff} {
			if k < 4 { // one offset byte, size 1
				off := v << (8 * k)
				ops = append(ops, c06Op{[]byte{0x90 | 1<<k, byte(v), 0x01}, 1, off+1 <= c06LargeN})
				continue
			}
			size := v << (8 * (k - 4)) // offset 0, one size byte
			ops = append(ops, c06Op{[]byte{0x80 | 1<<k, byte(v)}, size, size <= c06LargeN})
		}
	}
	return ops
}

func c06LargeDelta(srcLen uint64, ops ...c06Op) []byte {
	var t uint64
	var body []byte
	for _, op := range ops {
		t += op.size
		body = append(body, op.enc...)
	}
	return bytes.Join([][]byte{bVarint(srcLen), bVarint(t), body}, nil)
}

// c06LargeCases builds L1 and L2.
func c06LargeCases(c *fw.Ctx) []c06Case {
	var out []c06Case
	src := c06Pattern(c06LargeN)
	sk := c06PatKey(c06LargeN)
	add := func(d []byte) { out = append(out, c06Case{src, d, sk}) }

	offs := []uint64{0, 4095, 4096, 4097, 65536, c06LargeN - 1}
	if c.Thorough() {
		offs = []uint64{0, 1, 4095, 4096, 4097, 32768, 65535, 65536, c06LargeN - 1}
	}
	sizes := []uint64{1, 4096, 4097, 32768, 32769, 65536}
	ops := append(c06LargeOps(offs, sizes), c06ParamOps()...)
	for _, a := range ops {
		add(c06LargeDelta(c06LargeN, a))
		for _, b := range ops {
			add(c06LargeDelta(c06LargeN, a, b))
		}
	}
	offs3 := []uint64{0, 4097, 40000}
	sizes3 := []uint64{1, 5000, 32769}
	if c.Thorough() {
		offs3 = []uint64{0, 4095, 4097, 40000, 65536}
		sizes3 = []uint64{1, 4097, 5000, 32769}
	}
	ops3 := c06LargeOps(offs3, sizes3)
	for _, a := range ops3 {
		for _, b := range ops3 {
			for _, d := range ops3 {
				add(c06LargeDelta(c06LargeN, a, b, d))
			}
		}
	}
	c.Bound("large_source_len", c06LargeN)
	c.Bound("large_source_copy_offsets", offs)
	c.Bound("large_source_copy_sizes", sizes)
	c.Bound("large_source_ops_pairs_triples", []int{len(ops), len(ops) * len(ops), len(ops3) * len(ops3) * len(ops3)})
	nL1 := len(out)

	// L2: long deltas on the 300-byte source
	s300 := c06Pattern(300)
	k300 := c06PatKey(300)
	lit := bPattern(70000)
	bounds := []int{1024, 4096, 32768, 65536}
	finals := [][]byte{{0x90, 10}, {0x91, 5, 10}}
	for _, B := range bounds {
		for L := B - 3; L <= B+3; L++ {
			for _, fin := range finals {
				// X literal bytes in inserts of at most 127, then fin (copies 10 bytes)
				for X := L - L/100 - 12; X < L; X++ {
					if X < 1 {
						continue
					}
					n := 2 + len(bVarint(uint64(X+10))) + X + (X+126)/127 + len(fin)
					if n != L {
						continue
					}
					var body []byte
					for o := 0; o < X; o += 127 {
						k := X - o
						if k > 127 {
							k = 127
						}
						body = append(body, byte(k))
						body = append(body, lit[o:o+k]...)
					}
					body = append(body, fin...)
					d := bytes.Join([][]byte{bVarint(300), bVarint(uint64(X + 10)), body}, nil)
					if len(d) != L {
						fw.Abort("C06 long-delta builder: %d != %d", len(d), L)
					}
					for _, v := range [][]byte{
						d,
						append(append([]byte{}, d...), 0x00),
						append(append([]byte{}, d...), 0x01, 'x'),
						d[:len(d)-1],
						bytes.Join([][]byte{bVarint(300), bVarint(uint64(X + 11)), body}, nil),
					} {
						out = append(out, c06Case{s300, v, k300})
					}
				}
			}
		}
	}
	c.Bound("long_delta_lengths", "every length within 3 of 1024, 4096, 32768, 65536 (inserts of <=127 bytes + one copy), each exact / +junk 00 / +junk insert / cut by one byte / target size +1")
	c.Bound("large_cases", map[string]int{"large_source": nL1, "long_delta": len(out) - nL1})
	return out
}

// c06Variants: L4.
func c06Variants() []c06Variant {
	return []c06Variant{{true, 0}, {false, bTCommit}, {false, bTTree}, {true, bTTag}}
}

type c06Pair struct{ src, tgt []byte }

// c06ExtraPairs: L3.
func c06ExtraPairs(c *fw.Ctx) []c06Pair {
	var out []c06Pair
	pat := bPattern(4096)
	fresh := func(n int) []byte { // bytes that never occur in bPattern
		b := make([]byte, n)
		for i := range b {
			b[i] = byte(1 + (i*7+i/13)%31)
		}
		return b
	}
	// (a) sources around the block size against targets around 1..3 blocks
	for _, sl := range []int{1, 15, 16, 17, 31, 32, 33} {
		for _, tl := range []int{0, 1, 15, 16, 17, 31, 32, 33, 48, 49} {
			out = append(out, c06Pair{pat[:sl], pat[:tl]})
			out = append(out, c06Pair{pat[:sl], pat[5 : 5+tl]})
			out = append(out, c06Pair{pat[:sl], append(fresh(tl/2), pat[:tl-tl/2]...)})
		}
	}
	// (b) literal runs around the 127-byte insert limit, in front / middle / end
	s := pat[:160]
	for _, n := range []int{126, 127, 128, 129, 253, 254, 255, 256, 381, 382, 1000} {
		f := fresh(n)
		out = append(out, c06Pair{s, append(append([]byte{}, s...), f...)})
		out = append(out, c06Pair{s, append(append([]byte{}, f...), s...)})
		out = append(out, c06Pair{s, bytes.Join([][]byte{s[:80], f, s[80:]}, nil)})
		out = append(out, c06Pair{s, f})
		out = append(out, c06Pair{s, bytes.Join([][]byte{f, s[:64], f, s[64:], f}, nil)})
	}
	// (c) hash chains: the same block k times, never twice in a row
	A, B := pat[:16], pat[100:116]
	for _, k := range []int{2, 63, 64, 65, 66, 130} {
		var ab, abc []byte
		for i := 0; i < k; i++ {
			ab = append(append(ab, A...), B...)
			abc = append(append(abc, A...), pat[200+16*i:216+16*i]...)
		}
		for _, src := range [][]byte{ab, abc} {
			out = append(out, c06Pair{src, src})
			out = append(out, c06Pair{src, src[16:]})
			out = append(out, c06Pair{src, append(append([]byte{}, src[len(src)-40:]...), src[:len(src)-40]...)})
			out = append(out, c06Pair{src, bytes.Join([][]byte{B, A, A, fresh(5), src[len(src)/2:]}, nil)})
		}
	}
	c.Bound("diffdelta_extra_pairs", len(out))
	return out
}

package checks

import (
	"fmt"
	"os"
	"sort"
	"strings"
	"sync/atomic"
	"time"

	"github.com/go-git/go-git/v6/plumbing"
	"github.com/go-git/go-git/v6/plumbing/cache"
	"github.com/go-git/go-git/v6/storage/filesystem"
	"github.com/go-git/go-git/v6/x/verif/vsched"

	"verifmc/fw"
	"verifmc/mcfs"
)

func init() {
	fw.Register(&fw.Check{ID: "C16", Level: "model_checking", Run: runC16, QuickBudget: 90, ThoroughBudget: 1200})
}

// schedHook makes every mcfs operation a scheduling point of the calling controlled thread.
func schedHook(op *mcfs.Op) error {
	vsched.PointWhen(op.String(), op.Enabled)
	return nil
}

type c16Op struct {
	kind     string // cas set read iter pack
	old, new string // value names: h1 h2 h3, s1 (a symbolic value: shorter content than a hash)
}

// isRead: Reference (point lookup) and IterReferences (listing) are the two read entry points.
func (o c16Op) isRead() bool { return o.kind == "read" || o.kind == "iter" }

func (o c16Op) String() string {
	switch o.kind {
	case "cas":
		return fmt.Sprintf("CAS(%s->%s)", o.old, o.new)
	case "set":
		return fmt.Sprintf("Set(%s)", o.new)
	case "read":
		return "Read"
	case "iter":
		return "Iter"
	}
	return "PackRefs"
}

type c16Event struct {
	thread     int
	op         c16Op
	call, ret  int64
	result     string // for read: value name / "not-found" / "error:..."; for cas/set/pack: ok / changed / error:...
}

// linearizable decides by brute force whether the events have a linearization
// consistent with real-time order under a CAS-register specification.
func c16Linearizable(init string, evs []c16Event, final string) bool {
	n := len(evs)
	if final == "not-found" {
		final = "absent"
	}
	used := make([]bool, n)
	var rec func(done int, val string) bool
	rec = func(done int, val string) bool {
		if done == n {
			return final == "" || final == val
		}
		for i := 0; i < n; i++ {
			if used[i] {
				continue
			}
			// real-time order: i may go next only if no unused j returned before i was called
			ok := true
			for j := 0; j < n; j++ {
				if j != i && !used[j] && evs[j].ret < evs[i].call {
					ok = false
					break
				}
			}
			if !ok {
				continue
			}
			e := evs[i]
			nv := val
			match := false
			switch e.op.kind {
			case "read", "iter":
				match = e.result == val || (val == "absent" && e.result == "not-found")
			case "set":
				match = e.result == "ok"
				nv = e.op.new
			case "pack":
				match = e.result == "ok"
			case "cas":
				if val == e.op.old {
					match = e.result == "ok"
					nv = e.op.new
				} else {
					// a failed CAS is a failed CAS whatever the error kind (the statement only constrains successful ones)
					match = e.result == "changed" || e.result == "not-found"
				}
			}
			if !match {
				continue
			}
			used[i] = true
			if rec(done+1, nv) {
				used[i] = false
				return true
			}
			used[i] = false
		}
		return false
	}
	return rec(0, init)
}

// c16Harness is one concurrent program. The zero values of ref/inst/by give the
// original family (one reference refs/heads/a, one storage instance per thread,
// nothing else in the repository), whose names are the keys of listed findings.
type c16Harness struct {
	progs [][]c16Op
	inst  []int  // storage instance of each thread (nil: one instance = one process per thread); equal numbers = goroutines sharing one Storage
	ref   string // contended reference ("" = refs/heads/a)
	by    bool   // bystander references exist (b loose, c packed-only): they must come out untouched
	inits []string
}

func (h c16Harness) name(init string) string {
	var names []string
	for _, p := range h.progs {
		var s []string
		for _, o := range p {
			s = append(s, o.String())
		}
		names = append(names, strings.Join(s, ";"))
	}
	n := fmt.Sprintf("init=%s threads=[%s]", init, strings.Join(names, " | "))
	if h.inst != nil {
		n += fmt.Sprintf(" instances=%v", h.inst)
	}
	if h.ref != "" {
		n += " ref=" + h.ref
	}
	if h.by {
		n += " +bystanders"
	}
	return n
}

const c16SymTarget = "refs/heads/zz"

func runC16(c *fw.Ctx) {
	maxPre := c.Pick(1, 2)
	c.Bound("max_preemptions", maxPre)
	c.SetRule("storage instances over one mcfs tree (separate instances = processes: they share only the filesystem, flock is modelled on inodes; a shared instance = goroutines of one process) run 2-3 threads of 1-2 operations {CheckAndSetReference, SetReference (hash or symbolic value), Reference, IterReferences, PackRefs} on ONE reference (refs/heads/a, or refs/heads/d/a nested in a directory) that is initially loose / packed-only / both / absent, alone or next to bystander references; every interleaving at filesystem-operation points within the preemption bound; each complete execution's call/return history must be linearizable as a CAS register, readers must never see not-found/empty/stale, the final value (read by a fresh instance) must be the linearization's and bystander references must be untouched; distinct = (harness, outcome signature)")
	c.Assume("process = storage instance sharing only the filesystem; mcfs conformance-replayed against osfs; cooperative scheduling at every filesystem call (flock, open, read, write, truncate, rename, remove, stat, readdir, mkdir, close of writable/locked handles)")

	n, err := mcfs.Conformance(c.Scratch(), 2)
	c.Must(err, "mcfs/osfs conformance")
	c.TracesValidated(n)

	// initial worlds, per (contended reference, bystanders)
	var hv, vh map[string]string
	type wkey struct {
		ref  string
		by   bool
		init string
	}
	worlds := map[wkey]*mcfs.World{}
	mkWorlds := func(ref string, by bool) {
		g, dir := c.InitRepo(fmt.Sprintf("c16-%d", len(worlds)), "", false)
		ids := g.BuildHistory([]fw.CommitSpec{
			{Time: 1700000000, Files: map[string]fw.FileSpec{"f": {Data: "1\n"}}},
			{Parents: []int{0}, Time: 1700000100, Files: map[string]fw.FileSpec{"f": {Data: "2\n"}}},
			{Parents: []int{1}, Time: 1700000200, Files: map[string]fw.FileSpec{"f": {Data: "3\n"}}},
			{Parents: []int{2}, Time: 1700000300, Files: map[string]fw.FileSpec{"f": {Data: "4\n"}}},
		}, false)
		hv = map[string]string{"h0": ids[0], "h1": ids[1], "h2": ids[2], "h3": ids[3]}
		vh = map[string]string{}
		for k, v := range hv {
			vh[v] = k
		}
		snap := func(init string) {
			w := mcfs.NewWorld()
			c.Must(w.Import(dir+"/.git", "/wt/.git"), "import")
			w.RemoveSetup("/wt/.git/hooks")
			worlds[wkey{ref, by, init}] = w
		}
		if by {
			// c exists only in packed-refs, b only as a loose file
			g.MustRun("update-ref", "refs/heads/c", hv["h0"])
			g.MustRun("pack-refs", "--all")
			g.MustRun("update-ref", "refs/heads/b", hv["h0"])
		}
		snap("absent")
		g.MustRun("update-ref", ref, hv["h1"])
		snap("loose")
		g.MustRun("pack-refs", "--all")
		if by {
			g.MustRun("update-ref", "refs/heads/b", hv["h3"])
			g.MustRun("update-ref", "refs/heads/b", hv["h0"]) // loose again, same value
		}
		snap("packed-only")
		g.MustRun("update-ref", ref, hv["h0"])
		g.MustRun("pack-refs", "--all")
		g.MustRun("update-ref", ref, hv["h1"])
		if by {
			g.MustRun("update-ref", "refs/heads/b", hv["h3"])
			g.MustRun("update-ref", "refs/heads/b", hv["h0"])
		}
		snap("both(stale packed)")
	}
	const nested = "refs/heads/d/a"
	mkWorlds("refs/heads/a", false)
	mkWorlds("refs/heads/a", true)
	mkWorlds(nested, false)
	inits := []string{"loose", "packed-only", "both(stale packed)"}

	cas12 := c16Op{"cas", "h1", "h2"}
	cas13 := c16Op{"cas", "h1", "h3"}
	cas23 := c16Op{"cas", "h2", "h3"}
	set1 := c16Op{"set", "", "h1"}
	set2 := c16Op{"set", "", "h2"}
	set3 := c16Op{"set", "", "h3"}
	setS := c16Op{"set", "", "s1"}
	read := c16Op{kind: "read"}
	iter := c16Op{kind: "iter"}
	pack := c16Op{kind: "pack"}
	type harness = c16Harness
	hs := []harness{
		{progs: [][]c16Op{{cas12}, {cas13}}},
		{progs: [][]c16Op{{cas12}, {read}}},
		{progs: [][]c16Op{{set2}, {read}}},
		{progs: [][]c16Op{{cas12}, {pack}}},
		{progs: [][]c16Op{{pack}, {read}}},
		{progs: [][]c16Op{{cas12}, {cas23}}},
		{progs: [][]c16Op{{cas12, cas23}, {read, read}}},
		{progs: [][]c16Op{{cas12}, {cas13}, {read}}},
		{progs: [][]c16Op{{cas12}, {pack}, {read}}},
		// the listing as the reader (loose walk, then packed-refs, first one wins)
		{progs: [][]c16Op{{pack}, {iter}}},
		{progs: [][]c16Op{{cas12}, {iter}}},
		{progs: [][]c16Op{{cas12}, {pack}, {iter}}},
		// values of different length (a symbolic value is shorter than a hash), unconditional writers
		{progs: [][]c16Op{{set2}, {setS}}},
		{progs: [][]c16Op{{setS}, {cas12}, {read}}},
		// a second operation of an instance after other processes changed loose AND packed state
		{progs: [][]c16Op{{cas12, pack}, {read, read}}},
		{progs: [][]c16Op{{set2, pack}, {iter, iter}}},
		// goroutines sharing one Storage instance (writers; two readers next to a writer process)
		{progs: [][]c16Op{{cas12}, {cas13}}, inst: []int{0, 0}},
		{progs: [][]c16Op{{cas12}, {read}, {read}}, inst: []int{0, 1, 1}},
		{progs: [][]c16Op{{set2}, {pack}, {read}}, inst: []int{0, 0, 0}},
		// the reference does not exist yet: creation races
		{progs: [][]c16Op{{set2}, {set3}}, inits: []string{"absent"}},
		{progs: [][]c16Op{{set1}, {cas12}, {read}}, inits: []string{"absent"}},
		{progs: [][]c16Op{{set2}, {iter}}, inits: []string{"absent"}},
		// a reference nested in a directory: PackRefs prunes the emptied directory, writers re-create it
		{progs: [][]c16Op{{cas12}, {pack}, {read}}, ref: nested},
		{progs: [][]c16Op{{set2}, {pack}}, ref: nested},
		{progs: [][]c16Op{{set2}, {set3}}, ref: nested, inits: []string{"absent"}},
		// two packers and a writer next to bystander references: whatever happens to a, b and c must survive
		{progs: [][]c16Op{{pack}, {pack}, {set2}}, by: true},
		{progs: [][]c16Op{{cas12}, {pack}, {iter}}, by: true},
	}
	if c.Thorough() {
		hs = append(hs,
			harness{progs: [][]c16Op{{set2}, {cas13}, {read}}},
			harness{progs: [][]c16Op{{cas12, pack}, {cas13, read}}},
			harness{progs: [][]c16Op{{pack}, {pack}, {cas12}}},
			harness{progs: [][]c16Op{{set2}, {pack}, {read, read}}},
			harness{progs: [][]c16Op{{setS}, {set2}, {iter}}},
			harness{progs: [][]c16Op{{cas12, pack}, {cas13, iter}}, by: true},
			harness{progs: [][]c16Op{{cas12, cas23}, {pack}, {read, read}}, ref: nested},
			harness{progs: [][]c16Op{{cas12}, {cas13}, {read}}, inst: []int{0, 0, 0}},
		)
	}
	type job struct {
		h    harness
		init string
	}
	var jobs []job
	for _, h := range hs {
		ins := h.inits
		if ins == nil {
			ins = inits
		}
		for _, in := range ins {
			jobs = append(jobs, job{h, in})
		}
	}
	c.Bound("harnesses", len(jobs))
	deadline := time.Now().Add(time.Duration(c.Pick(75, 1100)) * time.Second)
	var totalExec, totalPoints atomic.Int64
	c.ParDo(len(jobs), 0, func(ji int) {
		j := jobs[ji]
		refStr := j.h.ref
		if refStr == "" {
			refStr = "refs/heads/a"
		}
		refName := plumbing.ReferenceName(refStr)
		hname := j.h.name(j.init)
		initVal := "h1"
		if j.init == "absent" {
			initVal = "absent"
		}
		base := worlds[wkey{refStr, j.h.by, j.init}]
		if base == nil {
			fw.Abort("no world for %s", hname)
		}
		mkRef := func(v string) *plumbing.Reference {
			if v == "s1" {
				return plumbing.NewSymbolicReference(refName, c16SymTarget)
			}
			return plumbing.NewHashReference(refName, plumbing.NewHash(hv[v]))
		}
		valOf := func(r *plumbing.Reference) string {
			if r.Type() == plumbing.SymbolicReference {
				if r.Target() == c16SymTarget {
					return "s1"
				}
				return fmt.Sprintf("garbage:%q", "ref: "+r.Target().String())
			}
			if v, ok := vh[r.Hash().String()]; ok {
				return v
			}
			return "garbage:" + r.Hash().String()
		}
		outcomes := map[string]bool{}
		body := func(x *vsched.Exec) func(*vsched.Exec) string {
			w := base.Clone()
			w.SetHook(schedHook)
			var clock atomic.Int64
			events := make([][]c16Event, len(j.h.progs))
			insts := map[int]*filesystem.Storage{}
			for ti, prog := range j.h.progs {
				ti, prog := ti, prog
				ii := ti
				if j.h.inst != nil {
					ii = j.h.inst[ti]
				}
				st := insts[ii]
				if st == nil {
					st = filesystem.NewStorage(w.View("/wt/.git", fmt.Sprintf("proc%d", ii)), cache.NewObjectLRUDefault())
					insts[ii] = st
				}
				x.Go(fmt.Sprintf("p%d", ti), func() any {
					for _, op := range prog {
						ev := c16Event{thread: ti, op: op, call: clock.Add(1)}
						switch op.kind {
						case "cas":
							ev.result = c16Err(st.CheckAndSetReference(mkRef(op.new), mkRef(op.old)))
						case "set":
							ev.result = c16Err(st.SetReference(mkRef(op.new)))
						case "pack":
							ev.result = c16Err(st.PackRefs())
						case "read":
							r, err := st.Reference(refName)
							if err != nil {
								ev.result = c16Err(err)
							} else {
								ev.result = valOf(r)
							}
						case "iter":
							ev.result = c16Listed(st, refName, valOf)
						}
						ev.ret = clock.Add(1)
						events[ti] = append(events[ti], ev)
					}
					return nil
				})
			}
			return func(x *vsched.Exec) string {
				for _, t := range x.Threads() {
					if t.Panic != "" {
						return "panic: " + strings.SplitN(t.Panic, "\n", 2)[0]
					}
				}
				if x.Deadlock {
					return "deadlock"
				}
				w.SetHook(nil)
				var all []c16Event
				for _, e := range events {
					all = append(all, e...)
				}
				sort.Slice(all, func(a, b int) bool { return all[a].call < all[b].call })
				final := ""
				fresh := filesystem.NewStorage(w.View("/wt/.git", "final"), cache.NewObjectLRUDefault())
				if r, err := fresh.Reference(refName); err != nil {
					final = c16Err(err)
				} else if v := valOf(r); !strings.HasPrefix(v, "garbage") {
					final = v
				} else if r.Type() == plumbing.SymbolicReference {
					final = v // names the mangled content
				} else {
					final = "garbage"
				}
				var sig []string
				for _, e := range all {
					sig = append(sig, fmt.Sprintf("%s=%s", e.op, e.result))
				}
				sigs := strings.Join(sig, " ") + " final=" + final
				if j.h.by {
					// bystanders: b was loose, c packed-only, both h0; they may have been packed, never changed
					for _, bn := range []string{"b", "c"} {
						got := c16Listed(fresh, plumbing.ReferenceName("refs/heads/"+bn), valOf)
						if r, err := fresh.Reference(plumbing.ReferenceName("refs/heads/" + bn)); err != nil {
							got += "/" + c16Err(err)
						} else {
							got += "/" + valOf(r)
						}
						sigs += " " + bn + "=" + got
					}
				}
				outcomes[sigs] = true
				// specific anomalies first (they name the cause)
				for _, e := range all {
					if e.op.isRead() && ((e.result == "not-found" && initVal != "absent") || strings.HasPrefix(e.result, "error") || strings.HasPrefix(e.result, "garbage")) {
						return fmt.Sprintf("reader observed %s (history: %s)", c16Kind(e.result), sigs)
					}
					if !e.op.isRead() && strings.HasPrefix(e.result, "error") {
						return fmt.Sprintf("%s failed with %s (history: %s)", e.op, e.result, sigs)
					}
				}
				if strings.HasPrefix(final, "garbage") || strings.HasPrefix(final, "error") {
					return "the reference is left unreadable or mangled (history: " + sigs + ")"
				}
				if j.h.by && !strings.HasSuffix(sigs, " b=h0/h0 c=h0/h0") {
					return "a bystander reference was lost or changed (history: " + sigs + ")"
				}
				if !c16Linearizable(initVal, all, "") {
					// cause 0 (reference initially absent, where not-found is a legal first answer): a read
					// answered not-found after the reference had been created
					if initVal == "absent" {
						var rest []c16Event
						dropped := 0
						for _, e := range all {
							if e.op.isRead() && e.result == "not-found" {
								dropped++
								continue
							}
							rest = append(rest, e)
						}
						if dropped > 0 && c16Linearizable(initVal, rest, "") {
							return "reader observed not-found (history: " + sigs + ")"
						}
					}
					// cause 1: a read returned the value packed-refs held at the start although it was superseded
					stale := map[string]string{"packed-only": "h1", "both(stale packed)": "h0"}[j.init]
					if stale != "" {
						var rest []c16Event
						dropped := 0
						for _, e := range all {
							if e.op.isRead() && e.result == stale {
								dropped++
								continue
							}
							rest = append(rest, e)
						}
						if dropped > 0 && c16Linearizable(initVal, rest, "") {
							return "reader observed the stale packed value (history: " + sigs + ")"
						}
					}
					// cause 2: PackRefs raced with an update and resurrected the old value for a reader
					hasPack := false
					for _, e := range all {
						hasPack = hasPack || e.op.kind == "pack"
					}
					if hasPack {
						var rest []c16Event
						for _, e := range all {
							if !e.op.isRead() {
								rest = append(rest, e)
							}
						}
						if c16Linearizable(initVal, rest, "") && !c16Linearizable(initVal, rest, final) {
							return "update lost under concurrent PackRefs (history: " + sigs + ")"
						}
					}
					return "history not linearizable as a CAS register: " + sigs
				}
				if !c16Linearizable(initVal, all, final) {
					hasPack := false
					for _, e := range all {
						hasPack = hasPack || e.op.kind == "pack"
					}
					if hasPack {
						return "update lost under concurrent PackRefs (history: " + sigs + ")"
					}
					return "a successful update is lost or resurrected in the final state: " + sigs
				}
				return ""
			}
		}
		cfg := vsched.Config{MaxPreemptions: maxPre, Deadline: deadline}
		st := vsched.Explore(cfg, body, func(f vsched.Failure) bool {
			kind := f.What
			if i := strings.Index(kind, " (history:"); i > 0 {
				kind = kind[:i]
			}
			c.Fail(hname+" :: "+kind, hname+": "+f.What, map[string]any{"harness": hname, "choices": f.Choices, "log": f.Log})
			if p := os.Getenv("VERIF_C16_KEYS"); p != "" {
				// debugging aid: every key with one history, beyond the 25 the framework prints
				if fh, err := os.OpenFile(p, os.O_APPEND|os.O_CREATE|os.O_WRONLY, 0o644); err == nil {
					fmt.Fprintf(fh, "%s\t%s\n", hname+" :: "+kind, f.What)
					fh.Close()
				}
			}
			return true // collect every anomaly kind of this harness
		}, func(msg string) { c.EngineError("%s: %s", hname, msg) })
		totalExec.Add(int64(st.Executions))
		totalPoints.Add(int64(st.Points))
		if !st.Complete {
			c.Incomplete("deadline inside " + hname)
		}
		c.Evals(st.Executions)
		for o := range outcomes {
			c.Class(hname + o)
		}
		c.Sample(map[string]any{"harness": hname, "schedules": st.Executions, "distinct_outcomes": len(outcomes), "max_points": st.MaxPoints})
	})
	c.States(int(totalExec.Load()))
	c.Transitions(int(totalPoints.Load()))
	c.Extra("schedules", totalExec.Load())
}

// c16Listed reads one reference through the listing entry point.
func c16Listed(st *filesystem.Storage, name plumbing.ReferenceName, valOf func(*plumbing.Reference) string) string {
	it, err := st.IterReferences()
	if err != nil {
		return c16Err(err)
	}
	defer it.Close()
	res := "not-found"
	err = it.ForEach(func(r *plumbing.Reference) error {
		if r.Name() == name {
			if res != "not-found" {
				res = "garbage:listed twice"
			} else {
				res = valOf(r)
			}
		}
		return nil
	})
	if err != nil {
		return c16Err(err)
	}
	return res
}

// c16Kind keeps finding keys independent of the bytes of a mangled value.
func c16Kind(result string) string {
	if strings.HasPrefix(result, "garbage") {
		return "garbage"
	}
	return result
}

func c16Err(err error) string {
	k := errKind(err)
	if strings.HasPrefix(k, "error(") {
		return "error:" + k[6:len(k)-1]
	}
	return k
}

package checks

import (
	"fmt"
	"sort"
	"strings"
	"sync/atomic"
	"time"

	"github.com/go-git/go-git/v6/plumbing"
	"github.com/go-git/go-git/v6/plumbing/cache"
	"github.com/go-git/go-git/v6/storage/filesystem"
	"github.com/go-git/go-git/v6/x/verif/vsched"

	"verifmc/fw"
	"verifmc/mcfs"
)

func init() {
	fw.Register(&fw.Check{ID: "C16", Level: "model_checking", Run: runC16, QuickBudget: 90, ThoroughBudget: 1200})
}

// schedHook makes every mcfs operation a scheduling point of the calling controlled thread.
func schedHook(op *mcfs.Op) error {
	vsched.PointWhen(op.String(), op.Enabled)
	return nil
}

type c16Op struct {
	kind     string // cas set read pack
	old, new string // value names: h1 h2 h3
}

func (o c16Op) String() string {
	switch o.kind {
	case "cas":
		return fmt.Sprintf("CAS(%s->%s)", o.old, o.new)
	case "set":
		return fmt.Sprintf("Set(%s)", o.new)
	case "read":
		return "Read"
	}
	return "PackRefs"
}

type c16Event struct {
	thread     int
	op         c16Op
	call, ret  int64
	result     string // for read: value name / "not-found" / "error:..."; for cas/set/pack: ok / changed / error:...
}

// linearizable decides by brute force whether the events have a linearization
// consistent with real-time order under a CAS-register specification.
func c16Linearizable(init string, evs []c16Event, final string) bool {
	n := len(evs)
	used := make([]bool, n)
	var rec func(done int, val string) bool
	rec = func(done int, val string) bool {
		if done == n {
			return final == "" || final == val
		}
		for i := 0; i < n; i++ {
			if used[i] {
				continue
			}
			// real-time order: i may go next only if no unused j returned before i was called
			ok := true
			for j := 0; j < n; j++ {
				if j != i && !used[j] && evs[j].ret < evs[i].call {
					ok = false
					break
				}
			}
			if !ok {
				continue
			}
			e := evs[i]
			nv := val
			match := false
			switch e.op.kind {
			case "read":
				match = e.result == val
			case "set":
				match = e.result == "ok"
				nv = e.op.new
			case "pack":
				match = e.result == "ok"
			case "cas":
				if val == e.op.old {
					match = e.result == "ok"
					nv = e.op.new
				} else {
					// a failed CAS is a failed CAS whatever the error kind (the statement only constrains successful ones)
					match = e.result == "changed" || e.result == "not-found"
				}
			}
			if !match {
				continue
			}
			used[i] = true
			if rec(done+1, nv) {
				used[i] = false
				return true
			}
			used[i] = false
		}
		return false
	}
	return rec(0, init)
}

func runC16(c *fw.Ctx) {
	maxPre := c.Pick(1, 2)
	c.Bound("max_preemptions", maxPre)
	c.SetRule("separate filesystem.Storage instances (= processes: they share only the mcfs tree; flock is modelled on inodes) run 2-3 threads of 1-2 operations {CheckAndSetReference, SetReference, Reference, PackRefs} on ONE reference that is initially loose / packed-only / both; every interleaving at filesystem-operation points within the preemption bound; each complete execution's call/return history must be linearizable as a CAS register, readers must never see not-found/empty/stale, and the final value (read by a fresh instance) must be the linearization's; distinct = (harness, outcome signature)")
	c.Assume("process = storage instance sharing only the filesystem; mcfs conformance-replayed against osfs; cooperative scheduling at every filesystem call (flock, open, read, write, truncate, rename, remove, stat, readdir, close of writable/locked handles)")

	n, err := mcfs.Conformance(c.Scratch(), 2)
	c.Must(err, "mcfs/osfs conformance")
	c.TracesValidated(n)

	// initial worlds
	g, dir := c.InitRepo("c16", "", false)
	ids := g.BuildHistory([]fw.CommitSpec{
		{Time: 1700000000, Files: map[string]fw.FileSpec{"f": {Data: "1\n"}}},
		{Parents: []int{0}, Time: 1700000100, Files: map[string]fw.FileSpec{"f": {Data: "2\n"}}},
		{Parents: []int{1}, Time: 1700000200, Files: map[string]fw.FileSpec{"f": {Data: "3\n"}}},
		{Parents: []int{2}, Time: 1700000300, Files: map[string]fw.FileSpec{"f": {Data: "4\n"}}},
	}, false)
	hv := map[string]string{"h0": ids[0], "h1": ids[1], "h2": ids[2], "h3": ids[3]}
	vh := map[string]string{}
	for k, v := range hv {
		vh[v] = k
	}
	worlds := map[string]*mcfs.World{}
	mkWorld := func(name string, f func()) {
		f()
		w := mcfs.NewWorld()
		c.Must(w.Import(dir+"/.git", "/wt/.git"), "import")
		w.RemoveSetup("/wt/.git/hooks")
		worlds[name] = w
	}
	mkWorld("loose", func() { g.MustRun("update-ref", "refs/heads/a", hv["h1"]) })
	mkWorld("packed-only", func() { g.MustRun("pack-refs", "--all") })
	mkWorld("both(stale packed)", func() {
		g.MustRun("update-ref", "refs/heads/a", hv["h0"])
		g.MustRun("pack-refs", "--all")
		g.MustRun("update-ref", "refs/heads/a", hv["h1"])
	})
	inits := []string{"loose", "packed-only", "both(stale packed)"}

	cas12 := c16Op{"cas", "h1", "h2"}
	cas13 := c16Op{"cas", "h1", "h3"}
	cas23 := c16Op{"cas", "h2", "h3"}
	set2 := c16Op{"set", "", "h2"}
	read := c16Op{kind: "read"}
	pack := c16Op{kind: "pack"}
	type harness struct{ progs [][]c16Op }
	hs := []harness{
		{[][]c16Op{{cas12}, {cas13}}},
		{[][]c16Op{{cas12}, {read}}},
		{[][]c16Op{{set2}, {read}}},
		{[][]c16Op{{cas12}, {pack}}},
		{[][]c16Op{{pack}, {read}}},
		{[][]c16Op{{cas12}, {cas23}}},
		{[][]c16Op{{cas12, cas23}, {read, read}}},
		{[][]c16Op{{cas12}, {cas13}, {read}}},
		{[][]c16Op{{cas12}, {pack}, {read}}},
	}
	if c.Thorough() {
		hs = append(hs,
			harness{[][]c16Op{{set2}, {cas13}, {read}}},
			harness{[][]c16Op{{cas12, pack}, {cas13, read}}},
			harness{[][]c16Op{{pack}, {pack}, {cas12}}},
			harness{[][]c16Op{{set2}, {pack}, {read, read}}},
		)
	}
	type job struct {
		h    harness
		init string
	}
	var jobs []job
	for _, in := range inits {
		for _, h := range hs {
			jobs = append(jobs, job{h, in})
		}
	}
	c.Bound("harnesses", len(jobs))
	deadline := time.Now().Add(time.Duration(c.Pick(75, 1100)) * time.Second)
	var totalExec, totalPoints atomic.Int64
	refName := plumbing.ReferenceName("refs/heads/a")
	c.ParDo(len(jobs), 0, func(ji int) {
		j := jobs[ji]
		var names []string
		for _, p := range j.h.progs {
			var s []string
			for _, o := range p {
				s = append(s, o.String())
			}
			names = append(names, strings.Join(s, ";"))
		}
		hname := fmt.Sprintf("init=%s threads=[%s]", j.init, strings.Join(names, " | "))
		outcomes := map[string]bool{}
		body := func(x *vsched.Exec) func(*vsched.Exec) string {
			w := worlds[j.init].Clone()
			w.SetHook(schedHook)
			var clock atomic.Int64
			events := make([][]c16Event, len(j.h.progs))
			for ti, prog := range j.h.progs {
				ti, prog := ti, prog
				st := filesystem.NewStorage(w.View("/wt/.git", fmt.Sprintf("proc%d", ti)), cache.NewObjectLRUDefault())
				x.Go(fmt.Sprintf("p%d", ti), func() any {
					for _, op := range prog {
						ev := c16Event{thread: ti, op: op, call: clock.Add(1)}
						switch op.kind {
						case "cas":
							err := st.CheckAndSetReference(plumbing.NewHashReference(refName, plumbing.NewHash(hv[op.new])),
								plumbing.NewHashReference(refName, plumbing.NewHash(hv[op.old])))
							ev.result = c16Err(err)
						case "set":
							ev.result = c16Err(st.SetReference(plumbing.NewHashReference(refName, plumbing.NewHash(hv[op.new]))))
						case "pack":
							ev.result = c16Err(st.PackRefs())
						case "read":
							r, err := st.Reference(refName)
							if err != nil {
								ev.result = c16Err(err)
							} else if v, ok := vh[r.Hash().String()]; ok {
								ev.result = v
							} else {
								ev.result = "garbage:" + r.Hash().String()
							}
						}
						ev.ret = clock.Add(1)
						events[ti] = append(events[ti], ev)
					}
					return nil
				})
			}
			return func(x *vsched.Exec) string {
				for _, t := range x.Threads() {
					if t.Panic != "" {
						return "panic: " + strings.SplitN(t.Panic, "\n", 2)[0]
					}
				}
				if x.Deadlock {
					return "deadlock"
				}
				w.SetHook(nil)
				var all []c16Event
				for _, e := range events {
					all = append(all, e...)
				}
				sort.Slice(all, func(a, b int) bool { return all[a].call < all[b].call })
				final := ""
				fresh := filesystem.NewStorage(w.View("/wt/.git", "final"), cache.NewObjectLRUDefault())
				if r, err := fresh.Reference(refName); err != nil {
					final = c16Err(err)
				} else if v, ok := vh[r.Hash().String()]; ok {
					final = v
				} else {
					final = "garbage"
				}
				var sig []string
				for _, e := range all {
					sig = append(sig, fmt.Sprintf("%s=%s", e.op, e.result))
				}
				sigs := strings.Join(sig, " ") + " final=" + final
				outcomes[sigs] = true
				// specific anomalies first (they name the cause)
				for _, e := range all {
					if e.op.kind == "read" && (e.result == "not-found" || strings.HasPrefix(e.result, "error") || strings.HasPrefix(e.result, "garbage")) {
						return fmt.Sprintf("reader observed %s (history: %s)", e.result, sigs)
					}
					if e.op.kind != "read" && strings.HasPrefix(e.result, "error") {
						return fmt.Sprintf("%s failed with %s (history: %s)", e.op, e.result, sigs)
					}
				}
				if !c16Linearizable("h1", all, "") {
					// cause 1: a read returned the value packed-refs held at the start although it was superseded
					stale := map[string]string{"packed-only": "h1", "both(stale packed)": "h0"}[j.init]
					if stale != "" {
						var rest []c16Event
						dropped := 0
						for _, e := range all {
							if e.op.kind == "read" && e.result == stale {
								dropped++
								continue
							}
							rest = append(rest, e)
						}
						if dropped > 0 && c16Linearizable("h1", rest, "") {
							return "reader observed the stale packed value (history: " + sigs + ")"
						}
					}
					// cause 2: PackRefs raced with an update and resurrected the old value for a reader
					hasPack := false
					for _, e := range all {
						hasPack = hasPack || e.op.kind == "pack"
					}
					if hasPack {
						var rest []c16Event
						for _, e := range all {
							if e.op.kind != "read" {
								rest = append(rest, e)
							}
						}
						if c16Linearizable("h1", rest, "") && !c16Linearizable("h1", rest, final) {
							return "update lost under concurrent PackRefs (history: " + sigs + ")"
						}
					}
					return "history not linearizable as a CAS register: " + sigs
				}
				if !c16Linearizable("h1", all, final) {
					hasPack := false
					for _, e := range all {
						hasPack = hasPack || e.op.kind == "pack"
					}
					if hasPack {
						return "update lost under concurrent PackRefs (history: " + sigs + ")"
					}
					return "a successful update is lost or resurrected in the final state: " + sigs
				}
				return ""
			}
		}
		cfg := vsched.Config{MaxPreemptions: maxPre, Deadline: deadline}
		st := vsched.Explore(cfg, body, func(f vsched.Failure) bool {
			kind := f.What
			if i := strings.Index(kind, " (history:"); i > 0 {
				kind = kind[:i]
			}
			c.Fail(hname+" :: "+kind, hname+": "+f.What, map[string]any{"harness": hname, "choices": f.Choices, "log": f.Log})
			return true // collect every anomaly kind of this harness
		}, func(msg string) { c.EngineError("%s: %s", hname, msg) })
		totalExec.Add(int64(st.Executions))
		totalPoints.Add(int64(st.Points))
		if !st.Complete {
			c.Incomplete("deadline inside " + hname)
		}
		c.Evals(st.Executions)
		for o := range outcomes {
			c.Class(hname + o)
		}
		c.Sample(map[string]any{"harness": hname, "schedules": st.Executions, "distinct_outcomes": len(outcomes), "max_points": st.MaxPoints})
	})
	c.States(int(totalExec.Load()))
	c.Transitions(int(totalPoints.Load()))
	c.Extra("schedules", totalExec.Load())
}

func c16Err(err error) string {
	k := errKind(err)
	if strings.HasPrefix(k, "error(") {
		return "error:" + k[6:len(k)-1]
	}
	return k
}

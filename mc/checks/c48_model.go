package checks

// gitCfgModel is a transcription of git's config-file parser (config.c:
// git_parse_source, get_base_var, get_extended_base_var, get_value,
// parse_value) as of git 2.39. It is used ONLY to predict which generated
// files git accepts so that they can be batched through one `git config
// --includes` process; real git stays the judge of every accepted file and
// the prediction is replayed against real git on the complete small space on
// every run.
type gitCfgEntry struct {
	Key      string
	Value    string
	HasValue bool
}

type gitCfgParser struct {
	b   []byte
	pos int
	eof bool
}

func (p *gitCfgParser) next() int {
	if p.pos >= len(p.b) {
		p.eof = true
		return '\n'
	}
	c := int(p.b[p.pos])
	p.pos++
	if c == '\r' {
		if p.pos < len(p.b) && p.b[p.pos] == '\n' {
			p.pos++
			return '\n'
		}
		return '\r'
	}
	return c
}

func cfgIsSpace(c int) bool {
	return c == ' ' || c == '\t' || c == '\n' || c == '\r' || c == '\v' || c == '\f'
}
func cfgIsAlpha(c int) bool { return c >= 'a' && c <= 'z' || c >= 'A' && c <= 'Z' }
func cfgIsKeyChar(c int) bool {
	return cfgIsAlpha(c) || c >= '0' && c <= '9' || c == '-'
}
func cfgLower(c int) byte {
	if c >= 'A' && c <= 'Z' {
		return byte(c + 32)
	}
	return byte(c)
}

func gitCfgModel(data []byte) (entries []gitCfgEntry, ok bool) {
	p := &gitCfgParser{b: data}
	if len(data) >= 3 && data[0] == 0xef && data[1] == 0xbb && data[2] == 0xbf {
		p.pos = 3
	}
	var stem []byte
	comment := false
	for {
		c := p.next()
		if c == '\n' {
			if p.eof {
				return entries, true
			}
			comment = false
			continue
		}
		if comment {
			continue
		}
		if cfgIsSpace(c) {
			continue
		}
		if c == '#' || c == ';' {
			comment = true
			continue
		}
		if c == '[' {
			stem = stem[:0]
			var good bool
			stem, good = p.baseVar(stem)
			if !good || len(stem) < 1 {
				return nil, false
			}
			stem = append(stem, '.')
			continue
		}
		if !cfgIsAlpha(c) {
			return nil, false
		}
		name := append(append([]byte{}, stem...), cfgLower(c))
		// get_value
		for {
			c = p.next()
			if p.eof {
				break
			}
			if !cfgIsKeyChar(c) {
				break
			}
			name = append(name, cfgLower(c))
		}
		for c == ' ' || c == '\t' {
			c = p.next()
		}
		e := gitCfgEntry{Key: string(name)}
		if c != '\n' {
			if c != '=' {
				return nil, false
			}
			v, good := p.value()
			if !good {
				return nil, false
			}
			e.Value, e.HasValue = v, true
		}
		entries = append(entries, e)
	}
}

func (p *gitCfgParser) baseVar(name []byte) ([]byte, bool) {
	for {
		c := p.next()
		if p.eof {
			return name, false
		}
		if c == ']' {
			return name, true
		}
		if cfgIsSpace(c) {
			return p.extendedBaseVar(name, c)
		}
		if !cfgIsKeyChar(c) && c != '.' {
			return name, false
		}
		name = append(name, cfgLower(c))
	}
}

func (p *gitCfgParser) extendedBaseVar(name []byte, c int) ([]byte, bool) {
	for {
		if c == '\n' {
			return name, false
		}
		c = p.next()
		if !cfgIsSpace(c) {
			break
		}
	}
	if c != '"' {
		return name, false
	}
	name = append(name, '.')
	for {
		c := p.next()
		if c == '\n' {
			return name, false
		}
		if c == '"' {
			break
		}
		if c == '\\' {
			c = p.next()
			if c == '\n' {
				return name, false
			}
		}
		name = append(name, byte(c))
	}
	if p.next() != ']' {
		return name, false
	}
	return name, true
}

func (p *gitCfgParser) value() (string, bool) {
	quote, comment, space := false, false, 0
	var v []byte
	for {
		c := p.next()
		if c == '\n' {
			if quote {
				return "", false
			}
			return string(v), true
		}
		if comment {
			continue
		}
		if cfgIsSpace(c) && !quote {
			if len(v) > 0 {
				space++
			}
			continue
		}
		if !quote && (c == ';' || c == '#') {
			comment = true
			continue
		}
		for ; space > 0; space-- {
			v = append(v, ' ')
		}
		if c == '\\' {
			c = p.next()
			switch c {
			case '\n':
				continue
			case 't':
				c = '\t'
			case 'b':
				c = '\b'
			case 'n':
				c = '\n'
			case '\\', '"':
			default:
				return "", false
			}
			v = append(v, byte(c))
			continue
		}
		if c == '"' {
			quote = !quote
			continue
		}
		v = append(v, byte(c))
	}
}

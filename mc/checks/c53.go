package checks

// C53: decoders of untrusted input never panic, hang or over-allocate on
// completely enumerated neighbourhoods. Cases run in worker subprocesses (the
// same binary, selected by an environment variable) so that fatal runtime
// errors, real hangs and memory blow-ups are contained and attributed.

import (
	"bufio"
	"bytes"
	"compress/zlib"
	"crypto/sha1"
	"encoding/binary"
	"encoding/json"
	"fmt"
	"io"
	"os"
	"os/exec"
	"path/filepath"
	"runtime"
	"runtime/debug"
	"runtime/metrics"
	"sort"
	"strconv"
	"strings"
	"sync"
	"sync/atomic"
	"syscall"
	"time"

	"verifmc/fw"
)

func init() {
	if os.Getenv("VERIF_D_WORKER") == "c53" {
		c53WorkerMain()
		os.Exit(0)
	}
	fw.Register(&fw.Check{ID: "C53", Level: "exploration", Run: runC53, QuickBudget: 240, ThoroughBudget: 1400})
}

// ------------------------------------------------------------ case space

type c53Seg struct {
	kind string // full2 | tpl<j> | seed<j>/trunc | seed<j>/subst | seed<j>/win
	n    int
	gen  func(i int) []byte
}

type c53Space struct {
	d     *c53Decoder
	segs  []c53Seg
	total int
}

var c53SubstVals = []int{0x00, 0x01, 0x7f, 0x80, 0xff, -1, -2} // -1: b+1, -2: b-1
var c53WinVals = []uint32{0, 1<<31 - 1, 1 << 31, 1<<32 - 1}

func c53BuildSpace(d *c53Decoder, seedDir string, strLen int) (*c53Space, error) {
	sp := &c53Space{d: d}
	sp.segs = append(sp.segs, c53Seg{"full2", 1 + 256 + 65536, func(i int) []byte {
		switch {
		case i == 0:
			return []byte{}
		case i <= 256:
			return []byte{byte(i - 1)}
		}
		i -= 257
		return []byte{byte(i >> 8), byte(i)}
	}})
	for j, t := range d.tpls {
		t := t
		sp.segs = append(sp.segs, c53Seg{fmt.Sprintf("tpl%d", j), fw.CountStrings(len(d.alpha), strLen), func(i int) []byte {
			return t.make(fw.StringAt(d.alpha, i))
		}})
	}
	var seeds [][]byte
	for _, s := range d.seeds {
		seeds = append(seeds, []byte(s))
	}
	for _, f := range d.files {
		b, err := os.ReadFile(filepath.Join(seedDir, f))
		if err != nil {
			return nil, fmt.Errorf("seed %s: %w", f, err)
		}
		if len(b) > 4096 {
			return nil, fmt.Errorf("seed %s is %d bytes (> 4096)", f, len(b))
		}
		seeds = append(seeds, b)
	}
	for j, s := range seeds {
		s := s
		n := len(s)
		sp.segs = append(sp.segs, c53Seg{fmt.Sprintf("seed%d/trunc", j), n + 1, func(i int) []byte { return append([]byte{}, s[:i]...) }})
		sp.segs = append(sp.segs, c53Seg{fmt.Sprintf("seed%d/subst", j), n * len(c53SubstVals), func(i int) []byte {
			b := append([]byte{}, s...)
			pos, v := i/len(c53SubstVals), c53SubstVals[i%len(c53SubstVals)]
			switch v {
			case -1:
				b[pos]++
			case -2:
				b[pos]--
			default:
				b[pos] = byte(v)
			}
			return b
		}})
		if strings.HasPrefix(d.name, "packp/") || strings.HasPrefix(d.name, "sideband/") || strings.HasPrefix(d.name, "pktline/") {
			// re-framed truncation: the payload of one pkt-line is cut short and
			// its length header recomputed (the stream stays well framed)
			if lines, ok := c53SplitPkt(s); ok {
				type cut struct{ line, keep int }
				var cuts []cut
				for li, l := range lines {
					for k := 0; k < len(l)-4; k++ {
						cuts = append(cuts, cut{li, k})
					}
				}
				sp.segs = append(sp.segs, c53Seg{fmt.Sprintf("seed%d/pkttrunc", j), len(cuts), func(i int) []byte {
					var b []byte
					for li, l := range lines {
						if li == cuts[i].line && len(l) > 4 {
							b = append(b, fmt.Sprintf("%04x", cuts[i].keep+4)...)
							b = append(b, l[4:4+cuts[i].keep]...)
						} else {
							b = append(b, l...)
						}
					}
					return b
				}})
			}
		}
		if n >= 4 {
			sp.segs = append(sp.segs, c53Seg{fmt.Sprintf("seed%d/win", j), (n - 3) * len(c53WinVals), func(i int) []byte {
				b := append([]byte{}, s...)
				binary.BigEndian.PutUint32(b[i/len(c53WinVals):], c53WinVals[i%len(c53WinVals)])
				return b
			}})
		}
	}
	for _, sg := range sp.segs {
		sp.total += sg.n
	}
	return sp, nil
}

// c53SplitPkt splits a well-framed pkt-line stream into its packets
// (special packets are 4 bytes); ok is false when the seed is not well framed.
func c53SplitPkt(s []byte) ([][]byte, bool) {
	var out [][]byte
	for off := 0; off < len(s); {
		if off+4 > len(s) {
			return nil, false
		}
		n, err := strconv.ParseUint(string(s[off:off+4]), 16, 32)
		if err != nil {
			return nil, false
		}
		l := int(n)
		if l < 4 {
			l = 4
		}
		if off+l > len(s) {
			return nil, false
		}
		out = append(out, s[off:off+l])
		off += l
	}
	return out, len(out) > 0
}

func (sp *c53Space) at(i int) (string, []byte) {
	for _, sg := range sp.segs {
		if i < sg.n {
			return sg.kind, sg.gen(i)
		}
		i -= sg.n
	}
	return "", nil
}

// ------------------------------------------------------------ one case

type c53Fail struct {
	Idx  int    `json:"idx"`
	Kind string `json:"kind"` // panic | steps | alloc | fatal | hang
	Site string `json:"site"`
	Msg  string `json:"msg"`
	N    int    `json:"n,omitempty"`
}

const c53GoGit = "github.com/go-git/go-git/v6/"

func c53Site() string {
	pcs := make([]uintptr, 64)
	n := runtime.Callers(3, pcs)
	frames := runtime.CallersFrames(pcs[:n])
	top := ""
	for {
		f, more := frames.Next()
		fn := f.Function
		if !strings.HasPrefix(fn, "runtime.") && fn != "" && top == "" && !strings.HasPrefix(fn, "verifmc/") {
			top = fn
		}
		if strings.HasPrefix(fn, c53GoGit) && !strings.Contains(fn, "/x/verif/") {
			site := strings.TrimPrefix(fn, c53GoGit)
			if top != "" && top != fn {
				site += " via " + strings.TrimPrefix(top, c53GoGit)
			}
			return site
		}
		if !more {
			break
		}
	}
	if top != "" {
		return top
	}
	return "unknown"
}

func c53MsgClass(r any) string {
	s := fmt.Sprint(r)
	var b strings.Builder
	lastN := false
	for i := 0; i < len(s) && b.Len() < 64; i++ {
		ch := s[i]
		if ch >= '0' && ch <= '9' {
			if !lastN {
				b.WriteByte('N')
			}
			lastN = true
			continue
		}
		lastN = false
		if ch < 0x20 || ch >= 0x7f {
			ch = '?'
		}
		b.WriteByte(ch)
	}
	return b.String()
}

func c53Steps(n int) int { return 4096 + 64*n }

// c53RunCase runs the decoder once with panic recovery and a step budget.
func c53RunCase(d *c53Decoder, data []byte) (outcome string, fail *c53Fail) {
	lim := &c53Lim{budget: c53Steps(len(data))}
	defer func() {
		if r := recover(); r != nil {
			if b, ok := r.(c53Budget); ok {
				_ = b
				// the budget depends on the input length: keep it out of the message, which is part of the key
				fail = &c53Fail{Kind: "steps", Site: c53Site(), Msg: "more than 4096 + 64 x input-bytes read steps"}
				outcome = "steps"
				return
			}
			fail = &c53Fail{Kind: "panic", Site: c53Site(), Msg: c53MsgClass(r)}
			outcome = "panic"
		}
	}()
	return c53Outcome(d.run(data, lim)), nil
}

const c53AllocBase = 64 << 20

func c53AllocBudget(n int) uint64 { return c53AllocBase + 64*uint64(n) }

// c53TotalAlloc returns the cumulative bytes allocated by this process
// (runtime/metrics: no stop-the-world, unlike runtime.ReadMemStats, which
// costs milliseconds per call on a loaded machine).
func c53TotalAlloc() uint64 {
	s := []metrics.Sample{{Name: "/gc/heap/allocs:bytes"}}
	metrics.Read(s)
	if s[0].Value.Kind() != metrics.KindUint64 {
		return 0
	}
	return s[0].Value.Uint64()
}

// ------------------------------------------------------------ worker

type c53Spec struct {
	SeedDir string `json:"seed_dir"`
	StrLen  int    `json:"str_len"`
	Decoder string `json:"decoder"`
	Lo      int    `json:"lo"`
	Hi      int    `json:"hi"`
	Single  bool   `json:"single"`
	// minimise mode
	MinIdx  int    `json:"min_idx"`
	MinKind string `json:"min_kind"`
	MinSite string `json:"min_site"`
}

type c53Result struct {
	Evals   int            `json:"evals"`
	Classes map[string]int `json:"classes"`
	Fails   []c53Fail      `json:"fails"`
	Minimal string         `json:"minimal,omitempty"` // hex, minimise mode
	Err     string         `json:"err,omitempty"`
}

func c53LoadFixed(seedDir string) {
	c53FixedIdx, _ = os.ReadFile(filepath.Join(seedDir, "pack-small.idx"))
	c53FixedRev, _ = os.ReadFile(filepath.Join(seedDir, "pack-small.rev"))
}

func c53FindDecoder(name string) *c53Decoder {
	for _, d := range c53Decoders() {
		if d.name == name {
			return d
		}
	}
	return nil
}

func c53WorkerMain() {
	defer dProf()()
	var spec c53Spec
	res := c53Result{Classes: map[string]int{}}
	out := func() {
		b, _ := json.Marshal(res)
		os.Stdout.Write(append(b, '\n'))
	}
	if err := json.Unmarshal([]byte(os.Getenv("VERIF_D_SPEC")), &spec); err != nil {
		res.Err = "bad spec: " + err.Error()
		out()
		return
	}
	// address-space cap: a multi-gigabyte allocation fails (fatal, attributed by
	// the parent) instead of exhausting the machine
	lim := syscall.Rlimit{Cur: 3 << 30, Max: 3 << 30}
	_ = syscall.Setrlimit(syscall.RLIMIT_AS, &lim)
	debug.SetMaxStack(128 << 20)
	runtime.GOMAXPROCS(1)
	c53LoadFixed(spec.SeedDir)
	d := c53FindDecoder(spec.Decoder)
	if d == nil {
		res.Err = "unknown decoder " + spec.Decoder
		out()
		return
	}
	sp, err := c53BuildSpace(d, spec.SeedDir, spec.StrLen)
	if err != nil {
		res.Err = err.Error()
		out()
		return
	}
	if spec.MinKind != "" {
		_, in := sp.at(spec.MinIdx)
		min := fw.MinString(string(in), "\x00a0 \n", func(s string) bool {
			_, f := c53RunCase(d, []byte(s))
			return f != nil && f.Kind == spec.MinKind && f.Site == spec.MinSite
		})
		res.Minimal = fw.Hex([]byte(min))
		out()
		return
	}
	perKey := map[string]int{}
	record := func(f *c53Fail, idx int) {
		f.Idx = idx
		k := f.Kind + "|" + f.Site + "|" + f.Msg
		perKey[k]++
		if perKey[k] <= 2 {
			res.Fails = append(res.Fails, *f)
		} else {
			for i := range res.Fails {
				if res.Fails[i].Kind+"|"+res.Fails[i].Site+"|"+res.Fails[i].Msg == k {
					res.Fails[i].N = perKey[k]
					break
				}
			}
		}
	}
	const batch = 64
	for lo := spec.Lo; lo < spec.Hi; lo += batch {
		hi := min(lo+batch, spec.Hi)
		if !spec.Single && (lo-spec.Lo)%1024 == 0 {
			fmt.Fprintf(os.Stderr, "P %d\n", lo)
		}
		before := c53TotalAlloc()
		for i := lo; i < hi; i++ {
			if spec.Single {
				fmt.Fprintf(os.Stderr, "P %d\n", i)
			}
			kind, data := sp.at(i)
			oc, f := c53RunCase(d, data)
			res.Evals++
			res.Classes[strings.SplitN(kind, "/", 2)[0][:2]+":"+oc]++
			if f != nil {
				record(f, i)
			}
		}
		if delta := c53TotalAlloc() - before; delta > c53AllocBase {
			// attribute: re-run the batch case by case
			for i := lo; i < hi; i++ {
				_, data := sp.at(i)
				b0 := c53TotalAlloc()
				c53RunCase(d, data)
				if used := c53TotalAlloc() - b0; used > c53AllocBudget(len(data)) {
					record(&c53Fail{Kind: "alloc", Site: "-", Msg: fmt.Sprintf("allocates more than 64 MiB + 64 x input (about %d MiB for %d input bytes)", used>>20, len(data))}, i)
				}
			}
		}
	}
	out()
}

// ------------------------------------------------------------ parent

type c53Parent struct {
	c       *fw.Ctx
	exe     string
	seedDir string
	strLen  int
	mu      sync.Mutex
	fails   map[string][]c53Fail // decoder -> fails
	classes map[string]int
	hangs   []string
	procs   atomic.Int64
}

type c53RunOut struct {
	res      *c53Result
	lastP    int
	crashed  bool
	timedOut bool
	stderr   string
	cpu      time.Duration // user+system CPU time of the worker process
}

func (p *c53Parent) spawn(spec c53Spec, idle time.Duration) c53RunOut {
	p.procs.Add(1)
	sb, _ := json.Marshal(spec)
	cmd := exec.Command(p.exe, "worker")
	cmd.Env = append(os.Environ(), "VERIF_D_WORKER=c53", "VERIF_D_SPEC="+string(sb), "GOTRACEBACK=single")
	var stdout bytes.Buffer
	cmd.Stdout = &stdout
	ep, err := cmd.StderrPipe()
	p.c.Must(err, "stderr pipe")
	p.c.Must(cmd.Start(), "start worker")
	var last atomic.Int64
	last.Store(time.Now().UnixNano())
	lastP := atomic.Int64{}
	lastP.Store(int64(spec.Lo))
	var tail []string
	done := make(chan struct{})
	go func() {
		defer close(done)
		sc := bufio.NewScanner(ep)
		sc.Buffer(make([]byte, 1<<16), 1<<20)
		for sc.Scan() {
			l := sc.Text()
			if strings.HasPrefix(l, "P ") {
				if v, err := strconv.Atoi(l[2:]); err == nil {
					lastP.Store(int64(v))
					last.Store(time.Now().UnixNano())
					continue
				}
			}
			if len(tail) < 12 {
				tail = append(tail, l)
			}
		}
	}()
	var timedOut atomic.Bool
	stop := make(chan struct{})
	go func() {
		t := time.NewTicker(time.Second)
		defer t.Stop()
		for {
			select {
			case <-stop:
				return
			case <-t.C:
				if time.Since(time.Unix(0, last.Load())) > idle {
					timedOut.Store(true)
					cmd.Process.Kill()
					return
				}
			}
		}
	}()
	<-done
	werr := cmd.Wait()
	close(stop)
	o := c53RunOut{lastP: int(lastP.Load()), stderr: strings.Join(tail, " | "), timedOut: timedOut.Load()}
	if ps := cmd.ProcessState; ps != nil {
		o.cpu = ps.UserTime() + ps.SystemTime()
	}
	var res c53Result
	if werr == nil && json.Unmarshal(bytes.TrimSpace(stdout.Bytes()), &res) == nil {
		if res.Err != "" {
			fw.Abort("C53 worker: %s", res.Err)
		}
		o.res = &res
		return o
	}
	o.crashed = true
	return o
}

func (p *c53Parent) merge(dec string, r *c53Result) {
	p.c.Evals(r.Evals)
	p.mu.Lock()
	defer p.mu.Unlock()
	for k, n := range r.Classes {
		p.classes[dec+"|"+k] += n
	}
	p.fails[dec] = append(p.fails[dec], r.Fails...)
}

// runRange runs [lo,hi) of one decoder, isolating cases that kill or stall the
// worker.
func (p *c53Parent) runRange(dec string, lo, hi int, crashes *int) {
	for lo < hi {
		if p.c.Expired() {
			p.c.Incomplete(fmt.Sprintf("internal deadline reached: %s cases %d..%d not run", dec, lo, hi))
			return
		}
		o := p.spawn(c53Spec{SeedDir: p.seedDir, StrLen: p.strLen, Decoder: dec, Lo: lo, Hi: hi}, 240*time.Second)
		if o.res != nil {
			p.merge(dec, o.res)
			return
		}
		*crashes++
		if *crashes > 12 {
			p.c.Incomplete(fmt.Sprintf("%s: worker died more than 12 times; cases %d..%d not run", dec, lo, hi))
			return
		}
		// pin the case down: single-step the block the worker was in
		blo := o.lastP
		bhi := min(blo+1024, hi)
		s := p.spawn(c53Spec{SeedDir: p.seedDir, StrLen: p.strLen, Decoder: dec, Lo: blo, Hi: bhi, Single: true}, 120*time.Second)
		if s.res != nil {
			// not reproducible case by case: the machinery, not a decoder case
			fw.Abort("C53 worker for %s died in block %d..%d (%s) but the block passes when single-stepped", dec, blo, bhi, o.stderr)
		}
		bad := s.lastP
		if blo > lo {
			p.runRange(dec, lo, blo, crashes)
		}
		if bad > blo {
			p.runRange(dec, blo, bad, crashes)
		}
		if s.timedOut && s.cpu >= 90*time.Second {
			// not a starved machine: the single-stepped worker burnt more than 90 s of
			// CPU on this one case (every other case of the block takes microseconds)
			p.mu.Lock()
			p.fails[dec] = append(p.fails[dec], c53Fail{Idx: bad, Kind: "hang", Site: "-", Msg: "one input kept the decoder computing for more than 90 CPU-seconds without a result"})
			p.mu.Unlock()
		} else if s.timedOut {
			p.mu.Lock()
			p.hangs = append(p.hangs, fmt.Sprintf("%s case %d", dec, bad))
			p.mu.Unlock()
			p.c.Incomplete(fmt.Sprintf("inconclusive: %s case %d did not finish within 120 s (wall-clock watchdog)", dec, bad))
		} else {
			msg := "worker died"
			for _, l := range strings.Split(s.stderr, " | ") {
				if strings.HasPrefix(l, "fatal error:") || strings.HasPrefix(l, "runtime:") || strings.HasPrefix(l, "panic:") || strings.HasPrefix(l, "signal:") {
					msg = c53MsgClass(l)
					break
				}
			}
			p.mu.Lock()
			p.fails[dec] = append(p.fails[dec], c53Fail{Idx: bad, Kind: "fatal", Site: "-", Msg: msg})
			p.mu.Unlock()
		}
		lo = bad + 1
	}
}

func runC53(c *fw.Ctx) {
	exe, err := os.Executable()
	c.Must(err, "os.Executable")
	strLen := c.Pick(4, 5)
	seedDir := c.TempDir("c53seeds")
	if d := os.Getenv("VERIF_D_SEEDDIR"); d != "" { // development aid: keep the seeds
		seedDir = d
	}
	c53MakeSeeds(c, seedDir)
	c53LoadFixed(seedDir)
	decs := c53Decoders()
	c.Bound("decoders", len(decs))
	c.Bound("full_alphabet_max_len", 2)
	c.Bound("reduced_alphabet_max_len", strLen)
	c.Bound("seed_mutations", "every truncation; for pkt-line streams every payload truncation of every packet with the length header recomputed; every single-byte substitution by 00,01,7f,80,ff,b+1,b-1; every 4-byte window set to 0, 2^31-1, 2^31, 2^32-1 (big-endian)")
	c.Bound("step_budget", "4096 + 64 x input bytes Read/ReadAt/Seek calls")
	c.Bound("alloc_budget", "64 MiB + 64 x input bytes (runtime/metrics /gc/heap/allocs:bytes delta in a single-threaded worker process, RLIMIT_AS 3 GiB)")
	c.SetRule("for every decoder: all byte strings of length <= 2, all strings up to the reduced-alphabet bound embedded in each of the decoder's templates (pkt-line framed where the decoder reads pkt-lines), and every truncation / substitution / window overwrite of every seed (git-made and go-git-made valid artefacts plus the repository's fuzz seeds); each case runs once in a worker subprocess with recover, a read-step budget and an allocation budget; a class is (decoder, neighbourhood kind, normalised error text or ok) and is non-trivial because it identifies a distinct decoder path that was reached")
	c.Assume("wall-clock is used only as a watchdog (120 s without progress): a stalled case is a violation (kind hang) only when the single-stepped worker also consumed more than 90 s of CPU time on it, otherwise it is 'inconclusive'")

	p := &c53Parent{c: c, exe: exe, seedDir: seedDir, strLen: strLen, fails: map[string][]c53Fail{}, classes: map[string]int{}}
	type shard struct {
		dec    string
		lo, hi int
	}
	var shards []shard
	spaces := map[string]*c53Space{}
	sizes := map[string]int{}
	for _, d := range decs {
		if only := os.Getenv("VERIF_D_ONLY"); only != "" && !strings.Contains(d.name, only) { // development aid
			c.Incomplete("VERIF_D_ONLY set: decoder " + d.name + " skipped")
			continue
		}
		sp, err := c53BuildSpace(d, seedDir, strLen)
		c.Must(err, "case space of "+d.name)
		spaces[d.name] = sp
		sizes[d.name] = sp.total
		const per = 24576
		for lo := 0; lo < sp.total; lo += per {
			shards = append(shards, shard{d.name, lo, min(lo+per, sp.total)})
		}
	}
	c.Bound("cases_per_decoder", sizes)
	// interleave decoders so that a deadline cuts all of them evenly
	sort.SliceStable(shards, func(i, j int) bool { return shards[i].lo < shards[j].lo })
	c.ParDo(len(shards), 0, func(i int) {
		sh := shards[i]
		crashes := 0
		p.runRange(sh.dec, sh.lo, sh.hi, &crashes)
	})
	c.Extra("worker_processes", p.procs.Load())
	if len(p.hangs) > 0 {
		sort.Strings(p.hangs)
		c.Extra("inconclusive_watchdog", p.hangs)
	}
	var cls []string
	for k := range p.classes {
		cls = append(cls, k)
	}
	sort.Strings(cls)
	perDec := map[string]int{}
	for _, k := range cls {
		c.Class(k)
		perDec[strings.SplitN(k, "|", 2)[0]]++
	}
	c.Extra("classes_per_decoder", perDec)
	for i, k := range cls {
		if i%37 == 0 {
			c.Sample(map[string]any{"class": k, "cases": p.classes[k]})
		}
	}

	// report: one key per (decoder, kind, site, message class); smallest case minimised
	var names []string
	for n := range p.fails {
		names = append(names, n)
	}
	sort.Strings(names)
	for _, dec := range names {
		groups := map[string]*c53Fail{}
		counts := map[string]int{}
		for i := range p.fails[dec] {
			f := p.fails[dec][i]
			k := f.Kind + " at " + f.Site + ": " + f.Msg
			if f.Kind == "alloc" {
				k = "alloc: allocation out of proportion to the input"
			}
			counts[k] += max(f.N, 1)
			if g, ok := groups[k]; !ok || f.Idx < g.Idx {
				groups[k] = &f
			}
		}
		var ks []string
		for k := range groups {
			ks = append(ks, k)
		}
		sort.Strings(ks)
		for _, k := range ks {
			f := groups[k]
			segKind, in := spaces[dec].at(f.Idx)
			minimal := in
			if f.Kind == "panic" || f.Kind == "steps" {
				o := p.spawn(c53Spec{SeedDir: seedDir, StrLen: strLen, Decoder: dec, MinIdx: f.Idx, MinKind: f.Kind, MinSite: f.Site}, 120*time.Second)
				if o.res != nil && o.res.Minimal != "" {
					var mb []byte
					fmt.Sscanf(o.res.Minimal, "%x", &mb)
					if len(mb) > 0 || o.res.Minimal == "" {
						minimal = mb
					}
				}
			}
			c.Fail(dec+": "+k, fmt.Sprintf("decoder %s: %s on input %s (%d case(s); smallest is case %d in %s: %s; %s)", dec, f.Kind, dShort(minimal), counts[k], f.Idx, segKind, dShort(in), f.Msg),
				map[string]any{"decoder": dec, "case_index": f.Idx, "neighbourhood": segKind, "input_hex": fw.Hex(in), "minimal_input_hex": fw.Hex(minimal), "kind": f.Kind, "site": f.Site, "message": f.Msg})
		}
	}
}

// ------------------------------------------------------------ seeds

func c53Zlib(payload []byte) []byte {
	var buf bytes.Buffer
	w := zlib.NewWriter(&buf)
	w.Write(payload)
	w.Close()
	return buf.Bytes()
}

func c53MakeSeeds(c *fw.Ctx, dir string) {
	put := func(name string, b []byte) { c.Must(os.WriteFile(filepath.Join(dir, name), b, 0o644), "write seed") }
	// loose objects (zlib streams)
	put("loose-blob.z", c53Zlib([]byte("blob 5\x00hello")))
	put("loose-commit.z", c53Zlib([]byte("commit 0\x00")))
	put("loose-tree.z", c53Zlib([]byte("tree 0\x00")))
	put("loose-bigheader.z", c53Zlib(bytes.Repeat([]byte{'b'}, 1024)))
	put("loose-hugesize.z", c53Zlib([]byte("blob 99999999999999\x00x")))

	g, repo := c.InitRepo("c53repo", "sha1", false)
	body := strings.Repeat("line of text that repeats to make deltas worthwhile\n", 6)
	specs := []fw.CommitSpec{
		{Time: 1700000000, Files: map[string]fw.FileSpec{"a": {Data: body}, "d/b": {Data: "b\n"}}, Msg: "one\n"},
		{Parents: []int{0}, Time: 1700000100, Files: map[string]fw.FileSpec{"a": {Data: body + "more\n"}, "d/b": {Data: "b\n"}, "x": {Mode: "100755", Data: "#!/bin/sh\n"}}, Msg: "two\n\nbody\n"},
		{Parents: []int{0}, Time: 1700000200, Files: map[string]fw.FileSpec{"a": {Data: body}, "l": {Mode: "120000", Data: "a"}}, Msg: "three\n"},
		{Parents: []int{1, 2}, Time: 1700000300, Files: map[string]fw.FileSpec{"a": {Data: body + "more\n"}, "d/b": {Data: "b2\n"}}, Msg: "merge\n"},
		{Parents: []int{3, 1, 2}, Time: 1700000400, Files: map[string]fw.FileSpec{"a": {Data: "z\n"}}, Msg: "octopus\n"},
	}
	ids := g.BuildHistory(specs, true)
	g.MustRun("update-ref", "refs/heads/main", ids[3])
	g.MustRun("tag", "-a", "-m", "tag message", "v1", ids[1])
	raw := func(typ, id string) []byte { return g.MustRun("cat-file", typ, id).Out }
	put("commit.obj", raw("commit", ids[0]))
	put("commit-merge.obj", raw("commit", ids[3]))
	put("tree.obj", raw("tree", ids[1]+"^{tree}"))
	put("tag.obj", raw("tag", "v1"))

	packOf := func(name string, revs string, args ...string) string {
		a := append([]string{"pack-objects", "--revs", "-q"}, args...)
		a = append(a, filepath.Join(dir, "tmp-"+name))
		h := strings.TrimSpace(string(g.MustRunIn([]byte(revs), a...).Out))
		base := filepath.Join(dir, "tmp-"+name+"-"+h)
		b, err := os.ReadFile(base + ".pack")
		c.Must(err, "read pack")
		put(name+".pack", b)
		return base
	}
	small := packOf("pack-small", ids[0]+"\n")
	packOf("pack-delta", ids[1]+"\n", "--delta-base-offset", "--window=10", "--depth=10")
	packOf("pack-refdelta", ids[1]+"\n", "--window=10", "--depth=10")
	_ = small
	gi := g.In(dir)
	gi.MustRun("index-pack", "--rev-index", "-o", filepath.Join(dir, "pack-small.idx"), filepath.Join(dir, "pack-small.pack"))
	gi.MustRun("index-pack", "-o", filepath.Join(dir, "pack-delta.idx"), filepath.Join(dir, "pack-delta.pack"))
	gi.MustRun("index-pack", "--index-version=1", "-o", filepath.Join(dir, "idx-v1.idx"), filepath.Join(dir, "pack-delta.pack"))
	gi.MustRun("index-pack", "--index-version=2,0", "-o", filepath.Join(dir, "idx-off64.idx"), filepath.Join(dir, "pack-delta.pack"))
	if _, err := os.Stat(filepath.Join(dir, "pack-small.rev")); err != nil {
		fw.Abort("git index-pack --rev-index wrote no .rev file")
	}
	gi.MustRun("index-pack", "-o", filepath.Join(dir, "pack-refdelta.idx"), filepath.Join(dir, "pack-refdelta.pack"))
	// idx + pack bundles for the random-access reader (packfile.Packfile)
	bundle := func(name, idxName, packName string) {
		ib, err := os.ReadFile(filepath.Join(dir, idxName))
		c.Must(err, "read idx")
		pb, err := os.ReadFile(filepath.Join(dir, packName))
		c.Must(err, "read pack")
		put(name, c53Bundle(ib, pb))
	}
	bundle("bundle-small.bin", "pack-small.idx", "pack-small.pack")
	bundle("bundle-delta.bin", "pack-delta.idx", "pack-delta.pack")
	bundle("bundle-refdelta.bin", "pack-refdelta.idx", "pack-refdelta.pack")
	// hand-made delta graphs that no well-behaved writer produces: a REF_DELTA
	// whose base is itself, two REF_DELTAs that name each other, an OFS_DELTA
	// with distance 0
	{
		delta := c53Zlib([]byte{1, 1, 1, 'a'})
		type ent struct {
			id   [20]byte
			body []byte
		}
		mkPack := func(ents []ent) ([]byte, []uint32) {
			var p bytes.Buffer
			p.WriteString("PACK")
			binary.Write(&p, binary.BigEndian, uint32(2))
			binary.Write(&p, binary.BigEndian, uint32(len(ents)))
			var offs []uint32
			for _, e := range ents {
				offs = append(offs, uint32(p.Len()))
				p.Write(e.body)
			}
			s := sha1.Sum(p.Bytes())
			p.Write(s[:])
			return p.Bytes(), offs
		}
		mkIdx := func(ents []ent, offs []uint32, pack []byte) []byte {
			var x bytes.Buffer
			x.Write([]byte{0xff, 't', 'O', 'c', 0, 0, 0, 2})
			for i := 0; i < 256; i++ {
				n := uint32(0)
				for _, e := range ents {
					if int(e.id[0]) <= i {
						n++
					}
				}
				binary.Write(&x, binary.BigEndian, n)
			}
			for _, e := range ents { // ids are given in ascending order
				x.Write(e.id[:])
			}
			for range ents {
				binary.Write(&x, binary.BigEndian, uint32(0))
			}
			for _, o := range offs {
				binary.Write(&x, binary.BigEndian, o)
			}
			x.Write(pack[len(pack)-20:])
			s := sha1.Sum(x.Bytes())
			x.Write(s[:])
			return x.Bytes()
		}
		id := func(b byte) (h [20]byte) {
			for i := range h {
				h[i] = b
			}
			return
		}
		refDelta := func(base [20]byte) []byte {
			return append(append([]byte{7<<4 | 4}, base[:]...), delta...)
		}
		a, b := id(0x11), id(0x22)
		self := []ent{{a, refDelta(a)}}
		pk, offs := mkPack(self)
		put("bundle-selfref.bin", c53Bundle(mkIdx(self, offs, pk), pk))
		cyc := []ent{{a, refDelta(b)}, {b, refDelta(a)}}
		pk, offs = mkPack(cyc)
		put("bundle-refcycle.bin", c53Bundle(mkIdx(cyc, offs, pk), pk))
		ofs0 := []ent{{a, append([]byte{6<<4 | 4, 0}, delta...)}}
		pk, offs = mkPack(ofs0)
		put("bundle-ofszero.bin", c53Bundle(mkIdx(ofs0, offs, pk), pk))
	}
	// hand-made packs (as in the repository's fuzz seeds)
	var e bytes.Buffer
	e.WriteString("PACK")
	binary.Write(&e, binary.BigEndian, uint32(2))
	binary.Write(&e, binary.BigEndian, uint32(0))
	sum := sha1.Sum(e.Bytes())
	e.Write(sum[:])
	put("pack-empty.pack", e.Bytes())
	var o bytes.Buffer
	o.WriteString("PACK")
	binary.Write(&o, binary.BigEndian, uint32(2))
	binary.Write(&o, binary.BigEndian, uint32(1))
	o.WriteByte(0x90)
	o.Write(bytes.Repeat([]byte{0x80}, 9))
	sum = sha1.Sum(o.Bytes())
	o.Write(sum[:])
	put("pack-overflow.pack", o.Bytes())
	var s bytes.Buffer
	s.WriteString("PACK")
	binary.Write(&s, binary.BigEndian, uint32(2))
	binary.Write(&s, binary.BigEndian, uint32(1))
	s.Write([]byte{6 << 4, 0x0c})
	s.Write(c53Zlib(nil))
	sum = sha1.Sum(s.Bytes())
	s.Write(sum[:])
	put("pack-ofsself.pack", s.Bytes())

	// index files: entries come from --cacheinfo / --index-info, so that all stat
	// fields are zero and the seeds are byte-identical on every run
	gw, wt := c.InitRepo("c53wt", "sha1", false)
	blob := func(s string) string { return gw.MustRunIn([]byte(s), "hash-object", "-w", "--stdin").S() }
	ba, bb, bc := blob("a\n"), blob("b\n"), blob("c\n")
	readIndex := func(name string) {
		b, err := os.ReadFile(filepath.Join(wt, ".git", "index"))
		c.Must(err, "read index")
		put(name, b)
	}
	gw.MustRun("update-index", "--add", "--cacheinfo", "100644,"+ba+",a", "--cacheinfo", "100755,"+bb+",d/b")
	gw.MustRun("update-index", "--index-version", "2")
	readIndex("index-v2")
	gw.MustRun("update-index", "--skip-worktree", "a")
	gw.MustRun("update-index", "--index-version", "3")
	readIndex("index-v3")
	gw.MustRun("update-index", "--index-version", "4")
	readIndex("index-v4")
	gw.MustRun("update-index", "--no-skip-worktree", "a")
	gw.MustRun("update-index", "--index-version", "2")
	gw.MustRunIn([]byte("100644 "+ba+" 1\tc\n100644 "+bb+" 2\tc\n100644 "+bc+" 3\tc\n"), "update-index", "--index-info")
	gw.MustRun("update-index", "--cacheinfo", "100644,"+bc+",c") // resolves the conflict: REUC extension
	gw.MustRun("write-tree")                                     // TREE extension
	readIndex("index-ext")

	// commit-graphs
	g.MustRun("commit-graph", "write", "--reachable")
	b, err := os.ReadFile(filepath.Join(repo, ".git", "objects", "info", "commit-graph"))
	c.Must(err, "read commit-graph")
	put("commit-graph", b)
	g.MustRun("update-ref", "refs/heads/octo", ids[4])
	g.MustRun("commit-graph", "write", "--reachable", "--changed-paths")
	b, err = os.ReadFile(filepath.Join(repo, ".git", "objects", "info", "commit-graph"))
	c.Must(err, "read commit-graph")
	put("commit-graph-octopus", b)

	// config and reflog
	g.MustRun("remote", "add", "origin", "https://example.com/r.git")
	g.MustRun("config", "branch.main.remote", "origin")
	g.MustRun("config", "branch.main.merge", "refs/heads/main")
	g.MustRun("config", "a.b.c", "v \"q\" \\ ; #")
	b, err = os.ReadFile(filepath.Join(repo, ".git", "config"))
	c.Must(err, "read config")
	put("config", b)
	g.MustRun("update-ref", "--create-reflog", "-m", "first: message", "refs/heads/rl", ids[0])
	g.MustRun("update-ref", "-m", "second", "refs/heads/rl", ids[1])
	g.MustRun("update-ref", "refs/heads/rl", ids[3])
	b, err = os.ReadFile(filepath.Join(repo, ".git", "logs", "refs", "heads", "rl"))
	c.Must(err, "read reflog")
	put("reflog", b)

	// protocol messages produced by git
	put("advrefs-git.pkt", g.MustRun("upload-pack", "--advertise-refs", repo).Out)
	ge, empty := c.InitRepo("c53empty", "sha1", true)
	put("advrefs-empty-git.pkt", ge.MustRun("upload-pack", "--advertise-refs", empty).Out)
	g2 := g.With("GIT_PROTOCOL=version=2")
	put("capadv-git.pkt", g2.MustRun("upload-pack", "--advertise-refs", repo).Out)
	pk := func(s string) string { return fmt.Sprintf("%04x%s", len(s)+4, s) }
	req := pk("command=ls-refs\n") + pk("object-format=sha1\n") + "0001" + pk("peel\n") + pk("symrefs\n") + "0000"
	put("lsrefs-git.pkt", g2.MustRunIn([]byte(req), "upload-pack", "--stateless-rpc", repo).Out)
	for _, f := range []string{"advrefs-git.pkt", "capadv-git.pkt", "lsrefs-git.pkt", "commit-graph", "pack-small.rev"} {
		if st, err := os.Stat(filepath.Join(dir, f)); err != nil || st.Size() < 12 {
			fw.Abort("seed %s was not produced by git", f)
		}
	}
	ents, _ := os.ReadDir(dir)
	for _, en := range ents {
		if strings.HasPrefix(en.Name(), "tmp-") {
			os.Remove(filepath.Join(dir, en.Name()))
		}
	}
}

var _ = io.EOF

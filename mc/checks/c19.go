package checks

import (
	"errors"
	"fmt"
	"io"
	"sort"
	"strings"
	"time"

	"github.com/go-git/go-git/v6/config"
	"github.com/go-git/go-git/v6/plumbing"
	"github.com/go-git/go-git/v6/plumbing/cache"
	"github.com/go-git/go-git/v6/plumbing/format/index"
	"github.com/go-git/go-git/v6/plumbing/format/reflog"
	"github.com/go-git/go-git/v6/storage"
	"github.com/go-git/go-git/v6/storage/filesystem"
	"github.com/go-git/go-git/v6/storage/memory"
	"github.com/go-git/go-git/v6/storage/transactional"

	"verifmc/fw"
	"verifmc/histx"
	"verifmc/mcfs"
)

func init() {
	fw.Register(&fw.Check{ID: "C19", Level: "model_checking", Run: runC19, QuickBudget: 90, ThoroughBudget: 1200})
}

// abstract repository state used as model for C19 (and C17)
type absRepo struct {
	refs    map[string]string
	objs    map[string]bool // content names
	index   string          // marker: name of the single index entry
	shallow string
	user    string
	reflog  map[string][]string // messages
}

func (a *absRepo) clone() *absRepo {
	b := &absRepo{refs: map[string]string{}, objs: map[string]bool{}, index: a.index, shallow: a.shallow, user: a.user, reflog: map[string][]string{}}
	for k, v := range a.refs {
		b.refs[k] = v
	}
	for k, v := range a.objs {
		b.objs[k] = v
	}
	for k, v := range a.reflog {
		b.reflog[k] = append([]string{}, v...)
	}
	return b
}

var absHashes = map[string]plumbing.Hash{
	"h1": plumbing.NewHash("1111111111111111111111111111111111111111"),
	"h2": plumbing.NewHash("2222222222222222222222222222222222222222"),
	"h3": plumbing.NewHash("3333333333333333333333333333333333333333"),
}

func absHashName(h plumbing.Hash) string {
	for k, v := range absHashes {
		if v == h {
			return k
		}
	}
	return h.String()
}

func blobOf(st storage.Storer, content string) plumbing.EncodedObject {
	o := st.NewEncodedObject()
	o.SetType(plumbing.BlobObject)
	w, _ := o.Writer()
	w.Write([]byte(content))
	w.Close()
	return o
}

var absObjHash = map[string]plumbing.Hash{}

func init() {
	ms := memory.NewStorage()
	for _, n := range []string{"o1", "o2", "o3"} {
		h, _ := ms.SetEncodedObject(blobOf(ms, "object "+n+"\n"))
		absObjHash[n] = h
	}
}

// observeRepo reads everything observable from a storer into a canonical string.
func observeRepo(st storage.Storer, tag string) string {
	var out []string
	ek := func(err error) string {
		switch {
		case err == nil:
			return "ok"
		case errors.Is(err, plumbing.ErrReferenceNotFound):
			return "ref-not-found"
		case errors.Is(err, plumbing.ErrObjectNotFound):
			return "object-not-found"
		}
		return "error(" + normErr(err) + ")"
	}
	for _, n := range []string{"refs/heads/a", "refs/heads/b", "refs/heads/c", "HEAD"} {
		r, err := st.Reference(plumbing.ReferenceName(n))
		if err != nil {
			out = append(out, "ref "+n+" "+ek(err))
		} else if r.Type() == plumbing.SymbolicReference {
			out = append(out, "ref "+n+" ->"+r.Target().String())
		} else {
			out = append(out, "ref "+n+" "+absHashName(r.Hash()))
		}
	}
	if it, err := st.IterReferences(); err != nil {
		out = append(out, "iterrefs "+ek(err))
	} else {
		var ls []string
		it.ForEach(func(r *plumbing.Reference) error {
			v := absHashName(r.Hash())
			if r.Type() == plumbing.SymbolicReference {
				v = "->" + r.Target().String()
			}
			ls = append(ls, r.Name().String()+"="+v)
			return nil
		})
		sort.Strings(ls)
		out = append(out, "iterrefs "+strings.Join(ls, ","))
	}
	for _, n := range []string{"o1", "o2", "o3"} {
		h := absObjHash[n]
		herr := st.HasEncodedObject(h)
		_, serr := st.EncodedObjectSize(h)
		o, gerr := st.EncodedObject(plumbing.BlobObject, h)
		content := ""
		if gerr == nil {
			r, err := o.Reader()
			if err == nil {
				b, _ := io.ReadAll(r)
				r.Close()
				content = strings.TrimSpace(string(b))
			}
		}
		_, terr := st.EncodedObject(plumbing.TreeObject, h)
		out = append(out, fmt.Sprintf("obj %s has=%s size=%s get=%s[%s] wrongtype=%s", n, ek(herr), ek(serr), ek(gerr), content, ek(terr)))
	}
	if it, err := st.IterEncodedObjects(plumbing.BlobObject); err != nil {
		out = append(out, "iterobjs "+ek(err))
	} else {
		var ls []string
		it.ForEach(func(o plumbing.EncodedObject) error {
			for n, h := range absObjHash {
				if h == o.Hash() {
					ls = append(ls, n)
				}
			}
			return nil
		})
		sort.Strings(ls)
		out = append(out, "iterobjs "+strings.Join(ls, ","))
	}
	if idx, err := st.Index(); err != nil {
		out = append(out, "index "+ek(err))
	} else {
		var ls []string
		for _, e := range idx.Entries {
			ls = append(ls, e.Name)
		}
		out = append(out, "index "+strings.Join(ls, ","))
	}
	if sh, err := st.Shallow(); err != nil {
		out = append(out, "shallow "+ek(err))
	} else {
		var ls []string
		for _, h := range sh {
			ls = append(ls, absHashName(h))
		}
		out = append(out, "shallow "+strings.Join(ls, ","))
	}
	if cfg, err := st.Config(); err != nil {
		out = append(out, "config "+ek(err))
	} else {
		out = append(out, "config user="+cfg.User.Name)
	}
	if rl, ok := st.(interface {
		Reflog(plumbing.ReferenceName) ([]*reflog.Entry, error)
	}); ok {
		for _, n := range []string{"refs/heads/a"} {
			es, err := rl.Reflog(plumbing.ReferenceName(n))
			if err != nil {
				out = append(out, "reflog "+n+" "+ek(err))
			} else {
				var ls []string
				for _, e := range es {
					ls = append(ls, e.Message)
				}
				out = append(out, "reflog "+n+" "+strings.Join(ls, ","))
			}
		}
	}
	return tag + ":\n" + strings.Join(out, "\n")
}

// expectRepo renders the model in the same format.
func expectRepo(a *absRepo, tag string, withReflog bool) string {
	var out []string
	for _, n := range []string{"refs/heads/a", "refs/heads/b", "refs/heads/c", "HEAD"} {
		if v, ok := a.refs[n]; ok {
			out = append(out, "ref "+n+" "+v)
		} else {
			out = append(out, "ref "+n+" ref-not-found")
		}
	}
	var ls []string
	for k, v := range a.refs {
		ls = append(ls, k+"="+v)
	}
	sort.Strings(ls)
	out = append(out, "iterrefs "+strings.Join(ls, ","))
	var os []string
	for _, n := range []string{"o1", "o2", "o3"} {
		if a.objs[n] {
			out = append(out, fmt.Sprintf("obj %s has=ok size=ok get=ok[object %s] wrongtype=object-not-found", n, n))
			os = append(os, n)
		} else {
			out = append(out, fmt.Sprintf("obj %s has=object-not-found size=object-not-found get=object-not-found[] wrongtype=object-not-found", n))
		}
	}
	out = append(out, "iterobjs "+strings.Join(os, ","))
	out = append(out, "index "+a.index)
	out = append(out, "shallow "+a.shallow)
	out = append(out, "config user="+a.user)
	if withReflog {
		out = append(out, "reflog refs/heads/a "+strings.Join(a.reflog["refs/heads/a"], ","))
	}
	return tag + ":\n" + strings.Join(out, "\n")
}

func mkIndex(entry string) *index.Index {
	idx := &index.Index{Version: 2}
	if entry != "" {
		e, _ := idx.Add(entry)
		e.Hash = absObjHash["o1"]
	}
	return idx
}

func mkReflogEntry(msg string) *reflog.Entry {
	return &reflog.Entry{OldHash: absHashes["h1"], NewHash: absHashes["h2"], Committer: reflog.Signature{Name: "n", Email: "e@x", When: time.Unix(1700000000, 0).UTC()}, Message: msg}
}

// preloadRepo puts the common initial content into a storer and returns its model.
func preloadRepo(st storage.Storer) *absRepo {
	a := &absRepo{refs: map[string]string{}, objs: map[string]bool{}, reflog: map[string][]string{}}
	must := func(err error) {
		if err != nil {
			fw.Abort("preload: %v", err)
		}
	}
	must(st.SetReference(plumbing.NewHashReference("refs/heads/a", absHashes["h1"])))
	must(st.SetReference(plumbing.NewHashReference("refs/heads/b", absHashes["h1"])))
	must(st.SetReference(plumbing.NewSymbolicReference("HEAD", "refs/heads/a")))
	a.refs["refs/heads/a"], a.refs["refs/heads/b"], a.refs["HEAD"] = "h1", "h1", "->refs/heads/a"
	_, err := st.SetEncodedObject(blobOf(st, "object o1\n"))
	must(err)
	a.objs["o1"] = true
	must(st.SetIndex(mkIndex("f1")))
	a.index = "f1"
	cfg, err := st.Config()
	must(err)
	cfg.User.Name = "base"
	must(st.SetConfig(cfg))
	a.user = "base"
	if rl, ok := st.(interface {
		AppendReflog(plumbing.ReferenceName, *reflog.Entry) error
	}); ok {
		must(rl.AppendReflog("refs/heads/a", mkReflogEntry("r0")))
		a.reflog["refs/heads/a"] = []string{"r0"}
	}
	return a
}

type repoOp struct {
	name string
	// do applies to the real storer and the model; returns (expected, got); expected "*" = open
	do func(st storage.Storer, m *absRepo) (string, string)
}

func repoOps() []repoOp {
	okres := func(err error) string {
		if err == nil {
			return "ok"
		}
		if errors.Is(err, storage.ErrReferenceHasChanged) {
			return "changed"
		}
		if errors.Is(err, plumbing.ErrReferenceNotFound) {
			return "ref-not-found"
		}
		return "error(" + normErr(err) + ")"
	}
	setRef := func(n, v string) repoOp {
		return repoOp{fmt.Sprintf("SetRef(%s,%s)", n, v), func(st storage.Storer, m *absRepo) (string, string) {
			err := st.SetReference(plumbing.NewHashReference(plumbing.ReferenceName(n), absHashes[v]))
			m.refs[n] = v
			return "ok", okres(err)
		}}
	}
	cas := func(n, v, old string) repoOp {
		return repoOp{fmt.Sprintf("CAS(%s,new=%s,old=%s)", n, v, old), func(st storage.Storer, m *absRepo) (string, string) {
			err := st.CheckAndSetReference(plumbing.NewHashReference(plumbing.ReferenceName(n), absHashes[v]), plumbing.NewHashReference(plumbing.ReferenceName(n), absHashes[old]))
			if m.refs[n] == old {
				m.refs[n] = v
				return "ok", okres(err)
			}
			// must fail and not update; the error kind is left open
			if err == nil {
				return "fail", "ok"
			}
			return "fail", "fail"
		}}
	}
	rm := func(n string) repoOp {
		return repoOp{fmt.Sprintf("RemoveRef(%s)", n), func(st storage.Storer, m *absRepo) (string, string) {
			err := st.RemoveReference(plumbing.ReferenceName(n))
			delete(m.refs, n)
			return "ok", okres(err)
		}}
	}
	setSym := func(n, target string) repoOp {
		return repoOp{fmt.Sprintf("SetSymRef(%s->%s)", n, target), func(st storage.Storer, m *absRepo) (string, string) {
			err := st.SetReference(plumbing.NewSymbolicReference(plumbing.ReferenceName(n), plumbing.ReferenceName(target)))
			m.refs[n] = "->" + target
			return "ok", okres(err)
		}}
	}
	return []repoOp{
		setSym("HEAD", "refs/heads/b"), setSym("HEAD", "refs/heads/c"),
		setRef("refs/heads/a", "h2"), setRef("refs/heads/c", "h3"),
		cas("refs/heads/a", "h3", "h1"), cas("refs/heads/a", "h3", "h2"), cas("refs/heads/c", "h2", "h3"),
		rm("refs/heads/a"), rm("refs/heads/b"), rm("refs/heads/c"),
		{"SetObject(o2)", func(st storage.Storer, m *absRepo) (string, string) {
			_, err := st.SetEncodedObject(blobOf(st, "object o2\n"))
			m.objs["o2"] = true
			return "ok", okres(err)
		}},
		{"SetIndex(f2)", func(st storage.Storer, m *absRepo) (string, string) {
			err := st.SetIndex(mkIndex("f2"))
			m.index = "f2"
			return "ok", okres(err)
		}},
		{"SetShallow(h1)", func(st storage.Storer, m *absRepo) (string, string) {
			err := st.SetShallow([]plumbing.Hash{absHashes["h1"]})
			m.shallow = "h1"
			return "ok", okres(err)
		}},
		{"SetConfig(user=txn)", func(st storage.Storer, m *absRepo) (string, string) {
			// a fresh value: mutating the object Config() hands out would also mutate a
			// memory base through aliasing, which is a trait of that backend, not of the transaction
			cfg := config.NewConfig()
			cfg.User.Name = "txn"
			err := st.SetConfig(cfg)
			m.user = "txn"
			return "ok", okres(err)
		}},
		{"AppendReflog(a,r1)", func(st storage.Storer, m *absRepo) (string, string) {
			rl, ok := st.(interface {
				AppendReflog(plumbing.ReferenceName, *reflog.Entry) error
			})
			if !ok {
				return "ok", "ok"
			}
			err := rl.AppendReflog("refs/heads/a", mkReflogEntry("r1"))
			m.reflog["refs/heads/a"] = append(m.reflog["refs/heads/a"], "r1")
			return "ok", okres(err)
		}},
		{"DeleteReflog(a)", func(st storage.Storer, m *absRepo) (string, string) {
			rl, ok := st.(interface {
				DeleteReflog(plumbing.ReferenceName) error
			})
			if !ok {
				return "ok", "ok"
			}
			err := rl.DeleteReflog("refs/heads/a")
			delete(m.reflog, "refs/heads/a")
			return "ok", okres(err)
		}},
	}
}

type c19Sys struct {
	base    storage.Storer
	baseIni *absRepo
	view    *absRepo
	tx      transactional.Storage
	ops     []repoOp
	hasRL   bool
}

func (s *c19Sys) Apply(k int) (string, string) { return s.ops[k].do(s.tx, s.view) }
func (s *c19Sys) Observe() (string, string) {
	e := expectRepo(s.view, "view before commit", s.hasRL) + "\n" + expectRepo(s.baseIni, "base before commit", s.hasRL)
	g := observeRepo(s.tx, "view before commit") + "\n" + observeRepo(s.base, "base before commit")
	if e != g {
		return e, g
	}
	err := s.tx.Commit()
	e += "\ncommit: ok\n" + expectRepo(s.view, "base after commit", s.hasRL)
	cr := "ok"
	if err != nil {
		cr = "error(" + normErr(err) + ")"
	}
	g += "\ncommit: " + cr + "\n" + observeRepo(s.base, "base after commit")
	return e, g
}
func (s *c19Sys) Key() string {
	return expectRepo(s.view, "", true)
}
func (s *c19Sys) Close() {}

func runC19(c *fw.Ctx) {
	depth := c.Pick(3, 4)
	c.Bound("depth", depth)
	ops := repoOps()
	var names []string
	for _, o := range ops {
		names = append(names, o.name)
	}
	c.Bound("ops", names)
	c.SetRule("all histories up to depth over {SetRef, CheckAndSet (cur/stale), RemoveRef, SetObject, SetIndex, SetShallow, SetConfig, AppendReflog, DeleteReflog} through transactional.NewStorage(base, memory) with base in {memory, filesystem on mcfs} preloaded with refs a,b,HEAD, object o1, an index, config, a reflog; after every history: every read/listing through the transaction equals base(+)pending (model), the base read directly is unchanged, then Commit and the base equals the view; every history is replayed on fresh instances (no merging); distinct = distinct model views")
	c.Assume("error kind of a failed CheckAndSet left open; iteration order compared as a set")
	total := histx.Result{}
	for _, kind := range []string{"memory", "filesystem"} {
		kind := kind
		var fsBase *mcfs.World
		if kind == "filesystem" {
			fsBase = mcfs.NewWorld()
			preloadRepo(filesystem.NewStorage(fsBase.View("/g", "g"), cache.NewObjectLRUDefault()))
		}
		sp := histx.Spec{Name: "C19/base=" + kind, OpNames: names, Depth: depth, NoDedup: true,
			New: func() histx.Sys {
				var base storage.Storer
				var ini *absRepo
				if kind == "memory" {
					ms := memory.NewStorage()
					ini = preloadRepo(ms)
					base = ms
				} else {
					w := fsBase.Clone()
					base = filesystem.NewStorage(w.View("/g", "g"), cache.NewObjectLRUDefault())
					ini = preloadRepo(memory.NewStorage()) // same content: only the model is needed
				}
				_, hasRL := base.(interface {
					Reflog(plumbing.ReferenceName) ([]*reflog.Entry, error)
				})
				if !hasRL {
					ini.reflog = map[string][]string{}
				}
				return &c19Sys{base: base, baseIni: ini, view: ini.clone(), tx: transactional.NewStorage(base, memory.NewStorage()), ops: ops, hasRL: hasRL}
			},
			Classify: func(hist []string, where, e, g string) string {
				return "base=" + kind + " | " + diffLines(e, g)
			},
		}
		res := histx.Run(c, sp)
		total.States += res.States
		total.Transitions += res.Transitions
		if !res.Complete {
			c.Incomplete(fmt.Sprintf("base=%s: depth %d only", kind, res.MaxDepth))
		}
		c.Sample(map[string]any{"base": kind, "histories": res.Histories, "example_history": []string{names[0], names[5], names[2]}})
	}
	c.States(total.States)
	c.Transitions(total.Transitions)
	c.TracesValidated(0)
}

// diffLines gives a stable, value-level description of the first differing lines.
func diffLines(e, g string) string {
	el, gl := strings.Split(e, "\n"), strings.Split(g, "\n")
	section := ""
	var out []string
	for i := 0; i < len(el) || i < len(gl); i++ {
		var a, b string
		if i < len(el) {
			a = el[i]
		}
		if i < len(gl) {
			b = gl[i]
		}
		if strings.HasSuffix(a, ":") {
			section = strings.TrimSuffix(a, ":")
		}
		if a != b {
			out = append(out, fmt.Sprintf("[%s] want %q got %q", section, a, b))
			if len(out) >= 2 {
				break
			}
		}
	}
	return strings.Join(out, "; ")
}

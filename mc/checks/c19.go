package checks

import (
	"fmt"

	"github.com/go-git/go-git/v6/plumbing"
	"github.com/go-git/go-git/v6/plumbing/cache"
	"github.com/go-git/go-git/v6/storage"
	"github.com/go-git/go-git/v6/storage/filesystem"
	"github.com/go-git/go-git/v6/storage/memory"
	"github.com/go-git/go-git/v6/storage/transactional"

	"verifmc/fw"
	"verifmc/histx"
	"verifmc/mcfs"
)

func init() {
	fw.Register(&fw.Check{ID: "C19", Level: "model_checking", Run: runC19, QuickBudget: 600, ThoroughBudget: 1200})
}

// blobOf builds a blob with the storer's own object constructor (also used by C39).
func blobOf(st storage.Storer, content string) plumbing.EncodedObject {
	o := st.NewEncodedObject()
	o.SetType(plumbing.BlobObject)
	w, _ := o.Writer()
	w.Write([]byte(content))
	w.Close()
	return o
}

type c19Sys struct {
	u       *absUni
	base    storage.Storer
	reopen  func() storage.Storer // fresh instance over the base's persistent state (filesystem bases)
	baseIni *absRepo
	view    *absRepo
	tx      transactional.Storage
	ops     []repoOp
	hasRL   bool
}

func (s *c19Sys) Apply(k int) (string, string) { return s.ops[k].do(s.tx, s.view) }
func (s *c19Sys) Observe() (string, string) {
	e := expectRepo(s.view, "view before commit", s.hasRL) + "\n" + expectRepo(s.baseIni, "base before commit", s.hasRL)
	g := observeRepo(s.u, s.tx, "view before commit") + "\n" + observeRepo(s.u, s.base, "base before commit")
	if e != g {
		return e, g
	}
	err := s.tx.Commit()
	e += "\ncommit: ok\n" + expectRepo(s.view, "base after commit", s.hasRL)
	cr := "ok"
	if err != nil {
		cr = "error(" + normErr(err) + ")"
	}
	g += "\ncommit: " + cr + "\n" + observeRepo(s.u, s.base, "base after commit")
	if s.reopen != nil && e == g {
		e += "\n" + expectRepo(s.view, "base reopened after commit", s.hasRL)
		g += "\n" + observeRepo(s.u, s.reopen(), "base reopened after commit")
	}
	return e, g
}
func (s *c19Sys) Key() string {
	return expectRepo(s.view, "", true)
}
func (s *c19Sys) Close() {}

func runC19(c *fw.Ctx) {
	depth := absDevDepth(c, c.Pick(3, 4))
	c.Bound("depth", depth)
	u := absUniverse("sha1")
	ops := repoOps(u, "view before commit")
	var names []string
	for _, o := range ops {
		names = append(names, o.name)
	}
	c.Bound("ops", names)
	c.SetRule("all histories up to depth over the shared menu {ReadAll (a full mid-history read compared with the model, so that later writes meet warm caches and lists), SetRef/SetSymRef (retarget, detach HEAD, hash->symbolic, nested name), CheckAndSet (current/stale/absent/old=nil/symbolic old), RemoveRef, SetObject (new, already loose in base, already packed in base, commit), WritePack (blobs+tag), SetIndex (entry/empty), SetShallow (value/empty), SetConfig, AppendReflog (two names), DeleteReflog} through transactional.NewStorage(base, temporal) with base and temporal each in {memory, filesystem on mcfs}; the base is preloaded with hash/symbolic refs (filesystem base: a packed only, b packed and loose), loose objects (one empty), a pack (blob+tree), an index, a shallow list, a config and a reflog; after every history: every read/listing through the transaction (refs point+listing, objects has/size/untyped/typed/wrong-typed/repeated read + listing per type with multiplicity, abbreviated-id expansion, index entries, shallow, config, reflogs) equals base(+)pending (model), the base read directly is unchanged, then Commit and the base equals the view (filesystem bases also through a freshly opened instance); every history is replayed on fresh instances (no merging); distinct = distinct model views")
	c.Assume("sha1 object format; error kind of a failed CheckAndSet left open; CheckAndSet with a symbolic old value against a symbolic reference with another target left open; iteration order compared as a multiset; CountLooseRefs/PackRefs/Module/AddAlternate of the transaction not compared")
	type pairing struct {
		base, temporal string
		depth          int
	}
	// the pairings with a filesystem temporal storage run one level shallower
	pairs := []pairing{{"memory", "memory", depth}, {"filesystem", "memory", depth}, {"filesystem", "filesystem", depth - 1}, {"memory", "filesystem", depth - 1}}
	if c.Thorough() {
		pairs = []pairing{{"memory", "memory", depth}, {"filesystem", "memory", depth}, {"filesystem", "filesystem", depth - 1}, {"memory", "filesystem", depth - 1}}
	}
	var pb []string
	for _, p := range pairs {
		pb = append(pb, fmt.Sprintf("base=%s,temporal=%s,depth=%d", p.base, p.temporal, p.depth))
	}
	c.Bound("pairings", pb)
	// the filesystem base holds a only in packed-refs and b both packed and loose
	fsBase := mcfs.NewWorld()
	{
		st := filesystem.NewStorage(fsBase.View("/g", "g"), cache.NewObjectLRUDefault())
		preloadRepo(u, st)
		c.Must(st.PackRefs(), "C19: packing the base's references")
		c.Must(st.SetReference(plumbing.NewHashReference(absRefB, u.h["h1"])), "C19: loose copy of b")
	}
	total := histx.Result{}
	for _, p := range pairs {
		p := p
		sp := histx.Spec{Name: fmt.Sprintf("C19/base=%s,temporal=%s", p.base, p.temporal), OpNames: names, Depth: p.depth, NoDedup: true,
			New: func() histx.Sys {
				s := &c19Sys{u: u, ops: ops}
				if p.base == "memory" {
					ms := memory.NewStorage()
					s.baseIni = preloadRepo(u, ms)
					s.base = ms
				} else {
					w := fsBase.Clone()
					s.base = filesystem.NewStorage(w.View("/g", "g"), cache.NewObjectLRUDefault())
					s.baseIni = preloadRepo(u, memory.NewStorage()) // same content: only the model is needed
					s.reopen = func() storage.Storer {
						return filesystem.NewStorage(w.View("/g", "g2"), cache.NewObjectLRUDefault())
					}
				}
				var temporal storage.Storer = memory.NewStorage()
				if p.temporal == "filesystem" {
					temporal = filesystem.NewStorage(mcfs.NewWorld().View("/t", "t"), cache.NewObjectLRUDefault())
				}
				s.view = s.baseIni.clone()
				s.tx = transactional.NewStorage(s.base, temporal)
				// every base and temporal kind used here stores reflogs, so the
				// transaction must as well: the expectation always has them
				s.hasRL = true
				return s
			},
			Classify: func(hist []string, where, e, g string) string {
				t := ""
				if p.temporal != "memory" {
					t = ",temporal=" + p.temporal
				}
				return "base=" + p.base + t + " | " + absDiff(e, g)
			},
		}
		res := histx.Run(c, sp)
		total.States += res.States
		total.Transitions += res.Transitions
		if !res.Complete {
			c.Incomplete(fmt.Sprintf("base=%s,temporal=%s: depth %d only", p.base, p.temporal, res.MaxDepth))
		}
		c.Sample(map[string]any{"base": p.base, "temporal": p.temporal, "histories": res.Histories, "example_history": []string{names[1], names[7], names[15]}})
	}
	c.States(total.States)
	c.Transitions(total.Transitions)
	c.TracesValidated(0)
}

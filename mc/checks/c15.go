package checks

import (
	"errors"
	"fmt"
	"sort"
	"strings"
	"sync"

	"github.com/go-git/go-git/v6/plumbing"
	"github.com/go-git/go-git/v6/plumbing/cache"
	"github.com/go-git/go-git/v6/plumbing/storer"
	"github.com/go-git/go-git/v6/storage"
	"github.com/go-git/go-git/v6/storage/filesystem"

	"verifmc/fw"
	"verifmc/histx"
	"verifmc/mcfs"
)

func init() {
	fw.Register(&fw.Check{ID: "C15", Level: "model_checking", Run: runC15, QuickBudget: 600, ThoroughBudget: 1800})
}

// c15Init builds the initial .git worlds with real git.
type c15Init struct {
	name   string
	world  *mcfs.World
	model  map[string]string
	h1, h2 string
	tag    string // id of the annotated tag object (peels to h1)
	big    bool   // packed-refs larger than every buffer the ref code uses (see c15BigRefs)
}

// c15BigRefs filler references (53-byte lines in a sha1 repository) make packed-refs about 85 KiB: larger than
// bufio's 4 KiB default buffer, than 32 KiB copy buffers and than bufio.MaxScanTokenSize (64 KiB), so that the
// interesting names sit in different read chunks (refs/heads/* in the first, refs/tags/* in the last).
const c15BigRefs = 1600

func c15Filler(i int) string { return fmt.Sprintf("refs/m/%04d", i) }

func c15Worlds(c *fw.Ctx) []c15Init {
	var out []c15Init
	mkf := func(name, format string, setup func(g *fw.Git, h1, h2, tag string)) {
		g, dir := c.InitRepo("c15-"+name, format, false)
		ids := g.BuildHistory([]fw.CommitSpec{
			{Time: 1700000000, Files: map[string]fw.FileSpec{"f": {Data: "1\n"}}},
			{Parents: []int{0}, Time: 1700000100, Files: map[string]fw.FileSpec{"f": {Data: "2\n"}}},
		}, false)
		h1, h2 := ids[0], ids[1]
		tag := g.MustRunIn([]byte("object "+h1+"\ntype commit\ntag t\ntagger T <t@e> 1700000000 +0000\n\nm\n"), "hash-object", "-t", "tag", "-w", "--stdin").S()
		setup(g, h1, h2, tag)
		w := mcfs.NewWorld()
		c.Must(w.Import(dir+"/.git", "/wt/.git"), "import")
		w.RemoveSetup("/wt/.git/hooks") // sample hooks only slow the clones down
		// the model is what real git reports for this state
		m := map[string]string{}
		r := g.MustRun("for-each-ref", "--format=%(refname) %(objectname) %(symref)")
		for _, l := range strings.Split(r.S(), "\n") {
			f := strings.Fields(l)
			if len(f) == 3 {
				m[f[0]] = "ref: " + f[2]
			} else if len(f) == 2 {
				m[f[0]] = f[1]
			}
		}
		if s := g.Run("symbolic-ref", "-q", "HEAD"); s.OK() {
			m["HEAD"] = "ref: " + s.S()
		} else {
			m["HEAD"] = g.MustRun("rev-parse", "HEAD").S()
		}
		out = append(out, c15Init{name: name, world: w, model: m, h1: h1, h2: h2, tag: tag})
	}
	mk := func(name string, setup func(g *fw.Git, h1, h2, tag string)) { mkf(name, "", setup) }
	mk("empty", func(g *fw.Git, h1, h2, tag string) {})
	mk("git-loose+packed", func(g *fw.Git, h1, h2, tag string) {
		g.MustRun("update-ref", "refs/heads/a", h1)
		g.MustRun("update-ref", "refs/tags/t", tag)
		g.MustRun("pack-refs", "--all")
		g.MustRun("update-ref", "refs/heads/a", h2) // loose shadows packed
		g.MustRun("update-ref", "refs/heads/c", h1)
		g.MustRun("symbolic-ref", "refs/remotes/o/HEAD", "refs/heads/a")
	})
	mk("packed-only", func(g *fw.Git, h1, h2, tag string) {
		g.MustRun("update-ref", "refs/heads/a", h1)
		g.MustRun("update-ref", "refs/heads/a2/b", h2)
		g.MustRun("update-ref", "refs/tags/t", tag)
		g.MustRun("update-ref", "refs/tags/u", h2) // a packed line AFTER the tag's "^peeled" line
		g.MustRun("pack-refs", "--all")
	})
	// two loose references side by side in one nested directory (refs/heads/a/c is never operated on)
	mk("loose-siblings", func(g *fw.Git, h1, h2, tag string) {
		g.MustRun("update-ref", "refs/heads/a/b", h1)
		g.MustRun("update-ref", "refs/heads/a/c", h2)
		g.MustRun("update-ref", "refs/tags/t", tag)
	})
	mk("loose-symref", func(g *fw.Git, h1, h2, tag string) {
		g.MustRun("update-ref", "refs/heads/a", h1)
		g.MustRun("symbolic-ref", "refs/remotes/o/HEAD", "refs/heads/a")
		g.MustRun("checkout", "-q", "--detach", h1)
	})
	// the same shape in a SHA-256 repository: every value is a 64-digit id
	mkf("sha256-loose+packed", "sha256", func(g *fw.Git, h1, h2, tag string) {
		g.MustRun("update-ref", "refs/heads/a", h1)
		g.MustRun("update-ref", "refs/tags/t", tag)
		g.MustRun("update-ref", "refs/tags/u", h2)
		g.MustRun("pack-refs", "--all")
		g.MustRun("update-ref", "refs/heads/a", h2)
		g.MustRun("update-ref", "refs/heads/c", h1)
		g.MustRun("symbolic-ref", "refs/remotes/o/HEAD", "refs/heads/a")
	})
	// a packed-refs file that does not fit any buffer: names of the universe at both ends of it
	mk("big-packed", func(g *fw.Git, h1, h2, tag string) {
		var sb strings.Builder
		for i := 0; i < c15BigRefs; i++ {
			v := h1
			if i%2 == 1 {
				v = h2
			}
			fmt.Fprintf(&sb, "create %s %s\n", c15Filler(i), v)
		}
		g.MustRunIn([]byte(sb.String()), "update-ref", "--stdin")
		g.MustRun("update-ref", "refs/heads/a", h1)
		g.MustRun("update-ref", "refs/tags/t", tag)
		g.MustRun("update-ref", "refs/tags/u", h2)
		g.MustRun("pack-refs", "--all")
		g.MustRun("update-ref", "refs/heads/c", h1)
	})
	out[len(out)-1].big = true
	return out
}

type c15Op struct {
	name string
	kind string // set cas remove pack reopen
	ref  string
	val  string // "h1" "h2" or "ref: X"
	old  string // for cas: "h1"/"h2"
}

type c15Sys struct {
	init  *c15Init
	w     *mcfs.World
	st    *filesystem.Storage
	model map[string]string
	ops   []c15Op
}

func (s *c15Sys) open() {
	s.st = filesystem.NewStorage(s.w.View("/wt/.git", "git"), cache.NewObjectLRUDefault())
}

func (s *c15Sys) val(v string) string {
	switch v {
	case "h1":
		return s.init.h1
	case "h2":
		return s.init.h2
	}
	return v
}

func mkRef(name, val string) *plumbing.Reference {
	if strings.HasPrefix(val, "ref: ") {
		return plumbing.NewSymbolicReference(plumbing.ReferenceName(name), plumbing.ReferenceName(val[5:]))
	}
	return plumbing.NewHashReference(plumbing.ReferenceName(name), plumbing.NewHash(val))
}

func errKind(err error) string {
	switch {
	case err == nil:
		return "ok"
	case errors.Is(err, plumbing.ErrReferenceNotFound):
		return "not-found"
	case errors.Is(err, storage.ErrReferenceHasChanged):
		return "changed"
	default:
		// normalised message so that the finding key names the cause
		f := strings.Fields(err.Error())
		for i, x := range f {
			x = strings.Trim(x, ":\"")
			if strings.HasPrefix(x, "refs/") || strings.HasPrefix(x, "/") || x == "HEAD" || strings.Contains(x, "packed-refs") {
				f[i] = "<path>"
			}
		}
		return "error(" + strings.Join(f, " ") + ")"
	}
}

// dfConflict reports whether name conflicts (directory/file) with an existing model entry.
func dfConflict(m map[string]string, name string) bool {
	for k := range m {
		if strings.HasPrefix(k, name+"/") || strings.HasPrefix(name, k+"/") {
			return true
		}
	}
	return false
}

func (s *c15Sys) Apply(k int) (string, string) {
	op := s.ops[k]
	switch op.kind {
	case "reopen":
		s.open()
		return "ok", "ok"
	case "pack":
		err := s.st.PackRefs()
		return "ok", errKind(err)
	case "set":
		v := s.val(op.val)
		err := s.st.SetReference(mkRef(op.ref, v))
		if dfConflict(s.model, op.ref) {
			// git refuses D/F conflicts; a plain map would accept: the contract leaves it open.
			if err == nil {
				s.model[op.ref] = v
			}
			return "*", errKind(err)
		}
		s.model[op.ref] = v
		return "ok", errKind(err)
	case "cas":
		v, old := s.val(op.val), s.val(op.old)
		err := s.st.CheckAndSetReference(mkRef(op.ref, v), mkRef(op.ref, old))
		cur, present := s.model[op.ref]
		if dfConflict(s.model, op.ref) {
			if err == nil {
				s.model[op.ref] = v
			}
			return "*", errKind(err)
		}
		switch {
		case present && cur == old:
			s.model[op.ref] = v
			return "ok", errKind(err)
		case present && strings.HasPrefix(cur, "ref: "):
			// CAS through a symbolic ref compares the stored value; implementation-defined error kind
			if err == nil {
				s.model[op.ref] = v
				return "fail", "ok"
			}
			return "fail", "fail"
		default:
			// stale or absent: must fail and must not update (error kind left open)
			if err == nil {
				return "fail", "ok"
			}
			return "fail", "fail"
		}
	case "remove":
		err := s.st.RemoveReference(plumbing.ReferenceName(op.ref))
		if dfConflict(s.model, op.ref) {
			// removing a name that D/F-conflicts with an existing one: left open
			if err == nil {
				delete(s.model, op.ref)
			}
			return "*", errKind(err)
		}
		delete(s.model, op.ref)
		return "ok", errKind(err)
	}
	panic("bad op")
}

func modelString(m map[string]string) string {
	var ls []string
	for k, v := range m {
		ls = append(ls, k+" "+v)
	}
	sort.Strings(ls)
	return strings.Join(ls, "\n")
}

var c15Names = []string{"HEAD", "refs/heads/a", "refs/heads/a/b", "refs/heads/a/b/c", "refs/tags/t", "refs/tags/u", "refs/remotes/o/HEAD", "refs/heads/c", "refs/heads/a2/b", "refs/heads/missing",
	c15Filler(0), c15Filler(c15BigRefs/2 + 17), c15Filler(c15BigRefs - 1), c15Filler(c15BigRefs)}

func (s *c15Sys) Observe() (string, string) {
	var exp, got []string
	// point reads
	for _, n := range c15Names {
		if v, ok := s.model[n]; ok {
			exp = append(exp, "get "+n+" "+v)
		} else {
			exp = append(exp, "get "+n+" not-found")
		}
		r, err := s.st.Reference(plumbing.ReferenceName(n))
		if err != nil {
			got = append(got, "get "+n+" "+errKind(err))
		} else {
			got = append(got, "get "+n+" "+refVal(r))
		}
	}
	// listing
	for k, v := range s.model {
		exp = append(exp, "list "+k+" "+v)
	}
	it, err := s.st.IterReferences()
	if err != nil {
		got = append(got, "list-error "+err.Error())
	} else {
		seen := map[string]int{}
		err = it.ForEach(func(r *plumbing.Reference) error {
			seen[r.Name().String()]++
			if seen[r.Name().String()] > 1 {
				got = append(got, "list-duplicate "+r.Name().String())
			}
			got = append(got, "list "+r.Name().String()+" "+refVal(r))
			return nil
		})
		if err != nil {
			got = append(got, "list-error "+err.Error())
		}
	}
	// look-ahead probe: an empty directory left below refs/<category>/ stands
	// where a reference file may have to go. On a clone of the world the names
	// the map still holds below it are removed and the directory's own name is
	// set: a map accepts that, so the store must (names the map holds ABOVE it
	// make the case a D/F conflict, which is left open).
	ents := s.w.List("/wt/.git/refs")
	for i, e := range ents {
		if e.Kind != "dir" || strings.Count(e.Path, "/") < 1 {
			continue
		}
		if i+1 < len(ents) && strings.HasPrefix(ents[i+1].Path, e.Path+"/") {
			continue // not empty
		}
		name := "refs/" + e.Path
		m2 := map[string]string{}
		for k, v := range s.model {
			if !strings.HasPrefix(k, name+"/") {
				m2[k] = v
			}
		}
		if dfConflict(m2, name) || plumbing.ReferenceName(name).Validate() != nil {
			continue
		}
		w2 := s.w.Clone()
		st2 := filesystem.NewStorage(w2.View("/wt/.git", "probe"), cache.NewObjectLRUDefault())
		res := "ok"
		for k := range s.model {
			if strings.HasPrefix(k, name+"/") {
				if err := st2.RemoveReference(plumbing.ReferenceName(k)); err != nil {
					res = "remove-below-fails"
				}
			}
		}
		if res == "ok" {
			if err := st2.SetReference(plumbing.NewHashReference(plumbing.ReferenceName(name), plumbing.NewHash(s.init.h1))); err != nil {
				res = "fail"
			} else if r, err := st2.Reference(plumbing.ReferenceName(name)); err != nil || r.Hash().String() != s.init.h1 {
				res = "not-readable"
			}
		}
		exp = append(exp, "probe: set the name of an emptied directory ok")
		got = append(got, "probe: set the name of an emptied directory "+res)
	}
	sort.Strings(exp)
	sort.Strings(got)
	return strings.Join(exp, "\n"), strings.Join(got, "\n")
}

func refVal(r *plumbing.Reference) string {
	if r.Type() == plumbing.SymbolicReference {
		return "ref: " + r.Target().String()
	}
	return r.Hash().String()
}

func (s *c15Sys) Key() string {
	return modelString(s.model) + "|" + s.w.Hash("/wt/.git/refs") + s.w.Hash("/wt/.git/packed-refs") + s.w.Hash("/wt/.git/HEAD")
}
func (s *c15Sys) Close() {}

var _ storer.ReferenceStorer = (*filesystem.Storage)(nil)

func runC15(c *fw.Ctx) {
	depth := c.Pick(3, 4)
	c.Bound("depth", depth)
	c.SetRule("all histories up to depth over {Set, CheckAndSet(old cur/stale/absent), Remove, PackRefs, reopen} on 5 colliding names x {h1,h2,symref,dangling symref}, from 4 git-written initial states x {ticking, frozen mtime clock}; after every step all point reads and the listing are compared with a name->value map; every distinct persistent state is dumped and read back by real git (for-each-ref, symbolic-ref, rev-parse HEAD); histories merging on (model, refs+packed-refs+HEAD bytes) are explored once; distinct = distinct canonical states")
	c.Assume("filesystem = mcfs (conformance-replayed against osfs each run); D/F-conflicting names: outcome left open (git refuses, a plain map accepts); error kind of a failed CAS left open")

	n, err := mcfs.Conformance(c.Scratch(), 2)
	c.Must(err, "mcfs/osfs conformance")
	c.TracesValidated(n)

	ops := []c15Op{{name: "PackRefs", kind: "pack"}, {name: "reopen", kind: "reopen"}}
	for _, r := range []string{"refs/heads/a", "refs/heads/a/b", "refs/tags/t", "refs/remotes/o/HEAD", "HEAD"} {
		for _, v := range []string{"h1", "h2"} {
			ops = append(ops, c15Op{name: fmt.Sprintf("Set(%s,%s)", r, v), kind: "set", ref: r, val: v})
		}
		ops = append(ops, c15Op{name: fmt.Sprintf("Remove(%s)", r), kind: "remove", ref: r})
	}
	for _, r := range []string{"refs/remotes/o/HEAD", "HEAD", "refs/tags/t"} {
		ops = append(ops, c15Op{name: fmt.Sprintf("Set(%s,sym->refs/heads/a)", r), kind: "set", ref: r, val: "ref: refs/heads/a"})
	}
	ops = append(ops, c15Op{name: "Set(HEAD,sym->refs/heads/missing)", kind: "set", ref: "HEAD", val: "ref: refs/heads/missing"})
	for _, r := range []string{"refs/heads/a", "refs/tags/t", "refs/heads/a/b"} {
		ops = append(ops, c15Op{name: fmt.Sprintf("CAS(%s,new=h2,old=h1)", r), kind: "cas", ref: r, val: "h2", old: "h1"})
	}
	ops = append(ops, c15Op{name: "CAS(refs/heads/a,new=h1,old=h2)", kind: "cas", ref: "refs/heads/a", val: "h1", old: "h2"})
	// a name nested two levels below an existing name: removing it (or packing it) leaves TWO directories to prune
	ops = append(ops, c15Op{name: "Set(refs/heads/a/b/c,h1)", kind: "set", ref: "refs/heads/a/b/c", val: "h1"})
	ops = append(ops, c15Op{name: "Remove(refs/heads/a/b/c)", kind: "remove", ref: "refs/heads/a/b/c"})
	// conditional set whose old and new values are symbolic (both have the zero hash)
	ops = append(ops, c15Op{name: "CAS(HEAD,new=sym->refs/heads/a,old=sym->refs/heads/missing)", kind: "cas", ref: "HEAD", val: "ref: refs/heads/a", old: "ref: refs/heads/missing"})
	names := make([]string, len(ops))
	for i, o := range ops {
		names[i] = o.name
	}
	c.Bound("ops", names)

	inits := c15Worlds(c)
	// final persistent states to hand to git: hash -> (world clone, model)
	type final struct {
		w  *mcfs.World
		m  map[string]string
		in *c15Init
	}
	var fmu sync.Mutex
	finals := map[string]*final{}
	totalStates, totalTrans := 0, 0
	for ii := range inits {
		for _, step := range []int64{1, 0} {
			in := &inits[ii]
			clock := "ticking"
			if step == 0 {
				clock = "frozen"
			}
			d := depth
			if in.big {
				// a history on the big file costs many times a small one: one level less, ticking clock only
				if step == 0 {
					continue
				}
				d = depth - 1
			}
			sp := histx.Spec{
				Name:    "C15/" + in.name + "/" + clock,
				OpNames: names,
				Depth:   d,
				New: func() histx.Sys {
					w := in.world.Clone()
					w.ClockStep = step
					m := map[string]string{}
					for k, v := range in.model {
						m[k] = v
					}
					s := &c15Sys{init: in, w: w, model: m, ops: ops}
					s.open()
					return &c15Final{s, func(s *c15Sys) {
						k := s.w.Hash("/wt/.git/refs") + s.w.Hash("/wt/.git/packed-refs") + s.w.Hash("/wt/.git/HEAD")
						fmu.Lock()
						if _, ok := finals[k]; !ok {
							mm := map[string]string{}
							for a, b := range s.model {
								mm[a] = b
							}
							finals[k] = &final{w: s.w.Clone(), m: mm, in: in}
						}
						fmu.Unlock()
					}}
				},
				Classify: func(hist []string, where, e, g string) string {
					last := ""
					if len(hist) > 0 {
						last = hist[len(hist)-1]
					}
					return c15Classify(last, where, e, g)
				},
			}
			res := histx.Run(c, sp)
			totalStates += res.States
			totalTrans += res.Transitions
			if !res.Complete {
				c.Incomplete(fmt.Sprintf("%s: completed depth %d only", sp.Name, res.MaxDepth))
			}
			if ii == 1 && step == 1 {
				c.Sample(map[string]any{"initial": in.name, "history": []string{names[0], names[2], names[1]}, "model_after": "name->value map", "states": res.States})
			}
		}
	}
	c.States(totalStates)
	c.Transitions(totalTrans)

	// real git reads every distinct persistent state
	keys := make([]string, 0, len(finals))
	for k := range finals {
		keys = append(keys, k)
	}
	sort.Strings(keys)
	c.Bound("distinct_persistent_states_read_by_git", len(keys))
	g := c.GitHome()
	c.ParDo(len(keys), 0, func(i int) {
		f := finals[keys[i]]
		head, ok := f.m["HEAD"]
		if !ok {
			return // git does not recognise a repository without HEAD
		}
		_ = head
		dir := c.TempDir("c15dump")
		c.Must(f.w.Dump("/wt/.git", dir+"/.git"), "dump")
		gg := g.In(dir)
		r := gg.Run("for-each-ref", "--format=%(refname) %(objectname) %(symref)")
		c.TracesValidated(1)
		gotm := map[string]string{}
		for _, l := range strings.Split(r.S(), "\n") {
			fl := strings.Fields(l)
			if len(fl) == 3 {
				gotm[fl[0]] = "ref: " + fl[2]
			} else if len(fl) == 2 {
				gotm[fl[0]] = fl[1]
			}
		}
		hasDF := false
		for k := range f.m {
			if dfConflict(f.m, k) {
				hasDF = true
			}
		}
		if hasDF {
			return // git itself never creates D/F-conflicting refs; its reading of such a state is not specified
		}
		var bad []string
		for k, v := range f.m {
			if k == "HEAD" {
				continue
			}
			if strings.HasPrefix(v, "ref: ") {
				if _, ok := f.m[v[5:]]; !ok {
					continue // dangling symref: git omits it
				}
			}
			if gotm[k] != v {
				bad = append(bad, fmt.Sprintf("%s: model %s, git %q", k, v, gotm[k]))
			}
		}
		for k, v := range gotm {
			if _, ok := f.m[k]; !ok {
				bad = append(bad, fmt.Sprintf("%s: git sees %s, model absent", k, v))
			}
		}
		if !r.OK() {
			bad = append(bad, "git for-each-ref failed: "+strings.TrimSpace(string(r.Err)))
		}
		// peeling: git show-ref -d answers from the "^" lines of packed-refs when its header promises them, so a
		// rewrite that loses or misplaces one makes git see a different (unpeelable / wrongly peeled) tag.
		hasTag := false
		for k, v := range f.m {
			if k != "HEAD" && v == f.in.tag {
				hasTag = true
			}
		}
		if hasTag && r.OK() {
			sr := gg.Run("show-ref", "-d")
			c.TracesValidated(1)
			peeled := map[string]string{}
			for _, l := range strings.Split(sr.S(), "\n") {
				fl := strings.Fields(l)
				if len(fl) == 2 && strings.HasSuffix(fl[1], "^{}") {
					peeled[strings.TrimSuffix(fl[1], "^{}")] = fl[0]
				}
			}
			for k, v := range f.m {
				if k == "HEAD" || strings.HasPrefix(v, "ref: ") {
					continue
				}
				want := ""
				if v == f.in.tag {
					want = f.in.h1
				}
				if peeled[k] != want {
					bad = append(bad, fmt.Sprintf("%s: git show-ref -d peels it to %q, expected %q", k, peeled[k], want))
				}
			}
		}
		if len(bad) > 0 {
			sort.Strings(bad)
			c.Fail("git-reads-differently: "+c15Norm(bad[0], f), "real git reads a state go-git produced differently from the map: "+strings.Join(bad, "; "),
				map[string]any{"model": f.m, "git": gotm, "packed-refs": string(mustRead(f.w, "/wt/.git/packed-refs"))})
		}
		os_RemoveAll(dir)
	})
}

type c15Final struct {
	*c15Sys
	onObserve func(*c15Sys)
}

func (f *c15Final) Observe() (string, string) {
	e, g := f.c15Sys.Observe()
	if e == g {
		f.onObserve(f.c15Sys)
	}
	return e, g
}

func mustRead(w *mcfs.World, p string) []byte { b, _ := w.ReadFile(p); return b }

// c15Norm makes the git-side key independent of hash values.
func c15Norm(s string, f any) string {
	fields := strings.Fields(s)
	for i, x := range fields {
		if len(x) >= 40 && isHex(strings.Trim(x, "\",")) {
			fields[i] = "<hash>"
		}
	}
	return strings.Join(fields, " ")
}

func isHex(s string) bool {
	for _, ch := range s {
		if !strings.ContainsRune("0123456789abcdef", ch) {
			return false
		}
	}
	return len(s) > 0
}

// c15Classify produces a stable key: the failing op kind and the shape of the difference.
func c15Classify(last, where, e, g string) string {
	opk := last
	if i := strings.IndexByte(last, '('); i > 0 {
		opk = last[:i]
	}
	if strings.Contains(last, "old=sym->") {
		opk += "[old value symbolic]" // its own class: symbolic values all share the zero hash
	}
	if strings.HasPrefix(where, "result of") {
		return fmt.Sprintf("%s returns %s, expected %s", opk, g, e)
	}
	el, gl := strings.Split(e, "\n"), strings.Split(g, "\n")
	es, gs := map[string]bool{}, map[string]bool{}
	for _, l := range el {
		es[l] = true
	}
	for _, l := range gl {
		gs[l] = true
	}
	for _, l := range gl {
		if strings.HasPrefix(l, "list-error") {
			return fmt.Sprintf("after %s: IterReferences fails: %s", opk, strings.TrimPrefix(l, "list-error "))
		}
	}
	shape := map[string]bool{}
	norm := func(l string) string {
		f := strings.Fields(l)
		for i, x := range f {
			if (len(x) == 40 || len(x) == 64) && isHex(x) {
				f[i] = "<hash>"
			}
			if strings.HasPrefix(x, "refs/") || x == "HEAD" {
				f[i] = "<name>"
			}
		}
		return strings.Join(f, " ")
	}
	for _, l := range gl {
		if !es[l] {
			shape["got: "+norm(l)] = true
		}
	}
	for _, l := range el {
		if !gs[l] {
			shape["want: "+norm(l)] = true
		}
	}
	var ks []string
	for k := range shape {
		ks = append(ks, k)
	}
	sort.Strings(ks)
	if len(ks) > 4 {
		ks = ks[:4]
	}
	return fmt.Sprintf("after %s: %s", opk, strings.Join(ks, " | "))
}

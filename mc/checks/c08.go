package checks

import (
	"bytes"
	"encoding/hex"
	"fmt"
	"io"
	"os"
	"path/filepath"
	"regexp"
	"sort"
	"strings"
	"sync"

	"github.com/go-git/go-billy/v6/osfs"
	"github.com/go-git/go-git/v6/plumbing/cache"
	"github.com/go-git/go-git/v6/plumbing/format/idxfile"
	"github.com/go-git/go-git/v6/plumbing/format/revfile"
	"github.com/go-git/go-git/v6/storage/filesystem"

	"verifmc/fw"
)

// C08: packs written by git are indexed by go-git exactly as by git index-pack:
// same objects, byte-identical .idx and .rev.

func init() {
	fw.Register(&fw.Check{ID: "C08", Level: "exploration", Run: runC08, QuickBudget: 100, ThoroughBudget: 1300})
}

type c08Hist struct {
	name    string
	dag     fw.DAG
	commits []string // object ids
	heads   []int
}

type c08Env struct {
	sha256 bool
	g      *fw.Git
	dir    string
	hists  []*c08Hist
	objs   map[string]bObj // every object of the repository (thin-pack bases come from here)
}

func c08Doc(seed int) []string {
	var lines []string
	for i := 0; i < 60; i++ {
		lines = append(lines, fmt.Sprintf("%02d %s %d", i, strings.Repeat(string(rune('a'+(i*3+seed)%26)), 20+(i*7+seed)%13), seed))
	}
	return lines
}

// c08Setup builds every history in one repository with one fast-import run.
func c08Setup(c *fw.Ctx, sha256fmt bool, maxCommits int) *c08Env {
	env := &c08Env{sha256: sha256fmt}
	env.g, env.dir = c.InitRepo("c08-"+bFmtName(sha256fmt), bFmtName(sha256fmt), true)
	var b bytes.Buffer
	mark := 0
	type cm struct {
		h *c08Hist
		i int
	}
	marks := map[int]cm{}
	emit := func(h *c08Hist, files []map[string]string) {
		for i, ps := range h.dag.Parents {
			mark++
			marks[mark] = cm{h, i}
			fmt.Fprintf(&b, "commit refs/verif/%s-%d\nmark :%d\n", h.name, i, mark)
			fmt.Fprintf(&b, "author A U Thor <author@example.com> %d +0000\ncommitter C O Mitter <committer@example.com> %d +0000\n", 1700000000+i*60, 1700000000+i*60)
			msg := fmt.Sprintf("%s commit %d\n", h.name, i)
			fmt.Fprintf(&b, "data %d\n%s\n", len(msg), msg)
			for j, p := range ps {
				kw := "merge"
				if j == 0 {
					kw = "from"
				}
				fmt.Fprintf(&b, "%s :%d\n", kw, mark-i+p)
			}
			b.WriteString("deleteall\n")
			var names []string
			for n := range files[i] {
				names = append(names, n)
			}
			sort.Strings(names)
			for _, n := range names {
				fmt.Fprintf(&b, "M 100644 inline %s\ndata %d\n%s\n", n, len(files[i][n]), files[i][n])
			}
			b.WriteString("\n")
		}
	}
	k := 0
	for n := 1; n <= maxCommits; n++ {
		for _, d := range fw.DAGs(n, 2, false) {
			h := &c08Hist{name: fmt.Sprintf("d%d", k), dag: d}
			k++
			// snapshots: doc.txt is the first parent's version with line (7*i) edited
			// (merges also take the second parent's edit); small files differ per commit
			docs := make([][]string, n)
			files := make([]map[string]string, n)
			for i, ps := range d.Parents {
				var doc []string
				if len(ps) == 0 {
					doc = c08Doc(k)
				} else {
					doc = append([]string{}, docs[ps[0]]...)
					if len(ps) > 1 {
						doc[(7*ps[1]+3)%len(doc)] = docs[ps[1]][(7*ps[1]+3)%len(doc)]
					}
				}
				doc[(7*i+3)%len(doc)] = fmt.Sprintf("edited in commit %d of %s", i, h.name)
				docs[i] = doc
				files[i] = map[string]string{
					"doc.txt":                 strings.Join(doc, "\n") + "\n",
					fmt.Sprintf("only-%d", i): fmt.Sprintf("file of commit %d\n", i),
					"dir/small":               fmt.Sprintf("v%d\n", i),
				}
			}
			isParent := map[int]bool{}
			for _, ps := range d.Parents {
				for _, p := range ps {
					isParent[p] = true
				}
			}
			for i := range d.Parents {
				if !isParent[i] {
					h.heads = append(h.heads, i)
				}
			}
			h.commits = make([]string, n)
			env.hists = append(env.hists, h)
			emit(h, files)
		}
	}
	// a history with an object > 1 MiB that is edited once (delta of a large object)
	big := &c08Hist{name: "big", dag: fw.DAG{Parents: [][]int{{}, {0}}}, commits: make([]string, 2), heads: []int{1}}
	var bigData bytes.Buffer
	for i := 0; bigData.Len() < 1200*1024; i++ {
		fmt.Fprintf(&bigData, "%08d %x\n", i, i*2654435761)
	}
	v0 := bigData.String()
	v1 := v0[:600000] + "an edit in the middle of the large file\n" + v0[600000:]
	env.hists = append(env.hists, big)
	emit(big, []map[string]string{{"large.bin": v0, "note": "first\n"}, {"large.bin": v1, "note": "second\n"}})
	// a linear history of 60 commits: delta chains as deep as --depth allows,
	// hundreds of objects (crowded fan-out buckets), OFS distances above 16384
	{
		const n = 60
		long := &c08Hist{name: "long", commits: make([]string, n), heads: []int{n - 1}}
		long.dag.Parents = make([][]int, n)
		var files []map[string]string
		doc := c08Doc(977)
		for i := 0; i < n; i++ {
			if i > 0 {
				long.dag.Parents[i] = []int{i - 1}
			}
			doc = append([]string{}, doc...)
			doc[(7*i+3)%len(doc)] = fmt.Sprintf("edited in commit %d of long", i)
			files = append(files, map[string]string{
				"doc.txt":                 strings.Join(doc, "\n") + "\n",
				fmt.Sprintf("only-%d", i): fmt.Sprintf("file of commit %d of the long history\n", i),
				"dir/small":               fmt.Sprintf("v%d\n", i),
			})
		}
		env.hists = append(env.hists, long)
		emit(long, files)
	}
	b.WriteString("done\n")
	mf := filepath.Join(c.TempDir("c08marks"), "marks")
	env.g.MustRunIn(b.Bytes(), "fast-import", "--quiet", "--done", "--date-format=raw", "--export-marks="+mf)
	for _, line := range strings.Split(strings.TrimSpace(string(bReadFile(mf))), "\n") {
		var m int
		var id string
		if _, err := fmt.Sscanf(line, ":%d %s", &m, &id); err != nil {
			fw.Abort("C08 set-up: bad marks line %q", line)
		}
		if x, ok := marks[m]; ok {
			x.h.commits[x.i] = id
		}
	}
	// pack-objects does not look for deltas between objects that sit undeltified
	// in the same existing pack: explode fast-import's pack into loose objects
	// so that --window/--depth really decide the deltas.
	fipacks, _ := filepath.Glob(filepath.Join(env.dir, "objects/pack/*.pack"))
	if len(fipacks) != 1 {
		fw.Abort("C08 set-up: expected one fast-import pack, found %d", len(fipacks))
	}
	g2, dir2 := c.InitRepo("c08loose-"+bFmtName(sha256fmt), bFmtName(sha256fmt), true)
	g2.MustRunIn(bReadFile(fipacks[0]), "unpack-objects", "-q")
	env.g, env.dir = g2, dir2
	env.objs = map[string]bObj{}
	for _, o := range env.g.CatFileAll() {
		env.objs[o.ID] = bObj{o.Type, o.Data}
		if bOIDHex(sha256fmt, o.Type, o.Data) != o.ID {
			fw.Abort("C08 set-up: independent hasher disagrees with git on %s", o.ID)
		}
	}
	return env
}

type c08Opt struct {
	Window, Depth int
	DBO           bool
	ThinBoundary  int // -1 = not thin; else index of the excluded commit
}

func (o c08Opt) String() string {
	s := fmt.Sprintf("window=%d depth=%d", o.Window, o.Depth)
	if o.DBO {
		s += " delta-base-offset"
	}
	if o.ThinBoundary >= 0 {
		s += fmt.Sprintf(" thin(^c%d)", o.ThinBoundary)
	}
	return s
}

type c08Pack struct {
	env    *c08Env
	hist   string
	opt    string
	thin   bool
	hand   string // hand-built variant ("" = written by git as is)
	bytes  []byte
	gitIdx []byte
	gitRev []byte
	// for thin packs: the entries of git's completed pack
	fixedIdx []bIdxEnt
}

var c08PackLine = regexp.MustCompile(`(?m)^(?:pack|keep)\t([0-9a-f]+)`)

// c08GitIndex runs git index-pack on the pack and loads what it wrote.
func c08GitIndex(c *fw.Ctx, p *c08Pack, dir string, n int) {
	env := p.env
	if !p.thin {
		base := filepath.Join(dir, fmt.Sprintf("%s-%d", bFmtName(env.sha256), n))
		bWriteFile(base+".pack", p.bytes)
		args := []string{"index-pack", "--rev-index", "-o", base + ".idx", base + ".pack"}
		env.g.MustRun(args...)
		p.gitIdx = bReadFile(base + ".idx")
		p.gitRev = bReadFile(base + ".rev")
		os.Remove(base + ".pack")
		return
	}
	// thin: completed inside a scratch clone that borrows the objects
	_, sdir := c.InitRepo("c08thin", bFmtName(env.sha256), true)
	bWriteFile(filepath.Join(sdir, "objects/info/alternates"), []byte(filepath.Join(env.dir, "objects")+"\n"))
	g := env.g.In(sdir)
	r := g.MustRunIn(p.bytes, "index-pack", "--fix-thin", "--stdin", "--rev-index")
	m := c08PackLine.FindSubmatch(r.Out)
	if m == nil {
		fw.Abort("C08: cannot find the pack name in index-pack --stdin output %q", r.Out)
	}
	idx := bReadFile(filepath.Join(sdir, "objects/pack", "pack-"+string(m[1])+".idx"))
	ents, err := bReadIdx(idx, env.sha256)
	c.Must(err, "read git idx of the completed thin pack")
	p.fixedIdx = ents
	os.RemoveAll(sdir)
}

// c08GoIdx renders go-git's idx/rev from an idxfile.Writer that observed a parse.
func c08GoIdx(w *idxfile.Writer, sha256fmt bool) (idx, rev []byte, err error) {
	mi, err := w.Index()
	if err != nil {
		return nil, nil, err
	}
	var ib, rb bytes.Buffer
	if err := idxfile.Encode(&ib, bNewHash(sha256fmt), mi); err != nil {
		return nil, nil, fmt.Errorf("idxfile.Encode: %w", err)
	}
	if err := revfile.Encode(&rb, bNewHash(sha256fmt), mi); err != nil {
		return ib.Bytes(), nil, fmt.Errorf("revfile.Encode: %w", err)
	}
	return ib.Bytes(), rb.Bytes(), nil
}

func runC08(c *fw.Ctx) {
	maxCommits := c.Pick(3, 4)
	c.Bound("max_commits_per_history", maxCommits)
	c.Bound("histories", "every DAG with up to max_commits commits (<=2 parents, unordered parent sets): each commit edits one line of a 60-line file (merges take both edits) and adds small files; plus one history holding a 1.2 MiB file edited once")
	c.Bound("pack_objects_options", "window {0,10} x depth {1,50} x delta-base-offset {off,on} (window 0: one combination); --thin against each non-head commit (window 10, depth 50, both delta kinds); pack.threads=1")
	c.Bound("hand_built", "each two-head history's pack concatenated with itself minus header (every object twice)")
	c.Bound("extra_histories", "a linear 60-commit history (chains up to --depth, > 256 objects; thin against commits 0, 30, 58) and the 0-object pack git writes when there is nothing to pack")
	c.Bound("object_formats", []string{"sha1", "sha256"})
	c.Bound("parser_modes", append(append([]string{}, bModeNames...), "filesystem PackfileWriter (osfs)"))
	c.SetRule("each generated history is packed by `git pack-objects --revs --stdout` under every option combination; every DISTINCT pack is indexed by `git index-pack --rev-index` (thin packs: `--fix-thin --stdin` in a repository holding the bases) and parsed by go-git in every parser mode with an idxfile.Writer observer and through the filesystem storage's PackfileWriter; compared: .idx bytes, .rev bytes, pack checksum, the (id,type,content) set left in the storage (expected set: independent pack reader, cross-checked against git's idx names). 64-bit offset tables, crowded/empty fan-out buckets and 0/1-entry tables are covered by feeding the idx/rev writers synthetic entry tables (c08_synth.go), not by real packs. distinct = (entries bucket, #ofs, #ref, max depth, thin, large, duplicate) classes.")
	c.Assume("pack-objects' own .idx is not used; the oracle is index-pack's output on the same bytes")
	c.Assume("thin packs: go-git never negotiates thin packs (fetch does not request thin-pack, receive-pack advertises no-thin) and its PackfileWriter has no access to the repository, so completion is checked through Parser+WithStorage only: the pack's own entries must resolve to the objects git resolves and appear with the same offset/CRC in git's completed index")
	t0 := c.Elapsed().Seconds()
	phases := map[string]float64{}
	lap := func(name string) {
		phases[name] = c.Elapsed().Seconds() - t0
		t0 = c.Elapsed().Seconds()
	}
	c08Synth(c)
	lap("synthetic")
	c08Boundary(c)
	lap("buffer-boundary lengths")
	var envs []*c08Env
	for _, s := range []bool{false, true} {
		envs = append(envs, c08Setup(c, s, maxCommits))
	}
	lap("setup")

	// ---- 1. git writes the packs
	type job struct {
		env  *c08Env
		h    *c08Hist
		opt  c08Opt
		pack []byte
	}
	var jobs []*job
	for _, env := range envs {
		for _, h := range env.hists {
			opts := []c08Opt{{0, 50, true, -1}}
			for _, d := range []int{1, 50} {
				for _, dbo := range []bool{false, true} {
					opts = append(opts, c08Opt{10, d, dbo, -1})
				}
			}
			isHead := map[int]bool{}
			for _, x := range h.heads {
				isHead[x] = true
			}
			for i := range h.commits {
				if n := len(h.commits); n > 8 && i != 0 && i != n/2 && i != n-2 {
					continue // long histories: three thin boundaries only
				}
				if !isHead[i] {
					opts = append(opts, c08Opt{10, 50, true, i}, c08Opt{10, 50, false, i})
				}
			}
			for _, o := range opts {
				jobs = append(jobs, &job{env: env, h: h, opt: o})
			}
		}
	}
	sort.SliceStable(jobs, func(i, j int) bool { return len(jobs[i].h.commits) < len(jobs[j].h.commits) })
	c.Bound("pack_objects_runs", len(jobs))
	c.ParDo(len(jobs), 0, func(i int) {
		j := jobs[i]
		var in bytes.Buffer
		for _, x := range j.h.heads {
			in.WriteString(j.h.commits[x] + "\n")
		}
		args := []string{"pack-objects", "--revs", "--stdout", "-q", fmt.Sprintf("--window=%d", j.opt.Window), fmt.Sprintf("--depth=%d", j.opt.Depth)}
		if j.opt.DBO {
			args = append(args, "--delta-base-offset")
		}
		if j.opt.ThinBoundary >= 0 {
			args = append(args, "--thin")
			in.WriteString("^" + j.h.commits[j.opt.ThinBoundary] + "\n")
		}
		r := j.env.g.C("pack.threads=1", "pack.compression=1").MustRunIn(in.Bytes(), args...)
		j.pack = r.Out
	})
	lap("pack-objects")

	// distinct packs (+ hand-built duplicates)
	var packs []*c08Pack
	seen := map[string]bool{}
	addPack := func(p *c08Pack) {
		hs := 20
		if p.env.sha256 {
			hs = 32
		}
		if len(p.bytes) < 12+hs {
			return
		}
		k := bFmtName(p.env.sha256) + string(p.bytes[len(p.bytes)-hs:])
		if seen[k] {
			return
		}
		seen[k] = true
		packs = append(packs, p)
	}
	for _, j := range jobs {
		if j.pack == nil {
			continue
		}
		p := &c08Pack{env: j.env, hist: j.h.name, opt: j.opt.String(), thin: j.opt.ThinBoundary >= 0, bytes: j.pack}
		// is it really thin (has a base outside)? otherwise treat as a normal pack
		if p.thin {
			ents, err := bReadPack(p.bytes, p.env.sha256, nil)
			c.Must(err, "independent reader on a git pack")
			un := false
			for _, e := range ents {
				un = un || e.Unresolved
			}
			p.thin = un
		}
		addPack(p)
		if len(j.h.heads) == 2 && j.opt.ThinBoundary < 0 && j.opt.Window == 10 && j.opt.Depth == 50 && j.opt.DBO {
			hs := 20
			if p.env.sha256 {
				hs = 32
			}
			body := p.bytes[12 : len(p.bytes)-hs]
			d := append(append(append([]byte{}, p.bytes[:12]...), body...), body...)
			n := uint32(p.bytes[8])<<24 | uint32(p.bytes[9])<<16 | uint32(p.bytes[10])<<8 | uint32(p.bytes[11])
			n *= 2
			d[8], d[9], d[10], d[11] = byte(n>>24), byte(n>>16), byte(n>>8), byte(n)
			addPack(&c08Pack{env: j.env, hist: j.h.name, opt: j.opt.String(), hand: "every entry twice", bytes: bSealPack(d, p.env.sha256)})
		}
	}
	// the pack git writes when there is nothing to pack (0 objects)
	for _, env := range envs {
		r := env.g.C("pack.threads=1").MustRunIn(nil, "pack-objects", "--stdout", "-q")
		if len(r.Out) > 12 && r.Out[11] == 0 {
			addPack(&c08Pack{env: env, hist: "-", opt: "nothing to pack", hand: "no objects", bytes: r.Out})
		} else {
			fw.Abort("C08 set-up: pack-objects with empty input wrote %d bytes", len(r.Out))
		}
	}
	c.Extra("distinct_packs", len(packs))

	// ---- 2. git index-pack on each distinct pack
	gdir := c.TempDir("c08git")
	c.ParDo(len(packs), 0, func(i int) { c08GitIndex(c, packs[i], gdir, i) })
	lap("index-pack")

	// ---- 3. go-git
	fsdirs := sync.Pool{New: func() any { return c.TempDir("c08fs") }}
	c.ParDo(len(packs), 0, func(i int) {
		p := packs[i]
		if p.gitIdx == nil && p.fixedIdx == nil {
			return
		}
		dir := fsdirs.Get().(string)
		defer fsdirs.Put(dir)
		c08Compare(c, p, dir)
	})
	lap("go-git")
	c.Extra("phase_seconds", phases)
}

func c08Compare(c *fw.Ctx, p *c08Pack, dir string) {
	env := p.env
	s := env.sha256
	hs := 20
	if s {
		hs = 32
	}
	rep := map[string]any{"format": bFmtName(s), "history": p.hist, "pack_objects": p.opt, "hand": p.hand, "pack_bytes": len(p.bytes),
		"replay": "c08Setup builds the history with git fast-import; git pack-objects --revs --stdout <options>; git index-pack --rev-index; Parser + idxfile.Writer + idxfile.Encode/revfile.Encode"}
	kind := "pack"
	if p.thin {
		kind = "thin pack"
	}
	if p.hand != "" {
		kind = "pack with " + p.hand
	}
	// failures are collected per entry point and reported once per kind of
	// failure with the set of entry points concerned
	type fl struct{ mode, detail string }
	fails := map[string][]fl{}
	var failOrder []string
	fail := func(mode, what, detail string) {
		if _, ok := fails[what]; !ok {
			failOrder = append(failOrder, what)
		}
		fails[what] = append(fails[what], fl{mode, detail})
	}
	nModes := 0
	defer func() {
		for _, what := range failOrder {
			fs := fails[what]
			if what == ".rev differs from git's" && len(fails[".idx differs from git's"]) > 0 {
				continue // consequence of the index difference
			}
			ms := "every entry point"
			if len(fs) < nModes {
				var l []string
				for _, f := range fs {
					l = append(l, f.mode)
				}
				ms = strings.Join(l, ", ")
			}
			c.Fail(fmt.Sprintf("%s: %s [%s]", kind, what, ms), fmt.Sprintf("%s (%s; history %s, %s, %s)", fs[0].detail, fs[0].mode, p.hist, p.opt, bFmtName(s)), rep)
		}
	}()
	// expected objects: independent reader, cross-checked with git's names
	ents, err := bReadPack(p.bytes, s, env.objs)
	c.Must(err, "independent reader on a git pack")
	want := map[string]bObj{}
	var pre []bObj
	preIDs := map[string]bool{}
	nOfs, nRef, depth := 0, 0, 0
	inPack := map[string]bool{}
	for _, e := range ents {
		if e.Type <= 4 {
			inPack[e.OID] = true
		}
	}
	for _, e := range ents {
		if e.Unresolved {
			fw.Abort("C08: the independent reader cannot resolve an entry of a git pack (history %s %s)", p.hist, p.opt)
		}
		want[e.OID] = bObj{e.RType, e.RData}
		if e.Type == bTOfs {
			nOfs++
		}
		if e.Type == bTRef {
			nRef++
		}
		if e.Depth > depth {
			depth = e.Depth
		}
	}
	for _, e := range ents {
		if e.Type == bTRef {
			id := hex.EncodeToString(e.BaseID)
			if _, in := want[id]; !in && !preIDs[id] {
				preIDs[id] = true
				pre = append(pre, env.objs[id])
			}
		}
	}
	gitNames := map[string]bool{}
	gitByOff := map[uint64]bIdxEnt{}
	var gents []bIdxEnt
	if p.thin {
		gents = p.fixedIdx
	} else {
		gents, err = bReadIdx(p.gitIdx, s)
		c.Must(err, "read git idx")
	}
	for _, e := range gents {
		gitNames[hex.EncodeToString(e.OID)] = true
		gitByOff[e.Off] = e
	}
	for id := range want {
		if !gitNames[id] {
			fw.Abort("C08: git's idx lacks %s which the independent reader resolves (history %s %s)", id, p.hist, p.opt)
		}
	}
	for id := range gitNames {
		if _, ok := want[id]; !ok && !preIDs[id] {
			fw.Abort("C08: git's idx has %s which the independent reader does not find (history %s %s)", id, p.hist, p.opt)
		}
	}
	big := 0
	for _, o := range want {
		if len(o.Data) > 1<<20 {
			big = 1
		}
	}
	c.Class(fmt.Sprintf("n=%d ofs=%d ref=%d depth=%d thin=%v big=%d hand=%v", minInt(len(ents)/4, 6), minInt(nOfs, 3), minInt(nRef, 3), c08DepthClass(depth), p.thin, big, p.hand != ""))
	c.Sample(map[string]any{"history": p.hist, "options": p.opt, "format": bFmtName(s), "entries": len(ents), "ofs": nOfs, "ref": nRef, "thin": p.thin})

	modes := []int{bModeNone, bModeStream, bModeMem, bModeStreamMem, bModeFS, bModeFSHigh}
	for _, mode := range modes {
		if p.thin && !bSetWithStorage(mode) {
			continue
		}
		nModes++
		iw := new(idxfile.Writer)
		d := ""
		if mode == bModeFS { // one of the two filesystem modes on a real directory
			d = dir
		}
		res := bParse(p.bytes, mode, s, d, pre, iw)
		c.Eval()
		mn := "Parser/" + bModeNames[mode]
		if res.Panic != "" {
			fail(mn, "go-git panics", res.Panic)
			continue
		}
		if res.Err != nil {
			fail(mn, "go-git rejects a pack git accepts ("+c09Num.ReplaceAllString(res.Err.Error(), "N")+")", res.Err.Error())
			continue
		}
		if res.Checksum != hex.EncodeToString(p.bytes[len(p.bytes)-hs:]) {
			fail(mn, "wrong pack checksum returned", res.Checksum)
		}
		if res.Stored != nil {
			if res.StoreErr != "" {
				fail(mn, "storage unreadable after Parse", res.StoreErr)
			} else {
				for _, id := range bSortedKeys(want) {
					o, ok := res.Stored[id]
					if !ok {
						fail(mn, "object git resolves is missing from the storage", id)
						break
					}
					if o.Type != want[id].Type || !bytes.Equal(o.Data, want[id].Data) {
						fail(mn, "object stored with other type/content than git resolves", id)
						break
					}
				}
				for _, id := range bSortedKeys(res.Stored) {
					if _, ok := want[id]; !ok && !preIDs[id] {
						fail(mn, "storage holds an object git does not resolve", id)
						break
					}
				}
			}
		}
		gi, gr, err := c08GoIdx(iw, s)
		if err != nil {
			fail(mn, "cannot build the index", err.Error())
			continue
		}
		if p.thin {
			ie, err := bReadIdx(gi, s)
			if err != nil {
				fail(mn, "go-git's idx unreadable", err.Error())
				continue
			}
			if len(ie) != len(ents) {
				fail(mn, "idx entry count differs from the pack's entries", fmt.Sprintf("%d vs %d", len(ie), len(ents)))
			}
			for _, e := range ie {
				ge, ok := gitByOff[e.Off]
				if !ok || !bytes.Equal(ge.OID, e.OID) || ge.CRC != e.CRC {
					fail(mn, "idx entry differs from git's completed index", fmt.Sprintf("offset %d", e.Off))
					break
				}
			}
			continue
		}
		if !bytes.Equal(gi, p.gitIdx) {
			fail(mn, ".idx differs from git's", c08DiffIdx(gi, p.gitIdx, s))
		}
		if !bytes.Equal(gr, p.gitRev) {
			fail(mn, ".rev differs from git's", fmt.Sprintf("%d vs %d bytes, first difference at %d", len(gr), len(p.gitRev), c08FirstDiff(gr, p.gitRev)))
		}
	}
	if p.thin {
		return
	}
	// the filesystem storage's own pack writer: files on disk
	c.Eval()
	nModes++
	mn := "filesystem PackfileWriter"
	os.RemoveAll(dir)
	os.MkdirAll(dir, 0o755)
	var idxB, revB, packB []byte
	werr := ""
	func() {
		defer func() {
			if r := recover(); r != nil {
				werr = "panic: " + fmt.Sprint(r)
			}
		}()
		st := filesystem.NewStorageWithOptions(osfs.New(dir), cache.NewObjectLRU(cache.MiByte), filesystem.Options{ObjectFormat: bObjFormat(s)})
		if err := st.Init(); err != nil {
			fw.Abort("C08: storage init: %v", err)
		}
		defer st.Close()
		w, err := st.PackfileWriter()
		if err != nil {
			werr = err.Error()
			return
		}
		if _, err := io.Copy(w, bytes.NewReader(p.bytes)); err != nil {
			werr = "write: " + err.Error()
			w.Close()
			return
		}
		if err := w.Close(); err != nil {
			werr = "close: " + err.Error()
			return
		}
	}()
	if werr != "" {
		fail(mn, "go-git rejects a pack git accepts ("+c09Num.ReplaceAllString(werr, "N")+")", werr)
		return
	}
	base := filepath.Join(dir, "objects/pack", "pack-"+hex.EncodeToString(p.bytes[len(p.bytes)-hs:]))
	idxB, _ = os.ReadFile(base + ".idx")
	revB, _ = os.ReadFile(base + ".rev")
	packB, _ = os.ReadFile(base + ".pack")
	if !bytes.Equal(packB, p.bytes) {
		fail(mn, "stored pack differs from the input", fmt.Sprintf("%d vs %d bytes", len(packB), len(p.bytes)))
	}
	if !bytes.Equal(idxB, p.gitIdx) {
		fail(mn, ".idx differs from git's", c08DiffIdx(idxB, p.gitIdx, s))
	}
	if !bytes.Equal(revB, p.gitRev) {
		fail(mn, ".rev differs from git's", fmt.Sprintf("%d vs %d bytes, first difference at %d", len(revB), len(p.gitRev), c08FirstDiff(revB, p.gitRev)))
	}
}

func c08FirstDiff(a, b []byte) int {
	for i := 0; i < len(a) && i < len(b); i++ {
		if a[i] != b[i] {
			return i
		}
	}
	return minInt(len(a), len(b))
}

func c08DiffIdx(a, b []byte, sha256fmt bool) string {
	ea, erra := bReadIdx(a, sha256fmt)
	eb, errb := bReadIdx(b, sha256fmt)
	if erra != nil || errb != nil {
		return fmt.Sprintf("%d vs %d bytes, first difference at %d (unreadable: %v %v)", len(a), len(b), c08FirstDiff(a, b), erra, errb)
	}
	if len(ea) != len(eb) {
		return fmt.Sprintf("go-git lists %d entries, git %d", len(ea), len(eb))
	}
	for i := range ea {
		if !bytes.Equal(ea[i].OID, eb[i].OID) {
			return fmt.Sprintf("entry %d: name %x vs %x", i, ea[i].OID, eb[i].OID)
		}
		if ea[i].CRC != eb[i].CRC {
			return fmt.Sprintf("entry %d: crc %08x vs %08x", i, ea[i].CRC, eb[i].CRC)
		}
		if ea[i].Off != eb[i].Off {
			return fmt.Sprintf("entry %d: offset %d vs %d", i, ea[i].Off, eb[i].Off)
		}
	}
	return fmt.Sprintf("same entries, bytes differ at %d (%d vs %d bytes)", c08FirstDiff(a, b), len(a), len(b))
}

// c08DepthClass: 0..3 exactly, deeper chains by tens.
func c08DepthClass(d int) int {
	if d <= 3 {
		return d
	}
	return 3 + d/10
}

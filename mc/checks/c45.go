package checks

// C45: unified patches apply with git and reproduce the target; FileStats =
// git diff --numstat.
//
// Space (every case is one file of one big tree pair, so that thousands of
// cases share a single go-git Tree.Patch call and a single `git apply`):
//   seq    all ordered pairs old != new of line sequences of <= L lines over
//          {a,b,c}, each with and without a final newline
//   addel  absent -> c and c -> absent for every such content, mode 644 / 755
//   mode   contents of <= 1 line, every mode pair (644,755) (755,644) (755,755)
//   crlf   pairs of <= 2-line contents, CRLF line ends on old / new / both
//   runs   two edit sites (none / insert / delete / replace) separated by a run
//          of 0..8 unchanged distinct lines, leading / trailing runs of 0,1,3,4
//          lines, all four final-newline combinations: exercises hunk splitting
//          and merging at context 3 and every line-number computation
//   binary text / empty / absent / two binary blobs (NUL byte): all pairs with
//          a binary side (marker comparison only, as such a patch cannot be
//          applied by git either)
//   runs2  like runs with a multi-line first site (2 added / 2 deleted / 2 -> 1 /
//          1 -> 2 lines): the numbers of a second hunk depend on it
//   runs3  two insertions among IDENTICAL unchanged lines: only the header
//          numbers decide where git apply puts a hunk
// each at context 3 (Patch.Encode), 1, 2, 5 and context 0 (UnifiedEncoder(w,0), applied
// with --unidiff-zero).
//
// Oracle: `git read-tree A; git apply --cached; git ls-files -s` must give
// exactly tree B's (mode, blob) for every path; the "Binary files differ"
// marker appears exactly where `git diff-tree -p` prints it; Patch.Stats()
// equals `git diff-tree --numstat` (only where git's numbers are the minimal
// edit script computed by an LCS model, i.e. forced and not heuristic).

import (
	"bytes"
	"fmt"
	"os"
	"path/filepath"
	"regexp"
	"sort"
	"strconv"
	"strings"
	"sync"

	"github.com/go-git/go-git/v6/plumbing"
	fdiff "github.com/go-git/go-git/v6/plumbing/format/diff"
	"github.com/go-git/go-git/v6/plumbing/object"

	"verifmc/fw"
)

func init() {
	fw.Register(&fw.Check{ID: "C45", Level: "exploration", Run: runC45, QuickBudget: 150, ThoroughBudget: 900})
}

type c45Side struct {
	mode string // 100644 | 100755
	data string
}

type c45Case struct {
	fam      string
	old, new *c45Side // nil = absent
	class    string   // failure-key class of the case (family specific)
	path     string
	noApply  bool // binary family: marker comparison only
}

func c45Contents(maxLines int) []string {
	var out []string
	for _, s := range fw.Seqs(3, maxLines) {
		var b strings.Builder
		for _, x := range s {
			b.WriteString(string(rune('a'+x)) + "\n")
		}
		t := b.String()
		out = append(out, t)
		if len(s) > 0 {
			out = append(out, t[:len(t)-1])
		}
	}
	return out
}

func c45State(s *c45Side) string {
	switch {
	case s == nil:
		return "absent"
	case s.data == "":
		return "empty"
	case strings.IndexByte(s.data, 0) >= 0 && strings.IndexByte(s.data, 0) < 8000:
		return "binary"
	}
	st := "text"
	if strings.Contains(s.data, "\r\n") {
		st = "crlf"
	}
	if !strings.HasSuffix(s.data, "\n") {
		st += "-noeol"
	}
	return st
}

func c45Cases(c *fw.Ctx) []*c45Case {
	L := c.Pick(3, 5)
	c.Bound("seq_max_lines", L)
	var cases []*c45Case
	add := func(fam string, o, n *c45Side, extra string, noApply bool) {
		cl := c45State(o) + " -> " + c45State(n)
		if (o == nil || o.data == "") && (n == nil || n.data == "") {
			// one root cause whatever the family: the line diff has no chunk
			cl = "change without content lines (empty file added / deleted / mode-changed)"
			extra = ""
		}
		if o != nil && n != nil && o.mode != n.mode && !strings.HasPrefix(cl, "change without") {
			cl += " (mode change)"
		}
		if extra != "" {
			cl += " " + extra
		}
		cases = append(cases, &c45Case{fam: fam, old: o, new: n, class: cl, noApply: noApply})
	}
	cs := c45Contents(L)
	for _, o := range cs {
		for _, n := range cs {
			if o != n {
				add("seq", &c45Side{"100644", o}, &c45Side{"100644", n}, "", false)
			}
		}
	}
	for _, x := range cs {
		for _, m := range []string{"100644", "100755"} {
			add("addel", nil, &c45Side{m, x}, "", false)
			add("addel", &c45Side{m, x}, nil, "", false)
		}
	}
	c1 := c45Contents(1)
	for _, o := range c1 {
		for _, n := range c1 {
			for _, mm := range [][2]string{{"100644", "100755"}, {"100755", "100644"}, {"100755", "100755"}} {
				if o == n && mm[0] == mm[1] {
					continue
				}
				add("mode", &c45Side{mm[0], o}, &c45Side{mm[1], n}, "", false)
			}
		}
	}
	c2 := c45Contents(c.Pick(2, 3))
	crlf := func(s string) string { return strings.ReplaceAll(s, "\n", "\r\n") }
	for _, o := range c2 {
		for _, n := range c2 {
			for _, f := range [][2]bool{{false, true}, {true, false}, {true, true}} {
				od, nd := o, n
				if f[0] {
					od = crlf(o)
				}
				if f[1] {
					nd = crlf(n)
				}
				if od != nd {
					add("crlf", &c45Side{"100644", od}, &c45Side{"100644", nd}, "", false)
				}
			}
		}
	}
	// runs: lines are all distinct, so every diff algorithm finds the same edit
	runsLead := []int{0, 1, 3, 4}
	mids := []int{0, 1, 2, 3, 5, 6, 7, 8}
	if c.Thorough() {
		mids = []int{0, 1, 2, 3, 4, 5, 6, 7, 8}
	}
	c.Bound("runs_lead_trail", runsLead)
	c.Bound("runs_mid", mids)
	sites := []string{"none", "ins", "del", "rep"}
	for _, p := range runsLead {
		for _, s1 := range sites {
			for _, k := range mids {
				for _, s2 := range sites {
					for _, q := range runsLead {
						if s1 == "none" && s2 == "none" {
							continue
						}
						var o, n []string
						ln := 0
						run := func(cnt int) {
							for i := 0; i < cnt; i++ {
								ln++
								l := fmt.Sprintf("line %d", ln)
								o = append(o, l)
								n = append(n, l)
							}
						}
						site := func(s, tag string) {
							switch s {
							case "ins":
								n = append(n, "new "+tag)
							case "del":
								o = append(o, "old "+tag)
							case "rep":
								o = append(o, "old "+tag)
								n = append(n, "new "+tag)
							}
						}
						run(p)
						site(s1, "one")
						run(k)
						site(s2, "two")
						run(q)
						for _, nl := range [][2]bool{{true, true}, {true, false}, {false, true}, {false, false}} {
							od, nd := strings.Join(o, "\n"), strings.Join(n, "\n")
							if nl[0] && od != "" {
								od += "\n"
							}
							if nl[1] && nd != "" {
								nd += "\n"
							}
							if od == nd {
								continue
							}
							hunks := "1 hunk"
							if s1 != "none" && s2 != "none" && k > 6 {
								hunks = "2 hunks"
							}
							add("runs", &c45Side{"100644", od}, &c45Side{"100644", nd}, "("+hunks+" at context 3)", false)
						}
					}
				}
			}
		}
	}
	// runs2: the FIRST edit site changes several lines (2 added / 2 deleted /
	// 2 replaced by 1 / 1 replaced by 2), so the line numbers of a second hunk
	// depend on the multi-line bookkeeping of the first one
	sites1 := []string{"ins2", "del2", "rep21", "rep12"}
	mids2 := []int{0, 3, 6, 7, 8}
	c.Bound("runs2_first_sites", sites1)
	c.Bound("runs2_mid", mids2)
	for _, p := range []int{0, 4} {
		for _, s1 := range sites1 {
			for _, k := range mids2 {
				for _, s2 := range []string{"ins", "del", "rep"} {
					for _, q := range []int{0, 4} {
						var o, n []string
						ln := 0
						run := func(cnt int) {
							for i := 0; i < cnt; i++ {
								ln++
								l := fmt.Sprintf("line %d", ln)
								o = append(o, l)
								n = append(n, l)
							}
						}
						site := func(s, tag string) {
							switch s {
							case "ins":
								n = append(n, "new "+tag)
							case "del":
								o = append(o, "old "+tag)
							case "rep":
								o = append(o, "old "+tag)
								n = append(n, "new "+tag)
							case "ins2":
								n = append(n, "new "+tag+".1", "new "+tag+".2")
							case "del2":
								o = append(o, "old "+tag+".1", "old "+tag+".2")
							case "rep21":
								o = append(o, "old "+tag+".1", "old "+tag+".2")
								n = append(n, "new "+tag)
							case "rep12":
								o = append(o, "old "+tag)
								n = append(n, "new "+tag+".1", "new "+tag+".2")
							}
						}
						run(p)
						site(s1, "one")
						run(k)
						site(s2, "two")
						run(q)
						for _, nl := range [][2]bool{{true, true}, {true, false}} {
							od, nd := strings.Join(o, "\n"), strings.Join(n, "\n")
							if nl[0] && od != "" {
								od += "\n"
							}
							if nl[1] && nd != "" {
								nd += "\n"
							}
							hunks := "1 hunk"
							if k > 6 {
								hunks = "2 hunks"
							}
							add("runs2", &c45Side{"100644", od}, &c45Side{"100644", nd}, "(multi-line first site, "+hunks+" at context 3)", false)
						}
					}
				}
			}
		}
	}
	// runs3: ALL unchanged lines are the same text, so the context of a hunk
	// matches everywhere and only the line numbers of its header decide where
	// git apply puts it (with distinct lines git finds the place by context
	// and forgives wrong numbers): first site 1 or 2 added lines, second site
	// one added line
	for _, p := range []int{0, 4} {
		for _, first := range []int{1, 2} {
			for _, k := range mids2 {
				for _, q := range []int{0, 4} {
					var o, n []string
					same := func(cnt int) {
						for i := 0; i < cnt; i++ {
							o = append(o, "same")
							n = append(n, "same")
						}
					}
					same(p)
					for i := 0; i < first; i++ {
						n = append(n, fmt.Sprintf("new one.%d", i+1))
					}
					same(k)
					n = append(n, "new two")
					same(q)
					od, nd := strings.Join(o, "\n"), strings.Join(n, "\n")+"\n"
					if od != "" {
						od += "\n"
					}
					hunks := "1 hunk"
					if k > 6 {
						hunks = "2 hunks"
					}
					add("runs3", &c45Side{"100644", od}, &c45Side{"100644", nd}, "(identical context lines, "+hunks+" at context 3)", false)
				}
			}
		}
	}
	// the binary sniff window is the first 8000 bytes (git: FIRST_FEW_BYTES):
	// a NUL at offset 7999 makes the blob binary, at offset 8000 it does not
	longText := strings.Repeat(strings.Repeat("x", 99)+"\n", 80)
	nulIn := longText[:7999] + "\x00" + "\n"
	nulOut := longText + "\x00\n"
	bins := []*c45Side{nil, {"100644", "a\n"}, {"100644", ""}, {"100644", "a\x00b\n"}, {"100644", "\x00\x01\x02"}}
	for _, pr := range [][2]*c45Side{
		{{"100644", longText}, {"100644", nulIn}}, {{"100644", nulIn}, {"100644", longText}},
		{{"100644", longText}, {"100644", nulOut}}, {{"100644", nulOut}, {"100644", longText}},
		{nil, {"100644", nulOut}}, {{"100644", nulOut}, nil},
	} {
		add("binary", pr[0], pr[1], "(NUL around the 8000-byte sniff window)", true)
	}
	for _, o := range bins {
		for _, n := range bins {
			if o == n || (c45State(o) != "binary" && c45State(n) != "binary") {
				continue
			}
			add("binary", o, n, "", true)
		}
	}
	for i, cs := range cases {
		dir := []string{"", "dir/", "dir/sub/"}[i%3]
		cs.path = fmt.Sprintf("%sf%06d", dir, i)
	}
	return cases
}

// c45LCS returns (adds, dels) of a minimal line edit script.
func c45LCS(o, n string) (int, int) {
	split := func(s string) []string {
		if s == "" {
			return nil
		}
		l := strings.SplitAfter(s, "\n")
		if l[len(l)-1] == "" {
			l = l[:len(l)-1]
		}
		return l
	}
	a, b := split(o), split(n)
	dp := make([][]int, len(a)+1)
	for i := range dp {
		dp[i] = make([]int, len(b)+1)
	}
	for i := len(a) - 1; i >= 0; i-- {
		for j := len(b) - 1; j >= 0; j-- {
			if a[i] == b[j] {
				dp[i][j] = dp[i+1][j+1] + 1
			} else if dp[i+1][j] > dp[i][j+1] {
				dp[i][j] = dp[i+1][j]
			} else {
				dp[i][j] = dp[i][j+1]
			}
		}
	}
	return len(b) - dp[0][0], len(a) - dp[0][0]
}

var (
	c45PathRe = regexp.MustCompile(`(?:dir/(?:sub/)?)?f[0-9]{6}`)
	c45LineRe = regexp.MustCompile(`at line ([0-9]+)`)
	c45NumRe  = regexp.MustCompile(`[0-9]+`)
)

type c45Section struct {
	path  string
	text  string
	first int // 1-based first line in the whole patch
	lines int
}

func c45Split(patch string) []*c45Section {
	var out []*c45Section
	lines := strings.SplitAfter(patch, "\n")
	if len(lines) > 0 && lines[len(lines)-1] == "" {
		lines = lines[:len(lines)-1]
	}
	var cur *c45Section
	for i, l := range lines {
		if strings.HasPrefix(l, "diff --git ") {
			f := strings.Fields(l)
			p := ""
			if len(f) >= 4 {
				p = strings.TrimPrefix(f[2], "a/")
			}
			cur = &c45Section{path: p, first: i + 1}
			out = append(out, cur)
		}
		if cur == nil {
			cur = &c45Section{path: "", first: i + 1}
			out = append(out, cur)
		}
		cur.text += l
		cur.lines++
	}
	return out
}

// c45Apply applies the sections to tree A in a private index and returns, per
// failing path, git's normalised complaint; then the resulting index listing.
func c45Apply(g *fw.Git, treeA string, secs []*c45Section, zero bool, idxFile string) (failed map[string]string, listing map[string]string) {
	failed = map[string]string{}
	gi := g.With("GIT_INDEX_FILE=" + idxFile)
	args := []string{"apply", "--cached", "--whitespace=nowarn"}
	if zero {
		args = append(args, "--unidiff-zero")
	}
	norm := func(msg, path string) string {
		m := strings.ReplaceAll(msg, path, "<path>")
		m = c45PathRe.ReplaceAllString(m, "<path>")
		return c45NumRe.ReplaceAllString(m, "N")
	}
	var try func(ss []*c45Section) bool // true when applied
	attempt := func(ss []*c45Section) (bool, string) {
		os.Remove(idxFile)
		gi.MustRun("read-tree", treeA)
		var in bytes.Buffer
		for _, s := range ss {
			in.WriteString(s.text)
		}
		if in.Len() == 0 {
			return true, ""
		}
		r := gi.RunIn(in.Bytes(), args...)
		return r.OK(), string(r.Err)
	}
	try = func(ss []*c45Section) bool {
		for len(ss) > 0 {
			ok, errS := attempt(ss)
			if ok {
				return true
			}
			// identify offenders named by git
			bad := map[int]string{}
			off := 0
			starts := make([]int, len(ss))
			for i, s := range ss {
				starts[i] = off + 1
				off += s.lines
			}
			byPath := map[string]int{}
			for i, s := range ss {
				byPath[s.path] = i
			}
			for _, el := range strings.Split(errS, "\n") {
				if el == "" {
					continue
				}
				if m := c45LineRe.FindStringSubmatch(el); m != nil {
					ln, _ := strconv.Atoi(m[1])
					for i := len(ss) - 1; i >= 0; i-- {
						if ln >= starts[i] {
							if _, dup := bad[i]; !dup {
								bad[i] = norm(el, ss[i].path)
							}
							break
						}
					}
					continue
				}
				for _, p := range c45PathRe.FindAllString(el, -1) {
					if i, ok := byPath[p]; ok {
						if _, dup := bad[i]; !dup {
							bad[i] = norm(el, p)
						}
					}
				}
			}
			if len(bad) == 0 {
				if len(ss) == 1 {
					failed[ss[0].path] = norm(strings.TrimSpace(errS), ss[0].path)
					return false
				}
				// bisect
				h := len(ss) / 2
				left := append([]*c45Section{}, ss[:h]...)
				right := append([]*c45Section{}, ss[h:]...)
				var keep []*c45Section
				for _, half := range [][]*c45Section{left, right} {
					before := len(failed)
					try(half)
					_ = before
					for _, s := range half {
						if _, f := failed[s.path]; !f {
							keep = append(keep, s)
						}
					}
				}
				ss = keep
				ok, _ := attempt(ss)
				if !ok {
					fw.Abort("git apply: sections apply separately but not together")
				}
				return true
			}
			var rest []*c45Section
			for i, s := range ss {
				if msg, b := bad[i]; b {
					failed[s.path] = msg
				} else {
					rest = append(rest, s)
				}
			}
			ss = rest
		}
		attempt(nil)
		return true
	}
	try(secs)
	listing = map[string]string{}
	for _, l := range strings.Split(gi.MustRun("ls-files", "-s").S(), "\n") {
		if l == "" {
			continue
		}
		tab := strings.IndexByte(l, '\t')
		f := strings.Fields(l[:tab])
		listing[l[tab+1:]] = f[0] + " " + f[1]
	}
	os.Remove(idxFile)
	return failed, listing
}

// context sizes: the default 3 (Patch.Encode), 0, and sizes on both sides of
// the lengths of the unchanged runs (1, 2 < 3 < 5 > 4): the hunk generator
// compares run lengths with ctxLines and 2*ctxLines everywhere.
var c45Contexts = []int{3, 0, 1, 2, 5}

func runC45(c *fw.Ctx) {
	cases := c45Cases(c)
	c.Bound("cases", len(cases))
	c.Bound("context_lines", c45Contexts)
	fam := map[string]int{}
	for _, cs := range cases {
		fam[cs.fam]++
	}
	c.Bound("cases_per_family", fam)
	c.SetRule("every case is one path of a tree pair (batches of cases share one Tree.Patch call, one git apply per context setting); git apply --cached on tree A must give tree B's (mode, blob) at the path; Binary marker where git diff prints it; Patch.Stats = git --numstat where git's numbers equal the LCS minimum; non-trivial = every case (old != new); distinct = (family, old state, new state, mode change, hunk shape, outcome) classes")
	c.Assume("git 2.39.5 apply / diff-tree are the reference; context 0 patches are applied with --unidiff-zero as git requires; objects are served from go-git's memory storage; paths are plain ASCII without spaces (path quoting is not in the statement); binary patches are compared by marker only (git cannot apply its own marker either)")

	g, dir := c.InitRepo("c45", "sha1", true)
	nb := c.Pick(16, 96)
	if nb > len(cases) {
		nb = 1
	}
	c.Bound("batches", nb)
	// one fast-import: all blobs, then two commits per batch
	var fi bytes.Buffer
	blobMark := map[string]int{}
	blobID := map[string]string{}
	mark := 0
	blob := func(d string) {
		if _, ok := blobMark[d]; ok {
			return
		}
		mark++
		blobMark[d] = mark
		blobID[d] = c47ObjID("blob", []byte(d))
		fmt.Fprintf(&fi, "blob\nmark :%d\ndata %d\n%s\n", mark, len(d), d)
	}
	for _, cs := range cases {
		if cs.old != nil {
			blob(cs.old.data)
		}
		if cs.new != nil {
			blob(cs.new.data)
		}
	}
	batchOf := func(i int) int { return i % nb }
	for b := 0; b < nb; b++ {
		for side := 0; side < 2; side++ {
			fmt.Fprintf(&fi, "commit refs/verif/t%d_%d\ncommitter C <c@example.com> 1700000000 +0000\ndata 0\n\ndeleteall\n", b, side)
			for i, cs := range cases {
				if batchOf(i) != b {
					continue
				}
				s := cs.old
				if side == 1 {
					s = cs.new
				}
				if s != nil {
					fmt.Fprintf(&fi, "M %s :%d %s\n", s.mode, blobMark[s.data], cs.path)
				}
			}
			fi.WriteString("\n")
		}
	}
	fi.WriteString("done\n")
	g.MustRunIn(fi.Bytes(), "fast-import", "--quiet", "--done", "--date-format=raw")
	var q strings.Builder
	for b := 0; b < nb; b++ {
		fmt.Fprintf(&q, "refs/verif/t%d_0^{tree}\nrefs/verif/t%d_1^{tree}\n", b, b)
	}
	trees := strings.Fields(g.MustRunIn([]byte(q.String()), "cat-file", "--batch-check=%(objectname)").S())
	if len(trees) != 2*nb {
		fw.Abort("tree ids: got %d", len(trees))
	}
	objs := fMemObjects(g)
	pool := &fStoragePool{objs: objs}

	var fmu sortedFailures
	report := func(kind string, cs *c45Case, what string, detail map[string]any) {
		fmu.add(kind+" | "+cs.class, cs, what, detail)
	}

	c.ParDo(nb, 0, func(b int) {
		treeA, treeB := trees[2*b], trees[2*b+1]
		var mine []*c45Case
		byPath := map[string]*c45Case{}
		for i, cs := range cases {
			if batchOf(i) == b {
				mine = append(mine, cs)
				byPath[cs.path] = cs
			}
		}
		st := pool.get()
		defer pool.put(st)
		var patch *object.Patch
		var p3, p0 string
		pOther := map[int]string{} // contexts other than 3 and 0
		var altWhat string         // other entry points disagreeing with Tree.Patch + Encode
		var stats object.FileStats
		var errS string
		pan := fRecover(func() {
			ta, err := object.GetTree(st, plumbing.NewHash(treeA))
			if err != nil {
				errS = err.Error()
				return
			}
			tb, err := object.GetTree(st, plumbing.NewHash(treeB))
			if err != nil {
				errS = err.Error()
				return
			}
			patch, err = ta.Patch(tb)
			if err != nil {
				errS = "Tree.Patch: " + err.Error()
				return
			}
			var w3, w0 bytes.Buffer
			if err := patch.Encode(&w3); err != nil {
				errS = "Patch.Encode: " + err.Error()
				return
			}
			if err := fdiff.NewUnifiedEncoder(&w0, 0).Encode(patch); err != nil {
				errS = "UnifiedEncoder(0).Encode: " + err.Error()
				return
			}
			p3, p0 = w3.String(), w0.String()
			stats = patch.Stats()
			for _, ctx := range c45Contexts[2:] {
				var w bytes.Buffer
				if err := fdiff.NewUnifiedEncoder(&w, ctx).Encode(patch); err != nil {
					errS = fmt.Sprintf("UnifiedEncoder(%d).Encode: %v", ctx, err)
					return
				}
				pOther[ctx] = w.String()
			}
			// the other entry points must print the same patch: Patch.String,
			// Changes.Patch (on fresh Tree values) and one Change.Patch per change
			if got := patch.String(); got != p3 {
				altWhat = "Patch.String() differs from Patch.Encode()"
				return
			}
			ta2, _ := object.GetTree(st, plumbing.NewHash(treeA))
			tb2, _ := object.GetTree(st, plumbing.NewHash(treeB))
			chs, err := ta2.Diff(tb2)
			if err != nil {
				errS = "Tree.Diff: " + err.Error()
				return
			}
			cp, err := chs.Patch()
			if err != nil {
				errS = "Changes.Patch: " + err.Error()
				return
			}
			if got := cp.String(); got != p3 {
				altWhat = "Changes.Patch().String() differs from Tree.Patch().Encode()"
				return
			}
			var one strings.Builder
			for _, ch := range chs {
				chp, err := ch.Patch()
				if err != nil {
					errS = "Change.Patch: " + err.Error()
					return
				}
				one.WriteString(chp.String())
			}
			if one.String() != p3 {
				altWhat = "the concatenation of Change.Patch().String() over Tree.Diff differs from Tree.Patch().Encode()"
			}
		})
		if pan != "" || errS != "" {
			// a whole batch failing: report against its first case
			msg := errS
			if pan != "" {
				msg = "panic: " + pan
			}
			fmu.add("patch generation fails: "+c45NumRe.ReplaceAllString(msg, "N"), mine[0], msg, map[string]any{"batch": b})
			return
		}
		if altWhat != "" {
			fmu.add("entry points disagree: "+altWhat, mine[0], altWhat, map[string]any{"batch": b})
		}
		// git side
		numstat := map[string]string{}
		for _, l := range strings.Split(g.MustRun("diff-tree", "-r", "--no-renames", "--numstat", treeA, treeB).S(), "\n") {
			f := strings.Split(l, "\t")
			if len(f) == 3 {
				numstat[f[2]] = f[0] + " " + f[1]
			}
		}
		gitBinary := map[string]bool{}
		for _, s := range c45Split(string(g.MustRun("diff-tree", "-r", "--no-renames", "-p", treeA, treeB).Out)) {
			if strings.Contains(s.text, "\nBinary files ") {
				gitBinary[s.path] = true
			}
		}
		// context 0: `git apply --unidiff-zero` has no context to anchor a hunk
		// and mis-places even git's own -U0 hunks when equal lines repeat, so a
		// failure there is reported only when a STRICT interpreter of the
		// unified format (positions taken literally) cannot reproduce the new
		// version either. The interpreter is replayed against git's own -U0
		// patch of every case first.
		for _, s := range c45Split(string(g.MustRun("diff-tree", "-r", "--no-renames", "-p", "-U0", "--full-index", treeA, treeB).Out)) {
			if cs, ok := byPath[s.path]; ok && !cs.noApply {
				if why := c45Strict(s.text, cs.old, cs.new); why != "" {
					fw.Abort("strict unified-diff interpreter fails on git's own -U0 patch (%s): %q", why, s.text)
				}
				c.TracesValidated(1)
			}
		}
		goStats := map[string]string{}
		for _, s := range stats {
			goStats[s.Name] = fmt.Sprintf("%d %d", s.Addition, s.Deletion)
		}
		for ci, ctx := range c45Contexts {
			text := p3
			if ctx == 0 {
				text = p0
			} else if ctx != 3 {
				text = pOther[ctx]
			}
			secs := c45Split(text)
			secOf := map[string]*c45Section{}
			var appl []*c45Section
			for _, s := range secs {
				cs, ok := byPath[s.path]
				if !ok {
					fmu.add(fmt.Sprintf("patch has a section for a path that did not change (context %d)", ctx), mine[0], "section header: "+strings.SplitN(s.text, "\n", 2)[0], map[string]any{"section": s.text})
					continue
				}
				if _, dup := secOf[s.path]; dup {
					report(fmt.Sprintf("two patch sections for one path (context %d)", ctx), cs, "duplicate section", map[string]any{"section": s.text})
					continue
				}
				secOf[s.path] = s
				if !cs.noApply {
					appl = append(appl, s)
				}
			}
			idx := filepath.Join(dir, fmt.Sprintf("verif-index-%d-%d", b, ctx))
			failed, listing := c45Apply(g, treeA, appl, ctx == 0, idx)
			for _, cs := range mine {
				c.Eval()
				s := secOf[cs.path]
				sect := ""
				if s != nil {
					sect = s.text
				}
				det := map[string]any{"context": ctx, "old": c45Show(cs.old), "new": c45Show(cs.new), "go_git_patch_section": sect}
				outcome := "ok"
				goBin := s != nil && strings.Contains(s.text, "\nBinary files ")
				switch {
				case s == nil:
					outcome = "no section"
					report(fmt.Sprintf("no patch section for a changed path (context %d)", ctx), cs, "go-git's patch has no section for this change", det)
				case goBin != gitBinary[cs.path]:
					outcome = "marker"
					report(fmt.Sprintf("Binary-files marker differs from git diff (go-git %v, git %v)", goBin, gitBinary[cs.path]), cs, "binary marker mismatch", det)
				case cs.noApply:
				default:
					strictWhy := ""
					if ctx == 0 {
						strictWhy = c45Strict(s.text, cs.old, cs.new)
						want := ""
						if cs.new != nil {
							want = cs.new.mode + " " + blobID[cs.new.data]
						}
						blobOf := func(e string) string {
							if f := strings.Fields(e); len(f) == 2 {
								return f[1]
							}
							return ""
						}
						// only a wrong CONTENT can be git's misplacement; a wrong mode is compared as usual
						if _, bad := failed[cs.path]; strictWhy == "" && (bad || blobOf(listing[cs.path]) != blobOf(want)) {
							outcome = "valid patch mis-applied by git apply --unidiff-zero (not compared)"
							break
						}
						det["strict_interpreter_says"] = strictWhy
					}
					if msg, bad := failed[cs.path]; bad {
						outcome = "rejected"
						det["git_apply_says"] = msg
						report(fmt.Sprintf("git apply rejects the patch (context %d): %s", ctx, msg), cs, "git apply: "+msg, det)
						break
					}
					want := ""
					if cs.new != nil {
						want = cs.new.mode + " " + blobID[cs.new.data]
					}
					if listing[cs.path] != want && ctx == 0 && c45NewStartWrong(s.text, cs.new) {
						outcome = "wrong result (bad new-side start)"
						det["got"], det["want"] = listing[cs.path], want
						fmu.add("context 0: the new-side start line in a hunk header is wrong and git apply patches another matching line", cs, "index entry after git apply --unidiff-zero: "+listing[cs.path]+", expected "+want, det)
					} else if gf, wf := strings.Fields(listing[cs.path]), strings.Fields(want); len(gf) == 2 && len(wf) == 2 && gf[1] == wf[1] && gf[0] != wf[0] {
						outcome = "wrong mode"
						det["got"], det["want"] = listing[cs.path], want
						fmu.add(fmt.Sprintf("patch applies with the right content but the file mode is not the new one (context %d)", ctx), cs, "index entry after git apply: "+listing[cs.path]+", expected "+want, det)
					} else if listing[cs.path] != want {
						outcome = "wrong result"
						det["got"], det["want"] = listing[cs.path], want
						report(fmt.Sprintf("patch applies but does not reproduce the new version (context %d)", ctx), cs, "index entry after git apply: "+listing[cs.path]+", expected "+want, det)
					}
				}
				if ci == 0 {
					// statistics (context independent)
					gs, ok := numstat[cs.path]
					if !ok {
						fw.Abort("git --numstat has no line for %s", cs.path)
					}
					gg, has := goStats[cs.path]
					switch {
					case gs == "- -":
						if has {
							outcome += "/stats"
							report("Stats() has line counts for a file git reports as binary", cs, "go-git "+gg+", git - -", det)
						}
					default:
						o, n := "", ""
						if cs.old != nil {
							o = cs.old.data
						}
						if cs.new != nil {
							n = cs.new.data
						}
						ma, md := c45LCS(o, n)
						if gs != fmt.Sprintf("%d %d", ma, md) {
							// git's own numbers are not the minimum: heuristic, not compared
							c.Class("numstat not forced: " + cs.class)
							break
						}
						if !has {
							outcome += "/stats"
							report("Stats() has no entry where git --numstat has one", cs, "git "+gs+", go-git none", det)
						} else if gg != gs {
							outcome += "/stats"
							var ga, gd int
							fmt.Sscanf(gg, "%d %d", &ga, &gd)
							cmp := func(x, y int) string {
								switch {
								case x < y:
									return "too few"
								case x > y:
									return "too many"
								}
								return "right"
							}
							eol := func(s *c45Side) string {
								switch {
								case s == nil:
									return "absent"
								case s.data == "":
									return "empty"
								case strings.HasSuffix(s.data, "\n"):
									return "ends with newline"
								}
								return "no final newline"
							}
							fmu.add(fmt.Sprintf("Stats() differs from git --numstat: additions %s, deletions %s | old %s, new %s", cmp(ga, ma), cmp(gd, md), eol(cs.old), eol(cs.new)), cs, "git "+gs+", go-git "+gg, det)
						}
					}
				}
				c.Class(fmt.Sprintf("%s | ctx %d | %s", cs.class, ctx, outcome))
			}
		}
		if b == 0 {
			for i := 0; i < 3 && i < len(mine); i++ {
				c.Sample(map[string]any{"family": mine[i].fam, "old": c45Show(mine[i].old), "new": c45Show(mine[i].new)})
			}
		}
	})
	fmu.flush(c)
}

// c45Strict applies one patch section to old taking every header number
// literally; "" when the result is exactly new.
func c45Strict(section string, old, nw *c45Side) string {
	split := func(s *c45Side) []string {
		if s == nil || s.data == "" {
			return nil
		}
		l := strings.SplitAfter(s.data, "\n")
		if l[len(l)-1] == "" {
			l = l[:len(l)-1]
		}
		return l
	}
	ol := split(old)
	var out []string
	cur := 0
	lines := strings.Split(section, "\n")
	for i := 0; i < len(lines); i++ {
		m := c45HunkRe.FindStringSubmatch(lines[i])
		if m == nil {
			continue
		}
		num := func(s string, def int) int {
			if s == "" {
				return def
			}
			n, _ := strconv.Atoi(s)
			return n
		}
		os, oc, ns, nc := num(m[1], 0), num(m[2], 1), num(m[3], 0), num(m[4], 1)
		first := os - 1
		if oc == 0 {
			first = os
		}
		if first < cur || first > len(ol) {
			return "old-side start out of order or beyond the file"
		}
		out = append(out, ol[cur:first]...)
		cur = first
		wantNew := ns - 1
		if nc == 0 {
			wantNew = ns
		}
		if len(out) != wantNew {
			return fmt.Sprintf("new-side start %d does not match the position %d reached in the new file", ns, len(out)+1)
		}
		gotO, gotN := 0, 0
		for j := i + 1; j < len(lines); j++ {
			l := lines[j]
			if l == "" || strings.HasPrefix(l, "@@ ") || strings.HasPrefix(l, "diff --git ") {
				break
			}
			if l[0] == '\\' {
				continue
			}
			text := l[1:] + "\n"
			if j+1 < len(lines) && strings.HasPrefix(lines[j+1], "\\") {
				text = l[1:]
			}
			switch l[0] {
			case ' ', '-':
				if cur >= len(ol) || ol[cur] != text {
					return "a context/removed line does not match the old file at the announced position"
				}
				if l[0] == ' ' {
					out = append(out, text)
					gotN++
				}
				cur++
				gotO++
			case '+':
				out = append(out, text)
				gotN++
			default:
				return "unexpected line in hunk"
			}
		}
		if gotO != oc || gotN != nc {
			return "hunk header counts do not match the hunk body"
		}
	}
	out = append(out, ol[cur:]...)
	want := ""
	if nw != nil {
		want = nw.data
	}
	if strings.Join(out, "") != want {
		return "result differs from the new version"
	}
	return ""
}

var c45HunkRe = regexp.MustCompile(`^@@ -([0-9]+)(?:,([0-9]+))? \+([0-9]+)(?:,([0-9]+))? @@`)

// c45NewStartWrong reports whether some hunk header's new-side start is not
// the one that follows from its old-side start and the sizes of the preceding
// hunks (used only to NAME a failure class, never to decide a verdict).
func c45NewStartWrong(section string, nw *c45Side) bool {
	delta := 0
	wrong := false
	for _, l := range strings.Split(section, "\n") {
		m := c45HunkRe.FindStringSubmatch(l)
		if m == nil {
			continue
		}
		num := func(s string, def int) int {
			if s == "" {
				return def
			}
			n, _ := strconv.Atoi(s)
			return n
		}
		os, oc, ns, nc := num(m[1], 0), num(m[2], 1), num(m[3], 0), num(m[4], 1)
		oldFirst := os
		if oc == 0 {
			oldFirst = os + 1
		}
		want := oldFirst + delta
		if nc == 0 {
			want--
		}
		if ns != want {
			// the ONE known defect: a hunk that deletes and adds lines gets
			// the line before it as new-side start (exactly one too small);
			// any other deviation is a different defect and keeps its own key
			if !(oc > 0 && nc > 0 && ns == want-1) {
				return false
			}
			wrong = true
		}
		delta += nc - oc
	}
	return wrong
}

func c45Show(s *c45Side) any {
	if s == nil {
		return "absent"
	}
	return map[string]string{"mode": s.mode, "data": s.data}
}

// sortedFailures keeps, per key, the smallest failing case (by content size,
// then path) so the replay does not depend on scheduling.
type c45FailEntry struct {
	cs     *c45Case
	what   string
	detail map[string]any
	n      int
}

type sortedFailures struct {
	mu sync.Mutex
	m  map[string]*c45FailEntry
}

func (s *sortedFailures) add(key string, cs *c45Case, what string, detail map[string]any) {
	s.mu.Lock()
	defer s.mu.Unlock()
	if s.m == nil {
		s.m = map[string]*c45FailEntry{}
	}
	size := func(c *c45Case) int {
		n := 0
		if c.old != nil {
			n += len(c.old.data)
		}
		if c.new != nil {
			n += len(c.new.data)
		}
		return n
	}
	e, ok := s.m[key]
	if !ok {
		s.m[key] = &c45FailEntry{cs, what, detail, 1}
		return
	}
	e.n++
	ctxOf := func(d map[string]any) int {
		if v, ok := d["context"].(int); ok {
			return v
		}
		return -1
	}
	if size(cs) < size(e.cs) || (size(cs) == size(e.cs) && (cs.path < e.cs.path || (cs.path == e.cs.path && ctxOf(detail) > ctxOf(e.detail)))) {
		e.cs, e.what, e.detail = cs, what, detail
	}
}

func (s *sortedFailures) flush(c *fw.Ctx) {
	var keys []string
	for k := range s.m {
		keys = append(keys, k)
	}
	sort.Strings(keys)
	for _, k := range keys {
		e := s.m[k]
		e.detail["cases_in_class"] = e.n
		e.detail["path"] = e.cs.path
		for i := 0; i < e.n; i++ {
			c.Fail(k, e.what+" (smallest case of the class: old="+fmt.Sprintf("%q", c45Show(e.cs.old))+" new="+fmt.Sprintf("%q", c45Show(e.cs.new))+")", e.detail)
		}
	}
}

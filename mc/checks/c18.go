package checks

import (
	"bytes"
	"errors"
	"fmt"
	"io"
	"sort"
	"strings"

	"github.com/go-git/go-git/v6/plumbing"
	"github.com/go-git/go-git/v6/plumbing/cache"
	"github.com/go-git/go-git/v6/plumbing/format/packfile"
	"github.com/go-git/go-git/v6/storage/filesystem"
	"github.com/go-git/go-git/v6/storage/memory"

	"verifmc/fw"
	"verifmc/histx"
	"verifmc/mcfs"
)

func init() {
	fw.Register(&fw.Check{ID: "C18", Level: "model_checking", Run: runC18, QuickBudget: 150, ThoroughBudget: 1200})
}

// universe: 3 loose blobs, 2 packs of one blob each, 1 initial object
type c18Uni struct {
	content map[string][]byte        // name -> content
	hash    map[string]plumbing.Hash // name -> id
	packs   map[string][]byte        // pack name -> bytes
	absent  plumbing.Hash
}

func c18Universe() *c18Uni {
	u := &c18Uni{content: map[string][]byte{}, hash: map[string]plumbing.Hash{}, packs: map[string][]byte{}}
	ms := memory.NewStorage()
	for _, n := range []string{"init", "l0", "l1", "set", "q0", "q1", "p0"} {
		u.content[n] = []byte("content of " + n + "\n")
		o := ms.NewEncodedObject()
		o.SetType(plumbing.BlobObject)
		w, _ := o.Writer()
		w.Write(u.content[n])
		w.Close()
		h, _ := ms.SetEncodedObject(o)
		u.hash[n] = h
	}
	for _, q := range []string{"q0", "q1", "p0"} {
		var buf bytes.Buffer
		if _, err := packfile.NewEncoder(&buf, ms, false).Encode([]plumbing.Hash{u.hash[q]}, 10); err != nil {
			panic(err)
		}
		u.packs[q] = buf.Bytes()
	}
	u.absent = plumbing.NewHash("00000000000000000000000000000000000000aa")
	return u
}

type c18Sys struct {
	u       *c18Uni
	cfg     string
	w       *mcfs.World
	st      *filesystem.Storage
	model   map[string]bool // objects whose write has returned successfully
	pending map[string]bool // writers open
	lw      map[string]io.WriteCloser
	pw      map[string]io.WriteCloser
}

var c18Ops = []string{"OpenLoose(l0)", "WriteClose(l0)", "OpenLoose(l1)", "WriteClose(l1)", "OpenPack(q0)", "WriteClose(q0)", "OpenPack(q1)", "WriteClose(q1)", "SetEncodedObject(set)", "Has(absent)", "Iter(blob)", "ObjectPacks", "Prefix(absent)",
	// lookups of an object BEFORE it is written (whatever they leave behind - a negative answer, a cached
	// listing - must not hide the object once its write has returned), and cache-wide operations
	"Probe(l0)", "Probe(q0)", "Probe(set)", "Reindex", "CloseIdle"}

func (s *c18Sys) Apply(k int) (string, string) {
	name := c18Ops[k]
	arg := ""
	if i := strings.IndexByte(name, '('); i > 0 {
		arg = strings.TrimSuffix(name[i+1:], ")")
	}
	res := func(err error) string {
		if err == nil {
			return "ok"
		}
		return "error(" + normErr(err) + ")"
	}
	switch {
	case strings.HasPrefix(name, "OpenLoose"):
		w, err := s.st.RawObjectWriter(plumbing.BlobObject, int64(len(s.u.content[arg])))
		if err == nil {
			s.lw[arg] = w
			s.pending[arg] = true
		}
		return "ok", res(err)
	case strings.HasPrefix(name, "OpenPack"):
		w, err := s.st.PackfileWriter()
		if err == nil {
			s.pw[arg] = w
			s.pending[arg] = true
		}
		return "ok", res(err)
	case strings.HasPrefix(name, "WriteClose"):
		var w io.WriteCloser
		var data []byte
		if x, ok := s.lw[arg]; ok {
			w, data = x, s.u.content[arg]
			delete(s.lw, arg)
		} else {
			w, data = s.pw[arg], s.u.packs[arg]
			delete(s.pw, arg)
		}
		_, err := w.Write(data)
		if err == nil {
			err = w.Close()
		}
		delete(s.pending, arg)
		if err == nil {
			s.model[arg] = true
		}
		return "ok", res(err)
	case strings.HasPrefix(name, "SetEncodedObject"):
		o := s.st.NewEncodedObject()
		o.SetType(plumbing.BlobObject)
		w, _ := o.Writer()
		w.Write(s.u.content[arg])
		w.Close()
		_, err := s.st.SetEncodedObject(o)
		if err == nil {
			s.model[arg] = true
		}
		return "ok", res(err)
	case strings.HasPrefix(name, "Probe"):
		h := s.u.hash[arg]
		want := "absent"
		if s.model[arg] {
			want = "present"
		}
		var got []string
		add := func(ok bool, err error) {
			switch {
			case err != nil && !errors.Is(err, plumbing.ErrObjectNotFound):
				got = append(got, "error("+normErr(err)+")")
			case ok:
				got = append(got, "present")
			default:
				got = append(got, "absent")
			}
		}
		herr := s.st.HasEncodedObject(h)
		add(herr == nil, herr)
		_, serr := s.st.EncodedObjectSize(h)
		add(serr == nil, serr)
		_, gerr := s.st.EncodedObject(plumbing.AnyObject, h)
		add(gerr == nil, gerr)
		pfx, perr := s.st.HashesWithPrefix(h.Bytes()[:3])
		in := false
		for _, x := range pfx {
			in = in || x == h
		}
		add(in, perr)
		if s.pending[arg] && !s.model[arg] {
			return "unconstrained", "unconstrained" // a writer is open
		}
		return strings.Join([]string{want, want, want, want}, ","), strings.Join(got, ",")
	case name == "Reindex":
		return "ok", res(s.st.Reindex())
	case name == "CloseIdle":
		return "ok", res(s.st.CloseIdleDescriptors())
	case name == "Has(absent)":
		err := s.st.HasEncodedObject(s.u.absent)
		if errors.Is(err, plumbing.ErrObjectNotFound) {
			return "not-found", "not-found"
		}
		return "not-found", res(err)
	case name == "Iter(blob)":
		it, err := s.st.IterEncodedObjects(plumbing.BlobObject)
		if err == nil {
			err = it.ForEach(func(plumbing.EncodedObject) error { return nil })
		}
		return "ok", res(err)
	case name == "ObjectPacks":
		_, err := s.st.ObjectPacks()
		return "ok", res(err)
	case name == "Prefix(absent)":
		_, err := s.st.HashesWithPrefix(s.u.absent.Bytes()[:1])
		return "ok", res(err)
	}
	panic("bad op " + name)
}

func (s *c18Sys) Observe() (string, string) {
	var exp, got []string
	names := []string{"init", "l0", "l1", "set", "q0", "q1", "p0"}
	iterSeen := map[plumbing.Hash]bool{}
	if it, err := s.st.IterEncodedObjects(plumbing.BlobObject); err != nil {
		got = append(got, "iter-error "+normErr(err))
	} else if err := it.ForEach(func(o plumbing.EncodedObject) error { iterSeen[o.Hash()] = true; return nil }); err != nil {
		got = append(got, "iter-error "+normErr(err))
	}
	for _, n := range names {
		if s.pending[n] && !s.model[n] {
			continue // a writer is open: visibility is not specified yet
		}
		h := s.u.hash[n]
		present := s.model[n]
		want := "absent"
		if present {
			want = "present"
		}
		exp = append(exp, fmt.Sprintf("%s has=%s size=%s get=%s typed=%s iter=%s prefix=%s", n, want, want, want, want, want, want))
		f := func(ok bool, err error) string {
			if err != nil && !errors.Is(err, plumbing.ErrObjectNotFound) {
				return "error(" + strings.ReplaceAll(normErr(err), " ", "_") + ")"
			}
			if ok {
				return "present"
			}
			return "absent"
		}
		herr := s.st.HasEncodedObject(h)
		sz, serr := s.st.EncodedObjectSize(h)
		getOK := func(t plumbing.ObjectType) (bool, error) {
			o, err := s.st.EncodedObject(t, h)
			if err != nil {
				return false, err
			}
			r, err := o.Reader()
			if err != nil {
				return false, err
			}
			b, err := io.ReadAll(r)
			r.Close()
			if err != nil {
				return false, err
			}
			if !bytes.Equal(b, s.u.content[n]) {
				return false, fmt.Errorf("wrong content")
			}
			return true, nil
		}
		g1, e1 := getOK(plumbing.AnyObject)
		g2, e2 := getOK(plumbing.BlobObject)
		pfx, perr := s.st.HashesWithPrefix(h.Bytes()[:2])
		inPfx := false
		for _, x := range pfx {
			if x == h {
				inPfx = true
			}
		}
		got = append(got, fmt.Sprintf("%s has=%s size=%s get=%s typed=%s iter=%s prefix=%s", n,
			f(herr == nil, herr), f(serr == nil && sz == int64(len(s.u.content[n])), serr), f(g1, e1), f(g2, e2), f(iterSeen[h], nil), f(inPfx, perr)))
	}
	sort.Strings(exp)
	sort.Strings(got)
	return strings.Join(exp, "\n"), strings.Join(got, "\n")
}

func (s *c18Sys) Key() string {
	var ks []string
	for k := range s.model {
		ks = append(ks, k)
	}
	for k := range s.pending {
		ks = append(ks, "open:"+k)
	}
	sort.Strings(ks)
	return s.cfg + "|" + strings.Join(ks, ",")
}
func (s *c18Sys) Close() {
	for _, w := range s.lw {
		w.Close()
	}
	for _, w := range s.pw {
		w.Close()
	}
	s.st.Close()
}

func runC18(c *fw.Ctx) {
	depth := c.Pick(4, 5)
	c.Bound("depth", depth)
	c.Bound("ops", c18Ops)
	c.SetRule("all well-formed histories up to depth over two loose-object writers, two pack writers, SetEncodedObject and cache-filling lookups (Has(absent), Iter, ObjectPacks, Prefix) on a fresh real filesystem storage per history (no state merging: every history is replayed), x {ExclusiveAccess} x {UseInMemoryIdx}; after every history all lookup flavours (has, size, get any/typed with content, type iteration, prefix search) for every object must agree with the set of objects whose write has returned successfully; objects with an open writer are unconstrained; plus, under the controlled scheduler, a PackfileWriter write+close on the instance interleaved at every synchronisation/filesystem point with other threads' first lookups (preemption bound 1/2): the object must be visible to every lookup starting after the write returned; distinct = distinct (configuration, observation) pairs")
	c.Assume("filesystem = mcfs; single instance, sequential calls")
	// interleaved variant first (it has a deadline of its own, so the sequential histories cannot starve it):
	// a pack write on the instance racing with the instance's first index load (every schedule within the
	// preemption bound, see C23's engine); the written object must be visible to every lookup that starts
	// after the write returned
	c23Run(c, "pack(same instance)")
	u := c18Universe()
	base := mcfs.NewWorld()
	{ // initial repository with one loose object
		st := filesystem.NewStorage(base.View("/g", "g"), cache.NewObjectLRUDefault())
		o := st.NewEncodedObject()
		o.SetType(plumbing.BlobObject)
		w, _ := o.Writer()
		w.Write(u.content["init"])
		w.Close()
		if _, err := st.SetEncodedObject(o); err != nil {
			fw.Abort("init: %v", err)
		}
	}
	// variant of the initial repository that already holds a pack (object p0): the pack list of the
	// instance is not empty when the first writer publishes, and lookups walk more than the new pack
	basePack := base.Clone()
	{
		st := filesystem.NewStorage(basePack.View("/g", "g"), cache.NewObjectLRUDefault())
		pw, err := st.PackfileWriter()
		if err == nil {
			_, err = pw.Write(u.packs["p0"])
			if cerr := pw.Close(); err == nil {
				err = cerr
			}
		}
		if err != nil {
			fw.Abort("init pack: %v", err)
		}
		st.Close()
	}
	// a foreign repository holding every object of the universe: an instance of it shares the object
	// cache with the instance under test and has read everything (the cache is keyed by hash only)
	foreign := mcfs.NewWorld()
	{
		st := filesystem.NewStorage(foreign.View("/f", "f"), cache.NewObjectLRUDefault())
		for _, n := range []string{"init", "l0", "l1", "set", "q0", "q1", "p0"} {
			o := st.NewEncodedObject()
			o.SetType(plumbing.BlobObject)
			w, _ := o.Writer()
			w.Write(u.content[n])
			w.Close()
			if _, err := st.SetEncodedObject(o); err != nil {
				fw.Abort("foreign init: %v", err)
			}
		}
	}
	newPerHistory := c.Pick(1, 0) // quick: at most one probe/reindex/soft-close per history; thorough: no limit
	c.Bound("new_ops_per_history(0=unlimited)", newPerHistory)
	type c18Cfg struct{ excl, mem, initPack, foreignCache bool }
	cfgList := []c18Cfg{{false, false, false, false}, {true, false, false, false}, {false, false, true, true}, {true, true, false, false},
		{false, true, false, false}, {true, false, true, true}}
	c.Bound("configurations", "ExclusiveAccess x UseInMemoryIdx on a repository without packs; ExclusiveAccess x {lazy idx} on a repository with an initial pack and an object cache shared with (and warmed by) an instance of a foreign repository that holds every object")
	total := histx.Result{}
	// two passes: all configurations to depth-1 first, then all to the full depth, so that a deadline cuts
	// the deepest level of the last configurations rather than whole configurations
	c.Bound("passes", []int{depth - 1, depth})
	for _, passDepth := range []int{depth - 1, depth} {
		for _, cf := range cfgList {
			excl, mem := cf.excl, cf.mem
			cfg := fmt.Sprintf("ExclusiveAccess=%v UseInMemoryIdx=%v", excl, mem)
			if cf.initPack {
				cfg += " initial-pack shared-warm-cache"
			}
			cf := cf
			sp := histx.Spec{
				Name: "C18/" + cfg, OpNames: c18Ops, Depth: passDepth, NoDedup: true,
				New: func() histx.Sys {
					w := base.Clone()
					model := map[string]bool{"init": true}
					oc := cache.NewObjectLRUDefault()
					if cf.initPack {
						w = basePack.Clone()
						model["p0"] = true
					}
					if cf.foreignCache {
						fst := filesystem.NewStorage(foreign.Clone().View("/f", "f"), oc)
						for _, h := range u.hash {
							if o, err := fst.EncodedObject(plumbing.AnyObject, h); err != nil {
								fw.Abort("foreign read: %v", err)
							} else if r, err := o.Reader(); err == nil {
								io.Copy(io.Discard, r)
								r.Close()
							}
						}
					}
					st := filesystem.NewStorageWithOptions(w.View("/g", "g"), oc, filesystem.Options{ExclusiveAccess: excl, UseInMemoryIdx: mem})
					return &c18Sys{u: u, cfg: cfg, w: w, st: st, model: model, pending: map[string]bool{}, lw: map[string]io.WriteCloser{}, pw: map[string]io.WriteCloser{}}
				},
				Enabled: func(hist []int, k int) bool {
					// writers: open once, write-close once after open
					name := c18Ops[k]
					count := func(n string) int {
						x := 0
						for _, h := range hist {
							if c18Ops[h] == n {
								x++
							}
						}
						return x
					}
					if strings.HasPrefix(name, "Open") || strings.HasPrefix(name, "SetEncoded") {
						return count(name) == 0
					}
					if strings.HasPrefix(name, "WriteClose") {
						arg := name[len("WriteClose"):]
						opened := count("OpenLoose"+arg) + count("OpenPack"+arg)
						return opened == 1 && count(name) == 0
					}
					if isNew := func(n string) bool {
						return strings.HasPrefix(n, "Probe") || n == "Reindex" || n == "CloseIdle"
					}; isNew(name) && newPerHistory > 0 {
						n := 0
						for _, h := range hist {
							if isNew(c18Ops[h]) {
								n++
							}
						}
						if n >= newPerHistory {
							return false
						}
					}
					if strings.HasPrefix(name, "Probe") {
						// only while the object is not yet written (afterwards the final observation looks it up anyway)
						arg := name[len("Probe"):]
						if count("WriteClose"+arg)+count("SetEncodedObject"+arg) > 0 {
							return false
						}
					}
					// lookups: not twice in a row
					return len(hist) == 0 || hist[len(hist)-1] != k
				},
				Classify: func(hist []string, where, e, g string) string {
					return cfg + " | " + c18Shape(hist, where, e, g)
				},
			}
			res := histx.Run(c, sp)
			if passDepth != depth {
				continue
			}
			total.States += res.States
			total.Transitions += res.Transitions
			if !res.Complete {
				c.Incomplete(fmt.Sprintf("%s: depth %d only", cfg, res.MaxDepth))
			}
			c.Sample(map[string]any{"config": cfg, "histories": res.Histories, "example": []string{c18Ops[0], c18Ops[9], c18Ops[1]}})
		}
	}
	c.States(total.States)
	c.Transitions(total.Transitions)
}

// c18Shape: which lookup flavours disagree, for which kind of object, after which kind of op
func c18Shape(hist []string, where, e, g string) string {
	if strings.HasPrefix(where, "result of") {
		return where + " = " + g
	}
	el, gl := strings.Split(e, "\n"), strings.Split(g, "\n")
	em := map[string]string{}
	for _, l := range el {
		f := strings.SplitN(l, " ", 2)
		if len(f) == 2 {
			em[f[0]] = f[1]
		}
	}
	var diffs []string
	for _, l := range gl {
		f := strings.SplitN(l, " ", 2)
		if len(f) != 2 {
			diffs = append(diffs, l)
			continue
		}
		if em[f[0]] != f[1] {
			kind := "loose"
			if strings.HasPrefix(f[0], "q") {
				kind = "packed"
			}
			var bad []string
			ef, gf := strings.Fields(em[f[0]]), strings.Fields(f[1])
			for i := range gf {
				if i < len(ef) && ef[i] != gf[i] {
					bad = append(bad, gf[i]+"(want "+strings.SplitN(ef[i], "=", 2)[1]+")")
				}
			}
			diffs = append(diffs, kind+" object: "+strings.Join(bad, ","))
		}
	}
	sort.Strings(diffs)
	diffs = dedup(diffs)
	// which cache-filling lookup preceded
	var fills []string
	for _, h := range hist {
		if !strings.HasPrefix(h, "Open") && !strings.HasPrefix(h, "WriteClose") && !strings.HasPrefix(h, "Set") {
			fills = append(fills, h)
		}
	}
	fills = dedup(sortedCopy(fills))
	return strings.Join(diffs, "; ") + " after lookups " + strings.Join(fills, "+")
}

func sortedCopy(s []string) []string { c := append([]string{}, s...); sort.Strings(c); return c }

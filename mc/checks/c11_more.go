package checks

// C11, further drivers on the Storage level:
//  * every object of the repository (not only the role objects) read through
//    one Storage in id order and in reverse order, with every read kind, and
//    read from inside an iteration callback;
//  * every shape of prefix handed to HashesWithPrefix (empty, 1 byte, 2 bytes,
//    hs-1, hs, hs+1 bytes, 00/ff, of loose / packed / alternate / absent ids);
//  * the same main repository with TWO alternates (go-git searches one
//    alternate inline and several alternates concurrently).

import (
	"fmt"
	"os"
	"path/filepath"
	"sort"
	"strings"

	"github.com/go-git/go-git/v6/plumbing"
	"github.com/go-git/go-git/v6/storage/filesystem"

	"verifmc/fw"
)

// c11QuickCfgs is the configuration set of the quick product for one repository.
func c11ProductCfgs(c *fw.Ctx, r *c11Repo, cfgs []c11Cfg) []c11Cfg {
	var out []c11Cfg
	for _, k := range cfgs {
		if !c.Thorough() && r.of == "sha256" && (k.Excl || k.Mmap || k.LOT != 0) {
			continue
		}
		if c.Thorough() && k.HighMem && (k.Excl || k.Mmap) {
			continue
		}
		if c.Thorough() && r.of == "sha256" && (k.Mmap || k.HighMem) {
			continue
		}
		if !c.Thorough() && k.Mmap && k.Excl {
			continue
		}
		out = append(out, k)
	}
	return out
}

// c11WithRoles returns a view of r with extra roles (role name -> id).
func (r *c11Repo) withRoles(extra map[string]string) *c11Repo {
	rr := *r
	rr.roles = map[string]string{}
	for k, v := range r.roles {
		rr.roles[k] = v
	}
	for k, v := range extra {
		rr.roles[k] = v
	}
	return &rr
}

// c11EveryObject: all objects, long sequences on one Storage.
func c11EveryObject(c *fw.Ctx, r *c11Repo, cfgs []c11Cfg) {
	var ids []string
	extra := map[string]string{}
	for h := range r.model {
		ids = append(ids, h)
		extra["id:"+h] = h
	}
	sort.Strings(ids)
	rr := r.withRoles(extra)
	kinds := []int{c11GetAny, c11GetTyped, c11Size, c11Has, c11Delta, c11GetWrong, c11Partial}
	// sequence shapes: per kind, all ids ascending / descending; all kinds per id ascending
	type shape struct {
		name string
		seq  []c11Op
	}
	var shapes []shape
	for _, k := range kinds {
		var up, down []c11Op
		for i := range ids {
			up = append(up, c11Op{k, "id:" + ids[i]})
			down = append(down, c11Op{k, "id:" + ids[len(ids)-1-i]})
		}
		shapes = append(shapes, shape{c11KindName[k] + "-ascending", up})
		if k == c11GetAny || k == c11Delta || c.Thorough() {
			shapes = append(shapes, shape{c11KindName[k] + "-descending", down})
		}
	}
	var mixed []c11Op
	for i := range ids {
		for _, k := range kinds {
			mixed = append(mixed, c11Op{k, "id:" + ids[i]})
		}
	}
	shapes = append(shapes, shape{"all-kinds-per-object", mixed})
	c.Bound("every_object_"+r.of, fmt.Sprintf("%d objects x %d read kinds, %d long sequences per configuration, %d configurations", len(ids), len(kinds), len(shapes)+1, len(cfgs)))
	type job struct {
		k  c11Cfg
		sh int // len(shapes) = nested reads inside an iteration
	}
	var jobs []job
	for _, k := range cfgs {
		for s := 0; s <= len(shapes); s++ {
			jobs = append(jobs, job{k, s})
		}
	}
	c.ParDo(len(jobs), 0, func(i int) {
		j := jobs[i]
		if j.sh == len(shapes) {
			rr.nestedIter(c, j.k)
			return
		}
		sh := shapes[j.sh]
		c.Eval()
		c.Class("every-object/" + sh.name)
		var st *filesystem.Storage
		if p, what := ccGuard(func() { st = rr.open(j.k) }); p {
			c.Fail("storage-every/open/panic", what, nil)
			return
		}
		defer ccGuard(func() { st.Close() })
		reported := map[string]bool{}
		for step, op := range sh.seq {
			bad, detail, _ := rr.run(st, op)
			c.Transitions(1)
			if bad == "" {
				continue
			}
			// the long sequence goes on after a failure; the failure is replayed alone on a fresh Storage first
			alone := func(k c11Cfg) bool { _, b, _, _ := rr.runSeq(k, []c11Op{op}, nil); return b == bad }
			sig := fmt.Sprintf("%d/%s/%s", op.Kind, bad, rr.idClass(op.Role))
			if reported[sig] {
				continue
			}
			reported[sig] = true
			if alone(j.k) {
				if op.Kind == c11Delta && bad == "wrong-size" {
					rr.report(c, j.k, []c11Op{op}, bad, detail) // the key of the product pass (ActualSize of a packed delta)
					continue
				}
				mk := rr.minCfg(j.k, alone)
				c.Fail(fmt.Sprintf("storage-every/%s(%s)/%s/[%s]", c11KindName[op.Kind], rr.idClass(op.Role), bad, mk),
					fmt.Sprintf("%s repository, options [%s]: %v on a fresh Storage: %s (%s)", r.of, mk, op, bad, detail),
					map[string]any{"object_format": r.of, "options": mk.String(), "sequence": fmt.Sprint([]c11Op{op}), "discrepancy": bad, "detail": detail, "original_options": j.k.String()})
				continue
			}
			fails := func(k c11Cfg, s []c11Op) bool { _, b, _, _ := rr.runSeq(k, s, nil); return b == bad }
			min := fw.MinSeq(sh.seq[:step+1], nil, func(s []c11Op) bool { return len(s) > 0 && fails(j.k, s) })
			var ss []string
			for _, o := range min {
				ss = append(ss, c11KindName[o.Kind]+"("+rr.idClass(o.Role)+")")
			}
			mk := rr.minCfg(j.k, func(k c11Cfg) bool { return fails(k, min) })
			c.Fail(fmt.Sprintf("storage-every/%s/%s/[%s]", strings.Join(ss, ">"), bad, mk),
				fmt.Sprintf("%s repository, options [%s]: sequence %v on a fresh Storage: %s (%s)", r.of, mk, min, bad, detail),
				map[string]any{"object_format": r.of, "options": mk.String(), "sequence": fmt.Sprint(min), "discrepancy": bad, "detail": detail, "original_options": j.k.String(), "original_shape": sh.name, "failing_step": step})
		}
	})
}

// minCfg resets every option that is not needed for the failure.
func (r *c11Repo) minCfg(k c11Cfg, fails func(c11Cfg) bool) c11Cfg {
	def := c11Cfg{Cache: 2}
	for _, f := range []func(*c11Cfg){func(t *c11Cfg) { t.Excl = def.Excl }, func(t *c11Cfg) { t.InMemIdx = def.InMemIdx }, func(t *c11Cfg) { t.HighMem = def.HighMem },
		func(t *c11Cfg) { t.Mmap = def.Mmap }, func(t *c11Cfg) { t.LOT = def.LOT }, func(t *c11Cfg) { t.Cache = def.Cache }, func(t *c11Cfg) { t.Pool = def.Pool }} {
		t := k
		f(&t)
		if t != k && fails(t) {
			k = t
		}
	}
	return k
}

// idClass names where an object lives and how (for keys).
func (r *c11Repo) idClass(role string) string {
	h := r.roles[role]
	o, ok := r.model[h]
	if !ok {
		return "absent"
	}
	where := "alternate"
	if r.loose[h] {
		where = "loose"
	}
	for _, p := range r.packs {
		if e, in := p.ByHex[h]; in {
			kind := "plain"
			if e.OnDisk == 6 {
				kind = "ofs-delta"
			} else if e.OnDisk == 7 {
				kind = "ref-delta"
			}
			w := "packed"
			if p.Alt {
				w = "alternate-packed"
			}
			if r.loose[h] && !p.Alt {
				w = "loose+packed"
			}
			where = w + "-" + kind
			break
		}
	}
	return where + "-" + o.Type
}

// nestedIter reads, inside the callback of an iteration over all objects, the
// object just yielded and a fixed packed delta through the same Storage.
func (r *c11Repo) nestedIter(c *fw.Ctx, k c11Cfg) {
	var st *filesystem.Storage
	if p, what := ccGuard(func() { st = r.open(k) }); p {
		c.Fail("storage-nested/open/panic", what, nil)
		return
	}
	defer ccGuard(func() { st.Close() })
	bad, detail := "", ""
	n := 0
	fixed := r.roles["packB-delta"]
	pn, what := ccGuard(func() {
		it, err := st.IterEncodedObjects(plumbing.AnyObject)
		if err != nil {
			bad, detail = "error", err.Error()
			return
		}
		defer it.Close()
		err = it.ForEach(func(o plumbing.EncodedObject) error {
			hx := o.Hash().String()
			for _, id := range []string{hx, fixed} {
				h, _ := plumbing.FromHex(id)
				g, err := st.EncodedObject(plumbing.AnyObject, h)
				if err != nil {
					return fmt.Errorf("nested-get-error %s: %v", id, err)
				}
				if d := c11CheckObj(g, id, r.model[id]); d != "" {
					return fmt.Errorf("nested-%s %s (%T)", d, id, g)
				}
				n++
			}
			if d := c11CheckObj(o, hx, r.model[hx]); d != "" {
				return fmt.Errorf("%s %s (%T) after nested reads", d, hx, o)
			}
			return nil
		})
		if err != nil {
			bad, detail = strings.Fields(err.Error())[0], err.Error()
		}
	})
	if pn {
		bad, detail = "panic", what
	}
	c.Transitions(n)
	c.Eval()
	c.Class("every-object/nested-reads-inside-iteration")
	if bad != "" {
		c.Fail(fmt.Sprintf("storage-nested/%s", bad), fmt.Sprintf("%s repository, options [%s]: reading inside an IterEncodedObjects callback: %s", r.of, k, detail),
			map[string]any{"object_format": r.of, "options": k.String(), "detail": detail})
	}
}

// c11PrefixForms: every shape of prefix, alone and after a read that fills the caches.
func c11PrefixForms(c *fw.Ctx, r *c11Repo, cfgs []c11Cfg) {
	hx := r.hs * 2
	var forms []string
	add := func(s string) {
		for _, f := range forms {
			if f == s {
				return
			}
		}
		forms = append(forms, s)
	}
	add("")
	add("00")
	add("ff")
	add("ffff")
	for _, role := range []string{"loose", "packA-delta", "packB-delta", "dup", "alt-packed", "alt-loose", "absent"} {
		id := r.roles[role]
		add(id[:2])
		add(id[:4])
		add(id[:hx-2])
		add(id)
		add(id + "00")
	}
	// the last loose object and the last packed object in id order (upper bound of the sorted searches)
	var loose []string
	for h := range r.loose {
		loose = append(loose, h)
	}
	sort.Strings(loose)
	add(loose[len(loose)-1][:2])
	add(loose[len(loose)-1])
	add(loose[0][:2])
	pre := []c11Op{{Kind: -1}, {c11Iter, "any"}, {c11GetAny, "loose"}, {c11Prefix, ""}}
	c.Bound("prefix_forms_"+r.of, fmt.Sprintf("%d prefixes x %d reads before x %d configurations", len(forms), len(pre), len(cfgs)))
	type job struct {
		k c11Cfg
		p c11Op
	}
	var jobs []job
	for _, k := range cfgs {
		for _, p := range pre {
			jobs = append(jobs, job{k, p})
		}
	}
	c.ParDo(len(jobs), 0, func(i int) {
		j := jobs[i]
		var seq []c11Op
		if j.p.Kind >= 0 {
			seq = append(seq, j.p)
		}
		for _, f := range forms {
			seq = append(seq, c11Op{c11Prefix, f})
		}
		c.Eval()
		c.Class("prefix-forms/" + c11wOpStr(j.p))
		var st *filesystem.Storage
		if p, what := ccGuard(func() { st = r.open(j.k) }); p {
			c.Fail("storage-prefix/open/panic", what, nil)
			return
		}
		defer ccGuard(func() { st.Close() })
		lenClass := func(o c11Op) string {
			switch n := len(o.Role) / 2; {
			case n == 0:
				return "Prefix(empty)"
			case n < r.hs-1:
				return fmt.Sprintf("Prefix(%d bytes)", n)
			case n == r.hs-1:
				return "Prefix(id less one byte)"
			case n == r.hs:
				return "Prefix(whole id)"
			default:
				return "Prefix(longer than an id)"
			}
		}
		reported := map[string]bool{}
		for step, op := range seq {
			bad, detail, _ := r.run(st, op)
			c.Transitions(1)
			if bad == "" {
				continue
			}
			fails := func(k c11Cfg, s []c11Op) bool { _, b, _, _ := r.runSeq(k, s, nil); return b == bad }
			min := []c11Op{op}
			if !fails(j.k, min) {
				min = fw.MinSeq(seq[:step+1], nil, func(s []c11Op) bool { return len(s) > 0 && fails(j.k, s) })
			}
			mk := r.minCfg(j.k, func(k c11Cfg) bool { return fails(k, min) })
			var ss []string
			for _, o := range min {
				if o.Kind == c11Prefix {
					ss = append(ss, lenClass(o))
				} else {
					ss = append(ss, o.String())
				}
			}
			key := fmt.Sprintf("storage-prefix/%s/%s/[%s]", strings.Join(ss, ">"), bad, mk)
			if reported[key] {
				continue
			}
			reported[key] = true
			c.Fail(key, fmt.Sprintf("%s repository, options [%s]: sequence %v on a fresh Storage: %s (%s)", r.of, mk, min, bad, detail),
				map[string]any{"object_format": r.of, "options": mk.String(), "sequence": fmt.Sprint(min), "discrepancy": bad, "detail": detail, "original_options": j.k.String()})
		}
	})
}

// c11TwoAlternates: a copy of the main repository whose objects/info/alternates
// lists the original alternate AND a second one (own pack + loose object).
func c11TwoAlternates(c *fw.Ctx, r *c11Repo) {
	g2, dir2 := c.InitRepo("c11alt2-"+r.of, r.of, false)
	g2 = g2.C("gc.auto=0")
	must := func(err error) {
		if err != nil {
			fw.Abort("c11 second alternate: %v", err)
		}
	}
	must(os.WriteFile(filepath.Join(dir2, "second.txt"), []byte(c11FileBody(40)+"second alternate\n"), 0o644))
	g2.MustRun("add", "-A")
	g2.MustRun("commit", "-q", "-m", "second alternate 1")
	must(os.WriteFile(filepath.Join(dir2, "second.txt"), []byte(c11FileBody(41)+"second alternate\n"), 0o644))
	g2.MustRun("add", "-A")
	g2.MustRun("commit", "-q", "-m", "second alternate 2")
	g2.MustRun("repack", "-a", "-d", "-q")
	alt2Packed := g2.MustRun("rev-parse", "HEAD:second.txt").S()
	alt2Loose := g2.MustRunIn([]byte("a loose blob living only in the second alternate\n"), "hash-object", "-w", "--stdin").S()

	root := c.TempDir("c11two-" + r.of)
	dot := filepath.Join(root, ".git")
	c11CopyTree(r.dotgit, dot)
	altFile := filepath.Join(dot, "objects", "info", "alternates")
	old, err := os.ReadFile(altFile)
	must(err)
	first := strings.TrimSpace(string(old))
	if strings.Contains(first, "\n") || !filepath.IsAbs(first) {
		fw.Abort("c11 second alternate: unexpected alternates file %q", old)
	}
	must(os.WriteFile(altFile, []byte(first+"\n"+filepath.Join(dir2, ".git", "objects")+"\n"), 0o644))
	// the oracle for the variant is git itself on the variant
	gv := c.GitHome().In(root)
	gv.MustRun("fsck", "--strict")
	rr := r.withRoles(map[string]string{"alt2-packed": alt2Packed, "alt2-loose": alt2Loose})
	rr.dotgit = dot
	rr.model = map[string]c11Obj{}
	for _, o := range gv.CatFileAll() {
		rr.model[o.ID] = c11Obj{o.Type, o.Data}
	}
	for h, o := range r.model {
		if v, ok := rr.model[h]; !ok || v.Type != o.Type {
			fw.Abort("c11 second alternate: %s lost in the variant", h)
		}
	}
	for _, role := range []string{"alt2-packed", "alt2-loose"} {
		if _, ok := rr.model[rr.roles[role]]; !ok {
			fw.Abort("c11 second alternate: git does not see %s through the second alternate", role)
		}
		if _, ok := r.model[rr.roles[role]]; ok {
			fw.Abort("c11 second alternate: %s already in the main model", role)
		}
	}
	c.TracesValidated(len(rr.model))

	roles := []string{"alt-packed", "alt-loose", "alt2-packed", "alt2-loose", "absent", "loose", "packA-delta"}
	var alpha []c11Op
	for _, ro := range roles {
		for _, k := range []int{c11GetAny, c11Has, c11Size, c11Delta} {
			alpha = append(alpha, c11Op{k, ro})
		}
	}
	alpha = append(alpha, c11Op{c11GetWrong, "alt2-packed"}, c11Op{c11GetTyped, "alt2-loose"}, c11Op{c11Prefix, alt2Packed[:4]}, c11Op{c11Prefix, ""}, c11Op{c11Iter, "any"})
	var cfgs []c11Cfg
	for _, ex := range []bool{false, true} {
		for _, ca := range []int{0, 2} {
			cfgs = append(cfgs, c11Cfg{Excl: ex, Cache: ca}, c11Cfg{Excl: ex, Cache: ca, InMemIdx: true, Pool: 1})
		}
	}
	if r.of == "sha256" {
		cfgs = cfgs[:2]
	}
	c.Bound("two_alternates_"+r.of, fmt.Sprintf("%d operations, all sequences of length 2, %d configurations", len(alpha), len(cfgs)))
	c.States(len(cfgs))
	type job struct {
		k c11Cfg
		f c11Op
	}
	var jobs []job
	for _, k := range cfgs {
		for _, f := range alpha {
			jobs = append(jobs, job{k, f})
		}
	}
	c.ParDo(len(jobs), 0, func(i int) {
		j := jobs[i]
		trans := 0
		reported := map[string]bool{}
		for _, l := range alpha {
			seq := []c11Op{j.f, l}
			step, bad, detail, steps := rr.runSeq(j.k, seq, func(s string) { c.Class("two-alternates/" + s) })
			trans += steps
			c.Eval()
			if bad == "" {
				continue
			}
			seq = seq[:step+1]
			fails := func(k c11Cfg, s []c11Op) bool { _, b, _, _ := rr.runSeq(k, s, nil); return b == bad }
			min := fw.MinSeq(seq, nil, func(s []c11Op) bool { return len(s) > 0 && fails(j.k, s) })
			mk := rr.minCfg(j.k, func(k c11Cfg) bool { return fails(k, min) })
			if len(min) == 1 && min[0].Kind == c11Delta && bad == "wrong-size" {
				rr.report(c, j.k, min, bad, detail) // the key of the product pass (ActualSize of a packed delta)
				continue
			}
			var ss []string
			for _, o := range min {
				if o.Kind == c11Prefix || o.Kind == c11Iter {
					ss = append(ss, c11KindName[o.Kind])
				} else {
					ss = append(ss, c11KindName[o.Kind]+"("+o.Role+")")
				}
			}
			key := fmt.Sprintf("storage-two-alternates/%s/%s/[%s]", strings.Join(ss, ">"), bad, mk)
			if reported[key] {
				continue
			}
			reported[key] = true
			c.Fail(key, fmt.Sprintf("%s repository with two alternates, options [%s]: sequence %v on a fresh Storage: %s (%s)", r.of, mk, min, bad, detail),
				map[string]any{"object_format": r.of, "options": mk.String(), "sequence": fmt.Sprint(min), "discrepancy": bad, "detail": detail, "roles": rr.roles})
		}
		c.Transitions(trans)
	})
}

package checks

import (
	"bytes"
	"fmt"
	"net/url"
	"os"
	"os/exec"
	"path/filepath"
	"sort"
	"strings"
	"sync"

	"github.com/go-git/go-git/v6/plumbing/transport"
	"github.com/go-git/go-git/v6/plumbing/transport/ssh"

	"verifmc/fw"
)

// C41: the command line go-git sends to an SSH server, evaluated by a POSIX
// shell, yields exactly [service, path, args...] and runs nothing else.
//
// Decision: every (path, args) case is turned into the command line by the real
// buildCommand and that line is executed by real `dash -c` and `bash -c` with a
// PATH holding only recording stubs for the three services. A boring reference
// tokenizer (shWords) for the safe subset of the POSIX shell grammar stands in
// for the shells on a larger space; it is conformance-checked against both
// shells on every run, and a case it does not accept is always re-judged by
// the real shells before it is reported.

func init() {
	fw.Register(&fw.Check{ID: "C41", Level: "model_checking", Run: runC41, QuickBudget: 90, ThoroughBudget: 900})
}

// shWords tokenizes cmd as a POSIX shell would, for the subset: words made of
// single-quoted strings, backslash-escaped characters and harmless literal
// characters, separated by spaces/tabs. ok=false means "outside the subset"
// (an unquoted metacharacter, an unterminated quote, a newline separator ...):
// the model then makes no claim.
func shWords(cmd string) (words []string, ok bool) {
	var cur []byte
	inWord := false
	i := 0
	for i < len(cmd) {
		ch := cmd[i]
		switch {
		case ch == ' ' || ch == '\t':
			if inWord {
				words = append(words, string(cur))
				cur, inWord = nil, false
			}
			i++
		case ch == '\'':
			j := strings.IndexByte(cmd[i+1:], '\'')
			if j < 0 {
				return nil, false
			}
			cur = append(cur, cmd[i+1:i+1+j]...)
			inWord = true
			i += j + 2
		case ch == '\\':
			if i+1 >= len(cmd) {
				return nil, false
			}
			if cmd[i+1] == '\n' { // line continuation: removed
				i += 2
				continue
			}
			cur = append(cur, cmd[i+1])
			inWord = true
			i += 2
		case ch >= 'a' && ch <= 'z' || ch >= 'A' && ch <= 'Z' || ch >= '0' && ch <= '9' ||
			ch == '-' || ch == '_' || ch == '.' || ch == '/' || ch == ',' || ch == ':' || ch == '+' || ch == '@' || ch == '%':
			cur = append(cur, ch)
			inWord = true
			i++
		default:
			return nil, false
		}
	}
	if inWord {
		words = append(words, string(cur))
	}
	return words, true
}

type c41Obs struct {
	Records [][]string `json:"records"` // one per stub invocation: [service, args...]
	Stderr  string     `json:"stderr"`
	Code    int        `json:"code"`
	DirOK   bool       `json:"cwd_unchanged"`
	Garbage bool       `json:"unparsable_stdout"`
}

func (o c41Obs) good(want []string) bool {
	if o.Garbage || o.Code != 0 || o.Stderr != "" || !o.DirOK || len(o.Records) != 1 {
		return false
	}
	return eqStrs(o.Records[0], want)
}

func eqStrs(a, b []string) bool {
	if len(a) != len(b) {
		return false
	}
	for i := range a {
		if a[i] != b[i] {
			return false
		}
	}
	return true
}

var c41Services = []string{"git-upload-pack", "git-receive-pack", "git-upload-archive"}

// c41Env prepares the stub directory and a pool of working directories.
type c41Env struct {
	stubDir string
	dirs    chan string
}

const c41Stub = "#!/bin/dash\nprintf '%s\\0' \"$#\" \"${0##*/}\" \"$@\"\n"

func newC41Env(c *fw.Ctx, n int) *c41Env {
	e := &c41Env{stubDir: c.TempDir("c41-bin"), dirs: make(chan string, n)}
	for _, s := range c41Services {
		c.Must(os.WriteFile(filepath.Join(e.stubDir, s), []byte(c41Stub), 0o755), "write stub")
	}
	c.Must(os.WriteFile(filepath.Join(e.stubDir, "driver.dash"), []byte(c41DriverDash), 0o644), "write driver")
	c.Must(os.WriteFile(filepath.Join(e.stubDir, "driver.bash"), []byte(c41DriverBash), 0o644), "write driver")
	for i := 0; i < n; i++ {
		d := c.TempDir("c41-cwd")
		// two bait files so that an unquoted glob would visibly expand
		c.Must(os.WriteFile(filepath.Join(d, "a"), []byte("x"), 0o644), "bait")
		c.Must(os.WriteFile(filepath.Join(d, "aa"), []byte("x"), 0o644), "bait")
		e.dirs <- d
	}
	return e
}

func (e *c41Env) run(shell, cmd string) c41Obs {
	d := <-e.dirs
	defer func() { e.dirs <- d }()
	x := exec.Command(shell, "-c", cmd)
	x.Dir = d
	// PATH holds only the stubs; HOME and $a are baits for ~ and $ expansion.
	x.Env = []string{"PATH=" + e.stubDir, "HOME=/verif-bait-home", "a=BAIT_a", "LC_ALL=C"}
	var o, se bytes.Buffer
	x.Stdout, x.Stderr = &o, &se
	err := x.Run()
	obs := c41Obs{Stderr: se.String()}
	if err != nil {
		if ee, ok := err.(*exec.ExitError); ok {
			obs.Code = ee.ExitCode()
			if obs.Code == 0 {
				obs.Code = -1
			}
		} else {
			fw.Abort("cannot run %s: %v", shell, err)
		}
	}
	// parse records: count NUL name NUL arg NUL ...
	f := strings.Split(o.String(), "\x00")
	if len(f) > 0 && f[len(f)-1] == "" {
		f = f[:len(f)-1]
	} else if o.Len() > 0 {
		obs.Garbage = true
	}
	for i := 0; i < len(f) && !obs.Garbage; {
		var n int
		if _, err := fmt.Sscanf(f[i], "%d", &n); err != nil || i+2+n > len(f) {
			obs.Garbage = true
			break
		}
		obs.Records = append(obs.Records, append([]string{}, f[i+1:i+2+n]...))
		i += 2 + n
	}
	// the working directory must hold exactly the two baits, untouched
	obs.DirOK = e.dirIntact(d)
	return obs
}

// Batch drivers: one shell process evaluates many command lines with `eval`
// (the same parser `sh -c` uses), the services being shell functions (bash) or
// aliases to a function (dash does not allow '-' in function names). Used as a
// fast filter only: a batch whose output is not byte-for-byte the expected
// stream is re-judged case by case with the faithful `sh -c` + external stubs.
const c41DriverDash = `svc() { printf 'R\0%s\0' "$#"; printf '%s\0' "$@"; }
alias git-upload-pack='svc git-upload-pack'
alias git-receive-pack='svc git-receive-pack'
alias git-upload-archive='svc git-upload-archive'
for c in "$@"; do printf 'C\0'; eval "$c"; printf 'E%s\0' "$?"; done
`
const c41DriverBash = `svc() { printf 'R\0%s\0' "$#"; printf '%s\0' "$@"; }
git-upload-pack() { svc git-upload-pack "$@"; }
git-receive-pack() { svc git-receive-pack "$@"; }
git-upload-archive() { svc git-upload-archive "$@"; }
for c in "$@"; do printf 'C\0'; eval "$c"; printf 'E%s\0' "$?"; done
`

// c41Expect is the byte stream the driver prints for a case evaluated to want.
func c41Expect(b *bytes.Buffer, want []string) {
	fmt.Fprintf(b, "C\x00R\x00%d\x00", len(want))
	for _, w := range want {
		b.WriteString(w)
		b.WriteByte(0)
	}
	b.WriteString("E0\x00")
}

// batchGood runs all cmds in one process of shell; true iff the output is
// exactly the expected stream, stderr empty, exit 0 and cwd untouched.
func (e *c41Env) batchGood(shell string, cmds []string, wants [][]string) bool {
	for _, c := range cmds {
		if strings.IndexByte(c, 0) >= 0 {
			return false
		}
	}
	d := <-e.dirs
	defer func() { e.dirs <- d }()
	x := exec.Command(shell, append([]string{filepath.Join(e.stubDir, "driver."+shell)}, cmds...)...)
	x.Dir = d
	x.Env = []string{"PATH=" + e.stubDir, "HOME=/verif-bait-home", "a=BAIT_a", "LC_ALL=C"}
	var o, se bytes.Buffer
	x.Stdout, x.Stderr = &o, &se
	err := x.Run()
	var exp bytes.Buffer
	for _, w := range wants {
		c41Expect(&exp, w)
	}
	ok := err == nil && se.Len() == 0 && bytes.Equal(o.Bytes(), exp.Bytes())
	if !e.dirIntact(d) {
		ok = false
	}
	return ok
}

func (e *c41Env) dirIntact(d string) bool {
	ents, _ := os.ReadDir(d)
	ok := len(ents) == 2
	for _, en := range ents {
		fi, err := en.Info()
		if err != nil || fi.Size() != 1 || (en.Name() != "a" && en.Name() != "aa") {
			ok = false
		}
	}
	if !ok { // restore for the next case
		for _, en := range ents {
			os.RemoveAll(filepath.Join(d, en.Name()))
		}
		os.WriteFile(filepath.Join(d, "a"), []byte("x"), 0o644)
		os.WriteFile(filepath.Join(d, "aa"), []byte("x"), 0o644)
	}
	return ok
}

// c41Case decodes a symbol sequence (index len(sigma) = word separator) into
// path and args; ok=false when it has more than two separators.
func c41Case(sigma []string, seq []int) (path string, args []string, ok bool) {
	words := []string{""}
	for _, x := range seq {
		if x == len(sigma) {
			words = append(words, "")
			continue
		}
		words[len(words)-1] += sigma[x]
	}
	if len(words) > 3 {
		return "", nil, false
	}
	return words[0], words[1:], true
}

func c41SeqAt(k, idx int) []int {
	l, p := 0, 1
	for idx >= p {
		idx -= p
		p *= k
		l++
	}
	s := make([]int, l)
	for i := l - 1; i >= 0; i-- {
		s[i] = idx % k
		idx /= k
	}
	return s
}

func c41Build(service, path string, args []string) (cmd string, panicked any) {
	defer func() {
		if r := recover(); r != nil {
			panicked = r
		}
	}()
	return ssh.VerifBuildCommand(&transport.Request{Command: service, URL: &url.URL{Path: path}, Args: args}), nil
}

func runC41(c *fw.Ctx) {
	shells := []string{"dash", "bash"}
	for _, s := range shells {
		if _, err := exec.LookPath(s); err != nil {
			fw.Abort("shell %s not installed", s)
		}
	}
	// full alphabet (DESIGN's 16 symbols plus '>' and '#') and a reduced one for depth
	sigmaFull := []string{"'", "!", "\\", "\"", "$", "`", " ", "\n", ";", "|", "&", "(", "a", "-", "~", "*", ">", "#"}
	sigmaDeep := []string{"'", "\\", "!", " ", "\n", "a"}
	// bytes a rune-wise or "printable only" rewrite would mangle, next to the specials
	sigmaBytes := []string{"'", "!", "\xe9", "\xc3", "\xa9", "\xff", "\t", "\r", "\x01", "\x7f", "a", ";"}
	lenFull := c.Pick(4, 5)
	lenDeep := c.Pick(5, 7)
	lenBytes := c.Pick(3, 4)
	lenFaithful := c.Pick(2, 3) // additionally run one `sh -c` per case with external stubs
	confLen := c.Pick(5, 6)
	c.Bound("alphabet_full", sigmaFull)
	c.Bound("alphabet_deep", sigmaDeep)
	c.Bound("max_symbols_full_alphabet", lenFull)
	c.Bound("max_symbols_deep_alphabet", lenDeep)
	c.Bound("alphabet_bytes", sigmaBytes)
	c.Bound("max_symbols_bytes_alphabet", lenBytes)
	c.Bound("max_symbols_one_process_per_case", lenFaithful)
	c.Bound("model_conformance_raw_len", confLen)
	c.Bound("words", "path + 0..2 args (the word separator is an extra symbol of the enumeration)")
	c.Bound("shells", shells)
	c.SetRule("a case is a symbol sequence over the alphabet plus a word separator (at most 2 separators => path and 0-2 args, empty words included), the service rotating over upload-pack/receive-pack/upload-archive; the real buildCommand output is evaluated by real dash and bash (batched: `eval` of each line in one shell process whose services are recording functions; up to max_symbols_one_process_per_case also one `sh -c` per case with PATH = external recording stubs only) with baits for $a, ~ and globs, and must print exactly one record [service,path,args...], nothing on stderr, status 0, cwd untouched; any batch that is not byte-identical to the expected stream is re-judged case by case with `sh -c`; a reference tokenizer for the safe shell subset is evaluated on every case too and replayed against both shells on all raw command strings over a quoting alphabet up to model_conformance_raw_len; a case is non-trivial when it contains a shell metacharacter or an empty word; distinct = (word count, set of metacharacters present, empty-word flag) classes")
	c.Assume("NUL bytes are excluded (cannot occur in an exec argv; the SSH exec request string is evaluated by the login shell as sh -c); shells are the installed dash and bash 5.2, non-interactive (no history expansion: the '!' escape is indistinguishable there); `eval` and `sh -c` share the shell's parser; the service name comes from go-git constants and is not quoted by design")

	env := newC41Env(c, 64)
	expected := func(service, path string, args []string) []string {
		return append([]string{service, path}, args...)
	}
	type verdict struct {
		bad    []string
		obs    map[string]c41Obs
		cmd    string
		panicv any
	}
	// judge: the faithful evaluation, one `sh -c` per shell.
	judge := func(service, path string, args []string) verdict {
		cmd, pv := c41Build(service, path, args)
		v := verdict{cmd: cmd, panicv: pv, obs: map[string]c41Obs{}}
		if pv != nil {
			v.bad = []string{"panic"}
			return v
		}
		if strings.IndexByte(cmd, 0) >= 0 {
			v.bad = []string{"NUL in command"}
			return v
		}
		want := expected(service, path, args)
		for _, sh := range shells {
			o := env.run(sh, cmd)
			v.obs[sh] = o
			if !o.good(want) {
				v.bad = append(v.bad, sh)
			}
		}
		return v
	}

	// 1. conformance of the tokenizer against the real shells on raw strings.
	confSigma := []string{"'", "\\", "!", "a", " ", "~", "\"", ";", "\n"}
	nConf := fw.CountStrings(len(confSigma), confLen)
	const chunk = 2048
	var cmu sync.Mutex
	var modelAccepted int
	c.ParDo((nConf+chunk-1)/chunk, 0, func(ci int) {
		var cmds []string
		var wants [][]string
		for i := ci * chunk; i < (ci+1)*chunk && i < nConf; i++ {
			raw := "git-upload-pack " + fw.StringAt(confSigma, i)
			if w, ok := shWords(raw); ok {
				cmds = append(cmds, raw)
				wants = append(wants, w)
			}
		}
		cmu.Lock()
		modelAccepted += len(cmds)
		cmu.Unlock()
		for _, sh := range shells {
			if env.batchGood(sh, cmds, wants) {
				c.TracesValidated(len(cmds))
				continue
			}
			for j, raw := range cmds {
				if o := env.run(sh, raw); !o.good(wants[j]) {
					fw.Abort("shell tokenizer model disagrees with real %s on %q: model=%q shell=%+v", sh, raw, wants[j], o)
				}
			}
			fw.Abort("batched %s evaluation differs from per-case evaluation although every case is good individually (conformance batch %d)", sh, ci)
		}
	})
	c.Extra("model_conformance", map[string]any{"raw_strings": nConf, "model_accepts": modelAccepted})
	if modelAccepted < nConf/50 && !c.Expired() {
		fw.Abort("tokenizer model accepts only %d of %d raw strings: conformance step is vacuous", modelAccepted, nConf)
	}

	metas := "'!\\\"$` \n;|&(~*>#"
	classOf := func(path string, args []string, how string) (string, bool) {
		all := append([]string{path}, args...)
		set := map[byte]bool{}
		empty := false
		for _, w := range all {
			if w == "" {
				empty = true
			}
			for i := 0; i < len(w); i++ {
				if strings.IndexByte(metas, w[i]) >= 0 {
					set[w[i]] = true
				}
			}
		}
		if len(set) == 0 && !empty {
			return "", false
		}
		var ks []string
		for b := range set {
			ks = append(ks, string(b))
		}
		sort.Strings(ks)
		return fmt.Sprintf("%s|%d|%v|%s", how, len(all), empty, strings.Join(ks, "")), true
	}

	// Locating failures. The batch filter gives, per chunk, the cases that are
	// bad on their own (bisection, at most maxBadPerChunk located per chunk; the
	// rest of such a chunk is "unexamined"). After the enumeration the locally
	// minimal bad cases (no single-symbol deletion is bad or unexamined) are
	// re-judged with the faithful `sh -c`, symbols are lowered to 'a' while the
	// case still fails, and each result is one violation key. All of this is a
	// function of the tree only, not of scheduling.
	const maxBadPerChunk = 24
	const maxReported = 40
	type caseRec struct {
		i       int
		seq     []int
		service string
		path    string
		args    []string
	}
	seqKey := func(seq []int) string {
		b := make([]byte, len(seq))
		for i, x := range seq {
			b[i] = byte(x)
		}
		return string(b)
	}
	var conservative, batchBad, unexamined, batchBadButFine int

	space := func(sigma []string, maxLen, faithfulLen int) {
		k := len(sigma) + 1
		n := fw.CountStrings(k, maxLen)
		var bmu sync.Mutex
		bad := map[string]caseRec{}   // located bad cases (batch filter or faithful run)
		unex := map[string]struct{}{} // unexamined members of dirty chunks
		c.ParDo((n+chunk-1)/chunk, 0, func(ci int) {
			var cases []caseRec
			var cmds []string
			var wants [][]string
			var panicked []caseRec
			for i := ci * chunk; i < (ci+1)*chunk && i < n; i++ {
				seq := c41SeqAt(k, i)
				path, args, ok := c41Case(sigma, seq)
				if !ok {
					continue
				}
				service := c41Services[i%len(c41Services)]
				c.Eval()
				c.States(1)
				c.Transitions(1)
				if cl, nt := classOf(path, args, ""); nt {
					c.Class(cl)
				}
				cmd, pv := c41Build(service, path, args)
				rec := caseRec{i, seq, service, path, args}
				if pv != nil {
					panicked = append(panicked, rec)
					continue
				}
				want := expected(service, path, args)
				if w, mok := shWords(cmd); !(mok && eqStrs(w, want)) {
					cmu.Lock()
					conservative++
					cmu.Unlock()
				}
				if i%9973 == 5 {
					c.Sample(map[string]any{"service": service, "path": path, "args": args, "command": cmd})
				}
				cases = append(cases, rec)
				cmds = append(cmds, cmd)
				wants = append(wants, want)
			}
			clean := func(lo, hi int) bool {
				for _, sh := range shells {
					if !env.batchGood(sh, cmds[lo:hi], wants[lo:hi]) {
						return false
					}
				}
				return true
			}
			var located []int
			var skipped [][2]int
			var bisect func(lo, hi int)
			bisect = func(lo, hi int) {
				if lo >= hi {
					return
				}
				if len(located) >= maxBadPerChunk {
					skipped = append(skipped, [2]int{lo, hi})
					return
				}
				if clean(lo, hi) {
					c.TracesValidated(len(shells) * (hi - lo))
					return
				}
				if hi-lo == 1 {
					located = append(located, lo)
					return
				}
				mid := (lo + hi) / 2
				bisect(lo, mid)
				bisect(mid, hi)
			}
			bisect(0, len(cases))
			bmu.Lock()
			for _, r := range panicked {
				bad[seqKey(r.seq)] = r
			}
			for _, j := range located {
				bad[seqKey(cases[j].seq)] = cases[j]
			}
			for _, sk := range skipped {
				for j := sk[0]; j < sk[1]; j++ {
					unex[seqKey(cases[j].seq)] = struct{}{}
				}
			}
			bmu.Unlock()
		})
		// small cases additionally with one `sh -c` per case and external stubs
		if faithfulLen >= 0 {
			c.ParDo(fw.CountStrings(k, faithfulLen), 0, func(i int) {
				seq := c41SeqAt(k, i)
				path, args, ok := c41Case(sigma, seq)
				if !ok {
					return
				}
				service := c41Services[i%len(c41Services)]
				v := judge(service, path, args)
				c.Transitions(1)
				if len(v.bad) > 0 {
					bmu.Lock()
					bad[seqKey(seq)] = caseRec{i, seq, service, path, args}
					bmu.Unlock()
				} else {
					c.TracesValidated(len(shells))
				}
			})
		}
		batchBad += len(bad)
		unexamined += len(unex)
		if len(bad) == 0 {
			return
		}
		// locally minimal bad cases, by index
		var all, minimal []caseRec
		for _, r := range bad {
			all = append(all, r)
			isMin := true
			for d := 0; d < len(r.seq) && isMin; d++ {
				nb := seqKey(append(append([]int{}, r.seq[:d]...), r.seq[d+1:]...))
				if _, ok := bad[nb]; ok {
					isMin = false
				}
				if _, ok := unex[nb]; ok {
					isMin = false
				}
			}
			if isMin {
				minimal = append(minimal, r)
			}
		}
		sort.Slice(all, func(a, b int) bool { return all[a].i < all[b].i })
		sort.Slice(minimal, func(a, b int) bool { return minimal[a].i < minimal[b].i })
		cands := append(minimal, all...) // fall back to every located case when no minimal one is confirmed
		aIdx := -1
		for i, s := range sigma {
			if s == "a" {
				aIdx = i
			}
		}
		reported := 0
		tried := map[string]bool{}
		for _, r := range cands {
			if reported >= maxReported || (reported > 0 && len(tried) >= len(minimal)) || len(tried) >= 4*maxReported {
				break
			}
			if tried[seqKey(r.seq)] {
				continue
			}
			tried[seqKey(r.seq)] = true
			v := judge(r.service, r.path, r.args)
			if len(v.bad) == 0 {
				batchBadButFine++
				continue
			}
			fails := func(s []int) bool {
				p, a, ok := c41Case(sigma, s)
				return ok && len(judge(r.service, p, a).bad) > 0
			}
			min := fw.MinSeq(r.seq, func(x int) []int {
				if x != aIdx && x != len(sigma) {
					return []int{aIdx}
				}
				return nil
			}, fails)
			p, ar, _ := c41Case(sigma, min)
			mv := judge(r.service, p, ar)
			key := fmt.Sprintf("path=%s args=%s fails-in=%s", fw.Q(p), fw.Q(strings.Join(ar, "\x1f")), strings.Join(mv.bad, "+"))
			c.Fail(key, fmt.Sprintf("command line %s does not evaluate to exactly [%s, %s, %q]", fw.Q(mv.cmd), r.service, fw.Q(p), ar),
				map[string]any{"service": r.service, "path": r.path, "args": r.args, "command": v.cmd, "bad_in": v.bad, "observed": v.obs,
					"minimal_path": p, "minimal_args": ar, "minimal_command": mv.cmd, "minimal_observed": mv.obs, "panic": fmt.Sprint(v.panicv),
					"bad_cases_located_in_this_space": len(bad), "unexamined_cases_in_dirty_chunks": len(unex)})
			reported++
		}
	}
	onlyNew := os.Getenv("S13_ONLY_NEW") != "" // development aid: skip the unchanged spaces
	if !onlyNew {
		space(sigmaFull, lenFull, -1)
		space(sigmaDeep, lenDeep, -1)
	}
	space(sigmaBytes, lenBytes, -1)

	// Structured spaces (explicit case lists): runs of adjacent specials followed
	// by shell syntax at every word position, every byte value in pairs, long
	// words around buffer sizes, more than two arguments.
	list := func(name string, cases []c41Listed, faithfulAll bool) {
		n := len(cases)
		var bmu sync.Mutex
		badIdx := map[int]bool{}
		// chunks of at most `chunk` cases and ~256 KiB of words (argv limit)
		var cuts []int
		for i, sz := 0, 0; i < n; i++ {
			w := len(cases[i].path) + 64
			for _, a := range cases[i].args {
				w += len(a)
			}
			if len(cuts) == 0 || i-cuts[len(cuts)-1] >= chunk || sz+w > 256<<10 {
				cuts = append(cuts, i)
				sz = 0
			}
			sz += w
		}
		cuts = append(cuts, n)
		c.ParDo(len(cuts)-1, 0, func(ci int) {
			lo0, hi0 := cuts[ci], cuts[ci+1]
			var idx []int
			var cmds []string
			var wants [][]string
			var located []int
			for i := lo0; i < hi0; i++ {
				cs := cases[i]
				service := c41Services[i%len(c41Services)]
				c.Eval()
				c.States(1)
				c.Transitions(1)
				if cl, nt := classOf(cs.path, cs.args, name+":"+cs.class); nt {
					c.Class(cl)
				}
				if i%997 == 5 && len(cs.path) < 200 {
					c.Sample(map[string]any{"space": name, "service": service, "path": cs.path, "args": cs.args})
				}
				cmd, pv := c41Build(service, cs.path, cs.args)
				if pv != nil {
					located = append(located, i)
					continue
				}
				want := expected(service, cs.path, cs.args)
				if w, mok := shWords(cmd); !(mok && eqStrs(w, want)) {
					cmu.Lock()
					conservative++
					cmu.Unlock()
				}
				idx = append(idx, i)
				cmds = append(cmds, cmd)
				wants = append(wants, want)
			}
			clean := func(lo, hi int) bool {
				for _, sh := range shells {
					if !env.batchGood(sh, cmds[lo:hi], wants[lo:hi]) {
						return false
					}
				}
				return true
			}
			var bisect func(lo, hi int)
			bisect = func(lo, hi int) {
				if lo >= hi || len(located) >= maxBadPerChunk {
					return
				}
				if clean(lo, hi) {
					c.TracesValidated(len(shells) * (hi - lo))
					return
				}
				if hi-lo == 1 {
					located = append(located, idx[lo])
					return
				}
				mid := (lo + hi) / 2
				bisect(lo, mid)
				bisect(mid, hi)
			}
			bisect(0, len(cmds))
			bmu.Lock()
			for _, i := range located {
				badIdx[i] = true
			}
			bmu.Unlock()
		})
		// the faithful evaluation: one `sh -c` per case and shell
		var fa []int
		for i, cs := range cases {
			if faithfulAll || cs.faithful {
				fa = append(fa, i)
			}
		}
		c.ParDo(len(fa), 0, func(j int) {
			i := fa[j]
			v := judge(c41Services[i%len(c41Services)], cases[i].path, cases[i].args)
			c.Transitions(1)
			if len(v.bad) > 0 {
				bmu.Lock()
				badIdx[i] = true
				bmu.Unlock()
			} else {
				c.TracesValidated(len(shells))
			}
		})
		batchBad += len(badIdx)
		var order []int
		for i := range badIdx {
			order = append(order, i)
		}
		sort.Ints(order) // the lists are generated simplest first
		reported := 0
		for _, i := range order {
			if reported >= 12 {
				break
			}
			service := c41Services[i%len(c41Services)]
			v := judge(service, cases[i].path, cases[i].args)
			if len(v.bad) == 0 {
				batchBadButFine++
				continue
			}
			p, ar := cases[i].path, cases[i].args
			if len(p) > 64 {
				p = fmt.Sprintf("%s...(%d bytes)", p[:16], len(p))
			}
			key := fmt.Sprintf("%s: path=%s args=%s fails-in=%s", name, fw.Q(p), fw.Q(strings.Join(ar, "\x1f")), strings.Join(v.bad, "+"))
			cmdShown := v.cmd
			if len(cmdShown) > 400 {
				cmdShown = cmdShown[:400] + "..."
			}
			c.Fail(key, fmt.Sprintf("command line %s does not evaluate to exactly [%s, path, args]", fw.Q(cmdShown), service),
				map[string]any{"space": name, "service": service, "path": p, "args": ar, "command": cmdShown, "bad_in": v.bad, "panic": fmt.Sprint(v.panicv),
					"bad_cases_located_in_this_space": len(badIdx)})
			reported++
		}
	}
	runsCases := c41RunsCases(c.Thorough())
	c.Bound("runs_space", fmt.Sprintf("%d cases: word = pre{'',a} + run over {',!} of 1..3 + tail (%d shell-syntax snippets) + post{'',',!,''}; as path, as 1st arg, as 2nd arg after an empty arg, and split across the path/arg boundary; `sh -c` per case for runs of <=2 as bare path and runs of 1 as bare argument, each with every tail (thorough: all)", len(runsCases), len(c41Tails)))
	list("runs", runsCases, c.Thorough())
	byteCases := c41ByteCases()
	c.Bound("byte_pairs_space", fmt.Sprintf("%d cases: every pair of non-NUL byte values as path; every single byte as path, as argument, and between/after quote characters", len(byteCases)))
	list("bytes", byteCases, false)
	miscCases := c41MiscCases()
	c.Bound("long_and_many_args_space", fmt.Sprintf("%d cases: words of 4095..65537 bytes with specials at the ends and around 4096/8192/32768/65536, runs of 1000..10000 specials (`sh -c` per case too), 3..6 arguments", len(miscCases)))
	list("misc", miscCases, c.Thorough())

	if !onlyNew {
		space(sigmaFull, -1, lenFaithful) // one `sh -c` per case and shell: last, it is the slow part
	}
	c.Extra("cases_where_the_tokenizer_model_made_no_claim", conservative)
	c.Extra("cases_bad_in_the_batch_filter", batchBad)
	c.Extra("cases_unexamined_in_dirty_chunks", unexamined)
	c.Extra("cases_bad_in_batch_but_fine_with_sh_-c", batchBadButFine)
}

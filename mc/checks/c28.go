package checks

import (
	"bytes"
	"fmt"
	"os"
	"path/filepath"
	"sort"
	"strings"
	"sync"
	"time"

	git "github.com/go-git/go-git/v6"
	"github.com/go-git/go-git/v6/plumbing/object"

	"verifmc/fw"
)

// C28: add (file, directory, all, glob), remove, move, clean and commit give
// the index entries, remaining files, commit tree and HEAD that the equivalent
// git commands give: the same op sequence runs through go-git on copy A and
// through git on copy B.

func init() {
	fw.Register(&fw.Check{ID: "C28", Level: "exploration", Run: runC28, QuickBudget: 150, ThoroughBudget: 1200})
}

// (HEAD, index, worktree) kinds per path, alphabet of C27 (t = type swap).
var (
	c28StatesA = []string{"---", "111", "112", "11-", "--1", "-11", "122", "1--", "11x", "11l", "11t", "-1-", "121"}
	// a trailing '+' adds the untracked d/u and the ignored d/z.ign; without it a
	// directory d can become empty (empty-directory leftovers)
	c28StatesB = []string{"---+", "111+", "112+", "--1+", "111", "11-", "11-+", "-11+", "11t", "---"}
	c28OpNames = []string{"none", "Add(a)", "Add(d)", "Add(u)", "AddAll", "AddGlob(*)", "Remove(a)", "Remove(d)", "Move(a,m)", "Move(d/b,d/m)",
		"Clean", "Clean(Dir)", "Commit"}
)

type c28Env struct {
	c *fw.Ctx
	t *hTemplate
}

func c28Render(v []int) string {
	var ops []string
	for _, o := range v[2:] {
		if o != 0 {
			ops = append(ops, c28OpNames[o])
		}
	}
	return fmt.Sprintf("a=%s d/b=%s ops=[%s]", c28StatesA[v[0]], c28StatesB[v[1]], strings.Join(ops, " "))
}

// setup builds the initial state (identical content in every copy).
func (e *c28Env) setup(v []int, root string) {
	st := []string{c28StatesA[v[0]], c28StatesB[v[1]]}
	paths := []string{"a", "d/b"}
	hk := func(s string) string { return string([]byte{s[0]}) }
	head := e.t.commit[hk(st[0])+hk(st[1])]
	unborn := st[0][0] == '-' && st[1][0] == '-'
	br := map[string]string{"main": head}
	if unborn {
		br = nil
	}
	e.t.skel.instantiate(root, hConfig{FileMode: true}, "ref: refs/heads/main", br)
	var ents []hIdxEntry
	for pi, p := range paths {
		w := st[pi][2]
		switch w {
		case 't':
			if pi == 0 {
				hPut(root, "a/k", '1', hOldTime)
			} else {
				hPut(root, "d", '1', hOldTime)
			}
		case '-':
		default:
			hPut(root, p, w, hOldTime)
		}
		if i := st[pi][1]; i != '-' {
			en := hIdxEntry{Path: p, Mode: hKindMode(i), OID: hKindOID(i)}
			if i == w {
				en.StatOf = p
			}
			ents = append(ents, en)
		}
	}
	hWriteIndex(root, ents)
	dIsDir := st[1][2] != 't'
	os.MkdirAll(filepath.Join(root, "e"), 0o755)
	hPut(root, "u/v", '1', hOldTime)
	hPut(root, "z.ign", '1', hOldTime)
	hPut(root, "dx", '2', hOldTime) // a sibling whose name has "d" as a string prefix
	if dIsDir && strings.HasSuffix(st[1], "+") {
		hPut(root, "d/z.ign", '1', hOldTime)
		hPut(root, "d/u", '2', hOldTime)
	}
	hPutBytes(root, ".gitignore", "100644", []byte("*.ign\n"), hOldTime)
}

var c28Sig = &object.Signature{Name: "A U Thor", Email: "author@example.com", When: time.Unix(1700000000, 0).UTC()}
var c28Com = &object.Signature{Name: "C O Mitter", Email: "committer@example.com", When: time.Unix(1700000000, 0).UTC()}

func c28GoOp(w *git.Worktree, op int) error {
	return hCall(func() error {
		var err error
		switch op {
		case 1:
			_, err = w.Add("a")
		case 2:
			_, err = w.Add("d")
		case 3:
			_, err = w.Add("u")
		case 4:
			err = w.AddWithOptions(&git.AddOptions{All: true})
		case 5:
			err = w.AddGlob("*")
		case 6:
			_, err = w.Remove("a")
		case 7:
			_, err = w.Remove("d")
		case 8:
			_, err = w.Move("a", "m")
		case 9:
			_, err = w.Move("d/b", "d/m")
		case 10:
			err = w.Clean(&git.CleanOptions{Dir: false})
		case 11:
			err = w.Clean(&git.CleanOptions{Dir: true})
		case 12:
			_, err = w.Commit("m\n", &git.CommitOptions{Author: c28Sig, Committer: c28Com})
		}
		return err
	})
}

func c28GitOp(g *fw.Git, root string, op int) fw.Res {
	switch op {
	case 1:
		return g.Run("add", "--", "a")
	case 2:
		return g.Run("add", "--", "d")
	case 3:
		return g.Run("add", "--", "u")
	case 4:
		return g.Run("add", "-A")
	case 5: // the pattern expanded the way a shell would: existing names, .git excluded
		ents, _ := os.ReadDir(root)
		args := []string{"add", "--"}
		for _, en := range ents {
			if en.Name() != ".git" {
				args = append(args, en.Name())
			}
		}
		if len(args) == 2 {
			return fw.Res{Code: 1}
		}
		return g.Run(args...)
	case 6:
		return g.Run("rm", "-r", "-f", "-q", "--", "a")
	case 7:
		return g.Run("rm", "-r", "-f", "-q", "--", "d")
	case 8:
		return g.Run("mv", "--", "a", "m")
	case 9:
		return g.Run("mv", "--", "d/b", "d/m")
	case 10:
		return g.Run("clean", "-f", "-q")
	case 11:
		return g.Run("clean", "-f", "-d", "-q")
	case 12:
		return g.Run("commit", "-q", "-m", "m")
	}
	return fw.Res{}
}

var c28Known = map[string]string{}

func init() {
	for _, k := range []byte("123xlr") {
		_, d := hKindSpec(k)
		c28Known[hBlobID([]byte(d))] = map[byte]string{'1': "one", '2': "two", '3': "three", 'x': "one", 'l': "link", 'r': "onecrlf"}[k]
	}
	c28Known[hBlobID([]byte("*.ign\n"))] = "gitignore"
}

// c28Observe returns the observable state: index entries (read by git), the
// worktree, HEAD and the tree/parents of the HEAD commit.
func c28Observe(g *fw.Git, root string) map[string]string {
	m := map[string]string{}
	for _, rec := range bytes.Split(g.MustRun("ls-files", "-s", "-z").Out, []byte{0}) {
		f := strings.SplitN(string(rec), "\t", 2)
		if len(f) != 2 {
			continue
		}
		w := strings.Fields(f[0])
		if len(w) != 3 {
			continue
		}
		name := c28Known[w[1]]
		if name == "" {
			name = w[1][:8]
		}
		m["index "+f[1]+" stage"+w[2]] = w[0] + "-" + name
	}
	for p, s := range hSnapshotWT(root) {
		kind, data, _ := strings.Cut(s, ":")
		name := map[string]string{"one\n": "one", "two\n": "two", "three\n": "three", "one": "link", "*.ign\n": "gitignore", "": "empty"}[data]
		if name == "" {
			name = fmt.Sprintf("%q", data)
		}
		m["worktree "+p] = kind + "-" + name
	}
	head, _ := os.ReadFile(filepath.Join(root, ".git", "HEAD"))
	hs := strings.TrimSpace(string(head))
	m["HEAD points-to"] = strings.TrimPrefix(hs, "ref: ")
	commit := hs
	if strings.HasPrefix(hs, "ref: ") {
		b, err := os.ReadFile(filepath.Join(root, ".git", strings.TrimPrefix(hs, "ref: ")))
		commit = strings.TrimSpace(string(b))
		if err != nil {
			commit = ""
		}
	}
	if commit == "" {
		m["HEAD tree"] = "unborn"
		return m
	}
	var f []string
	if tree, parents, ok := hReadLooseCommit(filepath.Join(root, ".git"), commit); ok {
		f = append([]string{tree}, parents...)
	} else { // packed (a template commit): ask git
		f = strings.Fields(g.MustRun("log", "-1", "--format=%T %P", commit).S())
	}
	m["HEAD tree"] = f[0][:8]
	m["HEAD parents"] = fmt.Sprint(len(f) - 1)
	if len(f) > 1 {
		m["HEAD parent"] = f[1][:8]
	}
	return m
}

func c28Diff(prefix string, want, got map[string]string) []string {
	keys := map[string]bool{}
	for k := range want {
		keys[k] = true
	}
	for k := range got {
		keys[k] = true
	}
	var ks []string
	for k := range keys {
		ks = append(ks, k)
	}
	sort.Strings(ks)
	var items []string
	for _, k := range ks {
		w, g := want[k], got[k]
		if w == "" {
			w = "absent"
		}
		if g == "" {
			g = "absent"
		}
		if w != g {
			items = append(items, fmt.Sprintf("s:%s %s %s/%s", prefix, k, w, g))
		}
	}
	return items
}

// run executes the sequence on both copies and compares the final states
// (and, after a commit, the commit's tree with git write-tree on A's index).
func (e *c28Env) run(v []int) (sig, class string) {
	rootA, rootB := e.c.TempDir("c28a"), e.c.TempDir("c28b")
	defer os.RemoveAll(rootA)
	defer os.RemoveAll(rootB)
	e.setup(v, rootA)
	e.setup(v, rootB)
	gA, gB := e.t.g.In(rootA), e.t.g.In(rootB)
	var repo *git.Repository
	var w *git.Worktree
	if err := hCall(func() error {
		var err error
		if repo, err = git.PlainOpen(rootA); err != nil {
			return err
		}
		w, err = repo.Worktree()
		return err
	}); err != nil {
		fw.Abort("C28 open: %v", err)
	}
	defer repo.Close()
	var outcome []string
	last := 0
	lastGoErr, lastGitOK := "", true
	var extra []string
	for _, op := range v[2:] {
		if op == 0 {
			continue
		}
		last = op
		err := c28GoOp(w, op)
		if hPanicked(err) {
			return "s:" + c28OpNames[op] + " outcome ok/panic", "panic"
		}
		r := c28GitOp(gB, rootB, op)
		outcome = append(outcome, fmt.Sprintf("%s:%v/%v", c28OpNames[op], err == nil, r.OK()))
		lastGoErr, lastGitOK = "", r.OK()
		if err != nil {
			lastGoErr = strings.ReplaceAll(strings.ReplaceAll(err.Error(), rootA, "<root>"), ":", "")
		}
		if op == 12 && err == nil { // the commit's tree is what git write-tree makes of go-git's index
			wt := gA.MustRun("write-tree").S()
			ct := gA.MustRun("log", "-1", "--format=%T", "HEAD").S()
			if wt != ct {
				extra = append(extra, "s:Commit tree-vs-write-tree "+wt[:8]+"/"+ct[:8])
			}
		}
	}
	oB, oA := c28Observe(gB, rootB), c28Observe(gA, rootA)
	tolerated := false
	if last == 10 || last == 11 {
		// git clean never touches files below a directory whose name is still an
		// index entry (file replaced by a directory) although status lists them as
		// untracked: that quirk is not demanded from go-git
		for _, o := range []map[string]string{oB, oA} {
			for k := range o {
				if !strings.HasPrefix(k, "worktree ") {
					continue
				}
				p := strings.TrimPrefix(k, "worktree ")
				for d := filepath.Dir(p); d != "." && d != "/"; d = filepath.Dir(d) {
					if _, ok := oB["index "+d+" stage0"]; ok {
						if oA[k] != oB[k] {
							tolerated = true
						}
						delete(o, k)
					}
				}
			}
		}
	}
	items := c28Diff(c28OpNames[last], oB, oA)
	items = append(extra, items...)
	class = strings.Join(outcome, ",")
	if len(items) == 0 {
		if tolerated { // the copies differ only by the tolerated quirk: do not extend this prefix
			return "", "tolerated-divergence"
		}
		return "", class
	}
	_ = lastGitOK
	if lastGoErr != "" {
		// go-git gave up where git did the work: one disagreement, named by the error
		return "s:" + c28OpNames[last] + " go-git-fails " + lastGoErr, class
	}
	return strings.Join(items, ";"), class
}

func runC28(c *fw.Ctx) {
	t := hBuildTemplate(c, "c28tmpl", []string{"a", "d/b"}, "-12xl")
	e := &c28Env{c: c, t: t}
	nA, nB := len(c28StatesA), len(c28StatesB)
	if !c.Thorough() { // quick: the states that matter most, in front
		c28StatesA = []string{"---", "111", "112", "11-", "--1", "11x", "11t", "121"}
		c28StatesB = []string{"---+", "111+", "112+", "111", "11-"}
		nA, nB = len(c28StatesA), len(c28StatesB)
	}
	nOps := len(c28OpNames) - 1
	depth := c.Pick(2, 3)
	c.Bound("states_a", c28StatesA)
	c.Bound("states_d/b", c28StatesB[:nB])
	c.Bound("ops", c28OpNames[1:])
	c.Bound("depth", depth)
	c.Bound("extras", "always present: .gitignore (*.ign), z.ign, dx, u/v, empty dir e/; d/u and d/z.ign in the '+' states")
	c.SetRule("initial states = (HEAD,index,worktree) triples for a (quick 8, thorough 13) x d/b (quick 5, thorough 10; with/without untracked content inside d) built like C27 plus fixed untracked/ignored extras; all op sequences up to the depth over 12 operations (quick: depth 2 only from 4 of the 40 states), breadth first: a sequence is extended only if its prefix agreed; go-git runs the sequence on copy A, the equivalent git commands on copy B (AddGlob(*) = git add of the shell expansion; Remove = git rm -r -f; Clean = git clean -f [-d]; Commit with identical identity/date/message); compared after the last op: git ls-files -s of both, all remaining files, HEAD target, HEAD commit tree and parents, and for Commit tree == git write-tree of A's index; non-trivial = every executed sequence; distinct counts (per-op success pattern of both sides)")
	c.Assume("git 2.39.5 commands listed in the rule are 'the equivalent git commands'; whether an op returned an error is not compared, only the resulting states")

	if v := hDevVec(); v != nil {
		sig, class := e.run(v)
		fmt.Printf("case %s\n outcomes(go-git ok/git ok) %s\n disagreement %s\n", c28Render(v), class, sig)
		return
	}
	var fails hFailures
	var mu sync.Mutex
	diverged := map[string]bool{}
	prefixKey := func(v []int) string { return fmt.Sprint(v) }
	var level [][]int
	for a := 0; a < nA; a++ {
		for b := 0; b < nB; b++ {
			level = append(level, []int{a, b})
		}
	}
	ord := 0
	for d := 1; d <= depth; d++ {
		var cases [][]int
		for _, p := range level {
			if diverged[prefixKey(p)] {
				continue
			}
			if !c.Thorough() && d > 1 && !c28QuickDeep[[2]int{p[0], p[1]}] {
				continue // quick: longer sequences only from a few states
			}
			for op := 1; op <= nOps; op++ {
				cases = append(cases, append(append([]int{}, p...), op))
			}
		}
		base := ord
		c.ParDo(len(cases), 0, func(k int) {
			i := hSpread(k, len(cases))
			v := cases[i]
			sig, class := e.run(v)
			c.Eval()
			c.Class(class)
			if i%401 == 0 {
				c.Sample(map[string]any{"case": c28Render(v), "outcomes(go-git/git)": class, "disagreement": sig})
			}
			if class == "tolerated-divergence" {
				mu.Lock()
				diverged[prefixKey(v)] = true
				mu.Unlock()
			}
			if sig != "" {
				pad := append(append([]int{}, v...), make([]int, 2+depth-len(v))...)
				for _, it := range strings.Split(sig, ";") {
					fails.addHint(base+i, pad, sig, c28ClassOf(v, it))
				}
				mu.Lock()
				diverged[prefixKey(v)] = true
				mu.Unlock()
			}
		})
		ord += len(cases)
		c.Bound(fmt.Sprintf("sequences_depth_%d", d), len(cases))
		level = cases
	}
	hReportClasses(c, &fails, c28Render)
}

// quick tier: states (indices into the quick lists) from which depth-2
// sequences are explored: (---,---+) (112,112+) (11x,111) (121,11-)
var c28QuickDeep = map[[2]int]bool{{0, 0}: true, {2, 2}: true, {5, 3}: true, {7, 4}: true}

var c28Family = []string{"none", "Add", "Add", "Add", "AddAll", "AddGlob", "Remove", "Remove", "Move", "Move", "Clean", "Clean(Dir)", "Commit"}

// c28ClassOf names a disagreement by the op families of the sequence, the
// aspect (index / worktree / HEAD) and the relation between git's and go-git's
// value; paths and blob names are left out so that one defect has one key.
func c28ClassOf(v []int, item string) string {
	var fam []string
	for _, o := range v[2:] {
		if o != 0 {
			fam = append(fam, c28Family[o])
		}
	}
	name := fam[len(fam)-1]
	if len(fam) > 1 {
		name = "... -> " + name
	}
	if i := strings.Index(item, " go-git-fails "); i >= 0 {
		return name + ": go-git fails (" + item[i+len(" go-git-fails "):] + ") where git changes the state"
	}
	body := item[strings.Index(item, ":")+1:] // "<op> <aspect> <path...> <want>/<got>"
	f := strings.Fields(body)
	aspect, rel := "?", "differs"
	if len(f) >= 3 {
		aspect = f[1]
		wg := strings.SplitN(f[len(f)-1], "/", 2)
		if aspect == "HEAD" {
			aspect = "HEAD " + f[2]
		}
		if len(wg) == 2 {
			switch {
			case wg[0] == "absent":
				rel = "extra in go-git"
			case wg[1] == "absent":
				rel = "missing in go-git"
			case strings.SplitN(wg[0], "-", 2)[0] != strings.SplitN(wg[1], "-", 2)[0]:
				rel = "mode/type differs"
			default:
				rel = "content differs"
			}
		}
	}
	// depth-1 failures are named by the op alone; deeper ones by "... -> last op"
	// (the prefix agreed with git, so the last op is where the states part)
	return name + ": " + aspect + " " + rel
}

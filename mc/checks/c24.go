package checks

import (
	"fmt"
	"io"
	"io/fs"
	"sort"
	"strings"
	"sync/atomic"
	"time"

	"github.com/go-git/go-git/v6/x/fdpool"
	"github.com/go-git/go-git/v6/x/verif/bridge"
	"github.com/go-git/go-git/v6/x/verif/vsched"

	"verifmc/fw"
)

func init() {
	fw.Register(&fw.Check{ID: "C24", Level: "model_checking", Run: runC24, QuickBudget: 90, ThoroughBudget: 1200})
}

// c24File is the fake descriptor: it records being closed.
type c24File struct {
	owner  int
	closed atomic.Bool
	env    *c24Env
}

func (f *c24File) ReadAt(p []byte, off int64) (int, error) {
	if f.closed.Load() {
		return 0, fs.ErrClosed
	}
	return len(p), nil
}
func (f *c24File) Read(p []byte) (int, error) { return f.ReadAt(p, 0) }
func (f *c24File) Close() error {
	if f.closed.Swap(true) {
		f.env.doubleClose.Store(true)
		return fs.ErrClosed
	}
	f.env.open.Add(-1)
	return nil
}

var _ io.ReaderAt = (*c24File)(nil)

type c24Env struct {
	sf          []*bridge.SharedFile
	closeCalled []atomic.Bool
	open        atomic.Int32
	opens       atomic.Int32
	doubleClose atomic.Bool
	pinned      atomic.Int32 // handles currently held by readers
	bad         atomic.Value // first violation text
	pool        *fdpool.Pool
	cap         int
}

func (e *c24Env) fail(format string, a ...any) {
	e.bad.CompareAndSwap(nil, fmt.Sprintf(format, a...))
}

// op codes: 'A' acquire-check-release, 'H' acquire and hold until the end of the thread,
// 'N' ReleaseNow, 'C' Close, 'D' acquire i then acquire j, release both
type c24Op struct {
	kind byte
	i    int
}

func (o c24Op) String() string { return fmt.Sprintf("%c%d", o.kind, o.i) }

func c24Thread(e *c24Env, prog []c24Op) func() any {
	return func() any {
		var held []func()
		for _, op := range prog {
			switch op.kind {
			case 'A', 'H':
				f, err := e.sf[op.i].Acquire()
				if err != nil {
					if !e.closeCalled[op.i].Load() {
						e.fail("Acquire(sf%d) failed with %v although Close was never called", op.i, err)
					}
					continue
				}
				e.pinned.Add(1)
				ff := f.(*c24File)
				i := op.i
				check := func(when string) {
					if ff.closed.Load() && !e.closeCalled[i].Load() {
						e.fail("descriptor of sf%d closed %s while its reader still holds it (Close never called)", i, when)
					}
				}
				check("right after Acquire")
				vsched.Yield("reader holds handle")
				check("while held")
				if _, err := ff.ReadAt(make([]byte, 1), 0); err != nil && !e.closeCalled[i].Load() {
					e.fail("ReadAt on held descriptor of sf%d failed: %v", i, err)
				}
				rel := func() {
					check("before Release")
					e.pinned.Add(-1)
					e.sf[i].Release()
				}
				if op.kind == 'A' {
					rel()
				} else {
					held = append(held, rel)
				}
			case 'N':
				_ = e.sf[op.i].ReleaseNow()
			case 'C':
				e.closeCalled[op.i].Store(true)
				_ = e.sf[op.i].Close()
			}
			// capacity invariant at a quiescent instant of this thread (no eviction of its own in flight)
		}
		for _, r := range held {
			r()
		}
		return nil
	}
}

func runC24(c *fw.Ctx) {
	maxPre := c.Pick(2, 3)
	c.Bound("max_preemptions", maxPre)
	c.SetRule("real sharedfile.SharedFile x2 over a real fdpool.Pool (cap none/1/2, none = grace timer as scheduler event); every assignment of programs (<=2 ops from {Acquire-check-Release, Acquire-hold, ReleaseNow, Close} x 2 files) to 2 threads and of 1-op programs to 3 threads, up to thread symmetry; every interleaving at Mutex.Lock/atomic/timer-fire points within the preemption bound; invariants on every execution: held descriptor never closed unless Close was called, Acquire fails only after Close, no double close, no deadlock, at quiescence (timers drained) idle un-pooled descriptors are closed and open pooled descriptors <= capacity; distinct = distinct (program set, pool, outcome signature)")
	c.Assume("cooperative scheduler at synchronisation operations (data races on plain memory are out of scope); timers may fire at any point after arming")

	var alphabet []c24Op
	for _, k := range []byte{'A', 'H', 'N', 'C'} {
		for i := 0; i < 2; i++ {
			alphabet = append(alphabet, c24Op{k, i})
		}
	}
	var progs1, progs2 [][]c24Op
	for _, a := range alphabet {
		progs1 = append(progs1, []c24Op{a})
		progs2 = append(progs2, []c24Op{a})
	}
	for _, a := range alphabet {
		for _, b := range alphabet {
			progs2 = append(progs2, []c24Op{a, b})
		}
	}
	type harness struct {
		progs [][]c24Op
		cap   int // -1 = no pool
	}
	var hs []harness
	caps := []int{-1, 1}
	if c.Thorough() {
		caps = []int{-1, 1, 2}
	}
	c.Bound("pool_capacities(-1=no pool, grace timer)", caps)
	canonical := func(progs [][]c24Op) bool { // file symmetry: the first file mentioned is sf0
		for _, p := range progs {
			for _, o := range p {
				return o.i == 0
			}
		}
		return true
	}
	for _, capv := range caps {
		for i := 0; i < len(progs2); i++ {
			for j := i; j < len(progs2); j++ {
				hs = append(hs, harness{[][]c24Op{progs2[i], progs2[j]}, capv})
			}
		}
		for i := 0; i < len(progs1); i++ {
			for j := i; j < len(progs1); j++ {
				for k := j; k < len(progs1); k++ {
					hs = append(hs, harness{[][]c24Op{progs1[i], progs1[j], progs1[k]}, capv})
				}
			}
		}
	}
	// non-trivial harnesses only: at least one Acquire and at least one of (second acquirer, ReleaseNow, Close)
	var sel []harness
	for _, h := range hs {
		acq, other := 0, 0
		for _, p := range h.progs {
			for _, o := range p {
				if o.kind == 'A' || o.kind == 'H' {
					acq++
				} else {
					other++
				}
			}
		}
		if acq >= 1 && acq+other >= 2 && canonical(h.progs) {
			sel = append(sel, h)
		}
	}
	c.Bound("harnesses", len(sel))
	var totalExec, totalPoints atomic.Int64
	var maxPoints atomic.Int64
	deadline := time.Now().Add(time.Duration(c.Pick(75, 1100)) * time.Second)
	c.ParDo(len(sel), 0, func(hi int) {
		h := sel[hi]
		var names []string
		for _, p := range h.progs {
			var s []string
			for _, o := range p {
				s = append(s, o.String())
			}
			names = append(names, strings.Join(s, ","))
		}
		hname := fmt.Sprintf("cap=%d threads=[%s]", h.cap, strings.Join(names, " | "))
		outcomes := map[string]bool{}
		body := func(x *vsched.Exec) func(*vsched.Exec) string {
			e := &c24Env{cap: h.cap}
			if h.cap > 0 {
				e.pool = fdpool.New(h.cap)
			}
			e.closeCalled = make([]atomic.Bool, 2)
			for i := 0; i < 2; i++ {
				i := i
				open := func() (bridge.ReadAtCloser, error) {
					e.open.Add(1)
					e.opens.Add(1)
					return &c24File{owner: i, env: e}, nil
				}
				e.sf = append(e.sf, bridge.NewSharedFileWithPool(open, time.Hour, e.pool))
			}
			for ti, p := range h.progs {
				x.Go(fmt.Sprintf("t%d", ti), c24Thread(e, p))
			}
			return func(x *vsched.Exec) string {
				if v := e.bad.Load(); v != nil {
					return v.(string)
				}
				for _, t := range x.Threads() {
					if t.Panic != "" {
						return "panic: " + strings.SplitN(t.Panic, "\n", 2)[0]
					}
				}
				if x.Deadlock {
					return "deadlock"
				}
				if e.doubleClose.Load() {
					return "descriptor closed twice"
				}
				open := int(e.open.Load())
				if h.cap < 0 && open != 0 {
					return fmt.Sprintf("%d idle un-pooled descriptor(s) still open at quiescence after all timers fired", open)
				}
				if h.cap > 0 && open > h.cap {
					return fmt.Sprintf("%d pooled descriptors open at quiescence, capacity %d, none pinned", open, h.cap)
				}
				outcomes[fmt.Sprintf("open=%d opens=%d", open, e.opens.Load())] = true
				return ""
			}
		}
		cfg := vsched.Config{MaxPreemptions: maxPre, DrainTimers: true, Deadline: deadline}
		st := vsched.Explore(cfg, body, func(f vsched.Failure) bool {
			key := f.What
			c.Fail(hnameKey(key), fmt.Sprintf("%s: %s", hname, f.What), map[string]any{"harness": hname, "choices": f.Choices, "log": f.Log})
			return false
		}, func(msg string) { c.EngineError("%s: %s", hname, msg) })
		totalExec.Add(int64(st.Executions))
		totalPoints.Add(int64(st.Points))
		if int64(st.MaxPoints) > maxPoints.Load() {
			maxPoints.Store(int64(st.MaxPoints))
		}
		if !st.Complete {
			c.Incomplete("deadline inside " + hname)
		}
		c.Evals(st.Executions)
		var os []string
		for o := range outcomes {
			os = append(os, o)
		}
		sort.Strings(os)
		c.Class(hname + strings.Join(os, ";"))
		if hi%97 == 0 {
			c.Sample(map[string]any{"harness": hname, "schedules": st.Executions, "outcomes": os})
		}
	})
	c.States(int(totalExec.Load()))
	c.Transitions(int(totalPoints.Load()))
	c.Extra("schedules", totalExec.Load())
	c.Extra("max_points_per_execution", maxPoints.Load())
	c.TracesValidated(0)
}

// hnameKey strips instance numbers so that one defect gives one key.
func hnameKey(s string) string {
	r := strings.NewReplacer("sf0", "sf", "sf1", "sf")
	return r.Replace(s)
}

package checks

import (
	"errors"
	"fmt"
	"io"
	"io/fs"
	"os"
	"regexp"
	"sort"
	"strings"
	"sync/atomic"
	"time"

	"github.com/go-git/go-git/v6/x/fdpool"
	"github.com/go-git/go-git/v6/x/verif/bridge"
	"github.com/go-git/go-git/v6/x/verif/vsched"

	"verifmc/fw"
)

func init() {
	fw.Register(&fw.Check{ID: "C24", Level: "model_checking", Run: runC24, QuickBudget: 90, ThoroughBudget: 1200})
}

// c24File is the fake descriptor: it records being closed.
type c24File struct {
	owner  int
	closed atomic.Bool
	env    *c24Env
}

func (f *c24File) ReadAt(p []byte, off int64) (int, error) {
	if f.closed.Load() {
		return 0, fs.ErrClosed
	}
	return len(p), nil
}
func (f *c24File) Read(p []byte) (int, error) { return f.ReadAt(p, 0) }
func (f *c24File) Close() error {
	if f.closed.Swap(true) {
		f.env.doubleClose.Store(true)
		return fs.ErrClosed
	}
	f.env.open.Add(-1)
	return nil
}

var _ io.ReaderAt = (*c24File)(nil)

type c24Env struct {
	sf          []*bridge.SharedFile
	closeCalled []atomic.Bool
	open        atomic.Int32
	opens       atomic.Int32
	doubleClose atomic.Bool
	pinned      atomic.Int32 // handles currently held by readers
	intent      atomic.Int32 // readers between the call of Acquire and the return of the matching Release
	prePinned   int32        // handles pinned by the set-up for the whole execution
	injected    atomic.Int32 // open attempts that were made to fail
	bad         atomic.Value // first violation text
	pool        *fdpool.Pool
	cap         int
}

var errC24Injected = errors.New("injected open failure")

// capCheck: with a real pool the number of open descriptors never exceeds capacity + pinned readers.
// A reader counts as pinning from the call of Acquire (the descriptor is opened before the pool is
// told) to the return of Release (an evicted-while-pinned descriptor is closed inside Release).
func (e *c24Env) capCheck(when string) {
	if e.cap <= 0 {
		return
	}
	// read the pin count first: open can only be over-estimated relative to it by a concurrent opener,
	// and every opener has raised intent before opening
	open := e.open.Load()
	pins := e.intent.Load() + e.prePinned
	if pins2 := e.intent.Load() + e.prePinned; pins2 > pins {
		pins = pins2
	}
	if int(open) > e.cap+int(pins) {
		e.fail("%d pooled descriptors open %s, capacity %d, %d pinned by readers", open, when, e.cap, pins)
	}
}

func (e *c24Env) fail(format string, a ...any) {
	e.bad.CompareAndSwap(nil, fmt.Sprintf(format, a...))
}

// op codes: 'A' acquire-check-release, 'H' acquire and hold until the end of the thread,
// 'N' ReleaseNow, 'C' Close, 'D' acquire i then acquire j, release both
type c24Op struct {
	kind byte
	i    int
}

func (o c24Op) String() string { return fmt.Sprintf("%c%d", o.kind, o.i) }

func c24Thread(e *c24Env, prog []c24Op) func() any {
	return func() any {
		var held []func()
		for _, op := range prog {
			switch op.kind {
			case 'A', 'H':
				e.intent.Add(1)
				f, err := e.sf[op.i].Acquire()
				if err != nil {
					e.intent.Add(-1)
					if errors.Is(err, errC24Injected) {
						continue // the opener failed: nothing is handed out, nothing may stay pinned
					}
					if !e.closeCalled[op.i].Load() {
						e.fail("Acquire(sf%d) failed with %v although Close was never called", op.i, err)
					}
					continue
				}
				e.pinned.Add(1)
				ff := f.(*c24File)
				i := op.i
				check := func(when string) {
					if ff.closed.Load() && !e.closeCalled[i].Load() {
						e.fail("descriptor of sf%d closed %s while its reader still holds it (Close never called)", i, when)
					}
				}
				check("right after Acquire")
				vsched.Yield("reader holds handle")
				check("while held")
				if _, err := ff.ReadAt(make([]byte, 1), 0); err != nil && !e.closeCalled[i].Load() {
					e.fail("ReadAt on held descriptor of sf%d failed: %v", i, err)
				}
				rel := func() {
					check("before Release")
					e.pinned.Add(-1)
					e.sf[i].Release()
					e.intent.Add(-1)
				}
				if op.kind == 'A' {
					rel()
				} else {
					held = append(held, rel)
				}
			case 'N':
				_ = e.sf[op.i].ReleaseNow()
			case 'C':
				e.closeCalled[op.i].Store(true)
				_ = e.sf[op.i].Close()
			}
			// capacity invariant at an operation boundary of this thread
			e.capCheck("after " + op.String())
		}
		for _, r := range held {
			r()
		}
		return nil
	}
}

// c24Harness is one program assignment in one environment.
type c24Harness struct {
	progs    [][]c24Op
	cap      int    // -1 = no pool (grace timer); 0 = no-op pool (fdpool.New(0)); >0 = real pool
	third    string // "", "idle": a third member registered and released by the set-up; "pinned": held by the set-up throughout
	failOpen bool   // the first open attempt of sf0 fails
	family   string
}

func (h c24Harness) ops() int {
	n := 0
	for _, p := range h.progs {
		n += len(p)
	}
	return n
}

func runC24(c *fw.Ctx) {
	if os.Getenv("VERIF_C24_ONLY") == "store" { // development aid: part B alone
		c24Store(c)
		return
	}
	maxPre := c.Pick(2, 3)
	c.Bound("max_preemptions", maxPre)
	c.SetRule("part A: real sharedfile.SharedFile over a real fdpool.Pool, environments {no pool = grace timer as scheduler event; fdpool.New(0) = documented 'pooling disabled'; pool cap 1 over two files; pool cap 2 over two files plus a third member that the set-up registered (idle) or holds (pinned); first open attempt failing, with and without pool}; programs of <=2 ops from {Acquire-check-Release, Acquire-hold, ReleaseNow, Close} per file assigned to 2 threads, 1-op programs to 3 threads (thorough also 3-op programs and 3 threads x 2 ops on one file), up to thread and file symmetry; without a real pool the files are independent objects, so only one file is driven there; harnesses run smallest first, round-robin over the environments, so that a deadline cuts the largest programs of every environment rather than whole environments; every interleaving at Mutex.Lock/atomic/timer-fire points within the preemption bound; invariants on every execution: held descriptor never closed unless Close was called, Acquire fails only after Close or when the opener failed, no double close, no deadlock, open descriptors <= capacity + readers between Acquire and Release at every operation boundary, at quiescence (timers drained) idle un-pooled descriptors are closed and open pooled descriptors <= capacity; part B (c24_store.go): the same accounting on a real filesystem.Storage; distinct = distinct (program set, environment, outcome signature)")
	c.Assume("cooperative scheduler at synchronisation operations (data races on plain memory are out of scope); timers may fire at any point after arming; SharedFiles without a common real pool share no state (one file is driven there)")

	alpha := func(files int) []c24Op {
		var a []c24Op
		for _, k := range []byte{'A', 'H', 'N', 'C'} {
			for i := 0; i < files; i++ {
				a = append(a, c24Op{k, i})
			}
		}
		return a
	}
	progsUpTo := func(a []c24Op, n int) [][]c24Op {
		out := [][]c24Op{}
		level := [][]c24Op{{}}
		for d := 0; d < n; d++ {
			var next [][]c24Op
			for _, p := range level {
				for _, o := range a {
					next = append(next, append(append([]c24Op{}, p...), o))
				}
			}
			out = append(out, next...)
			level = next
		}
		return out
	}
	canonical := func(progs [][]c24Op, files int) bool {
		// file symmetry: the first file mentioned is sf0; every mentioned file is acquired by somebody
		// (a file that is only closed or soft-closed never opens a descriptor: the harness equals a smaller one)
		first := true
		acq := make([]bool, files)
		used := make([]bool, files)
		for _, p := range progs {
			for _, o := range p {
				if first && o.i != 0 {
					return false
				}
				first = false
				used[o.i] = true
				if o.kind == 'A' || o.kind == 'H' {
					acq[o.i] = true
				}
			}
		}
		for i := range used {
			if used[i] && !acq[i] {
				return false
			}
		}
		return true
	}
	// multisets of k programs (thread symmetry)
	var multisets func(ps [][]c24Op, k, from int, cur [][]c24Op, emit func([][]c24Op))
	multisets = func(ps [][]c24Op, k, from int, cur [][]c24Op, emit func([][]c24Op)) {
		if k == 0 {
			emit(append([][]c24Op{}, cur...))
			return
		}
		for i := from; i < len(ps); i++ {
			multisets(ps, k-1, i, append(cur, ps[i]), emit)
		}
	}
	type env struct {
		name     string
		cap      int
		files    int
		third    string
		failOpen bool
	}
	envs := []env{
		{"no pool", -1, 1, "", false},
		{"no-op pool (cap 0)", 0, 1, "", false},
		{"no pool, first open fails", -1, 1, "", true},
		{"pool cap 1", 1, 2, "", false},
		{"pool cap 1, first open fails", 1, 2, "", true},
		{"pool cap 2 + idle third member", 2, 2, "idle", false},
		{"pool cap 2 + pinned third member", 2, 2, "pinned", false},
	}
	var envNames []string
	for _, e := range envs {
		envNames = append(envNames, e.name)
	}
	c.Bound("environments", envNames)
	perEnv := make([][]c24Harness, len(envs))
	for ei, e := range envs {
		a := alpha(e.files)
		add := func(progs [][]c24Op) {
			acq, other := 0, 0
			for _, p := range progs {
				for _, o := range p {
					if o.kind == 'A' || o.kind == 'H' {
						acq++
					} else {
						other++
					}
				}
			}
			min := 2
			if e.failOpen || e.third != "" {
				min = 1 // the environment itself is the second actor
			}
			if acq >= 1 && acq+other >= min && canonical(progs, e.files) {
				perEnv[ei] = append(perEnv[ei], c24Harness{progs: progs, cap: e.cap, third: e.third, failOpen: e.failOpen, family: e.name})
			}
		}
		small := e.failOpen || e.third != "" // derived environments: programs of at most 3 ops in total (quick), 4 (thorough)
		maxOps := 4
		if small && !c.Thorough() {
			maxOps = 3
		}
		if e.failOpen || e.third != "" {
			multisets(progsUpTo(a, 2), 1, 0, nil, add)
		}
		multisets(progsUpTo(a, 2), 2, 0, nil, func(p [][]c24Op) {
			if len(p[0])+len(p[1]) <= maxOps {
				add(p)
			}
		})
		multisets(progsUpTo(a, 1), 3, 0, nil, add)
		if c.Thorough() && e.files == 1 {
			p3 := progsUpTo(a, 3)
			multisets(p3, 2, 0, nil, func(p [][]c24Op) {
				if len(p[0]) == 3 || len(p[1]) == 3 {
					add(p)
				}
			})
			multisets(progsUpTo(a, 2), 3, 0, nil, func(p [][]c24Op) {
				if len(p[0])+len(p[1])+len(p[2]) > 3 {
					add(p)
				}
			})
		}
	}
	// smallest first, round-robin over the environments
	var sel []c24Harness
	for ei := range perEnv {
		sort.SliceStable(perEnv[ei], func(i, j int) bool { return perEnv[ei][i].ops() < perEnv[ei][j].ops() })
		c.Bound("harnesses: "+envs[ei].name, len(perEnv[ei]))
	}
	for k := 0; ; k++ {
		any := false
		for ei := range perEnv {
			if k < len(perEnv[ei]) {
				sel = append(sel, perEnv[ei][k])
				any = true
			}
		}
		if !any {
			break
		}
	}
	c.Bound("harnesses", len(sel))
	var totalExec, totalPoints atomic.Int64
	var maxPoints atomic.Int64
	var cut atomic.Int64
	deadline := time.Now().Add(time.Duration(c.Pick(50, 900)) * time.Second)
	c.ParDo(len(sel), 0, func(hi int) {
		h := sel[hi]
		var names []string
		for _, p := range h.progs {
			var s []string
			for _, o := range p {
				s = append(s, o.String())
			}
			names = append(names, strings.Join(s, ","))
		}
		hname := fmt.Sprintf("%s threads=[%s]", h.family, strings.Join(names, " | "))
		if h.family == "no pool" || h.family == "pool cap 1" { // names of the first version of this check
			hname = fmt.Sprintf("cap=%d threads=[%s]", h.cap, strings.Join(names, " | "))
		}
		outcomes := map[string]bool{}
		body := func(x *vsched.Exec) func(*vsched.Exec) string {
			e := &c24Env{cap: h.cap}
			if h.cap >= 0 {
				e.pool = fdpool.New(h.cap)
			}
			nf := 2
			if h.third != "" {
				nf = 3
			}
			e.closeCalled = make([]atomic.Bool, nf)
			var attempts0 atomic.Int32
			for i := 0; i < nf; i++ {
				i := i
				open := func() (bridge.ReadAtCloser, error) {
					if i == 0 && h.failOpen && attempts0.Add(1) == 1 {
						e.injected.Add(1)
						return nil, errC24Injected
					}
					e.open.Add(1)
					e.opens.Add(1)
					return &c24File{owner: i, env: e}, nil
				}
				e.sf = append(e.sf, bridge.NewSharedFileWithPool(open, time.Hour, e.pool))
			}
			var thirdFile bridge.ReadAtCloser
			if h.third != "" {
				// set-up (not scheduled): the third member is in the pool before the threads start
				f, err := e.sf[2].Acquire()
				if err != nil {
					fw.Abort("C24 set-up: %v", err)
				}
				if h.third == "idle" {
					e.sf[2].Release()
				} else {
					thirdFile = f
					e.prePinned = 1
				}
			}
			for ti, p := range h.progs {
				x.Go(fmt.Sprintf("t%d", ti), c24Thread(e, p))
			}
			return func(x *vsched.Exec) string {
				if v := e.bad.Load(); v != nil {
					return v.(string)
				}
				for _, t := range x.Threads() {
					if t.Panic != "" {
						return "panic: " + strings.SplitN(t.Panic, "\n", 2)[0]
					}
				}
				if x.Deadlock {
					return "deadlock"
				}
				if e.doubleClose.Load() {
					return "descriptor closed twice"
				}
				if thirdFile != nil {
					if thirdFile.(*c24File).closed.Load() {
						return "descriptor of the member pinned by the set-up was closed while held"
					}
					e.sf[2].Release()
					e.prePinned = 0
				}
				open := int(e.open.Load())
				if h.cap == 0 && open != 0 {
					return fmt.Sprintf("%d idle descriptor(s) still open at quiescence after all timers fired: with fdpool.New(0) (pooling disabled) nothing ever closes an idle descriptor", open)
				}
				if h.cap < 0 && open != 0 {
					return fmt.Sprintf("%d idle un-pooled descriptor(s) still open at quiescence after all timers fired", open)
				}
				if h.cap > 0 && open > h.cap {
					return fmt.Sprintf("%d pooled descriptors open at quiescence, capacity %d, none pinned", open, h.cap)
				}
				outcomes[fmt.Sprintf("open=%d opens=%d", open, e.opens.Load())] = true
				return ""
			}
		}
		cfg := vsched.Config{MaxPreemptions: maxPre, DrainTimers: true, Deadline: deadline}
		st := vsched.Explore(cfg, body, func(f vsched.Failure) bool {
			key := f.What
			c.Fail(hnameKey(key), fmt.Sprintf("%s: %s", hname, f.What), map[string]any{"harness": hname, "choices": f.Choices, "log": f.Log})
			return false
		}, func(msg string) { c.EngineError("%s: %s", hname, msg) })
		totalExec.Add(int64(st.Executions))
		totalPoints.Add(int64(st.Points))
		if int64(st.MaxPoints) > maxPoints.Load() {
			maxPoints.Store(int64(st.MaxPoints))
		}
		if !st.Complete {
			if cut.Add(1) <= 5 {
				c.Incomplete("deadline inside " + hname)
			}
		}
		c.Evals(st.Executions)
		var os []string
		for o := range outcomes {
			os = append(os, o)
		}
		sort.Strings(os)
		if st.Executions > 0 {
			c.Class(hname + strings.Join(os, ";"))
		}
		if hi%97 == 0 {
			c.Sample(map[string]any{"harness": hname, "schedules": st.Executions, "outcomes": os})
		}
	})
	if n := cut.Load(); n > 5 {
		c.Incomplete(fmt.Sprintf("deadline inside or before %d harnesses in all (the largest programs of each environment)", n))
	}
	c.States(int(totalExec.Load()))
	c.Transitions(int(totalPoints.Load()))
	c.Extra("schedules", totalExec.Load())
	c.Extra("max_points_per_execution", maxPoints.Load())
	c.Extra("harnesses_cut_by_deadline", cut.Load())
	c.TracesValidated(0)
	c24Store(c)
}

// hnameKey strips instance numbers so that one defect gives one key.
func hnameKey(s string) string {
	r := strings.NewReplacer("sf0", "sf", "sf1", "sf", "sf2", "sf")
	return reC24Count.ReplaceAllString(r.Replace(s), "N ")
}

var reC24Count = regexp.MustCompile(`^[0-9]+ `)

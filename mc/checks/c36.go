package checks

// C36 — fetch and clone deliver complete history and correct refs.
//
// Space: every server DAG with <= N commits (<=2 parents) x 2 timestamp orders,
// refs = a branch on every tip + main on the last commit + tags on commit /
// tree / blob / tag / a commit reachable only through a tag; every client
// prior state derived from the DAG (empty, every ancestor-closed subset already
// fetched, diverged extra commit, shallow at depth 1); refspecs {default,
// single branch, mirror}; tag modes {following, all, none}; depth {0,1,2,3};
// prune; protocol {v0,v1,v2}; pairings go-git->go-git (file transport,
// in-process), go-git->git (transport that runs the real `git upload-pack`),
// git->go-git (real `git fetch/clone --upload-pack="vcheck __serve upload-pack"`).
//
// Oracle: (1) `git fsck --connectivity-only` on the client; (2) client refs =
// server refs mapped through the refspecs (a small model, itself replayed
// against the git->git result of every request); (3) the shallow file equals
// the one real git produces for the same request (git->git run); a real git
// client against go-git's server must end in exactly the git->git state.
// A request that fails is not a violation (the statement is about successful
// fetches); failures are counted in the evidence. An operation that exceeds the
// 60 s watchdog is inconclusive.

import (
	"context"
	"errors"
	"fmt"
	"net/http/httptest"
	"os"
	"path/filepath"
	"sort"
	"strconv"
	"strings"
	"sync"
	"time"

	"github.com/go-git/go-billy/v6/osfs"
	git "github.com/go-git/go-git/v6"
	"github.com/go-git/go-git/v6/backend"
	"github.com/go-git/go-git/v6/config"
	"github.com/go-git/go-git/v6/plumbing"
	"github.com/go-git/go-git/v6/plumbing/client"
	"github.com/go-git/go-git/v6/plumbing/transport"

	"verifmc/fw"
)

func init() {
	fw.Register(&fw.Check{ID: "C36", Level: "exploration", Run: runC36, QuickBudget: 150, ThoroughBudget: 1400})
}

// ---------------------------------------------------------------------------
// server side

type i36Base struct {
	idx  int
	dag  fw.DAG
	ts   int // 0 monotone, 1 inverted timestamps
	dir  string
	ids  []string          // commit i
	x    []string          // x[j]: extra commit, child of j (only on "diverged" old servers)
	u    string            // commit reachable only through tag tu (child of 0)
	tags map[string]string // refs/tags/<name> -> object id
	tl   int               // commit the lightweight tag tl points at
	name string
	once sync.Once
}

// ensure builds the repository on first use (so that small DAGs start at once).
func (b *i36Base) ensure(c *fw.Ctx) { b.once.Do(func() { i36BuildBase(c, b) }) }

type i36Srv struct {
	dir  string
	refs map[string]string
}

func i36DagName(d fw.DAG, ts int) string {
	var b strings.Builder
	for i, ps := range d.Parents {
		if i > 0 {
			b.WriteByte(';')
		}
		for j, p := range ps {
			if j > 0 {
				b.WriteByte(',')
			}
			fmt.Fprintf(&b, "%d", p)
		}
	}
	return fmt.Sprintf("dag[%s]ts%d", b.String(), ts)
}

func i36BuildBase(c *fw.Ctx, b *i36Base) {
	d, ts := b.dag, b.ts
	n := len(d.Parents)
	ranks := make([]int, n)
	for i := range ranks {
		if ts == 0 {
			ranks[i] = i
		} else {
			ranks[i] = n - 1 - i
		}
	}
	specs := fw.HistoryFromDAG(d, ranks, 1600000000, 1000)
	for j := 0; j < n; j++ { // x_j
		files := map[string]fw.FileSpec{}
		for k, v := range specs[j].Files {
			files[k] = v
		}
		files["x"] = fw.FileSpec{Data: fmt.Sprintf("diverged on %d\n", j)}
		specs = append(specs, fw.CommitSpec{Parents: []int{j}, Time: 1600000000 + int64(n+j)*1000, Files: files, Msg: fmt.Sprintf("x%d\n", j)})
	}
	{
		files := map[string]fw.FileSpec{}
		for k, v := range specs[0].Files {
			files[k] = v
		}
		files["u"] = fw.FileSpec{Data: "only via tag\n"}
		specs = append(specs, fw.CommitSpec{Parents: []int{0}, Time: 1600000000 + int64(2*n)*1000, Files: files, Msg: "u\n"})
	}
	g, dir := c.InitRepo("c36base", "sha1", true)
	ids := g.BuildHistory(specs, false)
	b.dir, b.ids, b.x, b.u, b.tags = dir, ids[:n], ids[n:2*n], ids[2*n], map[string]string{}
	tree := g.MustRun("rev-parse", ids[0]+"^{tree}").S()
	blob := g.MustRun("rev-parse", ids[0]+":f0").S()
	g.MustRun("tag", "-a", "-m", "ta", "ta", ids[0])
	g.MustRun("tag", "-a", "-m", "tt", "tt", tree)
	g.MustRun("tag", "-a", "-m", "tb", "tb", blob)
	g.MustRun("tag", "-a", "-m", "tu", "tu", b.u)
	g.MustRun("tag", "-a", "-m", "tn", "tn", "refs/tags/ta")
	// tm: a tag of a tag whose inner tag object has no reference of its own (it travels only through tm)
	g.MustRun("tag", "-a", "-m", "tmi", "tmi", ids[0])
	g.MustRun("tag", "-a", "-m", "tm", "tm", "refs/tags/tmi")
	g.MustRun("tag", "-d", "tmi")
	for _, t := range []string{"ta", "tt", "tb", "tu", "tn", "tm"} {
		b.tags["refs/tags/"+t] = g.MustRun("rev-parse", "refs/tags/"+t).S()
	}
	// the lightweight tag sits on commit 1 when there is one: a non-root commit
	// that is a want of its own and also reached through a longer path
	b.tl = 0
	if n > 1 {
		b.tl = 1
	}
	b.tags["refs/tags/tl"] = ids[b.tl]
}

// tips of the sub-DAG induced by mask.
func i36Tips(d fw.DAG, mask int) []int {
	n := len(d.Parents)
	hasChild := make([]bool, n)
	for i := 0; i < n; i++ {
		if mask>>i&1 == 0 {
			continue
		}
		for _, p := range d.Parents[i] {
			hasChild[p] = true
		}
	}
	var t []int
	for i := 0; i < n; i++ {
		if mask>>i&1 == 1 && !hasChild[i] {
			t = append(t, i)
		}
	}
	return t
}

func i36AncestorClosed(d fw.DAG, mask int) bool {
	for i := range d.Parents {
		if mask>>i&1 == 1 {
			for _, p := range d.Parents[i] {
				if mask>>p&1 == 0 {
					return false
				}
			}
		}
	}
	return true
}

func i36MaxBit(mask int) int {
	m := -1
	for i := 0; mask>>i != 0; i++ {
		if mask>>i&1 == 1 {
			m = i
		}
	}
	return m
}

// i36ServerRefs: a branch b<i> on every tip of the sub-DAG, main on the highest
// commit (or on the diverged commit x on top of it), the tags when commit 0 is
// part of the history.
func i36ServerRefs(b *i36Base, mask int, withX bool) map[string]string {
	refs := map[string]string{}
	top := i36MaxBit(mask)
	for _, t := range i36Tips(b.dag, mask) {
		if withX && t == top {
			continue
		}
		refs[fmt.Sprintf("refs/heads/b%d", t)] = b.ids[t]
	}
	if withX {
		refs["refs/heads/main"] = b.x[top]
	} else {
		refs["refs/heads/main"] = b.ids[top]
	}
	if mask&1 == 1 {
		for k, v := range b.tags {
			if k == "refs/tags/tl" && mask>>b.tl&1 == 0 {
				continue
			}
			refs[k] = v
		}
	}
	return refs
}

func i36MakeServer(c *fw.Ctx, b *i36Base, mask int, withX bool) *i36Srv {
	dir := c.TempDir("c36srv")
	c.Must(iCopyDir(b.dir, dir), "copy base repository")
	c.Must(os.RemoveAll(filepath.Join(dir, "refs")), "reset refs")
	os.Remove(filepath.Join(dir, "packed-refs"))
	refs := i36ServerRefs(b, mask, withX)
	// Both reference stores are in use on every server: main and the annotated
	// tag ta are loose files, every other reference lives in packed-refs (no
	// header line: git then peels tags itself), where main additionally has a
	// stale value (commit 0) that its loose file hides.
	var packed strings.Builder
	for _, name := range iSortedKeys(refs) {
		id := refs[name]
		if name == "refs/heads/main" || name == "refs/tags/ta" {
			p := filepath.Join(dir, name)
			c.Must(os.MkdirAll(filepath.Dir(p), 0o755), "mkdir ref")
			c.Must(os.WriteFile(p, []byte(id+"\n"), 0o644), "write ref")
			if name != "refs/heads/main" {
				continue
			}
			id = b.ids[0]
		}
		fmt.Fprintf(&packed, "%s %s\n", id, name)
	}
	c.Must(os.WriteFile(filepath.Join(dir, "packed-refs"), []byte(packed.String()), 0o644), "write packed-refs")
	os.MkdirAll(filepath.Join(dir, "refs", "heads"), 0o755)
	os.MkdirAll(filepath.Join(dir, "refs", "tags"), 0o755)
	c.Must(os.WriteFile(filepath.Join(dir, "HEAD"), []byte("ref: refs/heads/main\n"), 0o644), "write HEAD")
	return &i36Srv{dir: dir, refs: refs}
}

// ---------------------------------------------------------------------------
// requests

type i36Prior struct {
	Kind string // empty | sub | div | shallow | shallow2
	Mask int
}

func (p i36Prior) String() string {
	if p.Kind == "empty" {
		return "empty"
	}
	return fmt.Sprintf("%s(%b)", p.Kind, p.Mask)
}

var i36Specs = []struct {
	Name string
	Spec string
}{
	{"default", "+refs/heads/*:refs/remotes/origin/*"},
	{"single", "+refs/heads/main:refs/remotes/origin/main"},
	{"mirror", "+refs/*:refs/*"},
}

var i36TagNames = []string{"following", "all", "none"}
var i36TagModes = []plumbing.TagMode{plumbing.TagFollowing, plumbing.AllTags, plumbing.NoTags}

type i36Req struct {
	Op    string // fetch | clone
	Base  string
	Prior string
	Spec  string
	Tags  string
	Depth int
	Prune bool
}

func (r i36Req) String() string {
	return fmt.Sprintf("%s %s prior=%s spec=%s tags=%s depth=%d prune=%v", r.Op, r.Base, r.Prior, r.Spec, r.Tags, r.Depth, r.Prune)
}

// refspec mapping (one '*' at most).
func i36Map(spec, name string) (string, bool) {
	spec = strings.TrimPrefix(spec, "+")
	src, dst, _ := strings.Cut(spec, ":")
	if i := strings.IndexByte(src, '*'); i >= 0 {
		pre, suf := src[:i], src[i+1:]
		if len(name) < len(pre)+len(suf) || !strings.HasPrefix(name, pre) || !strings.HasSuffix(name, suf) {
			return "", false
		}
		mid := name[len(pre) : len(name)-len(suf)]
		return strings.Replace(dst, "*", mid, 1), true
	}
	if name == src {
		return dst, true
	}
	return "", false
}

func i36Reverse(spec string) string {
	spec = strings.TrimPrefix(spec, "+")
	src, dst, _ := strings.Cut(spec, ":")
	return dst + ":" + src
}

// i36Model is the reference model of the statement "local references equal the
// server's references mapped through the refspecs": it returns "" when `after`
// is an admissible client state.
//   - every server ref matched by a refspec (plus refs/tags/* in mode all) is
//     present under its mapped name with the server's value;
//   - with prune, a prior ref under a refspec destination whose source is gone
//     is absent;
//   - in mode following a tag may additionally appear, with the server's value
//     (which tags are auto-followed is not part of the statement);
//   - every other ref is unchanged.
func i36Model(srv, prior, after map[string]string, specs []string, tags string, prune bool, ignore map[string]bool) string {
	must := map[string]string{}
	all := append([]string{}, specs...)
	if tags == "all" {
		all = append(all, "refs/tags/*:refs/tags/*")
	}
	for _, sp := range all {
		for name, id := range srv {
			if dst, ok := i36Map(sp, name); ok {
				must[dst] = id
			}
		}
	}
	gone := map[string]bool{}
	if prune {
		for _, sp := range specs {
			rev := i36Reverse(sp)
			for name := range prior {
				if src, ok := i36Map(rev, name); ok {
					if _, onSrv := srv[src]; !onSrv {
						gone[name] = true
					}
				}
			}
		}
	}
	names := map[string]bool{}
	for k := range after {
		names[k] = true
	}
	for k := range prior {
		names[k] = true
	}
	for k := range must {
		names[k] = true
	}
	var bad []string
	for _, n := range iSortedKeys(names) {
		if ignore[n] {
			continue
		}
		got, has := after[n]
		if want, ok := must[n]; ok {
			if got != want {
				bad = append(bad, fmt.Sprintf("%s=%s want %s", n, i36Short(got), i36Short(want)))
			}
			continue
		}
		if gone[n] {
			if has {
				bad = append(bad, fmt.Sprintf("%s not pruned", n))
			}
			continue
		}
		if has && tags == "following" && strings.HasPrefix(n, "refs/tags/") && srv[n] == got {
			continue
		}
		if pv, ph := prior[n]; ph != has || pv != got {
			bad = append(bad, fmt.Sprintf("%s=%s but prior %s", n, i36Short(got), i36Short(pv)))
		}
	}
	return strings.Join(bad, "; ")
}

func i36Short(s string) string {
	if s == "" {
		return "absent"
	}
	if len(s) > 8 && !strings.HasPrefix(s, "ref:") {
		return s[:8]
	}
	return s
}

// ---------------------------------------------------------------------------

type i36Fail struct {
	order int
	key   string
	what  string
	rep   map[string]any
}

type i36Run struct {
	c             *fw.Ctx
	home          string
	self          string
	mu            sync.Mutex
	fails         []i36Fail
	failed        map[string]int    // failed (unsuccessful) requests by class
	failMsg       map[string]string // one message per class
	hung          map[string]int
	cut           bool
	oracleRefused int
	wantsDiffer   int
	httpURL       string // base URL of the in-process smart-HTTP server (go-git backend), serving absolute paths
}

// i36OverHTTP: the go-git->go-git pairing of this server runs over smart HTTP
// (stateless RPC through backend.Backend) instead of the file transport: the
// DAGs whose last commit is a second root (quick tier: the two-root DAG).
func i36OverHTTP(b *i36Base) bool {
	n := len(b.dag.Parents)
	return n >= 2 && len(b.dag.Parents[n-1]) == 0
}

func (r *i36Run) fail(order int, key, what string, rep map[string]any) {
	r.mu.Lock()
	r.fails = append(r.fails, i36Fail{order, key, what, rep})
	r.mu.Unlock()
}

func (r *i36Run) unsuccessful(class, msg string) {
	r.mu.Lock()
	r.failed[class]++
	if _, ok := r.failMsg[class]; !ok {
		if len(msg) > 300 {
			msg = msg[:300]
		}
		r.failMsg[class] = msg
	}
	r.mu.Unlock()
}

func (r *i36Run) expired() bool {
	if r.c.Expired() {
		r.mu.Lock()
		first := !r.cut
		r.cut = true
		r.mu.Unlock()
		if first {
			r.c.Incomplete("internal deadline reached; remaining requests skipped")
		}
		return true
	}
	return false
}

var i36GitConf = []string{"gc.auto=0", "maintenance.auto=false", "fetch.writeCommitGraph=false", "advice.detachedHead=false", "init.defaultBranch=main"}

// pairing ids
const (
	i36GG = "gogit->gogit"
	i36GX = "gogit->git"
	i36XG = "git->gogit"
)

// i36GoOp runs fn under the watchdog; hung=true when it did not return in time.
func i36GoOp(fn func(ctx context.Context) error) (err error, hung bool) {
	ctx, cancel := context.WithTimeout(context.Background(), iWatchdog)
	defer cancel()
	done := make(chan error, 1)
	go func() {
		defer func() {
			if p := recover(); p != nil {
				done <- fmt.Errorf("PANIC: %v", p)
			}
		}()
		done <- fn(ctx)
	}()
	select {
	case err = <-done:
		if ctx.Err() != nil {
			return err, true
		}
		return err, false
	case <-time.After(iWatchdog + 5*time.Second):
		return nil, true
	}
}

func (r *i36Run) goFetch(dir, url string, proto int, spec string, tags plumbing.TagMode, depth int, prune bool, exec bool, overHTTP bool) (error, bool) {
	f, err := os.OpenFile(filepath.Join(dir, "config"), os.O_APPEND|os.O_WRONLY, 0o644)
	if err != nil {
		fw.Abort("open client config: %v", err)
	}
	fmt.Fprintf(f, "[protocol]\n\tversion = %d\n", proto)
	f.Close()
	return i36GoOp(func(ctx context.Context) error {
		repo, err := git.PlainOpen(dir)
		if err != nil {
			return fmt.Errorf("open: %w", err)
		}
		defer repo.Close()
		o := &git.FetchOptions{RemoteName: "origin", RefSpecs: []config.RefSpec{config.RefSpec(spec)}, Depth: depth, Tags: tags, Prune: prune}
		if exec {
			o.ClientOptions = []client.Option{client.WithTransport("file", &iExecTransport{home: r.home})}
		}
		if overHTTP {
			o.RemoteURL = r.httpURL + url
		}
		err = repo.FetchContext(ctx, o)
		if errors.Is(err, git.NoErrAlreadyUpToDate) {
			err = nil
		}
		return err
	})
}

func i36GitFetchArgs(tags string, depth int, prune bool) []string {
	a := []string{"fetch", "-q", "--no-write-fetch-head"}
	if depth > 0 {
		a = append(a, fmt.Sprintf("--depth=%d", depth))
	}
	switch tags {
	case "all":
		a = append(a, "--tags")
	case "none":
		a = append(a, "--no-tags")
	}
	if prune {
		a = append(a, "--prune")
	}
	return a
}

// client template for a prior state (bare repository, origin configured).
func (r *i36Run) makePrior(b *i36Base, newSrv *i36Srv, p i36Prior, spec string, servers func(mask int, x bool) *i36Srv) (string, map[string]string, []string) {
	dir := r.c.TempDir("c36cl")
	g := fw.NewGit("", r.home).C(i36GitConf...)
	g.MustRun("init", "-q", "--bare", dir)
	writeRemote := func(url string) {
		b, err := os.ReadFile(filepath.Join(dir, "config"))
		r.c.Must(err, "read client config")
		s := string(b)
		if i := strings.Index(s, "[remote \"origin\"]"); i >= 0 {
			s = s[:i]
		}
		s += fmt.Sprintf("[remote \"origin\"]\n\turl = file://%s\n\tfetch = %s\n", url, spec)
		r.c.Must(os.WriteFile(filepath.Join(dir, "config"), []byte(s), 0o644), "write client config")
	}
	if p.Kind != "empty" {
		old := servers(p.Mask, p.Kind == "div")
		writeRemote(old.dir)
		args := []string{"fetch", "-q", "--no-write-fetch-head"}
		if p.Kind == "shallow" {
			args = append(args, "--depth=1")
		}
		if p.Kind == "shallow2" {
			args = append(args, "--depth=2")
		}
		args = append(args, "origin")
		g.In(dir).MustRun(args...)
		if p.Kind == "div" {
			// the diverged prior keeps its references in packed-refs and its objects
			// in one pack (the other priors: loose files, as git fetch leaves them)
			g.In(dir).MustRun("pack-refs", "--all")
			g.In(dir).MustRun("repack", "-a", "-d", "-q")
		}
	}
	writeRemote(newSrv.dir)
	st, err := iReadState(r.home, dir)
	r.c.Must(err, "read prior state")
	return dir, st.Refs, st.Shallow
}

func i36Eq(a, b []string) bool {
	if len(a) != len(b) {
		return false
	}
	for i := range a {
		if a[i] != b[i] {
			return false
		}
	}
	return true
}

func i36RefsEq(a, b map[string]string, ignore map[string]bool) string {
	var bad []string
	names := map[string]bool{}
	for k := range a {
		names[k] = true
	}
	for k := range b {
		names[k] = true
	}
	for _, n := range iSortedKeys(names) {
		if ignore[n] {
			continue
		}
		if a[n] != b[n] {
			bad = append(bad, fmt.Sprintf("%s=%s want %s", n, i36Short(a[n]), i36Short(b[n])))
		}
	}
	return strings.Join(bad, "; ")
}

// symbolic names for object ids in messages/keys (stable across runs anyway,
// but readable).
func (b *i36Base) sym(id string) string {
	for i, x := range b.ids {
		if x == id {
			return fmt.Sprintf("c%d", i)
		}
	}
	for i, x := range b.x {
		if x == id {
			return fmt.Sprintf("x%d", i)
		}
	}
	if id == b.u {
		return "u"
	}
	for k, v := range b.tags {
		if v == id {
			return strings.TrimPrefix(k, "refs/tags/")
		}
	}
	return i36Short(id)
}

// shallowKeys turns a shallow-boundary mismatch into finding keys. When go-git
// is the server every differing commit is classified by a predicate on the
// input (which part of the boundary walk handles it); one key per class. A
// commit no predicate explains yields a generic key carrying the signature.
func (b *i36Base) shallowKeys(pairing string, proto int, got, want []string, srv map[string]string, tagsWanted bool, op string) []string {
	generic := fmt.Sprintf("shallow %s %s %s%s", pairing, i36ProtoFam(proto), op, b.diffSig(got, want, srv))
	if pairing == i36GX {
		return []string{generic}
	}
	client := strings.Split(pairing, "->")[0]
	merge := map[int]bool{}
	for _, ps := range b.dag.Parents {
		if len(ps) > 1 {
			for k := range b.dag.Reach(ps[1:]...) {
				merge[k] = true
			}
		}
	}
	twoDepths := map[int]bool{}
	if tagsWanted && srv["refs/tags/tl"] != "" {
		tip := false
		for k, v := range srv {
			if strings.HasPrefix(k, "refs/heads/") && v == b.ids[b.tl] {
				tip = true
			}
		}
		if !tip {
			twoDepths = b.dag.Reach(b.tl)
		}
	}
	keys := map[string]bool{}
	for _, id := range i36SymDiff(got, want) {
		idx := -1
		for i, x := range b.ids {
			if x == id {
				idx = i
			}
		}
		switch {
		case id == b.u:
			keys["shallow boundary of an annotated-tag want, server=gogit client="+client] = true
		case idx >= 0 && merge[idx]:
			keys["shallow boundary behind a non-first parent of a merge, server=gogit client="+client] = true
		case idx >= 0 && twoDepths[idx]:
			keys["shallow boundary of a commit that is a want and also an ancestor of a want, server=gogit client="+client] = true
		default:
			return []string{generic}
		}
	}
	return iSortedKeys(keys)
}

func i36SymDiff(a, b []string) []string {
	in := func(l []string, x string) bool {
		for _, y := range l {
			if y == x {
				return true
			}
		}
		return false
	}
	var out []string
	for _, x := range a {
		if !in(b, x) {
			out = append(out, x)
		}
	}
	for _, x := range b {
		if !in(a, x) {
			out = append(out, x)
		}
	}
	return out
}

func (b *i36Base) symList(ids []string) string {
	var s []string
	for _, id := range ids {
		s = append(s, b.sym(id))
	}
	sort.Strings(s)
	return "{" + strings.Join(s, ",") + "}"
}

// normShallow drops parentless commits: a shallow mark on a root commit cuts
// nothing off and so has no effect on what the repository contains.
func (b *i36Base) normShallow(ids []string) []string {
	var out []string
	for _, id := range ids {
		root := false
		for i, x := range b.ids {
			if x == id && len(b.dag.Parents[i]) == 0 {
				root = true
			}
		}
		if !root {
			out = append(out, id)
		}
	}
	return out
}

// diffSig classifies the difference between two (normalised) shallow sets by
// the roles of the commits: "+role" go-git has an extra boundary, "-role" a
// boundary git has is missing. Roles: tip (a server branch points at it),
// tagonly (u), x (diverged), inner.
func (b *i36Base) diffSig(got, want []string, srv map[string]string) string {
	role := func(id string) string {
		if id == b.u {
			return "tagonly"
		}
		for _, x := range b.x {
			if x == id {
				return "x"
			}
		}
		for k, v := range srv {
			if v == id && strings.HasPrefix(k, "refs/heads/") {
				return "tip"
			}
		}
		return "inner"
	}
	in := func(l []string, id string) bool {
		for _, x := range l {
			if x == id {
				return true
			}
		}
		return false
	}
	set := map[string]bool{}
	for _, id := range got {
		if !in(want, id) {
			set["+"+role(id)] = true
		}
	}
	for _, id := range want {
		if !in(got, id) {
			set["-"+role(id)] = true
		}
	}
	return strings.Join(iSortedKeys(set), ",")
}

func runC36(c *fw.Ctx) {
	maxCommits := c.Pick(2, 4)
	// pairings 2 and 3 (a git process on one side) run on the DAGs with at most
	// maxCommitsX commits.
	maxCommitsX := c.Pick(1, 3)
	protosGo := []int{0, 2}
	protosGit := []int{0, 2}
	if c.Thorough() {
		protosGo = []int{0, 1, 2}
		protosGit = []int{0, 1, 2}
	}
	only := os.Getenv("C36_ONLY") // debugging aid: substring of the DAG name
	depths := []int{0, 1, 2, 3}
	if !c.Thorough() {
		depths = []int{0, 1} // deeper requests need >= 3 commits to differ
	}
	c.Bound("max_commits", maxCommits)
	c.Bound("max_commits_pairings_with_git", maxCommitsX)
	c.Bound("max_parents", 2)
	c.Bound("timestamp_orders", []string{"monotone", "inverted"})
	c.Bound("depths", depths)
	c.Bound("protocols_gogit_client", protosGo)
	c.Bound("protocols_git_client", protosGit)
	c.Bound("refspecs", []string{i36Specs[0].Spec, i36Specs[1].Spec, i36Specs[2].Spec})
	c.Bound("tag_modes", i36TagNames)
	c.Bound("pairings", []string{i36GG, i36GX, i36XG})
	c.Bound("priors", "empty; every ancestor-closed subset fetched; diverged extra commit on {all, all-but-last}; shallow depth 1 of {all, all-but-last}; shallow depth 2 of all (n>=3)")
	c.SetRule("every DAG with <= max_commits commits x 2 timestamp orders as server (branch on every tip, main, 7 tags incl. tree/blob/nested (inner tag with and without a ref of its own)/tag-only history); every derived prior client state x refspec x tag mode x depth x prune (when something is prunable) x protocol x pairing, plus clone variants; each request is first run git->git (oracle for the shallow file and conformance of the ref model), then on go-git; fsck --connectivity-only + ref model + shallow equality; non-trivial = the request transferred objects or changed refs/shallow; a class is (pairing, protocol, op, prior kind, refspec, tags, depth, prune, #refs changed, |shallow|, outcome)")
	c.Assume("git 2.39.5 fetch/clone/upload-pack/fsck are the reference; the client-side prior states are produced by real git; a failed request is not a violation (statement covers successful fetches) and is only counted; auto-followed tags (mode following) are admissible iff they carry the server's value")

	r := &i36Run{c: c, home: filepath.Join(c.Scratch(), "home"), self: iSelf(), failed: map[string]int{}, failMsg: map[string]string{}, hung: map[string]int{}}
	os.MkdirAll(r.home, 0o755)
	hsrv := httptest.NewServer(backend.New(transport.NewFilesystemLoader(osfs.New("/"), false)))
	defer hsrv.Close()
	r.httpURL = hsrv.URL
	c.Bound("gogit_to_gogit_transport", "file; smart HTTP (backend.Backend on a loopback listener) for the servers whose last commit is a second root")

	// 1. bases
	type bd struct {
		d  fw.DAG
		ts int
	}
	var bds []bd
	for n := 1; n <= maxCommits; n++ {
		for _, d := range fw.DAGs(n, 2, false) {
			for ts := 0; ts < 2; ts++ {
				if n == 1 && ts == 1 {
					continue
				}
				if !c.Thorough() && ts == 1 {
					continue // quick tier: monotone timestamps only
				}
				if only != "" && !strings.Contains(i36DagName(d, ts), only) {
					continue
				}
				if os.Getenv("C36_MIN3") != "" && n < 3 { // debugging aid: only the 3+-commit DAGs
					continue
				}
				bds = append(bds, bd{d, ts})
			}
		}
	}
	// quick tier: the 3-commit DAGs join for one narrow slice only — a client
	// that is already shallow (depth 1 on every tip) deepens by 2 or 3, so that
	// several boundary commits are un-shallowed by one response.
	deepOnly := map[int]bool{}
	if !c.Thorough() && only == "" && os.Getenv("C36_MIN3") == "" {
		for _, d := range fw.DAGs(3, 2, false) {
			deepOnly[len(bds)] = true
			bds = append(bds, bd{d, 0})
		}
	}
	c.Bound("quick_deepen_slice", "3-commit DAGs x prior shallow(depth 1 of all) x default refspec x depth {2,3}")
	bases := make([]*i36Base, len(bds))
	for i := range bds {
		bases[i] = &i36Base{idx: i, dag: bds[i].d, ts: bds[i].ts, name: i36DagName(bds[i].d, bds[i].ts)}
	}
	c.Bound("servers", len(bases))

	// 2. units = (base, prior, spec) for fetch; (base, clone variant) for clone
	type unit struct {
		b     *i36Base
		prior i36Prior
		spec  int
		clone bool
	}
	var units []unit
	for _, b := range bases {
		if b == nil {
			continue
		}
		n := len(b.dag.Parents)
		full := 1<<n - 1
		var priors []i36Prior
		priors = append(priors, i36Prior{"empty", 0})
		for m := 1; m <= full; m++ {
			if i36AncestorClosed(b.dag, m) {
				priors = append(priors, i36Prior{"sub", m})
			}
		}
		for _, m := range []int{full, full &^ (1 << (n - 1))} {
			if m != 0 {
				priors = append(priors, i36Prior{"div", m}, i36Prior{"shallow", m})
			}
		}
		if n >= 3 {
			// shallow at depth 2: the client has non-shallow commits above its boundary
			priors = append(priors, i36Prior{"shallow2", full})
		}
		if deepOnly[b.idx] {
			units = append(units, unit{b: b, prior: i36Prior{"shallow", full}, spec: 0})
			continue
		}
		for _, p := range priors {
			for s := range i36Specs {
				units = append(units, unit{b: b, prior: p, spec: s})
			}
		}
		units = append(units, unit{b: b, clone: true})
	}
	if f := os.Getenv("C36_UNIT"); f != "" { // debugging aid: substring of "<prior> <spec>" or "clone"
		var sel []unit
		for _, u := range units {
			d := "clone"
			if !u.clone {
				d = u.prior.String() + " " + i36Specs[u.spec].Name
			}
			if strings.Contains(d, f) {
				sel = append(sel, u)
			}
		}
		units = sel
	}
	c.Bound("units", len(units))

	// per-base lazily created servers
	type srvKey struct {
		b    int
		mask int
		x    bool
	}
	var smu sync.Mutex
	srvs := map[srvKey]*i36Srv{}
	srvLocks := map[srvKey]*sync.Mutex{}
	getSrv := func(b *i36Base, mask int, x bool) *i36Srv {
		k := srvKey{b.idx, mask, x}
		smu.Lock()
		l, ok := srvLocks[k]
		if !ok {
			l = &sync.Mutex{}
			srvLocks[k] = l
		}
		smu.Unlock()
		l.Lock()
		defer l.Unlock()
		smu.Lock()
		s := srvs[k]
		smu.Unlock()
		if s == nil {
			s = i36MakeServer(c, b, mask, x)
			smu.Lock()
			srvs[k] = s
			smu.Unlock()
		}
		return s
	}

	c.ParDo(len(units), 0, func(ui int) {
		u := units[ui]
		if from, _ := strconv.Atoi(os.Getenv("C36_FROM")); ui < from { // debugging aid: resume a cut run
			return
		}
		if r.expired() {
			return
		}
		u.b.ensure(c)
		n := len(u.b.dag.Parents)
		full := 1<<n - 1
		newSrv := getSrv(u.b, full, false)
		if u.clone {
			r.cloneUnit(ui, u.b, newSrv, depths, protosGit, n <= maxCommitsX)
			return
		}
		ud := depths
		if deepOnly[u.b.idx] {
			ud = []int{2, 3}
		}
		r.fetchUnit(ui, u.b, newSrv, u.prior, u.spec, ud, protosGo, protosGit, n <= maxCommitsX, func(mask int, x bool) *i36Srv { return getSrv(u.b, mask, x) })
	})

	// report
	sort.Slice(r.fails, func(i, j int) bool {
		if r.fails[i].order != r.fails[j].order {
			return r.fails[i].order < r.fails[j].order
		}
		return r.fails[i].key < r.fails[j].key
	})
	for _, f := range r.fails {
		c.Fail(f.key, f.what, f.rep)
	}
	c.Extra("unsuccessful_requests_by_class", r.failed)
	c.Extra("unsuccessful_request_examples", r.failMsg)
	c.Extra("oracle_refused_requests", r.oracleRefused)
	c.Extra("executions_where_want_selection_differs_from_git_and_only_fsck_applies_to_shallow", r.wantsDiffer)
	if len(r.hung) > 0 {
		c.Extra("watchdog_expired", r.hung)
	}
}

func i36ProtoFam(p int) string {
	if p == 2 {
		return "v2"
	}
	return "v0/v1"
}

func i36FirstLine(s string) string {
	if i := strings.IndexByte(s, '\n'); i >= 0 {
		return s[:i]
	}
	return s
}

// i36ErrClass reduces an error message to a stable class (hex ids and paths removed).
func i36ErrClass(msg string) string {
	var b strings.Builder
	run := 0
	flush := func(s string) {
		if run >= 7 {
			b.WriteString("<id>")
		} else {
			b.WriteString(s)
		}
	}
	start := 0
	for i := 0; i <= len(msg); i++ {
		isHex := i < len(msg) && ((msg[i] >= '0' && msg[i] <= '9') || (msg[i] >= 'a' && msg[i] <= 'f'))
		if isHex {
			if run == 0 {
				start = i
			}
			run++
			continue
		}
		if run > 0 {
			flush(msg[start:i])
			run = 0
		}
		if i < len(msg) {
			b.WriteByte(msg[i])
		}
	}
	s := b.String()
	// drop scratch paths
	for {
		i := strings.Index(s, "/var/tmp/")
		if i < 0 {
			break
		}
		j := i
		for j < len(s) && s[j] != ' ' && s[j] != '\'' && s[j] != '\n' && s[j] != '"' {
			j++
		}
		s = s[:i] + "<path>" + s[j:]
	}
	s = strings.Join(strings.Fields(s), " ")
	if len(s) > 160 {
		s = s[:160]
	}
	return s
}

// ---------------------------------------------------------------------------
// clone

type i36CloneVar struct {
	Name    string
	Spec    string // model refspec
	Tags    string
	GitArgs []string
	Opt     func(o *git.CloneOptions)
}

var i36CloneVars = []i36CloneVar{
	{"default+alltags", i36Specs[0].Spec, "all", []string{"--no-single-branch"}, func(o *git.CloneOptions) { o.Tags = plumbing.AllTags }},
	{"default+notags", i36Specs[0].Spec, "none", []string{"--no-single-branch", "--no-tags"}, func(o *git.CloneOptions) { o.Tags = plumbing.NoTags }},
	{"single+following", i36Specs[1].Spec, "following", []string{"--single-branch", "--branch", "main"}, func(o *git.CloneOptions) {
		o.Tags = plumbing.TagFollowing
		o.SingleBranch = true
		o.ReferenceName = "refs/heads/main"
	}},
	{"single+notags", i36Specs[1].Spec, "none", []string{"--single-branch", "--branch", "main", "--no-tags"}, func(o *git.CloneOptions) {
		o.Tags = plumbing.NoTags
		o.SingleBranch = true
		o.ReferenceName = "refs/heads/main"
	}},
	{"mirror", i36Specs[2].Spec, "all", []string{"--mirror", "--no-single-branch"}, func(o *git.CloneOptions) { o.Mirror = true }},
}

func (r *i36Run) cloneUnit(ui int, b *i36Base, srv *i36Srv, depths []int, protosGit []int, withGit bool) {
	c := r.c
	url := "file://" + srv.dir
	for vi, v := range i36CloneVars {
		for _, depth := range depths {
			if r.expired() {
				return
			}
			req := i36Req{Op: "clone", Base: b.name, Prior: "none", Spec: v.Name, Tags: v.Tags, Depth: depth}
			ord := ui*1000 + vi*10 + depth
			gitArgs := func(extra ...string) []string {
				a := []string{"clone", "-q", "--no-checkout"}
				if v.Name == "mirror" {
					a = []string{"clone", "-q"}
				}
				a = append(a, v.GitArgs...)
				if depth > 0 {
					a = append(a, fmt.Sprintf("--depth=%d", depth))
				}
				return append(a, extra...)
			}
			gitDirOf := func(d string) string {
				if v.Name == "mirror" {
					return d
				}
				return filepath.Join(d, ".git")
			}
			ignore := map[string]bool{"refs/remotes/origin/HEAD": true}
			// clone model: fetch model on an empty prior + local branch main + HEAD
			check := func(st iRepoState) string {
				after := map[string]string{}
				for k, x := range st.Refs {
					after[k] = x
				}
				var bad []string
				if v.Name != "mirror" {
					if after["refs/heads/main"] != srv.refs["refs/heads/main"] {
						bad = append(bad, fmt.Sprintf("refs/heads/main=%s want %s", i36Short(after["refs/heads/main"]), i36Short(srv.refs["refs/heads/main"])))
					}
					delete(after, "refs/heads/main")
				}
				if st.Head != "ref: refs/heads/main" {
					bad = append(bad, "HEAD="+st.Head)
				}
				if m := i36Model(srv.refs, map[string]string{}, after, []string{v.Spec}, v.Tags, false, ignore); m != "" {
					bad = append(bad, m)
				}
				return strings.Join(bad, "; ")
			}
			od := filepath.Join(c.TempDir("c36or"), "r")
			ores := iGit(r.home, "", i36GitConf, gitArgs(url, od)...)
			if ores.TimedOut {
				c.Incomplete("watchdog (60 s) expired on the git->git oracle run of " + req.String())
				continue
			}
			if ores.Code != 0 {
				fw.Abort("git->git oracle clone failed: %s: %s", req, ores.Err)
			}
			ost, err := iReadState(r.home, gitDirOf(od))
			c.Must(err, "read oracle state")
			if m := check(ost); m != "" {
				fw.Abort("clone model disagrees with git->git on %s: %s", req, m)
			}
			c.TracesValidated(1)
			os.RemoveAll(filepath.Dir(od))

			type ex struct {
				pairing string
				proto   int
			}
			exs := []ex{{i36GG, 2}}
			if withGit {
				exs = append(exs, ex{i36GX, 2})
				for _, p := range protosGit {
					exs = append(exs, ex{i36XG, p})
				}
			}
			for _, e := range exs {
				cd := filepath.Join(c.TempDir("c36ex"), "r")
				c.Eval()
				var failMsg string
				var hung bool
				switch e.pairing {
				case i36GG, i36GX:
					err, h := i36GoOp(func(ctx context.Context) error {
						o := &git.CloneOptions{URL: url, Depth: depth, NoCheckout: true}
						if e.pairing == i36GG && i36OverHTTP(b) {
							o.URL = r.httpURL + srv.dir
						}
						v.Opt(o)
						if e.pairing == i36GX {
							o.ClientOptions = []client.Option{client.WithTransport("file", &iExecTransport{home: r.home})}
						}
						repo, err := git.PlainCloneContext(ctx, cd, o)
						if repo != nil {
							repo.Close()
						}
						return err
					})
					hung = h
					if err != nil {
						failMsg = err.Error()
					}
				case i36XG:
					conf := append(append([]string{}, i36GitConf...), fmt.Sprintf("protocol.version=%d", e.proto))
					res := iGit(r.home, "", conf, gitArgs("--upload-pack="+r.self+" __serve upload-pack", url, cd)...)
					hung = res.TimedOut
					if res.Code != 0 {
						failMsg = fmt.Sprintf("exit %d: %s", res.Code, strings.TrimSpace(res.Err))
					}
				}
				cls := fmt.Sprintf("%s v%d clone %s depth=%d", e.pairing, e.proto, v.Name, depth)
				if hung {
					r.mu.Lock()
					r.hung[cls]++
					r.mu.Unlock()
					c.Incomplete("watchdog (60 s) expired: " + cls + " on " + req.String())
					continue
				}
				if strings.HasPrefix(failMsg, "PANIC") {
					r.fail(ord, "panic "+e.pairing, failMsg, map[string]any{"request": req, "pairing": e.pairing, "protocol": e.proto})
					continue
				}
				if failMsg != "" {
					r.unsuccessful(fmt.Sprintf("%s v%d clone depth>0=%v :: %s", e.pairing, e.proto, depth > 0, i36ErrClass(failMsg)), req.String()+" :: "+failMsg)
					os.RemoveAll(filepath.Dir(cd))
					continue
				}
				st, err := iReadState(r.home, gitDirOf(cd))
				if err != nil {
					r.fail(ord, "unreadable refs "+e.pairing, "client refs unreadable after a successful clone: "+i36ErrClass(err.Error())+" :: "+req.String(), map[string]any{"request": req, "pairing": e.pairing, "protocol": e.proto})
					continue
				}
				rep := map[string]any{"request": req, "pairing": e.pairing, "protocol": e.proto, "server_refs": srv.refs, "client_refs": st.Refs, "client_head": st.Head, "client_shallow": st.Shallow, "git_refs": ost.Refs, "git_shallow": ost.Shallow}
				kbase := fmt.Sprintf("%s %s clone depth>0=%v", e.pairing, i36ProtoFam(e.proto), depth > 0)
				if f := iFsck(r.home, gitDirOf(cd)); f != "" {
					r.fail(ord, "incomplete "+kbase, "clone fails fsck --connectivity-only: "+i36FirstLine(f)+" :: "+req.String(), rep)
				}
				m := check(st)
				if m != "" {
					r.fail(ord, "refs "+kbase+" "+v.Name, "clone refs differ from the refspec-mapped server refs: "+m+" :: "+req.String(), rep)
				}
				if gs, ws := b.normShallow(st.Shallow), b.normShallow(ost.Shallow); !i36Eq(gs, ws) {
					for _, key := range b.shallowKeys(e.pairing, e.proto, gs, ws, srv.refs, v.Tags == "all", "clone ") {
						r.fail(ord, key, fmt.Sprintf("shallow file %s, git produces %s :: %s", b.symList(st.Shallow), b.symList(ost.Shallow), req), rep)
					}
				}
				c.Class(fmt.Sprintf("%s refs=%d shallow=%d", cls, len(st.Refs), len(st.Shallow)))
				os.RemoveAll(filepath.Dir(cd))
			}
		}
	}
}

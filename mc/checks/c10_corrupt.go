package checks

// C10, malformed idx/rev files: every single-byte substitution, every
// truncation and three extensions of the idx and of the rev file of a few
// states. Verdict per query (see c10Lenient): never a panic; a "found" answer
// must be a row of the table actually in the file (or of the original table);
// "not found"/a complete listing that contradicts the original map is only
// acceptable when the file is still structurally loadable by git's own rules
// (then the reader is simply reading other content) — a file git's loader
// refuses must be refused (an error), not answered from. MemoryIndex.Decode
// additionally verifies the trailing checksum, so it must refuse every
// substitution/truncation.

import (
	"bytes"
	"crypto/sha1"
	"crypto/sha256"
	"fmt"
	"os"
	"path/filepath"
	"regexp"
	"strings"

	"verifmc/fw"
)

type c10Row struct {
	name  string
	crc   uint32
	off   uint64
	offOK bool
}

type c10Parsed struct {
	n           int
	rows        []c10Row
	byName      map[string][]int
	regular     bool // names strictly ascending and fanout consistent with them
	allOffOK    bool
	sumOK       bool // trailing idx checksum matches
	packSum     string
	asModel     *c10Model // nil unless regular-enough to act as a map (allOffOK, distinct names and offsets)
}

const c10IdxFixed = 8 + 1024

// c10GitLoadIdxOK transcribes git's load_idx() acceptance for a v2 file
// (packfile.c): signature, version 2, monotonic fanout, size within
// [min, min+(nr-1)*8]. A v1 file (no signature) is never produced here and
// go-git does not support it, so it counts as not loadable.
func c10GitLoadIdxOK(b []byte, hs int) (ok bool, n int) {
	if len(b) < 4*256+2*hs {
		return false, 0
	}
	if len(b) < c10IdxFixed || !bytes.Equal(b[:4], []byte{0xff, 't', 'O', 'c'}) || ccBE32(b[4:]) != 2 {
		return false, 0
	}
	var nr uint32
	for i := 0; i < 256; i++ {
		v := ccBE32(b[8+4*i:])
		if v < nr {
			return false, 0
		}
		nr = v
	}
	min := uint64(c10IdxFixed) + uint64(nr)*uint64(hs+8) + uint64(2*hs)
	max := min
	if nr > 0 {
		max += uint64(nr-1) * 8
	}
	if uint64(len(b)) < min || uint64(len(b)) > max {
		return false, 0
	}
	return true, int(nr)
}

func c10ParseIdx(b []byte, hs int) *c10Parsed {
	ok, n := c10GitLoadIdxOK(b, hs)
	if !ok {
		return nil
	}
	p := &c10Parsed{n: n, byName: map[string][]int{}, regular: true, allOffOK: true}
	names := c10IdxFixed
	crcs := names + n*hs
	o32 := crcs + 4*n
	o64 := o32 + 4*n
	trailer := len(b) - 2*hs
	for i := 0; i < n; i++ {
		r := c10Row{name: string(b[names+i*hs : names+(i+1)*hs]), crc: ccBE32(b[crcs+4*i:])}
		v := ccBE32(b[o32+4*i:])
		if v&0x80000000 == 0 {
			r.off, r.offOK = uint64(v), true
		} else {
			k := int(v &^ 0x80000000)
			s := o64 + 8*k
			if s >= o64 && s+8 <= trailer {
				r.off, r.offOK = ccBE64(b[s:]), true
			}
		}
		if !r.offOK {
			p.allOffOK = false
		}
		if i > 0 && !(p.rows[i-1].name < r.name) {
			p.regular = false
		}
		p.byName[r.name] = append(p.byName[r.name], i)
		p.rows = append(p.rows, r)
	}
	cnt := 0
	for k := 0; k < 256; k++ {
		for cnt < n && int(p.rows[cnt].name[0]) <= k {
			cnt++
		}
		if int(ccBE32(b[8+4*k:])) != cnt {
			p.regular = false
		}
	}
	p.packSum = string(b[trailer : trailer+hs])
	if hs == 32 {
		s := sha256.Sum256(b[:len(b)-hs])
		p.sumOK = bytes.Equal(s[:], b[len(b)-hs:])
	} else {
		s := sha1.Sum(b[:len(b)-hs])
		p.sumOK = bytes.Equal(s[:], b[len(b)-hs:])
	}
	if p.regular && p.allOffOK {
		seen := map[uint64]bool{}
		dup := false
		var ents []c10Entry
		for _, r := range p.rows {
			if seen[r.off] {
				dup = true
			}
			seen[r.off] = true
			ents = append(ents, c10Entry{r.name, r.off, r.crc})
		}
		if !dup {
			p.asModel = c10NewModel(hs, ents)
		}
	}
	return p
}

// c10GitLoadRevOK transcribes load_revindex_from_disk() (pack-revindex.c).
func c10GitLoadRevOK(b []byte, hs, n int) bool {
	if len(b) < 12+2*hs {
		return false
	}
	if len(b) != 12+2*hs+4*n {
		return false
	}
	if !bytes.Equal(b[:4], []byte("RIDX")) || ccBE32(b[4:]) != 1 {
		return false
	}
	id := ccBE32(b[8:])
	return id == 1 || id == 2
}

type c10Case struct {
	base    *c10State
	target  string // idx | rev
	kind    string // sub | trunc | ext
	pos     int
	val     byte
	region  string
	content []byte
}

func c10IdxRegion(st *c10State, pos int) string {
	n, hs := len(st.model.ents), st.files.hs
	names := c10IdxFixed
	crcs := names + n*hs
	o32 := crcs + 4*n
	o64 := o32 + 4*n
	trailer := len(st.files.idx) - 2*hs
	switch {
	case pos < 4:
		return "magic"
	case pos < 8:
		return "version"
	case pos < c10IdxFixed:
		return "fanout"
	case pos < crcs:
		return "names"
	case pos < o32:
		return "crc"
	case pos < o64:
		return "off32"
	case pos < trailer:
		return "off64"
	case pos < trailer+hs:
		return "packsum"
	}
	return "idxsum"
}

func c10RevRegion(st *c10State, pos int) string {
	n, hs := len(st.model.ents), st.files.hs
	switch {
	case pos < 4:
		return "magic"
	case pos < 8:
		return "version"
	case pos < 12:
		return "hashid"
	case pos < 12+4*n:
		return "entries"
	case pos < 12+4*n+hs:
		return "packsum"
	}
	return "revsum"
}

func c10SubValues(b byte) []byte {
	var out []byte
	for _, v := range []byte{b ^ 0x01, b ^ 0x80, 0x00, 0xff} {
		dup := v == b
		for _, o := range out {
			if o == v {
				dup = true
			}
		}
		if !dup {
			out = append(out, v)
		}
	}
	return out
}

func c10Cases(st *c10State, target string) []c10Case {
	orig := st.files.idx
	region := c10IdxRegion
	if target == "rev" {
		orig = st.files.rev
		region = c10RevRegion
	}
	var out []c10Case
	for p := range orig {
		for _, v := range c10SubValues(orig[p]) {
			b := append([]byte(nil), orig...)
			b[p] = v
			out = append(out, c10Case{st, target, "sub", p, v, region(st, p), b})
		}
	}
	for l := 0; l < len(orig); l++ {
		out = append(out, c10Case{st, target, "trunc", l, 0, region(st, l), append([]byte(nil), orig[:l]...)})
	}
	for i, extra := range [][]byte{{0}, bytes.Repeat([]byte{0xff}, 8), bytes.Repeat([]byte{0x11}, st.files.hs)} {
		out = append(out, c10Case{st, target, "ext", i, 0, "end", append(append([]byte(nil), orig...), extra...)})
	}
	return out
}

type c10Env struct {
	M          *c10Model  // the original entries
	P          *c10Parsed // parse of the idx handed to the reader (nil = git's loader refuses it)
	revOK      bool       // git's loader accepts the rev handed to the reader
	revRegular bool       // rev entries are the true by-offset permutation of the table in the idx
	offsSame   bool       // row-wise offsets of P equal the original's
}

func (e *c10Env) isRow(h string, off uint64, crc *uint32, useOff bool) bool {
	if i, ok := e.M.byH[h]; ok {
		m := e.M.ents[i]
		if (!useOff || m.Off == off) && (crc == nil || m.CRC == *crc) {
			return true
		}
	}
	if e.P != nil {
		for _, i := range e.P.byName[h] {
			r := e.P.rows[i]
			if (!useOff || (r.offOK && r.off == off)) && (crc == nil || r.crc == *crc) {
				return true
			}
		}
	}
	return false
}

// c10Lenient returns "" when the answer is acceptable for a corrupted file.
func c10Lenient(q c10Query, got c10Ans, e *c10Env) string {
	if got.St == c10Panic {
		return "panic"
	}
	for _, x := range got.Ents { // also for partial listings ended by an error
		crc := x.CRC
		if !e.isRow(x.H, x.Off, &crc, true) {
			return "invented-entry"
		}
	}
	if got.St == c10Rejected {
		return ""
	}
	inM := func(h string) bool { _, ok := e.M.byH[h]; return ok }
	notFoundHashOK := func(h string) bool {
		if !inM(h) {
			return true
		}
		if e.P == nil {
			return false
		}
		return len(e.P.byName[h]) == 0 || !e.P.regular
	}
	switch q.Kind {
	case c10Contains:
		if got.B {
			if !e.isRow(q.H, 0, nil, false) {
				return "invented-member"
			}
			return ""
		}
		if !notFoundHashOK(q.H) {
			return "answers-from-malformed"
		}
	case c10FindOffset:
		if got.St == c10OK {
			if !e.isRow(q.H, got.N, nil, true) {
				return "invented-offset"
			}
			return ""
		}
		if !notFoundHashOK(q.H) {
			return "answers-from-malformed"
		}
	case c10FindCRC:
		if got.St == c10OK {
			crc := uint32(got.N)
			if got.N > 0xffffffff || !e.isRow(q.H, 0, &crc, false) {
				return "invented-crc"
			}
			return ""
		}
		if !notFoundHashOK(q.H) {
			return "answers-from-malformed"
		}
	case c10FindHash:
		if got.St == c10OK {
			if q.Off < 0 || !e.isRow(got.H, uint64(q.Off), nil, true) {
				return "invented-hash"
			}
			return ""
		}
		if q.Off < 0 {
			return ""
		}
		if _, ok := e.M.byO[uint64(q.Off)]; !ok {
			return ""
		}
		if e.P == nil || !e.revOK {
			return "answers-from-malformed"
		}
		if !e.offsSame || !e.revRegular {
			return ""
		}
		return "answers-from-malformed" // everything needed is intact, yet the present offset was not found
	case c10Prefix, c10Entries, c10ByOffset:
		// complete listing (ended by EOF)
		if c10SameEnts(got.Ents, e.M.answer(q).Ents) {
			return ""
		}
		if e.P == nil {
			return "answers-from-malformed"
		}
		if q.Kind == c10ByOffset && !e.revOK {
			return "answers-from-malformed"
		}
		if e.P.asModel != nil && c10SameEnts(got.Ents, e.P.asModel.answer(q).Ents) {
			return ""
		}
		irregular := !e.P.regular || e.P.asModel == nil
		if q.Kind == c10ByOffset && (!e.revRegular || !e.offsSame) {
			irregular = true
		}
		if irregular {
			return "" // rows were all checked above
		}
		return "wrong-listing"
	}
	return ""
}

var c10IdxLoadErr = regexp.MustCompile(`index file .* is too small|non-monotonic index|wrong index v[12] file size|is version \d+ and is not supported`)
var c10RevLoadErr = regexp.MustCompile(`reverse-index file .* (is too small|is corrupt|has unknown signature|has unsupported version|has unsupported hash id)`)

// c10ConformLoaders replays the two loader transcriptions against real git on
// corruptions of a pack that git indexed itself.
func c10ConformLoaders(c *fw.Ctx, st *c10State, scratch string) {
	hs := st.files.hs
	nw := 16
	dirs := make(chan string, nw)
	name := "pack-" + fw.Hex([]byte(st.files.packSum))
	for i := 0; i < nw; i++ {
		g, dir := c.InitRepo(fmt.Sprintf("c10conf%d", i), "sha1", true)
		_ = g
		pd := filepath.Join(dir, "objects", "pack")
		os.MkdirAll(pd, 0o755)
		if err := os.WriteFile(filepath.Join(pd, name+".pack"), st.files.pack, 0o644); err != nil {
			fw.Abort("%v", err)
		}
		dirs <- dir
	}
	oid := fw.Hex([]byte(st.model.ents[0].H))
	// quick: idx substitutions (b^0x80) in header+fanout, truncations around every
	// region boundary, the three extensions; rev: b^0x80 everywhere, every
	// truncation. thorough: every case of the malformed-file enumeration.
	boundary := map[int]bool{}
	{
		n := len(st.model.ents)
		for _, bnd := range []int{0, 4, 8, c10IdxFixed, c10IdxFixed + n*hs, c10IdxFixed + n*(hs+4), c10IdxFixed + n*(hs+8), len(st.files.idx) - 2*hs, len(st.files.idx) - hs, len(st.files.idx)} {
			for d := -2; d <= 2; d++ {
				boundary[bnd+d] = true
			}
		}
	}
	var cases []c10Case
	for _, cs := range c10Cases(st, "idx") {
		if !c.Thorough() {
			if cs.kind == "sub" && (cs.val != st.files.idx[cs.pos]^0x80 || cs.pos >= c10IdxFixed) {
				continue
			}
			if cs.kind == "trunc" && !boundary[cs.pos] {
				continue
			}
		}
		cases = append(cases, cs)
	}
	for _, cs := range c10Cases(st, "rev") {
		if !c.Thorough() && cs.kind == "sub" && cs.val != st.files.rev[cs.pos]^0x80 {
			continue
		}
		cases = append(cases, cs)
	}
	c.Extra("loader_conformance_cases", len(cases))
	gh := c.GitHome()
	c.ParDo(len(cases), nw, func(i int) {
		cs := cases[i]
		dir := <-dirs
		defer func() { dirs <- dir }()
		pd := filepath.Join(dir, "objects", "pack")
		idx, rev := st.files.idx, st.files.rev
		if cs.target == "idx" {
			idx = cs.content
		} else {
			rev = cs.content
		}
		os.Remove(filepath.Join(pd, name+".idx"))
		os.Remove(filepath.Join(pd, name+".rev"))
		if err := os.WriteFile(filepath.Join(pd, name+".idx"), idx, 0o644); err != nil {
			fw.Abort("%v", err)
		}
		if err := os.WriteFile(filepath.Join(pd, name+".rev"), rev, 0o644); err != nil {
			fw.Abort("%v", err)
		}
		r := gh.In(dir).RunIn([]byte(oid+"\n"), "cat-file", "--batch-check=%(objectname) %(objectsize:disk)")
		stderr := string(r.Err)
		if cs.target == "idx" {
			want, _ := c10GitLoadIdxOK(idx, hs)
			gitOK := !c10IdxLoadErr.MatchString(stderr)
			if want != gitOK {
				fw.Abort("load_idx transcription disagrees with git on %s %s@%d val=%02x: model loadable=%v, git stderr=%q", cs.target, cs.kind, cs.pos, cs.val, want, stderr)
			}
		} else {
			want := c10GitLoadRevOK(rev, hs, len(st.model.ents))
			gitOK := !c10RevLoadErr.MatchString(stderr)
			if want != gitOK {
				fw.Abort("load_revindex transcription disagrees with git on %s %s@%d val=%02x: model loadable=%v, git stderr=%q stdout=%q", cs.target, cs.kind, cs.pos, cs.val, want, stderr, r.Out)
			}
			// (git 2.39 itself may crash later on a loadable rev file with an out-of-range entry; only the loader verdict is compared)
		}
		c.TracesValidated(1)
	})
}

func c10Corrupt(c *fw.Ctx, g *fw.Git, states []*c10State, scratch string) {
	var bases []*c10State
	for _, spec := range []struct {
		hs, assign int
		subset     []int
	}{{20, 0, []int{1, 4, 5}}, {20, 0, []int{0, 2, 7, 8}}, {32, 1, []int{3, 9}}} {
		st, err := c10BuildSynth(spec.hs, spec.assign, spec.subset)
		if err != nil {
			return // already reported by the encode step
		}
		bases = append(bases, st)
	}
	var gitBase *c10State
	for _, st := range states {
		if !st.synth && st.files.hs == 20 && gitBase == nil {
			gitBase = st
		}
	}
	if gitBase == nil {
		fw.Abort("no git-written state")
	}
	bases = append(bases, gitBase)
	var labels []string
	for _, b := range bases {
		labels = append(labels, b.label)
	}
	c.Bound("malformed_base_states", labels)
	c.Bound("malformed_substitution_values", "b^0x01, b^0x80, 0x00, 0xff at every byte; every truncation; +1/+8/+hashsize bytes")

	c10ConformLoaders(c, gitBase, scratch)

	var cases []c10Case
	for _, b := range bases {
		cases = append(cases, c10Cases(b, "idx")...)
		cases = append(cases, c10Cases(b, "rev")...)
	}
	c.Extra("malformed_files", len(cases))
	alpha := map[*c10State][]c10Query{}
	for _, b := range bases {
		alpha[b] = c10Alphabet(b.files.hs, b.universe, b.offs, false)
	}
	c.ParDo(len(cases), 0, func(i int) {
		cs := cases[i]
		st := cs.base
		hs := st.files.hs
		f := st.files // copy
		if cs.target == "idx" {
			f.idx = cs.content
		} else {
			f.rev = cs.content
		}
		env := &c10Env{M: st.model}
		env.P = c10ParseIdx(f.idx, hs)
		n := len(st.model.ents)
		if env.P != nil {
			n = env.P.n
			env.offsSame = env.P.n == len(st.model.ents)
			if env.offsSame {
				orig := c10ParseIdx(st.files.idx, hs)
				for k := range orig.rows {
					if orig.rows[k].off != env.P.rows[k].off || orig.rows[k].offOK != env.P.rows[k].offOK {
						env.offsSame = false
					}
				}
			}
		}
		env.revOK = c10GitLoadRevOK(f.rev, hs, n)
		env.revRegular = env.revOK && len(f.rev) == len(st.files.rev) && bytes.Equal(f.rev[12:12+4*n], st.files.rev[12:12+4*n])
		what := fmt.Sprintf("%s-%s-%s", cs.target, cs.kind, cs.region) // fine-grained, for observation classes
		// key class of a violation: file, corruption kind, and whether git's own
		// loader would refuse the file (one missing validation gives one key).
		load := "loadable"
		if (cs.target == "idx" && env.P == nil) || (cs.target == "rev" && !env.revOK) {
			load = "unloadable"
		}
		cls := fmt.Sprintf("%s-%s-%s", cs.target, cs.kind, load)
		replay := func(im string, q string, got string) map[string]any {
			return map[string]any{"base": st.label, "file": cs.target, "corruption": cs.kind, "pos": cs.pos, "value": cs.val, "region": cs.region,
				"impl": im, "query": q, "got": got, "idx_hex": fw.Hex(f.idx), "rev_hex": fw.Hex(f.rev)}
		}
		dir := filepath.Join(scratch, "cor", fmt.Sprint(i))
		for k := range c10Impls {
			im := &c10Impls[k]
			if im.name == "memory" && cs.target == "rev" {
				continue
			}
			if im.name == "mmap" {
				os.MkdirAll(dir, 0o755)
				f.write(dir)
			}
			c.Eval()
			r, err := im.open(&f)
			if err != nil {
				if strings.HasPrefix(err.Error(), "PANIC") {
					c.Fail(fmt.Sprintf("malformed/%s/%s/open-panic", im.name, cls), fmt.Sprintf("%s panics opening a corrupted %s (%s at %d): %v", im.name, cs.target, cs.kind, cs.pos, err), replay(im.name, "open", err.Error()))
				}
				c.Class(fmt.Sprintf("%s/%s/open-rejected", im.name, what))
				continue
			}
			if im.name == "memory" {
				// Decode mirrors git's size formula and verifies the checksum of what it
				// read: a file git's loader refuses, and any substituted/truncated
				// file, must not decode. (Trailing bytes within the size window are
				// never read by the streaming decoder: accepted, answers checked below.)
				if env.P == nil || (cs.kind != "ext" && !env.P.sumOK) {
					c.Fail(fmt.Sprintf("malformed/memory/%s/accepted", cls), fmt.Sprintf("MemoryIndex decodes a corrupted idx without error (%s at %d, value %02x)", cs.kind, cs.pos, cs.val), replay(im.name, "open", "accepted"))
				}
			}
			outcome := map[string]bool{}
			for _, q := range alpha[st] {
				if !im.supports(q) || q.Kind == c10MayContain || q.Kind == c10Count {
					continue
				}
				got := r.do(q)
				c.Transitions(1)
				v := c10Lenient(q, got, env)
				if v != "" {
					if strings.HasPrefix(v, "invented") {
						v = "invented"
					}
					c.Fail(fmt.Sprintf("malformed/%s/%s/%s", im.name, cls, v),
						fmt.Sprintf("%s on a corrupted %s (%s at byte %d, region %s, base %s): %s -> %s", im.name, cs.target, cs.kind, cs.pos, cs.region, st.label, q, got),
						replay(im.name, q.String(), got.String()))
				}
				switch got.St {
				case c10Rejected:
					outcome["error"] = true
				case c10NotFound:
					outcome["notfound"] = true
				default:
					outcome["answer"] = true
				}
			}
			r.close()
			for o := range outcome {
				c.Class(fmt.Sprintf("%s/%s/%s", im.name, what, o))
			}
		}
		os.RemoveAll(dir)
		// revfile.Decode verifies both checksums and the exact length
		if cs.target == "rev" && len(st.model.ents) > 0 {
			c.Eval()
			_, err := c10RevDecode(cs.content, len(st.model.ents), st.files.packSum)
			if err == nil {
				c.Fail(fmt.Sprintf("malformed/revfile.Decode/%s/accepted", cls), fmt.Sprintf("revfile.Decode accepts a corrupted rev file (%s at %d, value %02x)", cs.kind, cs.pos, cs.val), replay("revfile.Decode", "decode", "accepted"))
			} else if strings.HasPrefix(err.Error(), "PANIC") {
				c.Fail(fmt.Sprintf("malformed/revfile.Decode/%s/panic", cls), fmt.Sprintf("revfile.Decode panics on a corrupted rev file (%s at %d): %v", cs.kind, cs.pos, err), replay("revfile.Decode", "decode", err.Error()))
			}
		}
	})
}

package checks

// C12 — index files interoperate with git in both directions.
//
// git -> go-git: every sequence (bounded length) of index-changing git
// operations, run with a private GIT_INDEX_FILE against one shared repository;
// every DISTINCT index file produced is decoded by go-git and compared with
// `git ls-files --stage --debug` (entries, stat data, stage, skip-worktree and
// intent-to-add flags), `git ls-files --resolve-undo` (REUC) and with a plain
// parse of the file for the extensions git has no dump command for (TREE,
// EOIE; that parse is itself checked against git). Decoding is repeated to
// expose order-dependent (map iteration) results.
// go-git -> git: every in-memory index with up to N entries over a name /
// stage / flag alphabet x version {2,3,4} is encoded by go-git, read by git
// (`ls-files --stage --debug`, exit status and report) and decoded again.

import (
	"bytes"
	"crypto"
	"crypto/sha1"
	"crypto/sha256"
	"fmt"
	"os"
	"path/filepath"
	"sort"
	"strconv"
	"strings"
	"sync"
	"time"

	"github.com/go-git/go-git/v6/plumbing"
	"github.com/go-git/go-git/v6/plumbing/filemode"
	ghash "github.com/go-git/go-git/v6/plumbing/hash"
	"github.com/go-git/go-git/v6/plumbing/format/index"

	"verifmc/fw"
)

func init() {
	fw.Register(&fw.Check{ID: "C12", Level: "exploration", Run: runC12, QuickBudget: 150, ThoroughBudget: 1500})
}

// c12E is the comparable view of one index entry.
type c12E struct {
	Name                                          string
	Mode                                          uint32
	Hash                                          string
	Stage                                         int
	CSec, CNsec, MSec, MNsec, Dev, Ino, UID, GID, Size uint32
	Skip, ITA                                     bool
}

func (e c12E) String() string {
	n := e.Name
	if len(n) > 40 {
		n = fmt.Sprintf("%s…(%d bytes)", n[:16], len(n))
	}
	return fmt.Sprintf("{%s %o %s s%d c%d:%d m%d:%d dev%d ino%d uid%d gid%d sz%d skip=%v ita=%v}", n, e.Mode, e.Hash, e.Stage, e.CSec, e.CNsec, e.MSec, e.MNsec, e.Dev, e.Ino, e.UID, e.GID, e.Size, e.Skip, e.ITA)
}

func c12TimeParts(t time.Time) (uint32, uint32) {
	if t.IsZero() {
		return 0, 0
	}
	return uint32(t.Unix()), uint32(t.Nanosecond())
}

func c12FromGoGit(ix *index.Index) []c12E {
	var out []c12E
	for _, e := range ix.Entries {
		cs, cn := c12TimeParts(e.CreatedAt)
		ms, mn := c12TimeParts(e.ModifiedAt)
		out = append(out, c12E{Name: e.Name, Mode: uint32(e.Mode), Hash: e.Hash.String(), Stage: int(e.Stage), CSec: cs, CNsec: cn, MSec: ms, MNsec: mn,
			Dev: e.Dev, Ino: e.Inode, UID: e.UID, GID: e.GID, Size: e.Size, Skip: e.SkipWorktree, ITA: e.IntentToAdd})
	}
	return out
}

// c12ParseLsFiles parses `git ls-files --stage --debug -z`.
func c12ParseLsFiles(b []byte) ([]c12E, error) {
	var out []c12E
	for len(b) > 0 {
		z := bytes.IndexByte(b, 0)
		if z < 0 {
			return nil, fmt.Errorf("no NUL in %q", b)
		}
		line := string(b[:z])
		b = b[z+1:]
		tab := strings.IndexByte(line, '\t')
		if tab < 0 {
			return nil, fmt.Errorf("no TAB in %q", line)
		}
		f := strings.Fields(line[:tab])
		if len(f) != 3 {
			return nil, fmt.Errorf("bad entry line %q", line[:tab])
		}
		mode, e1 := strconv.ParseUint(f[0], 8, 32)
		stage, e2 := strconv.Atoi(f[2])
		if e1 != nil || e2 != nil {
			return nil, fmt.Errorf("bad entry line %q", line[:tab])
		}
		e := c12E{Name: line[tab+1:], Mode: uint32(mode), Hash: f[1], Stage: stage}
		var flags uint32
		for i := 0; i < 5; i++ {
			nl := bytes.IndexByte(b, '\n')
			if nl < 0 {
				return nil, fmt.Errorf("truncated debug block")
			}
			dl := string(b[:nl])
			b = b[nl+1:]
			var err error
			switch i {
			case 0:
				_, err = fmt.Sscanf(dl, "  ctime: %d:%d", &e.CSec, &e.CNsec)
			case 1:
				_, err = fmt.Sscanf(dl, "  mtime: %d:%d", &e.MSec, &e.MNsec)
			case 2:
				_, err = fmt.Sscanf(dl, "  dev: %d\tino: %d", &e.Dev, &e.Ino)
			case 3:
				_, err = fmt.Sscanf(dl, "  uid: %d\tgid: %d", &e.UID, &e.GID)
			case 4:
				_, err = fmt.Sscanf(dl, "  size: %d\tflags: %x", &e.Size, &flags)
			}
			if err != nil {
				return nil, fmt.Errorf("debug line %q: %v", dl, err)
			}
		}
		e.ITA = flags&(1<<29) != 0
		e.Skip = flags&(1<<30) != 0
		out = append(out, e)
	}
	return out, nil
}

// ---------------------------------------------------------------- plain parse of the index file

type c12Ext struct {
	Sig  string
	Data []byte
}

type c12TreeEnt struct {
	Path    string
	Count   int
	Sub     int
	Hash    string
	Full    string // full directory path (reconstructed from nesting)
	Invalid bool
}

type c12Parsed struct {
	Version  uint32
	Entries  []c12E
	EntryEnd int
	Exts     []c12Ext
	Tree     []c12TreeEnt
	EOIEOff  uint32
	EOIEHash string
	HasEOIE  bool
}

func c12ParseIndex(b []byte, hs int) (*c12Parsed, error) {
	if len(b) < 12+hs || string(b[:4]) != "DIRC" {
		return nil, fmt.Errorf("bad header")
	}
	p := &c12Parsed{Version: ccBE32(b[4:])}
	n := int(ccBE32(b[8:]))
	pos := 12
	prev := ""
	for i := 0; i < n; i++ {
		if pos+40+hs+2 > len(b) {
			return nil, fmt.Errorf("entry %d truncated", i)
		}
		start := pos
		e := c12E{CSec: ccBE32(b[pos:]), CNsec: ccBE32(b[pos+4:]), MSec: ccBE32(b[pos+8:]), MNsec: ccBE32(b[pos+12:]), Dev: ccBE32(b[pos+16:]), Ino: ccBE32(b[pos+20:]),
			Mode: ccBE32(b[pos+24:]), UID: ccBE32(b[pos+28:]), GID: ccBE32(b[pos+32:]), Size: ccBE32(b[pos+36:])}
		pos += 40
		e.Hash = fw.Hex(b[pos : pos+hs])
		pos += hs
		flags := uint16(b[pos])<<8 | uint16(b[pos+1])
		pos += 2
		e.Stage = int(flags>>12) & 3
		if flags&0x4000 != 0 {
			x := uint16(b[pos])<<8 | uint16(b[pos+1])
			pos += 2
			e.ITA = x&(1<<13) != 0
			e.Skip = x&(1<<14) != 0
		}
		if p.Version == 4 {
			strip := 0
			// offset-style varint (same as pack ofs-delta)
			c := b[pos]
			pos++
			strip = int(c & 0x7f)
			for c&0x80 != 0 {
				c = b[pos]
				pos++
				strip = ((strip + 1) << 7) | int(c&0x7f)
			}
			z := bytes.IndexByte(b[pos:], 0)
			if z < 0 || strip > len(prev) {
				return nil, fmt.Errorf("v4 name")
			}
			e.Name = prev[:len(prev)-strip] + string(b[pos:pos+z])
			pos += z + 1
		} else {
			l := int(flags & 0xfff)
			if l == 0xfff {
				z := bytes.IndexByte(b[pos:], 0)
				if z < 0 {
					return nil, fmt.Errorf("long name")
				}
				l = z
			}
			e.Name = string(b[pos : pos+l])
			pos += l
			// 1-8 NULs so that the entry length is a multiple of 8
			pos = start + ((pos-start)+8)&^7
		}
		prev = e.Name
		p.Entries = append(p.Entries, e)
	}
	p.EntryEnd = pos
	for pos+8+hs <= len(b) {
		sig := string(b[pos : pos+4])
		l := int(ccBE32(b[pos+4:]))
		if pos+8+l+hs > len(b) {
			return nil, fmt.Errorf("extension %q overruns", sig)
		}
		p.Exts = append(p.Exts, c12Ext{sig, b[pos+8 : pos+8+l]})
		pos += 8 + l
	}
	if pos+hs != len(b) {
		return nil, fmt.Errorf("trailing bytes: pos %d len %d", pos, len(b))
	}
	for _, x := range p.Exts {
		switch x.Sig {
		case "TREE":
			d := x.Data
			// nesting: a stack of remaining subtree counts
			type fr struct {
				path string
				left int
			}
			var stack []fr
			for len(d) > 0 {
				z := bytes.IndexByte(d, 0)
				sp := bytes.IndexByte(d, ' ')
				nl := bytes.IndexByte(d, '\n')
				if z < 0 || sp < z || nl < sp {
					return nil, fmt.Errorf("TREE entry")
				}
				t := c12TreeEnt{Path: string(d[:z])}
				t.Count, _ = strconv.Atoi(string(d[z+1 : sp]))
				t.Sub, _ = strconv.Atoi(string(d[sp+1 : nl]))
				d = d[nl+1:]
				if t.Count >= 0 {
					t.Hash = fw.Hex(d[:hs])
					d = d[hs:]
				} else {
					t.Invalid = true
				}
				for len(stack) > 0 && stack[len(stack)-1].left == 0 {
					stack = stack[:len(stack)-1]
				}
				if len(stack) > 0 {
					stack[len(stack)-1].left--
					t.Full = strings.TrimPrefix(stack[len(stack)-1].path+"/"+t.Path, "/")
				}
				stack = append(stack, fr{t.Full, t.Sub})
				p.Tree = append(p.Tree, t)
			}
		case "EOIE":
			p.HasEOIE = true
			p.EOIEOff = ccBE32(x.Data)
			p.EOIEHash = fw.Hex(x.Data[4 : 4+hs])
		}
	}
	return p, nil
}

// ---------------------------------------------------------------- git -> go-git

type c12Op struct {
	Name  string
	Args  []string
	Stdin string
	Conf  []string
	Then  []c12Op // further commands on the same index file: a compound operation (one state transition)
}

type c12World struct {
	g    *fw.Git
	dir  string
	of   string
	hs   int
	ops  []c12Op
	blob [4]string
}

func c12LongName(n int, tag string) string {
	// components of at most 200 bytes, total exactly n
	var b strings.Builder
	b.WriteString("L" + tag + "/")
	for b.Len() < n {
		k := n - b.Len()
		if k > 201 {
			b.WriteString(strings.Repeat("x", 200) + "/")
		} else {
			b.WriteString(strings.Repeat("y", k))
		}
	}
	return b.String()
}

func c12BuildWorld(c *fw.Ctx, of string) *c12World {
	g, dir := c.InitRepo("c12-"+of, of, false)
	w := &c12World{g: g, dir: dir, of: of, hs: 20}
	if of == "sha256" {
		w.hs = 32
	}
	old := time.Date(2001, 2, 3, 4, 5, 6, 789000000, time.UTC)
	wr := func(name, body string, mt time.Time) {
		p := filepath.Join(dir, name)
		os.MkdirAll(filepath.Dir(p), 0o755)
		if err := os.WriteFile(p, []byte(body), 0o644); err != nil {
			fw.Abort("%v", err)
		}
		if err := os.Chtimes(p, mt, mt); err != nil {
			fw.Abort("%v", err)
		}
	}
	wr("a", "file a\n", old)
	wr("d/b", "file d/b\n", old.Add(time.Hour))
	wr("m0", "mtime zero\n", time.Unix(0, 0))
	wr("m1", "mtime one\n", time.Unix(1, 0))
	wr("m2", "mtime beyond 2^31\n", time.Unix(0x90000000, 0)) // seconds that do not fit a signed 32-bit field
	wr("n", "to be added later\n", old)
	wr("c", "resolved\n", old)
	os.Chmod(filepath.Join(dir, "d/b"), 0o755)
	for i := range w.blob {
		w.blob[i] = g.MustRunIn([]byte(fmt.Sprintf("stage content %d\n", i)), "hash-object", "-w", "--stdin").S()
	}
	b := w.blob
	info := func(lines ...string) string { return strings.Join(lines, "\n") + "\n" }
	shared := strings.Repeat("p", 130)
	// every residue of the name length modulo 8 (entry padding), without and with the extended-flags word
	var lenLines, lenSkip []string
	for l := 1; l <= 8; l++ {
		lenLines = append(lenLines, "100644 "+b[l%4]+" 0\t"+strings.Repeat("k", l), "100644 "+b[(l+1)%4]+" 0\t"+strings.Repeat("s", l))
		lenSkip = append(lenSkip, strings.Repeat("s", l))
	}
	// every non-empty subset of the three conflict stages, one path each, a different mode per stage
	stageMode := [4]string{"", "100644", "100755", "120000"}
	var subsetLines, subsetPaths []string
	for m := 1; m <= 7; m++ {
		p := fmt.Sprintf("u%d", m)
		subsetPaths = append(subsetPaths, p)
		for st := 1; st <= 3; st++ {
			if m&(1<<(st-1)) != 0 {
				subsetLines = append(subsetLines, fmt.Sprintf("%s %s %d\t%s", stageMode[st], b[(m+st)%4], st, p))
			}
		}
	}
	// an index well beyond one 4 KiB read buffer, with nested directories (many TREE entries after write-tree)
	var manyLines []string
	for i := 0; i < 300; i++ {
		manyLines = append(manyLines, fmt.Sprintf("100644 %s 0\tM/%02d/%d/f%03d", b[i%4], i%12, i%3, i))
	}
	hook := filepath.Join(c.TempDir("c12hook-"+of), "fsmonitor-hook")
	if err := os.WriteFile(hook, []byte("#!/bin/sh\nprintf 'token-1\\0/\\0'\n"), 0o755); err != nil {
		fw.Abort("%v", err)
	}
	conflictAll := c12Op{Name: "conflicts: every stage subset u1..u7", Args: []string{"update-index", "--index-info"}, Stdin: info(subsetLines...)}
	resolveAll := c12Op{Name: "resolve u1..u7 (rm --cached)", Args: append([]string{"rm", "--cached", "-q", "--ignore-unmatch"}, subsetPaths...)}
	w.ops = []c12Op{
		// compound operations first: the states they reach are checked at depth 1, whatever the time budget
		{Name: "conflicts u1..u7 then resolve all", Args: conflictAll.Args, Stdin: conflictAll.Stdin, Then: []c12Op{resolveAll}},
		{Name: "name lengths 1-8 plain and skip-worktree", Args: []string{"update-index", "--index-info"}, Stdin: info(lenLines...),
			Then: []c12Op{{Args: append([]string{"update-index", "--skip-worktree"}, lenSkip...)}}},
		conflictAll,
		resolveAll,
		{Name: "300 entries in nested directories", Args: []string{"update-index", "--index-info"}, Stdin: info(manyLines...)},
		{Name: "untracked cache", Args: []string{"update-index", "--force-untracked-cache"}, Then: []c12Op{{Args: []string{"status", "--porcelain"}}}},
		{Name: "fsmonitor extension", Args: []string{"update-index", "--fsmonitor"}, Conf: []string{"core.fsmonitor=" + hook, "core.fsmonitorHookVersion=2"}},
		{Name: "add a", Args: []string{"add", "a"}},
		{Name: "add d/b", Args: []string{"add", "d/b"}},
		{Name: "add m0 m1 m2", Args: []string{"add", "m0", "m1", "m2"}},
		{Name: "add -N n", Args: []string{"add", "-N", "n"}},
		{Name: "rm --cached a", Args: []string{"rm", "--cached", "-q", "--ignore-unmatch", "a"}},
		{Name: "skip-worktree a", Args: []string{"update-index", "--skip-worktree", "a"}},
		{Name: "assume-unchanged d/b", Args: []string{"update-index", "--assume-unchanged", "d/b"}},
		{Name: "index-version 2", Args: []string{"update-index", "--index-version", "2"}},
		{Name: "index-version 3", Args: []string{"update-index", "--index-version", "3"}},
		{Name: "index-version 4", Args: []string{"update-index", "--index-version", "4"}},
		{Name: "conflict c", Args: []string{"update-index", "--index-info"}, Stdin: info("100644 "+b[1]+" 1\tc", "100755 "+b[2]+" 2\tc", "100644 "+b[3]+" 3\tc")},
		{Name: "conflict c (2,3 only)", Args: []string{"update-index", "--index-info"}, Stdin: info("100644 "+b[2]+" 2\tc", "100644 "+b[3]+" 3\tc")},
		{Name: "resolve c", Args: []string{"add", "c"}},
		{Name: "long names 4094 4095", Args: []string{"update-index", "--index-info"}, Stdin: info("100644 "+b[0]+" 0\t"+c12LongName(4094, "a"), "100644 "+b[1]+" 0\t"+c12LongName(4095, "b"))},
		{Name: "long names 4096 4100", Args: []string{"update-index", "--index-info"}, Stdin: info("100644 "+b[0]+" 0\t"+c12LongName(4096, "c"), "100644 "+b[1]+" 0\t"+c12LongName(4100, "d"))},
		{Name: "prefix pairs", Args: []string{"update-index", "--index-info"}, Stdin: info("100644 "+b[0]+" 0\t"+shared+"1", "100644 "+b[1]+" 0\t"+shared+"2", "100644 "+b[2]+" 0\tq"+strings.Repeat("q", 199), "100644 "+b[3]+" 0\tr")},
		{Name: "modes", Args: []string{"update-index", "--index-info"}, Stdin: info("100755 "+b[0]+" 0\texe", "120000 "+b[1]+" 0\tlnk", "160000 "+b[2]+" 0\tsub")},
		{Name: "write-tree", Args: []string{"write-tree", "--missing-ok"}},
		{Name: "eoie+ieot rewrite", Args: []string{"update-index", "--force-write-index"}, Conf: []string{"index.recordEndOfIndexEntries=true", "index.recordOffsetTable=true", "index.threads=2"}},
	}
	return w
}

func (w *c12World) git(idxPath string, conf ...string) *fw.Git {
	return w.g.C(conf...).With("GIT_INDEX_FILE=" + idxPath)
}

type c12Node struct {
	seq  []int
	path string // index file
}

func c12Decode(b []byte, hs int) (ix *index.Index, err error) {
	if p, what := ccGuard(func() {
		ix = &index.Index{}
		err = index.NewDecoder(bytes.NewReader(b), ghash.New(c10CryptoHash(hs))).Decode(ix)
	}); p {
		return nil, fmt.Errorf("PANIC %s", what)
	}
	return ix, err
}

func c12Diff(got, want []c12E) string {
	if len(got) != len(want) {
		return fmt.Sprintf("entry-count %d vs %d", len(got), len(want))
	}
	for i := range got {
		if got[i] != want[i] {
			g, w := got[i], want[i]
			switch {
			case g.Name != w.Name:
				return "name"
			case g.Hash != w.Hash:
				return "hash"
			case g.Mode != w.Mode:
				return "mode"
			case g.Stage != w.Stage:
				return "stage"
			case g.Skip != w.Skip || g.ITA != w.ITA:
				return "flags"
			case g.Size != w.Size:
				return "size"
			default:
				return "stat"
			}
		}
	}
	return ""
}

// c12Feature names what an index exercises (for keys and classes).
func c12Feature(p *c12Parsed, b []byte) string {
	var f []string
	f = append(f, fmt.Sprintf("v%d", p.Version))
	long, conflict, flags := false, false, false
	for _, e := range p.Entries {
		if len(e.Name) >= 0xfff {
			long = true
		}
		if e.Stage > 0 {
			conflict = true
		}
		if e.Skip || e.ITA {
			flags = true
		}
	}
	if long {
		f = append(f, "longname")
	}
	if conflict {
		f = append(f, "stages")
	}
	if flags {
		f = append(f, "extflags")
	}
	for _, x := range p.Exts {
		f = append(f, x.Sig)
	}
	return strings.Join(f, "+")
}

// checkGitIndex compares go-git's decoding of one git-written index with git's reports.
func (w *c12World) checkGitIndex(c *fw.Ctx, b []byte, path string, seqNames []string) {
	hs := w.hs
	fail := func(key, what string, extra map[string]any) {
		m := map[string]any{"object_format": w.of, "git_ops": seqNames, "index_hex_prefix": fw.Hex(b[:min(len(b), 256)]), "index_len": len(b)}
		for k, v := range extra {
			m[k] = v
		}
		c.Fail(key, fmt.Sprintf("%s (index written by git after %v, %s)", what, seqNames, w.of), m)
	}
	// the oracle
	r := w.git(path).Run("ls-files", "--stage", "--debug", "-z")
	if !r.OK() {
		fw.Abort("git ls-files on its own index after %v: %s", seqNames, r.Err)
	}
	want, err := c12ParseLsFiles(r.Out)
	if err != nil {
		fw.Abort("parse ls-files: %v", err)
	}
	p, perr := c12ParseIndex(b, hs)
	if perr != nil {
		fw.Abort("plain index parse failed after %v: %v", seqNames, perr)
	}
	if d := c12Diff(p.Entries, want); d != "" {
		fw.Abort("plain index parse disagrees with git ls-files (%s) after %v", d, seqNames)
	}
	c.Eval()
	feat := c12Feature(p, b)
	c.Class("git->go-git/" + feat)
	if len(seqNames) >= 2 {
		c.Sample(map[string]any{"direction": "git->go-git", "git_operations": seqNames, "features": feat, "index_bytes": len(b)})
	}
	ix, err := c12Decode(b, hs)
	if err != nil {
		kind := "error"
		if strings.HasPrefix(err.Error(), "PANIC") {
			kind = "panic"
		}
		fail("decode/"+kind+"/"+feat, fmt.Sprintf("go-git cannot decode: %v", err), nil)
		return
	}
	if ix.Version != p.Version {
		fail("decode/version/"+feat, fmt.Sprintf("Version %d, file says %d", ix.Version, p.Version), nil)
	}
	got := c12FromGoGit(ix)
	if d := c12Diff(got, want); d != "" {
		i := 0
		for i < len(got) && i < len(want) && got[i] == want[i] {
			i++
		}
		detail := d
		if i < len(got) && i < len(want) {
			detail = fmt.Sprintf("%s: go-git %v, git %v", d, got[i], want[i])
		}
		fail("decode/entries-"+strings.Fields(d)[0]+"/"+feat, "entries differ from git ls-files --stage --debug: "+detail, nil)
	}
	// extensions: TREE and EOIE against the plain parse (validated against git below)
	var wantTree []c12TreeEnt
	hasTree := false
	for _, x := range p.Exts {
		if x.Sig == "TREE" {
			hasTree = true
		}
	}
	for _, t := range p.Tree {
		if !t.Invalid {
			wantTree = append(wantTree, t)
		}
	}
	if hasTree != (ix.Cache != nil) {
		fail("decode/TREE-presence/"+feat, fmt.Sprintf("TREE extension present=%v, Index.Cache set=%v", hasTree, ix.Cache != nil), nil)
	} else if hasTree {
		bad := len(ix.Cache.Entries) != len(wantTree)
		for i := 0; !bad && i < len(wantTree); i++ {
			g := ix.Cache.Entries[i]
			if g.Path != wantTree[i].Path || g.Entries != wantTree[i].Count || g.Trees != wantTree[i].Sub || g.Hash.String() != wantTree[i].Hash {
				bad = true
			}
		}
		if bad {
			fail("decode/TREE-content/"+feat, fmt.Sprintf("cached-tree entries %v, file has %v", ix.Cache.Entries, wantTree), nil)
		}
	}
	if p.HasEOIE != (ix.EndOfIndexEntry != nil) {
		fail("decode/EOIE-presence/"+feat, fmt.Sprintf("EOIE present=%v, decoded=%v", p.HasEOIE, ix.EndOfIndexEntry != nil), nil)
	} else if p.HasEOIE && (ix.EndOfIndexEntry.Offset != p.EOIEOff || ix.EndOfIndexEntry.Hash.String() != p.EOIEHash) {
		fail("decode/EOIE-content/"+feat, fmt.Sprintf("EOIE %d/%s, file has %d/%s", ix.EndOfIndexEntry.Offset, ix.EndOfIndexEntry.Hash, p.EOIEOff, p.EOIEHash), nil)
	}
	if p.HasEOIE { // conformance of the plain parse: EOIE offset is where the entries end, hash covers the preceding extension headers
		if int(p.EOIEOff) != p.EntryEnd {
			fw.Abort("plain parse: entries end at %d, git's EOIE says %d", p.EntryEnd, p.EOIEOff)
		}
		h := c10CryptoHash(hs).New()
		for _, x := range p.Exts {
			if x.Sig == "EOIE" {
				break
			}
			h.Write([]byte(x.Sig))
			h.Write([]byte{byte(len(x.Data) >> 24), byte(len(x.Data) >> 16), byte(len(x.Data) >> 8), byte(len(x.Data))})
		}
		if fw.Hex(h.Sum(nil)) != p.EOIEHash {
			fw.Abort("plain parse: EOIE hash mismatch")
		}
	}
	// REUC against git ls-files --resolve-undo
	hasREUC := false
	for _, x := range p.Exts {
		if x.Sig == "REUC" {
			hasREUC = true
		}
	}
	if hasREUC != (ix.ResolveUndo != nil) {
		fail("decode/REUC-presence/"+feat, fmt.Sprintf("REUC present=%v, decoded=%v", hasREUC, ix.ResolveUndo != nil), nil)
	}
	if hasREUC {
		ru := w.git(path).MustRun("ls-files", "--resolve-undo", "-z")
		wantRU := map[string]string{} // "path\x00stage" -> hash
		for _, rec := range bytes.Split(ru.Out, []byte{0}) {
			if len(rec) == 0 {
				continue
			}
			tab := bytes.IndexByte(rec, '\t')
			f := strings.Fields(string(rec[:tab]))
			wantRU[string(rec[tab+1:])+"\x00"+f[2]] = f[1]
		}
		ruPaths := map[string]bool{}
		for k := range wantRU {
			ruPaths[k[:strings.IndexByte(k, 0)]] = true
		}
		ruOf := func(x *index.Index) map[string]string {
			m := map[string]string{}
			if x.ResolveUndo == nil {
				return m
			}
			if len(x.ResolveUndo.Entries) != len(ruPaths) {
				m["\x00entries"] = strconv.Itoa(len(x.ResolveUndo.Entries)) // one record per path, as git lists them
			}
			for _, e := range x.ResolveUndo.Entries {
				for s, h := range e.Stages {
					m[e.Path+"\x00"+strconv.Itoa(int(s))] = h.String()
				}
			}
			return m
		}
		same := func(a, b map[string]string) bool {
			if len(a) != len(b) {
				return false
			}
			for k, v := range a {
				if b[k] != v {
					return false
				}
			}
			return true
		}
		// decoding walks a Go map: repeat so that an order-dependent result shows on every run
		wrong, differ := 0, false
		first := ruOf(ix)
		const reps = 512 // an order-dependent result shows with probability >= 1/8 per decoding
		for i := 0; i < reps; i++ {
			x, err := c12Decode(b, hs)
			if err != nil {
				fail("decode/repeat-error/"+feat, fmt.Sprintf("decoding the same bytes again fails: %v", err), nil)
				break
			}
			m := ruOf(x)
			if !same(m, wantRU) {
				wrong++
			}
			if !same(m, first) {
				differ = true
			}
		}
		nStages := 0
		for range wantRU {
			nStages++
		}
		for p := range ruPaths {
			shape := ""
			for st := 1; st <= 3; st++ {
				if _, ok := wantRU[p+"\x00"+strconv.Itoa(st)]; ok {
					shape += strconv.Itoa(st)
				}
			}
			c.Class("git->go-git/REUC-stages-" + shape)
		}
		if len(ruPaths) > 1 {
			c.Class("git->go-git/REUC-several-paths")
		}
		if wrong > 0 {
			kind := "wrong"
			if differ || wrong < reps {
				kind = "nondeterministic"
			}
			fail("decode/REUC-"+kind, fmt.Sprintf("resolve-undo stage hashes differ from `git ls-files --resolve-undo` in %d of %d decodings of the same bytes (git: %d stage records)", wrong, reps, nStages),
				map[string]any{"git_resolve_undo": fmt.Sprint(wantRU), "one_decoding": fmt.Sprint(first)})
		}
	}
	// the same file with a null trailer is what git >= 2.40 writes under index.skipHash (git 2.39 cannot
	// write it, but reads it: checked once per world in c12NullTrailerConformance): same entries and
	// extensions, with and without the WithSkipHash option
	nb := append([]byte(nil), b...)
	for i := len(nb) - hs; i < len(nb); i++ {
		nb[i] = 0
	}
	for oi, opt := range [][]index.Option{nil, {index.WithSkipHash()}} {
		var x *index.Index
		var derr error
		if pn, what := ccGuard(func() {
			x = &index.Index{}
			derr = index.NewDecoder(bytes.NewReader(nb), ghash.New(c10CryptoHash(hs)), opt...).Decode(x)
		}); pn {
			derr = fmt.Errorf("PANIC %s", what)
		}
		mode := []string{"default", "WithSkipHash"}[oi]
		if derr != nil {
			fail("decode/null-trailer-error/"+mode+"/"+feat, fmt.Sprintf("the same index with a null (skipped) checksum does not decode (%s): %v", mode, derr), nil)
			continue
		}
		if d := c12Diff(c12FromGoGit(x), want); d != "" || (x.Cache != nil) != (ix.Cache != nil) || (x.ResolveUndo != nil) != (ix.ResolveUndo != nil) || (x.EndOfIndexEntry != nil) != (ix.EndOfIndexEntry != nil) ||
			(x.Cache != nil && len(x.Cache.Entries) != len(ix.Cache.Entries)) || (x.ResolveUndo != nil && len(x.ResolveUndo.Entries) != len(ix.ResolveUndo.Entries)) {
			fail("decode/null-trailer-differs/"+mode+"/"+feat, fmt.Sprintf("the same index with a null (skipped) checksum decodes differently (%s): %s", mode, d), nil)
		}
	}
	// decode twice gives equal values (entries)
	if ix2, err := c12Decode(b, hs); err != nil || c12Diff(c12FromGoGit(ix2), got) != "" {
		fail("decode/not-repeatable/"+feat, "decoding the same bytes twice gives different entries", nil)
	}
	// TREE conformance with git: hashes are the tree ids git computes (only when fully merged)
	if hasTree && !c.Expired() {
		merged := true
		for _, e := range want {
			if e.Stage != 0 || e.ITA {
				merged = false
			}
		}
		if merged {
			tmp := path + ".wt"
			os.WriteFile(tmp, b, 0o644)
			t := w.git(tmp).Run("write-tree", "--missing-ok")
			os.Remove(tmp)
			if t.OK() {
				var q []string
				var ents []c12TreeEnt
				for _, te := range wantTree {
					ents = append(ents, te)
					q = append(q, t.S()+":"+te.Full)
				}
				res := w.g.RunIn([]byte(strings.Join(q, "\n")+"\n"), "cat-file", "--batch-check=%(objectname)")
				lines := strings.Split(strings.TrimSpace(string(res.Out)), "\n")
				if len(lines) == len(ents) {
					for i, te := range ents {
						if strings.HasSuffix(lines[i], "missing") {
							continue // --missing-ok trees that reference absent blobs still exist; a missing tree means git never wrote it
						}
						if lines[i] != te.Hash {
							fw.Abort("plain TREE parse: %q has %s, git says %s (after %v)", te.Full, te.Hash, lines[i], seqNames)
						}
					}
				}
			}
		}
	}
}

func (w *c12World) explore(c *fw.Ctx, maxLen int, tailOps map[int]bool) {
	root := c.TempDir("c12idx-" + w.of)
	seen := map[[32]byte]bool{}
	var mu sync.Mutex
	level := []c12Node{{nil, ""}}
	var idSeq int
	for depth := 1; depth <= maxLen+1 && len(level) > 0; depth++ {
		type cand struct {
			parent c12Node
			op     int
			path   string
		}
		var cands []cand
		for _, n := range level {
			for op := range w.ops {
				if depth == maxLen+1 && !tailOps[op] {
					continue // the extra level only appends format-changing operations
				}
				idSeq++
				cands = append(cands, cand{n, op, filepath.Join(root, fmt.Sprintf("i%d", idSeq))})
			}
		}
		next := make([]*c12Node, len(cands))
		c.ParDo(len(cands), 0, func(i int) {
			cd := cands[i]
			var before []byte
			if cd.parent.path != "" {
				b, err := os.ReadFile(cd.parent.path)
				if err != nil {
					fw.Abort("%v", err)
				}
				before = b
				if err := os.WriteFile(cd.path, b, 0o644); err != nil {
					fw.Abort("%v", err)
				}
			}
			op := w.ops[cd.op]
			var in []byte
			if op.Stdin != "" {
				in = []byte(op.Stdin)
			}
			res := w.git(cd.path, op.Conf...).RunIn(in, op.Args...)
			for _, t := range op.Then {
				if !res.OK() {
					break
				}
				var tin []byte
				if t.Stdin != "" {
					tin = []byte(t.Stdin)
				}
				res = w.git(cd.path, append(append([]string(nil), op.Conf...), t.Conf...)...).RunIn(tin, t.Args...)
			}
			b, err := os.ReadFile(cd.path)
			if err != nil || !res.OK() || bytes.Equal(b, before) {
				os.Remove(cd.path)
				return // refused or no-op: same state as the parent
			}
			k := sha256.Sum256(b)
			mu.Lock()
			dup := seen[k]
			seen[k] = true
			mu.Unlock()
			if dup {
				os.Remove(cd.path)
				return
			}
			seq := append(append([]int(nil), cd.parent.seq...), cd.op)
			var names []string
			for _, o := range seq {
				names = append(names, w.ops[o].Name)
			}
			w.checkGitIndex(c, b, cd.path, names)
			next[i] = &c12Node{seq, cd.path}
		})
		level = level[:0]
		for _, n := range next {
			if n != nil {
				level = append(level, *n)
			}
		}
	}
	c.Extra("git_written_distinct_indexes_"+w.of, len(seen))
}

// ---------------------------------------------------------------- go-git -> git

type c12Spec struct {
	Name  string
	Stage int
	Skip  bool
	ITA   bool
}

func c12Names() []string {
	shared := strings.Repeat("s", 130)
	return []string{"a", "a/b", "a.b", "b", c12LongName(4094, "m"), c12LongName(4095, "n"), c12LongName(4097, "o"), shared + "1", shared + "2"}
}

func c12Specs(names []string) []c12Spec {
	var out []c12Spec
	for _, n := range names {
		out = append(out, c12Spec{n, 0, false, false}, c12Spec{n, 0, true, false}, c12Spec{n, 0, false, true}, c12Spec{n, 0, true, true},
			c12Spec{n, 1, false, false}, c12Spec{n, 2, false, false}, c12Spec{n, 3, false, false})
	}
	return out
}

func (w *c12World) checkGoGitIndex(c *fw.Ctx, version uint32, specs []c12Spec, path string) {
	hs := w.hs
	ix := &index.Index{Version: version}
	times := []time.Time{{}, time.Unix(1, 0), time.Unix(1700000000, 123456789), time.Unix(0, 5), time.Unix(0xfffffff0, 999999999)}
	modes := []filemode.FileMode{filemode.Regular, filemode.Executable, filemode.Symlink, filemode.Submodule}
	for i, s := range specs {
		h, _ := plumbing.FromHex(w.blob[i%4])
		ix.Entries = append(ix.Entries, &index.Entry{Hash: h, Name: s.Name, CreatedAt: times[(i+1)%5], ModifiedAt: times[(i+len(s.Name))%5], Dev: uint32(i + 1), Inode: 0xfffffff0 + uint32(i%8),
			Mode: modes[(i+s.Stage)%4], UID: 1000, GID: uint32(0x80000000), Size: uint32(len(s.Name)), Stage: index.Stage(s.Stage), SkipWorktree: s.Skip, IntentToAdd: s.ITA})
	}
	want := c12FromGoGit(ix)
	sort.SliceStable(want, func(i, j int) bool {
		if want[i].Name != want[j].Name {
			return want[i].Name < want[j].Name
		}
		return want[i].Stage < want[j].Stage
	})
	feat := fmt.Sprintf("v%d", version)
	long, st, fl := false, false, false
	for _, s := range specs {
		long = long || len(s.Name) >= 0xfff
		st = st || s.Stage > 0
		fl = fl || s.Skip || s.ITA
	}
	if long {
		feat += "+longname"
	}
	if st {
		feat += "+stages"
	}
	if fl {
		feat += "+extflags"
	}
	c.Eval()
	c.Class("go-git->git/" + feat)
	c.Sample(map[string]any{"direction": "go-git->git", "version": version, "entries": c12ShortSpecs(specs), "features": feat})
	fail := func(key, what string) {
		c.Fail(key, fmt.Sprintf("%s (index version %d, entries %v, %s)", what, version, c12ShortSpecs(specs), w.of),
			map[string]any{"version": version, "specs": c12ShortSpecs(specs), "object_format": w.of})
	}
	var buf bytes.Buffer
	var err error
	if p, what := ccGuard(func() { err = index.NewEncoder(&buf, ghash.New(c10CryptoHash(hs))).Encode(ix) }); p {
		fail("encode/panic/"+feat, "go-git panics encoding: "+what)
		return
	}
	if err != nil {
		fail("encode/error/"+feat, "go-git cannot encode: "+err.Error())
		return
	}
	b := buf.Bytes()
	if err := os.WriteFile(path, b, 0o644); err != nil {
		fw.Abort("%v", err)
	}
	defer os.Remove(path)
	r := w.git(path).Run("ls-files", "--stage", "--debug", "-z")
	if !r.OK() {
		fail("encode/git-rejects/"+feat, "git cannot read the index go-git wrote: "+strings.TrimSpace(string(r.Err)))
		return
	}
	got, perr := c12ParseLsFiles(r.Out)
	if perr != nil {
		fw.Abort("parse ls-files: %v", perr)
	}
	if d := c12Diff(got, want); d != "" {
		fail("encode/git-reads-"+strings.Fields(d)[0]+"/"+feat, "git reads different entries than were encoded: "+d)
	}
	// round trip through go-git's own decoder
	ix2, derr := c12Decode(b, hs)
	if derr != nil {
		fail("roundtrip/decode-error/"+feat, "go-git cannot decode its own output: "+derr.Error())
		return
	}
	if d := c12Diff(c12FromGoGit(ix2), want); d != "" || ix2.Version != version {
		fail("roundtrip/differs-"+strings.Fields(d+" version")[0]+"/"+feat, "decode(encode(x)) != x: "+d)
	}
}

func c12WideSpecs() []c12Spec {
	var out []c12Spec
	for l := 9; l >= 1; l-- { // fed unsorted
		for fi, ch := range []string{"k", "s", "n", "b"} {
			out = append(out, c12Spec{strings.Repeat(ch, l), 0, fi == 1 || fi == 3, fi == 2 || fi == 3})
		}
	}
	out = append(out, c12Spec{"w", 3, false, false}, c12Spec{"w", 1, false, false}, c12Spec{"w", 2, false, false},
		c12Spec{c12LongName(4094, "s"), 0, true, false}, c12Spec{c12LongName(4095, "t"), 0, false, true}, c12Spec{c12LongName(4097, "u"), 0, true, true},
		c12Spec{"w.x", 0, false, false}, c12Spec{"w/x", 0, false, false})
	return out
}

// nullTrailerConformance: git itself reads an index whose trailer is null exactly like the checksummed file.
func (w *c12World) nullTrailerConformance(c *fw.Ctx) {
	dir := c.TempDir("c12null-" + w.of)
	p := filepath.Join(dir, "i")
	w.git(p).MustRun("add", "a", "d/b")
	w.git(p).MustRun("write-tree")
	a := w.git(p).MustRun("ls-files", "--stage", "--debug", "-z")
	b, err := os.ReadFile(p)
	if err != nil {
		fw.Abort("%v", err)
	}
	for i := len(b) - w.hs; i < len(b); i++ {
		b[i] = 0
	}
	if err := os.WriteFile(p, b, 0o644); err != nil {
		fw.Abort("%v", err)
	}
	r := w.git(p).Run("ls-files", "--stage", "--debug", "-z")
	if !r.OK() || !bytes.Equal(r.Out, a.Out) {
		fw.Abort("git does not read a null-trailer index like the checksummed one: %s", r.Err)
	}
	c.TracesValidated(1)
}

func c12ShortSpecs(specs []c12Spec) string {
	var s []string
	if len(specs) > 8 {
		return fmt.Sprintf("wide index of %d entries", len(specs))
	}
	for _, x := range specs {
		n := x.Name
		if len(n) > 12 {
			n = fmt.Sprintf("%s…[%d]", n[:6], len(n))
		}
		f := ""
		if x.Skip {
			f += "S"
		}
		if x.ITA {
			f += "N"
		}
		s = append(s, fmt.Sprintf("%s:%d%s", n, x.Stage, f))
	}
	return strings.Join(s, " ")
}

func runC12(c *fw.Ctx) {
	gitLen := c.Pick(2, 3)
	maxEntries := c.Pick(2, 3)
	c.Bound("git_ops_sequence_length", gitLen)
	c.Bound("git_ops_extra_tail", "one more operation from {index-version 2|3|4, eoie+ieot rewrite, write-tree}")
	c.Bound("gogit_index_max_entries", maxEntries)
	c.Bound("versions", []int{2, 3, 4})
	c.SetRule("git->go-git: all sequences of git index operations (add, add -N, rm --cached, skip-worktree, assume-unchanged, index-version 2/3/4, 3-stage and 2-stage conflicts via --index-info, resolve, conflicts over every non-empty stage subset on seven paths with a distinct mode per stage and their resolution (multi-record REUC), names of every length 1-8 with and without the extended-flags word, 300 entries in nested directories, untracked-cache and fsmonitor extensions, an mtime beyond 2^31 s, names of 4094/4095/4096/4100 bytes, 130-byte shared prefixes and a 200-byte strip, exec/symlink/gitlink modes, write-tree, EOIE+IEOT rewrite) of the stated length plus one format-changing tail operation, each distinct index file compared entry by entry with `git ls-files --stage --debug`, `--resolve-undo`, and a git-validated plain parse for TREE/EOIE, and decoded again with a null (skipped) trailer with and without WithSkipHash; go-git->git: all sets of up to N (name, stage, flags) entries over 9 names x {stage 0 with none/skip/intent/both, stages 1-3} x versions 2-4 encoded by go-git, read back by git and by go-git; a class is a distinct feature combination (version, long name, stages, extended flags, extensions) per direction")
	c.Assume("git 2.39.5 ls-files is the reference; the assume-valid bit has no field in go-git's Entry and is not compared; index.skipHash needs git >= 2.40 and is exercised only through go-git's own round trip; sparse-index (sdir) and split-index (link) are mandatory extensions go-git documents as unsupported")

	// sha256 (32-byte ids change every entry's padding): full depth in thorough, depth 1 (+ tail) in quick
	worlds := []*c12World{c12BuildWorld(c, "sha1"), c12BuildWorld(c, "sha256")}
	c.Bound("git_ops_sequence_length_sha256", c.Pick(1, gitLen))
	c.Bound("gogit_index_max_entries_sha256", c.Pick(1, maxEntries))
	c.Bound("gogit_wide_index", "one index per version and object format with names of 1-9 bytes x {plain, skip-worktree, intent-to-add, both}, three conflict stages, 4094/4095/4097-byte names with flags")
	for _, w := range worlds {
		w.nullTrailerConformance(c)
	}
	// first (cheap, and independent of the time budget): one wide index per version and object format with every
	// name-length residue under every flag combination, stages, long names with flags
	for _, w := range worlds {
		dir := c.TempDir("c12wide-" + w.of)
		wide := c12WideSpecs()
		for _, v := range []uint32{2, 3, 4} {
			w.checkGoGitIndex(c, v, wide, filepath.Join(dir, fmt.Sprintf("wide%d", v)))
		}
	}
	for _, w := range worlds {
		if w.of == "sha256" && !c.Thorough() {
			continue // after sha1, below
		}
		tail := map[int]bool{}
		for i, o := range w.ops {
			if strings.HasPrefix(o.Name, "index-version") || strings.HasPrefix(o.Name, "eoie") || o.Name == "write-tree" {
				tail[i] = true
			}
		}
		w.explore(c, gitLen, tail)
	}

	if !c.Thorough() {
		w := worlds[1]
		tail := map[int]bool{}
		for i, o := range w.ops {
			if strings.HasPrefix(o.Name, "index-version") || strings.HasPrefix(o.Name, "eoie") || o.Name == "write-tree" {
				tail[i] = true
			}
		}
		w.explore(c, 1, tail)
	}

	// go-git -> git
	names := c12Names()
	if !c.Thorough() {
		names = append(names[:3:3], names[5], names[6], names[7], names[8])
	}
	specs := c12Specs(names)
	c.Bound("gogit_names", len(names))
	for _, w := range worlds {
		type job struct {
			v   uint32
			set []int
		}
		var jobs []job
		me := maxEntries
		if w.of == "sha256" && !c.Thorough() {
			me = 1
		}
		for _, sub := range fw.Subsets(len(specs), me) {
			// one (name, stage) once; stage 0 and higher stages of one name never coexist
			ok := true
			for i := 0; i < len(sub) && ok; i++ {
				for j := i + 1; j < len(sub); j++ {
					a, b := specs[sub[i]], specs[sub[j]]
					if a.Name == b.Name && (a.Stage == b.Stage || a.Stage == 0 || b.Stage == 0) {
						ok = false
					}
				}
			}
			if !ok {
				continue
			}
			for _, v := range []uint32{2, 3, 4} {
				jobs = append(jobs, job{v, sub})
			}
		}
		c.Extra("gogit_written_indexes_"+w.of, len(jobs))
		dir := c.TempDir("c12enc-" + w.of)
		c.ParDo(len(jobs), 0, func(i int) {
			j := jobs[i]
			var ss []c12Spec
			// feed entries in reverse so that the encoder's sort matters
			for k := len(j.set) - 1; k >= 0; k-- {
				ss = append(ss, specs[j.set[k]])
			}
			w.checkGoGitIndex(c, j.v, ss, filepath.Join(dir, fmt.Sprintf("e%d", i)))
		})
	}
	// skipHash round trip (go-git only: git 2.39 has no index.skipHash)
	for _, hs := range []int{20, 32} {
		ix := &index.Index{Version: 2}
		h, _ := plumbing.FromHex(strings.Repeat("ab", hs))
		ix.Entries = append(ix.Entries, &index.Entry{Name: "a", Hash: h, Mode: filemode.Regular})
		var buf bytes.Buffer
		err := index.NewEncoder(&buf, ghash.New(c10CryptoHash(hs)), index.WithSkipHash()).Encode(ix)
		c.Eval()
		if err != nil || !bytes.Equal(buf.Bytes()[buf.Len()-hs:], make([]byte, hs)) {
			c.Fail("encode/skiphash-trailer", fmt.Sprintf("WithSkipHash does not write a null trailer (err %v)", err), nil)
			continue
		}
		for _, opt := range [][]index.Option{nil, {index.WithSkipHash()}} {
			ix2 := &index.Index{}
			if err := index.NewDecoder(bytes.NewReader(buf.Bytes()), ghash.New(c10CryptoHash(hs)), opt...).Decode(ix2); err != nil || len(ix2.Entries) != 1 || ix2.Entries[0].Name != "a" {
				c.Fail("roundtrip/skiphash", fmt.Sprintf("a null-checksum index does not decode back (err %v)", err), nil)
			}
		}
	}
	_ = crypto.SHA1
	_ = sha1.Size
}
